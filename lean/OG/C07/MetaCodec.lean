/-
C07 — metadata codecs of a TSSP file (engine/immutable/tssp_file_meta.go, chunk_meta_codec.go,
trailer.go, table_stat.go; lib/codec/codec.go):

  * `EncodeInt64sWithScale / DecodeInt64sWithScale` (lib/codec): a list of int64 as a scale
    index, then the uvarints of its wrapping deltas divided by 1, 10^3, 10^6 or 10^9;
  * `ChunkMeta.marshal / unmarshal` — the plain layout;
  * `MarshalChunkMeta / UnmarshalChunkMeta` of chunk_meta_codec.go — the self-compressing
    layout (uvarint attributes, scaled time ranges, column names as indexes into the trailer's
    `ChunkMetaHeader`, one segment offset + sizes);
  * `MetaIndex.marshal / unmarshal` (and the detached variant);
  * `Trailer.Marshal / Unmarshal` with `TableStat` and `ExtraData`.

int64 fields are 64-bit patterns (`W`); on the wire `numberenc.MarshalInt64Append` is the
regenerated zig-zag followed by eight big-endian bytes.  `none` = error return or panic.
-/
import OG.C07.IntBlock

namespace OG.C07
open OG.Gen.C07

/-! ### shared readers -/

/-- `numberenc.MarshalInt64Append` -/
def i64 (x : W) : Bytes := be 8 (marshalInt64Zz x).toNat

/-- `numberenc.UnmarshalInt64(src), src[8:]` -/
def readI64 (bs : Bytes) : Option (W × Bytes) :=
  match readBE 8 bs with
  | none => none
  | some (n, r) => some (unmarshalInt64Zz (BitVec.ofNat 64 n), r)

/-- `n` items read one after the other. -/
def readN {α : Type} (f : Bytes → Option (α × Bytes)) : Nat → Bytes → Option (List α × Bytes)
  | 0, bs => some ([], bs)
  | n + 1, bs =>
    match f bs with
    | none => none
    | some (a, r) =>
      match readN f n r with
      | none => none
      | some (as, r') => some (a :: as, r')

/-- `binary.Uvarint(buf)` with the rest of the buffer. -/
def readUvarint (bs : Bytes) : Option (Nat × Bytes) :=
  match uvarint bs with
  | none => none
  | some (v, n) => some (v, bs.drop n)

/-! ### lib/codec: int64 lists with a decimal scale -/

/-- wrap to int64 -/
def wrap64 (x : Int) : Int := (x + 2 ^ 63) % 2 ^ 64 - 2 ^ 63

/-- `uint64(v)` of an int64 -/
def u64 (x : Int) : Nat := (x % 2 ^ 64).toNat

/-- `scales[i]` (0 outside the table: never used by the writer, a panic in the reader). -/
def codecScaleAt (i : Nat) : Int := ((codecScales[i]?).getD 0 : Nat)

/-- `scale(v)`: the largest table index whose scale divides `v` (Go `%` on int64). -/
def codecScaleDown (v : Int) : Nat → Nat
  | 0 => if v.tmod (codecScaleAt 0) = 0 then 0 else codecScales.length - 1
  | i + 1 => if v.tmod (codecScaleAt (i + 1)) = 0 then i + 1 else codecScaleDown v i

def codecScaleOf (v : Int) : Nat := codecScaleDown v (codecScales.length - 1)

/-- the wrapping deltas the writer stores: `v₀, v₁-v₀, …` -/
def wdeltas (prev : Int) : List Int → List Int
  | [] => []
  | v :: vs => wrap64 (v - prev) :: wdeltas v vs

/-- `findScaleIdx`: the smallest `scale` over the stored deltas. -/
def findScaleIdx (ds : List Int) : Nat := ds.foldl (fun idx d => min idx (codecScaleOf d)) (codecScales.length - 1)

/-- `findScaleIdx` as it was written: the smallest `scale` over the *values*. -/
def findScaleIdxValues (vs : List Int) : Nat := vs.foldl (fun idx v => min idx (codecScaleOf v)) (codecScales.length - 1)

def encodeScaledWith (idx : Nat) (vs : List Int) : Bytes :=
  UInt8.ofNat idx :: (wdeltas 0 vs).flatMap fun d => putUvarint (u64 (d.tdiv (codecScaleAt idx)))

/-- `EncodeInt64sWithScale(dst, int64s)`: the bytes appended. -/
def encodeScaled (vs : List Int) : Bytes := encodeScaledWith (findScaleIdx (wdeltas 0 vs)) vs

def encodeScaledAsWritten (vs : List Int) : Bytes := encodeScaledWith (findScaleIdxValues vs) vs

def decodeScaledGo (s : Int) : Nat → Option Int → Bytes → Option (List Int × Bytes)
  | 0, _, bs => some ([], bs)
  | n + 1, prev, bs =>
    match readUvarint bs with
    | none => none
    | some (u, r) =>
      let v0 := wrap64 (wrap64 (u : Int) * s)
      let v := match prev with | none => v0 | some p => wrap64 (v0 + p)
      match decodeScaledGo s n (some v) r with
      | none => none
      | some (vs, r') => some (v :: vs, r')

/-- `DecodeInt64sWithScale(src, dst...)` for `n` destinations. -/
def decodeScaled (n : Nat) : Bytes → Option (List Int × Bytes)
  | [] => none
  | b :: r =>
    match codecScales[b.toNat]? with
    | none => none         -- index out of range
    | some s => decodeScaledGo (s : Nat) n none r

/-! ### chunk meta -/

structure SegM where
  offset : W
  size : Nat
deriving DecidableEq, Repr

structure ColMetaM where
  name : Bytes
  ty : UInt8
  preAgg : Bytes
  entries : List SegM
deriving DecidableEq, Repr

structure ChunkMetaM where
  sid : Nat
  offset : W
  size : Nat
  columnCount : Nat
  segCount : Nat
  timeRange : List (W × W)
  cols : List ColMetaM
deriving DecidableEq, Repr

/-- `record.TimeField` = "time" -/
def timeFieldName : Bytes := [116, 105, 109, 101]

/-- `zeroPreAgg` -/
def zeroPreAgg : Bytes := List.replicate 48 0

def segmentLen : Nat := 12
def minMaxTimeLen : Nat := 16
def columnMetaLenMin : Nat := 2 + 1 + 2 + 2 + segmentLen
def chunkMetaMinLen : Nat := 8 * 2 + 4 * 3 + minMaxTimeLen + columnMetaLenMin * 2

def marshalSeg (e : SegM) : Bytes := i64 e.offset ++ be 4 e.size

def marshalRange (t : W × W) : Bytes := i64 t.1 ++ i64 t.2

/-- what is written for the pre-aggregation block: nothing when pre-aggregation is switched
off and the column is not the time column. -/
def writtenPreAgg (preAggOn : Bool) (c : ColMetaM) : Bytes :=
  if preAggOn ∨ c.name = timeFieldName then c.preAgg else []

/-- `ColumnMeta.marshal` -/
def marshalColPlain (preAggOn : Bool) (c : ColMetaM) : Bytes :=
  be 2 c.name.length ++ (c.name ++ (c.ty :: (be 2 (writtenPreAgg preAggOn c).length
    ++ (writtenPreAgg preAggOn c ++ c.entries.flatMap marshalSeg))))

/-- `ChunkMeta.marshal` -/
def marshalCMPlain (preAggOn : Bool) (m : ChunkMetaM) : Bytes :=
  be 8 m.sid ++ (i64 m.offset ++ (be 4 m.size ++ (be 4 m.columnCount ++ (be 4 m.segCount
    ++ (m.timeRange.flatMap marshalRange ++ m.cols.flatMap (marshalColPlain preAggOn))))))

def unmarshalSeg (bs : Bytes) : Option (SegM × Bytes) :=
  if bs.length < 12 then none
  else
    match readI64 bs with
    | none => none
    | some (o, r) =>
      match readBE 4 r with
      | none => none
      | some (s, r2) => some (⟨o, s⟩, r2)

/-- `SegmentRange.unmarshal` (its length test is `len(src) < 2`; shorter than 16 panics). -/
def unmarshalRange (bs : Bytes) : Option ((W × W) × Bytes) :=
  if bs.length < 2 then none
  else
    match readI64 bs with
    | none => none
    | some (a, r) =>
      match readI64 r with
      | none => none
      | some (b, r2) => some ((a, b), r2)

/-- `ColumnMeta.unmarshalPreagg` -/
def unmarshalPreAgg (src : Bytes) : Option (Bytes × Bytes) :=
  match readBE 2 src with
  | none => none
  | some (n, r) =>
    if n = 0 then some (zeroPreAgg, r)
    else if r.length < n then none
    else some (r.take n, r.drop n)

/-- `ColumnMeta.unmarshal(src, segs)` -/
def unmarshalColPlain (segs : Nat) (src : Bytes) : Option (ColMetaM × Bytes) :=
  if src.length < 2 then none
  else
    match readBE 2 src with
    | none => none
    | some (l, r) =>
      if r.length < l + 5 then none
      else
        match r.drop l with
        | [] => none
        | ty :: r2 =>
          match unmarshalPreAgg r2 with
          | none => none
          | some (pa, r3) =>
            if r3.length < segs * segmentLen then none
            else
              match readN unmarshalSeg segs r3 with
              | none => none
              | some (es, r4) => some (⟨r.take l, ty, pa, es⟩, r4)

/-- `ChunkMeta.unmarshal` -/
def unmarshalCMPlain (src : Bytes) : Option (ChunkMetaM × Bytes) :=
  if src.length < chunkMetaMinLen then none
  else
    match readBE 8 src with
    | none => none
    | some (sid, r0) =>
      match readI64 r0 with
      | none => none
      | some (off, r1) =>
        match readBE 4 r1 with
        | none => none
        | some (size, r2) =>
          match readBE 4 r2 with
          | none => none
          | some (cc, r3) =>
            match readBE 4 r3 with
            | none => none
            | some (sc, r4) =>
              match readN unmarshalRange sc r4 with
              | none => none
              | some (trs, r5) =>
                match readN (unmarshalColPlain sc) cc r5 with
                | none => none
                | some (cols, r6) => some (⟨sid, off, size, cc, sc, trs, cols⟩, r6)

/-! #### the self-compressing layout (chunk_meta_codec.go) -/

/-- `ChunkMetaCodecCtx.GetIndex`: index of the name in the header, appended when new. -/
def getIndex (hdr : List Bytes) (name : Bytes) : Nat × List Bytes :=
  match hdr.idxOf? name with
  | some i => (i, hdr)
  | none => (hdr.length, hdr ++ [name])

/-- `MarshalColumnMeta`; `none` = panic (`col.entries[0]` of a column without segments). -/
def marshalColSelf (preAggOn : Bool) (hdr : List Bytes) (c : ColMetaM) : Option (Bytes × List Bytes) :=
  match c.entries with
  | [] => none
  | e0 :: _ =>
    let (i, hdr') := getIndex hdr c.name
    some (putUvarint i ++ (c.ty :: (UInt8.ofNat (writtenPreAgg preAggOn c).length
      :: (writtenPreAgg preAggOn c ++ (be 8 e0.offset.toNat ++ c.entries.flatMap fun e => be 4 e.size)))), hdr')

def marshalColsSelf (preAggOn : Bool) : List Bytes → List ColMetaM → Option (Bytes × List Bytes)
  | hdr, [] => some ([], hdr)
  | hdr, c :: cs =>
    match marshalColSelf preAggOn hdr c with
    | none => none
    | some (b, hdr') =>
      match marshalColsSelf preAggOn hdr' cs with
      | none => none
      | some (bs, hdr'') => some (b ++ bs, hdr'')

def flatRanges (trs : List (W × W)) : List Int := trs.flatMap fun t => [t.1.toInt, t.2.toInt]

/-- `MarshalChunkMeta` in the self-compressing mode. -/
def marshalCMSelf (preAggOn : Bool) (hdr : List Bytes) (m : ChunkMetaM) : Option (Bytes × List Bytes) :=
  match marshalColsSelf preAggOn hdr m.cols with
  | none => none
  | some (cols, hdr') =>
    some (be 8 m.sid ++ (putUvarint m.offset.toNat ++ (putUvarint m.size ++ (putUvarint m.columnCount
      ++ (putUvarint m.segCount ++ (encodeScaled (flatRanges m.timeRange) ++ cols))))), hdr')

/-- running offsets of `UnmarshalColumnMetaWithoutName`. -/
def entriesFrom (off : W) : List Nat → List SegM
  | [] => []
  | s :: ss => ⟨off, s % 2 ^ 32⟩ :: entriesFrom (off + BitVec.ofNat 64 (s % 2 ^ 32)) ss

def pairUp : List Int → List (W × W)
  | a :: b :: rest => (BitVec.ofInt 64 a, BitVec.ofInt 64 b) :: pairUp rest
  | _ => []

/-- `UnmarshalColumnMeta` -/
def unmarshalColSelf (hdr : List Bytes) (segs : Nat) (buf : Bytes) : Option (ColMetaM × Bytes) :=
  match readUvarint buf with
  | none => none                         -- name "" → "invalid column name"
  | some (idx, r) =>
    match hdr[idx]? with
    | none => none
    | some name =>
      if name = [] then none
      else if r.length < 1 + 1 + 8 + segs * 4 then none
      else
        match r with
        | ty :: n :: r2 =>
          if r2.length < n.toNat then none
          else
            let pa := if n.toNat > 0 then r2.take n.toNat else zeroPreAgg
            match readBE 8 (r2.drop n.toNat) with
            | none => none
            | some (off, r3) =>
              match readN (readBE 4) segs r3 with
              | none => none
              | some (sizes, r4) => some (⟨name, ty, pa, entriesFrom (BitVec.ofNat 64 off) sizes⟩, r4)
        | _ => none

/-- `UnmarshalChunkMeta` -/
def unmarshalCMSelf (hdr : List Bytes) (buf : Bytes) : Option (ChunkMetaM × Bytes) :=
  match readBE 8 buf with
  | none => none
  | some (sid, r0) =>
    match readUvarint r0 with
    | none => none
    | some (off, r1) =>
      match readUvarint r1 with
      | none => none
      | some (size, r2) =>
        match readUvarint r2 with
        | none => none
        | some (cc, r3) =>
          match readUvarint r3 with
          | none => none
          | some (sc, r4) =>
            match decodeScaled (2 * (sc % 2 ^ 32)) r4 with
            | none => none
            | some (ts, r5) =>
              match readN (unmarshalColSelf hdr (sc % 2 ^ 32)) (cc % 2 ^ 32) r5 with
              | none => none
              | some (cols, r6) =>
                some (⟨sid, BitVec.ofNat 64 off, size % 2 ^ 32, cc % 2 ^ 32, sc % 2 ^ 32, pairUp ts, cols⟩, r6)

/-! ### meta index -/

structure MetaIndexM where
  id : Nat
  minTime : W
  maxTime : W
  offset : W
  count : Nat
  size : Nat
deriving DecidableEq, Repr

def metaIndexLen : Nat := 40
def detachedMetaIndexLen : Nat := 36

/-- `MetaIndex.marshal` / `marshalDetached` -/
def marshalMetaIndex (detached : Bool) (m : MetaIndexM) : Bytes :=
  be 8 m.id ++ (i64 m.minTime ++ (i64 m.maxTime ++ (i64 m.offset
    ++ (if detached then be 4 m.size else be 4 m.count ++ be 4 m.size))))

def unmarshalMetaIndex (detached : Bool) (src : Bytes) : Option (MetaIndexM × Bytes) :=
  if src.length < (if detached then detachedMetaIndexLen else metaIndexLen) then none
  else
    match readBE 8 src with
    | none => none
    | some (id, r0) =>
      match readI64 r0 with
      | none => none
      | some (mn, r1) =>
        match readI64 r1 with
        | none => none
        | some (mx, r2) =>
          match readI64 r2 with
          | none => none
          | some (off, r3) =>
            if detached then
              match readBE 4 r3 with
              | none => none
              | some (size, r4) => some (⟨id, mn, mx, off, 0, size⟩, r4)
            else
              match readBE 4 r3 with
              | none => none
              | some (count, r4) =>
                match readBE 4 r4 with
                | none => none
                | some (size, r5) => some (⟨id, mn, mx, off, count, size⟩, r5)

/-! ### trailer -/

structure TrailerM where
  dataOffset : W
  dataSize : W
  indexSize : W
  metaIndexSize : W
  bloomSize : W
  idTimeSize : W
  idCount : W
  minId : Nat
  maxId : Nat
  minTime : W
  maxTime : W
  metaIndexItemNum : W
  bloomM : Nat
  bloomK : Nat
  name : Bytes
  timeStoreFlag : Nat
  chunkMetaCompressFlag : Nat
  header : Option (List Bytes)      -- `ChunkMetaHeader` (nil / values)
deriving DecidableEq, Repr

/-- `trailerSize` of table.go (unsafe.Sizeof arithmetic; a lower bound of every marshalled trailer,
reported by the implementation and compared on every run). -/
def trailerSize : Nat := 93

/-- `codec.AppendString` -/
def str16 (s : Bytes) : Bytes := be 2 s.length ++ s

/-- `ExtraData.MarshalExtraData` -/
def marshalExtra (t : TrailerM) : Bytes :=
  let tail := match t.header with
    | none => be 2 0
    | some vs => be 2 vs.length ++ vs.flatMap str16
  let size := (8 + tail.length) % 2 ^ 32
  le 8 (t.timeStoreFlag % 256 + (t.chunkMetaCompressFlag % 256) * 256 + size * 2 ^ 32) ++ tail

/-- `Trailer.Marshal` -/
def marshalTrailer (t : TrailerM) : Bytes :=
  i64 t.dataOffset ++ (i64 t.dataSize ++ (i64 t.indexSize ++ (i64 t.metaIndexSize ++ (i64 t.bloomSize
    ++ (i64 t.idTimeSize ++ (i64 t.idCount ++ (be 8 t.minId ++ (be 8 t.maxId ++ (i64 t.minTime
    ++ (i64 t.maxTime ++ (i64 t.metaIndexItemNum ++ (be 8 t.bloomM ++ (be 8 t.bloomK ++ (be 2 8
    ++ (marshalExtra t ++ (be 2 t.name.length ++ t.name))))))))))))))))

/-- `BinaryDecoder.String` repeated until the buffer is exhausted (`ChunkMetaHeader.Unmarshal`). -/
def readStrings : Nat → Bytes → Option (List Bytes)
  | _, [] => some []
  | 0, _ :: _ => none
  | fuel + 1, bs =>
    match readBE 2 bs with
    | none => none
    | some (l, r) =>
      if r.length < l then none
      else (readStrings fuel (r.drop l)).map (r.take l :: ·)

/-- `ExtraData.UnmarshalExtraData`: time-store flag, compress flag, header, rest. -/
def unmarshalExtra (src : Bytes) : Option (Nat × Nat × Option (List Bytes) × Bytes) :=
  match readBE 2 src with
  | none => none
  | some (dLen, r) =>
    if r.length < dLen then none
    else
      -- unmarshalFlag on src[:dLen]
      let buf := r.take dLen
      let new := dLen ≠ 0 ∧ dLen ≠ 1 ∧ dLen ≠ 2 ∧ 8 ≤ dLen
      let flags := unle (buf.take 8)
      let ts := if dLen = 1 ∨ dLen = 2 then (buf.headD 0).toNat else if new then flags % 256 else 0
      let cc := if dLen = 2 then ((buf.drop 1).headD 0).toNat else if new then flags / 256 % 256 else 0
      let size := if new then flags / 2 ^ 32 else 0
      let dLen' := if size > 0 then size else dLen
      if dLen' = 0 ∨ ¬ new then (if r.length < dLen' then none else some (ts, cc, none, r.drop dLen'))
      else if r.length < dLen' then none
      else if dLen' < 10 then none
      else
        let hb := (r.take dLen').drop 10
        if hb = [] then some (ts, cc, none, r.drop dLen')
        else (readStrings hb.length hb).map fun vs => (ts, cc, some vs, r.drop dLen')

/-- `Trailer.Unmarshal` -/
def unmarshalTrailer (src : Bytes) : Option (TrailerM × Bytes) :=
  if src.length < trailerSize then none
  else
    match readN readI64 7 src with
    | some ([a, b, c, d, e, f, g], r0) =>
      match readN (readBE 8) 2 r0 with
      | some ([minId, maxId], r1) =>
        match readN readI64 3 r1 with
        | some ([mnT, mxT, items], r2) =>
          match readN (readBE 8) 2 r2 with
          | some ([bm, bk], r3) =>
            match unmarshalExtra r3 with
            | none => none
            | some (ts, cc, hdr, r4) =>
              match readBE 2 r4 with
              | none => none
              | some (nl, r5) =>
                if r5.length < nl then none
                else some (⟨a, b, c, d, e, f, g, minId, maxId, mnT, mxT, items, bm, bk, r5.take nl, ts, cc, hdr⟩,
                  r5.drop nl)
          | _ => none
        | _ => none
      | _ => none
    | _ => none

end OG.C07
