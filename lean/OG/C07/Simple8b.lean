/-
C07 — simple8b (`lib/util/lifted/encoding/simple8b`), arithmetically over the regenerated
selector table.  Values and packed words are `Nat` (< 2^64 on every path the model takes).

Go: `EncodeAll` walks the `canPack(remaining, n, bits)` chain in table order; the first row
that fits packs `n` values `Σ src[i]·2^(bits·i)` under selector `k` (`k<<60`); rows with
`bits == 0` (selectors 0 and 1) store no payload and stand for `n` ones — and `canPack`
with `bits == 0` looks at *all* remaining values, not only the first `n`.
-/
import OG.C07.Base
import OG.Generated.C07

namespace OG.C07

/-- (n, bits) per selector, from the regenerated table. -/
def selTable : List (Nat × Nat) := OG.Gen.C07.selector.map fun r => (r.1, r.2.1)

/-- `canPack(src, n, bits)`. -/
def canPack (src : List Nat) (n bits : Nat) : Bool :=
  if (src.take n).length < n then false   -- `len(src) < n`, without walking the whole list
  else if bits = 0 then src.all (· == 1)
  else (src.take n).all (fun v => decide (v ≤ 2 ^ bits - 1))

/-- first row of the chain that fits: (selector index, n, bits). -/
def findSel (src : List Nat) : List (Nat × Nat) → Nat → Option (Nat × Nat × Nat)
  | [], _ => none
  | (n, b) :: t, k => if canPack src n b then some (k, n, b) else findSel src t (k + 1)

/-- `Σ vs[i]·2^(bits·i)`. -/
def packVals (bits : Nat) : List Nat → Nat
  | [] => 0
  | v :: vs => v + 2 ^ bits * packVals bits vs

def packWord (k n bits : Nat) (src : List Nat) : Nat :=
  k * 2 ^ 60 + (if bits = 0 then 0 else packVals bits (src.take n))

/-- `EncodeAll`; `none` = "value out of bounds". Fuel ≥ `src.length` suffices. -/
def encodeAllAux : Nat → List Nat → Option (List Nat)
  | 0, src => if src = [] then some [] else none
  | fuel + 1, src =>
    if src = [] then some []
    else match findSel src selTable 0 with
      | none => none
      | some (k, n, b) =>
        if n = 0 then none  -- no such row; keeps the model total
        else (encodeAllAux fuel (src.drop n)).map (packWord k n b src :: ·)

def encodeAll (src : List Nat) : Option (List Nat) := encodeAllAux src.length src

/-- `(v >> bits·i) & (2^bits − 1)` for `i < n`. -/
def unpackVals (bits : Nat) : Nat → Nat → List Nat
  | 0, _ => []
  | n + 1, v => v % 2 ^ bits :: unpackVals bits n (v / 2 ^ bits)

def decodeRow (row : Option (Nat × Nat)) (w : Nat) : Option (List Nat) :=
  match row with
  | none => none
  | some (n, b) => some (if b = 0 then List.replicate n 1 else unpackVals b n w)

/-- `Decode`: the values of one packed word (`sel = v >> 60`; `sel ≥ 16` cannot happen for a
64-bit word, the model keeps the branch as `none`). -/
def decodeWord (w : Nat) : Option (List Nat) := decodeRow (selTable[w / 2 ^ 60]?) w

def decodeAll : List Nat → Option (List Nat)
  | [] => some []
  | w :: ws => do
    let vs ← decodeWord w
    let rest ← decodeAll ws
    pure (vs ++ rest)

end OG.C07
