/-
C07 — integer blocks: `encoding.Integer.Encoding / Decoding` (lib/encoding/int.go) as called by
`EncodeIntegerBlock` / `DecodeIntegerBlock`.

Input: the int64 values of the column segment (`util.Bytes2Int64Slice(in)`), as `BitVec 64`.
`pos` is `len(out)` on entry (it takes part in the zstd fall-back decision); the model returns
the bytes *appended* to `out`.  zstd is an opaque pair `zstd / unzstd`.
-/
import OG.C07.Zigzag
import OG.C07.Simple8b

namespace OG.C07
open OG.Gen.C07

/-- in-memory bytes of a `[]int64` (little endian). -/
def leWords (xs : List W) : Bytes := xs.flatMap fun x => le 8 x.toNat

def unleWords : Nat → Bytes → List W
  | 0, _ => []
  | fuel + 1, bs =>
    if (bs.take 8).length < 8 then []
    else BitVec.ofNat 64 (unle (bs.take 8)) :: unleWords fuel (bs.drop 8)

/-- `a[i-1] == a[i]` for all adjacent pairs (`isConstDelta` accumulates this over the deltas). -/
def adjEq : List W → Bool
  | a :: b :: t => a == b && adjEq (b :: t)
  | _ => true

structure IntInit where
  zds : List W          -- enc.zigZagDeltas
  isConstDelta : Bool
  isSimple8b : Bool

/-- `Integer.init`. -/
def intInit : List W → IntInit
  | v0 :: v1 :: v2 :: rest =>
    let ds := zzDeltas v0 (v1 :: v2 :: rest)
    { zds := zz v0 :: ds
      isConstDelta := adjEq ds
      isSimple8b := ds.all fun d => !decide (d.toNat > simple8bMaxValue) }
  | _ => { zds := [], isConstDelta := false, isSimple8b := false }

def modeByte (m : Nat) : UInt8 := UInt8.ofNat (m * 16)   -- byte(m) << 4

/-- `Integer.uncompressedData` -/
def intUncompressedBytes (xs : List W) : Bytes :=
  modeByte intUncompressed :: (be 4 (8 * xs.length) ++ beWords 8 (xs.map fun x => (marshalInt64Zz x).toNat))

/-- `Integer.Encoding` (`none` = the error return). -/
def encodeInt (zstd : Bytes → Bytes) (pos : Nat) (xs : List W) : Option Bytes :=
  if xs = [] then some []
  else
    let st := intInit xs
    if st.isConstDelta then
      match st.zds with
      | z0 :: z1 :: _ =>
        some (modeByte intCompressedConstDelta :: (be 8 z0.toNat ++ (putUvarint z1.toNat
              ++ putUvarint (st.zds.length - 1))))
      | _ => none  -- unreachable: isConstDelta implies ≥ 3 values
    else if st.isSimple8b then
      match st.zds with
      | z0 :: ds =>
        match encodeAll (ds.map (·.toNat)) with
        | none => none
        | some ws =>
          some (modeByte intCompressedSimple8b :: (be 4 (ws.length + 1) ++ (be 4 st.zds.length
                ++ beWords 8 (z0.toNat :: ws))))
      | [] => none   -- unreachable
    else if st.zds.length ≥ 2 then
      let inp := leWords xs
      let enc := zstd inp
      let compLen := enc.length + (pos + 9)
      if ratioGT compLen inp.length minCompRetaNum minCompRetaDen then
        some (intUncompressedBytes xs)
      else
        some (modeByte intCompressZSTD :: (be 4 inp.length ++ (be 4 enc.length ++ enc)))
    else some (intUncompressedBytes xs)

/-- running sums of the const-delta decoder: `count` further values. -/
def constRun (prev step : W) : Nat → List W
  | 0 => []
  | n + 1 => (prev + step) :: constRun (prev + step) step n

/-- last element of `xs`, or `p` for the empty list. -/
def lastOr (p : W) : List W → W
  | [] => p
  | x :: xs => lastOr x xs

/-- values of the simple8b words, accumulated: `none` when a word does not decode. -/
def s8bRun (prev : W) : List Nat → Option (List W)
  | [] => some []
  | w :: ws => do
    let vs ← decodeWord w
    let out := unzzDeltas prev (vs.map (BitVec.ofNat 64))
    let rest ← s8bRun (lastOr prev out) ws
    pure (out ++ rest)

def decodeIntZstd (unzstd : Bytes → Option Bytes) (inp : Bytes) : Option (List W) := do
  let (_srcLen, r1) ← readBE 4 inp
  let (compLen, r2) ← readBE 4 r1
  if r2.length < compLen then none
  else
    let dec ← unzstd (r2.take compLen)
    pure (unleWords dec.length dec)

def decodeIntRaw (inp : Bytes) : Option (List W) := do
  let (inLen, r1) ← readBE 4 inp
  if r1.length < inLen then none
  else pure ((unbeWords 8 r1.length r1).map fun w => unmarshalInt64Zz (BitVec.ofNat 64 w))

def decodeIntConst (inp : Bytes) : Option (List W) :=
  if inp.length < 8 then none
  else do
    let (first, r1) ← readBE 8 inp
    let (delta, n) ← uvarint r1
    let (count, _) ← uvarint (r1.drop n)
    let v0 := unzz (BitVec.ofNat 64 first)
    pure (v0 :: constRun v0 (unzz (BitVec.ofNat 64 delta)) count)

def decodeIntS8b (inp : Bytes) : Option (List W) :=
  if inp.length < 16 then none
  else do
    let (encCount, r1) ← readBE 4 inp
    let (srcCount, r2) ← readBE 4 r1
    if r2.length < encCount * 8 then none
    else
      match unbeWords 8 encCount (r2.take (encCount * 8)) with
      | [] => none   -- intArr[0] is read unconditionally: out of range for an empty body
      | first :: ws => do
        let v0 := unzz (BitVec.ofNat 64 first)
        let rest ← s8bRun v0 ws
        if rest.length + 1 = srcCount then pure (v0 :: rest) else none

/-- dispatch of `Integer.Decoding` on `in[0] >> 4` (after `decodeInit` accepted the type). -/
def decodeIntBody (unzstd : Bytes → Option Bytes) (ty : Nat) (inp : Bytes) : Option (List W) :=
  if ty = intUncompressed then decodeIntRaw inp
  else if ty = intCompressedConstDelta then decodeIntConst inp
  else if ty = intCompressedSimple8b then decodeIntS8b inp
  else if ty = intCompressZSTD then decodeIntZstd unzstd inp
  else none   -- validEncodingType

/-- `DecodeIntegerBlock` → `Integer.Decoding`; `none` = error return or panic. -/
def decodeInt (unzstd : Bytes → Option Bytes) : Bytes → Option (List W)
  | [] => some []
  | t :: inp => if inp.length + 1 < 5 then none else decodeIntBody unzstd (t.toNat / 16) inp

end OG.C07
