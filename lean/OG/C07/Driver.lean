/-
C07 — line-protocol driver of the models (core only).  One op per line, one answer per line.

  s8b <v…>                       → words <w…> | err            (simple8b.EncodeAll; hex values)
  s8bdec <w…>                    → vals <v…> | err             (Decode word by word)
  int <pos> <zlen> <x…>          → ok <hex bytes> | err        (Integer.Encoding; int64 bit patterns, hex)
  intdec <hex bytes>             → vals <x…> | err             (Integer.Decoding; non-library modes)
  time <pos> <slen> <x…>         → ok <hex bytes> | err        (Time.Encoding; uint64 bit patterns, hex)
  timedec <hex bytes>            → vals <x…> | err             (Time.Decoding; non-library modes)
  bool <0/1 string | ->           → ok <hex bytes>              (Boolean.Encoding)
  float <slen> <glen|x> <bits…>  → ok <hex bytes> | err        (Float.Encoding; float64 bit patterns, hex;
                                                                 glen = x: the gorilla encoder refuses the block)
  floatdec <hex bytes>           → vals <bits…> | err          (Float.Decoding; null / same / RLE modes)
  wal <stale> <data> <tbl>       → recs <ty>:<payload> … eof   (replayWalFile loop over `data`, the reader's pooled
                                   buffer holding `stale`; tbl = comp:payload:rowsok,… is the snappy /
                                   row-unmarshal oracle observed by the harness; `-` = empty)
  str <ty> <clen> <s1,s2,…|_>    → ok <hex bytes>              (EncodeStringBlock with compressor `ty`;
                                   strings in hex, `-` = empty string, `_` = no strings)
  strdec <hex bytes>             → strs <data> <offsets> | err (DecodeStringBlock, uncompressed frames)
  file <description>             → ok                          (whole-file round trip through a real shard: no
                                   model; the harness's spec diff decides, any failure shows as a diff)
  booldec <hex bytes>            → bits <0/1 string | -> | err (Boolean.Decoding)
  colseg <ty> <pos> <z1> <z2> <len> <nil> <bmOff> <bitmap> <val> <offs>
                                 → seg <hex>[+n] | err         (one column segment as the column builder
                                   appends it: one-value form, or column header + block; ty ∈ i f b s t,
                                   z1/z2 = observed zstd|snappy / gorilla lengths, `x` = gorilla refuses)
  colsegdec <ty> <segment> <orc> → col <len> <nil> <rows> | err (decodeColumnData / appendTimeColumnData and
                                   the rows a reader of the ColVal sees; orc = decompressed payload or `-`)
  scaled <v,…> / scaleddec <n> <hex>        (codec.EncodeInt64sWithScale / DecodeInt64sWithScale)
  cmeta <p|s> <preAgg> <k> <cm>×k / cmetadec <p|s> <names> <hex>   (chunk meta, plain / self-compressing)
  mindex <d> <fields> / mindexdec <d> <hex>  (MetaIndex)       trailer <fields> / trailerdec <hex>  (Trailer)
  metaconsts                                 (length constants of the readers)
  rec <fields, columns> / recdec <hex>       (record.Record.Marshal / Unmarshal)
  wresp <code> <errno> <msg> / wrespdec      (msgservice.WritePointsResponse)
  sreq <points> <n> {-|only:ids} / sreqdec   (msgservice.WriteStreamPointsRequest)
  dw <type> <identity> <id> <data> / dwdec   (raftlog.DataWrapper)
  preagg <ty> <self> <v…> / preaggdec <ty> <hex>   (pre-aggregation blocks; ty ∈ i f b s t)

`zlen` is the observed length of the zstd (snappy, …) payload for the block's raw bytes: the
library output is opaque to the model, only its length takes part in the mode decision.  In a
library mode both sides print the frame header in hex followed by `+<payload length>`.
-/
import OG.C07.IntBlock
import OG.C07.TimeBlock
import OG.C07.Bool
import OG.C07.FloatFrame
import OG.C07.Wal
import OG.C07.StringFrame
import OG.C07.ColSeg
import OG.C07.MetaCodec
import OG.C07.WireCodec
import OG.C07.PreAgg

namespace OG.C07

def hexDigit (c : Char) : Option Nat :=
  if '0' ≤ c ∧ c ≤ '9' then some (c.toNat - '0'.toNat)
  else if 'a' ≤ c ∧ c ≤ 'f' then some (c.toNat - 'a'.toNat + 10)
  else none

def hexNat? (s : String) : Option Nat :=
  if s.isEmpty then none
  else s.foldl (fun acc c => do let a ← acc; let d ← hexDigit c; pure (a * 16 + d)) (some 0)

def hexChar (n : Nat) : Char := if n < 10 then Char.ofNat (48 + n) else Char.ofNat (87 + n)

def natHexAux : Nat → Nat → List Char → List Char
  | 0, _, acc => acc
  | fuel + 1, n, acc => if n < 16 then hexChar n :: acc else natHexAux fuel (n / 16) (hexChar (n % 16) :: acc)

def natHex (n : Nat) : String := String.ofList (natHexAux 40 n [])

def bytesHex (bs : Bytes) : String :=
  bs.foldl (fun s b => (s.push (hexChar (b.toNat / 16))).push (hexChar (b.toNat % 16))) ""

/-- one-pass tokenizer state for space-separated hex words. -/
structure HexSt where
  ok : Bool := true
  cur : Nat := 0
  has : Bool := false
  acc : List Nat := []

def HexSt.step (st : HexSt) (c : Char) : HexSt :=
  if !st.ok then st
  else if c == ' ' || c == '\n' || c == '\r' then
    if st.has then { st with cur := 0, has := false, acc := st.cur :: st.acc } else st
  else match hexDigit c with
    | some d => { st with cur := st.cur * 16 + d, has := true }
    | none => { st with ok := false }

/-- space-separated hex words of a string. -/
def hexWords? (s : String) : Option (List Nat) :=
  let st := s.foldl HexSt.step {}
  if !st.ok then none
  else some (if st.has then (st.cur :: st.acc).reverse else st.acc.reverse)

structure ByteSt where
  ok : Bool := true
  hi : Option Nat := none
  acc : List UInt8 := []

def ByteSt.step (st : ByteSt) (c : Char) : ByteSt :=
  if !st.ok then st
  else match hexDigit c with
    | none => { st with ok := false }
    | some d =>
      match st.hi with
      | none => { st with hi := some d }
      | some h => { st with hi := none, acc := UInt8.ofNat (h * 16 + d) :: st.acc }

/-- `-` is the empty byte string. -/
def hexBytes? (s : String) : Option Bytes :=
  if s == "-" then some []
  else
    let st := s.foldl ByteSt.step {}
    if st.ok && st.hi.isNone then some st.acc.reverse else none

def wordsHex (ws : List Nat) : String :=
  match ws with
  | [] => ""
  | w :: rest => rest.foldl (fun s x => (s.push ' ') ++ natHex x) (natHex w)

def w64s? (ns : List Nat) : Option (List W) :=
  if ns.any (· ≥ 2 ^ 64) then none else some (ns.map (BitVec.ofNat 64))

/-- first token and the rest of the line. -/
def splitOp (line : String) : String × String :=
  let l := line.trimAscii.toString
  let op := (l.takeWhile (· ≠ ' ')).toString
  (op, (l.drop (op.length + 1)).toString)

/-- leading decimal arguments, then the rest. -/
def takeNats (k : Nat) (rest : String) : Option (List Nat × String) :=
  match k with
  | 0 => some ([], rest)
  | k + 1 =>
    let tok := (rest.takeWhile (· ≠ ' ')).toString
    match tok.toNat? with
    | none => none
    | some n =>
      match takeNats k (rest.drop (tok.length + 1)).toString with
      | none => none
      | some (ns, r) => some (n :: ns, r)

def showVals (pre : String) (xs : List Nat) : String :=
  if xs.isEmpty then pre else pre ++ " " ++ wordsHex xs

/-- frame of a library mode: header bytes in hex, then `+<payload length>`. -/
def showFrame (hdr : Nat) (bs : Bytes) : String :=
  "ok " ++ bytesHex (bs.take hdr) ++ "+" ++ toString (bs.length - hdr)

def showBytes (bs : Bytes) : String := if bs.isEmpty then "ok -" else "ok " ++ bytesHex bs

def dummy (n : Nat) : Bytes → Bytes := fun _ => List.replicate n 0

def stepInt (pos zlen : Nat) (xs : List W) : String :=
  match encodeInt (dummy zlen) pos xs with
  | none => "err"
  | some bs =>
    match bs with
    | t :: _ => if t.toNat / 16 = OG.Gen.C07.intCompressZSTD then showFrame 9 bs else showBytes bs
    | [] => showBytes bs

def stepTime (pos slen : Nat) (xs : List W) : String :=
  match encodeTime (dummy slen) pos xs with
  | none => "err"
  | some bs =>
    match bs with
    | t :: _ => if t.toNat / 16 = OG.Gen.C07.timeCompressSnappy then showFrame 9 bs else showBytes bs
    | [] => showBytes bs

/-- `isInt` of lib/compress/float.go on Lean's native binary64. -/
def fIsInt (f : Float) : Bool :=
  if f >= 0 && f < 4294967296.0 then f.toUInt64.toFloat == f
  else f.ceil == f && f.floor == f

def nativePreds : FloatPreds where
  isInt x := fIsInt (Float.ofBits x.toNat.toUInt64)
  lessDecimal x := fIsInt (Float.ofBits x.toNat.toUInt64 * 1000.0)

def stepFloat (slen : Nat) (glen : Option Nat) (vs : List W) : String :=
  match encodeFloat nativePreds (dummy slen) (fun _ => glen.map fun n => List.replicate n 0) vs with
  | none => "err"
  | some bs =>
    match bs with
    | t :: _ =>
      if t.toNat / 16 = OG.Gen.C07.floatCompressedSnappy ∨ t.toNat / 16 = OG.Gen.C07.floatCompressedGorilla
      then showFrame 1 bs else showBytes bs
    | [] => showBytes bs

/-- oracle table of a `wal` op: compressed body ↦ (payload, rows unmarshal ok). -/
def parseWalTbl (s : String) : Option (List (Bytes × Bytes × Bool)) :=
  if s == "-" then some []
  else (s.splitOn ",").mapM fun e =>
    match e.splitOn ":" with
    | [c, p, f] => do
      let c ← hexBytes? c
      let p ← hexBytes? p
      if f == "1" then some (c, p, true) else if f == "0" then some (c, p, false) else none
    | _ => none

def stepWal (stale data : Bytes) (tbl : List (Bytes × Bytes × Bool)) : String :=
  let unsnappy := fun (c : Bytes) => (tbl.find? fun e => e.1 == c).map (·.2.1)
  let rowsOK := fun (p : Bytes) => ((tbl.find? fun e => e.2.1 == p).map (·.2.2)).getD false
  let recs := walReplay walCfgNow unsnappy rowsOK (data.length + 1) stale data
  recs.foldl (fun acc (ty, body) => acc ++ toString ty ++ ":" ++ (if body.isEmpty then "-" else bytesHex body) ++ " ")
    "recs " ++ "eof"

def parseStrs (s : String) : Option (List Bytes) :=
  if s == "_" then some [] else (s.splitOn ",").mapM hexBytes?

def stepStr (ty clen : Nat) (strs : List Bytes) : String :=
  let bs := encodeStrings ty (dummy clen) strs
  match bs with
  | t :: _ => if t.toNat / 16 ≠ OG.Gen.C07.stringUncompressed then showFrame 9 bs else showBytes bs
  | [] => showBytes bs

/-! ### column segments -/

def hexOrDash (bs : Bytes) : String := if bs.isEmpty then "-" else bytesHex bs

def ctyOf (s : String) : Option CTy :=
  match s with
  | "i" => some .int | "f" => some .float | "b" => some .bool | "s" => some .str | "t" => some .time
  | _ => none

/-- a segment as both sides print it: hex up to the start of a library payload, then `+<length>`. -/
def showSeg (ty : CTy) (seg : Bytes) : String :=
  match seg with
  | [] => "seg -"
  | t :: _ =>
    if OG.Gen.C07.isBlockOne t.toNat then "seg " ++ bytesHex seg
    else
      let h := if OG.Gen.C07.isBlockFull t.toNat || OG.Gen.C07.isBlockEmpty t.toNat then 5
        else
          let n := unbe ((seg.drop 1).take 4)
          if seg.length < 5 ∨ 1 + 4 + n + 8 > seg.length then seg.length else 1 + 4 + n + 8
      let inner := seg.drop h
      match inner with
      | [] => "seg " ++ bytesHex seg
      | m :: _ =>
        let mode := m.toNat / 16
        let keep : Option Nat :=
          match ty with
          | .int => if mode = OG.Gen.C07.intCompressZSTD then some 9 else none
          | .time => if mode = OG.Gen.C07.timeCompressSnappy then some 9 else none
          | .float => if mode = OG.Gen.C07.floatCompressedSnappy ∨ mode = OG.Gen.C07.floatCompressedGorilla
              then some 1 else none
          | .str => if mode ≠ OG.Gen.C07.stringUncompressed then some 9 else none
          | .bool => none
        match keep with
        | some k =>
          if inner.length < k then "seg " ++ bytesHex seg
          else "seg " ++ bytesHex (seg.take (h + k)) ++ "+" ++ toString (inner.length - k)
        | none => "seg " ++ bytesHex seg

def parseOffs (s : String) : Option (List Nat) :=
  if s == "-" then some [] else (s.splitOn ",").mapM (·.toNat?)

def stepColSeg (toks : List String) : String :=
  match toks with
  | [ty, pos, z1, z2, len, nil, off, bm, val, offs] =>
    match ctyOf ty, pos.toNat?, z1.toNat?, len.toNat?, nil.toNat?, off.toNat?, hexBytes? bm, hexBytes? val,
        parseOffs offs with
    | some ty, some pos, some z1, some len, some nil, some off, some bm, some val, some offs =>
      let g : Option (Option Nat) := if z2 == "x" || z2 == "-" then some none else z2.toNat?.map some
      match g with
      | none => "bad-op"
      | some g =>
        let L : Libs :=
          { P := nativePreds, zstd := dummy z1, unzstd := fun _ => none, snappy := dummy z1,
            unsnappy := fun _ => none, gorilla := fun _ => g.map fun n => List.replicate n 0,
            ungorilla := fun _ => none, strTy := OG.Gen.C07.stringCompressedSnappy, strComp := dummy z1,
            strDecomp := fun _ _ => none }
        let c : ColVal := { val := val, offs := offs, bitmap := bm, bmOff := off, len := len, nilCount := nil }
        match encodeColSeg L ty pos c with
        | none => "err"
        | some bs => showSeg ty bs
    | _, _, _, _, _, _, _, _, _ => "bad-op"
  | _ => "bad-op"

def showCells {α : Type} (f : α → String) (rows : List (Option α)) : String :=
  if rows.isEmpty then "-"
  else ",".intercalate (rows.map fun r => match r with | none => "_" | some v => f v)

def stepColSegDec (toks : List String) : String :=
  match toks with
  | [ty, seg, orc] =>
    match ctyOf ty, hexBytes? seg with
    | some ty, some seg =>
      let o : Option (Option Bytes) := if orc == "-" then some none else (hexBytes? orc).map some
      match o with
      | none => "bad-op"
      | some o =>
        let L : Libs :=
          { P := nativePreds, zstd := id, unzstd := fun _ => o, snappy := id, unsnappy := fun _ => o,
            gorilla := fun _ => none, ungorilla := fun _ => o.map wordsOf,
            strTy := OG.Gen.C07.stringCompressedSnappy, strComp := id, strDecomp := fun _ _ => o }
        match decodeColSeg L ty seg with
        | none => "err"
        | some c =>
          let rows : Option String :=
            match ty with
            | .bool => (boolRows c).map (showCells fun b => if b then "1" else "0")
            | .str => (strRows c).map (showCells hexOrDash)
            | _ => (wordRows c).map (showCells fun w => natHex w.toNat)
          match rows with
          | none => "err view"
          | some r => "col " ++ toString c.len ++ " " ++ toString c.nilCount ++ " " ++ r
    | _, _ => "bad-op"
  | _ => "bad-op"

/-! ### metadata codecs -/

abbrev TP := StateT (List String) Option

def tok : TP String := fun s => match s with | [] => none | t :: r => some (t, r)
def tNat : TP Nat := do let t ← tok; match t.toNat? with | some n => pure n | none => failure
def tInt64 : TP W := do
  let t ← tok
  match t.toInt? with
  | some i => if -(2 ^ 63 : Int) ≤ i ∧ i < 2 ^ 63 then pure (BitVec.ofInt 64 i) else failure
  | none => failure
def tHex : TP Bytes := do let t ← tok; match hexBytes? t with | some b => pure b | none => failure
def tRep {α : Type} (p : TP α) : Nat → TP (List α)
  | 0 => pure []
  | n + 1 => do let a ← p; let as ← tRep p n; pure (a :: as)

def tCM : TP ChunkMetaM := do
  let sid ← tNat; let off ← tInt64; let size ← tNat; let cc ← tNat; let sc ← tNat
  let ntr ← tNat
  let trs ← tRep (do let a ← tInt64; let b ← tInt64; pure (a, b)) ntr
  let ncols ← tNat
  let cols ← tRep (do
    let name ← tHex; let ty ← tNat; let pa ← tHex; let ne ← tNat
    let es ← tRep (do let o ← tInt64; let sz ← tNat; pure (⟨o, sz⟩ : SegM)) ne
    pure (⟨name, UInt8.ofNat ty, pa, es⟩ : ColMetaM)) ncols
  pure ⟨sid, off, size, cc, sc, trs, cols⟩

def showCM (m : ChunkMetaM) : String :=
  let trs := m.timeRange.foldl (fun s t => s ++ " " ++ toString t.1.toInt ++ " " ++ toString t.2.toInt) ""
  let cols := m.cols.foldl (fun s c =>
    s ++ " " ++ hexOrDash c.name ++ " " ++ toString c.ty.toNat ++ " " ++ hexOrDash c.preAgg ++ " "
      ++ toString c.entries.length
      ++ c.entries.foldl (fun s e => s ++ " " ++ toString e.offset.toInt ++ " " ++ toString e.size) "") ""
  toString m.sid ++ " " ++ toString m.offset.toInt ++ " " ++ toString m.size ++ " " ++ toString m.columnCount
    ++ " " ++ toString m.segCount ++ " " ++ toString m.timeRange.length ++ trs ++ " " ++ toString m.cols.length ++ cols

def showNames (hdr : List Bytes) : String :=
  if hdr.isEmpty then "-" else ",".intercalate (hdr.map hexOrDash)

def parseNames (s : String) : Option (List Bytes) :=
  if s == "-" then some [] else (s.splitOn ",").mapM hexBytes?

def parseInts (s : String) : Option (List Int) :=
  if s == "-" then some []
  else (s.splitOn ",").mapM fun t =>
    match t.toInt? with
    | some i => if -(2 ^ 63 : Int) ≤ i ∧ i < 2 ^ 63 then some i else none
    | none => none

def showInts (vs : List Int) : String :=
  if vs.isEmpty then "-" else ",".intercalate (vs.map toString)

def stepCMeta (toks : List String) : String :=
  match toks with
  | mode :: pa :: k :: rest =>
    match pa.toNat?, k.toNat? with
    | some pa, some k =>
      if (mode ≠ "p" ∧ mode ≠ "s") ∨ pa > 1 then "bad-op"
      else
        match (tRep tCM k).run rest with
        | some (ms, []) =>
          let preAggOn := pa = 1
          if mode == "p" then
            ms.foldl (fun s m => s ++ " " ++ hexOrDash (marshalCMPlain preAggOn m)) "ok" ++ " hdr=-"
          else
            let res := ms.foldl (fun (acc : Option (String × List Bytes)) m =>
              match acc with
              | none => none
              | some (s, hdr) =>
                match marshalCMSelf preAggOn hdr m with
                | none => none
                | some (b, hdr') => some (s ++ " " ++ hexOrDash b, hdr')) (some ("ok", []))
            match res with
            | none => "err panic"
            | some (s, hdr) => s ++ " hdr=" ++ showNames hdr
        | _ => "bad-op"
    | _, _ => "bad-op"
  | _ => "bad-op"

def stepCMetaDec (toks : List String) : String :=
  match toks with
  | [mode, names, hex] =>
    match parseNames names, hexBytes? hex with
    | some hdr, some bs =>
      let r := if mode == "p" then unmarshalCMPlain bs else if mode == "s" then unmarshalCMSelf hdr bs else none
      if mode ≠ "p" ∧ mode ≠ "s" then "bad-op"
      else match r with
        | none => "err"
        | some (m, rest) => "cm " ++ showCM m ++ " " ++ toString rest.length
    | _, _ => "bad-op"
  | _ => "bad-op"

def tTrailer : TP TrailerM := do
  let a ← tInt64; let b ← tInt64; let c ← tInt64; let d ← tInt64; let e ← tInt64; let f ← tInt64
  let g ← tInt64; let minId ← tNat; let maxId ← tNat; let mn ← tInt64; let mx ← tInt64; let items ← tInt64
  let bm ← tNat; let bk ← tNat; let name ← tHex; let ts ← tNat; let cc ← tNat
  let h ← tok
  let hdr : Option (Option (List Bytes)) :=
    if h == "-" then some none
    else match h.splitOn ":" with
      | [n, vs] =>
        match n.toNat? with
        | some 0 => if vs == "" then some (some []) else none
        | some _ => (parseNames vs).map some
        | none => none
      | _ => none
  match hdr with
  | none => failure
  | some hdr => pure ⟨a, b, c, d, e, f, g, minId, maxId, mn, mx, items, bm, bk, name, ts, cc, hdr⟩

def showTrailer (t : TrailerM) : String :=
  let i (w : W) := toString w.toInt
  let h := match t.header with
    | none => "-"
    | some vs => toString vs.length ++ ":" ++ ",".intercalate (vs.map hexOrDash)
  " ".intercalate [i t.dataOffset, i t.dataSize, i t.indexSize, i t.metaIndexSize, i t.bloomSize, i t.idTimeSize,
    i t.idCount, toString t.minId, toString t.maxId, i t.minTime, i t.maxTime, i t.metaIndexItemNum,
    toString t.bloomM, toString t.bloomK, hexOrDash t.name, toString t.timeStoreFlag,
    toString t.chunkMetaCompressFlag, h]

def metaConsts : String :=
  "chunkMetaMin=" ++ toString chunkMetaMinLen ++ " segment=" ++ toString segmentLen ++ " minMaxTime="
    ++ toString minMaxTimeLen ++ " columnMetaMin=" ++ toString columnMetaLenMin ++ " metaIndex="
    ++ toString metaIndexLen ++ " detachedMetaIndex=" ++ toString detachedMetaIndexLen ++ " trailer="
    ++ toString trailerSize ++ " preagg:int=48 float=48 bool=26 string=8 time=4 zero=" ++ toString zeroPreAgg.length

def stepMeta (op rest : String) : Option String :=
  match op with
  | "metaconsts" => some metaConsts
  | "scaled" =>
    some (match parseInts rest with
      | none => "bad-op"
      | some vs => "ok " ++ hexOrDash (encodeScaled vs))
  | "scaleddec" =>
    some (match rest.splitOn " " with
      | [n, hex] =>
        match n.toNat?, hexBytes? hex with
        | some n, some bs =>
          match decodeScaled n bs with
          | none => "err"
          | some (vs, r) => "vals " ++ showInts vs ++ " " ++ toString r.length
        | _, _ => "bad-op"
      | _ => "bad-op")
  | "cmeta" => some (stepCMeta (rest.splitOn " "))
  | "cmetadec" => some (stepCMetaDec (rest.splitOn " "))
  | "mindex" =>
    some (match (do let d ← tNat; let id ← tNat; let mn ← tInt64; let mx ← tInt64; let off ← tInt64
                    let cnt ← tNat; let sz ← tNat; pure (d, (⟨id, mn, mx, off, cnt, sz⟩ : MetaIndexM))
                 : TP (Nat × MetaIndexM)).run (rest.splitOn " ") with
      | some ((d, m), []) => if d > 1 then "bad-op" else "ok " ++ hexOrDash (marshalMetaIndex (d = 1) m)
      | _ => "bad-op")
  | "mindexdec" =>
    some (match rest.splitOn " " with
      | [d, hex] =>
        match d.toNat?, hexBytes? hex with
        | some d, some bs =>
          if d > 1 then "bad-op"
          else match unmarshalMetaIndex (d = 1) bs with
            | none => "err"
            | some (m, r) =>
              "mi " ++ toString m.id ++ " " ++ toString m.minTime.toInt ++ " " ++ toString m.maxTime.toInt ++ " "
                ++ toString m.offset.toInt ++ " " ++ toString m.count ++ " " ++ toString m.size ++ " "
                ++ toString r.length
        | _, _ => "bad-op"
      | _ => "bad-op")
  | "trailer" =>
    some (match tTrailer.run (rest.splitOn " ") with
      | some (t, []) => "ok " ++ hexOrDash (marshalTrailer t)
      | _ => "bad-op")
  | "trailerdec" =>
    some (match hexBytes? rest with
      | none => "bad-op"
      | some bs =>
        match unmarshalTrailer bs with
        | none => "err"
        | some (t, r) => "tr " ++ showTrailer t ++ " " ++ toString r.length)
  | _ => none

/-! ### wire codecs -/

def tIntW : TP W := do
  let t ← tok
  match t.toInt? with
  | some i => if -(2 ^ 63 : Int) ≤ i ∧ i < 2 ^ 63 then pure (BitVec.ofInt 64 i) else failure
  | none => failure

def tRecord : TP RecordM := do
  let nf ← tNat
  let fs ← tRep (do let n ← tHex; let t ← tIntW; pure (⟨n, t⟩ : FieldM)) nf
  let nc ← tNat
  let cs ← tRep (do
    let l ← tIntW; let n ← tIntW; let o ← tIntW; let v ← tHex; let b ← tHex
    let t ← tok
    match parseOffs t with
    | some offs => pure (⟨l, n, o, v, b, offs⟩ : ColValM)
    | none => failure) nc
  pure ⟨fs, cs⟩

def showRecord (r : RecordM) : String :=
  let fs := r.schema.foldl (fun s f => s ++ " " ++ hexOrDash f.name ++ " " ++ toString f.type.toInt) ""
  let cs := r.cols.foldl (fun s c => s ++ " " ++ toString c.len.toInt ++ " " ++ toString c.nilCount.toInt ++ " "
    ++ toString c.bmOff.toInt ++ " " ++ hexOrDash c.val ++ " " ++ hexOrDash c.bitmap ++ " "
    ++ (if c.offs.isEmpty then "-" else ",".intercalate (c.offs.map toString))) ""
  toString r.schema.length ++ fs ++ " " ++ toString r.cols.length ++ cs

def showSVar (v : Option StreamVarM) : String :=
  match v with
  | none => "-"
  | some s => (if s.only then "1" else "0") ++ ":" ++ ",".intercalate (s.ids.map toString)

def parseSVar (t : String) : Option (Option StreamVarM) :=
  if t == "-" then some none
  else match t.splitOn ":" with
    | [o, ids] =>
      let only := o == "1"
      if o ≠ "0" ∧ o ≠ "1" then none
      else if ids == "" then some (some ⟨only, []⟩)
      else ((ids.splitOn ",").mapM fun (x : String) => x.toNat?).map fun l => some ⟨only, l⟩
    | _ => none

def stepWire (op rest : String) : Option String :=
  match op with
  | "rec" =>
    some (match tRecord.run (rest.splitOn " ") with
      | some (r, []) => "ok " ++ hexOrDash (marshalRecord r)
      | _ => "bad-op")
  | "recdec" =>
    some (match hexBytes? rest with
      | none => "bad-op"
      | some bs =>
        match unmarshalRecord bs with
        | none => "err"
        | some r => "rec " ++ showRecord r)
  | "wresp" =>
    some (match rest.splitOn " " with
      | [c, e, m] =>
        match c.toNat?, e.toNat?, hexBytes? m with
        | some c, some e, some m =>
          if c ≥ 256 ∨ e ≥ 65536 then "bad-op" else "ok " ++ hexOrDash (marshalWriteResp ⟨UInt8.ofNat c, e, m⟩)
        | _, _, _ => "bad-op"
      | _ => "bad-op")
  | "wrespdec" =>
    some (match hexBytes? rest with
      | none => "bad-op"
      | some bs =>
        match unmarshalWriteResp bs with
        | none => "err"
        | some r => "wresp " ++ toString r.code.toNat ++ " " ++ toString r.errCode ++ " " ++ hexOrDash r.message)
  | "sreq" =>
    some (match rest.splitOn " " with
      | pts :: n :: vars =>
        match hexBytes? pts, n.toNat?, vars.mapM parseSVar with
        | some pts, some n, some vs =>
          if vs.length ≠ n then "bad-op" else "ok " ++ hexOrDash (marshalStreamReq ⟨pts, vs⟩)
        | _, _, _ => "bad-op"
      | _ => "bad-op")
  | "sreqdec" =>
    some (match hexBytes? rest with
      | none => "bad-op"
      | some bs =>
        match unmarshalStreamReq bs with
        | none => "err"
        | some w =>
          "sreq " ++ hexOrDash w.points ++ " " ++ toString w.vars.length
            ++ w.vars.foldl (fun s v => s ++ " " ++ showSVar v) "")
  | "dw" =>
    some (match rest.splitOn " " with
      | [t, i, p, d] =>
        match t.toNat?, hexBytes? i, p.toNat?, hexBytes? d with
        | some t, some i, some p, some d => "ok " ++ hexOrDash (marshalDataWrapper ⟨d, t, i, p⟩)
        | _, _, _, _ => "bad-op"
      | _ => "bad-op")
  | "dwdec" =>
    some (match hexBytes? rest with
      | none => "bad-op"
      | some bs =>
        match unmarshalDataWrapper bs with
        | none => "err"
        | some d =>
          "dw " ++ toString d.dataType ++ " " ++ hexOrDash d.identity ++ " " ++ toString d.proposeId ++ " "
            ++ hexOrDash d.data)
  | _ => none

/-! ### pre-aggregation blocks -/

def parseI64s (toks : List String) : Option (List Int) :=
  toks.mapM fun t =>
    match t.toInt? with
    | some i => if -(2 ^ 63 : Int) ≤ i ∧ i < 2 ^ 63 then some i else none
    | none => none

def showI64s (vs : List Int) : String := " ".intercalate (vs.map toString)

def stepPreAgg (op rest : String) : Option String :=
  match op with
  | "preagg" =>
    some (match rest.splitOn " " with
      | ty :: self :: vs =>
        match parseI64s vs with
        | none => "bad-op"
        | some vs =>
          if self ≠ "0" ∧ self ≠ "1" then "bad-op"
          else
            let sf := self == "1"
            match ty, vs with
            | "i", [a, b, c, d, e, f] => "ok " ++ hexOrDash (marshalIntPreAgg sf ⟨a, b, c, d, e, f⟩)
            | "f", [a, b, c, d, e, f] =>
              "ok " ++ hexOrDash (marshalFloatPreAgg sf ⟨ofI a, ofI b, c, d, ofI e, f⟩)
            | "b", [c, a, b, mn, mx] =>
              if mn < -128 ∨ mn ≥ 128 ∨ mx < -128 ∨ mx ≥ 128 then "bad-op"
              else "ok " ++ hexOrDash (marshalBoolPreAgg ⟨c, a, b, mn, mx⟩)
            | "s", [c] => "ok " ++ hexOrDash (marshalStringPreAgg c)
            | "t", [c] => if c < 0 ∨ c ≥ 2 ^ 32 then "bad-op" else "ok " ++ hexOrDash (marshalTimePreAgg c.toNat)
            | _, _ => "bad-op"
      | _ => "bad-op")
  | "preaggdec" =>
    some (match rest.splitOn " " with
      | [ty, hex] =>
        match hexBytes? hex with
        | none => "bad-op"
        | some bs =>
          match ty with
          | "i" =>
            (match unmarshalIntPreAgg bs with
              | none => "err"
              | some (s, r) => "pa " ++ showI64s [s.min, s.max, s.minT, s.maxT, s.sum, s.count] ++ " " ++ toString r.length)
          | "f" =>
            (match unmarshalFloatPreAgg bs with
              | none => "err"
              | some (s, r) =>
                "pa " ++ showI64s [s.minV.toInt, s.maxV.toInt, s.minT, s.maxT, s.sumV.toInt, s.count] ++ " "
                  ++ toString r.length)
          | "b" =>
            (match unmarshalBoolPreAgg bs with
              | none => "err"
              | some (s, r) => "pa " ++ showI64s [s.count, s.minT, s.maxT, s.minV, s.maxV] ++ " " ++ toString r.length)
          | "s" =>
            (match unmarshalStringPreAgg bs with
              | none => "err"
              | some (c, r) => "pa " ++ toString c ++ " " ++ toString r.length)
          | "t" =>
            (match unmarshalTimePreAgg bs with
              | none => "err"
              | some (c, r) => "pa " ++ toString c ++ " " ++ toString r.length)
          | _ => "bad-op"
      | _ => "bad-op")
  | _ => none

def step (line : String) : String :=
  let (op, rest) := splitOp line
  match op with
  | "s8b" =>
    match hexWords? rest with
    | none => "bad-op"
    | some src =>
      if src.any (· ≥ 2 ^ 64) then "bad-op"
      else match encodeAll src with
        | none => "err"
        | some ws => showVals "words" ws
  | "s8bdec" =>
    match hexWords? rest with
    | none => "bad-op"
    | some ws =>
      if ws.any (· ≥ 2 ^ 64) then "bad-op"
      else match decodeAll ws with
        | none => "err"
        | some vs => showVals "vals" vs
  | "int" =>
    match takeNats 2 rest with
    | some ([p, z], r) =>
      match (hexWords? r).bind w64s? with
      | some xs => stepInt p z xs
      | none => "bad-op"
    | _ => "bad-op"
  | "intdec" =>
    match hexBytes? rest with
    | none => "bad-op"
    | some bs =>
      match decodeInt (fun _ => none) bs with
      | none => "err"
      | some xs => showVals "vals" (xs.map (·.toNat))
  | "time" =>
    match takeNats 2 rest with
    | some ([p, z], r) =>
      match (hexWords? r).bind w64s? with
      | some xs => stepTime p z xs
      | none => "bad-op"
    | _ => "bad-op"
  | "timedec" =>
    match hexBytes? rest with
    | none => "bad-op"
    | some bs =>
      match decodeTime (fun _ => none) bs with
      | none => "err"
      | some xs => showVals "vals" (xs.map (·.toNat))
  | "float" =>
    match takeNats 1 rest with
    | some ([sl], r) =>
      let tok := (r.takeWhile (· ≠ ' ')).toString
      let r2 := (r.drop (tok.length + 1)).toString
      let gl : Option (Option Nat) := if tok == "x" then some none else tok.toNat?.map some
      match gl, (hexWords? r2).bind w64s? with
      | some g, some xs => stepFloat sl g xs
      | _, _ => "bad-op"
    | _ => "bad-op"
  | "floatdec" =>
    match hexBytes? rest with
    | none => "bad-op"
    | some bs =>
      match decodeFloat (fun _ => none) (fun _ => none) bs with
      | none => "err"
      | some xs => showVals "vals" (xs.map (·.toNat))
  | "wal" =>
    match rest.splitOn " " with
    | [st, da, tb] =>
      match hexBytes? st, hexBytes? da, parseWalTbl tb with
      | some st, some da, some tb => stepWal st da tb
      | _, _, _ => "bad-op"
    | _ => "bad-op"
  | "str" =>
    match takeNats 2 rest with
    | some ([ty, cl], r) =>
      match parseStrs r with
      | some strs => if ty = 1 ∨ ty = 2 ∨ ty = 3 then stepStr ty cl strs else "bad-op"
      | none => "bad-op"
    | _ => "bad-op"
  | "strdec" =>
    match hexBytes? rest with
    | none => "bad-op"
    | some bs =>
      match decodeStrings (fun _ _ => none) bs with
      | none => "err"
      | some (data, offs) =>
        "strs " ++ (if data.isEmpty then "-" else bytesHex data) ++ " "
          ++ (if offs.isEmpty then "-" else ",".intercalate (offs.map toString))
  | "file" => "ok"
  | "colseg" => stepColSeg (rest.splitOn " ")
  | "colsegdec" => stepColSegDec (rest.splitOn " ")
  | "bool" =>
    if rest == "-" then showBytes (encodeBool [])
    else if rest.any (fun c => c ≠ '0' ∧ c ≠ '1') then "bad-op"
    else showBytes (encodeBool (rest.toList.map (· == '1')))
  | "booldec" =>
    match hexBytes? rest with
    | none => "bad-op"
    | some bs =>
      match decodeBool bs with
      | none => "err"
      | some [] => "bits -"
      | some vs => "bits " ++ String.ofList (vs.map fun b => if b then '1' else '0')
  | _ => (((stepMeta op rest).orElse fun _ => stepWire op rest).orElse fun _ => stepPreAgg op rest).getD "bad-op"

/-- read up to `n` lines. -/
partial def readChunk (h : IO.FS.Stream) (n : Nat) (acc : Array String) : IO (Array String × Bool) := do
  if n = 0 then return (acc, false)
  let line ← h.getLine
  if line.isEmpty then return (acc, true)
  readChunk h (n - 1) (acc.push line)

/-- answers are pure functions of their line: windows of lines are answered by parallel tasks
and printed in input order. -/
partial def loop (h : IO.FS.Stream) (out : IO.FS.Stream) : IO Unit := do
  let mut tasks : Array (Task (Array String)) := #[]
  let mut eof := false
  for _ in [0:32] do
    if !eof then
      let (lines, e) ← readChunk h 256 #[]
      eof := e
      if lines.size > 0 then
        tasks := tasks.push (Task.spawn fun _ => lines.map step)
  for t in tasks do
    for a in t.get do
      out.putStrLn a
  if eof then out.flush else loop h out

def main : IO Unit := do
  loop (← IO.getStdin) (← IO.getStdout)

end OG.C07

def main : IO Unit := OG.C07.main
