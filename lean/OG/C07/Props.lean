/-
C07 — property theorems: every persistent / wire encoding decodes to exactly what was encoded.

Stated over the executable models of `OG/C07/*.lean`, which use the regenerated zig-zag
functions, mode ids, thresholds and the simple8b selector table of `OG/Generated/C07.lean`.
External compressors (zstd, snappy, lz4, gorilla bit stream) are opaque function pairs under
the hypothesis `decompress (compress b) = some b`.
-/
import OG.C07.LemmasInt
import OG.C07.LemmasTime
import OG.C07.LemmasBool
import OG.C07.LemmasFloat
import OG.C07.LemmasWal
import OG.C07.LemmasString

namespace OG.C07
open OG.Gen.C07

/-! ## integers -/

/-- **zig-zag** (`ZigZagDecode (ZigZagEncode v) = v`) for every int64 bit pattern. -/
theorem zigzag_inv (v : W) : unzz (zz v) = v := zigzag_inv' v

/-- the zig-zag used by the uncompressed mode (`numberenc.MarshalInt64Append`). -/
theorem marshal_zigzag_inv (v : W) : unmarshalInt64Zz (marshalInt64Zz v) = v := marshalZz_inv v

/-- **wrapping deltas**: zig-zag deltas computed with wrapping int64 subtraction are undone by
wrapping addition — for all int64 values, overflowing differences included. -/
theorem delta_roundtrip (xs : List W) (p : W) : unzzDeltas p (zzDeltas p xs) = xs :=
  unzzDeltas_zzDeltas xs p

example : unzzDeltas 0#64 (zzDeltas 0#64 [0x7FFFFFFFFFFFFFFF#64, 0x8000000000000000#64, 5#64])
    = [0x7FFFFFFFFFFFFFFF#64, 0x8000000000000000#64, 5#64] := by decide

/-- **simple8b**: every list of values below 2^60 (any length, runs of ones included) is
packed, the packed words fit 64 bits, and unpacking returns the list. -/
theorem simple8b_roundtrip (src : List Nat) (h : ∀ v ∈ src, v < 2 ^ 60) :
    ∃ ws, encodeAll src = some ws ∧ decodeAll ws = some src ∧ ∀ w ∈ ws, w < 2 ^ 64 := by
  obtain ⟨ws, h1, h2, h3, _⟩ := encodeAllAux_roundtrip src.length src (Nat.le_refl _) h
  exact ⟨ws, h1, h2, h3⟩

/-- non-vacuity: 240 ones followed by 3 ones take selector 0 and then three… (the run rows
look at all remaining values). -/
example : encodeAll (List.replicate 243 1) = some [0, 13 * 2 ^ 60 + 1 + 2 ^ 20 + 2 ^ 40] := by decide +kernel
example : encodeAll (List.replicate 120 1) = some [2 ^ 60] := by decide +kernel
example : decodeAll [2 ^ 60] = some (List.replicate 120 1) := by decide +kernel
example : encodeAll [2 ^ 60] = none := by decide   -- out of range is an error, not a wrong word

theorem maxValue_bound : simple8bMaxValue < 2 ^ 60 := by decide

/-- **integer block**: for every sequence of int64 values (constant, const-delta, small deltas,
extremes, overflowing deltas; any length a segment can have), whatever mode `Encoding` picks
(const-delta / simple8b / zstd / uncompressed, incl. the zstd → uncompressed fall-back),
`Decoding` returns exactly the values. `pos` = bytes already in the output buffer. -/
theorem int_block_roundtrip (zstd : Bytes → Bytes) (unzstd : Bytes → Option Bytes)
    (hz : ∀ b, unzstd (zstd b) = some b) (pos : Nat) (xs : List W)
    (hlen : 8 * xs.length < 2 ^ 32) :
    ∃ bs, encodeInt zstd pos xs = some bs ∧ decodeInt unzstd bs = some xs := by
  unfold encodeInt
  by_cases hnil : xs = []
  · subst hnil; exact ⟨[], by simp, by simp [decodeInt]⟩
  simp only [hnil, if_false]
  -- the zstd-or-raw tail
  have tailZ : ∃ bs,
      (if ratioGT ((zstd (leWords xs)).length + (pos + 9)) (leWords xs).length minCompRetaNum
            minCompRetaDen = true
        then some (intUncompressedBytes xs)
        else some (modeByte intCompressZSTD ::
          (be 4 (leWords xs).length ++ (be 4 (zstd (leWords xs)).length ++ zstd (leWords xs)))))
        = some bs ∧ decodeInt unzstd bs = some xs := by
    by_cases hr : ratioGT ((zstd (leWords xs)).length + (pos + 9)) (leWords xs).length
        minCompRetaNum minCompRetaDen = true
    · exact ⟨_, if_pos hr, intUncompressed_decode unzstd xs⟩
    · refine ⟨_, if_neg hr, intZstd_decode zstd unzstd hz xs hlen ?_⟩
      simp only [ratioGT, minCompRetaNum, minCompRetaDen, decide_eq_true_eq, leWords_length] at hr
      omega
  obtain _ | ⟨v0, _ | ⟨v1, _ | ⟨v2, rest⟩⟩⟩ := xs
  · exact absurd rfl hnil
  · exact ⟨_, by simp [intInit], intUncompressed_decode unzstd _⟩
  · exact ⟨_, by simp [intInit], intUncompressed_decode unzstd _⟩
  · rw [show intInit (v0 :: v1 :: v2 :: rest) =
        { zds := zz v0 :: zzDeltas v0 (v1 :: v2 :: rest)
          isConstDelta := adjEq (zzDeltas v0 (v1 :: v2 :: rest))
          isSimple8b := (zzDeltas v0 (v1 :: v2 :: rest)).all fun d =>
            !decide (d.toNat > simple8bMaxValue) } from rfl]
    dsimp only
    by_cases hc : adjEq (zzDeltas v0 (v1 :: v2 :: rest)) = true
    · simp only [hc, if_true]
      refine ⟨_, rfl, ?_⟩
      have hall := adjEq_all _ _ (by simpa [zzDeltas] using hc)
      have := intConst_decode unzstd v0 (zz (v1 - v0)) (zzDeltas v0 (v1 :: v2 :: rest))
        (by
          intro e he
          simp only [zzDeltas, List.mem_cons] at he
          rcases he with rfl | he
          · rfl
          · exact hall e (by simpa [zzDeltas] using he))
        (by simp only [zzDeltas_length, List.length_cons] at hlen ⊢; omega)
      rw [unzzDeltas_zzDeltas] at this
      simpa [zzDeltas] using this
    · simp only [hc, Bool.false_eq_true, if_false]
      by_cases hs : ((zzDeltas v0 (v1 :: v2 :: rest)).all fun d =>
          !decide (d.toNat > simple8bMaxValue)) = true
      · simp only [hs, if_true]
        have hsmall : ∀ d ∈ zzDeltas v0 (v1 :: v2 :: rest), d.toNat < 2 ^ 60 := by
          intro d hd
          have := List.all_eq_true.mp hs d hd
          have hb := maxValue_bound
          simp at this
          omega
        obtain ⟨ws, h1, _, _, h4, _⟩ := encodeAllAux_roundtrip _
          ((zzDeltas v0 (v1 :: v2 :: rest)).map (·.toNat)) (Nat.le_refl _) (by
            intro v hv
            obtain ⟨d, hd, rfl⟩ := List.mem_map.mp hv
            exact hsmall d hd)
        have henc : encodeAll ((zzDeltas v0 (v1 :: v2 :: rest)).map (·.toNat)) = some ws := h1
        rw [henc]
        refine ⟨_, rfl, ?_⟩
        have := intS8b_decode unzstd v0 _ ws henc hsmall
          (by simp only [zzDeltas_length, List.length_cons] at hlen ⊢; omega)
        rw [unzzDeltas_zzDeltas] at this
        simpa using this
      · simp only [hs, Bool.false_eq_true, if_false]
        have hge : (zz v0 :: zzDeltas v0 (v1 :: v2 :: rest)).length ≥ 2 := by simp [zzDeltas]
        simp only [if_pos hge]
        exact tailZ

/-- non-vacuity: a const-delta block and its exact bytes. -/
example : encodeInt (fun b => b) 0 [1#64, 2#64, 3#64]
    = some [0x10, 0, 0, 0, 0, 0, 0, 0, 2, 2, 2] := by decide

/-! ## timestamps -/

/-- **the chosen decimal scale divides every delta** (and is a power of ten that fits the
8-byte field), so `delta / scale * scale = delta` in the decoder. -/
theorem scale_divides_all (ds : List Nat) :
    (∃ k, k ≤ 12 ∧ (timeInit ds).scale = 10 ^ k) ∧ ∀ d ∈ ds, d % (timeInit ds).scale = 0 :=
  ⟨(timeInit_spec ds).1, (timeInit_spec ds).2.1⟩

example : (timeInit [50, 1000, 3000]).scale = 10 ∧ (timeInit [30, 50]).scale = 1
    ∧ (timeInit [0, 200, 0]).scale = 100 := by decide

/-- **timestamp block**: for every sequence of times (any uint64 bit patterns, in any order),
whatever mode `Time.Encoding` picks (const-delta / scaled simple8b / snappy / uncompressed,
incl. the snappy → uncompressed fall-back), `Decoding` returns exactly the times. -/
theorem time_block_roundtrip (snappy : Bytes → Bytes) (unsnappy : Bytes → Option Bytes)
    (hz : ∀ b, unsnappy (snappy b) = some b) (pos : Nat) (xs : List W)
    (hlen : 8 * xs.length < 2 ^ 32) :
    ∃ bs, encodeTime snappy pos xs = some bs ∧ decodeTime unsnappy bs = some xs := by
  unfold encodeTime
  obtain _ | ⟨t0, _ | ⟨t1, _ | ⟨t2, rest⟩⟩⟩ := xs
  · exact ⟨_, rfl, timeUncompressed_decode unsnappy _⟩
  · exact ⟨_, rfl, timeUncompressed_decode unsnappy _⟩
  · exact ⟨_, rfl, timeUncompressed_decode unsnappy _⟩
  · dsimp only
    have hds : ∀ d ∈ (deltas t0 (t1 :: t2 :: rest)).map (·.toNat), d < 2 ^ 64 := by
      intro d hd
      obtain ⟨x, _, rfl⟩ := List.mem_map.mp hd
      exact x.isLt
    obtain ⟨⟨k, hk, hsk⟩, hdiv, hs8, hcd⟩ := timeInit_spec ((deltas t0 (t1 :: t2 :: rest)).map (·.toNat))
    have hn : ((deltas t0 (t1 :: t2 :: rest)).map (·.toNat)).length = rest.length + 2 := by simp
    by_cases hc : (timeInit ((deltas t0 (t1 :: t2 :: rest)).map (·.toNat))).isConstDelta = true
    · simp only [hc, if_true]
      refine ⟨_, rfl, ?_⟩
      have hall : ∀ e ∈ deltas t0 (t1 :: t2 :: rest), e = t1 - t0 := by
        intro e he
        have := hcd hc e.toNat (List.mem_map.mpr ⟨e, he, rfl⟩) (t1 - t0).toNat
          (List.mem_map.mpr ⟨t1 - t0, by simp [deltas], rfl⟩)
        exact BitVec.eq_of_toNat_eq this
      have := timeConst_decode unsnappy t0 (t1 - t0) (deltas t0 (t1 :: t2 :: rest)) hall
        (by simp only [deltas_length, List.length_cons] at hlen ⊢; omega)
      rw [undeltas_deltas] at this
      simpa using this
    · simp only [hc, Bool.false_eq_true, if_false]
      by_cases hs : (timeInit ((deltas t0 (t1 :: t2 :: rest)).map (·.toNat))).isSimple8b = true
      · simp only [hs, if_true]
        -- both arms of `if scale > 1` are the division by the scale
        have hpos : 0 < 10 ^ k := Nat.pow_pos (by decide)
        have hscaled : (if (timeInit ((deltas t0 (t1 :: t2 :: rest)).map (·.toNat))).scale > 1
              then ((deltas t0 (t1 :: t2 :: rest)).map (·.toNat)).map
                (· / (timeInit ((deltas t0 (t1 :: t2 :: rest)).map (·.toNat))).scale)
              else (deltas t0 (t1 :: t2 :: rest)).map (·.toNat))
            = ((deltas t0 (t1 :: t2 :: rest)).map (·.toNat)).map (· / 10 ^ k) := by
          rw [hsk]
          by_cases h1 : 10 ^ k > 1
          · simp [h1]
          · have : 10 ^ k = 1 := by omega
            simp [this]
        rw [hscaled]
        have hsmall : ∀ v ∈ ((deltas t0 (t1 :: t2 :: rest)).map (·.toNat)).map (· / 10 ^ k), v < 2 ^ 60 := by
          intro v hv
          obtain ⟨d, hd, rfl⟩ := List.mem_map.mp hv
          have h1 := hs8 hs d hd
          have h2 : d / 10 ^ k ≤ d := Nat.div_le_self _ _
          have hb := maxValue_bound
          omega
        obtain ⟨ws, h1, h2, h3, h4, _⟩ := encodeAllAux_roundtrip _ _ (Nat.le_refl _) hsmall
        have henc : encodeAll (((deltas t0 (t1 :: t2 :: rest)).map (·.toNat)).map (· / 10 ^ k)) = some ws := h1
        rw [henc]
        refine ⟨_, rfl, ?_⟩
        rw [hsk]
        rw [decodeTime_mode _ _ (by decide) _ (by simp; omega)]
        have e : decodeTimeBody unsnappy timeCompressedSimple8b = fun inp => decodeTimeS8b inp := by
          funext inp
          simp [decodeTimeBody, timeCompressedSimple8b, timeUncompressed, timeCompressedConstDelta]
        rw [e]
        show decodeTimeS8b _ = _
        have p4 : (256 : Nat) ^ 4 = 2 ^ 32 := by decide
        have p8 : (256 : Nat) ^ 8 = 2 ^ 64 := by decide
        have hk64 : 10 ^ k < 256 ^ 8 := by
          have : 10 ^ k ≤ 10 ^ 12 := Nat.pow_le_pow_right (by decide) hk
          omega
        simp only [List.length_map, deltas_length, List.length_cons] at h4 hlen hn ⊢
        have hrun := timeRun_decodeAll (BitVec.ofNat 64 (10 ^ k)) ws _ t0 h2
        have hback := scaled_back (10 ^ k) (deltas t0 (t1 :: t2 :: rest)) (by
          intro x hx
          have hd := hdiv x.toNat (List.mem_map.mpr ⟨x, hx, rfl⟩)
          rw [hsk] at hd
          exact hd)
        rw [hback, undeltas_deltas] at hrun
        exact decodeTimeS8b_of _ _ _ _ (10 ^ k) (ws.length + 1) (rest.length + 2 + 1) t0.toNat ws _
          (by simp; omega) (readBE_be_lt _ hk64) (readBE_be_lt _ (by rw [p4]; omega))
          (readBE_be_lt _ (by rw [p4]; omega)) (by simp; omega)
          (unbeWords_beWords 8 (by decide) _ _ (by simp) (by
            intro w hw
            rcases List.mem_cons.mp hw with rfl | hw
            · exact w_lt _
            · rw [p8]; exact h3 w hw))
          (by rw [w_ofNat_toNat]; exact hrun) (by simp)
          |>.trans (by rw [w_ofNat_toNat])
      · simp only [hs, Bool.false_eq_true, if_false]
        by_cases hr : ratioLT (pos + 9 + (snappy (leWords (t0 :: t1 :: t2 :: rest))).length)
            (leWords (t0 :: t1 :: t2 :: rest)).length minCompRetaNum minCompRetaDen = true
        · rw [if_pos hr]
          refine ⟨_, rfl, ?_⟩
          rw [decodeTime_mode _ _ (by decide) _ (by simp)]
          have e : decodeTimeBody unsnappy timeCompressSnappy = fun inp => decodeTimeSnappy unsnappy inp := by
            funext inp
            simp [decodeTimeBody, timeCompressedSimple8b, timeUncompressed, timeCompressedConstDelta,
              timeCompressSnappy]
          rw [e]
          show decodeTimeSnappy unsnappy _ = _
          have p4 : (256 : Nat) ^ 4 = 2 ^ 32 := by decide
          simp only [ratioLT, minCompRetaNum, minCompRetaDen, decide_eq_true_eq, leWords_length] at hr
          rw [decodeTimeSnappy_of unsnappy _ _ _ (leWords (t0 :: t1 :: t2 :: rest)) _ _
            (readBE_be_lt _ (by rw [p4, leWords_length]; exact hlen))
            (readBE_be_lt _ (by rw [p4]; omega)) rfl (hz _) rfl]
          rw [unleWords_leWords _ _ (by simp; omega)]
        · rw [if_neg hr]
          exact ⟨_, rfl, timeUncompressed_decode unsnappy _⟩

example : encodeTime (fun b => b) 0 [1000#64, 2000#64, 3500#64, 4000#64]
    = some [0x20, 0, 0, 0, 0, 0, 0, 0, 100, 0, 0, 0, 2, 0, 0, 0, 4,
            0, 0, 0, 0, 0, 0, 3, 232, 0xd0, 0, 5, 0, 0, 0xf0, 0, 10] := by decide

/-! ## booleans -/

/-- **boolean block**: bit packing (most significant bit first, zero padded) round-trips for
every list of booleans, whatever its length modulo eight. -/
theorem bool_roundtrip (vs : List Bool) (hlen : vs.length < 2 ^ 32) :
    decodeBool (encodeBool vs) = some vs := by
  unfold encodeBool
  simp only [decodeBool, modeByte_ty _ (show boolCompressedBitpack < 16 by decide)]
  unfold decodeBoolBody
  have p4 : (256 : Nat) ^ 4 = 2 ^ 32 := by decide
  rw [readBE_be_lt _ (by rw [p4]; exact hlen)]
  have hm : ¬ (boolCompressedBitpack ≠ boolCompressedBitpack) := by simp
  have hl := packBits_length vs.length vs (Nat.le_refl _)
  have ht : (packBits vs).take ((vs.length + 7) / 8) = packBits vs :=
    List.take_of_length_le (by omega)
  have hl2 : ¬ ((packBits vs).length < (vs.length + 7) / 8) := by omega
  simp only [hm, if_false, ht, hl2]
  rw [unpack_pack_take vs.length vs (Nat.le_refl _)]

example : encodeBool [true, false, true, true, false, false, false, false, true]
    = [0x10, 0, 0, 0, 9, 0xb0, 0x80] := by decide

/-! ## floats -/

/-- **RLE** on bit patterns: runs of any length (split at `RLEBlockLimit`), zero runs stored
without a value; −0.0 and NaN payloads are ordinary bit patterns here. -/
theorem rle_roundtrip (vs : List W) : rleDecode (rleEncode vs).length (rleEncode vs) = some vs :=
  rle_roundtrip' vs

example : rleEncode [0#64, 0#64, 0x8000000000000000#64, 5#64, 5#64]
    = [0x80, 2, 0, 1, 0, 0, 0, 0, 0, 0, 0, 0x80, 0, 2, 5, 0, 0, 0, 0, 0, 0, 0] := by decide

/-- what `floatMode = .same` guarantees. -/
theorem floatMode_same {P : FloatPreds} {vs : List W} (h : floatMode P vs = .same) :
    ∃ v rest, vs = v :: rest ∧ (∀ x ∈ rest, x = v) ∧ rest.length + 1 ≤ 65535 := by
  unfold floatMode at h
  by_cases h1 : vs.length ≤ floatCompressThreshold
  · simp [h1] at h
  · simp only [h1, if_false] at h
    by_cases h2 : countDistinct vs = 1 ∧ vs.length ≤ 65535
    · cases vs with
      | nil => simp [floatCompressThreshold] at h1
      | cons v rest =>
        refine ⟨v, rest, rfl, ?_, by simpa using h2.2⟩
        have : countDistinctFrom v rest = 0 := by
          have := h2.1; simp only [countDistinct] at this; omega
        exact countDistinctFrom_zero rest v this
    · simp only [h2, if_false] at h
      split at h
      · cases h
      · split at h <;> cases h

theorem floatMode_gorilla {P : FloatPreds} {vs : List W} (h : floatMode P vs = .gorilla) :
    ∀ v ∈ vs, isNaNorInf v = false := by
  unfold floatMode at h
  by_cases h1 : vs.length ≤ floatCompressThreshold
  · simp [h1] at h
  · simp only [h1, if_false] at h
    by_cases h2 : countDistinct vs = 1 ∧ vs.length ≤ 65535
    · simp [h2] at h
    · simp only [h2, if_false] at h
      by_cases h3 : countDistinct vs ≤ floatRLECompressThreshold
      · simp [h3] at h
      · simp only [h3, if_false] at h
        split at h
        · cases h
        · rename_i hc
          intro v hv
          simp only [Bool.or_eq_true, not_or, List.any_eq_true, not_exists, not_and] at hc
          have := hc.2 v hv
          simpa using this

/-- **float block, round trip**: for every block of float64 bit patterns (NaN payloads, ±0,
subnormals, ±Inf, any length), whichever frame `adaptiveEncoding` picks (null / same-value /
RLE / snappy / gorilla, incl. the 90 % fall-back to null), if encoding succeeds then decoding
returns the identical bit patterns — for every choice of the `isInt` / `lessDecimal`
predicates, every snappy with `unsnappy ∘ snappy = id` and every partial gorilla encoder whose
successes decode back. -/
theorem float_frame_roundtrip (P : FloatPreds) (snappy : Bytes → Bytes)
    (unsnappy : Bytes → Option Bytes) (gorilla : List W → Option Bytes)
    (ungorilla : Bytes → Option (List W))
    (hs : ∀ b, unsnappy (snappy b) = some b)
    (hg : ∀ vs g, gorilla vs = some g → ungorilla g = some vs)
    (vs : List W) (bs : Bytes) (henc : encodeFloat P snappy gorilla vs = some bs) :
    decodeFloat unsnappy ungorilla bs = some vs := by
  unfold encodeFloat at henc
  by_cases hnil : vs = []
  · subst hnil; simp at henc; subst henc; rfl
  simp only [hnil, if_false] at henc
  have hnull : decodeFloat unsnappy ungorilla (nullBytes vs) = some vs := by
    simp only [nullBytes, decodeFloat, modeByte_ty _ (show floatCompressedNull < 16 by decide),
      if_true]
    rw [unleWords_leWords _ _ (by simp; omega)]
  have hsn : decodeFloat unsnappy ungorilla (modeByte floatCompressedSnappy :: snappy (leWords vs))
      = some vs := by
    simp only [decodeFloat, modeByte_ty _ (show floatCompressedSnappy < 16 by decide)]
    simp only [show ¬ (floatCompressedSnappy = floatCompressedNull) by decide,
      show ¬ (floatCompressedSnappy = floatCompressedGorilla) by decide, if_false, if_true, hs,
      Option.map_some]
    rw [unleWords_leWords _ _ (by simp; omega)]
  have hgo : ∀ g, gorilla vs = some g →
      decodeFloat unsnappy ungorilla (modeByte floatCompressedGorilla :: g) = some vs := by
    intro g hgv
    simp only [decodeFloat, modeByte_ty _ (show floatCompressedGorilla < 16 by decide)]
    simp only [show ¬ (floatCompressedGorilla = floatCompressedNull) by decide, if_false, if_true]
    exact hg vs g hgv
  cases hm : floatMode P vs with
  | null => simp only [hm] at henc; cases henc; exact hnull
  | same =>
    simp only [hm] at henc; cases henc
    obtain ⟨v, rest, rfl, hall, hlen⟩ := floatMode_same hm
    simp only [decodeFloat, modeByte_ty _ (show floatCompressedSame < 16 by decide)]
    simp only [show ¬ (floatCompressedSame = floatCompressedNull) by decide,
      show ¬ (floatCompressedSame = floatCompressedGorilla) by decide,
      show ¬ (floatCompressedSame = floatCompressedSnappy) by decide, if_false, if_true]
    exact same_roundtrip v rest hall hlen
  | rle =>
    simp only [hm] at henc; cases henc
    simp only [decodeFloat, modeByte_ty _ (show floatCompressedRLE < 16 by decide)]
    simp only [show ¬ (floatCompressedRLE = floatCompressedNull) by decide,
      show ¬ (floatCompressedRLE = floatCompressedGorilla) by decide,
      show ¬ (floatCompressedRLE = floatCompressedSnappy) by decide,
      show ¬ (floatCompressedRLE = floatCompressedSame) by decide, if_false, if_true]
    exact rle_roundtrip' vs
  | snappy =>
    simp only [hm] at henc
    split at henc <;> cases henc
    · exact hnull
    · exact hsn
  | gorilla =>
    simp only [hm] at henc
    cases hgv : gorilla vs with
    | none => simp [hgv] at henc
    | some g =>
      simp only [hgv] at henc
      split at henc <;> cases henc
      · exact hnull
      · exact hgo g hgv

/-- **float block, totality**: encoding never fails on any block of float64 bit patterns —
NaN and ±Inf included — provided the gorilla encoder accepts every block free of NaN and ±Inf
(its documented domain: it refuses exactly the blocks whose running sum is NaN). -/
theorem float_encode_total (P : FloatPreds) (snappy : Bytes → Bytes)
    (gorilla : List W → Option Bytes)
    (hdom : ∀ vs, (∀ v ∈ vs, isNaNorInf v = false) → (gorilla vs).isSome = true)
    (vs : List W) : (encodeFloat P snappy gorilla vs).isSome = true := by
  unfold encodeFloat
  by_cases hnil : vs = []
  · simp [hnil]
  simp only [hnil, if_false]
  cases hm : floatMode P vs with
  | gorilla =>
    have := hdom vs (floatMode_gorilla hm)
    obtain ⟨g, hg⟩ := Option.isSome_iff_exists.mp this
    simp [hg]
  | _ => simp

/-- non-vacuity: −0.0 ×5 is a same-value block that keeps its sign bit; +Inf/−Inf among
integers is a snappy block (never offered to gorilla); 70 000 equal values are not a
same-value block. -/
example : encodeFloat ⟨fun _ => true, fun _ => true⟩ (fun b => b) (fun _ => none)
    (List.replicate 5 0x8000000000000000#64) = some [0x40, 0, 5, 0, 0, 0, 0, 0, 0, 0, 0x80] := by decide
example : floatMode ⟨fun _ => true, fun _ => true⟩
    [1#64, 2#64, 3#64, 4#64, 5#64, 6#64, 7#64, 8#64, 9#64, 0x7ff0000000000000#64, 0xfff0000000000000#64]
    = .snappy := by decide

/-! ## write-ahead log records -/

/-- the reader, as the source has it now, decodes only completely read bodies (regenerated). -/
theorem walCfgNow_strict : walCfgNow = ⟨false, false⟩ := by rfl

/-- **a record cut short by a crash is recognised as incomplete**: for every valid record
(`type` 1 or 2, any payload) and every *strict* prefix `p` of its frame — header-only prefixes
included — the reader reports end of file and hands nothing to the callback, whatever its
pooled buffer held before, whatever snappy and the row unmarshaller would make of that buffer. -/
theorem wal_prefix_safe (snappy : Bytes → Bytes) (unsnappy : Bytes → Option Bytes)
    (rowsOK : Bytes → Bool) (stale : Bytes) (ty : Nat) (payload : Bytes)
    (hl : (snappy payload).length < 2 ^ 32)
    (k : Nat) (hk : k < (walFrame snappy ty payload).length) :
    (walStep walCfgNow unsnappy rowsOK stale ((walFrame snappy ty payload).take k)).1 = .eof := by
  rw [walCfgNow_strict]
  cases hres : (walStep ⟨false, false⟩ unsnappy rowsOK stale ((walFrame snappy ty payload).take k)).1 with
  | eof => rfl
  | record t body =>
    exfalso
    obtain ⟨h5, hlen⟩ := walStep_record_complete _ _ _ _ _ _ hres
    have hkl : ((walFrame snappy ty payload).take k).length = k := by
      rw [List.length_take]; omega
    rw [hkl] at h5 hlen
    rw [walFrame_prefix_len snappy ty payload k h5 hl, ← walFrame_length snappy ty payload] at hlen
    omega

/-- the code as it was (`err == nil || err == io.EOF`): a header-only prefix made the reader
decode whatever the pooled buffer held — here the previous record, delivered a second time. -/
theorem wal_prefix_unsafe_asWritten :
    ∃ (stale p : Bytes) (unsnappy : Bytes → Option Bytes),
      p = (walFrame (fun b => b) 2 [7, 7, 7]).take 5 ∧
      (walStep ⟨true, false⟩ unsnappy (fun _ => true) stale p).1 = .record 2 [7, 7, 7] := by
  refine ⟨[7, 7, 7], _, some, rfl, ?_⟩
  decide

/-- a complete frame is read back as its record (for the repaired reader), leaving the rest. -/
theorem wal_frame_read (snappy : Bytes → Bytes) (unsnappy : Bytes → Option Bytes)
    (hs : ∀ b, unsnappy (snappy b) = some b) (rowsOK : Bytes → Bool) (stale rest : Bytes)
    (ty : Nat) (payload : Bytes) (hty : 0 < ty ∧ ty < 3) (hrows : ty = 1 → rowsOK payload = true)
    (hl : (snappy payload).length < 2 ^ 32) :
    (walStep walCfgNow unsnappy rowsOK stale (walFrame snappy ty payload ++ rest)).1
      = .record ty payload ∧
    (walStep walCfgNow unsnappy rowsOK stale (walFrame snappy ty payload ++ rest)).2.2 = rest := by
  have p4 : (256 : Nat) ^ 4 = 2 ^ 32 := by decide
  have hb : (UInt8.ofNat ty).toNat = ty := u8_toNat_ofNat_lt (by omega)
  have hstep := walStep_complete walCfgNow unsnappy rowsOK stale (walFrame snappy ty payload ++ rest)
    ty (snappy payload).length (snappy payload) rest
    (by simp [walFrame]) (by simp [walFrame, hb]) hty
    (by
      simp only [walFrame, List.cons_append, List.drop_succ_cons, List.drop_zero, List.append_assoc]
      rw [take_app _ _ _ (by simp), unbe_be, p4]; exact Nat.mod_eq_of_lt hl)
    (by
      simp only [walFrame, List.cons_append, List.drop_succ_cons, List.append_assoc]
      exact drop_app _ _ _ (by simp))
    rfl
  rw [hstep]
  refine ⟨?_, rfl⟩
  show walDecode unsnappy rowsOK ty (snappy payload) = _
  unfold walDecode
  rw [hs]
  by_cases h1 : ty = 1
  · simp [h1, hrows h1]
  · simp [h1]

/-- **a log file ending in a torn record**: complete records followed by a strict prefix of one
more frame replay to exactly the complete records, in order — nothing is fabricated from the
tail, whatever the pooled buffer held at the start. -/
theorem wal_replay_torn_tail (snappy : Bytes → Bytes) (unsnappy : Bytes → Option Bytes)
    (hs : ∀ b, unsnappy (snappy b) = some b) (rowsOK : Bytes → Bool)
    (ty : Nat) (payload : Bytes) (hl : (snappy payload).length < 2 ^ 32)
    (k : Nat) (hk : k < (walFrame snappy ty payload).length) :
    ∀ (rs : List (Nat × Bytes)) (stale : Bytes) (fuel : Nat),
      (∀ r ∈ rs, (0 < r.1 ∧ r.1 < 3) ∧ (r.1 = 1 → rowsOK r.2 = true) ∧ (snappy r.2).length < 2 ^ 32) →
      rs.length < fuel →
      walReplay walCfgNow unsnappy rowsOK fuel stale
        ((rs.flatMap fun r => walFrame snappy r.1 r.2) ++ (walFrame snappy ty payload).take k) = rs
  | [], stale, fuel, _, hf => by
    obtain ⟨f, rfl⟩ : ∃ f, fuel = f + 1 := ⟨fuel - 1, by simp at hf; omega⟩
    have h := wal_prefix_safe snappy unsnappy rowsOK stale ty payload hl k hk
    simp only [List.flatMap_nil, List.nil_append, walReplay]
    generalize walStep walCfgNow unsnappy rowsOK stale ((walFrame snappy ty payload).take k) = res at h
    obtain ⟨a, b, c⟩ := res
    simp only at h
    subst h
    rfl
  | r :: rs, stale, fuel, hv, hf => by
    obtain ⟨f, rfl⟩ : ∃ f, fuel = f + 1 := ⟨fuel - 1, by simp at hf; omega⟩
    obtain ⟨hty, hrows, hlen⟩ := hv r (by simp)
    have h := wal_frame_read snappy unsnappy hs rowsOK stale
      ((rs.flatMap fun r => walFrame snappy r.1 r.2) ++ (walFrame snappy ty payload).take k)
      r.1 r.2 hty hrows hlen
    simp only [List.flatMap_cons, List.append_assoc, walReplay]
    generalize walStep walCfgNow unsnappy rowsOK stale
      (walFrame snappy r.1 r.2 ++ ((rs.flatMap fun r => walFrame snappy r.1 r.2)
        ++ (walFrame snappy ty payload).take k)) = res at h
    obtain ⟨a, b, c⟩ := res
    simp only at h
    obtain ⟨h1, h2⟩ := h
    subst h1 h2
    simp only
    rw [wal_replay_torn_tail snappy unsnappy hs rowsOK ty payload hl k hk rs b f
      (fun x hx => hv x (by simp [hx])) (by simp at hf; omega)]

/-! ## strings -/

/-- **string block**: for every non-empty list of strings (empty strings, 64 KiB strings, any
bytes), with any of the three compressors (opaque, `decompress ∘ compress = id`; lz4 never
answering with an empty block) and whichever frame is chosen (compressed, or the uncompressed
frame when compression does not reach 85 %), `DecodeStringBlock` returns the concatenated
bytes and the offsets of the strings. -/
theorem string_block_roundtrip (ty : Nat) (hty : ty = stringCompressedSnappy ∨
      ty = stringCompressedZstd ∨ ty = stringCompressedLz4)
    (compress : Bytes → Bytes) (decompress : Nat → Bytes → Option Bytes)
    (hd : ∀ b, decompress ty (compress b) = some b)
    (hlz : ty = stringCompressedLz4 → ∀ b, (compress b).length ≠ 0)
    (strs : List Bytes) (hne : strs ≠ []) (hsz : (packStrings strs).length < 2 ^ 32) :
    decodeStrings decompress (encodeStrings ty compress strs)
      = some (strs.flatten, strOffsets strs) := by
  have p4 : (256 : Nat) ^ 4 = 2 ^ 32 := by decide
  have hty16 : ty < 16 := by
    rcases hty with h | h | h <;> rw [h] <;> decide
  have hty0 : ty ≠ stringUncompressed := by
    rcases hty with h | h | h <;> rw [h] <;> decide
  have hty3 : ty ≤ stringCompressedLz4 := by
    rcases hty with h | h | h <;> rw [h] <;> decide
  unfold encodeStrings encodeStringBytes
  simp only [hne, if_false]
  have hlzc : ¬ (ty = stringCompressedLz4 ∧ (compress (packStrings strs)).length = 0) := by
    rintro ⟨h1, h2⟩; exact hlz h1 _ h2
  simp only [hlzc, if_false]
  by_cases hr : ratioLT ((compress (packStrings strs)).length + 9) (packStrings strs).length
      minCompRetaNum minCompRetaDen = true
  · rw [if_pos hr]
    have hr' : ((compress (packStrings strs)).length + 9) * 20 < 17 * (packStrings strs).length := by
      unfold ratioLT at hr; exact of_decide_eq_true hr
    have hdec := decodeStringBytes_comp decompress (modeByte ty)
      (be 4 (packStrings strs).length ++ (be 4 (compress (packStrings strs)).length
        ++ compress (packStrings strs)))
      (be 4 (compress (packStrings strs)).length ++ compress (packStrings strs))
      (compress (packStrings strs)) (packStrings strs) ty (packStrings strs).length
      (compress (packStrings strs)).length (by simp; omega) (modeByte_ty ty hty16) hty0 hty3
      (readBE_be_lt _ (by rw [p4]; exact hsz)) (readBE_be_lt _ (by rw [p4]; omega))
      (Eq.refl _) (hd _) (Eq.refl _)
    exact decodeStrings_of decompress _ _ _ (by simp) hdec (packStrings_unpack strs hne hsz)
  · rw [if_neg hr]
    unfold stringRawFrame
    have hdec := decodeStringBytes_raw decompress (modeByte stringUncompressed)
      (be 4 (packStrings strs).length ++ (be 4 (packStrings strs).length ++ packStrings strs))
      (be 4 (packStrings strs).length ++ packStrings strs) (packStrings strs)
      (packStrings strs).length
      (by simp; omega) (modeByte_ty _ (by decide)) (readBE_be_lt _ (by rw [p4]; exact hsz))
      (by simp) (readBE_be_lt _ (by rw [p4]; exact hsz)) (Eq.refl _)
    exact decodeStrings_of decompress _ _ _ (by simp) hdec (packStrings_unpack strs hne hsz)

example : strOffsets [[1, 2, 3], [], [4, 5]] = [0, 3, 3] := by decide
example : packStrings [[65], []] = [0xff, 0xff, 0xff, 0xfe, 0, 0, 0, 1, 65, 0, 0, 0, 2,
    0, 0, 0, 1, 0, 0, 0, 0] := by decide

end OG.C07
