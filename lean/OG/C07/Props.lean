/-
C07 — property theorems: every persistent / wire encoding decodes to exactly what was encoded.

Stated over the executable models of `OG/C07/*.lean`, which use the regenerated zig-zag
functions, mode ids, thresholds and the simple8b selector table of `OG/Generated/C07.lean`.
External compressors (zstd, snappy, lz4, gorilla bit stream) are opaque function pairs under
the hypothesis `decompress (compress b) = some b`.
-/
import OG.C07.LemmasInt

namespace OG.C07
open OG.Gen.C07

/-! ## integers -/

/-- **zig-zag** (`ZigZagDecode (ZigZagEncode v) = v`) for every int64 bit pattern. -/
theorem zigzag_inv (v : W) : unzz (zz v) = v := zigzag_inv' v

/-- the zig-zag used by the uncompressed mode (`numberenc.MarshalInt64Append`). -/
theorem marshal_zigzag_inv (v : W) : unmarshalInt64Zz (marshalInt64Zz v) = v := marshalZz_inv v

/-- **wrapping deltas**: zig-zag deltas computed with wrapping int64 subtraction are undone by
wrapping addition — for all int64 values, overflowing differences included. -/
theorem delta_roundtrip (xs : List W) (p : W) : unzzDeltas p (zzDeltas p xs) = xs :=
  unzzDeltas_zzDeltas xs p

example : unzzDeltas 0#64 (zzDeltas 0#64 [0x7FFFFFFFFFFFFFFF#64, 0x8000000000000000#64, 5#64])
    = [0x7FFFFFFFFFFFFFFF#64, 0x8000000000000000#64, 5#64] := by decide

/-- **simple8b**: every list of values below 2^60 (any length, runs of ones included) is
packed, the packed words fit 64 bits, and unpacking returns the list. -/
theorem simple8b_roundtrip (src : List Nat) (h : ∀ v ∈ src, v < 2 ^ 60) :
    ∃ ws, encodeAll src = some ws ∧ decodeAll ws = some src ∧ ∀ w ∈ ws, w < 2 ^ 64 := by
  obtain ⟨ws, h1, h2, h3, _⟩ := encodeAllAux_roundtrip src.length src (Nat.le_refl _) h
  exact ⟨ws, h1, h2, h3⟩

/-- non-vacuity: 240 ones followed by 3 ones take selector 0 and then three… (the run rows
look at all remaining values). -/
example : encodeAll (List.replicate 243 1) = some [0, 13 * 2 ^ 60 + 1 + 2 ^ 20 + 2 ^ 40] := by decide +kernel
example : encodeAll (List.replicate 120 1) = some [2 ^ 60] := by decide +kernel
example : decodeAll [2 ^ 60] = some (List.replicate 120 1) := by decide +kernel
example : encodeAll [2 ^ 60] = none := by decide   -- out of range is an error, not a wrong word

theorem maxValue_bound : simple8bMaxValue < 2 ^ 60 := by decide

/-- **integer block**: for every sequence of int64 values (constant, const-delta, small deltas,
extremes, overflowing deltas; any length a segment can have), whatever mode `Encoding` picks
(const-delta / simple8b / zstd / uncompressed, incl. the zstd → uncompressed fall-back),
`Decoding` returns exactly the values. `pos` = bytes already in the output buffer. -/
theorem int_block_roundtrip (zstd : Bytes → Bytes) (unzstd : Bytes → Option Bytes)
    (hz : ∀ b, unzstd (zstd b) = some b) (pos : Nat) (xs : List W)
    (hlen : 8 * xs.length < 2 ^ 32) :
    ∃ bs, encodeInt zstd pos xs = some bs ∧ decodeInt unzstd bs = some xs := by
  unfold encodeInt
  by_cases hnil : xs = []
  · subst hnil; exact ⟨[], by simp, by simp [decodeInt]⟩
  simp only [hnil, if_false]
  -- the zstd-or-raw tail
  have tailZ : ∃ bs,
      (if ratioGT ((zstd (leWords xs)).length + (pos + 9)) (leWords xs).length minCompRetaNum
            minCompRetaDen = true
        then some (intUncompressedBytes xs)
        else some (modeByte intCompressZSTD ::
          (be 4 (leWords xs).length ++ (be 4 (zstd (leWords xs)).length ++ zstd (leWords xs)))))
        = some bs ∧ decodeInt unzstd bs = some xs := by
    by_cases hr : ratioGT ((zstd (leWords xs)).length + (pos + 9)) (leWords xs).length
        minCompRetaNum minCompRetaDen = true
    · exact ⟨_, if_pos hr, intUncompressed_decode unzstd xs⟩
    · refine ⟨_, if_neg hr, intZstd_decode zstd unzstd hz xs hlen ?_⟩
      simp only [ratioGT, minCompRetaNum, minCompRetaDen, decide_eq_true_eq, leWords_length] at hr
      omega
  obtain _ | ⟨v0, _ | ⟨v1, _ | ⟨v2, rest⟩⟩⟩ := xs
  · exact absurd rfl hnil
  · exact ⟨_, by simp [intInit], intUncompressed_decode unzstd _⟩
  · exact ⟨_, by simp [intInit], intUncompressed_decode unzstd _⟩
  · rw [show intInit (v0 :: v1 :: v2 :: rest) =
        { zds := zz v0 :: zzDeltas v0 (v1 :: v2 :: rest)
          isConstDelta := adjEq (zzDeltas v0 (v1 :: v2 :: rest))
          isSimple8b := (zzDeltas v0 (v1 :: v2 :: rest)).all fun d =>
            !decide (d.toNat > simple8bMaxValue) } from rfl]
    dsimp only
    by_cases hc : adjEq (zzDeltas v0 (v1 :: v2 :: rest)) = true
    · simp only [hc, if_true]
      refine ⟨_, rfl, ?_⟩
      have hall := adjEq_all _ _ (by simpa [zzDeltas] using hc)
      have := intConst_decode unzstd v0 (zz (v1 - v0)) (zzDeltas v0 (v1 :: v2 :: rest))
        (by
          intro e he
          simp only [zzDeltas, List.mem_cons] at he
          rcases he with rfl | he
          · rfl
          · exact hall e (by simpa [zzDeltas] using he))
        (by simp only [zzDeltas_length, List.length_cons] at hlen ⊢; omega)
      rw [unzzDeltas_zzDeltas] at this
      simpa [zzDeltas] using this
    · simp only [hc, Bool.false_eq_true, if_false]
      by_cases hs : ((zzDeltas v0 (v1 :: v2 :: rest)).all fun d =>
          !decide (d.toNat > simple8bMaxValue)) = true
      · simp only [hs, if_true]
        have hsmall : ∀ d ∈ zzDeltas v0 (v1 :: v2 :: rest), d.toNat < 2 ^ 60 := by
          intro d hd
          have := List.all_eq_true.mp hs d hd
          have hb := maxValue_bound
          simp at this
          omega
        obtain ⟨ws, h1, _, _, h4, _⟩ := encodeAllAux_roundtrip _
          ((zzDeltas v0 (v1 :: v2 :: rest)).map (·.toNat)) (Nat.le_refl _) (by
            intro v hv
            obtain ⟨d, hd, rfl⟩ := List.mem_map.mp hv
            exact hsmall d hd)
        have henc : encodeAll ((zzDeltas v0 (v1 :: v2 :: rest)).map (·.toNat)) = some ws := h1
        rw [henc]
        refine ⟨_, rfl, ?_⟩
        have := intS8b_decode unzstd v0 _ ws henc hsmall
          (by simp only [zzDeltas_length, List.length_cons] at hlen ⊢; omega)
        rw [unzzDeltas_zzDeltas] at this
        simpa using this
      · simp only [hs, Bool.false_eq_true, if_false]
        have hge : (zz v0 :: zzDeltas v0 (v1 :: v2 :: rest)).length ≥ 2 := by simp [zzDeltas]
        simp only [if_pos hge]
        exact tailZ

/-- non-vacuity: a const-delta block and its exact bytes. -/
example : encodeInt (fun b => b) 0 [1#64, 2#64, 3#64]
    = some [0x10, 0, 0, 0, 0, 0, 0, 0, 2, 2, 2] := by decide

end OG.C07
