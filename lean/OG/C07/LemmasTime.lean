/-
C07 — helper lemmas for the timestamp block: the decimal scale divides every delta, flags of
`encodingInit`, the decoders on the bytes their encoders wrote.
-/
import OG.C07.TimeBlock
import OG.C07.LemmasInt

namespace OG.C07
open OG.Gen.C07

/-! ### scale -/

/-- fact about the regenerated `scales` table: every entry is 10^k with k ≤ 12. -/
theorem scales_pow10 : ∀ s ∈ scales, s ∈ (List.range 13).map (fun k => 10 ^ k) := by decide

def IsScale (s : Nat) : Prop := ∃ k, k ≤ 12 ∧ s = 10 ^ k

theorem scaleOf_spec (v : Nat) : IsScale (scaleOf v) ∧ v % scaleOf v = 0 := by
  unfold scaleOf
  cases h : (scales.drop 1).reverse.find? fun s => v % s == 0 with
  | none => exact ⟨⟨0, by omega, rfl⟩, by simp [Nat.mod_one]⟩
  | some s =>
    have hm : s ∈ scales := by
      have := List.mem_of_find?_eq_some h
      exact List.mem_of_mem_drop (List.mem_reverse.mp this)
    have hp := List.find?_some h
    simp only [Option.getD_some]
    refine ⟨?_, by simpa using hp⟩
    have := scales_pow10 s hm
    obtain ⟨k, hk, rfl⟩ := List.mem_map.mp this
    exact ⟨k, by have := List.mem_range.mp hk; omega, rfl⟩

theorem reduceScale_spec (d : Nat) : ∀ (fuel k : Nat), k ≤ fuel →
    ∃ j, j ≤ k ∧ reduceScale fuel (10 ^ k) d = 10 ^ j ∧ d % 10 ^ j = 0
  | 0, k, h => by
    have : k = 0 := by omega
    subst this
    exact ⟨0, by omega, rfl, by simp [Nat.mod_one]⟩
  | fuel + 1, k, h => by
    unfold reduceScale
    by_cases hc : 10 ^ k > 1 ∧ d % 10 ^ k ≠ 0
    · rw [if_pos hc]
      have hk : k ≠ 0 := by
        intro h0; subst h0; simp at hc
      have hdiv : 10 ^ k / 10 = 10 ^ (k - 1) := by
        have := @Nat.pow_div 10 k 1 (by omega) (by decide)
        simpa using this
      rw [hdiv]
      obtain ⟨j, hj, h1, h2⟩ := reduceScale_spec d fuel (k - 1) (by omega)
      exact ⟨j, by omega, h1, h2⟩
    · rw [if_neg hc]
      by_cases h1 : 10 ^ k > 1
      · have : d % 10 ^ k = 0 := by
          by_cases h2 : d % 10 ^ k = 0
          · exact h2
          · exact absurd ⟨h1, h2⟩ hc
        exact ⟨k, by omega, rfl, this⟩
      · have : k = 0 := by
          rcases Nat.eq_zero_or_pos k with h0 | h0
          · exact h0
          · exact absurd (Nat.one_lt_pow (by omega) (by decide)) h1
        subst this
        exact ⟨0, by omega, rfl, by simp [Nat.mod_one]⟩

theorem mod_of_pow_le {d j k : Nat} (h : d % 10 ^ k = 0) (hj : j ≤ k) : d % 10 ^ j = 0 :=
  Nat.mod_eq_zero_of_dvd (Nat.dvd_trans (Nat.pow_dvd_pow 10 hj) (Nat.dvd_of_mod_eq_zero h))

/-- after the loop the scale is a power of ten (≤ 10^12) dividing every delta walked over and
every delta the incoming scale divided. -/
theorem timeInitGo_spec : ∀ (more : List Nat) (next : Nat) (st : TimeInit) (k : Nat),
    k ≤ 12 → st.scale = 10 ^ k →
    ∃ j, j ≤ k ∧ (timeInitGo more next st).scale = 10 ^ j ∧ (∀ d ∈ more, d % 10 ^ j = 0) ∧
      ((timeInitGo more next st).isSimple8b = true →
          st.isSimple8b = true ∧ ∀ d ∈ more, d < simple8bMaxValue) ∧
      ((timeInitGo more next st).isConstDelta = true →
          st.isConstDelta = true ∧ ∀ d ∈ more, d = next)
  | [], _, st, k, _, hs => ⟨k, Nat.le_refl _, hs, by simp, by simp [timeInitGo], by simp [timeInitGo]⟩
  | d :: more, next, st, k, hk, hs => by
    obtain ⟨j1, hj1, hr, hd⟩ := reduceScale_spec d scaleFuel k (by unfold scaleFuel; omega)
    have ih := timeInitGo_spec more d
      { scale := reduceScale scaleFuel st.scale d
        isConstDelta := st.isConstDelta && d == next
        isSimple8b := st.isSimple8b && decide (d < simple8bMaxValue) } j1 (by omega)
      (by simp only [hs]; exact hr)
    obtain ⟨j, hj, h1, h2, h3, h4⟩ := ih
    refine ⟨j, by omega, by simpa [timeInitGo] using h1, ?_, ?_, ?_⟩
    · intro x hx
      rcases List.mem_cons.mp hx with rfl | hx
      · exact mod_of_pow_le hd hj
      · exact h2 x hx
    · intro hfin
      have := h3 (by simpa [timeInitGo] using hfin)
      simp only [Bool.and_eq_true, decide_eq_true_eq] at this
      refine ⟨this.1.1, ?_⟩
      intro x hx
      rcases List.mem_cons.mp hx with rfl | hx
      · exact this.1.2
      · exact this.2 x hx
    · intro hfin
      have := h4 (by simpa [timeInitGo] using hfin)
      simp only [Bool.and_eq_true, beq_iff_eq] at this
      refine ⟨this.1.1, ?_⟩
      intro x hx
      rcases List.mem_cons.mp hx with rfl | hx
      · exact this.1.2
      · rw [this.2 x hx]; exact this.1.2

/-- **the chosen scale divides every delta** (and is a power of ten ≤ 10^12). -/
theorem timeInit_spec (ds : List Nat) :
    IsScale (timeInit ds).scale ∧ (∀ d ∈ ds, d % (timeInit ds).scale = 0) ∧
    ((timeInit ds).isSimple8b = true → ∀ d ∈ ds, d < simple8bMaxValue) ∧
    ((timeInit ds).isConstDelta = true → ∀ d ∈ ds, ∀ e ∈ ds, d = e) := by
  unfold timeInit
  cases hrev : ds.reverse with
  | nil =>
    have : ds = [] := by simpa using hrev
    subst this
    exact ⟨⟨0, by omega, rfl⟩, by simp, by simp, by simp⟩
  | cons last more =>
    obtain ⟨⟨k, hk, hsk⟩, hlast⟩ := scaleOf_spec last
    obtain ⟨j, hj, h1, h2, h3, h4⟩ := timeInitGo_spec more last
      { scale := scaleOf last, isConstDelta := true, isSimple8b := decide (last < simple8bMaxValue) }
      k hk hsk
    have hmem : ∀ d, d ∈ ds ↔ d = last ∨ d ∈ more := by
      intro d
      rw [← List.mem_reverse, hrev]; simp
    simp only
    refine ⟨⟨j, by omega, h1⟩, ?_, ?_, ?_⟩
    · intro d hd
      rw [h1]
      rcases (hmem d).mp hd with rfl | hd
      · rw [hsk] at hlast; exact mod_of_pow_le hlast hj
      · exact h2 d hd
    · intro hfin d hd
      have := h3 hfin
      simp only [decide_eq_true_eq] at this
      rcases (hmem d).mp hd with rfl | hd
      · exact this.1
      · exact this.2 d hd
    · intro hfin d hd e he
      have := (h4 hfin).2
      have hd' : d = last := by
        rcases (hmem d).mp hd with h | h
        · exact h
        · exact this d h
      have he' : e = last := by
        rcases (hmem e).mp he with h | h
        · exact h
        · exact this e h
      rw [hd', he']

/-! ### decoders -/

theorem undeltas_append : ∀ (a b : List W) (p : W),
    undeltas p (a ++ b) = undeltas p a ++ undeltas (lastOr p (undeltas p a)) b
  | [], b, p => by simp [undeltas, lastOr]
  | x :: a, b, p => by
    simp only [List.cons_append, undeltas, lastOr]
    rw [undeltas_append a b (p + x)]

@[simp] theorem undeltas_length : ∀ (ds : List W) (p : W), (undeltas p ds).length = ds.length
  | [], _ => rfl
  | d :: ds, p => by simp [undeltas, undeltas_length ds]

@[simp] theorem deltas_length : ∀ (xs : List W) (p : W), (deltas p xs).length = xs.length
  | [], _ => rfl
  | x :: xs, p => by simp [deltas, deltas_length xs x]

theorem timeRun_decodeAll (scale : W) : ∀ (ws : List Nat) (vals : List Nat) (p : W),
    decodeAll ws = some vals →
    timeRun scale p ws = some (undeltas p (vals.map fun v => BitVec.ofNat 64 v * scale))
  | [], vals, p, h => by
    simp [decodeAll] at h; subst h; simp [timeRun, undeltas]
  | w :: ws, vals, p, h => by
    simp only [decodeAll, Option.bind_eq_bind, Option.pure_def] at h
    cases hw : decodeWord w with
    | none => simp [hw] at h
    | some vs =>
      cases hr : decodeAll ws with
      | none => simp [hw, hr] at h
      | some rest =>
        simp [hw, hr] at h
        subst h
        simp only [timeRun, hw, Option.bind_eq_bind, Option.pure_def, Option.bind_some]
        rw [timeRun_decodeAll scale ws rest _ hr]
        simp [undeltas_append]

/-- dividing by a scale that divides every delta and multiplying back (wrapping) is exact. -/
theorem scaled_back (S : Nat) : ∀ (l : List W), (∀ x ∈ l, x.toNat % S = 0) →
    ((l.map (·.toNat)).map (· / S)).map (fun v => BitVec.ofNat 64 v * BitVec.ofNat 64 S) = l
  | [], _ => rfl
  | x :: l, h => by
    simp only [List.map_cons]
    rw [scaled_back S l (fun y hy => h y (by simp [hy])), BitVec.ofNat_mul_ofNat,
      Nat.div_mul_cancel (Nat.dvd_of_mod_eq_zero (h x (by simp))), w_ofNat_toNat]

theorem decodeTime_mode (unsnappy : Bytes → Option Bytes) (m : Nat) (h : m < 16) (body : Bytes)
    (hb : 4 ≤ body.length) :
    decodeTime unsnappy (modeByte m :: body) = decodeTimeBody unsnappy m body := by
  have : ¬ ((body.take 4).length < 4) := by rw [take_length_lt_iff]; omega
  simp only [decodeTime, this, if_false, modeByte_ty m h]

theorem timeUncompressed_decode (unsnappy : Bytes → Option Bytes) (xs : List W) :
    decodeTime unsnappy (timeUncompressedBytes xs) = some xs := by
  unfold timeUncompressedBytes
  rw [decodeTime_mode _ _ (by decide) _ (by simp)]
  have e : decodeTimeBody unsnappy timeUncompressed = fun inp => decodeTimeRaw inp := by
    funext inp; simp [decodeTimeBody]
  rw [e]
  simp only [decodeTimeRaw, readBE_be, Option.bind_eq_bind, Option.bind_some, beWords_length,
    List.length_map]
  have hm : 8 * xs.length % 256 ^ 4 ≤ 8 * xs.length := Nat.mod_le _ _
  have : ¬ (8 * xs.length < 8 * xs.length % 256 ^ 4) := by omega
  simp only [this, if_false, Option.pure_def]
  rw [unbeWords_beWords 8 (by decide) _ _ (by simp; omega) (by
    intro w hw
    obtain ⟨x, _, rfl⟩ := List.mem_map.mp hw
    exact w_lt _)]
  rw [map_unmarshal]

/-- parser lemmas on abstract inputs -/
theorem decodeTimeConst_of (inp r1 : Bytes) (first delta count n : Nat)
    (hl : 8 ≤ inp.length) (h1 : readBE 8 inp = some (first, r1))
    (h2 : uvarint r1 = some (delta, n)) (h3 : ∃ m, uvarint (r1.drop n) = some (count, m)) :
    decodeTimeConst inp = some (BitVec.ofNat 64 first ::
      constRun (BitVec.ofNat 64 first) (BitVec.ofNat 64 delta) count) := by
  obtain ⟨m, h3⟩ := h3
  unfold decodeTimeConst
  have : ¬ ((inp.take 8).length < 8) := by rw [take_length_lt_iff]; omega
  simp only [this, if_false, h1, Option.bind_eq_bind, Option.bind_some, h2, h3, Option.pure_def]

theorem timeConst_decode (unsnappy : Bytes → Option Bytes) (t0 d : W) (ds : List W)
    (hall : ∀ e ∈ ds, e = d) (hlen : ds.length < 2 ^ 64) :
    decodeTime unsnappy (modeByte timeCompressedConstDelta ::
        (be 8 t0.toNat ++ (putUvarint d.toNat ++ putUvarint ds.length)))
      = some (t0 :: undeltas t0 ds) := by
  rw [decodeTime_mode _ _ (by decide) _ (by simp; omega)]
  have e : decodeTimeBody unsnappy timeCompressedConstDelta = fun inp => decodeTimeConst inp := by
    funext inp; simp [decodeTimeBody, timeCompressedConstDelta, timeUncompressed]
  rw [e]
  show decodeTimeConst _ = _
  have h3 := uvarint_put ds.length [] hlen
  rw [List.append_nil] at h3
  rw [decodeTimeConst_of _ (putUvarint d.toNat ++ putUvarint ds.length) t0.toNat d.toNat ds.length
    (putUvarint d.toNat).length (by simp) (readBE_be_lt _ (w_lt _))
    (uvarint_put _ _ d.isLt) ⟨_, by simpa using h3⟩]
  simp only [w_ofNat_toNat]
  rw [constRun_eq' ds d t0 hall]

theorem decodeTimeS8b_of (inp r0 r1 r2 : Bytes) (scale encCount srcCount first : Nat)
    (ws : List Nat) (rest : List W)
    (hl : 24 ≤ inp.length) (h0 : readBE 8 inp = some (scale, r0))
    (h1 : readBE 4 r0 = some (encCount, r1)) (h2 : readBE 4 r1 = some (srcCount, r2))
    (hlen : r2.length = encCount * 8) (hw : unbeWords 8 encCount r2 = first :: ws)
    (hrun : timeRun (BitVec.ofNat 64 scale) (BitVec.ofNat 64 first) ws = some rest)
    (hcnt : rest.length + 1 = srcCount) :
    decodeTimeS8b inp = some (BitVec.ofNat 64 first :: rest) := by
  unfold decodeTimeS8b
  have : ¬ ((inp.take 24).length < 24) := by rw [take_length_lt_iff]; omega
  have h5 : ¬ ((r2.take (encCount * 8)).length < encCount * 8) := by
    rw [take_length_lt_iff]; omega
  have h6 : r2.take (encCount * 8) = r2 := List.take_of_length_le (by omega)
  have h7 : ¬ (r2.length < encCount * 8) := by omega
  simp only [this, if_false, h0, Option.bind_eq_bind, Option.bind_some, h1, h2, h5, h6, h7, hw, hrun,
    hcnt, if_true, Option.pure_def]

theorem decodeTimeSnappy_of (unsnappy : Bytes → Option Bytes) (inp r1 r2 dec : Bytes) (a c : Nat)
    (h1 : readBE 4 inp = some (a, r1)) (h2 : readBE 4 r1 = some (c, r2)) (hc : c = r2.length)
    (hd : unsnappy r2 = some dec) (ha : dec.length = a) :
    decodeTimeSnappy unsnappy inp = some (unleWords dec.length dec) := by
  unfold decodeTimeSnappy
  subst hc
  have h5 : ¬ ((r2.take r2.length).length < r2.length) := by simp
  simp only [h1, Option.bind_eq_bind, Option.bind_some, h2, h5, if_false, List.take_length, hd,
    ha, ne_eq, not_true_eq_false, Option.pure_def, Nat.lt_irrefl]

end OG.C07
