/-
C07 — expectations about the regenerated facts of the metadata codecs (`OG/Generated/C07.lean`,
section "metadata codecs"): the scale table of lib/codec (used by the model), the canonical
text of every marshal function the model transcribes, the field lists of the marshalled
structures (a field added to a structure but not to its codec shows here) and fingerprints of the
unmarshal functions.
-/
import OG.C07.MetaCodec

namespace OG.C07.FactsMeta
open OG.Gen.C07

theorem codecScales_expected : codecScales = [1, 10 ^ 3, 10 ^ 6, 10 ^ 9] := by decide

theorem src_codecScale_expected : src_codecScale = "{ n := len(scales) - 1 for i := n; i >= 0; i-- { if v%scales[i] == 0 { return i } } return n }" := by rfl

theorem src_findScaleIdx_expected : src_findScaleIdx = "{ var idx = len(scales) - 1 var prev int64 for _, i := range int64s { v := scale(i - prev) if v < idx { idx = v } prev = i } return idx }" := by rfl

theorem src_encodeInt64sWithScale_expected : src_encodeInt64sWithScale = "{ idx := findScaleIdx(int64s) dst = append(dst, uint8(idx)) for i, v := range int64s { if i > 0 { v -= int64s[i-1] } dst = binary.AppendUvarint(dst, uint64(v/scales[idx])) } return dst }" := by rfl

theorem src_decodeInt64sWithScale_expected : src_decodeInt64sWithScale = "{ if len(src) < 1 { return src, false } offset := 1 s := scales[src[0]] for i, v := range dst { u, n := binary.Uvarint(src[offset:]) if n <= 0 { return nil, false } offset += n *v = int64(u) * s if i > 0 { *v += *(dst[i-1]) } } return src[offset:], true }" := by rfl

theorem src_appendInt64WithScale_expected : src_appendInt64WithScale = "{ idx := scale(v) b = append(b, uint8(idx)) b = binary.AppendUvarint(b, uint64(v/scales[idx])) return b }" := by rfl

theorem src_decodeInt64WithScale_expected : src_decodeInt64WithScale = "{ if len(b) < 1 { return b, 0, false } idx := b[0] b = b[1:] if int(idx) > len(scales) { return b, 0, false } v, n := binary.Uvarint(b) if n <= 0 { return b, 0, false } return b[n:], int64(v) * scales[idx], true }" := by rfl

theorem src_chunkMetaMarshal_expected : src_chunkMetaMarshal = "{ dst = numberenc.MarshalUint64Append(dst, m.sid) dst = numberenc.MarshalInt64Append(dst, m.offset) dst = numberenc.MarshalUint32Append(dst, m.size) dst = numberenc.MarshalUint32Append(dst, m.columnCount) dst = numberenc.MarshalUint32Append(dst, m.segCount) for i := range m.timeRange { tr := &m.timeRange[i] dst = tr.marshal(dst) } for i := range m.colMeta { dst = m.colMeta[i].marshal(dst) } return dst }" := by rfl

theorem src_columnMetaMarshal_expected : src_columnMetaMarshal = "{ dst = numberenc.MarshalUint16Append(dst, uint16(len(m.name))) dst = append(dst, m.name...) dst = append(dst, m.ty) if config.GetCommon().PreAggEnabled || m.name == record.TimeField { dst = numberenc.MarshalUint16Append(dst, uint16(len(m.preAgg))) dst = append(dst, m.preAgg...) } else { dst = numberenc.MarshalUint16Append(dst, 0) } for i := range m.entries { seg := m.entries[i] dst = seg.marshal(dst) } return dst }" := by rfl

theorem src_segmentMarshal_expected : src_segmentMarshal = "{ dst = numberenc.MarshalInt64Append(dst, s.offset) dst = numberenc.MarshalUint32Append(dst, s.size) return dst }" := by rfl

theorem src_segmentRangeMarshal_expected : src_segmentRangeMarshal = "{ dst = numberenc.MarshalInt64Append(dst, sr[0]) dst = numberenc.MarshalInt64Append(dst, sr[1]) return dst }" := by rfl

theorem src_metaIndexMarshal_expected : src_metaIndexMarshal = "{ dst = numberenc.MarshalUint64Append(dst, m.id) dst = numberenc.MarshalInt64Append(dst, m.minTime) dst = numberenc.MarshalInt64Append(dst, m.maxTime) dst = numberenc.MarshalInt64Append(dst, m.offset) dst = numberenc.MarshalUint32Append(dst, m.count) dst = numberenc.MarshalUint32Append(dst, m.size) return dst }" := by rfl

theorem src_metaIndexMarshalDetached_expected : src_metaIndexMarshalDetached = "{ dst = numberenc.MarshalUint64Append(dst, m.id) dst = numberenc.MarshalInt64Append(dst, m.minTime) dst = numberenc.MarshalInt64Append(dst, m.maxTime) dst = numberenc.MarshalInt64Append(dst, m.offset) dst = numberenc.MarshalUint32Append(dst, m.size) return dst }" := by rfl

theorem src_marshalChunkMeta_expected : src_marshalChunkMeta = "{ if !IsChunkMetaCompressSelf() { return cm.marshal(dst), nil } dst = binary.BigEndian.AppendUint64(dst, cm.sid) dst = binary.AppendUvarint(dst, uint64(cm.offset)) dst = binary.AppendUvarint(dst, uint64(cm.size)) dst = binary.AppendUvarint(dst, uint64(cm.columnCount)) dst = binary.AppendUvarint(dst, uint64(cm.segCount)) var err error dst = MarshalTimeRange(ctx, cm.timeRange, dst) for i := range cm.colMeta { dst = MarshalColumnMeta(ctx, &cm.colMeta[i], dst) } return dst, err }" := by rfl

theorem src_marshalColumnMeta_expected : src_marshalColumnMeta = "{ dst = binary.AppendUvarint(dst, ctx.GetIndex(col.name)) dst = append(dst, col.ty) if config.GetCommon().PreAggEnabled || col.name == record.TimeField { dst = append(dst, uint8(len(col.preAgg))) dst = append(dst, col.preAgg...) } else { dst = append(dst, 0) } dst = numberenc.MarshalUint64Append(dst, uint64(col.entries[0].offset)) for i := range col.entries { dst = numberenc.MarshalUint32Append(dst, col.entries[i].size) } return dst }" := by rfl

theorem src_marshalTimeRange_expected : src_marshalTimeRange = "{ int64s := ctx.int64s[:0] for i := range sr { int64s = append(int64s, sr[i][0], sr[i][1]) } dst = codec.EncodeInt64sWithScale(dst, int64s) ctx.int64s = int64s return dst }" := by rfl

theorem src_trailerMarshal_expected : src_trailerMarshal = "{ dst = numberenc.MarshalInt64Append(dst, t.dataOffset) dst = numberenc.MarshalInt64Append(dst, t.dataSize) dst = numberenc.MarshalInt64Append(dst, t.indexSize) dst = numberenc.MarshalInt64Append(dst, t.metaIndexSize) dst = numberenc.MarshalInt64Append(dst, t.bloomSize) dst = numberenc.MarshalInt64Append(dst, t.idTimeSize) return t.marshalStat(dst) }" := by rfl

theorem src_marshalStat_expected : src_marshalStat = "{ dst = numberenc.MarshalInt64Append(dst, stat.idCount) dst = numberenc.MarshalUint64Append(dst, stat.minId) dst = numberenc.MarshalUint64Append(dst, stat.maxId) dst = numberenc.MarshalInt64Append(dst, stat.minTime) dst = numberenc.MarshalInt64Append(dst, stat.maxTime) dst = numberenc.MarshalInt64Append(dst, stat.metaIndexItemNum) dst = numberenc.MarshalUint64Append(dst, stat.bloomM) dst = numberenc.MarshalUint64Append(dst, stat.bloomK) dst = numberenc.MarshalUint16Append(dst, uint16(util.Uint64SizeBytes)) dst = stat.MarshalExtraData(dst) dst = numberenc.MarshalUint16Append(dst, uint16(len(stat.name))) dst = append(dst, stat.name...) return dst }" := by rfl

theorem fields_ChunkMeta_expected : fields_ChunkMeta = ["sid uint64", "offset int64", "size uint32", "columnCount uint32", "segCount uint32", "timeRange []SegmentRange", "colMeta []ColumnMeta"] := by rfl

theorem fields_ColumnMeta_expected : fields_ColumnMeta = ["name string", "ty byte", "preAgg []byte", "entries []Segment"] := by rfl

theorem fields_Segment_expected : fields_Segment = ["offset int64", "size uint32"] := by rfl

theorem fields_MetaIndex_expected : fields_MetaIndex = ["id uint64", "minTime int64", "maxTime int64", "offset int64", "count uint32", "size uint32"] := by rfl

theorem fields_Trailer_expected : fields_Trailer = ["dataOffset int64", "dataSize int64", "indexSize int64", "metaIndexSize int64", "bloomSize int64", "idTimeSize int64", "TableStat"] := by rfl

theorem fields_TableStat_expected : fields_TableStat = ["ExtraData", "idCount int64", "minId uint64", "maxId uint64", "minTime int64", "maxTime int64", "metaIndexItemNum int64", "bloomM uint64", "bloomK uint64", "name []byte"] := by rfl

theorem fields_ExtraData_expected : fields_ExtraData = ["hasMetaHeader bool", "TimeStoreFlag uint8", "ChunkMetaCompressFlag uint8", "size int", "ChunkMetaHeader *ChunkMetaHeader"] := by rfl

theorem fields_ColVal_expected : fields_ColVal = ["Val []byte", "Offset []uint32", "Bitmap []byte", "BitMapOffset int", "Len int", "NilCount int"] := by rfl

theorem fp_meta_expected :
    [fp_chunkMetaUnmarshal, fp_chunkMetaUnmarshalBaseAttr, fp_chunkMetaResize, fp_chunkMetaMinBytes, fp_columnMetaUnmarshal, fp_columnMetaUnmarshalEntries, fp_columnMetaUnmarshalPreagg, fp_columnMetaUnmarshalName, fp_columnMetaBytes, fp_segmentUnmarshal, fp_segmentRangeUnmarshal, fp_metaIndexUnmarshal, fp_metaIndexUnmarshalDetached, fp_unmarshalChunkMeta, fp_unmarshalChunkMetaBaseAttr, fp_unmarshalTimeRange, fp_unmarshalColumnMeta, fp_unmarshalColumnMetaWithoutName, fp_unmarshalColumnName, fp_columnMetaMinSize, fp_codecCtxGetIndex, fp_codecCtxGetValue, fp_chunkMetaHeaderMarshal, fp_chunkMetaHeaderUnmarshal, fp_chunkMetaHeaderGetValue, fp_trailerUnmarshal, fp_unmarshalStat, fp_marshalExtraData, fp_unmarshalExtraData, fp_unmarshalFlag, fp_unmarshalHeader, fp_codecAppendString, fp_codecDecString, fp_codecDecUvarint] =
    ["c4998d55eb5d5ad8", "8a4620a8886fe481", "63eab9865ef75bc6", "adfcb8c6b0696ce7", "f5a5f8dd4d551ffd", "eec8a9e7d6fe368c", "9d7e0b8d4b03ae85", "0726ca25a8269ae7", "2f85ca8c69c6542e", "44f195edbd67f4de", "dd510772479eee40", "c81e98c0f0c5665f", "1f7df492f2122122", "83d2e7ac7050bd66", "85eca30fed1cce17", "f6067792c63b1b6e", "64bc1785fe76f559", "e7632fd086c4eb83", "6daccc3afb34769a", "912efd5f7b475d34", "466cb65786950f3a", "d0e9ba373868bf3a", "658c672268c5189e", "fa6ac596a72b961a", "ea92e7d0e4536611", "b33cf50c7ab78613", "640eea858a76e054", "4c0eac7777d36183", "63441f21a0de7309", "4148408cb9785370", "eb87ae739131b24b", "b7701de32aade76a", "2729f57c1e2c6825", "203ba2cb31592026"] := by rfl

end OG.C07.FactsMeta
