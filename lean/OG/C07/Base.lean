/-
C07 — byte-level vocabulary shared by all codec models (core Lean only).

Bytes are `List UInt8`.  Fixed-width big-endian integers (`numberenc.MarshalUint32Append`,
`MarshalUint64Append`, `binary.BigEndian.Uint64`), little-endian ones (the in-memory layout of
the `[]int64` / `[]float64` a block is given as, on the platforms openGemini supports) and
`binary.PutUvarint` / `binary.Uvarint` are modelled over `Nat`.
-/
namespace OG.C07

abbrev Bytes := List UInt8

/-- `k` big-endian bytes of `n` (the low `k` bytes of `n`). -/
def be : Nat → Nat → Bytes
  | 0, _ => []
  | k + 1, n => UInt8.ofNat (n / 256 ^ k % 256) :: be k n

/-- big-endian value of a byte list. -/
def unbe : Bytes → Nat
  | [] => 0
  | b :: bs => b.toNat * 256 ^ bs.length + unbe bs

/-- `k` little-endian bytes of `n`. -/
def le : Nat → Nat → Bytes
  | 0, _ => []
  | k + 1, n => UInt8.ofNat (n % 256) :: le k (n / 256)

def unle : Bytes → Nat
  | [] => 0
  | b :: bs => b.toNat + 256 * unle bs

/-- read a `k`-byte big-endian integer from the front of `bs`; Go panics (slice out of range)
when fewer bytes are left: `none`. -/
def readBE (k : Nat) (bs : Bytes) : Option (Nat × Bytes) :=
  if (bs.take k).length < k then none else some (unbe (bs.take k), bs.drop k)

/-- `binary.PutUvarint` for a value below `2 ^ (7 * fuel)` (fuel 10 covers uint64). -/
def putUvarintAux : Nat → Nat → Bytes
  | 0, _ => []
  | fuel + 1, x =>
    if x < 128 then [UInt8.ofNat x]
    else UInt8.ofNat (x % 128 + 128) :: putUvarintAux fuel (x / 128)

def putUvarint (x : Nat) : Bytes := putUvarintAux 10 x

/-- `binary.Uvarint`: `some (value, bytesRead)`; `none` where Go returns `n ≤ 0` (buffer too
small, or overflow: more than ten bytes / tenth byte above 1).  `i` is the index of the next
byte, `x` the accumulated value, `s = 7 * i` the shift. -/
def uvarintAux : Bytes → Nat → Nat → Option (Nat × Nat)
  | [], _, _ => none
  | b :: bs, i, x =>
    if i = 10 then none
    else if b.toNat < 128 then
      if i = 9 ∧ b.toNat > 1 then none
      else some (x + b.toNat * 2 ^ (7 * i), i + 1)
    else uvarintAux bs (i + 1) (x + (b.toNat % 128) * 2 ^ (7 * i))

def uvarint (bs : Bytes) : Option (Nat × Nat) := uvarintAux bs 0 0

/-- concatenation of `k`-byte big-endian words. -/
def beWords (k : Nat) (ws : List Nat) : Bytes := ws.flatMap (be k)

/-- split a byte list into `k`-byte big-endian words (a trailing partial word is dropped, as
the Go loops `for i := 0; i < len(src)/8; i++` do). `fuel` ≥ number of words. -/
def unbeWords (k : Nat) : Nat → Bytes → List Nat
  | 0, _ => []
  | fuel + 1, bs =>
    if k = 0 ∨ (bs.take k).length < k then [] else unbe (bs.take k) :: unbeWords k fuel (bs.drop k)

/-- `float64(cmpLen) / float64(srcLen) < minCompReta` for lengths below 2^32: both
conversions are exact, the quotient is correctly rounded and `num/den` (= 17/20) is not a
binary64 value, so the comparison agrees with the rational one (checked on every
correspondence line). -/
def ratioLT (cmpLen srcLen num den : Nat) : Bool := decide (cmpLen * den < num * srcLen)
def ratioGT (cmpLen srcLen num den : Nat) : Bool := decide (cmpLen * den > num * srcLen)

end OG.C07
