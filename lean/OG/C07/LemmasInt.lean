/-
C07 — helper lemmas for the integer block: zig-zag inverses (over the regenerated
definitions), wrapping delta round trips, word/byte conversions, the three decoders' loops.
-/
import OG.C07.IntBlock
import OG.C07.LemmasBytes
import OG.C07.LemmasSimple8b

namespace OG.C07
open OG.Gen.C07

theorem zigzag_inv' (v : W) : unzz (zz v) = v := by
  unfold unzz zz zigZagDecode zigZagEncode
  ext i hi
  have hM : v.getMsbD 0 = v[63] := by simp [BitVec.getMsbD]
  have hm : v.msb = v[63] := by simp [BitVec.msb, hM]
  by_cases h0 : i = 0
  · subst h0; simp [BitVec.getElem_sshiftRight, hm]
  · by_cases h63 : i = 63
    · subst h63; simp [BitVec.getElem_sshiftRight, hM]
    · have h1 : 1 + i < 64 := by omega
      have h2 : ¬ (63 + (1 + i) < 64) := by omega
      have h3 : ¬ (63 + i < 64) := by omega
      simp [BitVec.getElem_sshiftRight, hm, hM, h0, h1, h2, h3]

theorem marshalZz_inv (v : W) : unmarshalInt64Zz (marshalInt64Zz v) = v := by
  unfold unmarshalInt64Zz marshalInt64Zz
  ext i hi
  have hM : v.getMsbD 0 = v[63] := by simp [BitVec.getMsbD]
  have hm : v.msb = v[63] := by simp [BitVec.msb, hM]
  by_cases h0 : i = 0
  · subst h0; simp [BitVec.getElem_sshiftRight, hm]
  · by_cases h63 : i = 63
    · subst h63; simp [BitVec.getElem_sshiftRight, hM]
    · have h1 : 1 + i < 64 := by omega
      have h2 : ¬ (63 + (1 + i) < 64) := by omega
      have h3 : ¬ (63 + i < 64) := by omega
      simp [BitVec.getElem_sshiftRight, hm, hM, h0, h1, h2, h3]

theorem add_sub_self (p x : W) : p + (x - p) = x := by
  rw [BitVec.add_comm, BitVec.sub_add_cancel]

theorem unzzDeltas_zzDeltas : ∀ (xs : List W) (p : W), unzzDeltas p (zzDeltas p xs) = xs
  | [], _ => rfl
  | x :: xs, p => by
    simp only [zzDeltas, unzzDeltas, zigzag_inv', add_sub_self, unzzDeltas_zzDeltas xs x]

theorem undeltas_deltas : ∀ (xs : List W) (p : W), undeltas p (deltas p xs) = xs
  | [], _ => rfl
  | x :: xs, p => by
    simp only [deltas, undeltas, add_sub_self, undeltas_deltas xs x]

@[simp] theorem zzDeltas_length : ∀ (xs : List W) (p : W), (zzDeltas p xs).length = xs.length
  | [], _ => rfl
  | x :: xs, p => by simp [zzDeltas, zzDeltas_length xs x]

theorem w_lt (x : W) : x.toNat < 256 ^ 8 := by
  have := x.isLt
  have e : (256 : Nat) ^ 8 = 2 ^ 64 := by decide
  omega

theorem w_ofNat_toNat (x : W) : BitVec.ofNat 64 x.toNat = x := by simp

@[simp] theorem unzzDeltas_length : ∀ (ds : List W) (p : W), (unzzDeltas p ds).length = ds.length
  | [], _ => rfl
  | d :: ds, p => by simp [unzzDeltas, unzzDeltas_length ds]

/-! ### little-endian words (the zstd payload) -/

theorem leWords_cons (x : W) (xs : List W) : leWords (x :: xs) = le 8 x.toNat ++ leWords xs := by
  simp [leWords]

@[simp] theorem leWords_length : ∀ xs : List W, (leWords xs).length = 8 * xs.length
  | [] => by simp [leWords]
  | x :: xs => by rw [leWords_cons, List.length_append, leWords_length xs]; simp [Nat.mul_succ]; omega

theorem unleWords_leWords : ∀ (xs : List W) (fuel : Nat), xs.length ≤ fuel →
    unleWords fuel (leWords xs) = xs
  | [], fuel, _ => by cases fuel <;> simp [unleWords, leWords]
  | x :: xs, 0, h => by simp at h
  | x :: xs, fuel + 1, h => by
    rw [leWords_cons]
    unfold unleWords
    simp only [take_length_lt_iff]
    have h1 : ¬ (le 8 x.toNat ++ leWords xs).length < 8 := by simp
    simp only [h1, if_false]
    have h2 : (le 8 x.toNat ++ leWords xs).take 8 = le 8 x.toNat := by
      rw [List.take_append_of_le_length (by simp)]; simp [List.take_of_length_le]
    have h3 : (le 8 x.toNat ++ leWords xs).drop 8 = leWords xs := by
      rw [List.drop_append_of_le_length (by simp)]; simp [List.drop_of_length_le]
    rw [h2, h3, unle_le, Nat.mod_eq_of_lt (w_lt x), w_ofNat_toNat,
      unleWords_leWords xs fuel (by simp at h; omega)]

/-! ### const-delta -/

theorem adjEq_all : ∀ (d : W) (ds : List W), adjEq (d :: ds) = true → ∀ e ∈ ds, e = d
  | _, [], _ => by simp
  | d, e :: t, h => by
    simp only [adjEq, Bool.and_eq_true, beq_iff_eq] at h
    obtain ⟨rfl, h2⟩ := h
    intro x hx
    rcases List.mem_cons.mp hx with rfl | hx
    · rfl
    · exact adjEq_all d t h2 x hx

theorem constRun_eq : ∀ (ds : List W) (d p : W), (∀ e ∈ ds, e = d) →
    constRun p (unzz d) ds.length = unzzDeltas p ds
  | [], _, _, _ => rfl
  | e :: t, d, p, h => by
    have he : e = d := h e (by simp)
    subst he
    simp only [List.length_cons, constRun, unzzDeltas]
    rw [constRun_eq t e (p + unzz e) (fun x hx => h x (by simp [hx]))]

theorem constRun_eq' : ∀ (ds : List W) (d p : W), (∀ e ∈ ds, e = d) →
    constRun p d ds.length = undeltas p ds
  | [], _, _, _ => rfl
  | e :: t, d, p, h => by
    have he : e = d := h e (by simp)
    subst he
    simp only [List.length_cons, constRun, undeltas]
    rw [constRun_eq' t e (p + e) (fun x hx => h x (by simp [hx]))]

/-! ### simple8b loop -/

theorem unzzDeltas_append : ∀ (a b : List W) (p : W),
    unzzDeltas p (a ++ b) = unzzDeltas p a ++ unzzDeltas (lastOr p (unzzDeltas p a)) b
  | [], b, p => by simp [unzzDeltas, lastOr]
  | x :: a, b, p => by
    simp only [List.cons_append, unzzDeltas, lastOr]
    rw [unzzDeltas_append a b (p + unzz x)]

theorem s8bRun_decodeAll : ∀ (ws : List Nat) (vals : List Nat) (p : W),
    decodeAll ws = some vals → s8bRun p ws = some (unzzDeltas p (vals.map (BitVec.ofNat 64)))
  | [], vals, p, h => by
    simp [decodeAll] at h; subst h; simp [s8bRun, unzzDeltas]
  | w :: ws, vals, p, h => by
    simp only [decodeAll, Option.bind_eq_bind, Option.pure_def] at h
    cases hw : decodeWord w with
    | none => simp [hw] at h
    | some vs =>
      cases hr : decodeAll ws with
      | none => simp [hw, hr] at h
      | some rest =>
        simp [hw, hr] at h
        subst h
        simp only [s8bRun, hw, Option.bind_eq_bind, Option.pure_def, Option.bind_some]
        rw [s8bRun_decodeAll ws rest _ hr]
        simp [unzzDeltas_append]

/-! ### the four decoders on the bytes their encoders wrote -/

theorem modeByte_ty (m : Nat) (h : m < 16) : (modeByte m).toNat / 16 = m := by
  unfold modeByte
  rw [u8_toNat_ofNat_lt (by omega)]; omega

theorem decodeInt_mode (unzstd : Bytes → Option Bytes) (m : Nat) (h : m < 16) (body : Bytes)
    (hb : 4 ≤ body.length) :
    decodeInt unzstd (modeByte m :: body) = decodeIntBody unzstd m body := by
  have : ¬ (body.length + 1 < 5) := by omega
  simp only [decodeInt, this, if_false, modeByte_ty m h]

theorem map_unmarshal (xs : List W) :
    (xs.map fun x => (marshalInt64Zz x).toNat).map
      (fun w => unmarshalInt64Zz (BitVec.ofNat 64 w)) = xs := by
  induction xs with
  | nil => rfl
  | cons x xs ih => simp only [List.map_cons, w_ofNat_toNat, marshalZz_inv, ih]

theorem map_ofNat_toNat (xs : List W) : (xs.map (·.toNat)).map (BitVec.ofNat 64) = xs := by
  induction xs with
  | nil => rfl
  | cons x xs ih => simp only [List.map_cons, w_ofNat_toNat, ih]

theorem intUncompressed_decode (unzstd : Bytes → Option Bytes) (xs : List W) :
    decodeInt unzstd (intUncompressedBytes xs) = some xs := by
  unfold intUncompressedBytes
  rw [decodeInt_mode _ _ (by decide) _ (by simp)]
  have e : decodeIntBody unzstd intUncompressed = fun inp => decodeIntRaw inp := by
    funext inp; simp [decodeIntBody]
  rw [e]
  simp only [decodeIntRaw, readBE_be, Option.bind_eq_bind, Option.bind_some, beWords_length,
    List.length_map]
  have hm : 8 * xs.length % 256 ^ 4 ≤ 8 * xs.length := Nat.mod_le _ _
  have : ¬ (8 * xs.length < 8 * xs.length % 256 ^ 4) := by omega
  simp only [this, if_false, Option.pure_def]
  rw [unbeWords_beWords 8 (by decide) _ _ (by simp; omega) (by
    intro w hw
    obtain ⟨x, _, rfl⟩ := List.mem_map.mp hw
    exact w_lt _)]
  rw [map_unmarshal]

theorem intConst_decode (unzstd : Bytes → Option Bytes) (v0 z1 : W) (ds : List W)
    (hall : ∀ e ∈ ds, e = z1) (hlen : ds.length < 2 ^ 64) :
    decodeInt unzstd (modeByte intCompressedConstDelta ::
        (be 8 (zz v0).toNat ++ (putUvarint z1.toNat ++ putUvarint ds.length)))
      = some (v0 :: unzzDeltas v0 ds) := by
  rw [decodeInt_mode _ _ (by decide) _ (by simp; omega)]
  have e : decodeIntBody unzstd intCompressedConstDelta = fun inp => decodeIntConst inp := by
    funext inp; simp [decodeIntBody, intCompressedConstDelta, intUncompressed]
  rw [e]
  have hl : ¬ (be 8 (zz v0).toNat ++ (putUvarint z1.toNat ++ putUvarint ds.length)).length < 8 := by
    simp
  simp only [decodeIntConst, hl, if_false, readBE_be_lt _ (w_lt _), Option.bind_eq_bind,
    Option.bind_some]
  have hz1 : z1.toNat < 2 ^ 64 := z1.isLt
  rw [uvarint_put _ _ hz1]
  simp only [Option.bind_some, List.drop_left]
  have := uvarint_put ds.length [] hlen
  rw [List.append_nil] at this
  rw [this]
  simp only [Option.bind_some, Option.pure_def, w_ofNat_toNat, zigzag_inv']
  rw [constRun_eq ds z1 v0 hall]

theorem intS8b_decode (unzstd : Bytes → Option Bytes) (v0 : W) (ds : List W) (ws : List Nat)
    (henc : encodeAll (ds.map (·.toNat)) = some ws)
    (hsmall : ∀ d ∈ ds, d.toNat < 2 ^ 60) (hlen : ds.length + 1 < 2 ^ 32) :
    decodeInt unzstd (modeByte intCompressedSimple8b ::
        (be 4 (ws.length + 1) ++ (be 4 (ds.length + 1) ++ beWords 8 ((zz v0).toNat :: ws))))
      = some (v0 :: unzzDeltas v0 ds) := by
  obtain ⟨ws', h1, h2, h3, h4, _⟩ := encodeAllAux_roundtrip (ds.map (·.toNat)).length (ds.map (·.toNat))
    (Nat.le_refl _) (by
      intro v hv
      obtain ⟨d, hd, rfl⟩ := List.mem_map.mp hv
      exact hsmall d hd)
  have : ws' = ws := by
    unfold encodeAll at henc; rw [h1] at henc; exact Option.some.inj henc
  subst this
  simp only [List.length_map] at h4
  rw [decodeInt_mode _ _ (by decide) _ (by simp)]
  have e : decodeIntBody unzstd intCompressedSimple8b = fun inp => decodeIntS8b inp := by
    funext inp
    simp [decodeIntBody, intCompressedSimple8b, intUncompressed, intCompressedConstDelta]
  rw [e]
  have hl : ¬ (be 4 (ws'.length + 1) ++ (be 4 (ds.length + 1)
      ++ beWords 8 ((zz v0).toNat :: ws'))).length < 16 := by
    simp; omega
  have p4 : (256 : Nat) ^ 4 = 2 ^ 32 := by decide
  simp only [decodeIntS8b, hl, if_false, Option.bind_eq_bind]
  rw [readBE_be_lt _ (by rw [p4]; omega)]
  simp only [Option.bind_some]
  rw [readBE_be_lt _ (by rw [p4]; omega)]
  simp only [Option.bind_some]
  have hlen2 : (beWords 8 ((zz v0).toNat :: ws')).length = (ws'.length + 1) * 8 := by
    simp; omega
  have hl2 : ¬ (beWords 8 ((zz v0).toNat :: ws')).length < (ws'.length + 1) * 8 := by omega
  simp only [hl2, if_false]
  rw [List.take_of_length_le (by omega)]
  rw [unbeWords_beWords 8 (by decide) _ _ (by simp) (by
    intro w hw
    have e8 : (256 : Nat) ^ 8 = 2 ^ 64 := by decide
    rcases List.mem_cons.mp hw with rfl | hw
    · exact w_lt _
    · rw [e8]; exact h3 w hw)]
  simp only [w_ofNat_toNat, zigzag_inv']
  rw [s8bRun_decodeAll ws' _ v0 h2, map_ofNat_toNat]
  simp only [Option.bind_some]
  simp [unzzDeltas_length]

/-- parser lemma on abstract inputs (keeps the kernel away from unfolding `be`). -/
theorem decodeIntZstd_of (unzstd : Bytes → Option Bytes) (inp r1 r2 : Bytes) (a c : Nat)
    (h1 : readBE 4 inp = some (a, r1)) (h2 : readBE 4 r1 = some (c, r2)) (hc : c = r2.length) :
    decodeIntZstd unzstd inp = (unzstd r2).bind fun dec => some (unleWords dec.length dec) := by
  unfold decodeIntZstd
  rw [h1]
  simp only [Option.bind_eq_bind, Option.bind_some]
  rw [h2]
  subst hc
  simp only [Option.bind_some, Nat.lt_irrefl, if_false, List.take_length, Option.pure_def]

theorem decodeIntZstd_frame (unzstd : Bytes → Option Bytes) (a : Nat) (payload : Bytes)
    (ha : a < 2 ^ 32) (hb : payload.length < 2 ^ 32) :
    decodeIntZstd unzstd (be 4 a ++ (be 4 payload.length ++ payload))
      = (unzstd payload).bind fun dec => some (unleWords dec.length dec) := by
  have p4 : (256 : Nat) ^ 4 = 2 ^ 32 := by decide
  exact decodeIntZstd_of unzstd _ _ _ _ _ (readBE_be_lt _ (by rw [p4]; exact ha))
    (readBE_be_lt _ (by rw [p4]; exact hb)) rfl

theorem intZstd_decode (zstd : Bytes → Bytes) (unzstd : Bytes → Option Bytes)
    (h : ∀ b, unzstd (zstd b) = some b) (xs : List W) (hx : 8 * xs.length < 2 ^ 32)
    (hz : (zstd (leWords xs)).length < 2 ^ 32) :
    decodeInt unzstd (modeByte intCompressZSTD ::
        (be 4 (leWords xs).length ++ (be 4 (zstd (leWords xs)).length ++ zstd (leWords xs))))
      = some xs := by
  rw [decodeInt_mode _ _ (by decide) _ (by simp)]
  have e : decodeIntBody unzstd intCompressZSTD = fun inp => decodeIntZstd unzstd inp := by
    funext inp
    simp [decodeIntBody, intCompressedSimple8b, intUncompressed, intCompressedConstDelta,
      intCompressZSTD]
  rw [e]
  show decodeIntZstd unzstd _ = _
  rw [decodeIntZstd_frame unzstd _ _ (by rw [leWords_length]; exact hx) hz, h]
  simp only [Option.bind_some]
  rw [unleWords_leWords _ _ (by simp; omega)]

end OG.C07
