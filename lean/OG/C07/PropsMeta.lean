/-
C07 — property theorems for the metadata codecs of a TSSP file and lib/codec's scaled int64
lists (`MetaCodec.lean`): what the writer stores, the reader returns.
-/
import OG.C07.LemmasMeta

namespace OG.C07
open OG.Gen.C07

/-! ## lib/codec: int64 lists with a decimal scale -/

def InInt64 (v : Int) : Prop := -(2 ^ 63 : Int) ≤ v ∧ v < 2 ^ 63

/-- whatever scale index the writer uses, if that scale divides every stored (wrapping) delta
the reader returns the list. -/
theorem scaled_with_roundtrip (idx : Nat) (hidx : idx ≤ 3) (vs : List Int) (hr : ∀ v ∈ vs, InInt64 v)
    (hd : ∀ d ∈ wdeltas 0 vs, codecScaleAt idx ∣ d) (rest : Bytes) :
    decodeScaled vs.length (encodeScaledWith idx vs ++ rest) = some (vs, rest) := by
  unfold encodeScaledWith
  simp only [List.cons_append, decodeScaled]
  have hb : (UInt8.ofNat idx).toNat = idx := u8_toNat_ofNat_lt (by omega)
  rw [hb]
  have hsome : ∃ s, codecScales[idx]? = some s ∧ codecScaleAt idx = (s : Int) := by
    have : idx = 0 ∨ idx = 1 ∨ idx = 2 ∨ idx = 3 := by omega
    rcases this with rfl | rfl | rfl | rfl <;> exact ⟨_, rfl, rfl⟩
  obtain ⟨s, h1, h2⟩ := hsome
  rw [h1]
  simp only
  rw [← h2]
  exact decodeScaledGo_enc _ (codecScaleAt_cases idx hidx) rest vs 0 none (fun _ => rfl)
    (fun q h => by cases h) hr hd

/-- **scaled int64 lists round-trip** for every list of int64 values — negative, unordered, far
apart (differences that overflow int64) included: the scale is taken from the wrapping
differences that are stored. -/
theorem scaled_int64s_roundtrip (vs : List Int) (hr : ∀ v ∈ vs, InInt64 v) (rest : Bytes) :
    decodeScaled vs.length (encodeScaled vs ++ rest) = some (vs, rest) := by
  obtain ⟨h1, h2⟩ := findScaleIdx_spec (wdeltas 0 vs)
  exact scaled_with_roundtrip _ h1 vs hr h2 rest

example : encodeScaled [1000000, 3000000, 2000000] = [2, 1, 2, 0xff, 0xff, 0xff, 0xff, 0xff, 0xff, 0xff, 0xff, 0xff, 1] := by
  decide +kernel
example : decodeScaled 2 (encodeScaled [-5000000000000000000, 5000000000000000000])
    = some ([-5000000000000000000, 5000000000000000000], []) := by decide +kernel

/-- the writer as it was (scale taken from the *values*): two multiples of 10^9 whose difference
overflows int64 came back changed — the time range of a chunk meta spanning more than 2^63 ns. -/
theorem scaled_roundtrip_fails_asWritten :
    ∃ vs : List Int, (∀ v ∈ vs, InInt64 v) ∧
      decodeScaled vs.length (encodeScaledAsWritten vs)
        = some ([-5000000000000000000, 5000000000709551616], []) ∧
      vs = [-5000000000000000000, 5000000000000000000] := by
  refine ⟨[-5000000000000000000, 5000000000000000000], ?_, by decide +kernel, rfl⟩
  intro v hv
  simp only [List.mem_cons, List.not_mem_nil, or_false] at hv
  rcases hv with rfl | rfl <;> (unfold InInt64; omega)

/-- … and it was right exactly when the value-based scale happens to divide the stored deltas
(no overflowing difference is the usual reason). -/
theorem scaled_roundtrip_asWritten_partial (vs : List Int) (hr : ∀ v ∈ vs, InInt64 v)
    (hd : ∀ d ∈ wdeltas 0 vs, codecScaleAt (findScaleIdxValues vs) ∣ d) (rest : Bytes) :
    decodeScaled vs.length (encodeScaledAsWritten vs ++ rest) = some (vs, rest) := by
  have h1 : findScaleIdxValues vs ≤ 3 := by
    have := (foldl_min_le codecScaleOf vs (codecScales.length - 1)).1
    have h3 : codecScales.length - 1 = 3 := by rfl
    unfold findScaleIdxValues; omega
  exact scaled_with_roundtrip _ h1 vs hr hd rest

/-! ## chunk meta, plain layout -/

structure ChunkMetaWF (m : ChunkMetaM) : Prop where
  sid : m.sid < 2 ^ 64
  size : m.size < 2 ^ 32
  columnCount : m.columnCount < 2 ^ 32
  segCount : m.segCount < 2 ^ 32
  segs : 0 < m.segCount
  ranges : m.timeRange.length = m.segCount
  cols : m.cols.length = m.columnCount
  col : ∀ c ∈ m.cols, ColWF m.segCount c

/-- what comes back: an unwritten / empty pre-aggregation block is 48 zero bytes. -/
def normCM (preAggOn : Bool) (m : ChunkMetaM) : ChunkMetaM := { m with cols := m.cols.map (normCol preAggOn) }

/-- parser lemma on abstract inputs. -/
theorem unmarshalCMPlain_of (src r0 r1 r2 r3 r4 r5 r6 : Bytes) (sid size cc sc : Nat) (off : W)
    (trs : List (W × W)) (cols : List ColMetaM)
    (hlen : ¬ src.length < chunkMetaMinLen)
    (h0 : readBE 8 src = some (sid, r0)) (h1 : readI64 r0 = some (off, r1))
    (h2 : readBE 4 r1 = some (size, r2)) (h3 : readBE 4 r2 = some (cc, r3))
    (h4 : readBE 4 r3 = some (sc, r4)) (h5 : readN unmarshalRange sc r4 = some (trs, r5))
    (h6 : readN (unmarshalColPlain sc) cc r5 = some (cols, r6)) :
    unmarshalCMPlain src = some (⟨sid, off, size, cc, sc, trs, cols⟩, r6) := by
  unfold unmarshalCMPlain
  simp only [hlen, if_false, h0, h1, h2, h3, h4, h5, h6]

/-- **chunk meta (plain layout) round-trips**: series id, data offset and size, every segment's
time range, every column's name, type, pre-aggregation block and segment entries — for any number
of columns and segments whose counts agree with the lists (`ChunkMetaWF`), pre-aggregation
switched on or off; `hmin` = the reader's minimum-length test (two columns, one segment). -/
theorem chunk_meta_plain_roundtrip (preAggOn : Bool) (m : ChunkMetaM) (h : ChunkMetaWF m) (rest : Bytes)
    (hmin : chunkMetaMinLen ≤ (marshalCMPlain preAggOn m ++ rest).length) :
    unmarshalCMPlain (marshalCMPlain preAggOn m ++ rest) = some (normCM preAggOn m, rest) := by
  have p4 : (256 : Nat) ^ 4 = 2 ^ 32 := by decide
  have p8 : (256 : Nat) ^ 8 = 2 ^ 64 := by decide
  have hr := readN_flatMap unmarshalRange marshalRange id m.timeRange
    (m.cols.flatMap (marshalColPlain preAggOn) ++ rest) (fun t _ r => unmarshalRange_marshal t r)
  have hc := readN_flatMap (unmarshalColPlain m.segCount) (marshalColPlain preAggOn)
    (normCol preAggOn) m.cols rest
    (fun c hc r => unmarshalColPlain_marshal preAggOn m.segCount h.segs c (h.col c hc) r)
  rw [h.ranges, List.map_id] at hr
  rw [h.cols] at hc
  have := unmarshalCMPlain_of (marshalCMPlain preAggOn m ++ rest) _ _ _ _ _ _ _ m.sid m.size
    m.columnCount m.segCount m.offset m.timeRange (m.cols.map (normCol preAggOn)) (by omega)
    (by
      rw [marshalCMPlain]
      simp only [List.append_assoc]
      exact readBE_be_lt _ (by rw [p8]; exact h.sid))
    (readI64_i64 _ _) (readBE_be_lt _ (by rw [p4]; exact h.size))
    (readBE_be_lt _ (by rw [p4]; exact h.columnCount)) (readBE_be_lt _ (by rw [p4]; exact h.segCount))
    hr hc
  rw [this]
  rfl

/-- non-vacuity: a two-column, one-segment chunk meta. -/
def cmExample : ChunkMetaM :=
  { sid := 7, offset := 16#64, size := 100, columnCount := 2, segCount := 1,
    timeRange := [(1000#64, 2000#64)],
    cols := [⟨[102], 1, [1, 2, 3, 4, 5, 6, 7, 8], [⟨20#64, 30⟩]⟩, ⟨timeFieldName, 1, [0, 0, 0, 9], [⟨54#64, 40⟩]⟩] }

example : (marshalCMPlain true cmExample).length = 95 := by decide
example : unmarshalCMPlain (marshalCMPlain true cmExample) = some (cmExample, []) := by decide +kernel
example : ((unmarshalCMPlain (marshalCMPlain false cmExample)).map fun r => r.1.cols.map (·.preAgg))
    = some [zeroPreAgg, [0, 0, 0, 9]] := by decide +kernel

/-! ## chunk meta, self-compressing layout -/

theorem idxOf?_some {α : Type} [BEq α] [LawfulBEq α] : ∀ (l : List α) (a : α) (i : Nat),
    l.idxOf? a = some i → l[i]? = some a
  | [], _, _, h => by simp [List.idxOf?] at h
  | x :: xs, a, i, h => by
    rw [List.idxOf?_cons] at h
    by_cases hx : (x == a) = true
    · simp only [hx, if_true, Option.some.injEq] at h
      subst h
      simp [eq_of_beq hx]
    · simp only [hx, Bool.false_eq_true, if_false, Option.map_eq_some_iff] at h
      obtain ⟨j, hj, rfl⟩ := h
      simpa using idxOf?_some xs a j hj

theorem getIndex_spec (hdr : List Bytes) (name : Bytes) :
    (hdr ++ ((getIndex hdr name).2.drop hdr.length) = (getIndex hdr name).2)
    ∧ (getIndex hdr name).2[(getIndex hdr name).1]? = some name := by
  unfold getIndex
  cases h : hdr.idxOf? name with
  | some i => simp [idxOf?_some hdr name i h]
  | none => simp

theorem prefix_getElem? {α : Type} (l1 l2 : List α) (h : l1 <+: l2) (i : Nat) (a : α)
    (hi : l1[i]? = some a) : l2[i]? = some a := by
  obtain ⟨t, rfl⟩ := h
  have hlt : i < l1.length := by
    by_cases hc : i < l1.length
    · exact hc
    · simp [List.getElem?_eq_none (Nat.le_of_not_lt hc)] at hi
  rw [List.getElem?_append_left hlt]
  exact hi

theorem getIndex_prefix (hdr : List Bytes) (name : Bytes) : hdr <+: (getIndex hdr name).2 :=
  ⟨_, (getIndex_spec hdr name).1⟩

/-- the segments of a column lie one after the other (what the self-compressing layout keeps:
the first offset and the sizes). -/
def Contig : List SegM → Prop
  | [] => True
  | [_] => True
  | a :: b :: rest => b.offset = a.offset + BitVec.ofNat 64 a.size ∧ Contig (b :: rest)

theorem entriesFrom_contig : ∀ (es : List SegM) (off : W),
    (∀ e0 ∈ es.head?, e0.offset = off) → Contig es → (∀ e ∈ es, e.size < 2 ^ 32) →
    entriesFrom off (es.map (·.size)) = es
  | [], _, _, _, _ => rfl
  | [e], off, h0, _, hs => by
    have := h0 e (by simp)
    have hsz := hs e (by simp)
    cases e
    simp_all [entriesFrom, Nat.mod_eq_of_lt]
  | a :: b :: rest, off, h0, hc, hs => by
    have ha := h0 a (by simp)
    have hsz := hs a (by simp)
    obtain ⟨hb, hc'⟩ := hc
    have ih := entriesFrom_contig (b :: rest) (off + BitVec.ofNat 64 a.size)
      (by intro e0 he0; simp at he0; subst he0; rw [hb, ha]) hc' (fun e he => hs e (by simp [he]))
    simp only [List.map_cons, entriesFrom, Nat.mod_eq_of_lt hsz] at ih ⊢
    rw [ih]
    cases a
    simp_all

/-- parser lemma on abstract inputs. -/
theorem unmarshalColSelf_of (hdr : List Bytes) (segs : Nat) (buf r r2 r3 r4 : Bytes) (idx off : Nat)
    (name : Bytes) (ty n : UInt8) (sizes : List Nat)
    (h0 : readUvarint buf = some (idx, r)) (h1 : hdr[idx]? = some name) (hne : name ≠ [])
    (hlen : ¬ r.length < 1 + 1 + 8 + segs * 4) (hr : r = ty :: n :: r2) (hl2 : ¬ r2.length < n.toNat)
    (h3 : readBE 8 (r2.drop n.toNat) = some (off, r3)) (h4 : readN (readBE 4) segs r3 = some (sizes, r4)) :
    unmarshalColSelf hdr segs buf
      = some (⟨name, ty, if n.toNat > 0 then r2.take n.toNat else zeroPreAgg,
               entriesFrom (BitVec.ofNat 64 off) sizes⟩, r4) := by
  rw [unmarshalColSelf]
  simp only [h0, h1, hne, if_false, hlen]
  subst hr
  simp only [hl2, if_false, h3, h4]

structure ColSelfWF (preAggOn : Bool) (segs : Nat) (c : ColMetaM) : Prop where
  name : c.name ≠ []
  preAgg : (writtenPreAgg preAggOn c).length < 256
  entries : c.entries.length = segs
  sizes : ∀ e ∈ c.entries, e.size < 2 ^ 32
  contig : Contig c.entries

theorem flatMap_be4_length (es : List SegM) : (es.flatMap fun e => be 4 e.size).length = es.length * 4 := by
  induction es with
  | nil => rfl
  | cons e es ih => simp only [List.flatMap_cons, List.length_append, be_length, ih, List.length_cons]; omega

/-- one column of the self-compressing layout: written with the dictionary `hdr`, read with any
dictionary `H` that extends the writer's. -/
theorem unmarshalColSelf_marshal (preAggOn : Bool) (segs : Nat) (hdr H : List Bytes)
    (c : ColMetaM) (h : ColSelfWF preAggOn segs c) (b : Bytes) (hdr' : List Bytes)
    (hm : marshalColSelf preAggOn hdr c = some (b, hdr')) (hH : hdr' <+: H) (hidx : hdr'.length < 2 ^ 64)
    (rest : Bytes) :
    unmarshalColSelf H segs (b ++ rest) = some (normCol preAggOn c, rest) := by
  have p4 : (256 : Nat) ^ 4 = 2 ^ 32 := by decide
  have p8 : (256 : Nat) ^ 8 = 2 ^ 64 := by decide
  unfold marshalColSelf at hm
  cases hes : c.entries with
  | nil => rw [hes] at hm; simp at hm
  | cons e0 es =>
    rw [hes] at hm
    simp only [Option.some.injEq, Prod.mk.injEq] at hm
    obtain ⟨hb, hh⟩ := hm
    subst hb hh
    obtain ⟨_, hget⟩ := getIndex_spec hdr c.name
    have hidxlt : (getIndex hdr c.name).1 < (getIndex hdr c.name).2.length := by
      by_cases hc : (getIndex hdr c.name).1 < (getIndex hdr c.name).2.length
      · exact hc
      · simp [List.getElem?_eq_none (Nat.le_of_not_lt hc)] at hget
    have hpl : (UInt8.ofNat (writtenPreAgg preAggOn c).length).toNat = (writtenPreAgg preAggOn c).length :=
      u8_toNat_ofNat_lt h.preAgg
    have hsz : ∀ e ∈ e0 :: es, e.size < 2 ^ 32 := by rw [← hes]; exact h.sizes
    have hlenes : (e0 :: es).length = segs := by rw [← hes]; exact h.entries
    have hread := readN_flatMap (readBE 4) (fun e : SegM => be 4 e.size) (·.size) (e0 :: es) rest
      (fun e he r => readBE_be_lt r (by rw [p4]; exact hsz e he))
    rw [hlenes] at hread
    let pa := writtenPreAgg preAggOn c
    let fm := (e0 :: es).flatMap fun e : SegM => be 4 e.size
    have hbuf : (putUvarint (getIndex hdr c.name).1 ++ (c.ty :: (UInt8.ofNat pa.length :: (pa
        ++ (be 8 e0.offset.toNat ++ fm))))) ++ rest
        = putUvarint (getIndex hdr c.name).1 ++ (c.ty :: UInt8.ofNat pa.length :: (pa
          ++ (be 8 e0.offset.toNat ++ (fm ++ rest)))) := by simp
    rw [hbuf]
    have hfm := flatMap_be4_length (e0 :: es)
    rw [hlenes] at hfm
    have := unmarshalColSelf_of H segs
      (putUvarint (getIndex hdr c.name).1 ++ (c.ty :: UInt8.ofNat pa.length :: (pa
          ++ (be 8 e0.offset.toNat ++ (fm ++ rest)))))
      (c.ty :: UInt8.ofNat pa.length :: (pa ++ (be 8 e0.offset.toNat ++ (fm ++ rest))))
      (pa ++ (be 8 e0.offset.toNat ++ (fm ++ rest))) (fm ++ rest) rest
      (getIndex hdr c.name).1 e0.offset.toNat c.name c.ty
      (UInt8.ofNat pa.length) ((e0 :: es).map (·.size))
      (readUvarint_put _ _ (by omega))
      (prefix_getElem? _ _ hH _ _ hget) h.name
      (by
        simp only [List.length_cons, List.length_append, be_length]
        show ¬ (pa.length + (8 + (fm.length + rest.length))) + 1 + 1 < 1 + 1 + 8 + segs * 4
        rw [hfm]; omega)
      rfl
      (by rw [hpl]; show ¬ (pa ++ (be 8 e0.offset.toNat ++ (fm ++ rest))).length < pa.length
          simp only [List.length_append]; omega)
      (by rw [hpl, drop_app _ _ _ rfl]
          exact readBE_be_lt _ (by rw [p8]; exact e0.offset.isLt))
      hread
    rw [this]
    congr 1
    unfold normCol normPreAgg
    have hent : entriesFrom (BitVec.ofNat 64 e0.offset.toNat) ((e0 :: es).map (·.size)) = c.entries := by
      rw [hes, w_ofNat_toNat]
      exact entriesFrom_contig (e0 :: es) e0.offset (by simp) (by rw [← hes]; exact h.contig) hsz
    rw [hent, hpl]
    congr 1
    by_cases hz : (writtenPreAgg preAggOn c).length > 0
    · rw [if_pos hz, take_app _ _ _ rfl, if_neg (by intro he; simp [he] at hz)]
    · have : writtenPreAgg preAggOn c = [] := List.eq_nil_of_length_eq_zero (by omega)
      rw [if_neg hz, if_pos this]

theorem marshalColSelf_prefix (preAggOn : Bool) (hdr : List Bytes) (c : ColMetaM) (b : Bytes) (hdr' : List Bytes)
    (hm : marshalColSelf preAggOn hdr c = some (b, hdr')) : hdr <+: hdr' := by
  unfold marshalColSelf at hm
  cases hes : c.entries with
  | nil => rw [hes] at hm; simp at hm
  | cons e0 es =>
    rw [hes] at hm
    simp only [Option.some.injEq, Prod.mk.injEq] at hm
    rw [← hm.2]
    exact getIndex_prefix hdr c.name

theorem marshalColsSelf_prefix (preAggOn : Bool) : ∀ (cols : List ColMetaM) (hdr : List Bytes) (b : Bytes)
    (hdr' : List Bytes), marshalColsSelf preAggOn hdr cols = some (b, hdr') → hdr <+: hdr'
  | [], hdr, b, hdr', hm => by
    simp only [marshalColsSelf, Option.some.injEq, Prod.mk.injEq] at hm
    rw [← hm.2]
    exact List.prefix_refl _
  | c :: cs, hdr, b, hdr', hm => by
    rw [marshalColsSelf] at hm
    cases h1 : marshalColSelf preAggOn hdr c with
    | none => simp [h1] at hm
    | some p1 =>
      obtain ⟨b1, hd1⟩ := p1
      simp only [h1] at hm
      cases h2 : marshalColsSelf preAggOn hd1 cs with
      | none => simp [h2] at hm
      | some p2 =>
        obtain ⟨b2, hd2⟩ := p2
        simp only [h2, Option.some.injEq, Prod.mk.injEq] at hm
        rw [← hm.2]
        exact List.IsPrefix.trans (marshalColSelf_prefix preAggOn hdr c b1 hd1 h1)
          (marshalColsSelf_prefix preAggOn cs hd1 b2 hd2 h2)

theorem prefix_length_le {α : Type} {l1 l2 : List α} (h : l1 <+: l2) : l1.length ≤ l2.length := by
  obtain ⟨t, rfl⟩ := h; simp

/-- all columns of a chunk meta: written threading the dictionary, read with the final one. -/
theorem unmarshalColsSelf_marshal (preAggOn : Bool) (segs : Nat) (H : List Bytes) (hH : H.length < 2 ^ 64) :
    ∀ (cols : List ColMetaM) (hdr : List Bytes) (b : Bytes) (hdr' : List Bytes) (rest : Bytes),
      (∀ c ∈ cols, ColSelfWF preAggOn segs c) → marshalColsSelf preAggOn hdr cols = some (b, hdr') →
      hdr' <+: H →
      readN (unmarshalColSelf H segs) cols.length (b ++ rest) = some (cols.map (normCol preAggOn), rest)
  | [], hdr, b, hdr', rest, _, hm, _ => by
    simp only [marshalColsSelf, Option.some.injEq, Prod.mk.injEq] at hm
    rw [← hm.1]
    simp [readN]
  | c :: cs, hdr, b, hdr', rest, hwf, hm, hp => by
    rw [marshalColsSelf] at hm
    cases h1 : marshalColSelf preAggOn hdr c with
    | none => simp [h1] at hm
    | some p1 =>
      obtain ⟨b1, hd1⟩ := p1
      simp only [h1] at hm
      cases h2 : marshalColsSelf preAggOn hd1 cs with
      | none => simp [h2] at hm
      | some p2 =>
        obtain ⟨b2, hd2⟩ := p2
        simp only [h2, Option.some.injEq, Prod.mk.injEq] at hm
        obtain ⟨hb, hh⟩ := hm
        subst hb hh
        have hp1 : hd1 <+: H := List.IsPrefix.trans (marshalColsSelf_prefix preAggOn cs hd1 b2 hd2 h2) hp
        have hl1 : hd1.length < 2 ^ 64 := Nat.lt_of_le_of_lt (prefix_length_le hp1) hH
        have e1 := unmarshalColSelf_marshal preAggOn segs hdr H c (hwf c (by simp)) b1 hd1 h1 hp1 hl1
          (b2 ++ rest)
        have ih := unmarshalColsSelf_marshal preAggOn segs H hH cs hd1 b2 hd2 rest
          (fun x hx => hwf x (by simp [hx])) h2 hp
        simp only [List.length_cons, readN, List.append_assoc, e1, ih, List.map_cons]

theorem pairUp_flatRanges : ∀ trs : List (W × W), pairUp (flatRanges trs) = trs
  | [] => rfl
  | t :: ts => by
    have ih := pairUp_flatRanges ts
    simp only [flatRanges, List.flatMap_cons, List.cons_append, List.nil_append, pairUp, BitVec.ofInt_toInt] at ih ⊢
    rw [ih]

theorem flatRanges_length (trs : List (W × W)) : (flatRanges trs).length = 2 * trs.length := by
  induction trs with
  | nil => rfl
  | cons t ts ih =>
    simp only [flatRanges, List.flatMap_cons, List.length_append, List.length_cons, List.length_nil] at ih ⊢
    omega

theorem toInt_range (w : W) : InInt64 w.toInt := by
  have h1 := BitVec.le_toInt w
  have h2 := @BitVec.toInt_lt 64 w
  unfold InInt64
  simp only [Nat.add_one_sub_one] at h1 h2
  exact ⟨by omega, by omega⟩

theorem flatRanges_range (trs : List (W × W)) : ∀ v ∈ flatRanges trs, InInt64 v := by
  intro v hv
  simp only [flatRanges, List.mem_flatMap, List.mem_cons, List.not_mem_nil, or_false] at hv
  obtain ⟨t, _, h | h⟩ := hv <;> subst h <;> exact toInt_range _

/-- parser lemma on abstract inputs. -/
theorem unmarshalCMSelf_of (hdr : List Bytes) (buf r0 r1 r2 r3 r4 r5 r6 : Bytes) (sid off size cc sc : Nat)
    (ts : List Int) (cols : List ColMetaM)
    (h0 : readBE 8 buf = some (sid, r0)) (h1 : readUvarint r0 = some (off, r1))
    (h2 : readUvarint r1 = some (size, r2)) (h3 : readUvarint r2 = some (cc, r3))
    (h4 : readUvarint r3 = some (sc, r4)) (h5 : decodeScaled (2 * (sc % 2 ^ 32)) r4 = some (ts, r5))
    (h6 : readN (unmarshalColSelf hdr (sc % 2 ^ 32)) (cc % 2 ^ 32) r5 = some (cols, r6)) :
    unmarshalCMSelf hdr buf
      = some (⟨sid, BitVec.ofNat 64 off, size % 2 ^ 32, cc % 2 ^ 32, sc % 2 ^ 32, pairUp ts, cols⟩, r6) := by
  rw [unmarshalCMSelf]
  simp only [h0, h1, h2, h3, h4, h5, h6]

structure ChunkMetaSelfWF (preAggOn : Bool) (m : ChunkMetaM) : Prop where
  sid : m.sid < 2 ^ 64
  size : m.size < 2 ^ 32
  columnCount : m.columnCount < 2 ^ 32
  segCount : m.segCount < 2 ^ 32
  ranges : m.timeRange.length = m.segCount
  cols : m.cols.length = m.columnCount
  col : ∀ c ∈ m.cols, ColSelfWF preAggOn m.segCount c

/-- **chunk meta (self-compressing layout) round-trips**: uvarint attributes, scaled time ranges,
column names through the dictionary the writer collects for the trailer (read back with any
dictionary extending it — later chunk metas of the file append to it), pre-aggregation blocks
shorter than 256 bytes, contiguous segments as first offset + sizes. -/
theorem chunk_meta_self_roundtrip (preAggOn : Bool) (hdr H : List Bytes) (m : ChunkMetaM)
    (h : ChunkMetaSelfWF preAggOn m) (b : Bytes) (hdr' : List Bytes)
    (hm : marshalCMSelf preAggOn hdr m = some (b, hdr')) (hp : hdr' <+: H) (hH : H.length < 2 ^ 64)
    (rest : Bytes) : unmarshalCMSelf H (b ++ rest) = some (normCM preAggOn m, rest) := by
  have p8 : (256 : Nat) ^ 8 = 2 ^ 64 := by decide
  rw [marshalCMSelf] at hm
  cases hc : marshalColsSelf preAggOn hdr m.cols with
  | none => simp [hc] at hm
  | some pc =>
    obtain ⟨cb, hd⟩ := pc
    simp only [hc, Option.some.injEq, Prod.mk.injEq] at hm
    obtain ⟨hb, hh⟩ := hm
    subst hb hh
    have hsc : m.segCount % 2 ^ 32 = m.segCount := Nat.mod_eq_of_lt h.segCount
    have hcc : m.columnCount % 2 ^ 32 = m.columnCount := Nat.mod_eq_of_lt h.columnCount
    have hcols := unmarshalColsSelf_marshal preAggOn m.segCount H hH m.cols hdr cb hd rest h.col hc hp
    rw [h.cols] at hcols
    have hts := scaled_int64s_roundtrip (flatRanges m.timeRange) (flatRanges_range _) (cb ++ rest)
    rw [flatRanges_length, h.ranges] at hts
    let t5 := cb ++ rest
    let t4 := encodeScaled (flatRanges m.timeRange) ++ t5
    let t3 := putUvarint m.segCount ++ t4
    let t2 := putUvarint m.columnCount ++ t3
    let t1 := putUvarint m.size ++ t2
    let t0 := putUvarint m.offset.toNat ++ t1
    have hbuf : (be 8 m.sid ++ (putUvarint m.offset.toNat ++ (putUvarint m.size ++ (putUvarint m.columnCount
        ++ (putUvarint m.segCount ++ (encodeScaled (flatRanges m.timeRange) ++ cb)))))) ++ rest
        = be 8 m.sid ++ t0 := by simp [t0, t1, t2, t3, t4, t5]
    rw [hbuf]
    have := unmarshalCMSelf_of H (be 8 m.sid ++ t0) t0 t1 t2 t3 t4 t5 rest m.sid m.offset.toNat m.size
      m.columnCount m.segCount (flatRanges m.timeRange) (m.cols.map (normCol preAggOn))
      (readBE_be_lt _ (by rw [p8]; exact h.sid))
      (readUvarint_put _ _ m.offset.isLt) (readUvarint_put _ _ (by have := h.size; omega))
      (readUvarint_put _ _ (by have := h.columnCount; omega)) (readUvarint_put _ _ (by have := h.segCount; omega))
      (by rw [hsc]; exact hts) (by rw [hsc, hcc]; exact hcols)
    rw [this, pairUp_flatRanges, w_ofNat_toNat, hsc, hcc, Nat.mod_eq_of_lt h.size]
    rfl

/-- non-vacuity: two chunk metas written one after the other share the dictionary; both read
back with the final one. -/
example : (marshalCMSelf true [] cmExample).map (·.2) = some [[102], timeFieldName] := by decide +kernel
example : ((marshalCMSelf true [] cmExample).bind fun r => unmarshalCMSelf (r.2 ++ [[120]]) r.1)
    = some (cmExample, []) := by decide +kernel

/-! ## meta index -/

/-- **meta index items round-trip** (both the attached and the detached form, which has no count). -/
theorem meta_index_roundtrip (detached : Bool) (m : MetaIndexM) (hid : m.id < 2 ^ 64)
    (hc : m.count < 2 ^ 32) (hs : m.size < 2 ^ 32) (rest : Bytes) :
    unmarshalMetaIndex detached (marshalMetaIndex detached m ++ rest)
      = some (if detached then { m with count := 0 } else m, rest) := by
  have p4 : (256 : Nat) ^ 4 = 2 ^ 32 := by decide
  have p8 : (256 : Nat) ^ 8 = 2 ^ 64 := by decide
  unfold unmarshalMetaIndex marshalMetaIndex
  cases detached
  · simp only [Bool.false_eq_true, if_false, List.append_assoc]
    rw [if_neg (by simp [metaIndexLen]; omega), readBE_be_lt _ (by rw [p8]; exact hid)]
    simp only
    rw [readI64_i64]; simp only
    rw [readI64_i64]; simp only
    rw [readI64_i64]; simp only
    rw [readBE_be_lt _ (by rw [p4]; exact hc)]; simp only
    rw [readBE_be_lt _ (by rw [p4]; exact hs)]
  · simp only [if_true, List.append_assoc]
    rw [if_neg (by simp [detachedMetaIndexLen]; omega), readBE_be_lt _ (by rw [p8]; exact hid)]
    simp only
    rw [readI64_i64]; simp only
    rw [readI64_i64]; simp only
    rw [readI64_i64]; simp only
    rw [readBE_be_lt _ (by rw [p4]; exact hs)]

example : (marshalMetaIndex false ⟨1, 2#64, 3#64, 4#64, 5, 6⟩).length = 40 := by decide

/-! ## trailer -/

theorem flatMap_str16_length_pos (vs : List Bytes) (h : vs ≠ []) : 0 < (vs.flatMap str16).length := by
  cases vs with
  | nil => exact absurd rfl h
  | cons v vs => simp [str16]; omega

theorem readStrings_enc : ∀ (vs : List Bytes) (fuel : Nat), (∀ v ∈ vs, v.length < 2 ^ 16) →
    (vs.flatMap str16).length ≤ fuel → readStrings fuel (vs.flatMap str16) = some vs
  | [], fuel, _, _ => by cases fuel <;> rfl
  | v :: vs, fuel, hv, hf => by
    have p2 : (256 : Nat) ^ 2 = 2 ^ 16 := by decide
    have hl : (str16 v).length = v.length + 2 := by simp [str16]; omega
    obtain ⟨f, rfl⟩ : ∃ f, fuel = f + 1 := ⟨fuel - 1, by
      simp only [List.flatMap_cons, List.length_append, hl] at hf; omega⟩
    have ih := readStrings_enc vs f (fun x hx => hv x (by simp [hx])) (by
      simp only [List.flatMap_cons, List.length_append, hl] at hf; omega)
    simp only [List.flatMap_cons, str16, List.append_assoc]
    rw [readStrings]
    · rw [readBE_be_lt _ (by rw [p2]; exact hv v (by simp))]
      simp only
      rw [if_neg (by simp), drop_app _ _ _ rfl, take_app _ _ _ rfl, ih]
      rfl
    · intro he
      have := congrArg List.length he
      simp at this

structure TrailerWF (t : TrailerM) : Prop where
  minId : t.minId < 2 ^ 64
  maxId : t.maxId < 2 ^ 64
  bloomM : t.bloomM < 2 ^ 64
  bloomK : t.bloomK < 2 ^ 64
  name : t.name.length < 2 ^ 16
  ts : t.timeStoreFlag < 256
  cc : t.chunkMetaCompressFlag < 256
  /-- a header without values is not stored (it reads back as "no header") -/
  hdrNonEmpty : t.header ≠ some []
  hdrVals : ∀ vs, t.header = some vs → (∀ v ∈ vs, v.length < 2 ^ 16) ∧ vs.length < 2 ^ 16
    ∧ (vs.flatMap str16).length + 10 < 2 ^ 32

/-- `ExtraData`: flags, the real length in the upper half of the flag word, the dictionary. -/
theorem unmarshalExtra_marshal (t : TrailerM) (h : TrailerWF t) (r : Bytes) :
    unmarshalExtra (be 2 8 ++ (marshalExtra t ++ r))
      = some (t.timeStoreFlag, t.chunkMetaCompressFlag, t.header, r) := by
  have p2 : (256 : Nat) ^ 2 = 2 ^ 16 := by decide
  have p8 : (256 : Nat) ^ 8 = 2 ^ 64 := by decide
  have hts := h.ts
  have hcc := h.cc
  rw [unmarshalExtra, readBE_be_lt _ (by decide)]
  simp only
  cases hh : t.header with
  | none =>
    -- flags (8 bytes) ++ be 2 0 : size = 10
    have hm : marshalExtra t = le 8 (t.timeStoreFlag % 256 + t.chunkMetaCompressFlag % 256 * 256 + 10 * 2 ^ 32)
        ++ be 2 0 := by
      simp [marshalExtra, hh]
    rw [hm]
    have hfl : unle ((le 8 (t.timeStoreFlag % 256 + t.chunkMetaCompressFlag % 256 * 256 + 10 * 2 ^ 32)
        ++ (be 2 0 ++ r)).take 8) = t.timeStoreFlag + t.chunkMetaCompressFlag * 256 + 10 * 2 ^ 32 := by
      rw [take_app _ _ _ (le_length 8 _), unle_le, p8, Nat.mod_eq_of_lt hts, Nat.mod_eq_of_lt hcc]
      omega
    simp only [List.append_assoc]
    rw [if_neg (by simp)]
    simp only [List.take_take, Nat.min_self, hfl]
    have e1 : (t.timeStoreFlag + t.chunkMetaCompressFlag * 256 + 10 * 2 ^ 32) % 256 = t.timeStoreFlag := by omega
    have e2 : (t.timeStoreFlag + t.chunkMetaCompressFlag * 256 + 10 * 2 ^ 32) / 256 % 256
        = t.chunkMetaCompressFlag := by omega
    have e3 : (t.timeStoreFlag + t.chunkMetaCompressFlag * 256 + 10 * 2 ^ 32) / 2 ^ 32 = 10 := by omega
    simp only [e1, e2, e3]
    have hlen : (le 8 (t.timeStoreFlag % 256 + t.chunkMetaCompressFlag % 256 * 256 + 10 * 2 ^ 32) ++ (be 2 0 ++ r)).length
        = 10 + r.length := by simp; omega
    have hdrop : (le 8 (t.timeStoreFlag % 256 + t.chunkMetaCompressFlag % 256 * 256 + 10 * 2 ^ 32) ++ (be 2 0 ++ r)).drop 10 = r := by
      rw [← List.append_assoc]; exact drop_app _ _ _ (by simp)
    have htake : ((le 8 (t.timeStoreFlag % 256 + t.chunkMetaCompressFlag % 256 * 256 + 10 * 2 ^ 32) ++ (be 2 0 ++ r)).take 10).drop 10 = [] := by
      simp
    simp [hlen, hdrop, htake]
  | some vs =>
    obtain ⟨hv, hn, hL⟩ := h.hdrVals vs hh
    have hne : vs ≠ [] := by intro he; rw [he] at hh; exact h.hdrNonEmpty hh
    have hpos := flatMap_str16_length_pos vs hne
    generalize hLdef : (vs.flatMap str16).length = Lh at hL hpos
    have hm : marshalExtra t = le 8 (t.timeStoreFlag % 256 + t.chunkMetaCompressFlag % 256 * 256 + (10 + Lh) * 2 ^ 32)
        ++ (be 2 vs.length ++ vs.flatMap str16) := by
      simp only [marshalExtra, hh, List.length_append, be_length, hLdef]
      rw [show (8 + (2 + Lh)) % 2 ^ 32 = 10 + Lh by omega]
    rw [hm]
    have hfl : unle ((le 8 (t.timeStoreFlag % 256 + t.chunkMetaCompressFlag % 256 * 256 + (10 + Lh) * 2 ^ 32)
        ++ ((be 2 vs.length ++ vs.flatMap str16) ++ r)).take 8)
        = t.timeStoreFlag + t.chunkMetaCompressFlag * 256 + (10 + Lh) * 2 ^ 32 := by
      rw [take_app _ _ _ (le_length 8 _), unle_le, p8, Nat.mod_eq_of_lt hts, Nat.mod_eq_of_lt hcc]
      omega
    rw [List.append_assoc]
    rw [if_neg (by simp)]
    simp only [List.take_take, Nat.min_self, hfl]
    have e1 : (t.timeStoreFlag + t.chunkMetaCompressFlag * 256 + (10 + Lh) * 2 ^ 32) % 256 = t.timeStoreFlag := by omega
    have e2 : (t.timeStoreFlag + t.chunkMetaCompressFlag * 256 + (10 + Lh) * 2 ^ 32) / 256 % 256
        = t.chunkMetaCompressFlag := by omega
    have e3 : (t.timeStoreFlag + t.chunkMetaCompressFlag * 256 + (10 + Lh) * 2 ^ 32) / 2 ^ 32 = 10 + Lh := by omega
    simp only [e1, e2, e3]
    have hlen : (le 8 (t.timeStoreFlag % 256 + t.chunkMetaCompressFlag % 256 * 256 + (10 + Lh) * 2 ^ 32)
        ++ ((be 2 vs.length ++ vs.flatMap str16) ++ r)).length = 10 + Lh + r.length := by
      simp only [List.length_append, le_length, be_length, hLdef]; omega
    have hassoc : le 8 (t.timeStoreFlag % 256 + t.chunkMetaCompressFlag % 256 * 256 + (10 + Lh) * 2 ^ 32)
        ++ ((be 2 vs.length ++ vs.flatMap str16) ++ r)
        = ((le 8 (t.timeStoreFlag % 256 + t.chunkMetaCompressFlag % 256 * 256 + (10 + Lh) * 2 ^ 32)
            ++ be 2 vs.length) ++ vs.flatMap str16) ++ r := by simp
    have hdrop : (le 8 (t.timeStoreFlag % 256 + t.chunkMetaCompressFlag % 256 * 256 + (10 + Lh) * 2 ^ 32)
        ++ ((be 2 vs.length ++ vs.flatMap str16) ++ r)).drop (10 + Lh) = r := by
      rw [hassoc]; exact drop_app _ _ _ (by simp [hLdef]; omega)
    have htake : ((le 8 (t.timeStoreFlag % 256 + t.chunkMetaCompressFlag % 256 * 256 + (10 + Lh) * 2 ^ 32)
        ++ ((be 2 vs.length ++ vs.flatMap str16) ++ r)).take (10 + Lh)).drop 10 = vs.flatMap str16 := by
      rw [hassoc, take_app _ _ _ (by simp [hLdef]; omega)]
      exact drop_app _ _ _ (by simp)
    have hrs := readStrings_enc vs Lh hv (by omega)
    have hfne : vs.flatMap str16 ≠ [] := by
      intro he; rw [he] at hLdef; simp at hLdef; omega
    have hnew : (8 ≠ 0 ∧ 8 ≠ 1 ∧ 8 ≠ 2 ∧ 8 ≤ 8) := by decide
    have hpos10 : 10 + Lh > 0 := by omega
    have c1 : ¬ (10 + Lh = 0 ∨ ¬ (8 ≠ 0 ∧ 8 ≠ 1 ∧ 8 ≠ 2 ∧ 8 ≤ 8)) := by
      intro hc; rcases hc with hc | hc
      · omega
      · exact hc hnew
    have c2 : ¬ (10 + Lh + r.length < 10 + Lh) := by omega
    have c3 : ¬ (10 + Lh < 10) := by omega
    have c4 : ¬ (8 = 1 ∨ 8 = 2) := by decide
    have c5 : ¬ (8 = 2) := by decide
    simp only [if_pos hnew, if_pos hpos10, if_neg c1, hlen, if_neg c2, if_neg c3, htake, if_neg hfne, hLdef, hrs,
      hdrop, if_neg c4, if_neg c5, Option.map_some]


/-- parser lemma on abstract inputs. -/
theorem unmarshalTrailer_of (src r0 r1 r2 r3 r4 r5 : Bytes) (a b c d e f g mnT mxT items : W)
    (minId maxId bm bk ts cc nl : Nat) (hdr : Option (List Bytes))
    (hlen : ¬ src.length < trailerSize)
    (h0 : readN readI64 7 src = some ([a, b, c, d, e, f, g], r0))
    (h1 : readN (readBE 8) 2 r0 = some ([minId, maxId], r1))
    (h2 : readN readI64 3 r1 = some ([mnT, mxT, items], r2))
    (h3 : readN (readBE 8) 2 r2 = some ([bm, bk], r3))
    (h4 : unmarshalExtra r3 = some (ts, cc, hdr, r4))
    (h5 : readBE 2 r4 = some (nl, r5)) (h6 : ¬ r5.length < nl) :
    unmarshalTrailer src
      = some (⟨a, b, c, d, e, f, g, minId, maxId, mnT, mxT, items, bm, bk, r5.take nl, ts, cc, hdr⟩, r5.drop nl) := by
  rw [unmarshalTrailer]
  simp only [hlen, if_false, h0, h1, h2, h3, h4, h5, h6]

/-- **file trailer round-trips**: the six section sizes, the table statistics, the flags, the
measurement name and the column-name dictionary of the self-compressing chunk-meta layout (whose
real length travels in the upper half of the flag word). -/
theorem trailer_roundtrip (t : TrailerM) (h : TrailerWF t) (rest : Bytes) :
    unmarshalTrailer (marshalTrailer t ++ rest) = some (t, rest) := by
  have p2 : (256 : Nat) ^ 2 = 2 ^ 16 := by decide
  have p8 : (256 : Nat) ^ 8 = 2 ^ 64 := by decide
  have hlen : ¬ (marshalTrailer t ++ rest).length < trailerSize := by
    simp only [marshalTrailer, List.length_append, i64_length, be_length, trailerSize]
    omega
  let x5 := t.name ++ rest
  let x4 := be 2 t.name.length ++ x5
  let x3 := be 2 8 ++ (marshalExtra t ++ x4)
  let x2 := be 8 t.bloomM ++ (be 8 t.bloomK ++ x3)
  let x1 := i64 t.minTime ++ (i64 t.maxTime ++ (i64 t.metaIndexItemNum ++ x2))
  let x0 := be 8 t.minId ++ (be 8 t.maxId ++ x1)
  have hbuf : marshalTrailer t ++ rest = i64 t.dataOffset ++ (i64 t.dataSize ++ (i64 t.indexSize
      ++ (i64 t.metaIndexSize ++ (i64 t.bloomSize ++ (i64 t.idTimeSize ++ (i64 t.idCount ++ x0)))))) := by
    simp [marshalTrailer, x0, x1, x2, x3, x4, x5]
  have := unmarshalTrailer_of (marshalTrailer t ++ rest) x0 x1 x2 x3 x4 x5 t.dataOffset t.dataSize t.indexSize
    t.metaIndexSize t.bloomSize t.idTimeSize t.idCount t.minTime t.maxTime t.metaIndexItemNum t.minId t.maxId
    t.bloomM t.bloomK t.timeStoreFlag t.chunkMetaCompressFlag t.name.length t.header hlen
    (by rw [hbuf]; simp only [readN, readI64_i64])
    (by simp only [x0, readN, readBE_be_lt _ (show t.minId < 256 ^ 8 by rw [p8]; exact h.minId),
          readBE_be_lt _ (show t.maxId < 256 ^ 8 by rw [p8]; exact h.maxId)])
    (by simp only [x1, readN, readI64_i64])
    (by simp only [x2, readN, readBE_be_lt _ (show t.bloomM < 256 ^ 8 by rw [p8]; exact h.bloomM),
          readBE_be_lt _ (show t.bloomK < 256 ^ 8 by rw [p8]; exact h.bloomK)])
    (unmarshalExtra_marshal t h x4)
    (readBE_be_lt _ (by rw [p2]; exact h.name))
    (by simp [x5])
  rw [this, take_app _ _ _ rfl, drop_app _ _ _ rfl]

end OG.C07
