/-
C07 — property theorems for the metadata codecs of a TSSP file and lib/codec's scaled int64
lists (`MetaCodec.lean`): what the writer stores, the reader returns.
-/
import OG.C07.LemmasMeta

namespace OG.C07
open OG.Gen.C07

/-! ## lib/codec: int64 lists with a decimal scale -/

def InInt64 (v : Int) : Prop := -(2 ^ 63 : Int) ≤ v ∧ v < 2 ^ 63

/-- whatever scale index the writer uses, if that scale divides every stored (wrapping) delta
the reader returns the list. -/
theorem scaled_with_roundtrip (idx : Nat) (hidx : idx ≤ 3) (vs : List Int) (hr : ∀ v ∈ vs, InInt64 v)
    (hd : ∀ d ∈ wdeltas 0 vs, codecScaleAt idx ∣ d) (rest : Bytes) :
    decodeScaled vs.length (encodeScaledWith idx vs ++ rest) = some (vs, rest) := by
  unfold encodeScaledWith
  simp only [List.cons_append, decodeScaled]
  have hb : (UInt8.ofNat idx).toNat = idx := u8_toNat_ofNat_lt (by omega)
  rw [hb]
  have hsome : ∃ s, codecScales[idx]? = some s ∧ codecScaleAt idx = (s : Int) := by
    have : idx = 0 ∨ idx = 1 ∨ idx = 2 ∨ idx = 3 := by omega
    rcases this with rfl | rfl | rfl | rfl <;> exact ⟨_, rfl, rfl⟩
  obtain ⟨s, h1, h2⟩ := hsome
  rw [h1]
  simp only
  rw [← h2]
  exact decodeScaledGo_enc _ (codecScaleAt_cases idx hidx) rest vs 0 none (fun _ => rfl)
    (fun q h => by cases h) hr hd

/-- **scaled int64 lists round-trip** for every list of int64 values — negative, unordered, far
apart (differences that overflow int64) included: the scale is taken from the wrapping
differences that are stored. -/
theorem scaled_int64s_roundtrip (vs : List Int) (hr : ∀ v ∈ vs, InInt64 v) (rest : Bytes) :
    decodeScaled vs.length (encodeScaled vs ++ rest) = some (vs, rest) := by
  obtain ⟨h1, h2⟩ := findScaleIdx_spec (wdeltas 0 vs)
  exact scaled_with_roundtrip _ h1 vs hr h2 rest

example : encodeScaled [1000000, 3000000, 2000000] = [2, 1, 2, 0xff, 0xff, 0xff, 0xff, 0xff, 0xff, 0xff, 0xff, 0xff, 1] := by
  decide +kernel
example : decodeScaled 2 (encodeScaled [-5000000000000000000, 5000000000000000000])
    = some ([-5000000000000000000, 5000000000000000000], []) := by decide +kernel

/-- the writer as it was (scale taken from the *values*): two multiples of 10^9 whose difference
overflows int64 came back changed — the time range of a chunk meta spanning more than 2^63 ns. -/
theorem scaled_roundtrip_fails_asWritten :
    ∃ vs : List Int, (∀ v ∈ vs, InInt64 v) ∧
      decodeScaled vs.length (encodeScaledAsWritten vs)
        = some ([-5000000000000000000, 5000000000709551616], []) ∧
      vs = [-5000000000000000000, 5000000000000000000] := by
  refine ⟨[-5000000000000000000, 5000000000000000000], ?_, by decide +kernel, rfl⟩
  intro v hv
  simp only [List.mem_cons, List.not_mem_nil, or_false] at hv
  rcases hv with rfl | rfl <;> (unfold InInt64; omega)

/-- … and it was right exactly when the value-based scale happens to divide the stored deltas
(no overflowing difference is the usual reason). -/
theorem scaled_roundtrip_asWritten_partial (vs : List Int) (hr : ∀ v ∈ vs, InInt64 v)
    (hd : ∀ d ∈ wdeltas 0 vs, codecScaleAt (findScaleIdxValues vs) ∣ d) (rest : Bytes) :
    decodeScaled vs.length (encodeScaledAsWritten vs ++ rest) = some (vs, rest) := by
  have h1 : findScaleIdxValues vs ≤ 3 := by
    have := (foldl_min_le codecScaleOf vs (codecScales.length - 1)).1
    have h3 : codecScales.length - 1 = 3 := by rfl
    unfold findScaleIdxValues; omega
  exact scaled_with_roundtrip _ h1 vs hr hd rest

/-! ## chunk meta, plain layout -/

structure ChunkMetaWF (m : ChunkMetaM) : Prop where
  sid : m.sid < 2 ^ 64
  size : m.size < 2 ^ 32
  columnCount : m.columnCount < 2 ^ 32
  segCount : m.segCount < 2 ^ 32
  segs : 0 < m.segCount
  ranges : m.timeRange.length = m.segCount
  cols : m.cols.length = m.columnCount
  col : ∀ c ∈ m.cols, ColWF m.segCount c

/-- what comes back: an unwritten / empty pre-aggregation block is 48 zero bytes. -/
def normCM (preAggOn : Bool) (m : ChunkMetaM) : ChunkMetaM := { m with cols := m.cols.map (normCol preAggOn) }

/-- parser lemma on abstract inputs. -/
theorem unmarshalCMPlain_of (src r0 r1 r2 r3 r4 r5 r6 : Bytes) (sid size cc sc : Nat) (off : W)
    (trs : List (W × W)) (cols : List ColMetaM)
    (hlen : ¬ src.length < chunkMetaMinLen)
    (h0 : readBE 8 src = some (sid, r0)) (h1 : readI64 r0 = some (off, r1))
    (h2 : readBE 4 r1 = some (size, r2)) (h3 : readBE 4 r2 = some (cc, r3))
    (h4 : readBE 4 r3 = some (sc, r4)) (h5 : readN unmarshalRange sc r4 = some (trs, r5))
    (h6 : readN (unmarshalColPlain sc) cc r5 = some (cols, r6)) :
    unmarshalCMPlain src = some (⟨sid, off, size, cc, sc, trs, cols⟩, r6) := by
  unfold unmarshalCMPlain
  simp only [hlen, if_false, h0, h1, h2, h3, h4, h5, h6]

/-- **chunk meta (plain layout) round-trips**: series id, data offset and size, every segment's
time range, every column's name, type, pre-aggregation block and segment entries — for any number
of columns and segments whose counts agree with the lists (`ChunkMetaWF`), pre-aggregation
switched on or off; `hmin` = the reader's minimum-length test (two columns, one segment). -/
theorem chunk_meta_plain_roundtrip (preAggOn : Bool) (m : ChunkMetaM) (h : ChunkMetaWF m) (rest : Bytes)
    (hmin : chunkMetaMinLen ≤ (marshalCMPlain preAggOn m ++ rest).length) :
    unmarshalCMPlain (marshalCMPlain preAggOn m ++ rest) = some (normCM preAggOn m, rest) := by
  have p4 : (256 : Nat) ^ 4 = 2 ^ 32 := by decide
  have p8 : (256 : Nat) ^ 8 = 2 ^ 64 := by decide
  have hr := readN_flatMap unmarshalRange marshalRange id m.timeRange
    (m.cols.flatMap (marshalColPlain preAggOn) ++ rest) (fun t _ r => unmarshalRange_marshal t r)
  have hc := readN_flatMap (unmarshalColPlain m.segCount) (marshalColPlain preAggOn)
    (normCol preAggOn) m.cols rest
    (fun c hc r => unmarshalColPlain_marshal preAggOn m.segCount h.segs c (h.col c hc) r)
  rw [h.ranges, List.map_id] at hr
  rw [h.cols] at hc
  have := unmarshalCMPlain_of (marshalCMPlain preAggOn m ++ rest) _ _ _ _ _ _ _ m.sid m.size
    m.columnCount m.segCount m.offset m.timeRange (m.cols.map (normCol preAggOn)) (by omega)
    (by
      rw [marshalCMPlain]
      simp only [List.append_assoc]
      exact readBE_be_lt _ (by rw [p8]; exact h.sid))
    (readI64_i64 _ _) (readBE_be_lt _ (by rw [p4]; exact h.size))
    (readBE_be_lt _ (by rw [p4]; exact h.columnCount)) (readBE_be_lt _ (by rw [p4]; exact h.segCount))
    hr hc
  rw [this]
  rfl

/-- non-vacuity: a two-column, one-segment chunk meta. -/
def cmExample : ChunkMetaM :=
  { sid := 7, offset := 16#64, size := 100, columnCount := 2, segCount := 1,
    timeRange := [(1000#64, 2000#64)],
    cols := [⟨[102], 1, [1, 2, 3, 4, 5, 6, 7, 8], [⟨20#64, 30⟩]⟩, ⟨timeFieldName, 1, [0, 0, 0, 9], [⟨54#64, 40⟩]⟩] }

example : (marshalCMPlain true cmExample).length = 95 := by decide
example : unmarshalCMPlain (marshalCMPlain true cmExample) = some (cmExample, []) := by decide +kernel
example : ((unmarshalCMPlain (marshalCMPlain false cmExample)).map fun r => r.1.cols.map (·.preAgg))
    = some [zeroPreAgg, [0, 0, 0, 9]] := by decide +kernel

/-! ## meta index -/

/-- **meta index items round-trip** (both the attached and the detached form, which has no count). -/
theorem meta_index_roundtrip (detached : Bool) (m : MetaIndexM) (hid : m.id < 2 ^ 64)
    (hc : m.count < 2 ^ 32) (hs : m.size < 2 ^ 32) (rest : Bytes) :
    unmarshalMetaIndex detached (marshalMetaIndex detached m ++ rest)
      = some (if detached then { m with count := 0 } else m, rest) := by
  have p4 : (256 : Nat) ^ 4 = 2 ^ 32 := by decide
  have p8 : (256 : Nat) ^ 8 = 2 ^ 64 := by decide
  unfold unmarshalMetaIndex marshalMetaIndex
  cases detached
  · simp only [Bool.false_eq_true, if_false, List.append_assoc]
    rw [if_neg (by simp [metaIndexLen]; omega), readBE_be_lt _ (by rw [p8]; exact hid)]
    simp only
    rw [readI64_i64]; simp only
    rw [readI64_i64]; simp only
    rw [readI64_i64]; simp only
    rw [readBE_be_lt _ (by rw [p4]; exact hc)]; simp only
    rw [readBE_be_lt _ (by rw [p4]; exact hs)]
  · simp only [if_true, List.append_assoc]
    rw [if_neg (by simp [detachedMetaIndexLen]; omega), readBE_be_lt _ (by rw [p8]; exact hid)]
    simp only
    rw [readI64_i64]; simp only
    rw [readI64_i64]; simp only
    rw [readI64_i64]; simp only
    rw [readBE_be_lt _ (by rw [p4]; exact hs)]

example : (marshalMetaIndex false ⟨1, 2#64, 3#64, 4#64, 5, 6⟩).length = 40 := by decide

end OG.C07
