/-
C07 — expectations about the regenerated facts of the pre-aggregation blocks
(`OG/Generated/C07.lean`, section "pre-aggregation blocks").  The three length tests are
*translated* and used by the model (`PreAgg.lean`), so `preagg_roundtrip` is re-proved against
them; here is what they were when the rest of the model was transcribed.
-/
import OG.C07.PreAgg

namespace OG.C07.FactsPreAgg
open OG.Gen.C07

/-- the variable-length form is kept only when strictly shorter than the fixed form … -/
theorem keepVLC_expected (dstLen size0 fixedSize : Nat) :
    integerPreAggKeepVLC dstLen size0 fixedSize = decide (dstLen - size0 < fixedSize)
    ∧ floatPreAggKeepVLC dstLen size0 fixedSize = decide (dstLen - size0 < fixedSize) := ⟨rfl, rfl⟩

/-- … and the reader takes exactly the blocks shorter than the fixed form for it. -/
theorem readVLC_expected (srcLen fixedSize : Nat) :
    integerPreAggReadVLC srcLen fixedSize = decide (srcLen < fixedSize)
    ∧ floatPreAggReadVLC srcLen fixedSize = decide (srcLen < fixedSize) := ⟨rfl, rfl⟩

theorem onlyOneRow_expected (n : Nat) : preAggOnlyOneRow n = (n == 16) := rfl

theorem src_intPreAggMarshal_expected : src_intPreAggMarshal = "{ if m.values[countIndex] == 1 { dst = numberenc.MarshalInt64Append(dst, m.values[minIndex]) dst = numberenc.MarshalInt64Append(dst, m.values[minTIndex]) return dst } if IsChunkMetaCompressSelf() { size := len(dst) dst = m.VLCEncode(dst) if PreAggOnlyOneRow(dst[size:]) { dst = append(dst, 0) return dst } if len(dst)-size < m.size() { return dst } dst = dst[:size] } for _, val := range m.values { dst = numberenc.MarshalInt64Append(dst, val) } return dst }" := by rfl

theorem src_intPreAggUnmarshal_expected : src_intPreAggUnmarshal = "{ if PreAggOnlyOneRow(src) { m.values[minIndex], src = numberenc.UnmarshalInt64(src), src[8:] m.values[minTIndex], src = numberenc.UnmarshalInt64(src), src[8:] m.values[maxIndex] = m.values[minIndex] m.values[maxTIndex] = m.values[minTIndex] m.values[sumIndex] = m.values[minIndex] m.values[countIndex] = 1 return src, nil } if len(src) < m.size() { return m.VLCDecode(src) } for i := range m.values { m.values[i] = numberenc.UnmarshalInt64(src[:8]) src = src[8:] } return src, nil }" := by rfl

theorem src_intPreAggVLCEncode_expected : src_intPreAggVLCEncode = "{ dst = binary.AppendVarint(dst, m.values[minIndex]) dst = binary.AppendVarint(dst, m.values[maxIndex]) dst = binary.AppendVarint(dst, m.values[sumIndex]) dst = binary.AppendUvarint(dst, uint64(m.values[countIndex])) dst = codec.AppendInt64WithScale(dst, m.values[minTIndex]) dst = codec.AppendInt64WithScale(dst, m.values[maxTIndex]-m.values[minTIndex]) return dst }" := by rfl

theorem src_intPreAggVLCDecode_expected : src_intPreAggVLCDecode = "{ var n int m.values[minIndex], n = binary.Varint(src) if n <= 0 { return nil, fmt.Errorf(\"invalid min value\") } src = src[n:] m.values[maxIndex], n = binary.Varint(src) if n <= 0 { return nil, fmt.Errorf(\"invalid max value\") } src = src[n:] m.values[sumIndex], n = binary.Varint(src) if n <= 0 { return nil, fmt.Errorf(\"invalid sum value\") } src = src[n:] v, n := binary.Uvarint(src) if n <= 0 { return nil, fmt.Errorf(\"invalid count value\") } m.values[countIndex] = int64(v) src, minTime, maxTime, err := DecodeAggTimes(src[n:]) if err != nil { return nil, err } m.values[minTIndex] = minTime m.values[maxTIndex] = maxTime return src, nil }" := by rfl

theorem src_intPreAggSize_expected : src_intPreAggSize = "{ return (countIndex + 1) * util.Int64SizeBytes }" := by rfl

theorem src_floatPreAggMarshal_expected : src_floatPreAggMarshal = "{ if m.countV == 1 { dst = numberenc.MarshalFloat64(dst, m.minV) dst = numberenc.MarshalInt64Append(dst, m.minTime) return dst } if IsChunkMetaCompressSelf() { size := len(dst) dst = m.VLCEncode(dst) if PreAggOnlyOneRow(dst[size:]) { dst = append(dst, 0) return dst } if len(dst)-size < m.size() { return dst } dst = dst[:size] } dst = numberenc.MarshalFloat64(dst, m.minV) dst = numberenc.MarshalFloat64(dst, m.maxV) dst = numberenc.MarshalInt64Append(dst, m.minTime) dst = numberenc.MarshalInt64Append(dst, m.maxTime) dst = numberenc.MarshalFloat64(dst, m.sumV) dst = numberenc.MarshalInt64Append(dst, m.countV) return dst }" := by rfl

theorem src_floatPreAggUnmarshal_expected : src_floatPreAggUnmarshal = "{ if PreAggOnlyOneRow(src) { m.minV, src = numberenc.UnmarshalFloat64(src), src[8:] m.minTime, src = numberenc.UnmarshalInt64(src), src[8:] m.maxV = m.minV m.maxTime = m.minTime m.sumV = m.minV m.countV = 1 return src, nil } if len(src) < m.size() { return m.VLCDecode(src) } m.minV, src = numberenc.UnmarshalFloat64(src), src[8:] m.maxV, src = numberenc.UnmarshalFloat64(src), src[8:] m.minTime, src = numberenc.UnmarshalInt64(src), src[8:] m.maxTime, src = numberenc.UnmarshalInt64(src), src[8:] m.sumV, src = numberenc.UnmarshalFloat64(src), src[8:] m.countV, src = numberenc.UnmarshalInt64(src), src[8:] return src, nil }" := by rfl

theorem src_floatPreAggVLCEncode_expected : src_floatPreAggVLCEncode = "{ if m.maxV == 0 && m.minV == 0 { dst = append(dst, 0) } else { dst = append(dst, 1) dst = numberenc.MarshalFloat64(dst, m.minV) dst = numberenc.MarshalFloat64(dst, m.maxV) dst = numberenc.MarshalFloat64(dst, m.sumV) } dst = binary.AppendUvarint(dst, uint64(m.countV)) dst = codec.AppendInt64WithScale(dst, m.minTime) dst = codec.AppendInt64WithScale(dst, m.maxTime-m.minTime) return dst }" := by rfl

theorem src_floatPreAggVLCDecode_expected : src_floatPreAggVLCDecode = "{ flag := src[0] src = src[1:] if flag == 0 { m.minV, m.maxV, m.sumV = 0, 0, 0 } else { m.minV, src = numberenc.UnmarshalFloat64(src), src[8:] m.maxV, src = numberenc.UnmarshalFloat64(src), src[8:] m.sumV, src = numberenc.UnmarshalFloat64(src), src[8:] } v, n := binary.Uvarint(src) if n <= 0 { return nil, fmt.Errorf(\"invalid count value\") } m.countV = int64(v) src, minTime, maxTime, err := DecodeAggTimes(src[n:]) if err != nil { return nil, err } m.minTime = minTime m.maxTime = maxTime return src, nil }" := by rfl

theorem src_boolPreAggMarshal_expected : src_boolPreAggMarshal = "{ dst = numberenc.MarshalInt64Append(dst, m.counts) dst = numberenc.MarshalInt64Append(dst, m.minTime) dst = numberenc.MarshalInt64Append(dst, m.maxTime) dst = append(dst, byte(m.minV)) dst = append(dst, byte(m.maxV)) return dst }" := by rfl

theorem src_boolPreAggUnmarshal_expected : src_boolPreAggUnmarshal = "{ if len(src) < m.size() { return nil, fmt.Errorf(\"too small data for ColumnMetaBoolean\") } m.counts, src = numberenc.UnmarshalInt64(src), src[8:] m.minTime, src = numberenc.UnmarshalInt64(src), src[8:] m.maxTime, src = numberenc.UnmarshalInt64(src), src[8:] m.minV, src = int8(src[0]), src[1:] m.maxV, src = int8(src[0]), src[1:] return src, nil }" := by rfl

theorem src_stringPreAggMarshal_expected : src_stringPreAggMarshal = "{ dst = numberenc.MarshalInt64Append(dst, m.counts) return dst }" := by rfl

theorem src_stringPreAggUnmarshal_expected : src_stringPreAggUnmarshal = "{ if len(src) < 8 { return nil, fmt.Errorf(\"too small data (%v) for ColumnMetaString\", len(src)) } m.counts, src = numberenc.UnmarshalInt64(src), src[8:] return src, nil }" := by rfl

theorem src_timePreAggMarshal_expected : src_timePreAggMarshal = "{ dst = numberenc.MarshalUint32Append(dst, b.countV) return dst }" := by rfl

theorem src_timePreAggUnmarshal_expected : src_timePreAggUnmarshal = "{ if len(src) < 4 { return nil, fmt.Errorf(\"too smaller data for time pre agg %v\", len(src)) } b.countV = numberenc.UnmarshalUint32(src) return src[4:], nil }" := by rfl

theorem src_decodeAggTimes_expected : src_decodeAggTimes = "{ buf, minTime, ok := codec.DecodeInt64WithScale(buf) if !ok { return nil, 0, 0, fmt.Errorf(\"invalid minTime value\") } buf, duration, ok := codec.DecodeInt64WithScale(buf) if !ok { return nil, 0, 0, fmt.Errorf(\"invalid maxTime value\") } return buf, minTime, minTime + duration, nil }" := by rfl

theorem fields_IntegerPreAgg_expected : fields_IntegerPreAgg = ["values []int64"] := by rfl

theorem fields_FloatPreAgg_expected : fields_FloatPreAgg = ["minV float64", "maxV float64", "minTime int64", "maxTime int64", "sumV float64", "countV int64"] := by rfl

theorem fields_BooleanPreAgg_expected : fields_BooleanPreAgg = ["counts int64", "minTime int64", "maxTime int64", "minV int8", "maxV int8"] := by rfl

theorem fields_StringPreAgg_expected : fields_StringPreAgg = ["counts int64"] := by rfl

theorem fields_TimePreAgg_expected : fields_TimePreAgg = ["countV uint32"] := by rfl

theorem preAggIndexNames_expected : preAggIndexNames = ["minIndex", "maxIndex", "minTIndex", "maxTIndex", "sumIndex", "countIndex"] := by rfl

theorem fp_floatPreAggSize_expected : fp_floatPreAggSize = "82477316f887e0e4" := by rfl

end OG.C07.FactsPreAgg
