/-
C07 — expectations about the regenerated facts (`OG/Generated/C07.lean`).  A failure here
means the modelled source changed shape: the model must be re-validated; the correspondence
run decides whether the property still holds and supplies the replay.
-/
import OG.C07.Simple8b

namespace OG.C07.Facts
open OG.Gen.C07

theorem generation_ok : generationFailed = false := by rfl

/-! mode ids and thresholds the models were written against -/
theorem int_modes_expected :
    (intCompressedConstDelta, intCompressedSimple8b, intCompressZSTD, intUncompressed) = (1, 2, 3, 4) := by rfl
theorem time_modes_expected :
    (timeCompressedConstDelta, timeCompressedSimple8b, timeCompressSnappy, timeUncompressed) = (1, 2, 3, 4) := by rfl
theorem string_modes_expected :
    (stringUncompressed, stringCompressedSnappy, stringCompressedZstd, stringCompressedLz4) = (0, 1, 2, 3) := by rfl
theorem bool_mode_expected : boolCompressedBitpack = 1 := by rfl
theorem minCompReta_expected : (minCompRetaNum, minCompRetaDen) = (17, 20) := by rfl
theorem maxValue_expected : simple8bMaxValue = 2 ^ 60 - 1 := by decide
theorem scales_expected : scales = (List.range 12).map fun i => 10 ^ (i + 1) := by decide

/-! simple8b: the table, and every unrolled pack / unpack body against the table -/
theorem selector_expected : OG.C07.selTable =
    [(240, 0), (120, 0), (60, 1), (30, 2), (20, 3), (15, 4), (12, 5), (10, 6), (8, 7), (7, 8),
     (6, 10), (5, 12), (4, 15), (3, 20), (2, 30), (1, 60)] := by decide

/-- what `packN` must look like for selector `k` with row `(n, bits)`. -/
def packExpected (k n bits : Nat) (name : String) : String × Nat × List (Nat × Nat) :=
  if bits = 0 then (name, 0, []) else (name, k, (List.range n).map fun i => (i, bits * i))

def unpackExpected (n bits : Nat) (name : String) : String × Bool × List (Nat × Nat × Nat) :=
  if bits = 0 then (name, true, []) else (name, false, (List.range n).map fun i => (i, bits * i, 2 ^ bits - 1))

def chainExpected (k n bits : Nat) (pack : String) : Nat × Nat × String × Nat :=
  (n, bits,
    if bits = 0 then (if k = 0 then "0" else "1 << 60")
    else pack ++ "(src[i : i+" ++ toString n ++ "])",
    n)

def rowsWithIndex : List (Nat × Nat × Nat × String × String) :=
  (List.range selector.length).zip selector |>.map fun (k, r) => (k, r.1, r.2.1, r.2.2.1, r.2.2.2)

/-- every `packN` is `k<<60 | Σ src[i]<<(bits·i)` with the `n`, `bits` of its table row. -/
theorem pack_shapes_agree :
    packShapes = rowsWithIndex.map fun (k, n, b, _, pk) => packExpected k n b pk := by decide +kernel

/-- every `unpackN` is `dst[i] = (v >> bits·i) & (2^bits − 1)` for `i < n`. -/
theorem unpack_shapes_agree :
    unpackShapes = rowsWithIndex.map fun (_, n, b, un, _) => unpackExpected n b un := by decide +kernel

/-- `EncodeAll` tries the rows in table order, stores `packN(src[i : i+n])` and advances by `n`. -/
theorem encodeAll_chain_agrees :
    encodeAllChain = rowsWithIndex.map fun (k, n, b, _, pk) => chainExpected k n b pk := by decide +kernel

theorem encodeAllElse_expected :
    encodeAllElse = "{ return nil, fmt.Errorf(\"value out of bounds\") }" := by rfl

theorem src_canPack_expected : src_canPack = "{ if len(src) < n { return false } end := len(src) if n < end { end = n } if bits == 0 { for _, v := range src { if v != 1 { return false } } return true } max := uint64((1 << uint64(bits)) - 1) for i := 0; i < end; i++ { if src[i] > max { return false } } return true }" := by rfl

theorem src_s8bDecode_expected : src_s8bDecode = "{ sel := v >> 60 if sel >= 16 { return 0, fmt.Errorf(\"invalid selector value: %b\", sel) } selector[sel].unpack(v, dst) return selector[sel].n, nil }" := by rfl

theorem src_compressionRation_expected :
    src_compressionRation = "{ return float64(cmpLen) / float64(srcLen) }" := by rfl

/-! fingerprints of the hand-transcribed functions of lib/encoding/int.go -/
theorem fp_int_expected :
    [fp_intInit, fp_intEncoding, fp_intEncodingConstDelta, fp_intEncodingSimple8b,
     fp_intEncodingZSTD, fp_intUncompressedData, fp_intDecodeInit, fp_intDecoding,
     fp_intDecodingConstDelta, fp_intDecodingSimple8b, fp_intDecodingUncompressed] =
    ["beea4fa28fd5a5fa", "c1dbd1b64fa5d8b8", "0a30c359a4e4aaab", "5d2c8c1d0ea7436a",
     "7a7c254a3415f02f", "20ff4b0e6f6d6c52", "aba02396652872bc", "2a73acf1d4e43dc4",
     "ec9a5cc7ec87be2b", "421fee839b9eeeae", "7831cf94a6653a58"] := by rfl

/-! lib/encoding/timestamp.go -/
theorem src_scale_expected : src_scale = "{ for i := len(scales) - 1; i > 0; i-- { if v%scales[i] == 0 { return scales[i] } } return 1 }" := by rfl

theorem fp_time_expected :
    [fp_timeEncodingInit, fp_timeEncoding, fp_timePackUncompressedData, fp_timeConstDeltaEncoding,
     fp_timeSimple8bEncoding, fp_timeSnappyEncoding, fp_timeDecodingInit, fp_timeDecoding,
     fp_timeConstDeltaDecoding, fp_timeSimple8bDecoding, fp_timeSnappyDecoding,
     fp_timeUnpackUncompressedData] =
    ["db91c7fb52e8d329", "9977179739ad3688", "861deed34d433fec", "660f2f93bb9bab59",
     "0cb5c19ea2e95407", "ec965b209db92f85", "7ef8cab2c340a418", "3fb166a3538f3ed1",
     "996f2c318a4b475d", "3428407334e8defe", "1e37c062fd6a10e7", "e00c256c7e505a76"] := by rfl

/-! lib/encoding/bool.go and the bit stream it writes through -/
theorem fp_bool_expected :
    [fp_boolEncoding, fp_boolDecoding, fp_bitWriteBit, fp_bitFlush, fp_bitReadBit] =
    ["67fb75d8349766cb", "38fd660175a0b712", "3e09e7f17a6a0d93", "1f7afd0b1473ed8c",
     "cecee633835296bb"] := by rfl

/-! lib/compress/float.go, compress.go, lib/encoding/float.go (after the three `fix:` commits) -/
theorem float_consts_expected :
    (floatCompressedNull, floatCompressedOldGorilla, floatCompressedSnappy, floatCompressedGorilla,
     floatCompressedSame, floatCompressedRLE, floatCompressMLF, floatCompressThreshold,
     floatRLECompressThreshold, rleBlockLimit) = (0, 1, 2, 3, 4, 5, 6, 4, 8, 16384) := by rfl

theorem src_generateContext_expected : src_generateContext = "{ ctx := newContext() ctx.valueCount = len(values) if ctx.valueCount <= floatCompressThreshold { return ctx } distinctCount := 1 for i := range values { if i > 0 && math.Float64bits(values[i]) != math.Float64bits(values[i-1]) { distinctCount++ } if !ctx.extremeDataValues && (math.IsNaN(values[i]) || math.IsInf(values[i], 0)) { ctx.extremeDataValues = true } } ctx.distinctCount = distinctCount if ctx.RLE() { return ctx } k := 0 lessDecimalTotal := 0 for i := 0; i < ctx.valueCount && k < ctx.valueCount/10; i++ { if values[i] == 0 { continue } k++ if ctx.intOnly && !isInt(values[i]) { ctx.intOnly = false } if lessDecimal(values[i]) { lessDecimalTotal++ } } ctx.lessDecimal = k > 0 && (100*lessDecimalTotal/k) > 90 return ctx }" := by rfl

theorem src_ctxSame_expected : src_ctxSame = "{ return ctx.distinctCount == 1 && ctx.valueCount <= math.MaxUint16 }" := by rfl

theorem src_ctxRLE_expected : src_ctxRLE = "{ return ctx.distinctCount <= floatRLECompressThreshold }" := by rfl

theorem src_ctxSnappy_expected : src_ctxSnappy = "{ return !ctx.intOnly && ctx.lessDecimal }" := by rfl

theorem src_ctxNotCompress_expected : src_ctxNotCompress = "{ return ctx.valueCount <= floatCompressThreshold }" := by rfl

theorem src_sameValueEncoding_expected : src_sameValueEncoding = "{ values := util.Bytes2Uint64Slice(in) size := uint16(len(values)) out = append(out, uint8(size>>8), uint8(size&0xff)) if values[0] == 0 { return out, nil } out = append(out, in[:rle.step]...) return out, nil }" := by rfl

theorem fp_float_expected :
    [fp_floatAdaptiveEncoding, fp_floatAdaptiveDecoding, fp_floatCompressNull, fp_sameValueDecoding, fp_rleEncoding, fp_rleDecoding, fp_paddingBuffer, fp_snappyEncoding, fp_snappyDecoding, fp_gorillaEncoding, fp_gorillaDecoding, fp_encFloatEncoding, fp_encFloatDecoding] =
    ["6cb26c9ebf1572de", "6aec8ec978dc3007", "45167b4d0331af6c", "056ce65d8f240353", "565d6a260174dcc6", "b02b88560d759df1", "6ad47c77d84e104a", "1547a0dd65f70437", "01d8b1bc86343cad", "90e6cbd7010134c6", "07219919ad790f32", "9aca60f148a21e8c", "812ccc246ef2f2f6"] := by rfl

/-! engine/wal.go: the reader decodes only a completely read body (after the `fix:` commit) -/
theorem wal_accept_expected : walAcceptCond = "err == nil" := by rfl
theorem wal_cfg_expected : (walDecodeOnEOF, walDecodeOnUnexpectedEOF) = (false, false) := by rfl
theorem wal_type_guard_expected :
    walTypeGuard = "writeWalType <= WriteWalUnKnownType || writeWalType >= WriteWalEnd" := by rfl
theorem wal_consts_expected :
    (walRecordHeadSize, walTypeNames)
      = (5, ["WriteWalUnKnownType", "WriteWalLineProtocol", "WriteWalArrowFlight", "WriteWalEnd"]) := by rfl
theorem fp_wal_expected :
    [fp_walReplayPhysicRecord, fp_walWriteBinary] = ["6ca6bac463cca4b0", "f4eaaae58d1afbee"] := by rfl

/-! lib/encoding/string.go and the string packing of encoding.go -/
theorem fp_string_expected :
    [fp_strEncInit, fp_strEncoding, fp_strEncodingWithSnappy, fp_strEncodingWithZSTD, fp_strEncodingWithLz4, fp_strUncompressedData, fp_strDecodingInit, fp_strDecoding, fp_strDecodingWithSnappy, fp_strDecodingWithZSTD, fp_strDecodingWithLz4, fp_packStringV2, fp_unpackStringV2, fp_unpackString, fp_encodeStringBlock, fp_decodeStringBlock] =
    ["d57a4593cf3dc030", "f104c8cce27aff9d", "86619466202a9aa2", "57a722c098c79a26", "5556c03bb357778f", "cb263115df2d831c", "aad8e46bd190c324", "7c3cc3a1b01b03da", "301d774123234772", "b9b332f65a20cde9", "1c4bebae88f25d0b", "abf68782d14a08a2", "00d19af91ed7d9c0", "b830b6a0ce13864f", "646deda366d57edd", "0b825e9d309fefbe"] := by rfl

end OG.C07.Facts
