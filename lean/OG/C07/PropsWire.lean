/-
C07 — property theorems for the wire codecs of `WireCodec.lean`: records (lib/record), the write
responses and the stream-write request of lib/msgservice, the replication log payload
(`raftlog.DataWrapper`).
-/
import OG.C07.WireCodec
import OG.C07.LemmasMeta

namespace OG.C07
open OG.Gen.C07

/-! ### primitives -/

theorem decString_str16 (s r : Bytes) (h : s.length < 2 ^ 16) : decString (str16 s ++ r) = some (s, r) := by
  have p2 : (256 : Nat) ^ 2 = 2 ^ 16 := by decide
  unfold decString str16
  rw [List.append_assoc, readBE_be_lt _ (by rw [p2]; exact h)]
  simp only
  by_cases h0 : s.length = 0
  · have : s = [] := List.eq_nil_of_length_eq_zero h0
    subst this; simp
  · rw [if_neg h0, if_neg (by simp), take_app _ _ _ rfl, drop_app _ _ _ rfl]

theorem decBytes_bytes32 (b r : Bytes) (h : b.length < 2 ^ 32) : decBytes (bytes32 b ++ r) = some (b, r) := by
  have p4 : (256 : Nat) ^ 4 = 2 ^ 32 := by decide
  unfold decBytes bytes32
  rw [List.append_assoc, readBE_be_lt _ (by rw [p4]; exact h)]
  simp only
  by_cases h0 : b.length = 0
  · have : b = [] := List.eq_nil_of_length_eq_zero h0
    subst this; simp
  · rw [if_neg h0, if_neg (by simp), take_app _ _ _ rfl, drop_app _ _ _ rfl]

theorem readLE_le (k n : Nat) (r : Bytes) (h : n < 256 ^ k) : readLE k (le k n ++ r) = some (n, r) := by
  unfold readLE
  rw [take_app _ _ _ (le_length k n), drop_app _ _ _ (le_length k n), le_length, if_neg (by omega), unle_le,
    Nat.mod_eq_of_lt h]

theorem decLEs (k : Nat) (xs : List Nat) (r : Bytes) (hx : ∀ x ∈ xs, x < 256 ^ k) (hl : xs.length < 2 ^ 32) :
    (match readBE 4 (be 4 xs.length ++ (xs.flatMap (le k) ++ r)) with
      | none => none
      | some (n, r') => if n = 0 then some ([], r') else readN (readLE k) n r') = some (xs, r) := by
  have p4 : (256 : Nat) ^ 4 = 2 ^ 32 := by decide
  rw [readBE_be_lt _ (by rw [p4]; exact hl)]
  simp only
  by_cases h0 : xs.length = 0
  · have : xs = [] := List.eq_nil_of_length_eq_zero h0
    subst this; simp
  · rw [if_neg h0]
    have := readN_flatMap (readLE k) (le k) id xs r (fun a ha r' => readLE_le k a r' (hx a ha))
    rw [List.map_id] at this
    exact this

theorem decU32sLE_enc (xs : List Nat) (r : Bytes) (hx : ∀ x ∈ xs, x < 2 ^ 32) (hl : xs.length < 2 ^ 32) :
    decU32sLE (u32sLE xs ++ r) = some (xs, r) := by
  unfold decU32sLE u32sLE
  rw [List.append_assoc]
  have p4 : (256 : Nat) ^ 4 = 2 ^ 32 := by decide
  exact decLEs 4 xs r (fun x hx' => by rw [p4]; exact hx x hx') hl

theorem decU64sLE_enc (xs : List Nat) (r : Bytes) (hx : ∀ x ∈ xs, x < 2 ^ 64) (hl : xs.length < 2 ^ 32) :
    decU64sLE (u64sLE xs ++ r) = some (xs, r) := by
  unfold decU64sLE u64sLE
  rw [List.append_assoc]
  have p8 : (256 : Nat) ^ 8 = 2 ^ 64 := by decide
  exact decLEs 8 xs r (fun x hx' => by rw [p8]; exact hx x hx') hl

/-! ### lib/record -/

theorem field_size (f : FieldM) : (marshalField f).length = fieldSize f := by
  simp [marshalField, fieldSize, str16]; omega

/-- **`record.Field`** -/
theorem field_codec_roundtrip (f : FieldM) (h : f.name.length < 2 ^ 16) :
    unmarshalField (marshalField f) = some f := by
  unfold unmarshalField marshalField
  rw [decString_str16 _ _ h]
  simp only
  have := readI64_i64 f.type []
  rw [List.append_nil] at this
  rw [this]

structure ColValWF (c : ColValM) : Prop where
  val : c.val.length < 2 ^ 32
  bitmap : c.bitmap.length < 2 ^ 32
  offs : c.offs.length < 2 ^ 32
  off : ∀ x ∈ c.offs, x < 2 ^ 32

theorem flatMap_le_length (k : Nat) : ∀ xs : List Nat, (xs.flatMap (le k)).length = xs.length * k
  | [] => by simp
  | x :: xs => by
    have ih := flatMap_le_length k xs
    simp only [List.flatMap_cons, List.length_append, le_length, ih, List.length_cons]
    rw [Nat.add_mul]; omega

theorem colVal_size (c : ColValM) : (marshalColVal c).length = colValSize c := by
  simp only [marshalColVal, colValSize, bytes32, u32sLE, List.length_append, i64_length, be_length,
    flatMap_le_length]
  omega

/-- parser lemma on abstract inputs. -/
theorem unmarshalColVal_of (bs r0 r1 r2 r3 r4 r5 : Bytes) (len nil off : W) (val bm : Bytes) (offs : List Nat)
    (h0 : readI64 bs = some (len, r0)) (h1 : readI64 r0 = some (nil, r1)) (h2 : readI64 r1 = some (off, r2))
    (h3 : decBytes r2 = some (val, r3)) (h4 : decBytes r3 = some (bm, r4))
    (h5 : decU32sLE r4 = some (offs, r5)) :
    unmarshalColVal bs = some ⟨len, nil, off, val, bm, offs⟩ := by
  unfold unmarshalColVal
  simp only [h0, h1, h2, h3, h4, h5]

/-- **`record.ColVal`** — every field: `Len`, `NilCount`, `BitMapOffset` (any int), `Val`, `Bitmap`,
`Offset`. -/
theorem colval_codec_roundtrip (c : ColValM) (h : ColValWF c) :
    unmarshalColVal (marshalColVal c) = some c := by
  have h5 := decU32sLE_enc c.offs [] h.off h.offs
  rw [List.append_nil] at h5
  exact unmarshalColVal_of (marshalColVal c) _ _ _ _ _ _ c.len c.nilCount c.bmOff c.val c.bitmap c.offs
    (by unfold marshalColVal; exact readI64_i64 _ _) (readI64_i64 _ _) (readI64_i64 _ _)
    (decBytes_bytes32 _ _ h.val) (decBytes_bytes32 _ _ h.bitmap) h5

theorem readSub_enc {α : Type} (dflt : α) (un : Bytes → Option α) (msg r : Bytes) (a : α) (size : Nat)
    (hs : size = msg.length) (hl : msg.length < 2 ^ 32) (hne : msg ≠ []) (hu : un msg = some a) :
    readSub dflt un (be 4 size ++ (msg ++ r)) = some (a, r) := by
  have h := decBytes_bytes32 msg r hl
  rw [bytes32, List.append_assoc] at h
  subst hs
  rw [readSub, h]
  simp only [hne, if_false, hu, Option.map_some]

structure RecordWF (rec : RecordM) : Prop where
  nf : rec.schema.length < 2 ^ 32
  nc : rec.cols.length < 2 ^ 32
  field : ∀ f ∈ rec.schema, f.name.length < 2 ^ 16
  col : ∀ c ∈ rec.cols, ColValWF c ∧ colValSize c < 2 ^ 32

/-- parser lemma on abstract inputs. -/
theorem unmarshalRecord_of (bs r0 r1 r2 r3 : Bytes) (nf nc : Nat) (fs : List FieldM) (cs : List ColValM)
    (hne : bs ≠ []) (h0 : readBE 4 bs = some (nf, r0))
    (h1 : readN (readSub ⟨[], 0#64⟩ unmarshalField) nf r0 = some (fs, r1))
    (h2 : readBE 4 r1 = some (nc, r2))
    (h3 : readN (readSub ⟨0#64, 0#64, 0#64, [], [], []⟩ unmarshalColVal) nc r2 = some (cs, r3)) :
    unmarshalRecord bs = some ⟨fs, cs⟩ := by
  unfold unmarshalRecord
  simp only [hne, if_false, h0, h1, h2, h3]

/-- **a record round-trips on the wire**: schema and every column value, the length prefixes being
the `Size()` of each part. -/
theorem record_codec_roundtrip (rec : RecordM) (h : RecordWF rec) :
    unmarshalRecord (marshalRecord rec) = some rec := by
  have p4 : (256 : Nat) ^ 4 = 2 ^ 32 := by decide
  have hf := readN_flatMap (readSub ⟨[], 0#64⟩ unmarshalField)
    (fun f => be 4 (fieldSize f) ++ marshalField f) id rec.schema
    (be 4 rec.cols.length ++ rec.cols.flatMap fun c => be 4 (colValSize c) ++ marshalColVal c)
    (fun f hf r => by
      have := readSub_enc (⟨[], 0#64⟩ : FieldM) unmarshalField (marshalField f) r f (fieldSize f)
        (field_size f).symm (by rw [field_size]; have := h.field f hf; unfold fieldSize; omega)
        (by intro he; have := congrArg List.length he; rw [field_size] at this; simp [fieldSize] at this)
        (field_codec_roundtrip f (h.field f hf))
      rw [List.append_assoc]; exact this)
  have hc := readN_flatMap (readSub ⟨0#64, 0#64, 0#64, [], [], []⟩ unmarshalColVal)
    (fun c => be 4 (colValSize c) ++ marshalColVal c) id rec.cols []
    (fun c hc r => by
      have := readSub_enc (⟨0#64, 0#64, 0#64, [], [], []⟩ : ColValM) unmarshalColVal (marshalColVal c) r c
        (colValSize c) (colVal_size c).symm (by rw [colVal_size]; exact (h.col c hc).2)
        (by intro he; have := congrArg List.length he; rw [colVal_size] at this; simp [colValSize] at this)
        (colval_codec_roundtrip c (h.col c hc).1)
      rw [List.append_assoc]; exact this)
  rw [List.map_id] at hf hc
  rw [List.append_nil] at hc
  exact unmarshalRecord_of (marshalRecord rec) _ _ _ _ rec.schema.length rec.cols.length rec.schema rec.cols
    (by intro he; have := congrArg List.length he; simp [marshalRecord] at this)
    (by unfold marshalRecord; exact readBE_be_lt _ (by rw [p4]; exact h.nf)) hf
    (readBE_be_lt _ (by rw [p4]; exact h.nc)) hc

example : marshalRecord ⟨[⟨[116], 1#64⟩], [⟨1#64, 0#64, 0#64, [5], [1], []⟩]⟩
    = [0, 0, 0, 1, 0, 0, 0, 11, 0, 1, 116, 0, 0, 0, 0, 0, 0, 0, 2, 0, 0, 0, 1, 0, 0, 0, 38,
       0, 0, 0, 0, 0, 0, 0, 2, 0, 0, 0, 0, 0, 0, 0, 0, 0, 0, 0, 0, 0, 0, 0, 0, 0, 0, 0, 1, 5, 0, 0, 0, 1, 1,
       0, 0, 0, 0] := by decide +kernel

/-! ### lib/msgservice -/

/-- **write responses** (`WritePointsResponse`, `WriteBlobsResponse`, `WriteStreamPointsResponse`) -/
theorem write_response_roundtrip (r : WriteRespM) (h : r.errCode < 2 ^ 16) :
    unmarshalWriteResp (marshalWriteResp r) = some r := by
  have p2 : (256 : Nat) ^ 2 = 2 ^ 16 := by decide
  unfold unmarshalWriteResp marshalWriteResp
  simp only
  rw [readBE_be_lt _ (by rw [p2]; exact h)]

theorem streamVar_size (s : StreamVarM) : (marshalStreamVar s).length = streamVarSize s := by
  simp only [marshalStreamVar, streamVarSize, u64sLE, List.length_cons, List.length_append, be_length,
    flatMap_le_length]
  omega

theorem streamVar_roundtrip (s : StreamVarM) (hx : ∀ x ∈ s.ids, x < 2 ^ 64) (hl : s.ids.length < 2 ^ 32) :
    unmarshalStreamVar (marshalStreamVar s) = some s := by
  unfold unmarshalStreamVar marshalStreamVar
  have := decU64sLE_enc s.ids [] hx hl
  rw [List.append_nil] at this
  simp only [this, Option.map_some]
  cases s with
  | mk only ids => cases only <;> simp

theorem readSVar_enc (v : Option StreamVarM) (r : Bytes)
    (hv : ∀ s, v = some s → (∀ x ∈ s.ids, x < 2 ^ 64) ∧ s.ids.length < 2 ^ 29) :
    readSVar (marshalSVarOpt v ++ r) = some (v, r) := by
  cases v with
  | none =>
    have := decBytes_bytes32 [] r (by simp)
    simp only [bytes32, List.length_nil, List.append_nil] at this
    rw [readSVar, marshalSVarOpt, this]
    simp
  | some s =>
    obtain ⟨h1, h2⟩ := hv s rfl
    have hsz := streamVar_size s
    have := decBytes_bytes32 (marshalStreamVar s) r (by rw [hsz]; unfold streamVarSize; omega)
    rw [bytes32, hsz] at this
    have hne : marshalStreamVar s ≠ [] := by
      intro he; have := congrArg List.length he; rw [hsz] at this; simp [streamVarSize] at this
    rw [readSVar, marshalSVarOpt, this]
    simp only [hne, if_false, streamVar_roundtrip s h1 (by omega), Option.map_some]

/-- parser lemma on abstract inputs. -/
theorem unmarshalStreamReq_of (bs r0 r1 r2 pts : Bytes) (n : Nat) (vs : List (Option StreamVarM))
    (hne : bs ≠ []) (h0 : decBytes bs = some (pts, r0)) (h1 : readBE 4 r0 = some (n, r1))
    (h2 : readN readSVar n r1 = some (vs, r2)) : unmarshalStreamReq bs = some ⟨pts, vs⟩ := by
  unfold unmarshalStreamReq
  simp only [hne, if_false, h0, h1, h2]

/-- **stream-write request**: the points and every stream variable (absent ones included). -/
theorem stream_request_roundtrip (w : StreamReqM) (hp : w.points.length < 2 ^ 32)
    (hn : w.vars.length < 2 ^ 32)
    (hv : ∀ v ∈ w.vars, ∀ s, v = some s → (∀ x ∈ s.ids, x < 2 ^ 64) ∧ s.ids.length < 2 ^ 29) :
    unmarshalStreamReq (marshalStreamReq w) = some w := by
  have p4 : (256 : Nat) ^ 4 = 2 ^ 32 := by decide
  have h2 := readN_flatMap readSVar marshalSVarOpt id w.vars []
    (fun v hv' r => readSVar_enc v r (hv v hv'))
  rw [List.map_id, List.append_nil] at h2
  exact unmarshalStreamReq_of (marshalStreamReq w) _ _ _ w.points w.vars.length w.vars
    (by intro he; have := congrArg List.length he; simp [marshalStreamReq, bytes32] at this)
    (by unfold marshalStreamReq; exact decBytes_bytes32 _ _ hp)
    (readBE_be_lt _ (by rw [p4]; exact hn)) h2

/-! ### lib/raftlog -/

/-- **replication log payload** (`DataWrapper`): type, node identity, propose id and data — for an
identity shorter than 256 bytes (its length travels in one byte). -/
theorem datawrapper_roundtrip (d : DataWrapperM) (ht : d.dataType < 2 ^ 32) (hi : d.identity.length < 256)
    (hp : d.proposeId < 2 ^ 64) : unmarshalDataWrapper (marshalDataWrapper d) = some d := by
  have p4 : (256 : Nat) ^ 4 = 2 ^ 32 := by decide
  have p8 : (256 : Nat) ^ 8 = 2 ^ 64 := by decide
  unfold unmarshalDataWrapper marshalDataWrapper
  rw [readBE_be_lt _ (by rw [p4]; exact ht)]
  simp only
  rw [u8_toNat_ofNat_lt hi, if_neg (by simp; omega), drop_app _ _ _ rfl,
    readBE_be_lt _ (by rw [p8]; exact hp)]
  simp only [take_app _ _ _ rfl]

/-- the limit is real: a 256-byte identity is written with length byte 0 and everything after it
is misread. -/
theorem datawrapper_long_identity_fails :
    (unmarshalDataWrapper (marshalDataWrapper ⟨[9], 0, List.replicate 256 65, 7⟩)).map (·.identity) = some [] := by
  decide +kernel

end OG.C07
