/-
C07 — helper lemmas for simple8b: packing arithmetic, selector search, word round trip.
Everything is stated over the regenerated `selTable`; the only facts used about the table are
`table_rows_ok` (every row has n ≥ 1 and n·bits ≤ 60), `table_len` and `table_has_1_60`,
each closed by `decide` on the table as generated now.
-/
import OG.C07.Simple8b
import OG.C07.LemmasBytes

namespace OG.C07

theorem table_rows_ok : ∀ r ∈ selTable, 1 ≤ r.1 ∧ r.1 * r.2 ≤ 60 := by decide
theorem table_len : selTable.length = 16 := by decide
theorem table_has_1_60 : (1, 60) ∈ selTable := by decide

theorem packVals_lt (b : Nat) : ∀ vs : List Nat, (∀ v ∈ vs, v < 2 ^ b) →
    packVals b vs < 2 ^ (b * vs.length)
  | [], _ => by simp [packVals]
  | v :: vs, h => by
    have hv : v < 2 ^ b := h v (by simp)
    have ih := packVals_lt b vs (fun x hx => h x (by simp [hx]))
    simp only [packVals, List.length_cons, Nat.mul_succ, Nat.pow_add]
    have : 2 ^ b * (packVals b vs + 1) ≤ 2 ^ b * 2 ^ (b * vs.length) := Nat.mul_le_mul_left _ ih
    rw [Nat.mul_comm (2 ^ (b * vs.length))]
    rw [Nat.mul_add] at this
    omega

theorem unpack_pack (b : Nat) : ∀ (vs : List Nat) (x : Nat), (∀ v ∈ vs, v < 2 ^ b) →
    unpackVals b vs.length (packVals b vs + 2 ^ (b * vs.length) * x) = vs
  | [], _, _ => by simp [unpackVals]
  | v :: vs, x, h => by
    have hv : v < 2 ^ b := h v (by simp)
    have ih := unpack_pack b vs x (fun y hy => h y (by simp [hy]))
    have hpos : 0 < 2 ^ b := Nat.pow_pos (by decide)
    have e : packVals b (v :: vs) + 2 ^ (b * (v :: vs).length) * x
        = v + 2 ^ b * (packVals b vs + 2 ^ (b * vs.length) * x) := by
      simp only [packVals, List.length_cons, Nat.mul_succ, Nat.pow_add, Nat.mul_add]
      rw [Nat.mul_comm (2 ^ (b * vs.length)) (2 ^ b), Nat.mul_assoc, Nat.add_assoc]
    rw [e]
    simp only [List.length_cons, unpackVals]
    have h1 : (v + 2 ^ b * (packVals b vs + 2 ^ (b * vs.length) * x)) % 2 ^ b = v := by
      rw [Nat.add_mul_mod_self_left]; exact Nat.mod_eq_of_lt hv
    have h2 : (v + 2 ^ b * (packVals b vs + 2 ^ (b * vs.length) * x)) / 2 ^ b
        = packVals b vs + 2 ^ (b * vs.length) * x := by
      rw [Nat.add_mul_div_left _ _ hpos, Nat.div_eq_of_lt hv, Nat.zero_add]
    rw [h1, h2, ih]

/-- what `findSel` returns is a row of the table at the returned index, and it fits. -/
theorem findSel_spec (src : List Nat) : ∀ (t : List (Nat × Nat)) (k k' n b : Nat),
    findSel src t k = some (k', n, b) →
    k ≤ k' ∧ t[k' - k]? = some (n, b) ∧ canPack src n b = true
  | [], _, _, _, _, h => by simp [findSel] at h
  | (n0, b0) :: t, k, k', n, b, h => by
    unfold findSel at h
    by_cases hc : canPack src n0 b0 = true
    · simp [hc] at h
      obtain ⟨rfl, rfl, rfl⟩ := h
      simp [hc]
    · simp [hc] at h
      have ih := findSel_spec src t (k + 1) k' n b h
      obtain ⟨h1, h2, h3⟩ := ih
      refine ⟨by omega, ?_, h3⟩
      have : k' - k = (k' - (k + 1)) + 1 := by omega
      rw [this]; simpa using h2

theorem findSel_some_of_mem (src : List Nat) (n b : Nat) (hc : canPack src n b = true) :
    ∀ (t : List (Nat × Nat)) (k : Nat), (n, b) ∈ t → (findSel src t k).isSome = true
  | [], _, h => by simp at h
  | (n0, b0) :: t, k, h => by
    unfold findSel
    by_cases hc0 : canPack src n0 b0 = true
    · simp [hc0]
    · simp [hc0]
      have : (n, b) ∈ t := by
        rcases List.mem_cons.mp h with h | h
        · cases h; exact absurd hc hc0
        · exact h
      exact findSel_some_of_mem src n b hc t (k + 1) this

theorem canPack_one_sixty (v : Nat) (vs : List Nat) (hv : v < 2 ^ 60) : canPack (v :: vs) 1 60 = true := by
  simp [canPack]; omega

theorem canPack_len {src : List Nat} {n b : Nat} (h : canPack src n b = true) : n ≤ src.length := by
  unfold canPack at h
  simp only [take_length_lt_iff] at h
  by_cases hl : src.length < n
  · simp [hl] at h
  · omega

theorem canPack_zero {src : List Nat} {n : Nat} (h : canPack src n 0 = true) :
    src.take n = List.replicate n 1 := by
  have hl := canPack_len h
  unfold canPack at h
  simp only [take_length_lt_iff] at h
  have hn : ¬ src.length < n := by omega
  simp [hn] at h
  rw [List.eq_replicate_iff]
  refine ⟨by simp; omega, fun x hx => h x (List.mem_of_mem_take hx)⟩

theorem canPack_pos {src : List Nat} {n b : Nat} (hb : b ≠ 0) (h : canPack src n b = true) :
    ∀ v ∈ src.take n, v < 2 ^ b := by
  have hl := canPack_len h
  unfold canPack at h
  simp only [take_length_lt_iff] at h
  have hn : ¬ src.length < n := by omega
  simp [hn, hb] at h
  intro v hv
  have := h v hv
  have hpos : 0 < 2 ^ b := Nat.pow_pos (by decide)
  omega

/-- one packed word decodes to the `n` values it was made from, and fits in 64 bits. -/
theorem decodeWord_packWord (src : List Nat) (k n b : Nat)
    (hk : selTable[k]? = some (n, b)) (hc : canPack src n b = true) :
    decodeWord (packWord k n b src) = some (src.take n) ∧ packWord k n b src < 2 ^ 64 := by
  have hmem : (n, b) ∈ selTable := List.mem_of_getElem? hk
  obtain ⟨hn1, hnb⟩ := table_rows_ok (n, b) hmem
  simp only at hn1 hnb
  have hk16 : k < 16 := by
    have := (List.getElem?_eq_some_iff.mp hk).1
    rw [table_len] at this; exact this
  have hl := canPack_len hc
  by_cases hb : b = 0
  · subst hb
    have e : packWord k n 0 src = k * 2 ^ 60 := by simp [packWord]
    rw [e]
    constructor
    · have hdiv : k * 2 ^ 60 / 2 ^ 60 = k := Nat.mul_div_cancel _ (Nat.pow_pos (by decide))
      have hrow : selTable[k * 2 ^ 60 / 2 ^ 60]? = some (n, 0) := by rw [hdiv]; exact hk
      unfold decodeWord
      rw [hrow]
      simp [decodeRow, canPack_zero hc]
    · omega
  · have hv := canPack_pos hb hc
    have hlen : (src.take n).length = n := by simp; omega
    have hlt := packVals_lt b (src.take n) hv
    rw [hlen] at hlt
    have hpow : 2 ^ (b * n) ≤ 2 ^ 60 := Nat.pow_le_pow_right (by decide) (by rw [Nat.mul_comm]; exact hnb)
    have e : packWord k n b src = k * 2 ^ 60 + packVals b (src.take n) := by simp [packWord, hb]
    rw [e]
    constructor
    · have hdiv : (k * 2 ^ 60 + packVals b (src.take n)) / 2 ^ 60 = k := by
        have : packVals b (src.take n) < 2 ^ 60 := Nat.lt_of_lt_of_le hlt hpow
        omega
      have hrow : selTable[(k * 2 ^ 60 + packVals b (src.take n)) / 2 ^ 60]? = some (n, b) := by
        rw [hdiv]; exact hk
      unfold decodeWord
      rw [hrow]
      simp only [decodeRow, hb, if_false]
      have e2 : k * 2 ^ 60 + packVals b (src.take n)
          = packVals b (src.take n) + 2 ^ (b * n) * (2 ^ (60 - b * n) * k) := by
        rw [← Nat.mul_assoc, ← Nat.pow_add]
        have : b * n + (60 - b * n) = 60 := by rw [Nat.mul_comm] ; omega
        rw [this]; omega
      rw [e2]
      have := unpack_pack b (src.take n) (2 ^ (60 - b * n) * k) hv
      rw [hlen] at this
      exact congrArg some this
    · have : packVals b (src.take n) < 2 ^ 60 := Nat.lt_of_lt_of_le hlt hpow
      omega

theorem encodeAllAux_roundtrip : ∀ (fuel : Nat) (src : List Nat), src.length ≤ fuel →
    (∀ v ∈ src, v < 2 ^ 60) →
    ∃ ws, encodeAllAux fuel src = some ws ∧ decodeAll ws = some src ∧ (∀ w ∈ ws, w < 2 ^ 64)
      ∧ ws.length ≤ src.length ∧ (src ≠ [] → ws ≠ [])
  | 0, src, hl, _ => by
    have : src = [] := List.eq_nil_of_length_eq_zero (by omega)
    subst this
    exact ⟨[], by simp [encodeAllAux], by simp [decodeAll], by simp, by simp, by simp⟩
  | fuel + 1, src, hl, hv => by
    unfold encodeAllAux
    by_cases hs : src = []
    · subst hs
      exact ⟨[], by simp, by simp [decodeAll], by simp, by simp, by simp⟩
    · simp only [hs, if_false]
      obtain ⟨v, vs, rfl⟩ := List.exists_cons_of_ne_nil hs
      have hsome := findSel_some_of_mem (v :: vs) 1 60
        (canPack_one_sixty v vs (hv v (by simp))) selTable 0 table_has_1_60
      obtain ⟨⟨k, n, b⟩, hf⟩ := Option.isSome_iff_exists.mp hsome
      obtain ⟨_, hk, hc⟩ := findSel_spec _ _ _ _ _ _ hf
      simp only [Nat.sub_zero] at hk
      have hmem : (n, b) ∈ selTable := List.mem_of_getElem? hk
      obtain ⟨hn1, _⟩ := table_rows_ok (n, b) hmem
      simp only at hn1
      have hn0 : n ≠ 0 := by omega
      have hlen := canPack_len hc
      rw [hf]
      simp only [hn0, if_false]
      have ih := encodeAllAux_roundtrip fuel ((v :: vs).drop n)
        (by simp only [List.length_drop]; simp only [List.length_cons] at hl hlen ⊢; omega)
        (fun x hx => hv x (List.mem_of_mem_drop hx))
      obtain ⟨ws, h1, h2, h3, h4, _⟩ := ih
      obtain ⟨hd, hw⟩ := decodeWord_packWord (v :: vs) k n b hk hc
      refine ⟨packWord k n b (v :: vs) :: ws, by simp [h1], ?_, ?_, ?_, by simp⟩
      · simp [decodeAll, hd, h2]
      · intro w hwm
        rcases List.mem_cons.mp hwm with h | h
        · rw [h]; exact hw
        · exact h3 w h
      · simp only [List.length_cons, List.length_drop] at h4 hlen ⊢; omega

end OG.C07
