/-
C07 — pre-aggregation (column statistics) blocks of a chunk meta
(engine/immutable/pre_aggregation.go; lib/codec `AppendInt64WithScale / DecodeInt64WithScale`).

An integer / float block has three forms told apart by their *length alone*:

  * 16 bytes            — one row: the value and its time (`count == 1`);
  * fewer than 48 bytes — the variable-length form (only in the self-compressing chunk-meta mode):
                          varints of min / max / sum, uvarint count, min time and max-min time each
                          with a decimal scale; a variable-length block that happens to be 16 bytes
                          long gets a padding zero;
  * 48 bytes            — six raw int64 / float64.

The three length tests — `PreAggOnlyOneRow`, "keep the variable-length form" in `marshal`, "read
the variable-length form" in `unmarshal` — are the regenerated definitions of
`OG/Generated/C07.lean`.  Statistics are mathematical integers in int64 range (float values: bit
patterns); `none` = error return or panic.
-/
import OG.C07.MetaCodec
import OG.C07.FloatFrame

namespace OG.C07
open OG.Gen.C07

structure IntStats where
  min : Int
  max : Int
  minT : Int
  maxT : Int
  sum : Int
  count : Int
deriving DecidableEq, Repr

structure FloatStats where
  minV : W
  maxV : W
  minT : Int
  maxT : Int
  sumV : W
  count : Int
deriving DecidableEq, Repr

structure BoolStats where
  count : Int
  minT : Int
  maxT : Int
  minV : Int      -- int8
  maxV : Int
deriving DecidableEq, Repr

/-- `IntegerPreAgg.size()` = `FloatPreAgg.size()` (reported by the implementation on every run). -/
def preAggFixedSize : Nat := 48
def boolPreAggSize : Nat := 26

def ofI (x : Int) : W := BitVec.ofInt 64 x

/-- `numberenc.MarshalInt64Append` of an int64 value. -/
def i64I (x : Int) : Bytes := i64 (ofI x)

def readI64I (bs : Bytes) : Option (Int × Bytes) :=
  match readI64 bs with
  | none => none
  | some (w, r) => some (w.toInt, r)

/-- `binary.AppendVarint`: zig-zag, then uvarint. -/
def putVarint (x : Int) : Bytes := putUvarint (zz (ofI x)).toNat

/-- `binary.Varint` with the rest of the buffer. -/
def readVarint (bs : Bytes) : Option (Int × Bytes) :=
  match readUvarint bs with
  | none => none
  | some (u, r) => some ((unzz (BitVec.ofNat 64 u)).toInt, r)

/-- `codec.AppendInt64WithScale` -/
def putScaled1 (v : Int) : Bytes :=
  UInt8.ofNat (codecScaleOf v) :: putUvarint (u64 (v.tdiv (codecScaleAt (codecScaleOf v))))

/-- `codec.DecodeInt64WithScale` -/
def readScaled1 (bs : Bytes) : Option (Int × Bytes) :=
  match bs with
  | [] => none
  | idx :: r =>
    if idx.toNat > codecScales.length then none
    else
      match readUvarint r with
      | none => none
      | some (u, r') =>
        match codecScales[idx.toNat]? with
        | none => none            -- idx = len(scales): index out of range
        | some s => some (wrap64 (wrap64 (u : Int) * ((s : Nat) : Int)), r')

/-- `DecodeAggTimes` -/
def readAggTimes (bs : Bytes) : Option (Int × Int × Bytes) :=
  match readScaled1 bs with
  | none => none
  | some (minT, r) =>
    match readScaled1 r with
    | none => none
    | some (dur, r') => some (minT, wrap64 (minT + dur), r')

/-! ### integer -/

/-- `IntegerPreAgg.VLCEncode` -/
def intVLC (s : IntStats) : Bytes :=
  putVarint s.min ++ (putVarint s.max ++ (putVarint s.sum ++ (putUvarint (u64 s.count)
    ++ (putScaled1 s.minT ++ putScaled1 (wrap64 (s.maxT - s.minT))))))

def intRaw (s : IntStats) : Bytes :=
  i64I s.min ++ (i64I s.max ++ (i64I s.minT ++ (i64I s.maxT ++ (i64I s.sum ++ i64I s.count))))

/-- `IntegerPreAgg.marshal`; `self` = `IsChunkMetaCompressSelf()`. -/
def marshalIntPreAgg (self : Bool) (s : IntStats) : Bytes :=
  if s.count = 1 then i64I s.min ++ i64I s.minT
  else if self then
    if preAggOnlyOneRow (intVLC s).length then intVLC s ++ [0]
    else if integerPreAggKeepVLC (intVLC s).length 0 preAggFixedSize then intVLC s
    else intRaw s
  else intRaw s

/-- `IntegerPreAgg.VLCDecode` -/
def intVLCDecode (src : Bytes) : Option (IntStats × Bytes) :=
  match readVarint src with
  | none => none
  | some (mn, r0) =>
    match readVarint r0 with
    | none => none
    | some (mx, r1) =>
      match readVarint r1 with
      | none => none
      | some (sm, r2) =>
        match readUvarint r2 with
        | none => none
        | some (cnt, r3) =>
          match readAggTimes r3 with
          | none => none
          | some (minT, maxT, r4) => some (⟨mn, mx, minT, maxT, sm, wrap64 (cnt : Int)⟩, r4)

def intRawDecode (src : Bytes) : Option (IntStats × Bytes) :=
  match readN readI64I 6 src with
  | some ([a, b, c, d, e, f], r) => some (⟨a, b, c, d, e, f⟩, r)
  | _ => none

/-- `IntegerPreAgg.unmarshal` -/
def unmarshalIntPreAgg (src : Bytes) : Option (IntStats × Bytes) :=
  if preAggOnlyOneRow src.length then
    match readN readI64I 2 src with
    | some ([v, t], r) => some (⟨v, v, t, t, v, 1⟩, r)
    | _ => none
  else if integerPreAggReadVLC src.length preAggFixedSize then intVLCDecode src
  else intRawDecode src

/-! ### float -/

def f64 (x : W) : Bytes := be 8 x.toNat

def readF64 (bs : Bytes) : Option (W × Bytes) :=
  match readBE 8 bs with
  | none => none
  | some (n, r) => some (BitVec.ofNat 64 n, r)

/-- `FloatPreAgg.VLCEncode`: min, max and sum are dropped when min and max compare equal to zero. -/
def floatVLC (s : FloatStats) : Bytes :=
  (if isZeroF s.maxV && isZeroF s.minV then [0] else 1 :: (f64 s.minV ++ (f64 s.maxV ++ f64 s.sumV)))
    ++ (putUvarint (u64 s.count) ++ (putScaled1 s.minT ++ putScaled1 (wrap64 (s.maxT - s.minT))))

def floatRaw (s : FloatStats) : Bytes :=
  f64 s.minV ++ (f64 s.maxV ++ (i64I s.minT ++ (i64I s.maxT ++ (f64 s.sumV ++ i64I s.count))))

/-- `FloatPreAgg.marshal` -/
def marshalFloatPreAgg (self : Bool) (s : FloatStats) : Bytes :=
  if s.count = 1 then f64 s.minV ++ i64I s.minT
  else if self then
    if preAggOnlyOneRow (floatVLC s).length then floatVLC s ++ [0]
    else if floatPreAggKeepVLC (floatVLC s).length 0 preAggFixedSize then floatVLC s
    else floatRaw s
  else floatRaw s

def floatVLCTail (mn mx sm : W) (r : Bytes) : Option (FloatStats × Bytes) :=
  match readUvarint r with
  | none => none
  | some (cnt, r1) =>
    match readAggTimes r1 with
    | none => none
    | some (minT, maxT, r2) => some (⟨mn, mx, minT, maxT, sm, wrap64 (cnt : Int)⟩, r2)

/-- `FloatPreAgg.VLCDecode` -/
def floatVLCDecode (src : Bytes) : Option (FloatStats × Bytes) :=
  match src with
  | [] => none
  | flag :: r =>
    if flag = 0 then floatVLCTail 0#64 0#64 0#64 r
    else
      match readN readF64 3 r with
      | some ([mn, mx, sm], r1) => floatVLCTail mn mx sm r1
      | _ => none

def floatRawDecode (src : Bytes) : Option (FloatStats × Bytes) :=
  match readN readF64 2 src with
  | some ([mn, mx], r0) =>
    match readN readI64I 2 r0 with
    | some ([a, b], r1) =>
      match readF64 r1 with
      | none => none
      | some (sm, r2) =>
        match readI64I r2 with
        | none => none
        | some (c, r3) => some (⟨mn, mx, a, b, sm, c⟩, r3)
    | _ => none
  | _ => none

/-- `FloatPreAgg.unmarshal` -/
def unmarshalFloatPreAgg (src : Bytes) : Option (FloatStats × Bytes) :=
  if preAggOnlyOneRow src.length then
    match readF64 src with
    | none => none
    | some (v, r) =>
      match readI64I r with
      | none => none
      | some (t, r') => some (⟨v, v, t, t, v, 1⟩, r')
  else if floatPreAggReadVLC src.length preAggFixedSize then floatVLCDecode src
  else floatRawDecode src

/-! ### boolean, string, time -/

def i8 (v : Int) : UInt8 := UInt8.ofNat (v % 256).toNat
def ofI8 (b : UInt8) : Int := if b.toNat < 128 then b.toNat else (b.toNat : Int) - 256

/-- `BooleanPreAgg.marshal` -/
def marshalBoolPreAgg (s : BoolStats) : Bytes :=
  i64I s.count ++ (i64I s.minT ++ (i64I s.maxT ++ [i8 s.minV, i8 s.maxV]))

def unmarshalBoolPreAgg (src : Bytes) : Option (BoolStats × Bytes) :=
  if src.length < boolPreAggSize then none
  else
    match readN readI64I 3 src with
    | some ([c, a, b], mn :: mx :: r) => some (⟨c, a, b, ofI8 mn, ofI8 mx⟩, r)
    | _ => none

/-- `StringPreAgg.marshal / unmarshal` -/
def marshalStringPreAgg (count : Int) : Bytes := i64I count
def unmarshalStringPreAgg (src : Bytes) : Option (Int × Bytes) :=
  if src.length < 8 then none else readI64I src

/-- `TimePreAgg.marshal / unmarshal` (a uint32 count) -/
def marshalTimePreAgg (count : Nat) : Bytes := be 4 count
def unmarshalTimePreAgg (src : Bytes) : Option (Nat × Bytes) :=
  if src.length < 4 then none else readBE 4 src

end OG.C07
