/-
C07 — helper lemmas for the float frames: RLE blocks, same-value frame, distinct counting.
-/
import OG.C07.FloatFrame
import OG.C07.LemmasInt

namespace OG.C07
open OG.Gen.C07

theorem rleLimit_val : rleBlockLimit = 16384 := by rfl

/-- decoding one zero block. -/
theorem rleDecode_zero (fuel n : Nat) (rest : Bytes) (hn : n ≤ 16384) :
    rleDecode (fuel + 1) (be 2 (n + 2 ^ 15) ++ rest)
      = (rleDecode fuel rest).map (List.replicate n 0#64 ++ ·) := by
  conv => lhs; unfold rleDecode
  have h1 : ¬ (((be 2 (n + 2 ^ 15) ++ rest).take 2).length < 2) := by
    rw [take_length_lt_iff]; simp
  have h2 : (be 2 (n + 2 ^ 15) ++ rest).take 2 = be 2 (n + 2 ^ 15) := take_app _ _ _ (by simp)
  have h3 : (be 2 (n + 2 ^ 15) ++ rest).drop 2 = rest := drop_app _ _ _ (by simp)
  have h4 : unbe (be 2 (n + 2 ^ 15)) = n + 2 ^ 15 := by
    rw [unbe_be]; exact Nat.mod_eq_of_lt (by omega)
  have h5 : (n + 2 ^ 15) / 2 ^ 15 = 1 := by omega
  simp only [h1, if_false, h2, h3, h4, h5, if_true, Nat.add_sub_cancel, be_length, Nat.lt_irrefl]

/-- decoding one value block. -/
theorem rleDecode_val (fuel n : Nat) (cur : W) (rest : Bytes) (hn : n ≤ 16384) :
    rleDecode (fuel + 1) ((be 2 n ++ le 8 cur.toNat) ++ rest)
      = (rleDecode fuel rest).map (List.replicate n cur ++ ·) := by
  conv => lhs; unfold rleDecode
  have hl : (be 2 n ++ le 8 cur.toNat).length = 10 := by simp
  have e : (be 2 n ++ le 8 cur.toNat) ++ rest = be 2 n ++ (le 8 cur.toNat ++ rest) := by simp
  have h1 : ¬ ((((be 2 n ++ le 8 cur.toNat) ++ rest).take 2).length < 2) := by
    rw [take_length_lt_iff]; simp
  have h2 : ((be 2 n ++ le 8 cur.toNat) ++ rest).take 2 = be 2 n := by
    rw [e]; exact take_app _ _ _ (by simp)
  have h3 : ((be 2 n ++ le 8 cur.toNat) ++ rest).drop 2 = le 8 cur.toNat ++ rest := by
    rw [e]; exact drop_app _ _ _ (by simp)
  have h4 : unbe (be 2 n) = n := by rw [unbe_be]; exact Nat.mod_eq_of_lt (by omega)
  have h5 : ¬ (n / 2 ^ 15 = 1) := by omega
  have h6 : ¬ ((((be 2 n ++ le 8 cur.toNat) ++ rest).take 10).length < 10) := by
    rw [take_length_lt_iff]; simp; omega
  have h7 : ((be 2 n ++ le 8 cur.toNat) ++ rest).drop 10 = rest := drop_app _ _ _ hl
  have h8 : (le 8 cur.toNat ++ rest).take 8 = le 8 cur.toNat := take_app _ _ _ (by simp)
  simp only [h1, if_false, h2, h3, h4, h5, h6, h7, h8, unle_le, Nat.mod_eq_of_lt (w_lt cur),
    w_ofNat_toNat, be_length, Nat.lt_irrefl]

theorem rleBlock_length_pos (cur : W) (n : Nat) : 2 ≤ (rleBlock cur n).length := by
  unfold rleBlock; split <;> simp

theorem rleDecode_block (fuel n : Nat) (cur : W) (rest : Bytes) (hn : n ≤ 16384) :
    rleDecode (fuel + 1) (rleBlock cur n ++ rest)
      = (rleDecode fuel rest).map (List.replicate n cur ++ ·) := by
  unfold rleBlock
  by_cases hc : cur = 0#64
  · subst hc; simp only [if_true]; exact rleDecode_zero fuel n rest hn
  · simp only [hc, if_false]; exact rleDecode_val fuel n cur rest hn

theorem rleDecode_nil : ∀ fuel, rleDecode fuel [] = some []
  | 0 => rfl
  | fuel + 1 => by simp [rleDecode]

/-- the run loop: decoding what `rleEnc` wrote gives the open run followed by the values. -/
theorem rleDecode_rleEnc : ∀ (vs : List W) (cur : W) (n fuel : Nat), 1 ≤ n → n ≤ 16384 →
    (rleEnc vs cur n).length ≤ fuel →
    rleDecode fuel (rleEnc vs cur n) = some (List.replicate n cur ++ vs)
  | [], cur, n, fuel, _, h2, hf => by
    simp only [rleEnc] at hf ⊢
    have := rleBlock_length_pos cur n
    obtain ⟨f, rfl⟩ : ∃ f, fuel = f + 1 := ⟨fuel - 1, by omega⟩
    have := rleDecode_block f n cur [] h2
    rw [List.append_nil] at this
    rw [this, rleDecode_nil]; simp
  | v :: vs, cur, n, fuel, h1, h2, hf => by
    unfold rleEnc at hf ⊢
    by_cases hc : v = cur ∧ n < rleBlockLimit
    · simp only [hc, and_self, if_true] at hf ⊢
      have hlim := rleLimit_val
      rw [rleDecode_rleEnc vs cur (n + 1) fuel (by omega) (by omega) hf]
      obtain ⟨rfl, _⟩ := hc
      simp [List.replicate_succ', List.append_assoc]
    · simp only [hc, if_false] at hf ⊢
      have := rleBlock_length_pos cur n
      obtain ⟨f, rfl⟩ : ∃ f, fuel = f + 1 := ⟨fuel - 1, by simp at hf; omega⟩
      rw [rleDecode_block f n cur _ h2,
        rleDecode_rleEnc vs v 1 f (by omega) (by omega) (by simp at hf; omega)]
      simp

theorem rle_roundtrip' (vs : List W) : rleDecode (rleEncode vs).length (rleEncode vs) = some vs := by
  cases vs with
  | nil => simp [rleEncode, rleDecode]
  | cons v vs =>
    simp only [rleEncode]
    rw [rleDecode_rleEnc vs v 1 _ (by omega) (by omega) (Nat.le_refl _)]
    simp

/-! ### same-value frame -/

theorem countDistinctFrom_zero : ∀ (vs : List W) (p : W), countDistinctFrom p vs = 0 → ∀ x ∈ vs, x = p
  | [], _, _ => by simp
  | v :: vs, p, h => by
    unfold countDistinctFrom at h
    by_cases hv : v = p
    · subst hv
      simp at h
      intro x hx
      rcases List.mem_cons.mp hx with rfl | hx
      · rfl
      · exact countDistinctFrom_zero vs v h x hx
    · have : (v != p) = true := by simpa using hv
      simp [this] at h

theorem same_roundtrip (v : W) (vs : List W) (hall : ∀ x ∈ vs, x = v) (hlen : vs.length + 1 ≤ 65535) :
    sameDecode (sameEncode (v :: vs)) = some (v :: vs) := by
  have hrep : v :: vs = List.replicate (vs.length + 1) v := by
    rw [List.replicate_succ]
    congr 1
    exact List.eq_replicate_iff.mpr ⟨rfl, hall⟩
  unfold sameEncode sameDecode
  by_cases hz : v = 0#64
  · subst hz
    simp only [if_true, List.append_nil]
    have h1 : ¬ (((be 2 (vs.length + 1)).take 2).length < 2) := by rw [take_length_lt_iff]; simp
    have h2 : (be 2 (vs.length + 1)).take 2 = be 2 (vs.length + 1) := by
      exact List.take_of_length_le (by simp)
    have h4 : unbe (be 2 (vs.length + 1)) = vs.length + 1 := by
      rw [unbe_be]; exact Nat.mod_eq_of_lt (by omega)
    simp only [h1, if_false, h2, h4, be_length, if_true, Nat.lt_irrefl]
    rw [← hrep]
  · simp only [hz, if_false]
    have h1 : ¬ (((be 2 (vs.length + 1) ++ le 8 v.toNat).take 2).length < 2) := by
      rw [take_length_lt_iff]; simp
    have h2 : (be 2 (vs.length + 1) ++ le 8 v.toNat).take 2 = be 2 (vs.length + 1) :=
      take_app _ _ _ (by simp)
    have h3 : (be 2 (vs.length + 1) ++ le 8 v.toNat).drop 2 = le 8 v.toNat := drop_app _ _ _ (by simp)
    have h4 : unbe (be 2 (vs.length + 1)) = vs.length + 1 := by
      rw [unbe_be]; exact Nat.mod_eq_of_lt (by omega)
    have h5 : (be 2 (vs.length + 1) ++ le 8 v.toNat).length = 10 := by simp
    have h6 : (le 8 v.toNat).take 8 = le 8 v.toNat := List.take_of_length_le (by simp)
    simp only [h1, if_false, h2, h3, h4, h5, h6, unle_le, Nat.mod_eq_of_lt (w_lt v), w_ofNat_toNat]
    simp only [show ¬ ((10 : Nat) = 2) by omega, show ¬ ((10 : Nat) < 10) by omega, if_false,
      be_length, Nat.lt_irrefl]
    rw [← hrep]

end OG.C07
