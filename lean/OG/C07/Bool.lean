/-
C07 — boolean blocks: `encoding.Boolean.Encoding / Decoding` (lib/encoding/bool.go) over
`go-bitstream`: a mode byte, a big-endian uint32 count, then the values packed most
significant bit first, the last byte padded with zero bits.  The decoder reads `count` bits
and fails (io.EOF from the bit reader) when the bytes run out.
-/
import OG.C07.IntBlock

namespace OG.C07
open OG.Gen.C07

def bit (b : Bool) : Nat := if b then 1 else 0

/-- `BitWriter.WriteBit` ×8: first value in bit 7. -/
def byte8 (b0 b1 b2 b3 b4 b5 b6 b7 : Bool) : UInt8 :=
  UInt8.ofNat (128 * bit b0 + 64 * bit b1 + 32 * bit b2 + 16 * bit b3 + 8 * bit b4 + 4 * bit b5
    + 2 * bit b6 + bit b7)

/-- bytes written by the `WriteBit` loop followed by `Flush(Zero)`. -/
def packBits : List Bool → Bytes
  | b0 :: b1 :: b2 :: b3 :: b4 :: b5 :: b6 :: b7 :: rest => byte8 b0 b1 b2 b3 b4 b5 b6 b7 :: packBits rest
  | [] => []
  | [b0] => [byte8 b0 false false false false false false false]
  | [b0, b1] => [byte8 b0 b1 false false false false false false]
  | [b0, b1, b2] => [byte8 b0 b1 b2 false false false false false]
  | [b0, b1, b2, b3] => [byte8 b0 b1 b2 b3 false false false false]
  | [b0, b1, b2, b3, b4] => [byte8 b0 b1 b2 b3 b4 false false false]
  | [b0, b1, b2, b3, b4, b5] => [byte8 b0 b1 b2 b3 b4 b5 false false]
  | [b0, b1, b2, b3, b4, b5, b6] => [byte8 b0 b1 b2 b3 b4 b5 b6 false]

/-- `ReadBit` ×8 on one byte: `(b & 0x80) != 0`, then shift left. -/
def unbyte8 (b : UInt8) : List Bool :=
  let n := b.toNat
  [n / 128 % 2 == 1, n / 64 % 2 == 1, n / 32 % 2 == 1, n / 16 % 2 == 1, n / 8 % 2 == 1,
   n / 4 % 2 == 1, n / 2 % 2 == 1, n % 2 == 1]

def unpackBits (bs : Bytes) : List Bool := bs.flatMap unbyte8

/-- `Boolean.Encoding`: the bytes appended to `out`. -/
def encodeBool (vs : List Bool) : Bytes :=
  modeByte boolCompressedBitpack :: (be 4 vs.length ++ packBits vs)

def decodeBoolBody (ty : Nat) (inp : Bytes) : Option (List Bool) :=
  match readBE 4 inp with
  | none => none
  | some (count, body) =>
    if ty ≠ boolCompressedBitpack then none
    else
      -- reading bit `i` needs byte `i / 8`
      if (body.take ((count + 7) / 8)).length < (count + 7) / 8 then none
      else some ((unpackBits (body.take ((count + 7) / 8))).take count)

/-- `Boolean.Decoding` (as called by `DecodeBooleanBlock`, which returns nothing for an empty
block); `none` = error return or panic (a block shorter than its 5-byte header). -/
def decodeBool : Bytes → Option (List Bool)
  | [] => some []
  | t :: inp => decodeBoolBody (t.toNat / 16) inp

end OG.C07
