/-
C07 — helper lemmas for boolean bit packing.
-/
import OG.C07.Bool
import OG.C07.LemmasInt

namespace OG.C07
open OG.Gen.C07

theorem unbyte8_byte8 (b0 b1 b2 b3 b4 b5 b6 b7 : Bool) :
    unbyte8 (byte8 b0 b1 b2 b3 b4 b5 b6 b7) = [b0, b1, b2, b3, b4, b5, b6, b7] := by
  cases b0 <;> cases b1 <;> cases b2 <;> cases b3 <;> cases b4 <;> cases b5 <;> cases b6 <;>
    cases b7 <;> rfl

theorem packBits_length : ∀ (n : Nat) (vs : List Bool), vs.length ≤ n →
    (packBits vs).length = (vs.length + 7) / 8
  | _, [], _ => rfl
  | _, [_], _ => by simp [packBits]
  | _, [_, _], _ => by simp [packBits]
  | _, [_, _, _], _ => by simp [packBits]
  | _, [_, _, _, _], _ => by simp [packBits]
  | _, [_, _, _, _, _], _ => by simp [packBits]
  | _, [_, _, _, _, _, _], _ => by simp [packBits]
  | _, [_, _, _, _, _, _, _], _ => by simp [packBits]
  | 0, _ :: _ :: _ :: _ :: _ :: _ :: _ :: _ :: _, h => by simp at h
  | n + 1, _ :: _ :: _ :: _ :: _ :: _ :: _ :: _ :: rest, h => by
    simp only [packBits, List.length_cons]
    rw [packBits_length n rest (by simp at h; omega)]
    omega

/-- unpacking what was packed gives the values back, followed by the zero padding. -/
theorem unpack_pack_take : ∀ (n : Nat) (vs : List Bool), vs.length ≤ n →
    (unpackBits (packBits vs)).take vs.length = vs
  | _, [], _ => rfl
  | _, [b0], _ => by simp [packBits, unpackBits, unbyte8_byte8]
  | _, [b0, b1], _ => by simp [packBits, unpackBits, unbyte8_byte8]
  | _, [b0, b1, b2], _ => by simp [packBits, unpackBits, unbyte8_byte8]
  | _, [b0, b1, b2, b3], _ => by simp [packBits, unpackBits, unbyte8_byte8]
  | _, [b0, b1, b2, b3, b4], _ => by simp [packBits, unpackBits, unbyte8_byte8]
  | _, [b0, b1, b2, b3, b4, b5], _ => by simp [packBits, unpackBits, unbyte8_byte8]
  | _, [b0, b1, b2, b3, b4, b5, b6], _ => by simp [packBits, unpackBits, unbyte8_byte8]
  | 0, _ :: _ :: _ :: _ :: _ :: _ :: _ :: _ :: _, h => by simp at h
  | n + 1, b0 :: b1 :: b2 :: b3 :: b4 :: b5 :: b6 :: b7 :: rest, h => by
    have ih := unpack_pack_take n rest (by simp at h; omega)
    simp only [packBits, unpackBits, List.flatMap_cons, unbyte8_byte8, List.length_cons]
    simp only [unpackBits] at ih
    simp [ih]

end OG.C07
