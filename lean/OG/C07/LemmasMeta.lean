/-
C07 — helper lemmas for the metadata codecs (`MetaCodec.lean`).
-/
import OG.C07.MetaCodec
import OG.C07.LemmasInt

namespace OG.C07
open OG.Gen.C07

/-! ### shared readers -/

theorem readI64_i64 (x : W) (r : Bytes) : readI64 (i64 x ++ r) = some (x, r) := by
  unfold readI64 i64
  rw [readBE_be_lt _ (w_lt _)]
  simp only [w_ofNat_toNat, marshalZz_inv]

@[simp] theorem i64_length (x : W) : (i64 x).length = 8 := by simp [i64]

/-- reading back a list written item by item. -/
theorem readN_flatMap {α β : Type} (f : Bytes → Option (β × Bytes)) (g : α → Bytes) (nm : α → β) :
    ∀ (l : List α) (rest : Bytes), (∀ a ∈ l, ∀ r, f (g a ++ r) = some (nm a, r)) →
      readN f l.length (l.flatMap g ++ rest) = some (l.map nm, rest)
  | [], rest, _ => by simp [readN]
  | a :: l, rest, h => by
    have ih := readN_flatMap f g nm l rest (fun b hb => h b (by simp [hb]))
    simp only [List.length_cons, readN, List.flatMap_cons, List.append_assoc, h a (by simp), ih,
      List.map_cons]

theorem readUvarint_put (x : Nat) (rest : Bytes) (hx : x < 2 ^ 64) :
    readUvarint (putUvarint x ++ rest) = some (x, rest) := by
  unfold readUvarint
  rw [uvarint_put x rest hx]
  simp

/-! ### scaled int64 lists -/

theorem codecScales_val : codecScales = [1, 1000, 1000000, 1000000000] := by rfl

theorem codecScaleOf_spec (v : Int) :
    codecScaleOf v ≤ 3 ∧ codecScaleAt (codecScaleOf v) ∣ v := by
  unfold codecScaleOf
  simp only [codecScales_val, List.length_cons, List.length_nil, Nat.zero_add, Nat.add_one_sub_one]
  have h1 : v.tmod 1 = 0 := Int.tmod_one v
  simp only [codecScaleDown, codecScaleAt, codecScales_val, List.getElem?_cons_succ, List.getElem?_cons_zero,
    Option.getD_some]
  by_cases a3 : v.tmod ((1000000000 : Nat) : Int) = 0
  · rw [if_pos a3]; exact ⟨by omega, by simpa using Int.dvd_of_tmod_eq_zero a3⟩
  · rw [if_neg a3]
    by_cases a2 : v.tmod ((1000000 : Nat) : Int) = 0
    · rw [if_pos a2]; exact ⟨by omega, by simpa using Int.dvd_of_tmod_eq_zero a2⟩
    · rw [if_neg a2]
      by_cases a1 : v.tmod ((1000 : Nat) : Int) = 0
      · rw [if_pos a1]; exact ⟨by omega, by simpa using Int.dvd_of_tmod_eq_zero a1⟩
      · rw [if_neg a1]
        have : v.tmod ((1 : Nat) : Int) = 0 := by simp
        rw [if_pos this]
        exact ⟨by omega, by simp⟩

/-- the scales are nested: a smaller index divides a larger one. -/
theorem codecScaleAt_nested : ∀ j k : Nat, j ≤ k → k ≤ 3 → codecScaleAt j ∣ codecScaleAt k := by
  intro j k hjk hk
  have : k = 0 ∨ k = 1 ∨ k = 2 ∨ k = 3 := by omega
  have : j = 0 ∨ j = 1 ∨ j = 2 ∨ j = 3 := by omega
  rcases ‹k = 0 ∨ k = 1 ∨ k = 2 ∨ k = 3› with rfl | rfl | rfl | rfl <;>
    rcases ‹j = 0 ∨ j = 1 ∨ j = 2 ∨ j = 3› with rfl | rfl | rfl | rfl <;>
    first | omega | decide

theorem foldl_min_le (f : Int → Nat) : ∀ (ds : List Int) (init : Nat),
    ds.foldl (fun idx d => min idx (f d)) init ≤ init ∧
    ∀ d ∈ ds, ds.foldl (fun idx d => min idx (f d)) init ≤ f d
  | [], init => ⟨Nat.le_refl _, by simp⟩
  | x :: xs, init => by
    obtain ⟨h1, h2⟩ := foldl_min_le f xs (min init (f x))
    simp only [List.foldl_cons]
    refine ⟨by omega, ?_⟩
    intro d hd
    rcases List.mem_cons.mp hd with rfl | hd
    · omega
    · exact h2 d hd

/-- the scale the writer picks divides everything it stores. -/
theorem findScaleIdx_spec (ds : List Int) :
    findScaleIdx ds ≤ 3 ∧ ∀ d ∈ ds, codecScaleAt (findScaleIdx ds) ∣ d := by
  obtain ⟨h1, h2⟩ := foldl_min_le codecScaleOf ds (codecScales.length - 1)
  have h3 : codecScales.length - 1 = 3 := by rfl
  refine ⟨by unfold findScaleIdx; omega, ?_⟩
  intro d hd
  obtain ⟨hk, hdv⟩ := codecScaleOf_spec d
  exact Int.dvd_trans (codecScaleAt_nested _ _ (h2 d hd) hk) hdv

theorem codecScaleAt_cases (k : Nat) (hk : k ≤ 3) :
    codecScaleAt k = 1 ∨ codecScaleAt k = 1000 ∨ codecScaleAt k = 1000000 ∨ codecScaleAt k = 1000000000 := by
  have : k = 0 ∨ k = 1 ∨ k = 2 ∨ k = 3 := by omega
  rcases this with rfl | rfl | rfl | rfl <;> decide

theorem wrap64_range (x : Int) : -(2 ^ 63 : Int) ≤ wrap64 x ∧ wrap64 x < 2 ^ 63 := by
  unfold wrap64; omega

theorem wrap64_id (x : Int) (h : -(2 ^ 63 : Int) ≤ x ∧ x < 2 ^ 63) : wrap64 x = x := by
  unfold wrap64; omega

theorem wrap64_sub_add (v p : Int) (hv : -(2 ^ 63 : Int) ≤ v ∧ v < 2 ^ 63) :
    wrap64 (wrap64 (v - p) + p) = v := by
  unfold wrap64; omega

theorem wrap64_u64 (q : Int) (h : -(2 ^ 63 : Int) ≤ q ∧ q < 2 ^ 63) : wrap64 ((u64 q : Nat) : Int) = q := by
  unfold u64 wrap64
  have : (q % 2 ^ 64).toNat = q % 2 ^ 64 := Int.toNat_of_nonneg (Int.emod_nonneg _ (by decide))
  rw [this]; omega

theorem u64_lt (q : Int) : u64 q < 2 ^ 64 := by
  unfold u64
  have h1 : 0 ≤ q % 2 ^ 64 := Int.emod_nonneg _ (by decide)
  have h2 : q % 2 ^ 64 < 2 ^ 64 := Int.emod_lt_of_pos _ (by decide)
  omega

/-- one stored element: the quotient survives `uint64 → uvarint → int64`, and multiplied by the
scale gives the delta back. -/
theorem scaled_elem (s d : Int) (hs : s = 1 ∨ s = 1000 ∨ s = 1000000 ∨ s = 1000000000)
    (hd : -(2 ^ 63 : Int) ≤ d ∧ d < 2 ^ 63) (hdv : s ∣ d) :
    wrap64 (wrap64 ((u64 (d.tdiv s) : Nat) : Int) * s) = d := by
  obtain ⟨q, rfl⟩ := hdv
  have hq : (s * q).tdiv s = q := by
    rcases hs with rfl | rfl | rfl | rfl <;> exact Int.mul_tdiv_cancel_left _ (by decide)
  rw [hq]
  have hqr : -(2 ^ 63 : Int) ≤ q ∧ q < 2 ^ 63 := by
    rcases hs with rfl | rfl | rfl | rfl <;> omega
  rw [wrap64_u64 q hqr, Int.mul_comm q s]
  exact wrap64_id _ hd

/-- the reader's loop over what the writer's loop stored. -/
theorem decodeScaledGo_enc (s : Int) (hs : s = 1 ∨ s = 1000 ∨ s = 1000000 ∨ s = 1000000000) (rest : Bytes) :
    ∀ (vs : List Int) (p : Int) (po : Option Int),
      (po = none → p = 0) → (∀ q, po = some q → q = p) →
      (∀ v ∈ vs, -(2 ^ 63 : Int) ≤ v ∧ v < 2 ^ 63) →
      (∀ d ∈ wdeltas p vs, s ∣ d) →
      decodeScaledGo s vs.length po
        (((wdeltas p vs).flatMap fun d => putUvarint (u64 (d.tdiv s))) ++ rest) = some (vs, rest)
  | [], _, _, _, _, _, _ => by simp [decodeScaledGo, wdeltas]
  | v :: vs, p, po, h0, h1, hr, hd => by
    have hv := hr v (by simp)
    have hdv : s ∣ wrap64 (v - p) := hd _ (by simp [wdeltas])
    have he := scaled_elem s (wrap64 (v - p)) hs (wrap64_range _) hdv
    have ih := decodeScaledGo_enc s hs rest vs v (some v) (by simp) (by simp)
      (fun x hx => hr x (by simp [hx])) (fun d hd' => hd d (by simp [wdeltas, hd']))
    simp only [wdeltas, List.flatMap_cons, List.append_assoc, List.length_cons, decodeScaledGo,
      readUvarint_put _ _ (u64_lt _), he]
    cases po with
    | none =>
      have hp := h0 rfl
      subst hp
      simp only [Int.sub_zero, wrap64_id v hv, ih]
    | some q =>
      have hq := h1 q rfl
      subst hq
      simp only [wrap64_sub_add v q hv, ih]

/-! ### chunk meta, plain layout -/

theorem unmarshalSeg_marshal (e : SegM) (h : e.size < 2 ^ 32) (r : Bytes) :
    unmarshalSeg (marshalSeg e ++ r) = some (e, r) := by
  have p4 : (256 : Nat) ^ 4 = 2 ^ 32 := by decide
  unfold unmarshalSeg marshalSeg
  rw [if_neg (by simp; omega), List.append_assoc, readI64_i64]
  simp only
  rw [readBE_be_lt _ (by rw [p4]; exact h)]

theorem unmarshalRange_marshal (t : W × W) (r : Bytes) :
    unmarshalRange (marshalRange t ++ r) = some (t, r) := by
  unfold unmarshalRange marshalRange
  rw [if_neg (by simp; omega), List.append_assoc, readI64_i64]
  simp only
  rw [readI64_i64]

/-- an unwritten / empty pre-aggregation block reads as 48 zero bytes. -/
def normPreAgg (b : Bytes) : Bytes := if b = [] then zeroPreAgg else b

theorem unmarshalPreAgg_written (b : Bytes) (h : b.length < 2 ^ 16) (r : Bytes) :
    unmarshalPreAgg (be 2 b.length ++ (b ++ r)) = some (normPreAgg b, r) := by
  have p2 : (256 : Nat) ^ 2 = 2 ^ 16 := by decide
  unfold unmarshalPreAgg normPreAgg
  rw [readBE_be_lt _ (by rw [p2]; exact h)]
  simp only
  by_cases hb : b = []
  · subst hb; simp
  · have : b.length ≠ 0 := fun h0 => hb (List.eq_nil_of_length_eq_zero h0)
    rw [if_neg this, if_neg (by simp), if_neg hb, take_app _ _ _ rfl, drop_app _ _ _ rfl]

def normCol (preAggOn : Bool) (c : ColMetaM) : ColMetaM :=
  { c with preAgg := normPreAgg (writtenPreAgg preAggOn c) }

structure ColWF (segs : Nat) (c : ColMetaM) : Prop where
  name : c.name.length < 2 ^ 16
  preAgg : c.preAgg.length < 2 ^ 16
  entries : c.entries.length = segs
  sizes : ∀ e ∈ c.entries, e.size < 2 ^ 32

theorem writtenPreAgg_length_le (preAggOn : Bool) (c : ColMetaM) :
    (writtenPreAgg preAggOn c).length ≤ c.preAgg.length := by
  unfold writtenPreAgg; split <;> simp

theorem flatMap_marshalSeg_length (es : List SegM) : (es.flatMap marshalSeg).length = es.length * 12 := by
  induction es with
  | nil => rfl
  | cons e es ih => simp [marshalSeg, ih]; omega

theorem unmarshalColPlain_marshal (preAggOn : Bool) (segs : Nat) (hsegs : 0 < segs) (c : ColMetaM)
    (h : ColWF segs c) (r : Bytes) :
    unmarshalColPlain segs (marshalColPlain preAggOn c ++ r) = some (normCol preAggOn c, r) := by
  have p2 : (256 : Nat) ^ 2 = 2 ^ 16 := by decide
  have hw := writtenPreAgg_length_le preAggOn c
  have hlen : (c.entries.flatMap marshalSeg ++ r).length = segs * 12 + r.length := by
    rw [List.length_append, flatMap_marshalSeg_length, h.entries]
  unfold unmarshalColPlain marshalColPlain
  rw [if_neg (by simp), List.append_assoc, readBE_be_lt _ (by rw [p2]; exact h.name)]
  simp only
  rw [if_neg (by
    have hl2 := hlen
    rw [List.length_append] at hl2
    simp only [List.append_assoc, List.length_append, List.length_cons, be_length]; omega),
    List.append_assoc, drop_app _ _ _ rfl]
  simp only [List.cons_append, List.append_assoc]
  rw [unmarshalPreAgg_written _ (by have := h.preAgg; omega)]
  simp only
  rw [if_neg (by rw [hlen, segmentLen]; omega), ← h.entries,
    readN_flatMap unmarshalSeg marshalSeg id c.entries r (fun e he r => unmarshalSeg_marshal e (h.sizes e he) r)]
  simp only [List.map_id, take_app _ _ _ rfl]
  rfl

end OG.C07
