/-
C07 — umbrella: every property theorem and every fact expectation of C07 in one module, so that
`./check C07` builds and audits the property with a single `lake build` / a single audit run
(the shared Lean workspace is locked per invocation; on a busy machine each one queues).
-/
import OG.C07.Props
import OG.C07.Facts
import OG.C07.PropsCol
import OG.C07.FactsCol
import OG.C07.PropsMeta
import OG.C07.FactsMeta
import OG.C07.PropsWire
import OG.C07.FactsWire
import OG.C07.PropsPreAgg
import OG.C07.FactsPreAgg
