/-
C07 — string blocks: `packStringV2` / `unpackString` (lib/encoding/encoding.go) and
`String.Encoding / Decoding` (lib/encoding/string.go) as called by `EncodeStringBlock` /
`DecodeStringBlock`.  The three compressors (snappy, zstd, lz4) are one opaque pair; the frame,
the 85 % fall-back to the uncompressed frame and the length-prefixed packing are modelled.
Input: the strings of the column segment (the harness passes consistent offsets).
The legacy V1 packing (no version marker) is only ever *read*; it is not modelled (`none`).
-/
import OG.C07.IntBlock

namespace OG.C07
open OG.Gen.C07

def stringEncodingV2 : Nat := 2 ^ 32 - 2     -- math.MaxUint32 - 1
def stringEncodingEnd : Nat := 2 ^ 32 - 3

/-- `packStringV2` -/
def packStrings (strs : List Bytes) : Bytes :=
  be 4 stringEncodingV2 ++ (be 4 strs.flatten.length ++ (strs.flatten
    ++ (be 4 strs.length ++ beWords 4 (strs.map (·.length)))))

/-- offsets rebuilt by `unpackStringV2`: `dst[0] = 0; dst[i+1] = dst[i] + len_i` (uint32). -/
def offsetsFrom (acc : Nat) : List Nat → List Nat
  | [] => []
  | l :: ls => ((acc + l) % 2 ^ 32) :: offsetsFrom ((acc + l) % 2 ^ 32) ls

/-- `unpackString` (V2 layout); `none` = error return or panic. -/
def unpackStrings (src : Bytes) : Option (Bytes × List Nat) :=
  match readBE 4 src with
  | none => none
  | some (version, r0) =>
    if version < stringEncodingEnd then none          -- legacy V1 layout: not modelled
    else if version ≠ stringEncodingV2 then none
    else
      match readBE 4 r0 with
      | none => none
      | some (byteLen, r1) =>
        if r1.length < byteLen + 4 then none
        else
          match readBE 4 (r1.drop byteLen) with
          | none => none
          | some (offLen, r3) =>
            if r3.length < offLen then none
            else if offLen = 0 then none              -- dstOffset[0] = 0 on an empty slice
            else
              let lens := unbeWords 4 (offLen - 1) r3
              if lens.length ≠ offLen - 1 then none   -- reads past the end of src
              else some (r1.take byteLen, 0 :: offsetsFrom 0 lens)

def stringRawFrame (src : Bytes) : Bytes :=
  modeByte stringUncompressed :: (be 4 src.length ++ (be 4 src.length ++ src))

/-- `String.Encoding` on the packed bytes; `ty` ∈ {snappy, zstd, lz4}. -/
def encodeStringBytes (ty : Nat) (compress : Bytes → Bytes) (src : Bytes) : Bytes :=
  let enc := compress src
  if ty = stringCompressedLz4 ∧ enc.length = 0 then []      -- `return nil, nil`
  else if ratioLT (enc.length + 9) src.length minCompRetaNum minCompRetaDen then
    modeByte ty :: (be 4 src.length ++ (be 4 enc.length ++ enc))
  else stringRawFrame src

/-- `EncodeStringBlock`. -/
def encodeStrings (ty : Nat) (compress : Bytes → Bytes) (strs : List Bytes) : Bytes :=
  if strs = [] then [] else encodeStringBytes ty compress (packStrings strs)

/-- `String.Decoding`; `none` = error. -/
def decodeStringBytes (decompress : Nat → Bytes → Option Bytes) : Bytes → Option Bytes
  | [] => none
  | t :: inp =>
    if inp.length + 1 < 9 then none
    else
      let ty := t.toNat / 16
      if ty > stringCompressedLz4 then none
      else
        match readBE 4 inp with
        | none => none
        | some (srcLen, r1) =>
          if ty = stringUncompressed ∧ r1.length < srcLen then none
          else
            match readBE 4 r1 with
            | none => none
            | some (compLen, r2) =>
              if r2.length < compLen then none
              else if ty = stringUncompressed then some (r2.take compLen)
              else
                match decompress ty (r2.take compLen) with
                | none => none
                | some out => if out.length ≠ srcLen then none else some out

/-- `DecodeStringBlock`: the concatenated values and the offsets. -/
def decodeStrings (decompress : Nat → Bytes → Option Bytes) (bs : Bytes) : Option (Bytes × List Nat) :=
  if bs = [] then some ([], [])
  else (decodeStringBytes decompress bs).bind unpackStrings

end OG.C07
