/-
C07 — expectations about the regenerated facts of the column-segment framing
(`OG/Generated/C07.lean`, section "column segment framing").  The model (`ColSeg.lean`) *uses*
the regenerated predicate `canEncodeOneRowMode`, `rewriteType`, the `isBlock…` tests, the
`rewriteTypeTo…` tables and the block-type constants, so `PropsCol.lean` is re-proved against
what the source says now; the facts below record what those definitions were when the
hand-written parts of the model (header layout, reader) were transcribed.
-/
import OG.C07.ColSeg

namespace OG.C07.FactsCol
open OG.Gen.C07

theorem block_types_expected :
    (blockFloat64, blockInteger, blockBoolean, blockString) = (3, 1, 5, 4)
    ∧ (fieldTypeFloat, fieldTypeInt, fieldTypeBoolean, fieldTypeString) = (3, 1, 5, 4) := by decide

theorem block_one_expected :
    (blockOneBegin, blockFloat64One, blockIntegerOne, blockBooleanOne, blockStringOne, blockOneEnd)
      = (16, 17, 18, 19, 20, 21) := by rfl
theorem block_full_expected :
    (blockFullBegin, blockFloat64Full, blockIntegerFull, blockBooleanFull, blockStringFull, blockFullEnd)
      = (30, 31, 32, 33, 34, 35) := by rfl
theorem block_empty_expected :
    (blockEmptyBegin, blockFloat64Empty, blockIntegerEmpty, blockBooleanEmpty, blockStringEmpty, blockEmptyEnd)
      = (40, 41, 42, 43, 44, 45) := by rfl

/-- the three marker ranges are disjoint from each other and from the plain types, and every
marker a writer can emit is recognised by exactly the test the reader applies first. -/
theorem block_ranges_expected :
    ∀ t < 256, (isBlockOne t = decide (16 < t ∧ t < 21)) ∧ (isBlockFull t = decide (30 < t ∧ t < 35))
      ∧ (isBlockEmpty t = decide (40 < t ∧ t < 45)) := by decide +kernel

theorem rewrite_tables_expected :
    ∀ t < 256, rewriteTypeToFull t = (if t = 3 then 31 else if t = 1 then 32 else if t = 5 then 33
        else if t = 4 then 34 else t)
      ∧ rewriteTypeToEmpty t = (if t = 3 then 41 else if t = 1 then 42 else if t = 5 then 43
        else if t = 4 then 44 else t) := by decide +kernel

/-- `CanEncodeOneRowMode`: one row, payload of 1..15 bytes (so never a null, never ""). -/
theorem canEncodeOneRowMode_expected (len nil valLen : Nat) :
    canEncodeOneRowMode len nil valLen = (len == 1 && decide (valLen < 16) && decide (valLen > 0)) := by
  rfl

/-- `rewriteType`: no nulls → Full, only nulls → Empty, else unchanged (in this order: a
zero-row column is Full). -/
theorem rewriteType_expected (len nil typ : Nat) :
    rewriteType len nil typ = (if nil == 0 then rewriteTypeToFull typ
      else if nil == len then rewriteTypeToEmpty typ else typ) := by rfl

/-- every column encoder: same test, its own marker, `Val` as payload, its own header type and
block codec. -/
theorem colEncoders_expected : colEncoders = [
  ("ColumnBuilder.encIntegerColumn", "CanEncodeOneRowMode(col)", "encoding.BlockIntegerOne", "col.Val...", "col, encoding.BlockInteger", "encoding.EncodeIntegerBlock(col.Val, buf, coder)"),
  ("ColumnBuilder.encFloatColumn", "CanEncodeOneRowMode(col)", "encoding.BlockFloat64One", "col.Val...", "col, encoding.BlockFloat64", "encoding.EncodeFloatBlock(col.Val, buf, coder)"),
  ("ColumnBuilder.encStringColumn", "CanEncodeOneRowMode(col)", "encoding.BlockStringOne", "col.Val...", "col, encoding.BlockString", "encoding.EncodeStringBlock(col.Val, col.Offset, buf, coder)"),
  ("ColumnBuilder.encBooleanColumn", "CanEncodeOneRowMode(col)", "encoding.BlockBooleanOne", "col.Val...", "col, encoding.BlockBoolean", "encoding.EncodeBooleanBlock(col.Val, buf, coder)"),
  ("ChunkDataBuilder.EncodeTime", "CanEncodeOneRowMode(col)", "encoding.BlockIntegerOne", "col.Val...", "col, encoding.BlockInteger", "encoding.EncodeTimestampBlock(col.Val, buf, coder)")] := by rfl

theorem bitMask_expected : src_bitMask = "[8]byte{1, 2, 4, 8, 16, 32, 64, 128}" := by rfl

theorem fp_colseg_expected :
    [fp_encodeColumnHeader, fp_decodeColumnHeader, fp_cbEncodeColumn, fp_cbEncode, fp_decodeColumnOfOneValue, fp_decodeColumnData, fp_appendTimeColumnData, fp_appendIntegerColumn, fp_appendFloatColumn, fp_appendBooleanColumn, fp_appendStringColumn, fp_subBitmapBytes, fp_cvAppendBitmap, fp_cvAppend, fp_cvFillBitmap, fp_cvRepairBitmap, fp_cvIsNil, fp_cvSplit, fp_cvSliceBitMap, fp_cvSliceValAndOffset, fp_cvValidCount, fp_cvStringValueSafe, fp_cvValue, fp_encodeIntegerBlock, fp_decodeIntegerBlock, fp_encodeFloatBlock, fp_decodeFloatBlock, fp_encodeBooleanBlock, fp_decodeBooleanBlock, fp_encodeTimestampBlock, fp_decodeTimestampBlock] =
    ["dd9280aec95cc3f0", "657f3a50cc79f18d", "1df19d437fe71dc1", "3d8b0a92b4f4f09a", "64d7736546f7edff", "43b89ad078ca4858", "ed0868d2b710a69f", "4e7ccffecef8f9e4", "0d63225df32a6bff", "eca12b2b79c27164", "9385232ef6f14642", "74b0ae5432617921", "db89d61e7b4e320e", "dafb43025007541b", "37a2b3abb9c1f5e1", "5b19b49fd890445d", "27160e35e280c7c0", "e2559d493ec27efa", "b4a8ceef79593a8c", "8d73e475853f4e2c", "66ee6cc069ecd976", "a411d71a5e3414f5", "0e45aa019932119c", "42d499bd6d467524", "ded03d627d973478", "59cf17a37bc8f954", "bebe307546bd23b3", "d5b0a8d5af7fa01d", "18d8de1e83128f4e", "d527455c68f2a390", "f74fe7dd83e876bf"] := by rfl

end OG.C07.FactsCol
