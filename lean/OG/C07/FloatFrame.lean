/-
C07 — float blocks: `compress.Float.adaptiveEncoding / AdaptiveDecoding` (lib/compress/float.go),
`RLE` (lib/compress/compress.go), as called through `encoding.Float.Encoding / Decoding`.

Floats are 64-bit patterns (`BitVec 64`).  The code compares floats in three places; the model
states each comparison on bit patterns with the IEEE rule it needs:
  * `values[i] == 0` in the sampling loop: true for +0 and −0           → `isZeroF`
  * `math.IsNaN(v) || math.IsInf(v, 0)`: exponent field all ones         → `isNaNorInf`
  * distinct counting and the same-value test compare `math.Float64bits` (repaired code; the
    code as it was used float `!=` / `== 0` and lost −0.0)                → plain `==` on `W`
`isInt` / `lessDecimal` (float arithmetic: `f*1000`, `Ceil`, `Floor`) only steer between the two
opaque compressors; they are a parameter (`FloatPreds`), instantiated with Lean's native
`Float` in the driver and universally quantified in the theorems.  snappy is an opaque pair;
the gorilla bit stream (`tsm1.FloatArrayEncodeAll`) is an opaque *partial* encoder: it
rejects NaN and any block whose running sum is NaN.
-/
import OG.C07.IntBlock

namespace OG.C07
open OG.Gen.C07

structure FloatPreds where
  isInt : W → Bool
  lessDecimal : W → Bool

/-- exponent field all ones: NaN or ±Inf. -/
def isNaNorInf (x : W) : Bool := x.toNat / 2 ^ 52 % 2048 == 2047
/-- `v == 0` on float64: +0 or −0. -/
def isZeroF (x : W) : Bool := x.toNat % 2 ^ 63 == 0

/-- `distinctCount`: 1 + number of positions whose bit pattern differs from the previous one. -/
def countDistinctFrom (prev : W) : List W → Nat
  | [] => 0
  | v :: vs => (if v != prev then 1 else 0) + countDistinctFrom v vs

def countDistinct : List W → Nat
  | [] => 1
  | v :: vs => 1 + countDistinctFrom v vs

/-- the sampling loop `for i := 0; i < count && k < count/10; i++`:
returns (k, lessDecimalTotal, intOnly). -/
def sample (P : FloatPreds) (lim : Nat) : List W → Nat → Nat → Bool → Nat × Nat × Bool
  | [], k, lt, io => (k, lt, io)
  | v :: vs, k, lt, io =>
    if k < lim then
      if isZeroF v then sample P lim vs k lt io
      else sample P lim vs (k + 1) (if P.lessDecimal v then lt + 1 else lt) (io && P.isInt v)
    else (k, lt, io)

inductive FMode | null | same | rle | snappy | gorilla
deriving DecidableEq, Repr

/-- `GenerateContext` + the dispatch of `adaptiveEncoding` (before the 90 % fall-back). -/
def floatMode (P : FloatPreds) (vs : List W) : FMode :=
  if vs.length ≤ floatCompressThreshold then .null
  else
    let distinct := countDistinct vs
    if distinct = 1 ∧ vs.length ≤ 65535 then .same
    else if distinct ≤ floatRLECompressThreshold then .rle
    else
      let (k, lt, io) := sample P (vs.length / 10) vs 0 0 true
      let lessDec := decide (k > 0) && decide (100 * lt / k > 90)
      if (!io && lessDec) || vs.any isNaNorInf then .snappy else .gorilla

/-- one RLE block: `n` copies of `cur`. -/
def rleBlock (cur : W) (n : Nat) : Bytes :=
  if cur = 0#64 then be 2 (n + 2 ^ 15) else be 2 n ++ le 8 cur.toNat

/-- `RLE.Encoding`: `cur` is the value of the open run, `n` its length so far. -/
def rleEnc : List W → W → Nat → Bytes
  | [], cur, n => rleBlock cur n
  | v :: vs, cur, n =>
    if v = cur ∧ n < rleBlockLimit then rleEnc vs cur (n + 1)
    else rleBlock cur n ++ rleEnc vs v 1

def rleEncode : List W → Bytes
  | [] => []
  | v :: vs => rleEnc vs v 1

/-- `RLE.Decoding`; `none` = error return. -/
def rleDecode : Nat → Bytes → Option (List W)
  | 0, _ => some []
  | fuel + 1, bs =>
    if (bs.take 2).length < 2 then some []
    else
      let n := unbe (bs.take 2)
      if n / 2 ^ 15 = 1 then
        (rleDecode fuel (bs.drop 2)).map (List.replicate (n - 2 ^ 15) 0#64 ++ ·)
      else if (bs.take 10).length < 10 then none
      else
        (rleDecode fuel (bs.drop 10)).map
          (List.replicate n (BitVec.ofNat 64 (unle ((bs.drop 2).take 8))) ++ ·)

/-- `SameValueEncoding` (repaired: the zero test is on the bit pattern). -/
def sameEncode : List W → Bytes
  | [] => []     -- not reached: same mode needs more than four values
  | v :: vs => be 2 (vs.length + 1) ++ (if v = 0#64 then [] else le 8 v.toNat)

/-- `SameValueDecoding`; `none` = error or panic (fewer than two bytes). -/
def sameDecode (bs : Bytes) : Option (List W) :=
  if (bs.take 2).length < 2 then none
  else
    let size := unbe (bs.take 2)
    if bs.length = 2 then some (List.replicate size 0#64)
    else if bs.length < 10 then none
    else some (List.replicate size (BitVec.ofNat 64 (unle ((bs.drop 2).take 8))))

def nullBytes (vs : List W) : Bytes := modeByte floatCompressedNull :: leWords vs

/-- `Float.Encoding` → `adaptiveEncoding`; `none` = error return (gorilla refused the block). -/
def encodeFloat (P : FloatPreds) (snappy : Bytes → Bytes) (gorilla : List W → Option Bytes)
    (vs : List W) : Option Bytes :=
  if vs = [] then some []
  else
    let fallback := fun (body : Bytes) =>
      if body.length > (8 * vs.length) * 90 / 100 then nullBytes vs else body
    match floatMode P vs with
    | .null => some (nullBytes vs)
    | .same => some (modeByte floatCompressedSame :: sameEncode vs)
    | .rle => some (modeByte floatCompressedRLE :: rleEncode vs)
    | .snappy => some (fallback (modeByte floatCompressedSnappy :: snappy (leWords vs)))
    | .gorilla =>
      match gorilla vs with
      | none => none
      | some g => some (fallback (modeByte floatCompressedGorilla :: g))

/-- `DecodeFloatBlock` → `Float.Decoding` → `AdaptiveDecoding`; `none` = error / panic. The
legacy type 1 (old gorilla files) is not modelled: `none`. -/
def decodeFloat (unsnappy : Bytes → Option Bytes) (ungorilla : Bytes → Option (List W)) :
    Bytes → Option (List W)
  | [] => some []
  | t :: body =>
    let algo := t.toNat / 16
    if algo = floatCompressedNull then some (unleWords body.length body)
    else if algo = floatCompressedGorilla then ungorilla body
    else if algo = floatCompressedSnappy then (unsnappy body).map fun b => unleWords b.length b
    else if algo = floatCompressedSame then sameDecode body
    else if algo = floatCompressedRLE then rleDecode body.length body
    else none

end OG.C07
