/-
C07 — helper lemmas for the column-segment framing (`ColSeg.lean`): least-significant-first
bit packing, `subBitmapBytes`, the header round trip, the reader's view of a decoded column.
-/
import OG.C07.ColSeg
import OG.C07.LemmasInt
import OG.C07.LemmasString

namespace OG.C07
open OG.Gen.C07

/-! ### bits -/

theorem byteBits_lsbByte (b0 b1 b2 b3 b4 b5 b6 b7 : Bool) :
    byteBits (lsbByte b0 b1 b2 b3 b4 b5 b6 b7) = [b0, b1, b2, b3, b4, b5, b6, b7] := by
  cases b0 <;> cases b1 <;> cases b2 <;> cases b3 <;> cases b4 <;> cases b5 <;> cases b6 <;>
    cases b7 <;> rfl

@[simp] theorem byteBits_length (b : UInt8) : (byteBits b).length = 8 := rfl

@[simp] theorem bitsOf_length : ∀ bm : Bytes, (bitsOf bm).length = 8 * bm.length
  | [] => rfl
  | b :: bs => by
    have := bitsOf_length bs
    simp only [bitsOf, List.flatMap_cons, List.length_append, byteBits_length, List.length_cons] at this ⊢
    omega

theorem bitsOf_cons (b : UInt8) (bs : Bytes) : bitsOf (b :: bs) = byteBits b ++ bitsOf bs := by
  simp [bitsOf]

/-- padding added by `packLsb`. -/
def padLen (n : Nat) : Nat := (8 - n % 8) % 8

/-- unpacking what was packed: the bits followed by the zero padding of the last byte. -/
theorem bitsOf_packLsb : ∀ (n : Nat) (l : List Bool), l.length ≤ n →
    bitsOf (packLsb l) = l ++ List.replicate (padLen l.length) false
  | _, [], _ => rfl
  | _, [_], _ => by simp [packLsb, bitsOf, byteBits_lsbByte, padLen]
  | _, [_, _], _ => by simp [packLsb, bitsOf, byteBits_lsbByte, padLen]
  | _, [_, _, _], _ => by simp [packLsb, bitsOf, byteBits_lsbByte, padLen]
  | _, [_, _, _, _], _ => by simp [packLsb, bitsOf, byteBits_lsbByte, padLen]
  | _, [_, _, _, _, _], _ => by simp [packLsb, bitsOf, byteBits_lsbByte, padLen]
  | _, [_, _, _, _, _, _], _ => by simp [packLsb, bitsOf, byteBits_lsbByte, padLen]
  | _, [_, _, _, _, _, _, _], _ => by simp [packLsb, bitsOf, byteBits_lsbByte, padLen]
  | 0, _ :: _ :: _ :: _ :: _ :: _ :: _ :: _ :: _, h => by simp at h
  | n + 1, b0 :: b1 :: b2 :: b3 :: b4 :: b5 :: b6 :: b7 :: rest, h => by
    have ih := bitsOf_packLsb n rest (by simp at h; omega)
    simp only [packLsb, bitsOf_cons, byteBits_lsbByte, ih, List.length_cons, List.cons_append,
      List.nil_append]
    have : padLen (rest.length + 1 + 1 + 1 + 1 + 1 + 1 + 1 + 1) = padLen rest.length := by
      unfold padLen; omega
    rw [this]

theorem packLsb_length : ∀ (n : Nat) (l : List Bool), l.length ≤ n →
    (packLsb l).length = (l.length + 7) / 8
  | _, [], _ => rfl
  | _, [_], _ => by simp [packLsb]
  | _, [_, _], _ => by simp [packLsb]
  | _, [_, _, _], _ => by simp [packLsb]
  | _, [_, _, _, _], _ => by simp [packLsb]
  | _, [_, _, _, _, _], _ => by simp [packLsb]
  | _, [_, _, _, _, _, _], _ => by simp [packLsb]
  | _, [_, _, _, _, _, _, _], _ => by simp [packLsb]
  | 0, _ :: _ :: _ :: _ :: _ :: _ :: _ :: _ :: _, h => by simp at h
  | n + 1, _ :: _ :: _ :: _ :: _ :: _ :: _ :: _ :: rest, h => by
    simp only [packLsb, List.length_cons]
    rw [packLsb_length n rest (by simp at h; omega)]
    omega

/-- the first `k` bytes of a packed bit list pack its first `8k` bits. -/
theorem packLsb_take : ∀ (k : Nat) (l : List Bool), (packLsb l).take k = packLsb (l.take (8 * k))
  | 0, l => by simp [packLsb]
  | k + 1, [] => by simp [packLsb]
  | k + 1, [_] => by simp [packLsb, Nat.mul_add]
  | k + 1, [_, _] => by simp [packLsb, Nat.mul_add]
  | k + 1, [_, _, _] => by simp [packLsb, Nat.mul_add]
  | k + 1, [_, _, _, _] => by simp [packLsb, Nat.mul_add]
  | k + 1, [_, _, _, _, _] => by simp [packLsb, Nat.mul_add]
  | k + 1, [_, _, _, _, _, _] => by simp [packLsb, Nat.mul_add]
  | k + 1, [_, _, _, _, _, _, _] => by simp [packLsb, Nat.mul_add]
  | k + 1, b0 :: b1 :: b2 :: b3 :: b4 :: b5 :: b6 :: b7 :: rest => by
    have ih := packLsb_take k rest
    have e : 8 * (k + 1) = 8 * k + 1 + 1 + 1 + 1 + 1 + 1 + 1 + 1 := by omega
    rw [e]
    simp only [packLsb, List.take_succ_cons, ih]

theorem take_pre_bits {α : Type} (pre bits post : List α) (m : Nat) (h : pre.length + bits.length ≤ m) :
    (pre ++ (bits ++ post)).take m = pre ++ (bits ++ post.take (m - pre.length - bits.length)) := by
  rw [List.take_append, List.take_of_length_le (by omega), List.take_append,
    List.take_of_length_le (by omega)]

theorem drop_take_mid {α : Type} (pre bits post : List α) :
    ((pre ++ (bits ++ post)).drop pre.length).take bits.length = bits := by
  simp

/-- `subBitmapBytes` on a bitmap that holds `bits` at bit offset `|pre| < 8`. -/
theorem sub_packLsb (pre bits post : List Bool) (hpre : pre.length < 8) :
    ∃ post', subBitmapBytes (packLsb (pre ++ (bits ++ post))) pre.length bits.length
        = some (packLsb (pre ++ (bits ++ post')), pre.length)
      ∧ ((bitsOf (packLsb (pre ++ (bits ++ post')))).drop pre.length).take bits.length = bits
      ∧ (packLsb (pre ++ (bits ++ post'))).length ≤ (pre.length + bits.length) / 8 + 1 := by
  unfold subBitmapBytes
  have hl := packLsb_length _ (pre ++ (bits ++ post)) (Nat.le_refl _)
  simp only [List.length_append] at hl
  have h8 : pre.length / 8 = 0 := by omega
  have hm : pre.length % 8 = pre.length := Nat.mod_eq_of_lt hpre
  by_cases hc : (pre.length + bits.length) % 8 ≠ 0
  · refine ⟨post.take (8 * ((pre.length + bits.length) / 8 + 1) - pre.length - bits.length), ?_, ?_, ?_⟩
    · simp only [hc, if_true, ne_eq, not_false_eq_true]
      rw [if_neg (by rw [hl]; omega), h8, hm, List.drop_zero, packLsb_take,
        take_pre_bits _ _ _ _ (by omega)]
    · rw [bitsOf_packLsb _ _ (Nat.le_refl _)]
      simp
    · rw [packLsb_length _ _ (Nat.le_refl _)]
      simp only [List.length_append, List.length_take]
      omega
  · refine ⟨post.take (8 * ((pre.length + bits.length) / 8) - pre.length - bits.length), ?_, ?_, ?_⟩
    · simp only [hc, if_false]
      rw [if_neg (by rw [hl]; omega), h8, hm, List.drop_zero, packLsb_take,
        take_pre_bits _ _ _ _ (by omega)]
    · rw [bitsOf_packLsb _ _ (Nat.le_refl _)]
      simp
    · rw [packLsb_length _ _ (Nat.le_refl _)]
      simp only [List.length_append, List.length_take]
      omega

theorem getElem?_mid {α : Type} (l bits : List α) (o : Nat)
    (h : (l.drop o).take bits.length = bits) (i : Nat) (hi : i < bits.length) :
    l[o + i]? = bits[i]? := by
  have : ((l.drop o).take bits.length)[i]? = bits[i]? := by rw [h]
  rw [List.getElem?_take, if_pos hi, List.getElem?_drop] at this
  exact this

/-- re-aligning the validity bits of a fresh column (`AppendBitmap` after `Init`). -/
theorem appendBitmapFresh_packLsb (pre bits post : List Bool) (hpre : pre.length < 8) :
    appendBitmapFresh (packLsb (pre ++ (bits ++ post))) pre.length bits.length
      = some (packLsb bits) := by
  obtain ⟨post', h1, h2, _⟩ := sub_packLsb pre bits post hpre
  unfold appendBitmapFresh
  rw [h1]
  simp only [h2]
  rw [if_neg]
  rw [bitsOf_packLsb _ _ (Nat.le_refl _)]
  simp

/-! ### header -/

def IsColType (typ : Nat) : Prop :=
  typ = blockFloat64 ∨ typ = blockInteger ∨ typ = blockBoolean ∨ typ = blockString

theorem colType_facts {typ : Nat} (h : IsColType typ) :
    typ < 256 ∧ isBlockOne typ = false ∧ isBlockFull typ = false ∧ isBlockEmpty typ = false
    ∧ rewriteTypeToFull typ ≠ typ ∧ rewriteTypeToFull typ < 256
    ∧ isBlockOne (rewriteTypeToFull typ) = false ∧ isBlockFull (rewriteTypeToFull typ) = true
    ∧ rewriteTypeToEmpty typ ≠ typ ∧ rewriteTypeToEmpty typ < 256
    ∧ isBlockOne (rewriteTypeToEmpty typ) = false ∧ isBlockFull (rewriteTypeToEmpty typ) = false
    ∧ isBlockEmpty (rewriteTypeToEmpty typ) = true := by
  rcases h with h | h | h | h <;> subst h <;> decide

theorem all_true_of_no_false : ∀ (bits : List Bool), (bits.filter (!·)).length = 0 →
    bits = List.replicate bits.length true
  | [], _ => rfl
  | true :: bs, h => by
    have := all_true_of_no_false bs (by simpa using h)
    simp only [List.length_cons, List.replicate_succ]
    rw [← this]
  | false :: bs, h => by simp at h

theorem filter_length_le {α : Type} (p : α → Bool) : ∀ l : List α, (l.filter p).length ≤ l.length
  | [] => by simp
  | x :: xs => by
    have := filter_length_le p xs
    simp only [List.filter_cons]
    split <;> simp <;> omega

theorem all_false_of_all_false : ∀ (bits : List Bool), (bits.filter (!·)).length = bits.length →
    bits = List.replicate bits.length false
  | [], _ => rfl
  | false :: bs, h => by
    have := all_false_of_all_false bs (by simpa using h)
    simp only [List.length_cons, List.replicate_succ]
    rw [← this]
  | true :: bs, h => by
    have := filter_length_le (!·) bs
    simp at h
    omega

/-- what the reader's header step hands on for a segment holding `bits` with `k` nulls. -/
structure HdrOK (bits : List Bool) (k : Nat) (body : Bytes) (h : ColHdr) : Prop where
  rest : h.rest = body
  nil : h.nilCount = k
  fresh : appendBitmapFresh h.bm h.bmOff bits.length = some (packLsb bits)
  sub : ∃ b o, subBitmapBytes h.bm h.bmOff bits.length = some (b, o)
    ∧ ((bitsOf b).drop o).take bits.length = bits

theorem hdrOK_aligned (bits : List Bool) (k : Nat) (body : Bytes) (ls : Option Nat) :
    HdrOK bits k body ⟨body, packLsb bits, 0, k, ls⟩ := by
  have h1 := appendBitmapFresh_packLsb [] bits [] (by simp)
  obtain ⟨post', h2, h3, _⟩ := sub_packLsb [] bits [] (by simp)
  simp only [List.nil_append, List.append_nil, List.length_nil] at h1 h2 h3
  exact ⟨rfl, rfl, h1, _, _, h2, h3⟩

/-- **header round trip**: whatever form `EncodeColumnHeader` picks (all present, all null,
bitmap with bit offset), `DecodeColumnHeader` hands the reader the null count and a bitmap in
which the rows' validity bits are found again. -/
theorem header_roundtrip (typ : Nat) (ht : IsColType typ) (pre bits post : List Bool)
    (hpre : pre.length < 8) (V : Bytes) (offs : List Nat) (hlen : bits.length < 2 ^ 32) :
    ∃ t tl, encodeColumnHeader
        { val := V, offs := offs, bitmap := packLsb (pre ++ (bits ++ post)), bmOff := pre.length,
          len := bits.length, nilCount := (bits.filter (!·)).length } typ = some (t :: tl)
      ∧ isBlockOne t.toNat = false
      ∧ ∀ body, ∃ h, decodeColumnHeader (t :: tl ++ body) typ = some h
          ∧ HdrOK bits (bits.filter (!·)).length body h := by
  obtain ⟨f1, f2, f3, f4, f5, f6, f7, f8, f9, f10, f11, f12, f13⟩ := colType_facts ht
  have p4 : (256 : Nat) ^ 4 = 2 ^ 32 := by decide
  unfold encodeColumnHeader
  by_cases hk0 : (bits.filter (!·)).length = 0
  · -- all present: the `Full` form
    have hb := all_true_of_no_false bits hk0
    have hr : rewriteType bits.length (bits.filter (!·)).length typ = rewriteTypeToFull typ := by
      simp [rewriteType, hk0]
    simp only [hr, ne_eq, f5, not_false_eq_true, if_true]
    refine ⟨_, _, rfl, by rw [u8_toNat_ofNat_lt f6]; exact f7, ?_⟩
    intro body
    refine ⟨⟨body, packLsb (List.replicate bits.length true), 0, 0, some bits.length⟩, ?_, ?_⟩
    · rw [List.cons_append]
      unfold decodeColumnHeader
      simp only [u8_toNat_ofNat_lt f6, f8, if_true]
      rw [readBE_be_lt _ (by rw [p4]; exact hlen)]
    · rw [← hb, hk0]; exact hdrOK_aligned bits 0 body _
  · by_cases hkn : (bits.filter (!·)).length = bits.length
    · -- all null: the `Empty` form
      have hb := all_false_of_all_false bits hkn
      have hr : rewriteType bits.length (bits.filter (!·)).length typ = rewriteTypeToEmpty typ := by
        unfold rewriteType
        rw [if_neg (by simpa using hk0), if_pos (by simpa using hkn)]
      simp only [hr, ne_eq, f9, not_false_eq_true, if_true]
      refine ⟨_, _, rfl, by rw [u8_toNat_ofNat_lt f10]; exact f11, ?_⟩
      intro body
      refine ⟨⟨body, packLsb (List.replicate bits.length false), 0, bits.length, some bits.length⟩, ?_, ?_⟩
      · rw [List.cons_append]
        unfold decodeColumnHeader
        simp only [u8_toNat_ofNat_lt f10, f12, f13, if_true, Bool.false_eq_true, if_false]
        rw [readBE_be_lt _ (by rw [p4]; exact hlen)]
      · rw [← hb, hkn]; exact hdrOK_aligned bits bits.length body _
    · -- mixed: bitmap bytes, bit offset, null count
      have hr : rewriteType bits.length (bits.filter (!·)).length typ = typ := by
        unfold rewriteType
        rw [if_neg (by simpa using hk0), if_neg (by simpa using hkn)]
      obtain ⟨post', h1, h2, h2l⟩ := sub_packLsb pre bits post hpre
      simp only [hr, ne_eq, not_true_eq_false, if_false, h1]
      refine ⟨_, _, rfl, by rw [u8_toNat_ofNat_lt f1]; exact f2, ?_⟩
      intro body
      have hbl : (packLsb (pre ++ (bits ++ post'))).length < 256 ^ 4 := by
        rw [p4]; omega
      have hkl := filter_length_le (!·) bits
      refine ⟨⟨body, packLsb (pre ++ (bits ++ post')), pre.length, (bits.filter (!·)).length, none⟩, ?_, ?_⟩
      · rw [List.cons_append]
        unfold decodeColumnHeader
        simp only [u8_toNat_ofNat_lt f1, f3, f4,
          Bool.false_eq_true, if_false, ne_eq, not_true_eq_false, List.append_assoc]
        rw [readBE_be_lt _ hbl]
        simp only
        rw [if_neg (by simp; omega), if_neg (by simp), drop_app _ _ _ rfl,
          readBE_be_lt _ (by rw [p4]; omega)]
        simp only
        rw [readBE_be_lt _ (by rw [p4]; omega)]
        simp only
        rw [take_app _ _ _ rfl]
      · obtain ⟨post'', h3, h4, _⟩ := sub_packLsb pre bits post' hpre
        exact ⟨rfl, rfl, appendBitmapFresh_packLsb pre bits post' hpre, _, _, h3, h4⟩

/-! ### the reader's view -/

theorem mapM_some {α β : Type} (f : α → Option β) (g : α → β) : ∀ xs : List α,
    (∀ x ∈ xs, f x = some (g x)) → xs.mapM f = some (xs.map g)
  | [], _ => rfl
  | x :: xs, h => by
    have ih := mapM_some f g xs (fun y hy => h y (by simp [hy]))
    simp [List.mapM_cons, h x (by simp), ih]

theorem range_map_getElem? {α : Type} (l : List α) (d : α) :
    (List.range l.length).map (fun i => l[i]?.getD d) = l := by
  apply List.ext_getElem?
  intro i
  by_cases hi : i < l.length
  · simp [hi]
  · simp [hi]

/-- null flags of a column whose bitmap holds `bits` at its bit offset, some row being null. -/
theorem nilFlags_of_sub (c : ColVal) (bits : List Bool) (hl : c.len = bits.length)
    (hn : c.nilCount ≠ 0)
    (hb : ((bitsOf c.bitmap).drop c.bmOff).take bits.length = bits) :
    nilFlags c = some (bits.map (!·)) := by
  unfold nilFlags
  rw [mapM_some (isNilAt c) (fun i => !(bits[i]?.getD false))]
  · congr 1
    rw [hl]
    have := range_map_getElem? bits false
    conv => rhs; rw [← this]
    simp
  · intro i hi
    have hi' : i < bits.length := by simpa [hl] using hi
    have hne : c.bitmap ≠ [] := by
      intro he
      rw [he] at hb
      simp [bitsOf] at hb
      rw [hb] at hi'
      simp at hi'
    unfold isNilAt
    rw [if_neg (by simp [hne]; omega), if_neg hn]
    unfold bitAt
    rw [getElem?_mid _ bits _ hb i hi']
    simp [hi']

theorem nilFlags_no_nil (c : ColVal) (hn : c.nilCount = 0) (hb : c.len = 0 ∨ c.bitmap ≠ []) :
    nilFlags c = some (List.replicate c.len false) := by
  unfold nilFlags
  rw [mapM_some (isNilAt c) (fun _ => false)]
  · congr 1
    apply List.ext_getElem?
    intro i
    by_cases hi : i < c.len <;> simp [hi]
  · intro i hi
    have hi' : i < c.len := by simpa using hi
    unfold isNilAt
    rw [if_neg (by rcases hb with h | h <;> simp [h] <;> omega), if_pos hn]

theorem packLsb_ne_nil (l : List Bool) (h : l ≠ []) : packLsb l ≠ [] := by
  intro he
  have := packLsb_length _ l (Nat.le_refl _)
  rw [he] at this
  have : l.length = 0 := by simp at this; omega
  exact h (List.eq_nil_of_length_eq_zero this)

/-- null flags of a column the reader built with an aligned bitmap. -/
theorem nilFlags_aligned (V : Bytes) (offs : List Nat) (bits : List Bool) :
    nilFlags { val := V, offs := offs, bitmap := packLsb bits, bmOff := 0, len := bits.length,
               nilCount := (bits.filter (!·)).length } = some (bits.map (!·)) := by
  by_cases hk : (bits.filter (!·)).length = 0
  · have hb := all_true_of_no_false bits hk
    rw [nilFlags_no_nil _ hk]
    · simp only
      conv => rhs; rw [hb]
      simp
    · by_cases he : bits = []
      · left; simp [he]
      · right; exact packLsb_ne_nil bits he
  · apply nilFlags_of_sub _ bits rfl hk
    simp only [List.drop_zero]
    rw [bitsOf_packLsb _ _ (Nat.le_refl _)]
    simp

theorem fillRows_present {α : Type} : ∀ rows : List (Option α),
    fillRows ((presentBits rows).map (!·)) (rows.filterMap id) = some rows
  | [] => rfl
  | none :: rs => by
    have := fillRows_present rs
    simp only [presentBits, List.map_cons, List.filterMap_cons, Option.isSome_none, Bool.not_false,
      id, fillRows] at this ⊢
    rw [this]; rfl
  | some v :: rs => by
    have := fillRows_present rs
    simp only [presentBits, List.map_cons, List.filterMap_cons, Option.isSome_some, Bool.not_true,
      id, fillRows] at this ⊢
    rw [this]; rfl

theorem nullCount_eq {α : Type} (rows : List (Option α)) :
    nullCount rows = ((presentBits rows).filter (!·)).length := by
  unfold nullCount presentBits
  induction rows with
  | nil => rfl
  | cons r rs ih => cases r <;> simp_all

theorem present_length {α : Type} (rows : List (Option α)) : (presentBits rows).length = rows.length := by
  simp [presentBits]

theorem filterMap_length_add {α : Type} (rows : List (Option α)) :
    (rows.filterMap id).length + nullCount rows = rows.length := by
  unfold nullCount
  induction rows with
  | nil => rfl
  | cons r rs ih => cases r <;> simp_all <;> omega

theorem wordsOf_leWords (xs : List W) : wordsOf (leWords xs) = xs := by
  unfold wordsOf
  rw [leWords_length]
  exact unleWords_leWords xs _ (by omega)

/-- `appendIntegerColumn` / `appendFloatColumn` / `appendBooleanColumn` after a good header:
the column it builds has the decoded values and the rows' null flags. -/
theorem appendFixed_view (bits : List Bool) (body : Bytes) (h : ColHdr)
    (hok : HdrOK bits (bits.filter (!·)).length body h) (V : Bytes) (n : Nat)
    (hn : n + (bits.filter (!·)).length = bits.length)
    (hempty : body = [] → n = 0 ∧ V = []) :
    ∃ c', appendFixed (some (V, n)) h.bm h.bmOff h.rest h.nilCount = some c'
      ∧ c'.val = V ∧ c'.len = bits.length ∧ c'.nilCount = (bits.filter (!·)).length
      ∧ nilFlags c' = some (bits.map (!·)) := by
  rw [hok.rest, hok.nil]
  unfold appendFixed
  by_cases hb : body = []
  · obtain ⟨hn0, hV⟩ := hempty hb
    subst hn0 hV
    simp only [hb, ne_eq, not_true_eq_false, if_false]
    by_cases hk : (bits.filter (!·)).length = 0
    · have : bits = [] := List.eq_nil_of_length_eq_zero (by omega)
      subst this
      exact ⟨{}, by simp, rfl, rfl, rfl, rfl⟩
    · obtain ⟨b, o, h1, h2⟩ := hok.sub
      have hkl : (bits.filter (!·)).length = bits.length := by omega
      simp only [hk, if_false]
      rw [hkl, h1]
      refine ⟨_, rfl, rfl, rfl, rfl, ?_⟩
      exact nilFlags_of_sub _ bits rfl (by simp only; omega) h2
  · simp only [hb, ne_eq, not_false_eq_true, if_true]
    rw [hn, hok.fresh]
    exact ⟨_, rfl, rfl, rfl, rfl, nilFlags_aligned V [] bits⟩

/-! ### strings -/

@[simp] theorem offsetsOf_length : ∀ (strs : List Bytes) (a : Nat), (offsetsOf a strs).length = strs.length
  | [], _ => rfl
  | _ :: ss, a => by simp [offsetsOf, offsetsOf_length ss]

theorem offsetsOf_eq_from : ∀ (strs : List Bytes) (a : Nat), a + strs.flatten.length < 2 ^ 32 →
    offsetsOf a strs = match strs with
      | [] => []
      | _ :: _ => a :: offsetsFrom a ((strs.map (·.length)).take (strs.length - 1))
  | [], _, _ => rfl
  | [s], a, _ => by simp [offsetsOf, offsetsFrom]
  | s :: s' :: ss, a, h => by
    have hl : a + s.length + (s' :: ss).flatten.length < 2 ^ 32 := by
      simp only [List.flatten_cons, List.length_append] at h ⊢; omega
    have ih := offsetsOf_eq_from (s' :: ss) (a + s.length) hl
    have hm : (a + s.length) % 2 ^ 32 = a + s.length := Nat.mod_eq_of_lt (by
      simp only [List.flatten_cons, List.length_append] at h; omega)
    simp only [offsetsOf] at ih ⊢
    simp only [List.map_cons, List.length_cons, Nat.add_sub_cancel, List.take_succ_cons, offsetsFrom, hm]
    rw [ih]
    simp

theorem offsetsOf_eq_strOffsets (strs : List Bytes) (hne : strs ≠ [])
    (h : strs.flatten.length < 2 ^ 32) : offsetsOf 0 strs = strOffsets strs := by
  rw [offsetsOf_eq_from strs 0 (by omega)]
  cases strs with
  | nil => exact absurd rfl hne
  | cons s ss => rfl

theorem strLens_offsetsOf : ∀ (strs : List Bytes) (a total : Nat),
    total = a + strs.flatten.length → total < 2 ^ 32 →
    strLens total (offsetsOf a strs) = strs.map (·.length)
  | [], _, _, _, _ => rfl
  | [s], a, total, h1, h2 => by
    simp only [List.flatten_cons, List.flatten_nil, List.append_nil] at h1
    simp only [offsetsOf, strLens, List.map_cons, List.map_nil, List.cons.injEq, and_true]
    rw [Nat.mod_eq_of_lt (show a < 2 ^ 32 by omega)]
    omega
  | s :: s' :: ss, a, total, h1, h2 => by
    have ih := strLens_offsetsOf (s' :: ss) (a + s.length) total (by
      simp only [List.flatten_cons, List.length_append] at h1 ⊢; omega) h2
    simp only [offsetsOf] at ih ⊢
    simp only [strLens, List.map_cons, List.cons.injEq]
    refine ⟨?_, by simpa using ih⟩
    simp only [List.flatten_cons, List.length_append] at h1
    rw [Nat.mod_eq_of_lt (show a < 2 ^ 32 by omega)]
    omega

/-- on the `Val` / `Offset` pair of a well-formed string column `packStringV2` writes the
length-prefixed layout of `packStrings`. -/
theorem packStringRaw_eq (strs : List Bytes) (h : strs.flatten.length < 2 ^ 32) :
    packStringRaw strs.flatten (offsetsOf 0 strs) = packStrings strs := by
  unfold packStringRaw packStrings
  rw [offsetsOf_length, strLens_offsetsOf strs 0 _ (by simp) h]

theorem offsetsOf_getElem? : ∀ (strs : List Bytes) (a i : Nat), i < strs.length →
    (offsetsOf a strs)[i]? = some (a + (strs.take i).flatten.length)
  | [], _, _, h => by simp at h
  | _ :: _, a, 0, _ => by simp [offsetsOf]
  | s :: ss, a, i + 1, h => by
    have := offsetsOf_getElem? ss (a + s.length) i (by simpa using h)
    simp only [offsetsOf, List.getElem?_cons_succ, this, List.take_succ_cons, List.flatten_cons,
      List.length_append]
    congr 1
    omega

theorem take_succ_flatten (strs : List Bytes) (i : Nat) (hi : i < strs.length) :
    (strs.take (i + 1)).flatten = (strs.take i).flatten ++ strs[i] := by
  rw [List.take_add_one, List.flatten_append]
  simp [hi]

/-- `StringValueSafe(i)` on the concatenation and the offsets of `strs`. -/
theorem strAt_offsetsOf (strs : List Bytes) (i : Nat) (hi : i < strs.length) :
    strAt strs.flatten (offsetsOf 0 strs) i = some strs[i] := by
  unfold strAt
  rw [offsetsOf_getElem? strs 0 i hi]
  simp only [Nat.zero_add, offsetsOf_length]
  have hsplit : strs.flatten = (strs.take (i + 1)).flatten ++ (strs.drop (i + 1)).flatten := by
    rw [← List.flatten_append, List.take_append_drop]
  have h1 := take_succ_flatten strs i hi
  by_cases hl : i + 1 = strs.length
  · rw [if_pos hl]
    have hd : strs.drop (i + 1) = [] := by simp [hl]
    rw [hd, List.flatten_nil, List.append_nil, h1] at hsplit
    rw [if_pos (by rw [hsplit]; simp)]
    congr 1
    rw [hsplit]
    simp
  · rw [if_neg hl, offsetsOf_getElem? strs 0 (i + 1) (by omega)]
    simp only [Nat.zero_add]
    rw [if_pos (by
      refine ⟨by rw [h1]; simp, ?_⟩
      rw [hsplit]; simp)]
    congr 1
    rw [hsplit, List.take_left' rfl, h1]
    simp

end OG.C07
