/-
C07 — wire codecs built on lib/codec's binary encoder / decoder:

  * `record.Field`, `record.ColVal`, `record.Record` `Marshal / Unmarshal / Size`
    (lib/record/*_codec.go): a record travels as length-prefixed sub-messages, the prefix being
    what `Size()` computes;
  * `msgservice.WritePointsResponse` (= `WriteBlobsResponse`, `WriteStreamPointsResponse`):
    code, error number, message;
  * `msgservice.StreamVar` and `WriteStreamPointsRequest`;
  * `raftlog.DataWrapper` (the payload of a replication log entry).

Go `int` / `int64` fields are 64-bit patterns (`W`), written by `codec.AppendInt` = zig-zag +
eight big-endian bytes.  `none` = error return or panic (slice out of range).
-/
import OG.C07.MetaCodec

namespace OG.C07
open OG.Gen.C07

/-! ### lib/codec primitives -/

/-- `BinaryDecoder.String`: a zero length reads as "" without touching the buffer. -/
def decString (bs : Bytes) : Option (Bytes × Bytes) :=
  match readBE 2 bs with
  | none => none
  | some (l, r) => if l = 0 then some ([], r) else if r.length < l then none else some (r.take l, r.drop l)

/-- `codec.AppendBytes` -/
def bytes32 (b : Bytes) : Bytes := be 4 b.length ++ b

/-- `BinaryDecoder.BytesNoCopy` / `Bytes` -/
def decBytes (bs : Bytes) : Option (Bytes × Bytes) :=
  match readBE 4 bs with
  | none => none
  | some (l, r) => if l = 0 then some ([], r) else if r.length < l then none else some (r.take l, r.drop l)

/-- `codec.AppendUint32SliceSafe`: big-endian count, little-endian items. -/
def u32sLE (xs : List Nat) : Bytes := be 4 xs.length ++ xs.flatMap (le 4)

def readLE (k : Nat) (bs : Bytes) : Option (Nat × Bytes) :=
  if (bs.take k).length < k then none else some (unle (bs.take k), bs.drop k)

/-- `BinaryDecoder.Uint32SliceLE` -/
def decU32sLE (bs : Bytes) : Option (List Nat × Bytes) :=
  match readBE 4 bs with
  | none => none
  | some (n, r) => if n = 0 then some ([], r) else readN (readLE 4) n r

/-- `codec.AppendUint64Slice`: big-endian count, items in memory order (little-endian). -/
def u64sLE (xs : List Nat) : Bytes := be 4 xs.length ++ xs.flatMap (le 8)

def decU64sLE (bs : Bytes) : Option (List Nat × Bytes) :=
  match readBE 4 bs with
  | none => none
  | some (n, r) => if n = 0 then some ([], r) else readN (readLE 8) n r

/-! ### lib/record -/

structure FieldM where
  name : Bytes
  type : W
deriving DecidableEq, Repr

/-- `record.ColVal` with the Go-int fields as 64-bit patterns. -/
structure ColValM where
  len : W
  nilCount : W
  bmOff : W
  val : Bytes
  bitmap : Bytes
  offs : List Nat
deriving DecidableEq, Repr

structure RecordM where
  schema : List FieldM
  cols : List ColValM
deriving DecidableEq, Repr

/-- `Field.Marshal` / `Field.Size` -/
def marshalField (f : FieldM) : Bytes := str16 f.name ++ i64 f.type
def fieldSize (f : FieldM) : Nat := (f.name.length + 2) + 8

/-- `Field.Unmarshal` on a non-empty buffer. -/
def unmarshalField (bs : Bytes) : Option FieldM :=
  match decString bs with
  | none => none
  | some (name, r) =>
    match readI64 r with
    | none => none
    | some (ty, _) => some ⟨name, ty⟩

/-- `ColVal.Marshal` / `ColVal.Size` -/
def marshalColVal (c : ColValM) : Bytes :=
  i64 c.len ++ (i64 c.nilCount ++ (i64 c.bmOff ++ (bytes32 c.val ++ (bytes32 c.bitmap ++ u32sLE c.offs))))
def colValSize (c : ColValM) : Nat :=
  8 + 8 + 8 + (c.val.length + 4) + (c.bitmap.length + 4) + (c.offs.length * 4 + 4)

/-- `ColVal.Unmarshal` on a non-empty buffer. -/
def unmarshalColVal (bs : Bytes) : Option ColValM :=
  match readI64 bs with
  | none => none
  | some (len, r0) =>
    match readI64 r0 with
    | none => none
    | some (nil, r1) =>
      match readI64 r1 with
      | none => none
      | some (off, r2) =>
        match decBytes r2 with
        | none => none
        | some (val, r3) =>
          match decBytes r3 with
          | none => none
          | some (bm, r4) =>
            match decU32sLE r4 with
            | none => none
            | some (offs, _) => some ⟨len, nil, off, val, bm, offs⟩

/-- `Record.Marshal`: every sub-message is prefixed with what its `Size()` says. -/
def marshalRecord (rec : RecordM) : Bytes :=
  be 4 rec.schema.length ++ (rec.schema.flatMap (fun f => be 4 (fieldSize f) ++ marshalField f)
    ++ (be 4 rec.cols.length ++ rec.cols.flatMap fun c => be 4 (colValSize c) ++ marshalColVal c))

/-- one length-prefixed sub-message (`dec.BytesNoCopy()` then `Unmarshal`); an empty one leaves
the destination untouched (`dflt`). -/
def readSub {α : Type} (dflt : α) (un : Bytes → Option α) (bs : Bytes) : Option (α × Bytes) :=
  match decBytes bs with
  | none => none
  | some (sub, r) => if sub = [] then some (dflt, r) else (un sub).map fun a => (a, r)

/-- `Record.Unmarshal` into a fresh record. -/
def unmarshalRecord (bs : Bytes) : Option RecordM :=
  if bs = [] then some ⟨[], []⟩
  else
    match readBE 4 bs with
    | none => none
    | some (nf, r0) =>
      match readN (readSub ⟨[], 0#64⟩ unmarshalField) nf r0 with
      | none => none
      | some (fs, r1) =>
        match readBE 4 r1 with
        | none => none
        | some (nc, r2) =>
          match readN (readSub ⟨0#64, 0#64, 0#64, [], [], []⟩ unmarshalColVal) nc r2 with
          | none => none
          | some (cs, _) => some ⟨fs, cs⟩

/-! ### lib/msgservice -/

structure WriteRespM where
  code : UInt8
  errCode : Nat        -- errno.Errno = uint16
  message : Bytes
deriving DecidableEq, Repr

/-- `WritePointsResponse.Marshal` (also `WriteBlobsResponse`, `WriteStreamPointsResponse`) -/
def marshalWriteResp (r : WriteRespM) : Bytes := r.code :: (be 2 r.errCode ++ r.message)

def unmarshalWriteResp (bs : Bytes) : Option WriteRespM :=
  match bs with
  | [] => none
  | c :: r =>
    match readBE 2 r with
    | none => none
    | some (e, m) => some ⟨c, e, m⟩

structure StreamVarM where
  only : Bool
  ids : List Nat
deriving DecidableEq, Repr

def marshalStreamVar (s : StreamVarM) : Bytes := (if s.only then 1 else 0) :: u64sLE s.ids
def streamVarSize (s : StreamVarM) : Nat := 1 + (s.ids.length * 8 + 4)

def unmarshalStreamVar (bs : Bytes) : Option StreamVarM :=
  match bs with
  | [] => some ⟨false, []⟩
  | b :: r => (decU64sLE r).map fun (ids, _) => ⟨b.toNat % 2 = 1, ids⟩

structure StreamReqM where
  points : Bytes
  vars : List (Option StreamVarM)
deriving DecidableEq, Repr

/-- one stream variable of the request: an absent one is an empty sub-message. -/
def marshalSVarOpt (v : Option StreamVarM) : Bytes :=
  match v with
  | none => be 4 0
  | some s => be 4 (streamVarSize s) ++ marshalStreamVar s

/-- `WriteStreamPointsRequest.Marshal` -/
def marshalStreamReq (w : StreamReqM) : Bytes :=
  bytes32 w.points ++ (be 4 w.vars.length ++ w.vars.flatMap marshalSVarOpt)

def readSVar (b : Bytes) : Option (Option StreamVarM × Bytes) :=
  match decBytes b with
  | none => none
  | some (sub, r) =>
    if sub = [] then some (none, r) else (unmarshalStreamVar sub).map fun s => (some s, r)

def unmarshalStreamReq (bs : Bytes) : Option StreamReqM :=
  if bs = [] then some ⟨[], []⟩
  else
    match decBytes bs with
    | none => none
    | some (pts, r0) =>
      match readBE 4 r0 with
      | none => none
      | some (n, r1) =>
        match readN readSVar n r1 with
        | none => none
        | some (vs, _) => some ⟨pts, vs⟩

/-! ### lib/raftlog -/

structure DataWrapperM where
  data : Bytes
  dataType : Nat
  identity : Bytes
  proposeId : Nat
deriving DecidableEq, Repr

/-- `DataWrapper.Marshal`: the identity's length travels in one byte. -/
def marshalDataWrapper (d : DataWrapperM) : Bytes :=
  be 4 d.dataType ++ (UInt8.ofNat d.identity.length :: (d.identity ++ (be 8 d.proposeId ++ d.data)))

/-- `raftlog.Unmarshal` -/
def unmarshalDataWrapper (bs : Bytes) : Option DataWrapperM :=
  match readBE 4 bs with
  | none => none
  | some (ty, r0) =>
    match r0 with
    | [] => none
    | l :: r1 =>
      if r0.length ≤ l.toNat then none
      else
        match readBE 8 (r1.drop l.toNat) with
        | none => none
        | some (pid, data) => some ⟨data, ty, r1.take l.toNat, pid⟩

end OG.C07
