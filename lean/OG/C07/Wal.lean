/-
C07 — WAL record framing: `WAL.writeBinary` (writer) and `WAL.replayPhysicRecord` /
`replayWalFile` (reader) of engine/wal.go.

A record is `type byte | uint32 BE length of the snappy body | snappy body`.  The reader owns
a pooled buffer (`recordCompBuff`) that survives from record to record and from file to file:
it is *state* of the model.  `io.ReadFull` into that buffer returns `nil` only when the whole
body arrived, `io.EOF` when nothing arrived, `io.ErrUnexpectedEOF` in between; which of these
outcomes lead to decoding the buffer is regenerated from the source
(`walDecodeOnEOF`, `walDecodeOnUnexpectedEOF`).  snappy and the row unmarshaller are opaque.
-/
import OG.C07.Base
import OG.Generated.C07

namespace OG.C07
open OG.Gen.C07

structure WalCfg where
  onEOF : Bool          -- decode the buffer although no body byte was read
  onUnexpected : Bool   -- decode the buffer although only part of the body was read

/-- the reader as the source has it now. -/
def walCfgNow : WalCfg := ⟨walDecodeOnEOF, walDecodeOnUnexpectedEOF⟩

/-- one more than the largest record type (`WriteWalEnd`). -/
def walTypeEnd : Nat := walTypeNames.length - 1

inductive WalStep
  | eof                                   -- `io.EOF`: the file ends here
  | record (ty : Nat) (body : Bytes)      -- handed to the callback
deriving DecidableEq, Repr

/-- `bufferpool.Resize(b, n)` on a buffer whose capacity holds `buf`. -/
def resizeBuf (buf : Bytes) (n : Nat) : Bytes := (buf ++ List.replicate n 0).take n

/-- decode the (complete or not) buffer: snappy, then for line-protocol records the row
unmarshaller; any failure ends the file. -/
def walDecode (unsnappy : Bytes → Option Bytes) (rowsOK : Bytes → Bool) (ty : Nat) (comp : Bytes) :
    WalStep :=
  match unsnappy comp with
  | none => .eof
  | some body => if ty = 1 ∧ rowsOK body = false then .eof else .record ty body

/-- `replayPhysicRecord`: result, the buffer afterwards, the unread input. -/
def walStep (cfg : WalCfg) (unsnappy : Bytes → Option Bytes) (rowsOK : Bytes → Bool)
    (buf : Bytes) (inp : Bytes) : WalStep × Bytes × Bytes :=
  if (inp.take walRecordHeadSize).length < walRecordHeadSize then (.eof, buf, [])
  else
    let ty := (inp.headD 0).toNat
    if ty ≤ 0 ∨ ty ≥ walTypeEnd then (.eof, buf, inp.drop walRecordHeadSize)
    else
      let n := unbe ((inp.drop 1).take 4)
      let avail := (inp.drop walRecordHeadSize).take n
      let rest := (inp.drop walRecordHeadSize).drop n
      let rbuf := resizeBuf buf n
      -- ReadFull copies what is there over the front of the buffer
      let filled := avail ++ rbuf.drop avail.length
      let buf' := filled ++ buf.drop n
      if avail.length = n then (walDecode unsnappy rowsOK ty filled, buf', rest)
      else if avail.length = 0 then
        (if cfg.onEOF then walDecode unsnappy rowsOK ty filled else .eof, buf', rest)
      else
        (if cfg.onUnexpected then walDecode unsnappy rowsOK ty filled else .eof, buf', rest)

/-- the loop of `replayWalFile`: the records handed to the callback until end of file. -/
def walReplay (cfg : WalCfg) (unsnappy : Bytes → Option Bytes) (rowsOK : Bytes → Bool) :
    Nat → Bytes → Bytes → List (Nat × Bytes)
  | 0, _, _ => []
  | fuel + 1, buf, inp =>
    match walStep cfg unsnappy rowsOK buf inp with
    | (.eof, _, _) => []
    | (.record ty body, buf', rest) => (ty, body) :: walReplay cfg unsnappy rowsOK fuel buf' rest

/-- `writeBinary`: the frame of a record. -/
def walFrame (snappy : Bytes → Bytes) (ty : Nat) (payload : Bytes) : Bytes :=
  UInt8.ofNat ty :: (be 4 (snappy payload).length ++ snappy payload)

end OG.C07
