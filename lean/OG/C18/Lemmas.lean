/-
C18 — helper lemmas (selection, steps, mapE).
-/
import OG.C18.Model

namespace OG.C18

variable {V : Type}

/-! ### latestLE -/

theorem latestLE_none_iff {ref : Int} : ∀ {pts : List (Pt V)},
    latestLE ref pts = none ↔ ∀ q ∈ pts, ref < q.t
  | [] => by simp [latestLE]
  | a :: as => by
    have ih := @latestLE_none_iff ref as
    unfold latestLE
    cases h : latestLE ref as with
    | some q =>
      simp only [reduceCtorEq, false_iff]
      intro hall
      have : latestLE ref as = none := ih.mpr (fun q hq => hall q (List.mem_cons_of_mem _ hq))
      simp [h] at this
    | none =>
      have hn := ih.mp h
      by_cases hle : a.t ≤ ref
      · simp only [hle, if_true, reduceCtorEq, false_iff]
        intro hall
        have := hall a (List.mem_cons_self)
        omega
      · simp only [hle, if_false, true_iff]
        intro q hq
        rcases List.mem_cons.mp hq with rfl | hq
        · omega
        · exact hn q hq

theorem latestLE_some_mem {ref : Int} : ∀ {pts : List (Pt V)} {p : Pt V},
    latestLE ref pts = some p → p ∈ pts ∧ p.t ≤ ref
  | [], p => by simp [latestLE]
  | a :: as, p => by
    unfold latestLE
    cases h : latestLE ref as with
    | some q =>
      intro heq
      simp only [Option.some.injEq] at heq
      subst heq
      have := latestLE_some_mem h
      exact ⟨List.mem_cons_of_mem _ this.1, this.2⟩
    | none =>
      by_cases hle : a.t ≤ ref
      · simp only [hle, if_true, Option.some.injEq]
        intro heq; subst heq
        exact ⟨List.mem_cons_self, hle⟩
      · simp [hle]

/-- ascending timestamps (strictly: one sample per timestamp), as stored. -/
def Ascending (pts : List (Pt V)) : Prop := pts.Pairwise (fun a b => a.t < b.t)

theorem latestLE_max {ref : Int} : ∀ {pts : List (Pt V)} {p : Pt V}, Ascending pts →
    latestLE ref pts = some p → ∀ q ∈ pts, q.t ≤ ref → q.t ≤ p.t
  | [], p, _ => by simp [latestLE]
  | a :: as, p, hs => by
    have hs' : Ascending as := (List.pairwise_cons.mp hs).2
    have ha : ∀ b ∈ as, a.t < b.t := (List.pairwise_cons.mp hs).1
    unfold latestLE
    cases h : latestLE ref as with
    | some q' =>
      intro heq q hq hqr
      simp only [Option.some.injEq] at heq
      subst heq
      rcases List.mem_cons.mp hq with rfl | hq
      · have := ha _ (latestLE_some_mem h).1
        omega
      · exact latestLE_max hs' h q hq hqr
    | none =>
      have hn := latestLE_none_iff.mp h
      by_cases hle : a.t ≤ ref
      · simp only [hle, if_true, Option.some.injEq]
        intro heq q hq hqr
        subst heq
        rcases List.mem_cons.mp hq with rfl | hq
        · omega
        · have := hn q hq; omega
      · simp [hle]

theorem ascending_eq_of_t_eq {pts : List (Pt V)} (hs : Ascending pts) {p q : Pt V}
    (hp : p ∈ pts) (hq : q ∈ pts) (ht : p.t = q.t) : p = q := by
  induction pts with
  | nil => simp at hp
  | cons a as ih =>
    have hs' : Ascending as := (List.pairwise_cons.mp hs).2
    have ha : ∀ b ∈ as, a.t < b.t := (List.pairwise_cons.mp hs).1
    rcases List.mem_cons.mp hp with rfl | hp' <;> rcases List.mem_cons.mp hq with rfl | hq'
    · rfl
    · have := ha _ hq'; omega
    · have := ha _ hp'; omega
    · exact ih hs' hp' hq'

/-- characterisation of `latestLE` on ascending samples: the latest sample not after `ref`. -/
theorem latestLE_eq_some_iff {ref : Int} {pts : List (Pt V)} {p : Pt V} (hs : Ascending pts) :
    latestLE ref pts = some p ↔ p ∈ pts ∧ p.t ≤ ref ∧ ∀ q ∈ pts, q.t ≤ ref → q.t ≤ p.t := by
  constructor
  · intro h
    exact ⟨(latestLE_some_mem h).1, (latestLE_some_mem h).2, latestLE_max hs h⟩
  · rintro ⟨hp, hle, hmax⟩
    cases h : latestLE ref pts with
    | none =>
      have := latestLE_none_iff.mp h p hp
      omega
    | some p' =>
      have h1 := latestLE_some_mem h
      have h2 := latestLE_max hs h p hp hle
      have h3 := hmax p' h1.1 h1.2
      have : p' = p := ascending_eq_of_t_eq hs h1.1 hp (by omega)
      rw [this]

/-! ### mapE -/

theorem mapE_ok_length {ε α β : Type} {f : α → Except ε β} : ∀ {xs : List α} {ys : List β},
    mapE f xs = .ok ys → ys.length = xs.length
  | [], ys => by simp [mapE]
  | a :: as, ys => by
    unfold mapE
    cases hf : f a with
    | error e => simp
    | ok b =>
      cases hm : mapE f as with
      | error e => simp
      | ok bs =>
        simp only [Except.ok.injEq]
        intro h; subst h
        simp [mapE_ok_length hm]

theorem mapE_ok_get {ε α β : Type} {f : α → Except ε β} : ∀ {xs : List α} {ys : List β},
    mapE f xs = .ok ys → ∀ (i : Nat) (hx : i < xs.length) (hy : i < ys.length), f xs[i] = .ok ys[i]
  | [], ys => by intro _ i hx; simp at hx
  | a :: as, ys => by
    unfold mapE
    cases hf : f a with
    | error e => simp
    | ok b =>
      cases hm : mapE f as with
      | error e => simp
      | ok bs =>
        simp only [Except.ok.injEq]
        intro h i hx hy; subst h
        cases i with
        | zero => simpa using hf
        | succ j =>
          simp only [List.getElem_cons_succ]
          exact mapE_ok_get hm j (by simpa using hx) (by simpa using hy)

theorem mapE_singleton {ε α β : Type} {f : α → Except ε β} {a : α} {b : β} (h : f a = .ok b) :
    mapE f [a] = .ok [b] := by
  simp [mapE, h]

end OG.C18
