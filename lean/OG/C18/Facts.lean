/-
C18 — expectations about the regenerated facts. Each theorem compares what ogfacts extracted
from /repo *now* (OG.Gen.C18: look-back default, the PromQL-name -> InfluxQL-call -> reducer
tables, the window arithmetic of the transpiler and of the range / instant vector cursors, the
extrapolation formula) with what the reference semantics and OGWin.lean were written against.
A failure means the modelled source changed shape; the correspondence run then decides whether
the property still holds (and supplies the replay).
-/
import OG.Generated.C18
import OG.C18.OGRec

namespace OG.C18.Facts
open OG.Gen.C18

theorem generation_ok : generationFailed = false := by rfl

theorem lookbackSrc_expected : lookbackSrc = "5 * time.Minute" := by rfl

theorem lookbackMs_expected : lookbackMs = 300000 := by rfl

theorem keepMetricFunctions_expected : keepMetricFunctions = ["last_over_time"] := by rfl

theorem src_timeCondition_expected : src_timeCondition = "{ var timeCondition influxql.Expr if IsMetaQuery(t.DataType) { start, end := t.findStartEndTime(v) timeCondition = GetTimeCondition(start, end) } else { if t.timeRange == 0 { start, end := timestamp.Time(t.minT-t.LookBackDelta.Milliseconds()-durationMilliseconds(v.Offset)), timestamp.Time(t.maxT-durationMilliseconds(v.Offset)) timeCondition = GetTimeCondition(&start, &end) } else { start, end := timestamp.Time(t.minT-t.timeRange.Milliseconds()-durationMilliseconds(v.Offset)), timestamp.Time(t.maxT-durationMilliseconds(v.Offset)) timeCondition = GetTimeCondition(&start, &end) } } tagCondition, err := GetTagCondition(v, t.HaveMetricStore()) return timeCondition, tagCondition, err }" := by rfl

theorem src_newRangeCursor_expected : src_newRangeCursor = "{ c := &RangeVectorCursor{} c.aggregateCursor = *NewAggregateCursor(input, schema, globalPool, false) c.aggregateCursor.r = c c.lookUpDelta = schema.Options().GetPromLookBackDelta().Nanoseconds() c.rangeDuration = schema.Options().GetPromRange().Nanoseconds() c.step = schema.Options().GetPromStep().Nanoseconds() c.start = schema.Options().GetStartTime() c.end = schema.Options().GetEndTime() c.offset = schema.Options().GetPromQueryOffset().Nanoseconds() c.startSample = c.start + c.rangeDuration if c.step == 0 { c.endSample = c.startSample c.firstStep = c.startSample c.reducerParams.lastStep = c.endSample } else { c.endSample = c.start + c.rangeDuration + (c.end-(c.start+c.rangeDuration))/c.step*c.step c.firstStep = getCurrStep(c.startSample, c.endSample, c.step, tr.Min) c.reducerParams.lastStep = getPrevStep(c.startSample, c.endSample, c.step, tr.Max) } return c }" := by rfl

theorem src_rangeIntervalIndex_expected : src_rangeIntervalIndex = "{ if record.RowNums() == 0 { return } if c.step == 0 { c.firstStep = c.startSample c.intervalIndex = append(c.intervalIndex, 0, uint16(record.RowNums())) return } times := record.Times() firstStep := getCurrStep(c.startSample, c.endSample, c.step, times[0]) lastStep := getCurrStep(c.startSample, c.endSample, c.step, times[len(times)-1]) c.firstStep = firstStep var i, j int for end := firstStep; end <= lastStep; end += c.step { start := end - c.rangeDuration for i < len(times) { if times[i] >= start { c.intervalIndex = append(c.intervalIndex, uint16(i)) break } i++ } for j < len(times) { if times[j] > end { c.intervalIndex = append(c.intervalIndex, uint16(j)) break } j++ } if len(c.intervalIndex)%2 != 0 { c.intervalIndex = append(c.intervalIndex, uint16(record.RowNums())) } } }" := by rfl

theorem src_filterRangeNaN_expected : src_filterRangeNaN = "{ rowNum := rec.RowNums() var outRecord *record.Record vals := rec.ColVals[0].FloatValues() var startIndex, endIndex int for startIndex, endIndex = 0, 0; endIndex < rowNum; { if model.IsStaleNaN(vals[endIndex]) { if outRecord == nil { outRecord = record.NewRecordBuilder(rec.Schema) outRecord.RecMeta = rec.RecMeta } outRecord.AppendRec(rec, startIndex, endIndex) endIndex++ startIndex = endIndex continue } endIndex++ } if startIndex == 0 { return rec } outRecord.AppendRec(rec, startIndex, endIndex) return outRecord }" := by rfl

theorem src_newInstantCursor_expected : src_newInstantCursor = "{ c := &InstantVectorCursor{} c.aggregateCursor = *NewAggregateCursor(input, schema, globalPool, false) c.aggregateCursor.r = c c.lookUpDelta = schema.Options().GetPromLookBackDelta().Nanoseconds() c.step = schema.Options().GetPromStep().Nanoseconds() c.start = schema.Options().GetStartTime() c.end = schema.Options().GetEndTime() c.offset = schema.Options().GetPromQueryOffset().Nanoseconds() c.startSample = c.start + c.lookUpDelta if c.step == 0 { c.endSample = c.startSample c.firstStep = c.startSample c.reducerParams.lastStep = c.endSample c.reducerParams.rangeDuration = schema.Options().GetPromRange().Nanoseconds() } else { c.endSample = c.start + c.lookUpDelta + (c.end-(c.start+c.lookUpDelta))/c.step*c.step c.firstStep = getCurrStep(c.startSample, c.endSample, c.step, tr.Min) c.reducerParams.lastStep = getPrevStep(c.startSample, c.endSample, c.step, tr.Max) } return c }" := by rfl

theorem src_instantIntervalIndex_expected : src_instantIntervalIndex = "{ if c.step == 0 { c.intervalIndex = append(c.intervalIndex, 0, uint16(record.RowNums())) return } times := record.Times() firstStep := getCurrStep(c.startSample, c.endSample, c.step, times[0]) lastStep := getCurrStep(c.startSample, c.endSample, c.step, times[len(times)-1]) c.firstStep = firstStep var i, j int for end := firstStep; end <= lastStep; end += c.step { start := end - c.lookUpDelta for i < len(times) { if times[i] >= start { c.intervalIndex = append(c.intervalIndex, uint16(i)) break } i++ } for j < len(times) { if times[j] > end { c.intervalIndex = append(c.intervalIndex, uint16(j)) break } j++ } if len(c.intervalIndex)%2 != 0 { c.intervalIndex = append(c.intervalIndex, uint16(record.RowNums())) } } }" := by rfl

theorem src_getCurrStep_expected : src_getCurrStep = "{ if t <= startSample { return startSample } n, r := (t-startSample)/step, (t-startSample)%step if r > 0 { return hybridqp.MinInt64(startSample+(n+1)*step, endSample) } return hybridqp.MinInt64(t, endSample) }" := by rfl

theorem src_getPrevStep_expected : src_getPrevStep = "{ if t <= startSample { return startSample } if t == endSample { return t } n := (t - startSample) / step return hybridqp.MinInt64(startSample+n*step, endSample) }" := by rfl

theorem src_populateByPrevious_expected : src_populateByPrevious = "{ if model.IsStaleNaN(r.prevBuf.value) { return } for t := nextStep; t <= lastStep; t += param.step { if r.prevBuf.time < t-param.lookBackDelta { break } r.fv(outRecord.Column(outOrdinal), r.prevBuf.value) if outOrdinal == 0 { outRecord.AppendTime(t + r.offset) } } }" := by rfl

theorem src_rateMerge_expected : src_rateMerge = "{ return func(prevT, currT []int64, prevV, currV []float64, ts int64, pointCount int, param *ReducerParams) (float64, bool) { if pointCount <= 1 { return 0, true } firstTime, lastTime, firstValue, _, reduceResult := executor.CalcReduceResult(prevT, currT, prevV, currV, isCounter) if lastTime == firstTime || param.rangeDuration == 0 { return 0, true } rangeStart, rangeEnd := ts-param.rangeDuration, ts durationToStart := float64(firstTime-rangeStart) / 1e9 durationToEnd := float64(rangeEnd-lastTime) / 1e9 sampledInterval := float64(lastTime-firstTime) / 1e9 averageDurationBetweenSamples := sampledInterval / float64(pointCount-1) if isCounter && reduceResult > 0 && pointCount > 0 && firstValue >= 0 { durationToZero := sampledInterval * (firstValue / reduceResult) if durationToZero < durationToStart { durationToStart = durationToZero } } extrapolationThreshold := averageDurationBetweenSamples * 1.1 extrapolateToInterval := sampledInterval if durationToStart >= extrapolationThreshold { durationToStart = averageDurationBetweenSamples / 2 } extrapolateToInterval += durationToStart if durationToEnd >= extrapolationThreshold { durationToEnd = averageDurationBetweenSamples / 2 } extrapolateToInterval += durationToEnd factor := extrapolateToInterval / sampledInterval if isRate { factor /= time.Duration(param.rangeDuration).Seconds() } return reduceResult * factor, false } }" := by rfl

theorem src_irateMerge_expected : src_irateMerge = "{ return func(prevTime int64, lastTime int64, prevValue float64, lastValue float64, ts int64, pointCount int, param *ReducerParams) (float64, bool) { if lastTime == prevTime || param.rangeDuration == 0 || pointCount < 2 { return 0, true } var resultValue float64 if isRate && lastValue < prevValue { resultValue = lastValue } else { resultValue = lastValue - prevValue } sampledInterval := lastTime - prevTime if sampledInterval == 0 { return 0, true } if isRate { resultValue /= float64(sampledInterval) / 1e9 } return resultValue, false } }" := by rfl

theorem src_calcReduceResult_expected : src_calcReduceResult = "{ var firstTime, lastTime int64 var firstValue, lastValue float64 if len(prevT) > 0 { firstTime = prevT[0] firstValue = prevV[0] if len(currT) > 0 { lastTime = currT[len(currT)-1] lastValue = currV[len(currV)-1] } else { lastTime = prevT[len(prevT)-1] lastValue = prevV[len(prevV)-1] } } else { firstTime, lastTime = currT[0], currT[len(currT)-1] firstValue, lastValue = currV[0], currV[len(currV)-1] } reduceResult := lastValue - firstValue if isCounter { prev := firstValue for _, cur := range prevV { if cur < prev { reduceResult += prev } prev = cur } for _, cur := range currV { if cur < prev { reduceResult += prev } prev = cur } } return firstTime, lastTime, firstValue, lastValue, reduceResult }" := by rfl

theorem clampCond_engine_expected : clampCond_engine = ["isCounter", "reduceResult > 0", "pointCount > 0", "firstValue >= 0"] := by rfl

theorem clampCond_executor_expected : clampCond_executor = ["reduceResult > 0", "pointCount > 0", "firstValue >= 0"] := by rfl

theorem fp_samplerAggregate_expected : fp_samplerAggregate = "20668f28a392d1c2" := by rfl

theorem fp_peekSamples_expected : fp_peekSamples = "3e81cc8fb2e2c0ec" := by rfl

theorem fp_inNextWindow_expected : fp_inNextWindow = "473b03178ad7f740" := by rfl

theorem fp_isSameWindow_expected : fp_isSameWindow = "6922a9f155ec8ddf" := by rfl

theorem fp_isSameStep_expected : fp_isSameStep = "a587e899a10aa68f" := by rfl

theorem fp_incAggAggregate_expected : fp_incAggAggregate = "e6ad52d3b487df21" := by rfl

theorem fp_sliceAggregate_expected : fp_sliceAggregate = "5ff03cb0d951069d" := by rfl

theorem fp_rateAggregate_expected : fp_rateAggregate = "03d4aa6b3b2d941a" := by rfl

theorem fp_incAggDoFirstWindow_expected : fp_incAggDoFirstWindow = "27e4fa8ad0b7437d" := by rfl

theorem fp_incAggPopulateByPrevious_expected : fp_incAggPopulateByPrevious = "0cf992b013f2d80c" := by rfl

theorem fp_incAggPopulateByLast_expected : fp_incAggPopulateByLast = "f1b359f200e13f19" := by rfl

theorem fp_rewriteMinMaxTime_expected : fp_rewriteMinMaxTime = "2400ed87845b0d73" := by rfl

theorem rangeVectorFunctions_expected : rangeVectorFunctions = [
  ("absent_over_time", "absent_over_time_prom"),
  ("avg_over_time", "avg_over_time"),
  ("changes", "changes_prom"),
  ("count_over_time", "count_over_time"),
  ("delta", "delta_prom"),
  ("deriv", "deriv"),
  ("holt_winters", "holt_winters_prom"),
  ("idelta", "idelta_prom"),
  ("increase", "increase"),
  ("irate", "irate_prom"),
  ("last_over_time", "last_over_time_prom"),
  ("mad_over_time", "mad_over_time_prom"),
  ("max_over_time", "max_over_time"),
  ("min_over_time", "min_over_time"),
  ("predict_linear", "predict_linear"),
  ("present_over_time", "present_over_time_prom"),
  ("quantile_over_time", "quantile_over_time_prom"),
  ("rate", "rate_prom"),
  ("resets", "resets_prom"),
  ("stddev_over_time", "stddev_over_time_prom"),
  ("stdvar_over_time", "stdvar_over_time_prom"),
  ("sum_over_time", "sum_over_time")
] := by rfl

theorem promFunctionRegistry_expected : promFunctionRegistry = [
  ("rate_prom", "&rateOp{}"),
  ("irate_prom", "&irateOp{}"),
  ("avg_over_time", "&avgOp{}"),
  ("count_over_time", "&countOp{}"),
  ("sum_over_time", "&sumOp{}"),
  ("min_over_time", "&minOp{}"),
  ("max_over_time", "&maxOp{}"),
  ("last_over_time_prom", "&lastOp{}"),
  ("increase", "&increaseOp{}"),
  ("deriv", "&derivOp{}"),
  ("predict_linear", "&predictLinearOp{}"),
  ("delta_prom", "&deltaOp{}"),
  ("idelta_prom", "&ideltaOp{}"),
  ("stdvar_over_time_prom", "&stdVarOverTime{}"),
  ("stddev_over_time_prom", "&stdDevOverTime{}"),
  ("present_over_time_prom", "&intervalExistMark{}"),
  ("holt_winters_prom", "&holtWintersOp{}"),
  ("changes_prom", "&changesOp{}"),
  ("quantile_over_time_prom", "&quantileOverTime{}"),
  ("resets_prom", "&resetsOp{}"),
  ("absent_over_time_prom", "&intervalExistMark{}"),
  ("mad_over_time_prom", "&madOverTimeOp{}")
] := by rfl

theorem reducerOf_expected : reducerOf = [
  ("rateOp", "NewRoutineImpl(newFloatSliceReducer(floatPromRateReduce, floatPromRateMerge(true, true)), p.inOrdinal, p.outOrdinal), nil"),
  ("irateOp", "NewRoutineImpl(newFloatRateReducer(floatIRateReduce, floatIRateMerge(true), floatIRateUpdate), p.inOrdinal, p.outOrdinal), nil"),
  ("increaseOp", "NewRoutineImpl(newFloatSliceReducer(floatPromRateReduce, floatPromRateMerge(false, true)), p.inOrdinal, p.outOrdinal), nil"),
  ("deltaOp", "NewRoutineImpl(newFloatSliceReducer(floatPromRateReduce, floatPromRateMerge(false, false)), p.inOrdinal, p.outOrdinal), nil"),
  ("ideltaOp", "NewRoutineImpl(newFloatRateReducer(floatIRateReduce, floatIRateMerge(false), floatIRateUpdate), p.inOrdinal, p.outOrdinal), nil"),
  ("sumOp", "NewRoutineImpl(newFloatIncReducer(floatPromSumReduce, floatPromSumMergeFunc), p.inOrdinal, p.outOrdinal), nil"),
  ("avgOp", "NewRoutineImpl(newFloatIncReducer(floatAvgReduce, floatAvgMergeFunc), p.inOrdinal, p.outOrdinal), nil"),
  ("minOp", "NewRoutineImpl(newFloatIncReducer(floatPromMinReduce, floatPromMinMergeFunc), p.inOrdinal, p.outOrdinal), nil"),
  ("maxOp", "NewRoutineImpl(newFloatIncReducer(floatPromMaxReduce, floatPromMaxMergeFunc), p.inOrdinal, p.outOrdinal), nil"),
  ("countOp", "NewRoutineImpl(newFloatIncReducer(floatPromCountReduce, floatPromCountMergeFunc), p.inOrdinal, p.outOrdinal), nil"),
  ("lastOp", "NewRoutineImpl(newFloatIncReducer(floatPromLastReduce, floatPromLastMergeFunc), p.inOrdinal, p.outOrdinal), nil"),
  ("intervalExistMark", "NewRoutineImpl(newFloatSliceReducer(floatPresentOverTimeReduce, floatPresentOverTimeMerge()), p.inOrdinal, p.outOrdinal), nil")
] := by rfl

/-- the look-back the reference semantics uses by default is the code's default. -/
theorem lookback_is_5m : lookbackMs = 5 * 60 * 1000 := by decide

/-- every function of the checked subset has a PromQL name -> InfluxQL call -> reducer chain. -/
def subsetChain : List (String × String × String) := [
  ("rate", "rate_prom", "&rateOp{}"), ("increase", "increase", "&increaseOp{}"),
  ("delta", "delta_prom", "&deltaOp{}"), ("irate", "irate_prom", "&irateOp{}"),
  ("idelta", "idelta_prom", "&ideltaOp{}"), ("sum_over_time", "sum_over_time", "&sumOp{}"),
  ("avg_over_time", "avg_over_time", "&avgOp{}"), ("min_over_time", "min_over_time", "&minOp{}"),
  ("max_over_time", "max_over_time", "&maxOp{}"), ("count_over_time", "count_over_time", "&countOp{}"),
  ("last_over_time", "last_over_time_prom", "&lastOp{}"),
  ("present_over_time", "present_over_time_prom", "&intervalExistMark{}")]

def chainOk (c : String × String × String) : Bool :=
  rangeVectorFunctions.lookup c.1 == some c.2.1 && promFunctionRegistry.lookup c.2.1 == some c.2.2

theorem subset_chain_ok : subsetChain.all chainOk = true := by decide

/-- the duration-to-zero clamp of the store-side rate / increase has the reference's condition
(`clampApplies`: counter, increase > 0, first value >= 0 - a first value of exactly 0 is clamped). -/
theorem clamp_condition_engine_is_reference :
    clampCond_engine = ["isCounter", "reduceResult > 0", "pointCount > 0", "firstValue >= 0"] := by decide

/-- the subquery-side implementation has the same condition on the values; it lacks `isCounter`
(recorded finding: delta over a subquery is cut at the zero point). -/
theorem clamp_condition_executor_is_reference_but_counter :
    clampCond_executor = ["reduceResult > 0", "pointCount > 0", "firstValue >= 0"] := by decide

/-- only `last_over_time` keeps the metric name (the reference: `rfnLabels`). -/
theorem keepMetric_only_last : keepMetricFunctions = ["last_over_time"] := by decide

end OG.C18.Facts
