/-
C18 — property theorems about selection and structure (never about float arithmetic: every
statement holds for an arbitrary value type `V`).
-/
import OG.C18.Lemmas

namespace OG.C18

variable {V : Type}

/-! ### evaluation steps -/

/-- the evaluation timestamps of a range query are exactly `start + k·step ≤ end`. -/
theorem mem_stepsOf {start stop step t : Int} (hs : 0 < step) :
    t ∈ stepsOf start stop step ↔ ∃ k : Nat, t = start + (k : Int) * step ∧ t ≤ stop := by
  unfold stepsOf
  have h1 : ¬ step ≤ 0 := by omega
  simp only [h1, if_false]
  by_cases hlt : stop < start
  · simp only [hlt, if_true, List.not_mem_nil, false_iff]
    rintro ⟨k, rfl, hk⟩
    have : 0 ≤ (k : Int) * step := Int.mul_nonneg (Int.natCast_nonneg k) (by omega)
    omega
  · simp only [hlt, if_false, List.mem_map, List.mem_range]
    have hnn : 0 ≤ (stop - start) / step := Int.ediv_nonneg (by omega) (by omega)
    constructor
    · rintro ⟨k, hk, rfl⟩
      refine ⟨k, rfl, ?_⟩
      have hk' : (k : Int) ≤ (stop - start) / step := by omega
      have := (Int.le_ediv_iff_mul_le hs).mp hk'
      omega
    · rintro ⟨k, rfl, hk⟩
      refine ⟨k, ?_, rfl⟩
      have : (k : Int) ≤ (stop - start) / step := (Int.le_ediv_iff_mul_le hs).mpr (by omega)
      omega

/-- an instant query (`step = 0`) is evaluated at `start` only. -/
theorem stepsOf_instant (t stop : Int) : stepsOf t stop 0 = [t] := by simp [stepsOf]

example : stepsOf 10 55 15 = [10, 25, 40, 55] := by decide
example : stepsOf 10 54 15 = [10, 25, 40] := by decide

/-! ### range-vector windows -/

/-- **window_membership**: exactly the non-stale samples with `t-off-rng ≤ ts ≤ t-off` belong to
the window of evaluation time `t` — for every range, offset and `t`. -/
theorem window_membership {rng off t : Int} {pts : List (Pt V)} {p : Pt V} :
    p ∈ rangeSelect rng off t pts ↔
      p ∈ pts ∧ t - off - rng ≤ p.t ∧ p.t ≤ t - off ∧ p.stale = false := by
  simp [rangeSelect, inWindow, and_assoc]

/-- the same for the k-th step of a range query. -/
theorem window_membership_step {rng off start step : Int} {k : Nat} {pts : List (Pt V)} {p : Pt V} :
    p ∈ rangeSelect rng off (start + (k : Int) * step) pts ↔
      p ∈ pts ∧ start + (k : Int) * step - off - rng ≤ p.t ∧ p.t ≤ start + (k : Int) * step - off
        ∧ p.stale = false := window_membership

/-- boundary-exact hit: a sample exactly `rng` before the (offset) evaluation time is inside
(the window is closed on the left in the pinned Prometheus version). -/
theorem window_left_hit {rng off t : Int} {pts : List (Pt V)} {p : Pt V} (hr : 0 ≤ rng)
    (hp : p ∈ pts) (hs : p.stale = false) (ht : p.t = t - off - rng) :
    p ∈ rangeSelect rng off t pts := window_membership.mpr ⟨hp, by omega, by omega, hs⟩

/-- boundary-exact miss: one millisecond earlier is outside. -/
theorem window_left_miss {rng off t : Int} {pts : List (Pt V)} {p : Pt V}
    (ht : p.t = t - off - rng - 1) : p ∉ rangeSelect rng off t pts := by
  intro h; have := window_membership.mp h; omega

theorem window_right_hit {rng off t : Int} {pts : List (Pt V)} {p : Pt V} (hr : 0 ≤ rng)
    (hp : p ∈ pts) (hs : p.stale = false) (ht : p.t = t - off) :
    p ∈ rangeSelect rng off t pts := window_membership.mpr ⟨hp, by omega, by omega, hs⟩

theorem window_right_miss {rng off t : Int} {pts : List (Pt V)} {p : Pt V}
    (ht : p.t = t - off + 1) : p ∉ rangeSelect rng off t pts := by
  intro h; have := window_membership.mp h; omega

/-- a staleness marker is never part of a window. -/
theorem window_skips_stale {rng off t : Int} {pts : List (Pt V)} {p : Pt V} (hs : p.stale = true) :
    p ∉ rangeSelect rng off t pts := by
  intro h; have := (window_membership.mp h).2.2.2; simp [hs] at this

/-- the window keeps the order of the stored samples. -/
theorem window_sublist (rng off t : Int) (pts : List (Pt V)) :
    (rangeSelect rng off t pts).Sublist pts := List.filter_sublist

example : rangeSelect 60 0 100 [⟨39, (1:Int), false⟩, ⟨40, 2, false⟩, ⟨70, 3, true⟩, ⟨100, 4, false⟩, ⟨101, 5, false⟩]
    = [⟨40, 2, false⟩, ⟨100, 4, false⟩] := by decide

/-! ### instant selection: look-back and staleness -/

/-- **lookback_selects_latest**: on ascending samples an instant selector returns `v` exactly
when `v` is the value of the latest sample not after `t-off`, that sample is at most the
look-back old (exactly look-back old still counts) and is not a staleness marker. -/
theorem lookback_selects_latest {lb off t : Int} {pts : List (Pt V)} {v : V} (hs : Ascending pts) :
    instantSelect lb off t pts = some v ↔
      ∃ p ∈ pts, p.v = v ∧ p.t ≤ t - off ∧ t - off - lb ≤ p.t ∧ p.stale = false ∧
        ∀ q ∈ pts, q.t ≤ t - off → q.t ≤ p.t := by
  unfold instantSelect
  constructor
  · cases h : latestLE (t - off) pts with
    | none => simp
    | some p =>
      have hc := (latestLE_eq_some_iff hs).mp h
      by_cases h1 : p.t < t - off - lb
      · simp [h1]
      · by_cases h2 : p.stale = true
        · simp [h1, h2]
        · simp only [h1, if_false, h2, Bool.false_eq_true, Option.some.injEq]
          intro hv
          exact ⟨p, hc.1, hv, hc.2.1, by omega, by simpa using h2, hc.2.2⟩
  · rintro ⟨p, hp, hv, hle, hlb, hst, hmax⟩
    have : latestLE (t - off) pts = some p := (latestLE_eq_some_iff hs).mpr ⟨hp, hle, hmax⟩
    have h1 : ¬ p.t < t - off - lb := by omega
    simp [this, h1, hst, hv]

/-- **stale_marker_hides**: when the latest sample not after `t-off` is a staleness marker the
series is absent, however fresh earlier samples are. -/
theorem stale_marker_hides {lb off t : Int} {pts : List (Pt V)} {p : Pt V} (hs : Ascending pts)
    (hp : p ∈ pts) (hle : p.t ≤ t - off) (hmax : ∀ q ∈ pts, q.t ≤ t - off → q.t ≤ p.t)
    (hst : p.stale = true) : instantSelect lb off t pts = none := by
  have : latestLE (t - off) pts = some p := (latestLE_eq_some_iff hs).mpr ⟨hp, hle, hmax⟩
  unfold instantSelect
  simp only [this]
  by_cases h1 : p.t < t - off - lb <;> simp [h1, hst]

/-- a sample older than the look-back is not returned — nor is anything before it. -/
theorem lookback_expires {lb off t : Int} {pts : List (Pt V)} (hs : Ascending pts)
    (hold : ∀ q ∈ pts, q.t ≤ t - off → q.t < t - off - lb) : instantSelect lb off t pts = none := by
  cases h : instantSelect lb off t pts with
  | none => rfl
  | some v =>
    obtain ⟨p, hp, _, hle, hlb, _, _⟩ := (lookback_selects_latest hs).mp h
    have := hold p hp hle
    omega

/-- **lookback_monotone**: a longer look-back never loses an answer. -/
theorem lookback_monotone {lb lb' off t : Int} {pts : List (Pt V)} {v : V} (hs : Ascending pts)
    (hle : lb ≤ lb') (h : instantSelect lb off t pts = some v) : instantSelect lb' off t pts = some v := by
  obtain ⟨p, hp, hv, h1, h2, h3, h4⟩ := (lookback_selects_latest hs).mp h
  exact (lookback_selects_latest hs).mpr ⟨p, hp, hv, h1, by omega, h3, h4⟩

-- boundary: exactly look-back old is a hit, one millisecond older a miss; a marker hides.
example : instantSelect 300 0 1000 [⟨700, (7:Int), false⟩] = some 7 := by decide
example : instantSelect 300 0 1001 [⟨700, (7:Int), false⟩] = none := by decide
example : instantSelect 300 10 1000 [⟨700, (7:Int), false⟩, ⟨900, 8, false⟩, ⟨995, 9, false⟩] = some 8 := by decide
example : instantSelect 300 0 1000 [⟨700, (7:Int), false⟩, ⟨900, 8, true⟩] = none := by decide
example : Ascending [(⟨700, (7:Int), false⟩ : Pt Int), ⟨900, 8, true⟩] := by
  simp [Ascending]

/-! ### a range query is the list of instant queries at its steps -/

section vals
variable [Val V]

theorem hasDup_iff_not_nodup {α : Type} [BEq α] [LawfulBEq α] : ∀ (l : List α), hasDup l = true ↔ ¬ l.Nodup
  | [] => by simp [hasDup]
  | a :: as => by
    have ih := hasDup_iff_not_nodup as
    simp only [hasDup, Bool.or_eq_true, List.contains_iff_mem, List.nodup_cons, ih]
    constructor
    · rintro (h | h)
      · exact fun hn => hn.1 h
      · exact fun hn => h hn.2
    · intro h
      by_cases hm : a ∈ as
      · exact Or.inl hm
      · exact Or.inr (fun hn => h ⟨hm, hn⟩)

theorem hasDup_sublist {α : Type} [BEq α] [LawfulBEq α] {l₁ l₂ : List α} (h : l₁.Sublist l₂)
    (hd : hasDup l₂ = false) : hasDup l₁ = false := by
  cases h1 : hasDup l₁ with
  | false => rfl
  | true =>
    have hn2 : l₂.Nodup := by
      by_cases hn : l₂.Nodup
      · exact hn
      · have := (hasDup_iff_not_nodup l₂).mpr hn; simp [hd] at this
    have := (hasDup_iff_not_nodup l₁).mp h1
    exact absurd (hn2.sublist h) this

theorem rfnOutLabels_sublist (db : List (Series V)) (fn : RFn) (rng : Int) (ms : List Matcher) (off : Int)
    (steps : List Int) (t : Int) (ht : t ∈ steps) :
    (rfnOutLabels db fn rng ms off [t]).Sublist (rfnOutLabels db fn rng ms off steps) := by
  unfold rfnOutLabels
  apply List.Sublist.map
  induction db with
  | nil => simp
  | cons s rest ih =>
    simp only [List.filter_cons]
    by_cases h1 : (matchAll ms s.labels && [t].any fun t => (applyRFn fn rng off t s.pts).isSome) = true
    · have h2 : (matchAll ms s.labels && steps.any fun t => (applyRFn fn rng off t s.pts).isSome) = true := by
        simp only [Bool.and_eq_true, List.any_cons, List.any_nil, Bool.or_false] at h1
        simp only [Bool.and_eq_true, List.any_eq_true]
        exact ⟨h1.1, t, ht, h1.2⟩
      simp only [h1, h2, if_true]
      exact List.Sublist.cons_cons _ ih
    · simp only [h1, Bool.false_eq_true, if_false]
      split
      · exact List.Sublist.cons _ ih
      · exact ih

/-- a node that maps a per-step function over its child's values inherits pointwiseness. -/
theorem pointwise_unary (db : List (Series V)) (lb : Int) (e : Expr V) (f : Value V → Except Err (Value V))
    (ih : ∀ (steps : List Int) (xs : List (Value V)), evalSteps db lb steps e = .ok xs →
      xs.length = steps.length ∧ ∀ (i : Nat) (h : i < steps.length) (h' : i < xs.length),
        evalSteps db lb [steps[i]] e = .ok [xs[i]])
    (steps : List Int) (ys xs : List (Value V)) (he : evalSteps db lb steps e = .ok ys) (h : mapE f ys = .ok xs)
    {node : Expr V}
    (hnode : ∀ t, evalSteps db lb [t] node =
      (match evalSteps db lb [t] e with
       | .error err => .error err
       | .ok zs => mapE f zs)) :
    xs.length = steps.length ∧ ∀ (i : Nat) (h : i < steps.length) (h' : i < xs.length),
      evalSteps db lb [steps[i]] node = .ok [xs[i]] := by
  obtain ⟨hlen, hpt⟩ := ih steps ys he
  have hl := mapE_ok_length h
  refine ⟨by omega, ?_⟩
  intro i hi hi'
  have hy : i < ys.length := by omega
  have := mapE_ok_get h i hy hi'
  rw [hnode, hpt i hi hy]
  exact mapE_singleton this

/-- the same for a node that combines the values of two children step by step. -/
theorem pointwise_binary (db : List (Series V)) (lb : Int) (l r : Expr V)
    (f : Value V × Value V → Except Err (Value V))
    (ihl : ∀ (steps : List Int) (xs : List (Value V)), evalSteps db lb steps l = .ok xs →
      xs.length = steps.length ∧ ∀ (i : Nat) (h : i < steps.length) (h' : i < xs.length),
        evalSteps db lb [steps[i]] l = .ok [xs[i]])
    (ihr : ∀ (steps : List Int) (xs : List (Value V)), evalSteps db lb steps r = .ok xs →
      xs.length = steps.length ∧ ∀ (i : Nat) (h : i < steps.length) (h' : i < xs.length),
        evalSteps db lb [steps[i]] r = .ok [xs[i]])
    (steps : List Int) (ys zs xs : List (Value V))
    (hl : evalSteps db lb steps l = .ok ys) (hr : evalSteps db lb steps r = .ok zs)
    (h : mapE f (ys.zip zs) = .ok xs)
    {node : Expr V}
    (hnode : ∀ t, evalSteps db lb [t] node =
      (match evalSteps db lb [t] l with
       | .error err => .error err
       | .ok as =>
         match evalSteps db lb [t] r with
         | .error err => .error err
         | .ok bs => mapE f (as.zip bs))) :
    xs.length = steps.length ∧ ∀ (i : Nat) (h : i < steps.length) (h' : i < xs.length),
      evalSteps db lb [steps[i]] node = .ok [xs[i]] := by
  obtain ⟨hlenl, hptl⟩ := ihl steps ys hl
  obtain ⟨hlenr, hptr⟩ := ihr steps zs hr
  have hlen := mapE_ok_length h
  simp only [List.length_zip] at hlen
  refine ⟨by omega, ?_⟩
  intro i hi hi'
  have hy : i < ys.length := by omega
  have hz : i < zs.length := by omega
  have hyz : i < (ys.zip zs).length := by simp only [List.length_zip]; omega
  have := mapE_ok_get h i hyz hi'
  simp only [List.getElem_zip] at this
  rw [hnode, hptl i hi hy, hptr i hi hz]
  exact mapE_singleton this

/-- node-wise: when the evaluation over `steps` succeeds it has one value per step, and the
value at step `i` is what the evaluation over the single step `steps[i]` yields. -/
theorem evalSteps_pointwise (db : List (Series V)) (lb : Int) (e : Expr V) :
    ∀ (steps : List Int) (xs : List (Value V)), evalSteps db lb steps e = .ok xs →
      xs.length = steps.length ∧
      ∀ (i : Nat) (h : i < steps.length) (h' : i < xs.length),
        evalSteps db lb [steps[i]] e = .ok [xs[i]] := by
  induction e with
  | num v =>
    intro steps xs h
    simp only [evalSteps, Except.ok.injEq] at h
    subst h
    simp [evalSteps]
  | sel ms off atT =>
    intro steps xs h
    simp only [evalSteps, Except.ok.injEq] at h
    subst h
    simp [evalSteps]
  | rfn fn rng ms off atT =>
    intro steps xs h
    unfold evalSteps at h
    by_cases hd : hasDup (rfnOutLabels db fn rng ms off (steps.map (tAt atT))) = true
    · simp [hd] at h
    · simp only [hd, Bool.false_eq_true, if_false, Except.ok.injEq] at h
      subst h
      refine ⟨by simp, ?_⟩
      intro i hi hi'
      have hmem : tAt atT steps[i] ∈ steps.map (tAt atT) := List.mem_map_of_mem (List.getElem_mem hi)
      have hsub := rfnOutLabels_sublist db fn rng ms off (steps.map (tAt atT)) (tAt atT steps[i]) hmem
      have hd1 : hasDup (rfnOutLabels db fn rng ms off [tAt atT steps[i]]) = false :=
        hasDup_sublist hsub (by simpa using hd)
      unfold evalSteps
      simp [hd1]
  | agg op without names e ih =>
    intro steps xs h
    unfold evalSteps at h
    cases he : evalSteps db lb steps e with
    | error err => simp [he] at h
    | ok ys =>
      simp only [he] at h
      exact pointwise_unary db lb e _ ih steps ys xs he h (by intro t; rw [evalSteps]; first | rfl | (cases evalSteps db lb [t] e <;> rfl) | (cases evalSteps db lb [t] l <;> first | rfl | (cases evalSteps db lb [t] r <;> rfl)))
  | bin op isBool mode names l r ihl ihr =>
    intro steps xs h
    unfold evalSteps at h
    cases hl : evalSteps db lb steps l with
    | error err => simp [hl] at h
    | ok ys =>
      cases hr : evalSteps db lb steps r with
      | error err => simp [hl, hr] at h
      | ok zs =>
        simp only [hl, hr] at h
        exact pointwise_binary db lb l r _ ihl ihr steps ys zs xs hl hr h (by intro t; rw [evalSteps]; first | rfl | (cases evalSteps db lb [t] e <;> rfl) | (cases evalSteps db lb [t] l <;> first | rfl | (cases evalSteps db lb [t] r <;> rfl)))
  | setop op mode names l r ihl ihr =>
    intro steps xs h
    unfold evalSteps at h
    cases hl : evalSteps db lb steps l with
    | error err => simp [hl] at h
    | ok ys =>
      cases hr : evalSteps db lb steps r with
      | error err => simp [hl, hr] at h
      | ok zs =>
        simp only [hl, hr] at h
        exact pointwise_binary db lb l r _ ihl ihr steps ys zs xs hl hr h (by intro t; rw [evalSteps]; first | rfl | (cases evalSteps db lb [t] e <;> rfl) | (cases evalSteps db lb [t] l <;> first | rfl | (cases evalSteps db lb [t] r <;> rfl)))
  | binG op isBool mode names incl left l r ihl ihr =>
    intro steps xs h
    unfold evalSteps at h
    cases hl : evalSteps db lb steps l with
    | error err => simp [hl] at h
    | ok ys =>
      cases hr : evalSteps db lb steps r with
      | error err => simp [hl, hr] at h
      | ok zs =>
        simp only [hl, hr] at h
        exact pointwise_binary db lb l r _ ihl ihr steps ys zs xs hl hr h (by intro t; rw [evalSteps]; first | rfl | (cases evalSteps db lb [t] e <;> rfl) | (cases evalSteps db lb [t] l <;> first | rfl | (cases evalSteps db lb [t] r <;> rfl)))
  | aggK op param without names e ih =>
    intro steps xs h
    unfold evalSteps at h
    cases he : evalSteps db lb steps e with
    | error err => simp [he] at h
    | ok ys =>
      simp only [he] at h
      exact pointwise_unary db lb e _ ih steps ys xs he h (by intro t; rw [evalSteps]; first | rfl | (cases evalSteps db lb [t] e <;> rfl) | (cases evalSteps db lb [t] l <;> first | rfl | (cases evalSteps db lb [t] r <;> rfl)))
  | tsSel ms off atT =>
    intro steps xs h
    unfold evalSteps at h
    have hl := mapE_ok_length h
    refine ⟨hl, ?_⟩
    intro i hi hi'
    have := mapE_ok_get h i hi hi'
    unfold evalSteps
    exact mapE_singleton this
  | tsOf e ih =>
    intro steps xs h
    unfold evalSteps at h
    cases he : evalSteps db lb steps e with
    | error err => simp [he] at h
    | ok ys =>
      simp only [he] at h
      obtain ⟨hlen, hpt⟩ := ih steps ys he
      have hl := mapE_ok_length h
      simp only [List.length_zip] at hl
      refine ⟨by omega, ?_⟩
      intro i hi hi'
      have hy : i < ys.length := by omega
      have hz : i < (steps.zip ys).length := by simp only [List.length_zip]; omega
      have := mapE_ok_get h i hz hi'
      simp only [List.getElem_zip] at this
      unfold evalSteps
      rw [hpt i hi hy]
      simp only [List.zip_cons_cons, List.zip_nil_right]
      exact mapE_singleton this
  | subq fn rng stp off e _ =>
    intro steps xs h
    unfold evalSteps at h
    have hl := mapE_ok_length h
    refine ⟨hl, ?_⟩
    intro i hi hi'
    have := mapE_ok_get h i hi hi'
    unfold evalSteps
    exact mapE_singleton this

/-- **range_eq_instants**: a successful range query — for every start, end, step — answers at
each of its evaluation timestamps exactly what the instant query at that timestamp answers,
and has one entry per step. -/
theorem range_eq_instants (db : List (Series V)) (lb start stop step : Int) (e : Expr V)
    (res : List (Int × Value V)) (h : evalRange db lb start stop step e = .ok res) :
    res.map (·.1) = stepsOf start stop step ∧
      ∀ tv ∈ res, evalInstant db lb tv.1 e = .ok tv.2 := by
  unfold evalRange at h
  cases he : evalSteps db lb (stepsOf start stop step) e with
  | error err => simp [he] at h
  | ok vs =>
    simp only [he, Except.ok.injEq] at h
    subst h
    obtain ⟨hlen, hpt⟩ := evalSteps_pointwise db lb e _ vs he
    refine ⟨?_, ?_⟩
    · rw [List.map_fst_zip]; omega
    · intro tv htv
      obtain ⟨i, hi, rfl⟩ := List.mem_iff_getElem.mp htv
      simp only [List.length_zip] at hi
      have h1 : i < (stepsOf start stop step).length := by omega
      have h2 : i < vs.length := by omega
      simp only [List.getElem_zip]
      unfold evalInstant
      rw [hpt i h1 h2]

end vals

end OG.C18
