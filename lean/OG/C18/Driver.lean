/-
C18 — line-protocol driver of the reference semantics (core only), values are `Float`.

  samples <id> <series>…                      →  ok <series> <points>
        series = `l=v,l=v@t:tok,t:tok,…`; value token: `S` staleness marker, `N` NaN, `0`,
        else the IEEE-754 bit pattern in decimal
  ref|og <id> <start> <end> <step> <lb|D> <expr…> vals <tok,tok,…|->   (D = the default look-back)
        →  `err <class>` | `m <n> {labels} t t … ; … ` followed by `= <values>` when the
           expression is exact on the sample set (values compared bit for bit), else `~` when
           every value given on the op line is within the tolerance of the model's value
           (relative 1e-9 or absolute 1e-9), else `! <model values>`
  og-dev <class> …                            →  dev <class>   (an openGemini deviation the harness
                                                  classified; the model has nothing to add)
expr (prefix): `num tok` | `sel n (l:name kind (v:lit | rx…))* off` | `rfn fn rng sel…` |
  `agg op by|without n l:name* e` | `bin op 0|1 none|on|ign n l:name* lhs rhs`;
  rx: `lit:s` | `any` | `star r` | `plus r` | `opt r` | `alt a b` | `cat a b`.
-/
import OG.C18.Model
import OG.Generated.C18

namespace OG.C18

instance : Val Float where
  ofInt := Float.ofInt
  add := (· + ·)
  sub := (· - ·)
  mul := (· * ·)
  div := (· / ·)
  lt a b := a < b
  le a b := a ≤ b
  beq a b := a == b
  isNaN := Float.isNaN
  isInf := Float.isInf
  abs := Float.abs
  c1_1 := 1.1
  toIntFloor f := f.floor.toInt64.toInt

namespace Drv

/-- the server's default look-back, regenerated from promql2influxql/constant.go. -/
def lookbackMs : Int := OG.Gen.C18.lookbackMs

def parseLb (s : String) : Option Int := if s == "D" then some lookbackMs else s.toInt?

def valTok (f : Float) : String :=
  if f.isNaN then "N" else if f == 0 then "0" else toString f.toBits.toNat

/-- (value, stale) -/
def parseVal (s : String) : Option (Float × Bool) :=
  if s == "S" then some (0.0 / 0.0, true)
  else if s == "N" then some (0.0 / 0.0, false)
  else (s.toNat?).map (fun n => (Float.ofBits (UInt64.ofNat n), false))

def parseLabels (s : String) : Option Labels :=
  if s.isEmpty then some [] else
  (s.splitOn ",").mapM (fun kv =>
    match kv.splitOn "=" with
    | [k, v] => some (k, v)
    | _ => none)

def parsePt (s : String) : Option (Pt Float) :=
  match s.splitOn ":" with
  | [t, v] => do
    let t ← t.toInt?
    let (f, st) ← parseVal v
    some { t := t, v := f, stale := st }
  | _ => none

def parseSeries (s : String) : Option (Series Float) :=
  match s.splitOn "@" with
  | [ls, ps] => do
    let ls ← parseLabels ls
    let ps ← (ps.splitOn ",").mapM parsePt
    some { labels := ls, pts := ps }
  | _ => none

def stripPrefix? (p s : String) : Option String :=
  if s.startsWith p then some (s.drop p.length).toString else none

partial def parseRx : List String → Option (Rx × List String)
  | "any" :: rest => some (.any, rest)
  | "star" :: rest => do let (a, rest) ← parseRx rest; some (.star a, rest)
  | "plus" :: rest => do let (a, rest) ← parseRx rest; some (.plus a, rest)
  | "opt" :: rest => do let (a, rest) ← parseRx rest; some (.opt a, rest)
  | "alt" :: rest => do
    let (a, rest) ← parseRx rest
    let (b, rest) ← parseRx rest
    some (.alt a b, rest)
  | "cat" :: rest => do
    let (a, rest) ← parseRx rest
    let (b, rest) ← parseRx rest
    some (.cat a b, rest)
  | tok :: rest => do
    let s ← stripPrefix? "lit:" tok
    some (.lit s.toList, rest)
  | [] => none

def parseKind : String → Option MatchKind
  | "eq" => some .eq | "ne" => some .ne | "re" => some .re | "nre" => some .nre | _ => none

partial def parseMatchers : Nat → List String → Option (List Matcher × List String)
  | 0, rest => some ([], rest)
  | n + 1, l :: k :: rest => do
    let name ← stripPrefix? "l:" l
    let kind ← parseKind k
    let (m, rest) ← (match kind with
      | .eq | .ne =>
        match rest with
        | v :: rest => do
          let lit ← stripPrefix? "v:" v
          some ({ label := name, kind := kind, lit := lit : Matcher }, rest)
        | [] => none
      | .re | .nre => do
        let (r, rest) ← parseRx rest
        some ({ label := name, kind := kind, rx := r : Matcher }, rest))
    let (ms, rest) ← parseMatchers n rest
    some (m :: ms, rest)
  | _, _ => none

/-- `sel n matchers… off at` (`at` = `-` or the `@` timestamp in ms) -/
def parseSel : List String → Option (List Matcher × Int × Option Int × List String)
  | "sel" :: n :: rest => do
    let n ← n.toNat?
    let (ms, rest) ← parseMatchers n rest
    match rest with
    | off :: atTok :: rest => do
      let off ← off.toInt?
      let atT ← (if atTok == "-" then some none else (atTok.toInt?).map some)
      some (ms, off, atT, rest)
    | _ => none
  | _ => none

def parseRFn : String → Option RFn
  | "rate" => some .rate | "increase" => some .increase | "delta" => some .delta
  | "irate" => some .irate | "idelta" => some .idelta
  | "sum_over_time" => some .sumOT | "avg_over_time" => some .avgOT
  | "min_over_time" => some .minOT | "max_over_time" => some .maxOT
  | "count_over_time" => some .countOT | "last_over_time" => some .lastOT
  | "present_over_time" => some .presentOT
  | _ => none

def parseAggOp : String → Option AggOp
  | "sum" => some .sum | "avg" => some .avg | "min" => some .min | "max" => some .max
  | "count" => some .count | _ => none

def parseBinOp : String → Option BinOp
  | "+" => some .add | "-" => some .sub | "*" => some .mul | "/" => some .div
  | "==" => some .eq | "!=" => some .ne | "<" => some .lt | "<=" => some .le
  | ">" => some .gt | ">=" => some .ge | _ => none

def parseNames : Nat → List String → Option (List String × List String)
  | 0, rest => some ([], rest)
  | n + 1, l :: rest => do
    let name ← stripPrefix? "l:" l
    let (ns, rest) ← parseNames n rest
    some (name :: ns, rest)
  | _, _ => none

partial def parseExpr : List String → Option (Expr Float × List String)
  | "num" :: v :: rest => do
    let (f, _) ← parseVal v
    some (.num f, rest)
  | "sel" :: rest => do
    let (ms, off, atT, rest) ← parseSel ("sel" :: rest)
    some (.sel ms off atT, rest)
  | "rfn" :: fn :: rng :: rest => do
    let fn ← parseRFn fn
    let rng ← rng.toInt?
    let (ms, off, atT, rest) ← parseSel rest
    some (.rfn fn rng ms off atT, rest)
  | "tssel" :: rest => do
    let (ms, off, atT, rest) ← parseSel rest
    some (.tsSel ms off atT, rest)
  | "ts" :: rest => do
    let (e, rest) ← parseExpr rest
    some (.tsOf e, rest)
  | "subq" :: fn :: rng :: stp :: off :: rest => do
    let fn ← parseRFn fn
    let rng ← rng.toInt?
    let stp ← stp.toInt?
    let off ← off.toInt?
    let (e, rest) ← parseExpr rest
    some (.subq fn rng stp off e, rest)
  | "set" :: op :: md :: n :: rest => do
    let op ← (match op with | "and" => some SetOp.and | "or" => some .or | "unless" => some .unless | _ => none)
    let mode ← (match md with
      | "none" => some MatchMode.none | "on" => some .on | "ign" => some .ignoring | _ => none)
    let n ← n.toNat?
    let (names, rest) ← parseNames n rest
    let (l, rest) ← parseExpr rest
    let (r, rest) ← parseExpr rest
    some (.setop op mode names l r, rest)
  | "bing" :: op :: b :: md :: n :: rest => do
    let op ← parseBinOp op
    let isBool ← (if b == "1" then some true else if b == "0" then some false else none)
    let mode ← (match md with
      | "none" => some MatchMode.none | "on" => some .on | "ign" => some .ignoring | _ => none)
    let n ← n.toNat?
    let (names, rest) ← parseNames n rest
    match rest with
    | side :: m :: rest => do
      let left ← (if side == "left" then some true else if side == "right" then some false else none)
      let m ← m.toNat?
      let (incl, rest) ← parseNames m rest
      let (l, rest) ← parseExpr rest
      let (r, rest) ← parseExpr rest
      some (.binG op isBool mode names incl left l r, rest)
    | _ => none
  | "aggk" :: op :: param :: md :: n :: rest => do
    let op ← (match op with | "topk" => some KAgg.topk | "bottomk" => some .bottomk | "quantile" => some .quantile | _ => none)
    let (pv, _) ← parseVal param
    let without ← (if md == "by" then some false else if md == "without" then some true else none)
    let n ← n.toNat?
    let (names, rest) ← parseNames n rest
    let (e, rest) ← parseExpr rest
    some (.aggK op pv without names e, rest)
  | "agg" :: op :: md :: n :: rest => do
    let op ← parseAggOp op
    let without ← (if md == "by" then some false else if md == "without" then some true else none)
    let n ← n.toNat?
    let (names, rest) ← parseNames n rest
    let (e, rest) ← parseExpr rest
    some (.agg op without names e, rest)
  | "bin" :: op :: b :: md :: n :: rest => do
    let op ← parseBinOp op
    let isBool ← (if b == "1" then some true else if b == "0" then some false else none)
    let mode ← (match md with
      | "none" => some MatchMode.none | "on" => some .on | "ign" => some .ignoring | _ => none)
    let n ← n.toNat?
    let (names, rest) ← parseNames n rest
    let (l, rest) ← parseExpr rest
    let (r, rest) ← parseExpr rest
    some (.bin op isBool mode names l r, rest)
  | _ => none

/-- a result matrix: per series its points, series in canonical order. -/
abbrev Matrix := List (Labels × List (Int × Float))

def matInsert (k : Labels) (p : Int × Float) : Matrix → Matrix
  | [] => [(k, [p])]
  | (k', ps) :: rest => if k' = k then (k', ps ++ [p]) :: rest else (k', ps) :: matInsert k p rest

def assemble (xs : List (Int × Value Float)) : Option Matrix :=
  xs.foldlM (fun (acc : Matrix) (t, v) =>
    match v with
    | .vector ys => some (ys.foldl (fun a (ls, f) => matInsert ls (t, f) a) acc)
    | .scalar _ => none) []

def canon (m : Matrix) : Matrix :=
  (m.map (fun s => (s.1.key, s))).mergeSort (fun a b => !(b.1 < a.1)) |>.map (·.2)

def structureText (m : Matrix) : String :=
  m.foldl (fun acc s =>
    acc ++ " " ++ s.1.key ++ s.2.foldl (fun a p => a ++ " " ++ toString p.1) "" ++ " ;") ("m " ++ toString m.length)

def valuesOf (m : Matrix) : List Float := m.flatMap (fun s => s.2.map (·.2))

def valuesText (vs : List Float) : String :=
  if vs.isEmpty then "-" else ",".intercalate (vs.map valTok)

def relTol : Float := 1e-9
def absTol : Float := 1e-9

def closeEnough (a b : Float) : Bool :=
  if a.isNaN || b.isNaN then a.isNaN && b.isNaN
  else if a.isInf || b.isInf then a == b
  else if a == b then true
  else
    let d := (a - b).abs
    let m := if a.abs < b.abs then b.abs else a.abs
    d ≤ relTol * m || d ≤ absTol

def allClose : List Float → List Float → Bool
  | [], [] => true
  | a :: as, b :: bs => closeEnough a b && allClose as bs
  | _, _ => false

def parseGiven (s : String) : Option (List Float) :=
  if s == "-" then some [] else (s.splitOn ",").mapM (fun t => (parseVal t).map (·.1))

/-- is every operation of the expression exact on small integers? (same rule as the harness:
then values are compared bit for bit) -/
def exactExpr : Expr Float → Bool
  | .num v => v == v.floor && v.abs ≤ 1000
  | .sel _ _ _ => true
  | .tsSel _ _ _ => false
  | .tsOf _ => false
  | .subq fn _ _ _ e =>
    (match fn with
     | .lastOT | .minOT | .maxOT | .countOT | .sumOT | .presentOT => true
     | _ => false) && exactExpr e
  | .setop _ _ _ l r => exactExpr l && exactExpr r
  | .binG op _ _ _ _ _ l r => op != .div && op != .mul && exactExpr l && exactExpr r
  | .aggK op _ _ _ e => op != .quantile && exactExpr e
  | .rfn fn _ _ _ _ =>
    (match fn with
     | .lastOT | .minOT | .maxOT | .countOT | .sumOT | .presentOT => true
     | _ => false)
  | .agg op _ _ e => op != .avg && exactExpr e
  | .bin op _ _ _ l r =>
    op != .div && !(op == .mul && !(match l with | .num _ => true | _ => false) && !(match r with | .num _ => true | _ => false))
      && exactExpr l && exactExpr r

structure St where
  dbs : List (Nat × List (Series Float) × Bool) := []   -- id, series, allInt

def isSmallInt (f : Float) : Bool := f == f.floor && f.abs ≤ 1e9

def answerQuery (st : St) (toks : List String) : String :=
  match toks with
  | id :: start :: stop :: step :: lb :: rest =>
    match id.toNat?, start.toInt?, stop.toInt?, step.toInt?, parseLb lb, parseExpr rest with
    | some id, some start, some stop, some step, some lb, some (e, ["vals", given]) =>
      match st.dbs.find? (fun d => d.1 == id), parseGiven given with
      | some (_, db, allInt), some given =>
        match evalRange db lb start stop step e with
        | .error err => "err " ++ err.text
        | .ok xs =>
          match assemble xs with
          | none => "err scalar result"
          | some m =>
            let m := canon m
            let vs := valuesOf m
            if allInt && exactExpr e then structureText m ++ " = " ++ valuesText vs
            else if allClose vs given then structureText m ++ " ~"
            else structureText m ++ " ! " ++ valuesText vs
      | _, _ => "bad-op"
    | _, _, _, _, _, _ => "bad-op"
  | _ => "bad-op"

def step (st : St) (line : String) : St × String :=
  match (line.splitOn " ").filter (· ≠ "") with
  | "samples" :: id :: rest =>
    match id.toNat?, rest.mapM parseSeries with
    | some id, some db =>
      let npts := (db.map (·.pts.length)).foldl (· + ·) 0
      let allInt := db.all (fun s => s.pts.all (fun p => p.stale || isSmallInt p.v))
      ({ dbs := [(id, db, allInt)] }, s!"ok {db.length} {npts}")
    | _, _ => (st, "bad-op")
  | "ref" :: rest => (st, answerQuery st rest)
  | "og" :: rest => (st, answerQuery st rest)
  | "og-dev" :: cls :: _ => (st, "dev " ++ cls)
  | _ => (st, "bad-op")

partial def loop (h : IO.FS.Stream) (out : IO.FS.Stream) (st : St) : IO Unit := do
  let line ← h.getLine
  if line.isEmpty then return ()
  let line := (line.trimAsciiEnd).toString
  let (st, ans) := step st line
  out.putStrLn ans
  loop h out st

end Drv

def main : IO Unit := do
  let stdin ← IO.getStdin
  let stdout ← IO.getStdout
  Drv.loop stdin stdout {}

end OG.C18

def main : IO Unit := OG.C18.main
