/-
C18 — the openGemini side where it is logic: which stored samples the transpiler's time range
and the range/instant vector cursors hand to a reducer for one output timestamp.

Transcribed from (texts regenerated into OG.Gen.C18 and compared in Facts.lean):
* promql2influxql/selector.go `transpileVectorSelector2ConditionExpr`:
    `time >= minT - (range | look-back) - offset  AND  time <= maxT - offset`;
* engine/prom_range_vector_cursor.go `NewRangeVectorCursor`: `startSample = start + rangeDuration`,
    `endSample = start + rangeDuration + (end-(start+rangeDuration))/step*step`;
  `getIntervalIndex`: for `end := firstStep; end <= lastStep; end += step`, `start := end - rangeDuration`,
    first pointer advances while `times[i] < start`, second while `times[j] <= end`; the slice
    `[i, j)` is the window; the output timestamp is `end + offset`;
* engine/prom_instant_vector_cursor.go: the same with `lookUpDelta` for `rangeDuration`.
The cursors work in nanoseconds; every quantity here is a whole number of milliseconds, so the
arithmetic is scale-free.
-/
import OG.C18.Props2

namespace OG.C18

/-- the parameters the transpiler hands down for one selector. `dur` is the range of a range
selector, the look-back of an instant selector. -/
structure OGQuery where
  minT : Int      -- first evaluation timestamp
  maxT : Int      -- end of the query
  step : Int
  dur : Int
  off : Int
deriving Repr, DecidableEq

/-- `WHERE time >= lo AND time <= hi` of the generated InfluxQL statement. -/
def OGQuery.lo (q : OGQuery) : Int := q.minT - q.dur - q.off
def OGQuery.hi (q : OGQuery) : Int := q.maxT - q.off
/-- `c.startSample = c.start + c.rangeDuration`. -/
def OGQuery.startSample (q : OGQuery) : Int := q.lo + q.dur
/-- `c.endSample` (Go `/` truncates). -/
def OGQuery.endSample (q : OGQuery) : Int :=
  if q.step = 0 then q.startSample
  else q.lo + q.dur + Int.tdiv (q.hi - (q.lo + q.dur)) q.step * q.step
/-- the k-th step in stored time, and the timestamp put on its output row. -/
def OGQuery.stepEnd (q : OGQuery) (k : Nat) : Int := q.startSample + (k : Int) * q.step
def OGQuery.outTime (q : OGQuery) (k : Nat) : Int := q.stepEnd k + q.off

/-- the two-pointer selection of `getIntervalIndex` / `computeIntervalIndex`; a pointer is
represented by the suffix of the record it points at. Returns the window of every step. -/
def ogWindows (dur : Int) : List Int → List Int → List Int → List (List Int)
  | _, _, [] => []
  | lo, hi, e :: ends =>
    let lo' := lo.dropWhile (fun t => decide (t < e - dur))    -- `if times[i] >= start { break }; i++`
    let hi' := hi.dropWhile (fun t => decide (t ≤ e))          -- `if times[j] > end { break }; j++`
    lo'.take (lo'.length - hi'.length) :: ogWindows dur lo' hi' ends

/-! ### bounds -/

/-- the output timestamps of openGemini's steps are the query's evaluation timestamps. -/
theorem og_outTime (q : OGQuery) (k : Nat) : q.outTime k = q.minT + (k : Int) * q.step := by
  simp [OGQuery.outTime, OGQuery.stepEnd, OGQuery.startSample, OGQuery.lo]; omega

/-- the window bounds of step `k` are the reference bounds of its output timestamp: a stored
timestamp is in `[stepEnd - dur, stepEnd]` exactly when the reference window of `outTime k`
(range `dur`, offset `off`) contains it. -/
theorem og_bounds_eq_prom_bounds (q : OGQuery) (k : Nat) (ts : Int) :
    (decide (q.stepEnd k - q.dur ≤ ts) && decide (ts ≤ q.stepEnd k)) = inWindow q.dur q.off (q.outTime k) ts := by
  simp only [inWindow, OGQuery.outTime]
  congr 2 <;> (apply propext; constructor <;> intro h <;> omega)

/-- openGemini evaluates a step exactly when the reference does: `stepEnd k ≤ endSample` iff
`outTime k ≤ maxT`. -/
theorem og_steps_eq_prom_steps (q : OGQuery) (hs : 0 < q.step) (hm : q.minT ≤ q.maxT) (k : Nat) :
    q.stepEnd k ≤ q.endSample ↔ q.outTime k ≤ q.maxT := by
  have hne : q.step ≠ 0 := by omega
  have hd : q.hi - (q.lo + q.dur) = q.maxT - q.minT := by simp [OGQuery.hi, OGQuery.lo]; omega
  simp only [OGQuery.stepEnd, OGQuery.endSample, OGQuery.startSample, hne, if_false, hd, og_outTime]
  have hnn : 0 ≤ q.maxT - q.minT := by omega
  rw [Int.tdiv_eq_ediv_of_nonneg hnn]
  constructor
  · intro h
    have h1 : (k : Int) * q.step ≤ (q.maxT - q.minT) / q.step * q.step := by omega
    have h2 : (q.maxT - q.minT) / q.step * q.step ≤ q.maxT - q.minT := Int.ediv_mul_le _ hne
    omega
  · intro h
    have h1 : (k : Int) ≤ (q.maxT - q.minT) / q.step := (Int.le_ediv_iff_mul_le hs).mpr (by omega)
    have h2 : (k : Int) * q.step ≤ (q.maxT - q.minT) / q.step * q.step := Int.mul_le_mul_of_nonneg_right h1 (by omega)
    omega

/-! ### the two-pointer selection is the window filter -/

theorem dropWhile_dropWhile_lt (a b : Int) (hab : a ≤ b) : ∀ (l : List Int),
    (l.dropWhile (fun t => decide (t < a))).dropWhile (fun t => decide (t < b)) = l.dropWhile (fun t => decide (t < b))
  | [] => by simp
  | x :: xs => by
    by_cases h : x < a
    · have hb : x < b := by omega
      simp [List.dropWhile_cons, h, hb, dropWhile_dropWhile_lt a b hab xs]
    · simp [List.dropWhile_cons, h]

theorem dropWhile_dropWhile_le (a b : Int) (hab : a ≤ b) : ∀ (l : List Int),
    (l.dropWhile (fun t => decide (t ≤ a))).dropWhile (fun t => decide (t ≤ b)) = l.dropWhile (fun t => decide (t ≤ b))
  | [] => by simp
  | x :: xs => by
    by_cases h : x ≤ a
    · have hb : x ≤ b := by omega
      simp [List.dropWhile_cons, h, hb, dropWhile_dropWhile_le a b hab xs]
    · simp [List.dropWhile_cons, h]

theorem length_takeWhile_add_dropWhile {α : Type} (p : α → Bool) : ∀ (l : List α),
    (l.takeWhile p).length + (l.dropWhile p).length = l.length
  | [] => by simp
  | x :: xs => by
    cases h : p x with
    | true => simp [List.takeWhile_cons, List.dropWhile_cons, h, ← length_takeWhile_add_dropWhile p xs]; omega
    | false => simp [List.takeWhile_cons, List.dropWhile_cons, h]

theorem take_length_takeWhile {α : Type} (p : α → Bool) : ∀ (l : List α),
    l.take (l.takeWhile p).length = l.takeWhile p
  | [] => by simp
  | x :: xs => by
    cases h : p x with
    | true => simp [List.takeWhile_cons, h, take_length_takeWhile p xs]
    | false => simp [List.takeWhile_cons, h]

theorem take_sub_dropWhile {α : Type} (p : α → Bool) (l : List α) :
    l.take (l.length - (l.dropWhile p).length) = l.takeWhile p := by
  have hl := length_takeWhile_add_dropWhile p l
  have : l.length - (l.dropWhile p).length = (l.takeWhile p).length := by omega
  rw [this, take_length_takeWhile]

/-- on ascending timestamps all ≥ `a`, the prefix `≤ b` is the filter. -/
theorem takeWhile_le_eq_filter (a b : Int) : ∀ (l : List Int), l.Pairwise (· ≤ ·) → (∀ x ∈ l, a ≤ x) →
    l.takeWhile (fun t => decide (t ≤ b)) = l.filter (fun t => decide (a ≤ t) && decide (t ≤ b))
  | [], _, _ => by simp
  | x :: xs, hs, ha => by
    have hx : a ≤ x := ha x List.mem_cons_self
    have hs' := (List.pairwise_cons.mp hs).2
    have hmin := (List.pairwise_cons.mp hs).1
    by_cases h : x ≤ b
    · simp [List.takeWhile_cons, List.filter_cons, h, hx,
        takeWhile_le_eq_filter a b xs hs' (fun y hy => ha y (List.mem_cons_of_mem _ hy))]
    · have : xs.filter (fun t => decide (a ≤ t) && decide (t ≤ b)) = [] := by
        apply List.filter_eq_nil_iff.mpr
        intro y hy
        have := hmin y hy
        simp; intro _; omega
      simp [List.takeWhile_cons, List.filter_cons, h, this]

/-- one step of the two pointers, started from the whole record. -/
theorem pointers_eq_filter (a b : Int) (hab : a ≤ b) : ∀ (l : List Int), l.Pairwise (· ≤ ·) →
    (l.dropWhile (fun t => decide (t < a))).take
        ((l.dropWhile (fun t => decide (t < a))).length - (l.dropWhile (fun t => decide (t ≤ b))).length)
      = l.filter (fun t => decide (a ≤ t) && decide (t ≤ b))
  | [], _ => by simp
  | x :: xs, hs => by
    have hs' := (List.pairwise_cons.mp hs).2
    have hmin := (List.pairwise_cons.mp hs).1
    by_cases h : x < a
    · have hb : x ≤ b := by omega
      have hna : ¬ a ≤ x := by omega
      simp only [List.dropWhile_cons, h, hb, decide_true, if_true, List.filter_cons, hna, decide_false,
        Bool.false_and, Bool.false_eq_true, if_false]
      exact pointers_eq_filter a b hab xs hs'
    · have hax : a ≤ x := by omega
      have hall : ∀ y ∈ x :: xs, a ≤ y := by
        intro y hy
        rcases List.mem_cons.mp hy with rfl | hy
        · exact hax
        · have := hmin y hy; omega
      have hd : (x :: xs).dropWhile (fun t => decide (t < a)) = x :: xs := by
        simp [List.dropWhile_cons, h]
      rw [hd, take_sub_dropWhile]
      exact takeWhile_le_eq_filter a b (x :: xs) hs hall

/-- the pointers carried over from earlier steps select the same as fresh ones. -/
theorem ogWindows_eq (dur : Int) (hd : 0 ≤ dur) (l : List Int) (hs : l.Pairwise (· ≤ ·)) :
    ∀ (ends : List Int) (a0 b0 : Int), ends.Pairwise (· ≤ ·) → (∀ e ∈ ends, a0 ≤ e - dur ∧ b0 ≤ e) →
      ogWindows dur (l.dropWhile (fun t => decide (t < a0))) (l.dropWhile (fun t => decide (t ≤ b0))) ends
        = ends.map (fun e => l.filter (fun t => decide (e - dur ≤ t) && decide (t ≤ e)))
  | [], _, _, _, _ => by simp [ogWindows]
  | e :: ends, a0, b0, hp, hb => by
    have he := hb e List.mem_cons_self
    have hp' := (List.pairwise_cons.mp hp).2
    have hmin := (List.pairwise_cons.mp hp).1
    simp only [ogWindows, List.map_cons]
    rw [dropWhile_dropWhile_lt a0 (e - dur) he.1 l, dropWhile_dropWhile_le b0 e he.2 l]
    rw [pointers_eq_filter (e - dur) e (by omega) l hs]
    congr 1
    apply ogWindows_eq dur hd l hs ends (e - dur) e hp'
    intro e' he'
    have := hmin e' he'
    exact ⟨by omega, this⟩

/-- **og_window_eq_prom_window**: over a record with ascending timestamps, for every start, end,
step > 0, range (or look-back) ≥ 0 and offset, the samples openGemini's two-pointer window
arithmetic selects for its k-th step are exactly the stored samples inside the reference window
of the k-th evaluation timestamp. -/
theorem og_window_eq_prom_window (q : OGQuery) (hd : 0 ≤ q.dur) (hs : 0 < q.step)
    (times : List Int) (hasc : times.Pairwise (· ≤ ·)) (n : Nat) :
    ogWindows q.dur times times ((List.range n).map q.stepEnd)
      = (List.range n).map (fun k => times.filter (fun ts => inWindow q.dur q.off (q.outTime k) ts)) := by
  cases n with
  | zero => simp [ogWindows]
  | succ m =>
    have hends : ((List.range (m + 1)).map q.stepEnd).Pairwise (· ≤ ·) := by
      rw [List.pairwise_map]
      refine List.Pairwise.imp ?_ (List.pairwise_lt_range (n := m + 1))
      intro a b hab
      simp only [OGQuery.stepEnd]
      have : (a : Int) * q.step ≤ (b : Int) * q.step :=
        Int.mul_le_mul_of_nonneg_right (by omega) (by omega)
      omega
    -- start both pointers below everything: dropWhile with bounds under the first window
    have h0 : ∀ e ∈ (List.range (m + 1)).map q.stepEnd, q.stepEnd 0 - q.dur ≤ e - q.dur ∧ q.stepEnd 0 - q.dur - 1 ≤ e := by
      intro e he
      obtain ⟨k, _, rfl⟩ := List.mem_map.mp he
      simp only [OGQuery.stepEnd]
      have : 0 ≤ (k : Int) * q.step := Int.mul_nonneg (Int.natCast_nonneg k) (by omega)
      constructor <;> simp <;> omega
    have key := ogWindows_eq q.dur hd times hasc ((List.range (m + 1)).map q.stepEnd)
      (q.stepEnd 0 - q.dur) (q.stepEnd 0 - q.dur - 1) hends h0
    -- the first step performs these very dropWhiles, so starting from the whole record is the same
    have hstart : ogWindows q.dur times times ((List.range (m + 1)).map q.stepEnd) =
        ogWindows q.dur (times.dropWhile (fun t => decide (t < q.stepEnd 0 - q.dur)))
          (times.dropWhile (fun t => decide (t ≤ q.stepEnd 0 - q.dur - 1))) ((List.range (m + 1)).map q.stepEnd) := by
      simp only [List.range_succ_eq_map, List.map_cons, ogWindows]
      rw [dropWhile_dropWhile_lt _ _ (Int.le_refl _) times,
        dropWhile_dropWhile_le (q.stepEnd 0 - q.dur - 1) (q.stepEnd 0) (by omega) times]
    rw [hstart, key, List.map_map]
    apply List.map_congr_left
    intro k _
    apply List.filter_congr
    intro ts _
    exact og_bounds_eq_prom_bounds q k ts

/-! ### the instant cursor: last sample of the look-back window -/

variable {V : Type}

/-- what the instant-vector cursor's sampler yields for one output timestamp: the last sample
of the window `[t-off-lb, t-off]` (`floatLastReduce` over the interval), dropped when it is a
staleness marker (`if model.IsStaleNaN(value) { continue }`). -/
def ogInstant (lb off t : Int) (pts : List (Pt V)) : Option V :=
  match (pts.filter (fun p => inWindow lb off t p.t)).getLast? with
  | none => none
  | some p => if p.stale then none else some p.v

theorem ascending_le_getLast : ∀ {w : List (Pt V)} {p l : Pt V}, Ascending w → p ∈ w →
    w.getLast? = some l → p.t ≤ l.t
  | [], _, _, _, hp, _ => by simp at hp
  | [a], p, l, _, hp, hl => by
    simp at hp hl; subst hp; subst hl; exact Int.le_refl _
  | a :: b :: rest, p, l, hs, hp, hl => by
    have hs' : Ascending (b :: rest) := (List.pairwise_cons.mp hs).2
    have ha := (List.pairwise_cons.mp hs).1
    have hl' : (b :: rest).getLast? = some l := by simpa [List.getLast?_cons_cons] using hl
    rcases List.mem_cons.mp hp with rfl | hp'
    · have hlm : l ∈ b :: rest := List.mem_of_getLast? hl'
      have := ha l hlm
      omega
    · exact ascending_le_getLast hs' hp' hl'

/-- **og_instant_eq_reference**: on ascending samples, with a non-negative look-back, the
sample the instant cursor picks for an output timestamp is the reference's instant selection
(latest sample not after `t-off`, not older than the look-back, not a staleness marker). -/
theorem og_instant_eq_reference {lb off t : Int} {pts : List (Pt V)} (hs : Ascending pts) (hlb : 0 ≤ lb) :
    ogInstant lb off t pts = instantSelect lb off t pts := by
  unfold ogInstant instantSelect
  have hmemw : ∀ q, q ∈ pts.filter (fun p => inWindow lb off t p.t) ↔ q ∈ pts ∧ t - off - lb ≤ q.t ∧ q.t ≤ t - off := by
    intro q; simp [inWindow]
  cases h : latestLE (t - off) pts with
  | none =>
    have hall := latestLE_none_iff.mp h
    have : pts.filter (fun p => inWindow lb off t p.t) = [] := by
      apply List.filter_eq_nil_iff.mpr
      intro q hq
      have := hall q hq
      simp [inWindow]; intro _; omega
    simp [this]
  | some p =>
    have hc := (latestLE_eq_some_iff hs).mp h
    by_cases h1 : p.t < t - off - lb
    · have : pts.filter (fun p => inWindow lb off t p.t) = [] := by
        apply List.filter_eq_nil_iff.mpr
        intro q hq
        simp only [inWindow, Bool.and_eq_true, decide_eq_true_eq, not_and]
        intro h2 h3
        have := hc.2.2 q hq h3
        omega
      simp [this, h1]
    · have hpw : p ∈ pts.filter (fun p => inWindow lb off t p.t) := (hmemw p).mpr ⟨hc.1, by omega, hc.2.1⟩
      have hasc : Ascending (pts.filter (fun p => inWindow lb off t p.t)) :=
        List.Pairwise.sublist List.filter_sublist hs
      cases hl : (pts.filter (fun p => inWindow lb off t p.t)).getLast? with
      | none =>
        have : pts.filter (fun p => inWindow lb off t p.t) = [] := List.getLast?_eq_none_iff.mp hl
        rw [this] at hpw; simp at hpw
      | some l =>
        have hlm : l ∈ pts.filter (fun p => inWindow lb off t p.t) := List.mem_of_getLast? hl
        have hl1 := (hmemw l).mp hlm
        have hle := ascending_le_getLast hasc hpw hl
        have hge := hc.2.2 l hl1.1 hl1.2.2
        have : l = p := ascending_eq_of_t_eq hs hl1.1 hc.1 (by omega)
        subst this
        simp [h1]

example : ogInstant 300 10 1000 [⟨700, (7:Int), false⟩, ⟨900, 8, false⟩, ⟨995, 9, false⟩] = some 8 := by decide
example : ogInstant 300 0 1000 [⟨700, (7:Int), false⟩, ⟨900, 8, true⟩] = none := by decide

-- non-vacuity: three steps over a record, boundary-exact samples on both ends of a window
example : ogWindows 10 [0, 5, 10, 11, 20, 21, 35] [0, 5, 10, 11, 20, 21, 35] [10, 20, 30]
    = [[0, 5, 10], [10, 11, 20], [20, 21]] := by decide

example : let q : OGQuery := ⟨1000, 1060, 30, 10, 5⟩
    (q.lo, q.hi, q.startSample, q.endSample, q.stepEnd 1, q.outTime 1) = (985, 1055, 995, 1055, 1025, 1030) := by decide

end OG.C18
