/-
C18 — openGemini's range-function cursor across RECORDS (the samples of one series arrive in
several records: data file(s) + memtable, chunks of a long series).

Transcribed at the structural level — which samples enter the window of which step — from
engine/prom_range_vector_cursor.go (`inNextWindow*`, `isSameWindow`, `peekSamples` after f89a846)
and engine/prom_function_reducers.go (`Aggregate` of the three reducers after f0396ed: ring
buffer of the earlier records, `doLastWindow` holding the last window of a record back when the
next record starts in the same step, `doFirstWindow` merging the held-back part with the
record's own part of its first window — the buffer is NOT consulted again for that window —,
`populateByPrevious` for the steps between two records, `populateByLast` for the steps after
the last record) and `getCurrStep` (the step a sample belongs to = the first step not before it;
21c67af made `IsSameStep` agree with it).
What is abstracted: the ring buffer is "all samples of the earlier records" (the code keeps those
a later window can still reach), a reducer's partial aggregate is the list of samples it was
computed from. The scan ends at the last step (caaaab2): no sample lies after it.
-/
import OG.C18.OGWin

namespace OG.C18

/-- one range function over one series: first step end, step, range, index of the last step. -/
structure RQ where
  s0 : Int
  step : Int
  rng : Int
  lastK : Nat
deriving Repr, DecidableEq

def RQ.stepEnd (q : RQ) (k : Nat) : Int := q.s0 + (k : Int) * q.step

/-- is the stored timestamp inside the window of step `k`? (closed on both ends) -/
def RQ.inWin (q : RQ) (k : Nat) (t : Int) : Bool :=
  decide (q.stepEnd k - q.rng ≤ t) && decide (t ≤ q.stepEnd k)

/-- `getCurrStep`: the step a sample belongs to — the first step that is not before it. -/
def RQ.stepIdx (q : RQ) (t : Int) : Nat :=
  if t ≤ q.s0 then 0 else ((t - q.s0 + q.step - 1) / q.step).toNat

def windowOf (q : RQ) (k : Nat) (xs : List Int) : List Int := xs.filter (q.inWin k)

/-- a step yields an output row only when its window holds a sample. -/
def emit1 (k : Nat) (w : List Int) : List (Nat × List Int) := if w.isEmpty then [] else [(k, w)]

/-- the windows of `n` consecutive steps from `a`, each computed by `f`. -/
def emitFrom (f : Nat → List Int) : Nat → Nat → List (Nat × List Int)
  | _, 0 => []
  | a, n + 1 => emit1 a (f a) ++ emitFrom f (a + 1) n

/-- reducer state between two records. -/
structure RState where
  prev : List Int                       -- ring buffer: the samples of the earlier records
  held : Option (Nat × List Int)        -- `prevPoint(s)`: the window held back, with the samples it was computed from
  nextK : Nat                           -- first step not yet emitted
deriving Repr

/-- first sample of the next record that holds samples (`peekSamples` skips empty records). -/
def headOf : List (List Int) → Option Int
  | [] => none
  | [] :: rs => headOf rs
  | (t :: _) :: _ => some t

/-- the window of step `k` as the reducer assembles it while it holds record `rec` (whose first
sample belongs to step `kf`): the first window of a record takes the held-back part instead of
the buffer (`doFirstWindow`), every other window buffer part + own part. -/
def winAt (q : RQ) (prev : List Int) (held : Option (Nat × List Int)) (rec : List Int) (kf k : Nat) : List Int :=
  if k = kf then
    (match held with
     | some (_, hw) => hw ++ windowOf q k rec
     | none => windowOf q k prev ++ windowOf q k rec)
  else windowOf q k prev ++ windowOf q k rec

/-- `isSameWindow`: the next record with samples starts in the step this record ends in. -/
def sameNext (q : RQ) (rest : List (List Int)) (kl : Nat) : Bool :=
  match headOf rest with
  | some t => q.stepIdx t == kl
  | none => false

/-- the cursor + reducer over the records of one series. -/
def ogRecords (q : RQ) : RState → List (List Int) → List (Nat × List Int)
  | st, [] => emitFrom (fun k => windowOf q k st.prev) st.nextK (q.lastK + 1 - st.nextK)  -- `populateByLast`
  | st, [] :: rest => ogRecords q st rest                    -- a record without samples is dropped
  | st, (hd :: tl) :: rest =>
    let kf := q.stepIdx hd
    let kl := q.stepIdx ((hd :: tl).getLast (by simp))
    let same := sameNext q rest kl
    let upto := if same then kl else kl + 1                  -- the last window is held back or emitted
    emitFrom (winAt q st.prev st.held (hd :: tl) kf) st.nextK (upto - st.nextK) ++
      ogRecords q ⟨st.prev ++ (hd :: tl),
        if same then some (kl, winAt q st.prev st.held (hd :: tl) kf kl) else none,
        max st.nextK upto⟩ rest

/-! ### lemmas -/

theorem stepIdx_le_iff (q : RQ) (hs : 0 < q.step) (t : Int) (k : Nat) :
    q.stepIdx t ≤ k ↔ t ≤ q.stepEnd k := by
  unfold RQ.stepIdx RQ.stepEnd
  have hk : 0 ≤ (k : Int) * q.step := Int.mul_nonneg (Int.natCast_nonneg k) (by omega)
  by_cases h : t ≤ q.s0
  · simp only [h, if_true, Nat.zero_le, true_iff]; omega
  · simp only [h, if_false]
    have hnn : 0 ≤ (t - q.s0 + q.step - 1) / q.step := Int.ediv_nonneg (by omega) (by omega)
    constructor
    · intro hle
      have h1 : (t - q.s0 + q.step - 1) / q.step ≤ (k : Int) := by omega
      by_cases hc : t ≤ q.s0 + (k : Int) * q.step
      · exact hc
      · exfalso
        have h2 : ((k : Int) + 1) * q.step ≤ t - q.s0 + q.step - 1 := by
          rw [Int.add_mul]; omega
        have := (Int.le_ediv_iff_mul_le hs).mpr h2
        omega
    · intro hle
      by_cases hc : ((t - q.s0 + q.step - 1) / q.step).toNat ≤ k
      · exact hc
      · exfalso
        have h1 : (k : Int) + 1 ≤ (t - q.s0 + q.step - 1) / q.step := by omega
        have h2 := (Int.le_ediv_iff_mul_le hs).mp h1
        rw [Int.add_mul] at h2
        omega

theorem lt_stepIdx_iff (q : RQ) (hs : 0 < q.step) (t : Int) (k : Nat) :
    k < q.stepIdx t ↔ q.stepEnd k < t := by
  have := stepIdx_le_iff q hs t k
  constructor
  · intro h; by_cases hc : t ≤ q.stepEnd k
    · have := this.mpr hc; omega
    · omega
  · intro h; by_cases hc : q.stepIdx t ≤ k
    · have := this.mp hc; omega
    · omega

theorem stepIdx_mono (q : RQ) (hs : 0 < q.step) {t t' : Int} (h : t ≤ t') : q.stepIdx t ≤ q.stepIdx t' := by
  apply (stepIdx_le_iff q hs t (q.stepIdx t')).mpr
  have := (stepIdx_le_iff q hs t' (q.stepIdx t')).mp (Nat.le_refl _)
  omega

theorem windowOf_append (q : RQ) (k : Nat) (xs ys : List Int) :
    windowOf q k (xs ++ ys) = windowOf q k xs ++ windowOf q k ys := by
  simp [windowOf]

theorem windowOf_nil_of_later (q : RQ) (k : Nat) (xs : List Int) (h : ∀ t ∈ xs, q.stepEnd k < t) :
    windowOf q k xs = [] := by
  unfold windowOf
  apply List.filter_eq_nil_iff.mpr
  intro t ht
  have := h t ht
  simp only [RQ.inWin, Bool.and_eq_true, decide_eq_true_eq, not_and]
  intro _; omega

theorem emitFrom_append (f : Nat → List Int) : ∀ (m a n : Nat),
    emitFrom f a (m + n) = emitFrom f a m ++ emitFrom f (a + m) n
  | 0, a, n => by simp [emitFrom]
  | m + 1, a, n => by
    have : m + 1 + n = (m + n) + 1 := by omega
    rw [this]
    simp only [emitFrom, List.append_assoc]
    rw [emitFrom_append f m (a + 1) n]
    have : a + 1 + m = a + (m + 1) := by omega
    rw [this]

theorem emitFrom_congr (f g : Nat → List Int) : ∀ (n a : Nat), (∀ k, a ≤ k → k < a + n → f k = g k) →
    emitFrom f a n = emitFrom g a n
  | 0, _, _ => by simp [emitFrom]
  | n + 1, a, h => by
    simp only [emitFrom]
    rw [h a (Nat.le_refl _) (by omega), emitFrom_congr f g n (a + 1) (fun k h1 h2 => h k (by omega) (by omega))]

theorem headOf_eq_flatten_head : ∀ (rs : List (List Int)), headOf rs = rs.flatten.head?
  | [] => by simp [headOf]
  | [] :: rs => by simp [headOf, headOf_eq_flatten_head rs]
  | (t :: ts) :: rs => by simp [headOf]

theorem headOf_mem {rs : List (List Int)} {t : Int} (h : headOf rs = some t) : t ∈ rs.flatten := by
  rw [headOf_eq_flatten_head] at h
  exact List.mem_of_head? h

/-- on an ascending list every element is at least the head. -/
theorem head_le_of_pairwise {xs : List Int} {t : Int} (hp : xs.Pairwise (· ≤ ·)) (hh : xs.head? = some t) :
    ∀ x ∈ xs, t ≤ x := by
  cases xs with
  | nil => simp at hh
  | cons a as =>
    simp only [List.head?_cons, Option.some.injEq] at hh
    subst hh
    intro x hx
    rcases List.mem_cons.mp hx with rfl | hx
    · exact Int.le_refl _
    · exact (List.pairwise_cons.mp hp).1 x hx

theorem winAt_eq (q : RQ) (prev rec : List Int) (held : Option (Nat × List Int)) (kf k : Nat)
    (hh : ∀ h hw, held = some (h, hw) → h = kf ∧ hw = windowOf q h prev) :
    winAt q prev held rec kf k = windowOf q k (prev ++ rec) := by
  unfold winAt
  by_cases hk : k = kf
  · subst hk
    cases held with
    | none => simp [windowOf_append]
    | some p =>
      obtain ⟨h, hw⟩ := p
      obtain ⟨h1, h2⟩ := hh h hw rfl
      subst h1
      simp [h2, windowOf_append]
  · simp [hk, windowOf_append]

/-- the steps a record emits plus the steps left for the later records are the steps from
`nextK` on, each over all samples. -/
theorem emit_split (q : RQ) (hs : 0 < q.step) (prev rec rf : List Int) (held : Option (Nat × List Int))
    (kf nextK upto : Nat)
    (hh : ∀ h hw, held = some (h, hw) → h = kf ∧ hw = windowOf q h prev)
    (h1 : nextK ≤ upto) (h2 : upto ≤ q.lastK + 1)
    (hlater : ∀ t ∈ rf, upto ≤ q.stepIdx t) :
    emitFrom (winAt q prev held rec kf) nextK (upto - nextK) ++
        emitFrom (fun k => windowOf q k ((prev ++ rec) ++ rf)) upto (q.lastK + 1 - upto)
      = emitFrom (fun k => windowOf q k (prev ++ (rec ++ rf))) nextK (q.lastK + 1 - nextK) := by
  have hsplit : q.lastK + 1 - nextK = (upto - nextK) + (q.lastK + 1 - upto) := by omega
  rw [hsplit, emitFrom_append, show nextK + (upto - nextK) = upto from by omega]
  congr 1
  · apply emitFrom_congr
    intro k hk1 hk2
    rw [winAt_eq q prev rec held kf k hh, ← List.append_assoc, windowOf_append q k (prev ++ rec) rf]
    have : windowOf q k rf = [] := by
      apply windowOf_nil_of_later
      intro t ht
      apply (lt_stepIdx_iff q hs t k).mp
      have := hlater t ht
      omega
    simp [this]
  · simp [List.append_assoc]

/-- the invariant-carrying statement: from any reducer state that is consistent with the samples
seen so far, the remaining records produce the windows of the remaining steps over ALL samples. -/
theorem ogRecords_eq (q : RQ) (hs : 0 < q.step) :
    ∀ (rest : List (List Int)) (st : RState),
      (∀ h hw, st.held = some (h, hw) → h = st.nextK ∧ hw = windowOf q h st.prev ∧
          ∃ t, headOf rest = some t ∧ q.stepIdx t = h) →
      (∀ t ∈ rest.flatten, st.nextK ≤ q.stepIdx t) →
      (rest.flatten).Pairwise (· ≤ ·) →
      (∀ t ∈ rest.flatten, t ≤ q.stepEnd q.lastK) →
      ogRecords q st rest =
        emitFrom (fun k => windowOf q k (st.prev ++ rest.flatten)) st.nextK (q.lastK + 1 - st.nextK)
  | [], st, _, _, _, _ => by simp [ogRecords]
  | [] :: rest, st, hheld, hge, hasc, hcl => by
    have ih := ogRecords_eq q hs rest st
      (by intro h hw hst; simpa [headOf] using hheld h hw hst)
      (by simpa using hge) (by simpa using hasc) (by simpa using hcl)
    simp only [ogRecords]
    simpa using ih
  | (hd :: tl) :: rest, st, hheld, hge, hasc, hcl => by
    obtain ⟨prev, held, nextK⟩ := st
    simp only at hheld hge
    have hflat : ((hd :: tl) :: rest).flatten = (hd :: tl) ++ rest.flatten := by simp
    rw [hflat] at hasc hcl hge
    have hasc_rec : (hd :: tl).Pairwise (· ≤ ·) := (List.pairwise_append.mp hasc).1
    have hasc_rest : rest.flatten.Pairwise (· ≤ ·) := (List.pairwise_append.mp hasc).2.1
    have hcross : ∀ a ∈ hd :: tl, ∀ b ∈ rest.flatten, a ≤ b := (List.pairwise_append.mp hasc).2.2
    have hltm : (hd :: tl).getLast (by simp) ∈ hd :: tl := List.getLast_mem _
    have hhd_le : ∀ x ∈ hd :: tl, hd ≤ x := head_le_of_pairwise hasc_rec (by simp)
    -- the held-back window, if any, belongs to the step this record starts in
    have hh : ∀ h hw, held = some (h, hw) → h = q.stepIdx hd ∧ hw = windowOf q h prev := by
      intro h hw hst
      obtain ⟨_, h2, t, ht1, ht2⟩ := hheld h hw hst
      simp only [headOf, Option.some.injEq] at ht1
      subst ht1
      exact ⟨ht2.symm, h2⟩
    have hnk_kf : nextK ≤ q.stepIdx hd := hge hd (by simp)
    have hkfkl : q.stepIdx hd ≤ q.stepIdx ((hd :: tl).getLast (by simp)) :=
      stepIdx_mono q hs (hhd_le _ hltm)
    have hkl_last : q.stepIdx ((hd :: tl).getLast (by simp)) ≤ q.lastK :=
      (stepIdx_le_iff q hs _ q.lastK).mpr (hcl _ (List.mem_append_left _ hltm))
    -- every later sample belongs to the step the next record starts in, or a later one
    have hlater : ∀ nt, headOf rest = some nt → ∀ t ∈ rest.flatten, q.stepIdx nt ≤ q.stepIdx t := by
      intro nt hho t ht
      have := head_le_of_pairwise hasc_rest (by rw [← headOf_eq_flatten_head]; exact hho) t ht
      exact stepIdx_mono q hs this
    have hnext_ge : ∀ nt, headOf rest = some nt →
        q.stepIdx ((hd :: tl).getLast (by simp)) ≤ q.stepIdx nt := by
      intro nt hho
      exact stepIdx_mono q hs (hcross _ hltm nt (headOf_mem hho))
    simp only [ogRecords]
    cases hsame : sameNext q rest (q.stepIdx ((hd :: tl).getLast (by simp))) with
    | true =>
      -- the last window is held back for the next record
      simp only [if_true]
      obtain ⟨nt, hho, hnt⟩ : ∃ nt, headOf rest = some nt ∧
          q.stepIdx nt = q.stepIdx ((hd :: tl).getLast (by simp)) := by
        unfold sameNext at hsame
        cases hho : headOf rest with
        | none => simp [hho] at hsame
        | some nt => exact ⟨nt, rfl, by simpa [hho] using hsame⟩
      rw [show max nextK (q.stepIdx ((hd :: tl).getLast (by simp))) = q.stepIdx ((hd :: tl).getLast (by simp)) from by omega]
      rw [ogRecords_eq q hs rest _
        (by
          intro h hw hst
          simp only [Option.some.injEq, Prod.mk.injEq] at hst
          obtain ⟨rfl, rfl⟩ := hst
          exact ⟨rfl, winAt_eq q prev (hd :: tl) held _ _ hh, nt, hho, hnt⟩)
        (by intro t ht; have := hlater nt hho t ht; simp only; omega)
        hasc_rest (fun t ht => hcl t (List.mem_append_right _ ht))]
      exact emit_split q hs prev (hd :: tl) rest.flatten held _ nextK _ hh (by omega) (by omega)
        (by intro t ht; have := hlater nt hho t ht; omega)
    | false =>
      simp only [Bool.false_eq_true, if_false]
      rw [show max nextK (q.stepIdx ((hd :: tl).getLast (by simp)) + 1) = q.stepIdx ((hd :: tl).getLast (by simp)) + 1 from by omega]
      have hlater' : ∀ t ∈ rest.flatten, q.stepIdx ((hd :: tl).getLast (by simp)) + 1 ≤ q.stepIdx t := by
        intro t ht
        cases hho : headOf rest with
        | none =>
          have : rest.flatten = [] := by
            rw [headOf_eq_flatten_head] at hho
            exact List.head?_eq_none_iff.mp hho
          rw [this] at ht; simp at ht
        | some nt =>
          have h1 := hlater nt hho t ht
          have h2 := hnext_ge nt hho
          have h3 : q.stepIdx nt ≠ q.stepIdx ((hd :: tl).getLast (by simp)) := by
            intro he
            unfold sameNext at hsame
            simp [hho, he] at hsame
          omega
      rw [ogRecords_eq q hs rest _
        (by intro h hw hst; simp at hst)
        (by intro t ht; exact hlater' t ht)
        hasc_rest (fun t ht => hcl t (List.mem_append_right _ ht))]
      exact emit_split q hs prev (hd :: tl) rest.flatten held _ nextK _ hh (by omega) (by omega) hlater'

/-- **og_range_fn_eq_reference_across_records**: for EVERY split of the (ascending) samples of a
series into records — a window spanning a data file and the memtable, records without samples in
between — the samples the cursor and the reducers feed into the window of each step (buffer part,
held-back part, own part; steps between and after the records) are exactly, and in order, the
samples of the reference window of that step; a step yields a row iff its window holds a sample.
What a range function (`*_over_time`, rate / increase / delta, irate / idelta) computes from its
window is therefore computed from the reference's window. -/
theorem og_range_fn_eq_reference_across_records (q : RQ) (hs : 0 < q.step) (hr : 0 ≤ q.rng)
    (recs : List (List Int)) (hasc : recs.flatten.Pairwise (· ≤ ·))
    (hlast : ∀ t ∈ recs.flatten, t ≤ q.stepEnd q.lastK) :
    ogRecords q ⟨[], none, 0⟩ recs =
      emitFrom (fun k => recs.flatten.filter (q.inWin k)) 0 (q.lastK + 1) := by
  have := ogRecords_eq q hs recs ⟨[], none, 0⟩ (by intro h hw hst; simp at hst)
    (by intro t _; exact Nat.zero_le _) hasc hlast
  simpa [windowOf] using this

/-- the window of step `k` is the reference window of its output timestamp (ties `RQ` to
`OGQuery` of OGWin.lean: `s0 = startSample`, range, offset). -/
theorem rq_window_eq_prom_window (oq : OGQuery) (lastK k : Nat) (t : Int) :
    (RQ.mk oq.startSample oq.step oq.dur lastK).inWin k t = inWindow oq.dur oq.off (oq.outTime k) t := by
  simp only [RQ.inWin, RQ.stepEnd, inWindow, OGQuery.outTime, OGQuery.stepEnd]
  congr 2 <;> (apply propext; constructor <;> intro h <;> omega)

-- non-vacuity: one series, three splits (whole, file + memtable inside a window, a record
-- without samples in between), same windows
example : ogRecords ⟨10, 10, 15, 3⟩ ⟨[], none, 0⟩ [[1, 8, 12, 19, 25, 38]]
    = [(0, [1, 8]), (1, [8, 12, 19]), (2, [19, 25]), (3, [25, 38])] := by decide
example : ogRecords ⟨10, 10, 15, 3⟩ ⟨[], none, 0⟩ [[1, 8, 12], [19, 25, 38]]
    = [(0, [1, 8]), (1, [8, 12, 19]), (2, [19, 25]), (3, [25, 38])] := by decide
example : ogRecords ⟨10, 10, 15, 3⟩ ⟨[], none, 0⟩ [[1], [8, 12, 19], [], [25], [38]]
    = [(0, [1, 8]), (1, [8, 12, 19]), (2, [19, 25]), (3, [25, 38])] := by decide

end OG.C18
