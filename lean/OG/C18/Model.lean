/-
C18 — reference semantics of the PromQL subset (core only; executable, generic in the value type).

Conventions are those of the Prometheus version /repo pins (v0.50.1 = 2.50.1):
* an instant selector at `t` with offset `o` takes the latest sample with `ts ≤ t-o`; it is
  dropped when older than the look-back (`ts < t-o-lookback`: a sample exactly look-back old
  is still selected) or when it is a staleness marker;
* a range selector `[r]` takes the samples with `t-o-r ≤ ts ≤ t-o` — CLOSED on both ends in
  this version (3.x made the left end open) — minus staleness markers;
* result timestamps are the evaluation timestamps.
-/
import OG.C18.Base

namespace OG.C18

variable {V : Type}

/-! ### sample selection -/

/-- the last sample (in list order) with `ts ≤ ref`; on ascending timestamps: the latest one. -/
def latestLE (ref : Int) : List (Pt V) → Option (Pt V)
  | [] => none
  | p :: ps =>
    match latestLE ref ps with
    | some q => some q
    | none => if p.t ≤ ref then some p else none

/-- instant-vector selection for one series (`vectorSelectorSingle`). -/
def instantSelect (lb off t : Int) (pts : List (Pt V)) : Option V :=
  match latestLE (t - off) pts with
  | none => none
  | some p =>
    if p.t < (t - off) - lb then none
    else if p.stale then none
    else some p.v

/-- the timestamp of the sample an instant selector selects (`timestamp(selector)`). -/
def instantSelectTs (lb off t : Int) (pts : List (Pt V)) : Option Int :=
  match latestLE (t - off) pts with
  | none => none
  | some p =>
    if p.t < (t - off) - lb then none
    else if p.stale then none
    else some p.t

/-- is the timestamp inside the range window of evaluation time `t`? -/
def inWindow (rng off t ts : Int) : Bool := decide (t - off - rng ≤ ts) && decide (ts ≤ t - off)

/-- range-vector selection for one series (`matrixIterSlice` + dropping staleness markers). -/
def rangeSelect (rng off t : Int) (pts : List (Pt V)) : List (Pt V) :=
  pts.filter (fun p => inWindow rng off t p.t && !p.stale)

/-- evaluation timestamps of a query; `step = 0` is an instant query at `start`. -/
def stepsOf (start stop step : Int) : List Int :=
  if step ≤ 0 then [start]
  else if stop < start then []
  else (List.range (((stop - start) / step).toNat + 1)).map (fun (k : Nat) => start + (k : Int) * step)

/-! ### range functions -/

inductive RFn where
  | rate | increase | delta | irate | idelta
  | sumOT | avgOT | minOT | maxOT | countOT | lastOT | presentOT
deriving Repr, DecidableEq, Inhabited

section vals
variable [Val V]
open Val

/-- the sum of the values a counter had just before each reset (`cur < prev`). -/
def resetCorrection (prev : V) : List V → V
  | [] => ofInt 0
  | cur :: rest =>
    let tail := resetCorrection cur rest
    if lt cur prev then add prev tail else tail

/-- `time.Duration.Seconds()` of a whole number of milliseconds. -/
def rangeSeconds (rngMs : Int) : V :=
  add (ofInt (rngMs / 1000)) (div (ofInt ((rngMs % 1000) * 1000000)) (ofInt 1000000000))

/-- the condition under which the extrapolation before the first sample is clamped at the
counter's zero point, as Prometheus has it: a counter, a positive increase, a first value that is
NOT NEGATIVE (a first value of exactly 0 - a fresh counter, a reset to 0 - counts). -/
def clampApplies (isCounter : Bool) (result first : V) : Bool :=
  isCounter && lt (ofInt 0) result && le (ofInt 0) first

/-- the duration from the window start to the first sample that the extrapolation may use: at
most the duration to the counter's zero point when the clamp applies. -/
def clampedStart (isCounter : Bool) (result first sampled dStart0 : V) : V :=
  if clampApplies isCounter result first then
    let dZero := mul sampled (div first result)
    if lt dZero dStart0 then dZero else dStart0
  else dStart0

/-- `extrapolatedRate` (rate / increase / delta). `w` is the window, `rs`/`re` its bounds. -/
def extrapolated (isCounter isRate : Bool) (rs re rngMs : Int) (w : List (Pt V)) : Option V :=
  match w with
  | [] => none
  | [_] => none
  | p0 :: rest =>
    let pl := rest.getLast?.getD p0
    let n1 : Int := rest.length
    let raw := sub pl.v p0.v
    let result := if isCounter then add raw (resetCorrection p0.v (rest.map (·.v))) else raw
    let dStart0 := div (ofInt (p0.t - rs)) (ofInt 1000)
    let dEnd := div (ofInt (re - pl.t)) (ofInt 1000)
    let sampled := div (ofInt (pl.t - p0.t)) (ofInt 1000)
    let avgDur := div sampled (ofInt n1)
    let dStart := clampedStart isCounter result p0.v sampled dStart0
    let thr := mul avgDur c1_1
    let half := div avgDur (ofInt 2)
    let ext := sampled
    let ext := if lt dStart thr then add ext dStart else add ext half
    let ext := if lt dEnd thr then add ext dEnd else add ext half
    let factor := div ext sampled
    let factor := if isRate then div factor (rangeSeconds rngMs) else factor
    some (mul result factor)

/-- `instantValue` (irate / idelta): the last two samples. -/
def instantValue (isRate : Bool) (w : List (Pt V)) : Option V :=
  match w.reverse with
  | last :: prev :: _ =>
    let r := if isRate && lt last.v prev.v then last.v else sub last.v prev.v
    let dt := last.t - prev.t
    if dt = 0 then none
    else if isRate then some (div r (div (ofInt dt) (ofInt 1000))) else some r
  | _ => none

/-- Kahan/Neumaier step (`kahanSumInc`). -/
def kahanInc (inc sum c : V) : V × V :=
  let t := add sum inc
  if le (abs inc) (abs sum) then (t, add c (add (sub sum t) inc))
  else (t, add c (add (sub inc t) sum))

def kahanSum (vs : List V) : V :=
  let (s, c) := vs.foldl (fun (acc : V × V) v => kahanInc v acc.1 acc.2) (ofInt 0, ofInt 0)
  if isInf s then s else add s c

/-- `avg_over_time`: incremental mean with compensation, and the infinity special cases. -/
def avgOverTime (vs : List V) : V :=
  let step := fun (acc : V × V × V) (v : V) =>
    let (mean, count, c) := acc
    let count := add count (ofInt 1)
    if isInf mean && ((isInf v && (lt (ofInt 0) mean == lt (ofInt 0) v)) || (!isInf v && !isNaN v)) then
      (mean, count, c)
    else
      let (m, c') := kahanInc (sub (div v count) (div mean count)) mean c
      (m, count, c')
  let (mean, _, c) := vs.foldl step (ofInt 0, ofInt 0, ofInt 0)
  if isInf mean then mean else add mean c

def minOf (v0 : V) (vs : List V) : V := vs.foldl (fun m v => if lt v m || isNaN m then v else m) v0
def maxOf (v0 : V) (vs : List V) : V := vs.foldl (fun m v => if lt m v || isNaN m then v else m) v0

/-- one range function on the window of one series at one step; `none` = no output element. -/
def applyRFn (fn : RFn) (rng off t : Int) (pts : List (Pt V)) : Option V :=
  let w := rangeSelect rng off t pts
  match w with
  | [] => none
  | p0 :: rest =>
    let vs := w.map (·.v)
    match fn with
    | .rate => extrapolated true true (t - off - rng) (t - off) rng w
    | .increase => extrapolated true false (t - off - rng) (t - off) rng w
    | .delta => extrapolated false false (t - off - rng) (t - off) rng w
    | .irate => instantValue true w
    | .idelta => instantValue false w
    | .sumOT => some (kahanSum vs)
    | .avgOT => some (avgOverTime vs)
    | .minOT => some (minOf p0.v (rest.map (·.v)))
    | .maxOT => some (maxOf p0.v (rest.map (·.v)))
    | .countOT => some (ofInt w.length)
    | .lastOT => some ((rest.getLast?.getD p0).v)
    | .presentOT => some (ofInt 1)

end vals

/-- the metric name survives only `last_over_time`. -/
def rfnLabels (fn : RFn) (ls : Labels) : Labels :=
  if fn = .lastOT then ls else ls.dropName

/-! ### aggregation -/

inductive AggOp where
  | sum | avg | min | max | count
deriving Repr, DecidableEq, Inhabited

/-- the output label set of the group a series belongs to (also the grouping key). -/
def groupLabels (without : Bool) (names : List String) (ls : Labels) : Labels :=
  if without then ls.del (metricName :: names) else ls.keep names

/-- insert a value into its group; groups keep the order of first appearance, members the
input order. -/
def groupInsert (k : Labels) (v : V) : List (Labels × List V) → List (Labels × List V)
  | [] => [(k, [v])]
  | (k', vs) :: rest => if k' = k then (k', vs ++ [v]) :: rest else (k', vs) :: groupInsert k v rest

def groupAll (without : Bool) (names : List String) (xs : List (Labels × V)) : List (Labels × List V) :=
  xs.foldl (fun acc x => groupInsert (groupLabels without names x.1) x.2 acc) []

section vals
variable [Val V]
open Val

/-- aggregation over the members of one group, in input order (as the engine folds them). -/
def aggValues (op : AggOp) : List V → Option V
  | [] => none
  | v0 :: vs =>
    match op with
    | .sum => some (vs.foldl add v0)
    | .avg =>
      let step := fun (acc : V × Int) (v : V) =>
        let (mean, n) := acc
        let n := n + 1
        if isInf mean && ((isInf v && (lt (ofInt 0) mean == lt (ofInt 0) v)) || (!isInf v && !isNaN v)) then
          (mean, n)
        else (add mean (sub (div v (ofInt n)) (div mean (ofInt n))), n)
      some (vs.foldl step (v0, 1)).1
    | .min => some (vs.foldl (fun m v => if lt v m || isNaN m then v else m) v0)
    | .max => some (vs.foldl (fun m v => if lt m v || isNaN m then v else m) v0)
    | .count => some (ofInt (vs.length + 1))

def aggregate (op : AggOp) (without : Bool) (names : List String) (xs : List (Labels × V)) : List (Labels × V) :=
  (groupAll without names xs).filterMap (fun g => (aggValues op g.2).map (fun v => (g.1, v)))

end vals

/-! ### binary operators -/

inductive BinOp where
  | add | sub | mul | div | eq | ne | lt | le | gt | ge
deriving Repr, DecidableEq, Inhabited

def BinOp.isCmp : BinOp → Bool
  | .add | .sub | .mul | .div => false
  | _ => true

inductive MatchMode where
  | none | on | ignoring
deriving Repr, DecidableEq, Inhabited

/-- the matching signature of a series (`signatureFunc`). -/
def signature (mode : MatchMode) (names : List String) (ls : Labels) : Labels :=
  match mode with
  | .on => ls.keep names
  | .ignoring => ls.del (metricName :: names)
  | .none => ls.del [metricName]

section vals
variable [Val V]
open Val

/-- `vectorElemBinop`: value and, for comparisons, whether the element is kept. -/
def elemBinop (op : BinOp) (l r : V) : V × Bool :=
  match op with
  | .add => (add l r, true)
  | .sub => (sub l r, true)
  | .mul => (mul l r, true)
  | .div => (div l r, true)
  | .eq => (l, beq l r)
  | .ne => (l, !beq l r)
  | .lt => (l, lt l r)
  | .le => (l, le l r)
  | .gt => (l, lt r l)
  | .ge => (l, le r l)

def boolVal (b : Bool) : V := if b then ofInt 1 else ofInt 0

/-- `resultMetric` for one-to-one matching. -/
def resultMetric (op : BinOp) (isBool : Bool) (mode : MatchMode) (names : List String) (lhs : Labels) : Labels :=
  let m := if op.isCmp then lhs else lhs.dropName
  let m := match mode with
    | .on => m.keep names
    | .ignoring => m.del names
    | .none => m
  if isBool then m.dropName else m

/-- the loop of `VectorBinop` over the left-hand side; `matched` = signatures that already
produced an output element. -/
def binopLoop (op : BinOp) (isBool : Bool) (mode : MatchMode) (names : List String)
    (rhs : List (Labels × Labels × V)) :
    List (Labels × V) → List Labels → Except Err (List (Labels × V))
  | [], _ => .ok []
  | (lm, lv) :: rest, matched =>
    let sig := signature mode names lm
    match rhs.find? (fun r => r.1 = sig) with
    | none => binopLoop op isBool mode names rhs rest matched
    | some (_, _, rv) =>
      let (val, keep) := elemBinop op lv rv
      if !isBool && !keep then binopLoop op isBool mode names rhs rest matched
      else
        let val := if isBool then boolVal keep else val
        if matched.contains sig then .error .manyToOne
        else
          match binopLoop op isBool mode names rhs rest (sig :: matched) with
          | .error e => .error e
          | .ok out => .ok ((resultMetric op isBool mode names lm, val) :: out)

/-- `VectorBinop`, one-to-one. -/
def vectorBinop (op : BinOp) (isBool : Bool) (mode : MatchMode) (names : List String)
    (lhs rhs : List (Labels × V)) : Except Err (List (Labels × V)) :=
  if lhs.isEmpty || rhs.isEmpty then .ok []
  else
    let rs := rhs.map (fun r => (signature mode names r.1, r.1, r.2))
    if hasDup (rs.map (·.1)) then .error .dupMatch
    else binopLoop op isBool mode names rs lhs []

/-- `VectorscalarBinop`; `swap` = the scalar is the left operand. -/
def vectorScalarBinop (op : BinOp) (isBool swap : Bool) (vec : List (Labels × V)) (s : V) : List (Labels × V) :=
  vec.filterMap (fun (m, v) =>
    let (l, r) := if swap then (s, v) else (v, s)
    let (val, keep) := elemBinop op l r
    let val := if op.isCmp && swap then v else val
    let (val, keep) := if isBool then (boolVal keep, true) else (val, keep)
    if keep then some (if !op.isCmp || isBool then m.dropName else m, val) else none)

end vals

/-! ### set operators, many-to-one matching, topk / bottomk / quantile -/

inductive SetOp where
  | and | or | unless
deriving Repr, DecidableEq, Inhabited

/-- `VectorAnd` / `VectorOr` / `VectorUnless`. -/
def setBinop (op : SetOp) (mode : MatchMode) (names : List String) (lhs rhs : List (Labels × V)) : List (Labels × V) :=
  let sigL := lhs.map (fun x => signature mode names x.1)
  let sigR := rhs.map (fun x => signature mode names x.1)
  match op with
  | .and => lhs.filter (fun x => sigR.contains (signature mode names x.1))
  | .or => lhs ++ rhs.filter (fun x => !sigL.contains (signature mode names x.1))
  | .unless => lhs.filter (fun x => !sigR.contains (signature mode names x.1))

inductive KAgg where
  | topk | bottomk | quantile
deriving Repr, DecidableEq, Inhabited

/-- insertion into a list sorted by `before`. -/
def insertBy {α : Type} (before : α → α → Bool) (x : α) : List α → List α
  | [] => [x]
  | y :: ys => if before x y then x :: y :: ys else y :: insertBy before x ys

def sortBy {α : Type} (before : α → α → Bool) (xs : List α) : List α := xs.foldr (insertBy before) []

section vals
variable [Val V]
open Val

/-- `resultMetric` for group_left / group_right: the labels of the many side (without the name for
arithmetic and `bool`), the `incl` labels taken from the one side. -/
def resultMetricG (op : BinOp) (isBool : Bool) (incl : List String) (many one : Labels) : Labels :=
  let m := if op.isCmp then many else many.dropName
  let m := incl.foldl (fun acc ln => if one.get ln != "" then acc.set ln (one.get ln) else acc.del [ln]) m
  if isBool then m.dropName else m

/-- the loop of `VectorBinop` for many-to-one matching; `inserted` = (signature, result label set)
pairs already produced. -/
def binopLoopG (op : BinOp) (isBool swap : Bool) (mode : MatchMode) (names incl : List String)
    (one : List (Labels × Labels × V)) :
    List (Labels × V) → List (Labels × Labels) → Except Err (List (Labels × V))
  | [], _ => .ok []
  | (mm, mv) :: rest, inserted =>
    let sig := signature mode names mm
    match one.find? (fun r => r.1 = sig) with
    | none => binopLoopG op isBool swap mode names incl one rest inserted
    | some (_, om, ov) =>
      let (l, r) := if swap then (ov, mv) else (mv, ov)
      let (val, keep) := elemBinop op l r
      -- for a comparison the value kept is the left operand's, also after the swap of group_right
      if !isBool && !keep then binopLoopG op isBool swap mode names incl one rest inserted
      else
        let val := if isBool then boolVal keep else val
        let metric := resultMetricG op isBool incl mm om
        if inserted.contains (sig, metric) then .error .groupingDup
        else
          match binopLoopG op isBool swap mode names incl one rest ((sig, metric) :: inserted) with
          | .error e => .error e
          | .ok out => .ok ((metric, val) :: out)

/-- `VectorBinop` with group_left (`left = true`: the left side is the many side) or group_right. -/
def vectorBinopG (op : BinOp) (isBool : Bool) (mode : MatchMode) (names incl : List String) (left : Bool)
    (lhs rhs : List (Labels × V)) : Except Err (List (Labels × V)) :=
  if lhs.isEmpty || rhs.isEmpty then .ok []
  else
    let (many, one) := if left then (lhs, rhs) else (rhs, lhs)
    let os := one.map (fun r => (signature mode names r.1, r.1, r.2))
    if hasDup (os.map (·.1)) then .error .dupMatch
    else binopLoopG op isBool (!left) mode names incl os many []

/-- `quantile(φ, …)` over the members of a group (the engine's `quantile` helper). -/
def quantileOf (phi : V) (vs : List V) : V :=
  if lt phi (ofInt 0) then div (ofInt (-1)) (ofInt 0)
  else if lt (ofInt 1) phi then div (ofInt 1) (ofInt 0)
  else
    let sorted := sortBy (fun a b => lt a b) vs
    let n : Int := sorted.length
    let rank := mul phi (ofInt (n - 1))
    let fl := toIntFloor rank
    let lower := if fl < 0 then 0 else fl
    let upper := if lower + 1 < n - 1 then lower + 1 else n - 1
    let weight := sub rank (ofInt fl)
    match sorted[lower.toNat]?, sorted[upper.toNat]? with
    | some a, some b => add (mul a (sub (ofInt 1) weight)) (mul b weight)
    | _, _ => div (ofInt 0) (ofInt 0)

/-- topk / bottomk / quantile on one input vector. `k` is the parameter of topk/bottomk already
converted to an integer. topk/bottomk return the chosen ELEMENTS with their own label sets. -/
def aggregateK (op : KAgg) (param : V) (without : Bool) (names : List String) (xs : List (Labels × V)) : List (Labels × V) :=
  let groups := xs.foldl (fun (acc : List (Labels × List (Labels × V))) x =>
      groupInsert (groupLabels without names x.1) x acc) []
  match op with
  | .quantile => groups.map (fun g => (g.1, quantileOf param (g.2.map (·.2))))
  | .topk =>
    let k := toIntFloor param
    if k < 1 then [] else groups.flatMap (fun g => (sortBy (fun a b => lt b.2 a.2) g.2).take k.toNat)
  | .bottomk =>
    let k := toIntFloor param
    if k < 1 then [] else groups.flatMap (fun g => (sortBy (fun a b => lt a.2 b.2) g.2).take k.toNat)

end vals

/-! ### expressions and evaluation -/

inductive Expr (V : Type) where
  | num (v : V)
  | sel (ms : List Matcher) (off : Int) (atT : Option Int)
  | rfn (fn : RFn) (rng : Int) (ms : List Matcher) (off : Int) (atT : Option Int)
  | agg (op : AggOp) (without : Bool) (names : List String) (e : Expr V)
  | bin (op : BinOp) (isBool : Bool) (mode : MatchMode) (names : List String) (l r : Expr V)
  | setop (op : SetOp) (mode : MatchMode) (names : List String) (l r : Expr V)
  | binG (op : BinOp) (isBool : Bool) (mode : MatchMode) (names incl : List String) (left : Bool) (l r : Expr V)
  | aggK (op : KAgg) (param : V) (without : Bool) (names : List String) (e : Expr V)
  | tsSel (ms : List Matcher) (off : Int) (atT : Option Int)     -- timestamp(<selector>)
  | tsOf (e : Expr V)                                           -- timestamp(<other instant vector>)
  | subq (fn : RFn) (rng stp off : Int) (e : Expr V)            -- fn((e)[rng:stp] offset off)
deriving Repr, Inhabited

/-- the `@` modifier pins the evaluation time of a selector. -/
def tAt (atT : Option Int) (t : Int) : Int := atT.getD t

inductive Value (V : Type) where
  | scalar (v : V)
  | vector (xs : List (Labels × V))
deriving Repr, Inhabited

/-- `ContainsSameLabelset` check after every vector-producing step. -/
def checkDup (xs : List (Labels × V)) : Except Err (Value V) :=
  if hasDup (xs.map (·.1)) then .error .dupLabelset else .ok (.vector xs)

/-- an instant selector at one step. -/
def selStep (db : List (Series V)) (lb : Int) (ms : List Matcher) (off t : Int) : List (Labels × V) :=
  db.filterMap (fun s => if matchAll ms s.labels then (instantSelect lb off t s.pts).map (fun v => (s.labels, v)) else none)

section vals
variable [Val V]

/-- a range function at one step. -/
def rfnStep (db : List (Series V)) (fn : RFn) (rng : Int) (ms : List Matcher) (off t : Int) : List (Labels × V) :=
  db.filterMap (fun s => if matchAll ms s.labels then (applyRFn fn rng off t s.pts).map (fun v => (rfnLabels fn s.labels, v)) else none)

/-- output label sets of the series a range function yields at least one point for, over all
steps: the engine rejects the whole query when two of them coincide. -/
def rfnOutLabels (db : List (Series V)) (fn : RFn) (rng : Int) (ms : List Matcher) (off : Int) (steps : List Int) : List Labels :=
  (db.filter (fun s => matchAll ms s.labels && steps.any (fun t => (applyRFn fn rng off t s.pts).isSome))).map
    (fun s => rfnLabels fn s.labels)

def aggStep (op : AggOp) (without : Bool) (names : List String) : Value V → Except Err (Value V)
  | .vector xs => checkDup (aggregate op without names xs)
  | .scalar _ => .error .badType

def aggKStep (op : KAgg) (param : V) (without : Bool) (names : List String) : Value V → Except Err (Value V)
  | .vector xs => checkDup (aggregateK op param without names xs)
  | .scalar _ => .error .badType

def binStep (op : BinOp) (isBool : Bool) (mode : MatchMode) (names : List String) :
    Value V × Value V → Except Err (Value V)
  | (.vector l, .vector r) =>
    match vectorBinop op isBool mode names l r with
    | .error e => .error e
    | .ok out => checkDup out
  | (.vector l, .scalar s) => checkDup (vectorScalarBinop op isBool false l s)
  | (.scalar s, .vector r) => checkDup (vectorScalarBinop op isBool true r s)
  | (.scalar _, .scalar _) => .error .badType

def setStep (op : SetOp) (mode : MatchMode) (names : List String) : Value V × Value V → Except Err (Value V)
  | (.vector l, .vector r) => checkDup (setBinop op mode names l r)
  | _ => .error .badType

def binGStep (op : BinOp) (isBool : Bool) (mode : MatchMode) (names incl : List String) (left : Bool) :
    Value V × Value V → Except Err (Value V)
  | (.vector l, .vector r) =>
    match vectorBinopG op isBool mode names incl left l r with
    | .error e => .error e
    | .ok out => checkDup out
  | _ => .error .badType

/-- `timestamp(<selector>)` at one step: the timestamps of the selected samples, in seconds. -/
def tsSelStep (db : List (Series V)) (lb : Int) (ms : List Matcher) (off t : Int) : Except Err (Value V) :=
  checkDup (db.filterMap (fun s =>
    if matchAll ms s.labels then
      (instantSelectTs lb off t s.pts).map (fun ts => (s.labels.dropName, Val.div (Val.ofInt ts) (Val.ofInt 1000)))
    else none))

/-- `timestamp(<expression>)` at one step: the evaluation time, in seconds, for every element. -/
def tsOfStep : Int × Value V → Except Err (Value V)
  | (t, .vector xs) => checkDup (xs.map (fun x => (x.1.dropName, Val.div (Val.ofInt t) (Val.ofInt 1000))))
  | (_, .scalar _) => .error .badType

/-- the evaluation timestamps of a subquery window: the multiples of `stp` in `[lo, hi]`. -/
def alignedSteps (lo hi stp : Int) : List Int :=
  if stp ≤ 0 then []
  else
    let first := stp * (lo / stp)
    let first := if first < lo then first + stp else first
    if hi < first then [] else stepsOf first hi stp

def ptInsert (k : Labels) (p : Pt V) : List (Labels × List (Pt V)) → List (Labels × List (Pt V))
  | [] => [(k, [p])]
  | (k', ps) :: rest => if k' = k then (k', ps ++ [p]) :: rest else (k', ps) :: ptInsert k p rest

/-- the result of the inner expression of a subquery as one sample list per label set. -/
def seriesOf (ss : List Int) (vs : List (Value V)) : List (Labels × List (Pt V)) :=
  (ss.zip vs).foldl (fun acc sv =>
    match sv.2 with
    | .vector xs => xs.foldl (fun a x => ptInsert x.1 ⟨sv.1, x.2, false⟩ a) acc
    | .scalar _ => acc) []

/-- a range function over a subquery at one outer step. -/
def subqApply (fn : RFn) (rng off t : Int) (inner : List (Labels × List (Pt V))) : Except Err (Value V) :=
  checkDup (inner.filterMap (fun s => (applyRFn fn rng off t s.2).map (fun v => (rfnLabels fn s.1, v))))

/-- evaluation over a list of steps, node by node as the engine does (children over the whole
range first, then the node per step): one value per step, or the first error met. -/
def evalSteps (db : List (Series V)) (lb : Int) (steps : List Int) : Expr V → Except Err (List (Value V))
  | .num v => .ok (steps.map (fun _ => .scalar v))
  | .sel ms off atT => .ok (steps.map (fun t => .vector (selStep db lb ms off (tAt atT t))))
  | .rfn fn rng ms off atT =>
    if hasDup (rfnOutLabels db fn rng ms off (steps.map (tAt atT))) then .error .dupLabelset
    else .ok (steps.map (fun t => .vector (rfnStep db fn rng ms off (tAt atT t))))
  | .agg op without names e =>
    match evalSteps db lb steps e with
    | .error err => .error err
    | .ok xs => mapE (aggStep op without names) xs
  | .bin op isBool mode names l r =>
    match evalSteps db lb steps l with
    | .error err => .error err
    | .ok xs =>
      match evalSteps db lb steps r with
      | .error err => .error err
      | .ok ys => mapE (binStep op isBool mode names) (xs.zip ys)
  | .setop op mode names l r =>
    match evalSteps db lb steps l with
    | .error err => .error err
    | .ok xs =>
      match evalSteps db lb steps r with
      | .error err => .error err
      | .ok ys => mapE (setStep op mode names) (xs.zip ys)
  | .binG op isBool mode names incl left l r =>
    match evalSteps db lb steps l with
    | .error err => .error err
    | .ok xs =>
      match evalSteps db lb steps r with
      | .error err => .error err
      | .ok ys => mapE (binGStep op isBool mode names incl left) (xs.zip ys)
  | .aggK op param without names e =>
    match evalSteps db lb steps e with
    | .error err => .error err
    | .ok xs => mapE (aggKStep op param without names) xs
  | .tsSel ms off atT => mapE (fun t => tsSelStep db lb ms off (tAt atT t)) steps
  | .tsOf e =>
    match evalSteps db lb steps e with
    | .error err => .error err
    | .ok xs => mapE tsOfStep (steps.zip xs)
  | .subq fn rng stp off e =>
    mapE (fun t =>
      match evalSteps db lb (alignedSteps (t - off - rng) (t - off) stp) e with
      | .error err => .error err
      | .ok vs => subqApply fn rng off t (seriesOf (alignedSteps (t - off - rng) (t - off) stp) vs)) steps

/-- an instant query. -/
def evalInstant (db : List (Series V)) (lb : Int) (t : Int) (e : Expr V) : Except Err (Value V) :=
  match evalSteps db lb [t] e with
  | .error err => .error err
  | .ok [v] => .ok v
  | .ok _ => .error .badType

/-- a range query: the values at `stepsOf start stop step`. -/
def evalRange (db : List (Series V)) (lb : Int) (start stop step : Int) (e : Expr V) :
    Except Err (List (Int × Value V)) :=
  match evalSteps db lb (stepsOf start stop step) e with
  | .error err => .error err
  | .ok vs => .ok ((stepsOf start stop step).zip vs)

end vals

end OG.C18
