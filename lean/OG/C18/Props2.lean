/-
C18 — structure theorems: grouping is a partition, by/without agree, counter-reset adjustment,
one-to-one vector matching.
-/
import OG.C18.Props

namespace OG.C18

variable {V : Type}

/-! ### aggregation groups partition the input vector -/

theorem groupInsert_keys (k : Labels) (v : V) : ∀ (acc : List (Labels × List V)) (k' : Labels),
    k' ∈ (groupInsert k v acc).map (·.1) ↔ k' = k ∨ k' ∈ acc.map (·.1)
  | [], k' => by simp [groupInsert]
  | (k0, vs) :: rest, k' => by
    unfold groupInsert
    by_cases h : k0 = k
    · subst h
      simp only [if_true, List.map_cons, List.mem_cons]
      constructor
      · rintro (h | h)
        · exact Or.inl h
        · exact Or.inr (Or.inr h)
      · rintro (h | h | h)
        · exact Or.inl h
        · exact Or.inl h
        · exact Or.inr h
    · simp only [h, if_false, List.map_cons, List.mem_cons, groupInsert_keys k v rest k']
      constructor
      · rintro (h | h | h)
        · exact Or.inr (Or.inl h)
        · exact Or.inl h
        · exact Or.inr (Or.inr h)
      · rintro (h | h | h)
        · exact Or.inr (Or.inl h)
        · exact Or.inl h
        · exact Or.inr (Or.inr h)

theorem groupInsert_nodup (k : Labels) (v : V) : ∀ (acc : List (Labels × List V)),
    (acc.map (·.1)).Nodup → ((groupInsert k v acc).map (·.1)).Nodup
  | [], _ => by simp [groupInsert]
  | (k0, vs) :: rest, h => by
    have h0 : k0 ∉ rest.map (·.1) := (List.nodup_cons.mp h).1
    have hr : (rest.map (·.1)).Nodup := (List.nodup_cons.mp h).2
    unfold groupInsert
    by_cases hk : k0 = k
    · subst hk
      simpa using h
    · simp only [hk, if_false, List.map_cons, List.nodup_cons]
      refine ⟨?_, groupInsert_nodup k v rest hr⟩
      intro hm
      rcases (groupInsert_keys k v rest k0).mp hm with h1 | h1
      · exact hk h1
      · exact h0 h1

theorem groupInsert_lookup (k : Labels) (v : V) : ∀ (acc : List (Labels × List V)) (k' : Labels),
    (groupInsert k v acc).lookup k' =
      if k' = k then some (((acc.lookup k).getD []) ++ [v]) else acc.lookup k'
  | [], k' => by
    by_cases h : k' = k
    · subst h; simp [groupInsert, List.lookup]
    · have hb : (k' == k) = false := by simpa using h
      simp [groupInsert, List.lookup, h, hb]
  | (k0, vs) :: rest, k' => by
    unfold groupInsert
    by_cases hk : k0 = k
    · subst hk
      by_cases h : k' = k0
      · subst h; simp [List.lookup]
      · have hb : (k' == k0) = false := by simpa using h
        simp [List.lookup, h, hb]
    · simp only [hk, if_false]
      by_cases h : k' = k
      · subst h
        have hne : ¬ k' = k0 := fun e => hk e.symm
        have hb : (k' == k0) = false := by simpa using hne
        simp [List.lookup, hb, groupInsert_lookup k' v rest k']
      · by_cases h0 : k' = k0
        · subst h0; simp [List.lookup, h]
        · have hb : (k' == k0) = false := by simpa using h0
          simp [List.lookup, hb, h, groupInsert_lookup k v rest k']

/-- the values of the input elements whose group key is `k`, in input order. -/
def membersOf (without : Bool) (names : List String) (k : Labels) (xs : List (Labels × V)) : List V :=
  (xs.filter (fun x => decide (groupLabels without names x.1 = k))).map (·.2)

theorem foldl_group_inv (without : Bool) (names : List String) :
    ∀ (rest done : List (Labels × V)) (acc : List (Labels × List V)),
      (acc.map (·.1)).Nodup →
      (∀ k, acc.lookup k = if membersOf without names k done = [] then none else some (membersOf without names k done)) →
      let r := rest.foldl (fun acc x => groupInsert (groupLabels without names x.1) x.2 acc) acc
      (r.map (·.1)).Nodup ∧
      ∀ k, r.lookup k = if membersOf without names k (done ++ rest) = [] then none
                        else some (membersOf without names k (done ++ rest))
  | [], done, acc, hn, hl => by simpa using ⟨hn, hl⟩
  | x :: rest, done, acc, hn, hl => by
    simp only [List.foldl_cons]
    have hn' := groupInsert_nodup (groupLabels without names x.1) x.2 acc hn
    have hl' : ∀ k, (groupInsert (groupLabels without names x.1) x.2 acc).lookup k =
        if membersOf without names k (done ++ [x]) = [] then none
        else some (membersOf without names k (done ++ [x])) := by
      intro k
      rw [groupInsert_lookup]
      by_cases hk : k = groupLabels without names x.1
      · subst hk
        simp only [if_true, hl]
        have : membersOf without names (groupLabels without names x.1) (done ++ [x]) =
            membersOf without names (groupLabels without names x.1) done ++ [x.2] := by
          simp [membersOf, List.filter_append]
        rw [this]
        by_cases he : membersOf without names (groupLabels without names x.1) done = []
        · simp [he]
        · simp [he]
      · have hk' : ¬ groupLabels without names x.1 = k := fun e => hk e.symm
        have : membersOf without names k (done ++ [x]) = membersOf without names k done := by
          simp [membersOf, List.filter_append, hk']
        simp only [hk, if_false, this, hl]
    have := foldl_group_inv without names rest (done ++ [x]) _ hn' hl'
    simpa [List.append_assoc] using this

theorem lookup_some_of_mem {α β : Type} [BEq α] [LawfulBEq α] : ∀ {l : List (α × β)} {a : α} {b : β},
    (l.map (·.1)).Nodup → (a, b) ∈ l → l.lookup a = some b
  | [], _, _, _, h => by simp at h
  | (a0, b0) :: rest, a, b, hn, h => by
    have h0 : a0 ∉ rest.map (·.1) := (List.nodup_cons.mp hn).1
    rcases List.mem_cons.mp h with heq | hm
    · cases heq; simp [List.lookup]
    · have hne : (a == a0) = false := by
        cases hb : a == a0 with
        | false => rfl
        | true =>
          have : a = a0 := by simpa using hb
          subst this
          exact absurd (List.mem_map_of_mem (f := (·.1)) hm) h0
      simp only [List.lookup, hne]
      exact lookup_some_of_mem (List.nodup_cons.mp hn).2 hm

theorem mem_of_lookup_some {α β : Type} [BEq α] [LawfulBEq α] : ∀ {l : List (α × β)} {a : α} {b : β},
    l.lookup a = some b → (a, b) ∈ l
  | [], _, _, h => by simp [List.lookup] at h
  | (a0, b0) :: rest, a, b, h => by
    simp only [List.lookup] at h
    cases hb : a == a0 with
    | true =>
      simp only [hb, Option.some.injEq] at h
      have : a = a0 := by simpa using hb
      subst this; subst h
      exact List.mem_cons_self
    | false =>
      simp only [hb] at h
      exact List.mem_cons_of_mem _ (mem_of_lookup_some h)

/-- **group_partition**: `by` / `without` partition the input vector: the group keys are
pairwise distinct, every input element has its group, and a group holds exactly the input
elements with its key (in input order; never empty). Hence every series lands in exactly one
group. -/
theorem group_partition (without : Bool) (names : List String) (xs : List (Labels × V)) :
    ((groupAll without names xs).map (·.1)).Nodup ∧
    (∀ x ∈ xs, ∃ g ∈ groupAll without names xs, g.1 = groupLabels without names x.1) ∧
    (∀ g ∈ groupAll without names xs, g.2 = membersOf without names g.1 xs ∧ g.2 ≠ []) := by
  have h := foldl_group_inv (V := V) without names xs [] [] (by simp) (by simp [membersOf, List.lookup])
  simp only [List.nil_append] at h
  obtain ⟨hn, hl⟩ := h
  refine ⟨hn, ?_, ?_⟩
  · intro x hx
    have hne : membersOf without names (groupLabels without names x.1) xs ≠ [] := by
      intro he
      have : x.2 ∈ membersOf without names (groupLabels without names x.1) xs := by
        simp only [membersOf, List.mem_map, List.mem_filter, decide_eq_true_eq]
        exact ⟨x, ⟨hx, rfl⟩, rfl⟩
      simp [he] at this
    have := hl (groupLabels without names x.1)
    simp only [hne, if_false] at this
    exact ⟨_, mem_of_lookup_some this, rfl⟩
  · intro g hg
    have h1 := lookup_some_of_mem hn (show (g.1, g.2) ∈ groupAll without names xs from hg)
    have h2 := hl g.1
    unfold groupAll at h1
    rw [h1] at h2
    by_cases he : membersOf without names g.1 xs = []
    · simp [he] at h2
    · simp only [he, if_false, Option.some.injEq] at h2
      exact ⟨h2, by rw [h2]; exact he⟩

/-- a series is in exactly one group: two groups that both carry its key are the same group. -/
theorem group_unique (without : Bool) (names : List String) (xs : List (Labels × V))
    {g g' : Labels × List V} (hg : g ∈ groupAll without names xs) (hg' : g' ∈ groupAll without names xs)
    (hk : g.1 = g'.1) : g = g' := by
  have hn := (group_partition without names xs).1
  have h1 := lookup_some_of_mem hn (show (g.1, g.2) ∈ groupAll without names xs from hg)
  have h2 := lookup_some_of_mem hn (show (g'.1, g'.2) ∈ groupAll without names xs from hg')
  rw [hk] at h1
  rw [h1] at h2
  cases g; cases g'
  simp only [Option.some.injEq] at h2
  simp_all

/-- **by_eq_without**: over series whose label names all lie in `U ∪ {__name__}`, grouping
`by (L)` and grouping `without (U \ L)` produce the same group label set. -/
theorem by_eq_without (L U : List String) (ls : Labels)
    (hU : ∀ p ∈ ls, p.1 = metricName ∨ p.1 ∈ U) (hL : metricName ∉ L) :
    groupLabels false L ls = groupLabels true (U.filter (fun n => !L.contains n)) ls := by
  simp only [groupLabels, Bool.false_eq_true, if_false, if_true, Labels.keep, Labels.del]
  apply List.filter_congr
  intro p hp
  by_cases hin : p.1 ∈ L
  · have hne : p.1 ≠ metricName := fun e => hL (e ▸ hin)
    simp [hin, hne]
  · rcases hU p hp with h | h
    · simp [h, hL]
    · simp [hin, h]

example : groupAll false ["job"] [([("__name__", "m"), ("inst", "a"), ("job", "x")], (1:Int)),
      ([("__name__", "m"), ("inst", "b"), ("job", "y")], 2), ([("__name__", "m"), ("inst", "c"), ("job", "x")], 3)]
    = [([("job", "x")], [1, 3]), ([("job", "y")], [2])] := by decide

example : groupLabels false ["job"] [("__name__", "m"), ("inst", "a"), ("job", "x")]
    = groupLabels true ["inst"] [("__name__", "m"), ("inst", "a"), ("job", "x")] := by decide

/-! ### counter resets -/

/-- the reset-adjusted series: every sample plus the values the counter had reached before
each earlier reset. -/
def adjustedFrom (off prev : Int) : List Int → List Int
  | [] => []
  | cur :: rest =>
    let off' := if cur < prev then off + prev else off
    (cur + off') :: adjustedFrom off' cur rest

def adjusted : List Int → List Int
  | [] => []
  | v0 :: rest => v0 :: adjustedFrom 0 v0 rest

theorem adjustedFrom_last (off prev : Int) : ∀ (rest : List Int),
    ((prev + off) :: adjustedFrom off prev rest).getLast (by simp) =
      (prev :: rest).getLast (by simp) + off + resetCorrection (V := Int) prev rest
  | [] => by simp [adjustedFrom, resetCorrection, Val.ofInt]
  | cur :: rest => by
    have ih := adjustedFrom_last (if cur < prev then off + prev else off) cur rest
    simp only [adjustedFrom, List.getLast_cons_cons] at ih ⊢
    rw [ih]
    simp only [resetCorrection, Val.lt, Val.add]
    by_cases h : cur < prev <;> simp [h] <;> omega

theorem adjustedFrom_ge (off prev : Int) : ∀ (rest : List Int), 0 ≤ prev → (∀ x ∈ rest, 0 ≤ x) →
    ((prev + off) :: adjustedFrom off prev rest).Pairwise (· ≤ ·)
  | [], _, _ => by simp [adjustedFrom]
  | cur :: rest, hp, hr => by
    have hc : 0 ≤ cur := hr cur List.mem_cons_self
    have ih := adjustedFrom_ge (if cur < prev then off + prev else off) cur rest hc
      (fun x hx => hr x (List.mem_cons_of_mem _ hx))
    simp only [adjustedFrom]
    refine List.pairwise_cons.mpr ⟨?_, ih⟩
    have hhead : prev + off ≤ cur + (if cur < prev then off + prev else off) := by
      by_cases h : cur < prev <;> simp [h] <;> omega
    intro y hy
    rcases List.mem_cons.mp hy with rfl | hy
    · exact hhead
    · have := (List.pairwise_cons.mp ih).1 y hy
      omega

/-- **counter_reset_adjust**: over integer-valued, non-negative counter samples the
reset-adjusted series is monotone, and `last - first + (sum of pre-reset values)` — the
increase `rate`/`increase` extrapolate from — is the rise of the adjusted series, hence
non-negative. -/
theorem counter_reset_adjust (v0 : Int) (rest : List Int) (h0 : 0 ≤ v0) (hr : ∀ x ∈ rest, 0 ≤ x) :
    (adjusted (v0 :: rest)).Pairwise (· ≤ ·) ∧
    ((v0 :: rest).getLast (by simp) - v0) + resetCorrection (V := Int) v0 rest =
      (adjusted (v0 :: rest)).getLast (by simp [adjusted]) - v0 ∧
    0 ≤ ((v0 :: rest).getLast (by simp) - v0) + resetCorrection (V := Int) v0 rest := by
  have hp := adjustedFrom_ge 0 v0 rest h0 hr
  have hl := adjustedFrom_last 0 v0 rest
  simp only [Int.add_zero] at hp hl
  refine ⟨hp, ?_, ?_⟩
  · simp only [adjusted]; omega
  · have hge : v0 ≤ (v0 :: adjustedFrom 0 v0 rest).getLast (by simp) := by
      cases hadj : adjustedFrom 0 v0 rest with
      | nil => simp
      | cons a as =>
        rw [hadj] at hp
        exact (List.pairwise_cons.mp hp).1 _ (List.getLast_mem (by simp))
    omega

example : adjusted [5, 8, 2, 4, 1] = [5, 8, 10, 12, 13] := by decide
example : resetCorrection (V := Int) 5 [8, 2, 4, 1] = 12 := by decide

/-! ### one-to-one vector matching -/

section vals
variable [Val V]

/-- what one left-hand element contributes, independently of the others. -/
def pairOut (op : BinOp) (isBool : Bool) (mode : MatchMode) (names : List String)
    (rhs : List (Labels × Labels × V)) (l : Labels × V) : Option (Labels × V) :=
  match rhs.find? (fun r => r.1 = signature mode names l.1) with
  | none => none
  | some (_, _, rv) =>
    let (val, keep) := elemBinop op l.2 rv
    if !isBool && !keep then none
    else some (resultMetric op isBool mode names l.1, if isBool then boolVal keep else val)

theorem binopLoop_ok (op : BinOp) (isBool : Bool) (mode : MatchMode) (names : List String)
    (rhs : List (Labels × Labels × V)) :
    ∀ (lhs : List (Labels × V)) (matched : List Labels) (out : List (Labels × V)),
      binopLoop op isBool mode names rhs lhs matched = .ok out →
      out = lhs.filterMap (pairOut op isBool mode names rhs) ∧
      ((lhs.filter (fun l => (pairOut op isBool mode names rhs l).isSome)).map
          (fun l => signature mode names l.1)).Nodup ∧
      ∀ l ∈ lhs, (pairOut op isBool mode names rhs l).isSome → signature mode names l.1 ∉ matched
  | [], matched, out, h => by
    simp only [binopLoop, Except.ok.injEq] at h
    subst h; simp
  | (lm, lv) :: rest, matched, out, h => by
    unfold binopLoop at h
    simp only at h
    cases hf : rhs.find? (fun r => r.1 = signature mode names lm) with
    | none =>
      simp only [hf] at h
      have ih := binopLoop_ok op isBool mode names rhs rest matched out h
      have hp : pairOut op isBool mode names rhs (lm, lv) = none := by simp [pairOut, hf]
      refine ⟨?_, ?_, ?_⟩
      · simp [List.filterMap_cons, hp, ih.1]
      · simp [List.filter_cons, hp, ih.2.1]
      · intro l hl hs
        rcases List.mem_cons.mp hl with rfl | hl
        · simp [hp] at hs
        · exact ih.2.2 l hl hs
    | some r =>
      obtain ⟨rs, rm, rv⟩ := r
      simp only [hf] at h
      cases hk : (!isBool && !(elemBinop op lv rv).2) with
      | true =>
        simp only [hk, if_true] at h
        have ih := binopLoop_ok op isBool mode names rhs rest matched out h
        have hp : pairOut op isBool mode names rhs (lm, lv) = none := by simp [pairOut, hf, hk]
        refine ⟨?_, ?_, ?_⟩
        · simp [List.filterMap_cons, hp, ih.1]
        · simp [List.filter_cons, hp, ih.2.1]
        · intro l hl hs
          rcases List.mem_cons.mp hl with rfl | hl
          · simp [hp] at hs
          · exact ih.2.2 l hl hs
      | false =>
        simp only [hk, Bool.false_eq_true, if_false] at h
        by_cases hc : signature mode names lm ∈ matched
        · simp [hc] at h
        · simp only [List.contains_iff_mem, hc, if_false] at h
          cases hr : binopLoop op isBool mode names rhs rest (signature mode names lm :: matched) with
          | error e => simp [hr] at h
          | ok out' =>
            simp only [hr, Except.ok.injEq] at h
            have ih := binopLoop_ok op isBool mode names rhs rest _ out' hr
            have hp : pairOut op isBool mode names rhs (lm, lv) =
                some (resultMetric op isBool mode names lm,
                  if isBool then boolVal (elemBinop op lv rv).2 else (elemBinop op lv rv).1) := by
              simp [pairOut, hf, hk]
            refine ⟨?_, ?_, ?_⟩
            · rw [← h]; simp [List.filterMap_cons, hp, ih.1]
            · simp only [List.filter_cons, hp, Option.isSome_some, if_true, List.map_cons, List.nodup_cons]
              refine ⟨?_, ih.2.1⟩
              intro hm
              obtain ⟨l, hl, hsig⟩ := List.mem_map.mp hm
              have hl' := List.mem_filter.mp hl
              have := ih.2.2 l hl'.1 hl'.2
              rw [hsig] at this
              exact this List.mem_cons_self
            · intro l hl hs
              rcases List.mem_cons.mp hl with heq | hl
              · cases heq
                exact hc
              · intro hm
                exact ih.2.2 l hl hs (List.mem_cons_of_mem _ hm)

/-- **binop_matching_unique**: when a one-to-one vector operation succeeds, the right-hand
signatures are pairwise distinct (each left element has at most one partner), every output
element is the contribution of one left element computed independently of the others, and no
two contributing left elements share a signature (no output is matched twice). -/
theorem binop_matching_unique (op : BinOp) (isBool : Bool) (mode : MatchMode) (names : List String)
    (lhs rhs out : List (Labels × V)) (hl : lhs ≠ []) (hr : rhs ≠ [])
    (h : vectorBinop op isBool mode names lhs rhs = .ok out) :
    let rs := rhs.map (fun r => (signature mode names r.1, r.1, r.2))
    (rhs.map (fun r => signature mode names r.1)).Nodup ∧
    out = lhs.filterMap (pairOut op isBool mode names rs) ∧
    ((lhs.filter (fun l => (pairOut op isBool mode names rs l).isSome)).map
        (fun l => signature mode names l.1)).Nodup := by
  unfold vectorBinop at h
  have h1 : (lhs.isEmpty || rhs.isEmpty) = false := by
    cases lhs <;> cases rhs <;> simp_all
  simp only [h1, Bool.false_eq_true, if_false, List.map_map] at h
  by_cases hd : hasDup (rhs.map ((fun x => x.1) ∘ fun r => (signature mode names r.1, r.1, r.2))) = true
  · simp [hd] at h
  · simp only [hd, Bool.false_eq_true, if_false] at h
    have hn : (rhs.map (fun r => signature mode names r.1)).Nodup := by
      by_cases hn : (rhs.map (fun r => signature mode names r.1)).Nodup
      · exact hn
      · have := (hasDup_iff_not_nodup _).mpr hn
        exact absurd this hd
    have := binopLoop_ok op isBool mode names _ lhs [] out h
    exact ⟨hn, this.1, this.2.1⟩

def okOf {α : Type} : Except Err α → Option α
  | .ok a => some a
  | .error _ => none
def errOf {α : Type} : Except Err α → Option Err
  | .ok _ => none
  | .error e => some e

example : okOf (vectorBinop (V := Int) .add false .on ["job"]
    [([("__name__", "a"), ("job", "x")], 1), ([("__name__", "a"), ("job", "y")], 2)]
    [([("__name__", "b"), ("job", "y")], 10), ([("__name__", "b"), ("job", "z")], 20)])
    = some [([("job", "y")], 12)] := by decide

example : errOf (vectorBinop (V := Int) .add false .on ["job"]
    [([("inst", "1"), ("job", "x")], 1), ([("inst", "2"), ("job", "x")], 2)]
    [([("job", "x")], 10)]) = some .manyToOne := by decide

example : errOf (vectorBinop (V := Int) .add false .on ["job"]
    [([("job", "x")], 10)]
    [([("inst", "1"), ("job", "x")], 1), ([("inst", "2"), ("job", "x")], 2)]) = some .dupMatch := by decide

/-! ### the duration-to-zero clamp of rate / increase -/

/-- the clamp condition is Prometheus's: counter ∧ increase > 0 ∧ first value ≥ 0 (over integer
samples). -/
theorem clamp_condition (isCounter : Bool) (result first : Int) :
    clampApplies isCounter result first = true ↔ isCounter = true ∧ 0 < result ∧ 0 ≤ first := by
  simp [clampApplies, Val.lt, Val.le, Val.ofInt, and_assoc]

/-- a first sample of exactly 0 (fresh counter, reset to 0) IS clamped … -/
theorem clamp_applies_at_zero (result : Int) (h : 0 < result) : clampApplies true result (0 : Int) = true := by
  simp [clampApplies, Val.lt, Val.le, Val.ofInt, h]

/-- **extrapolation_clamped_when_first_nonneg**: for a counter window with a positive increase and
a non-negative first value the extrapolated start never lies before the counter's zero point: the
duration used before the first sample is at most `sampled · first / increase` (and never more
than the distance to the window start). In particular with a first value of 0 nothing is
extrapolated before the first sample. -/
theorem extrapolation_clamped_when_first_nonneg (result first sampled dStart0 : Int)
    (hr : 0 < result) (hf : 0 ≤ first) :
    clampedStart true result first sampled dStart0 ≤ sampled * (first / result) ∧
    clampedStart true result first sampled dStart0 ≤ dStart0 := by
  have hc : clampApplies true result first = true := (clamp_condition true result first).mpr ⟨rfl, hr, hf⟩
  simp only [clampedStart, hc, if_true, Val.mul, Val.div, Val.lt]
  by_cases h : sampled * (first / result) < dStart0
  · simp [h]; omega
  · simp [h]; omega

theorem extrapolation_zero_first_not_extended (result sampled dStart0 : Int) (hr : 0 < result) (hd : 0 ≤ dStart0) :
    clampedStart true result 0 sampled dStart0 = 0 := by
  have hc := clamp_applies_at_zero result hr
  simp only [clampedStart, hc, if_true, Val.mul, Val.div, Val.lt]
  by_cases h : dStart0 = 0
  · simp [h]
  · have : (0 : Int) < dStart0 := by omega
    simp [this]

/-- without the clamp (a gauge for `delta`, no increase, a negative first value) the whole distance
to the window start is used. -/
theorem extrapolation_unclamped (isCounter : Bool) (result first sampled dStart0 : Int)
    (h : clampApplies isCounter result first = false) :
    clampedStart isCounter result first sampled dStart0 = dStart0 := by
  simp [clampedStart, h]

-- increase over samples 0, 5, 10 (10 s apart), window starting 5 s before the first sample:
-- clamped (duration to zero = 0), not extended backwards
example : clampedStart true (10 : Int) 0 20 5 = 0 := by decide
example : clampedStart true (10 : Int) 3 20 8 = 0 := by decide
example : clampedStart false (10 : Int) 0 20 5 = 5 := by decide

/-! ### set operators -/

/-- **set_and_unless_partition**: `l and r` and `l unless r` split the left-hand vector: every
element of `l` is in exactly one of them (by whether its signature occurs on the right), and
neither holds anything else. -/
theorem set_and_unless_partition (mode : MatchMode) (names : List String) (lhs rhs : List (Labels × V))
    (x : Labels × V) :
    (x ∈ setBinop .and mode names lhs rhs ↔
        x ∈ lhs ∧ signature mode names x.1 ∈ rhs.map (fun y => signature mode names y.1)) ∧
    (x ∈ setBinop .unless mode names lhs rhs ↔
        x ∈ lhs ∧ signature mode names x.1 ∉ rhs.map (fun y => signature mode names y.1)) := by
  simp [setBinop]

/-- **set_or_keeps_left**: `l or r` is `l` followed by the right-hand elements whose signature
does not occur on the left. -/
theorem set_or_keeps_left (mode : MatchMode) (names : List String) (lhs rhs : List (Labels × V)) :
    setBinop .or mode names lhs rhs =
      lhs ++ rhs.filter (fun y => !(lhs.map (fun x => signature mode names x.1)).contains (signature mode names y.1)) := by
  simp [setBinop]

example : setBinop (V := Int) .and .on ["job"] [([("job", "a")], 1), ([("job", "b")], 2)] [([("job", "b"), ("x", "y")], 9)]
    = [([("job", "b")], 2)] := by decide
example : setBinop (V := Int) .unless .on ["job"] [([("job", "a")], 1), ([("job", "b")], 2)] [([("job", "b"), ("x", "y")], 9)]
    = [([("job", "a")], 1)] := by decide
example : setBinop (V := Int) .or .on ["job"] [([("job", "a")], 1)] [([("job", "a"), ("x", "y")], 9), ([("job", "c")], 3)]
    = [([("job", "a")], 1), ([("job", "c")], 3)] := by decide

/-! ### the one place where a range query is *not* its instants: the error rule -/

section errorRule
/-- two metrics that differ only in their name, with samples in different periods. -/
def exDb : List (Series Int) :=
  [⟨[("__name__", "m0"), ("a", "x")], [⟨10, 1, false⟩, ⟨20, 2, false⟩]⟩,
   ⟨[("__name__", "m1"), ("a", "x")], [⟨110, 1, false⟩, ⟨120, 5, false⟩]⟩]
def exExpr : Expr Int :=
  .rfn .idelta 20 [⟨"__name__", .re, "", .alt (.lit "m0".toList) (.lit "m1".toList)⟩] 0 none

def isOk {α : Type} (r : Except Err α) : Bool := (okOf r).isSome

/-- each instant query succeeds (one series each, after the name is dropped) … -/
example : isOk (evalSteps exDb 300 [20] exExpr) = true ∧ isOk (evalSteps exDb 300 [120] exExpr) = true := by decide
/-- … but the range query over both timestamps is rejected: the engine checks duplicate
output label sets of a range function over the whole range. `range_eq_instants` is therefore
stated for successful range queries, and the model reproduces this rule (the `ref` lines of the
correspondence compare error classes with the upstream engine). -/
example : errOf (evalSteps exDb 300 [20, 120] exExpr) = some .dupLabelset := by decide
end errorRule

end vals

end OG.C18
