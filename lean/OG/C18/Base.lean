/-
C18 — PromQL answers equal Prometheus's. Base definitions of the reference semantics (core only).

Values are abstract (`Val V`): the executable driver instantiates `V := Float`, the theorems
hold for every `V` and never look inside a value. Timestamps are `Int` milliseconds.
-/
namespace OG.C18

/-- what the evaluator needs from a sample value; IEEE-754 double in the driver. -/
class Val (V : Type) where
  ofInt : Int → V
  add : V → V → V
  sub : V → V → V
  mul : V → V → V
  div : V → V → V
  lt : V → V → Bool
  le : V → V → Bool
  beq : V → V → Bool
  isNaN : V → Bool
  isInf : V → Bool
  abs : V → V
  /-- the float64 constant 1.1 (extrapolation threshold factor). -/
  c1_1 : V
  /-- `int(math.Floor(v))` (index computation of `quantile`). -/
  toIntFloor : V → Int

/-- integers as values: used by the non-vacuity examples and the structural facts about
counter-reset handling. -/
instance : Val Int where
  ofInt i := i
  add := (· + ·)
  sub := (· - ·)
  mul := (· * ·)
  div := (· / ·)
  lt a b := decide (a < b)
  le a b := decide (a ≤ b)
  beq a b := decide (a = b)
  isNaN _ := false
  isInf _ := false
  abs a := (a.natAbs : Int)
  c1_1 := 1
  toIntFloor a := a

/-! ### label sets -/

/-- a label set: pairs (name, value), sorted by name, no empty values (as in Prometheus,
an absent label and an empty value are the same thing). -/
abbrev Labels := List (String × String)

def metricName : String := "__name__"

/-- `labels.Get`: the value, or "" when the label is absent. -/
def Labels.get (ls : Labels) (n : String) : String :=
  match ls.lookup n with
  | some v => v
  | none => ""

def Labels.keep (ls : Labels) (names : List String) : Labels := ls.filter (fun p => names.contains p.1)
def Labels.del (ls : Labels) (names : List String) : Labels := ls.filter (fun p => !names.contains p.1)
def Labels.dropName (ls : Labels) : Labels := ls.del [metricName]

/-- `labels.Builder.Set`: replace or insert, keeping the order by name. -/
def Labels.set (ls : Labels) (n v : String) : Labels :=
  let rest := ls.filter (fun p => p.1 != n)
  (rest.filter (fun p => p.1 < n)) ++ [(n, v)] ++ (rest.filter (fun p => !(p.1 < n)))

/-- canonical text of a label set, `{a=x,b=y}` (the harness sorts series by it). -/
def Labels.key (ls : Labels) : String :=
  "{" ++ ",".intercalate (ls.map (fun p => p.1 ++ "=" ++ p.2)) ++ "}"

/-! ### a small regular-expression language (what the generator emits), full-match semantics -/

inductive Rx where
  | none                      -- matches nothing
  | eps                       -- matches the empty string
  | lit (cs : List Char)      -- a literal string
  | any                       -- `.`
  | star (r : Rx)
  | plus (r : Rx)
  | opt (r : Rx)
  | alt (a b : Rx)
  | cat (a b : Rx)
deriving Repr, DecidableEq, Inhabited

def Rx.nullable : Rx → Bool
  | .none => false
  | .eps => true
  | .lit cs => cs.isEmpty
  | .any => false
  | .star _ => true
  | .plus r => r.nullable
  | .opt _ => true
  | .alt a b => a.nullable || b.nullable
  | .cat a b => a.nullable && b.nullable

/-- Brzozowski derivative. -/
def Rx.deriv (c : Char) : Rx → Rx
  | .none => .none
  | .eps => .none
  | .lit [] => .none
  | .lit (x :: xs) => if x = c then .lit xs else .none
  | .any => if c = '\n' then .none else .eps
  | .star r => .cat (r.deriv c) (.star r)
  | .plus r => .cat (r.deriv c) (.star r)
  | .opt r => r.deriv c
  | .alt a b => .alt (a.deriv c) (b.deriv c)
  | .cat a b => if a.nullable then .alt (.cat (a.deriv c) b) (b.deriv c) else .cat (a.deriv c) b

/-- anchored match of the whole string (PromQL regex matchers are fully anchored). -/
def Rx.matchChars (r : Rx) : List Char → Bool
  | [] => r.nullable
  | c :: cs => (r.deriv c).matchChars cs

def Rx.matches (r : Rx) (s : String) : Bool := r.matchChars s.toList

inductive MatchKind where
  | eq | ne | re | nre
deriving Repr, DecidableEq, Inhabited

structure Matcher where
  label : String
  kind : MatchKind
  lit : String := ""
  rx : Rx := .none
deriving Repr, DecidableEq, Inhabited

def Matcher.test (m : Matcher) (ls : Labels) : Bool :=
  let v := ls.get m.label
  match m.kind with
  | .eq => v == m.lit
  | .ne => v != m.lit
  | .re => m.rx.matches v
  | .nre => !m.rx.matches v

def matchAll (ms : List Matcher) (ls : Labels) : Bool := ms.all (·.test ls)

/-! ### samples -/

/-- one sample; `stale` marks the Prometheus staleness marker (a NaN with a special payload;
the payload cannot be recovered from a `Float`, so the flag travels separately). -/
structure Pt (V : Type) where
  t : Int
  v : V
  stale : Bool := false
deriving Repr, DecidableEq, Inhabited

structure Series (V : Type) where
  labels : Labels
  pts : List (Pt V)
deriving Repr, Inhabited

/-- evaluation errors of the reference engine (its error message mapped to an enum). -/
inductive Err where
  | dupLabelset   -- "vector cannot contain metrics with the same labelset"
  | manyToOne     -- "multiple matches for labels: many-to-one matching must be explicit"
  | dupMatch      -- "found duplicate series for the match group"
  | groupingDup   -- "multiple matches for labels: grouping labels must ensure unique matches"
  | badType       -- an expression the subset does not type (never generated)
deriving Repr, DecidableEq, Inhabited

def Err.text : Err → String
  | .dupLabelset => "dup-labelset"
  | .manyToOne => "many-to-one"
  | .dupMatch => "dup-match"
  | .groupingDup => "grouping-dup"
  | .badType => "bad-type"

/-- `mapM` in `Except`, written structurally so that proofs can unfold it. -/
def mapE {ε α β : Type} (f : α → Except ε β) : List α → Except ε (List β)
  | [] => .ok []
  | a :: as =>
    match f a with
    | .error e => .error e
    | .ok b =>
      match mapE f as with
      | .error e => .error e
      | .ok bs => .ok (b :: bs)

/-- does a list contain the same element twice? -/
def hasDup {α : Type} [BEq α] : List α → Bool
  | [] => false
  | a :: as => as.contains a || hasDup as

end OG.C18
