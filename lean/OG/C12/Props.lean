/-
C12 — property theorems: "a query shipped to the storage nodes is the query that was planned".

For every statement the parser accepts, printing (`String()`) and re-parsing (`ParseExpr`) must
yield the same expression tree. The unchanged code does not satisfy this in full: the full
statements are kept as `def … : Prop`, refuted from concrete witnesses, and proved under
decidable hypotheses that exclude exactly the defect classes (known_findings.jsonl carries the
same class names). Four defects were repaired in /repo (bitwise operators, sub-microsecond
durations, IN-set members, `::time`): their theorems hold in full.
-/
import OG.C12.YaccShape
import OG.C12.Durs

namespace OG.C12
open OG.Gen.C12

/-! ## literals -/

/-- **string literals**: `Scanner.ScanString` reads `QuoteString(s)` back as `s` — every string
(quotes, backslashes, newlines, any code point), whatever follows the literal. -/
theorem string_lit_roundtrip (s rest : Str) :
    scanString (quoteString s ++ rest) = (.str s, rest) :=
  scanString_quoteString s rest

example : scanString (quoteString ['i', 't', '\'', 's', ' ', '\\', '\n', '"'] ++ [' ', '=']) =
    (.str ['i', 't', '\'', 's', ' ', '\\', '\n', '"'], [' ', '=']) := by decide

/-- on the wire the text also passes `reader.read`, which turns CR into LF and treats the code
point 0 as the end: the full statement over *all* strings is false … -/
def string_lit_roundtrip_full : Prop :=
  ∀ s, scanString (normInput (quoteString s)) = (.str s, [])

theorem string_lit_roundtrip_full_false : ¬ string_lit_roundtrip_full := by
  intro h
  have := h ['\r']
  revert this
  decide

def noCRNul (s : Str) : Prop := ∀ c ∈ s, c ≠ '\r' ∧ c.toNat ≠ 0

theorem normInputAux_id (cs : List Char) (h : noCRNul cs) : normInputAux false cs = cs := by
  induction cs with
  | nil => rfl
  | cons c cs ih =>
    have hc := h c (by simp)
    have := ih (fun x hx => h x (by simp [hx]))
    simp [normInputAux, hc.1, hc.2, this]

theorem mem_escapeWith (q : Char) (s : Str) : ∀ c ∈ escapeWith q s, c ∈ s ∨ c = '\\' ∨ c = 'n' ∨ c = q := by
  induction s with
  | nil => simp [escapeWith]
  | cons a as ih =>
    intro c hc
    unfold escapeWith at hc
    split at hc
    · simp only [List.mem_cons] at hc
      rcases hc with rfl | rfl | hc
      · simp
      · simp
      · rcases ih c hc with h | h <;> simp [h]
    · split at hc
      · simp only [List.mem_cons] at hc
        rcases hc with rfl | rfl | hc
        · simp
        · simp
        · rcases ih c hc with h | h <;> simp [h]
      · split at hc
        · simp only [List.mem_cons] at hc
          rcases hc with rfl | rfl | hc
          · simp
          · simp
          · rcases ih c hc with h | h <;> simp [h]
        · simp only [List.mem_cons] at hc
          rcases hc with rfl | hc
          · simp
          · rcases ih c hc with h | h <;> simp [h]

/-- … and it holds for every string without CR / NUL — which is every string the statement
scanner can produce, since it reads through the same `reader`. -/
theorem string_lit_roundtrip_wire (s : Str) (h : noCRNul s) :
    scanString (normInput (quoteString s)) = (.str s, []) := by
  have hq : noCRNul (quoteString s) := by
    intro c hc
    simp only [quoteString, List.mem_cons, List.mem_append, List.not_mem_nil, or_false] at hc
    rcases hc with rfl | hc | rfl
    · decide
    · rcases mem_escapeWith '\'' s c hc with h1 | rfl | rfl | rfl
      · exact h c h1
      · decide
      · decide
      · decide
    · decide
  unfold normInput
  rw [normInputAux_id _ hq]
  simpa using scanString_quoteString s []

/-- **identifiers that need quotes** (keywords, spaces, dots, quotes, unicode, the empty name):
`scanIdent` reads `QuoteIdent(s)` back as the identifier `s`, whatever follows. -/
theorem ident_roundtrip (s rest : Str) (checkDot : Bool) (h : identNeedsQuotes s = true ∨ s = []) :
    scanIdent true checkDot (quoteIdent s ++ rest) = (.ident s, rest) := by
  have hq : quoteIdent s = '"' :: (escapeWith '"' s ++ ['"']) := by
    unfold quoteIdent
    rcases h with h | rfl
    · simp [h]
    · simp
  rw [hq]
  have hb : scanStringBody '"' (escapeWith '"' s ++ '"' :: rest) false [] = .ok (s, rest) := by
    simpa using scanStringBody_escape '"' (Or.inr rfl) s rest []
  have hs : scanString ('"' :: (escapeWith '"' s ++ '"' :: rest)) = (.str s, rest) := by
    simp [scanString, hb]
  have hcs : '"' :: (escapeWith '"' s ++ ['"']) ++ rest = '"' :: (escapeWith '"' s ++ '"' :: rest) := by simp
  rw [hcs]
  unfold scanIdent
  have : isIdentChar '"' = false := by decide
  simp only [this, Bool.false_eq_true, if_false, hs]

example : identNeedsQuotes ['s', 'e', 'l', 'e', 'c', 't'] = true ∧ identNeedsQuotes ['m', 'y', ' ', 'c'] = true ∧
    identNeedsQuotes ['a', '"', 'b'] = true ∧ identNeedsQuotes ['a', '_', '1'] = false := by decide

/-- **integers**: the whole int64 range (the most negative value through the UnsignedLiteral
detour of `parseUnaryExpr`). -/
theorem int_lit_roundtrip (v : Int) (h1 : minInt64 ≤ v) (h2 : v ≤ maxInt64) :
    parseExpr (print (.int v)) = some (.int v) :=
  parseExpr_print (.int v) (by simp [PECanon]) (by simp [AtomsOK, h1, h2])
    (by simp [regexFirstOK, firstAtom]) (by simp [noSetFirst, firstAtom])

example : parseExpr (print (.int minInt64)) = some (.int minInt64) := by decide
example : parseExpr (print (.int maxInt64)) = some (.int maxInt64) := by decide

/-- **regexes**: `ScanRegex` (after `=~`, `!~`, in call arguments) reads `/…/` with every slash
escaped back as the same text — unless the text holds a line break or ends in a backslash. -/
theorem regex_roundtrip (s : Str) (h1 : noNewline s) (h2 : endsOK false s) :
    regexTokDelimited s = .regex s := by
  have := scanDelimited_escapeSlashes s [] false [] h1 h2
  simp [regexTokDelimited, this, pend]

def regex_roundtrip_full : Prop := ∀ s, regexTokDelimited s = .regex s

theorem regex_roundtrip_full_false : ¬ regex_roundtrip_full := by
  intro h
  have := h ['a', '\\']
  revert this
  decide

example : regexTokDelimited ['a', '/', 'b', '\\', '/', 'c', '\\', '.'] =
    .regex ['a', '/', 'b', '\\', '/', 'c', '\\', '.'] := by decide

/-- **durations** (after the repair of `FormatDuration`): every duration, to the nanosecond. -/
theorem duration_roundtrip_full (d : Int) (h1 : minInt64 < d) (h2 : d ≤ maxInt64) :
    parseDuration (formatDuration d) = some d := by
  by_cases hd : d < 0
  · -- "-" followed by the text of |d|
    have hn : (d.natAbs : Int) ≤ maxInt64 := by unfold minInt64 maxInt64 at *; omega
    have hpos := parseDuration_formatDurAbs d.natAbs hn
    have h2' : ¬ (((formatDurAbs d.natAbs).map utf8Len).sum < 2) := by
      intro hlt
      simp [parseDuration, hlt] at hpos
    have hnd : ∀ r, formatDurAbs d.natAbs ≠ '-' :: r := by
      intro r hr
      unfold formatDurAbs at hr
      repeat' split at hr
      all_goals first
        | (simp at hr; done)
        | exact natDigits_append_ne_dash _ _ r hr
    rw [parseDuration_of_not_dash _ h2' hnd] at hpos
    simp only [formatDuration, hd, if_true]
    unfold parseDuration
    have hsum : ¬ ((('-' :: formatDurAbs d.natAbs).map utf8Len).sum < 2) := by
      simp only [List.map_cons, List.sum_cons]
      have := utf8Len_pos '-'
      omega
    simp only [hsum, if_false]
    unfold parseDurationAbs at hpos ⊢
    cases hl : parseDurLoop ((formatDurAbs d.natAbs).length + 1) (formatDurAbs d.natAbs) 0 with
    | none => simp [hl] at hpos
    | some x =>
      simp only [hl] at hpos
      split at hpos
      · cases hpos
      · simp only [Bool.false_eq_true, if_false, Option.some.injEq] at hpos
        subst hpos
        have : wrap64 (-(d.natAbs : Int)) = d := by
          rw [wrap64_neg _ (Int.natCast_nonneg _) hn]; omega
        simp [this]
  · have hn : (d.natAbs : Int) = d := by omega
    simp only [formatDuration, hd, if_false]
    rw [parseDuration_formatDurAbs d.natAbs (by omega), hn]

/-- the witness of the defect the repair removed: 1500ns used to be printed as `1u`. -/
example : formatDuration 1500 = ['1', '5', '0', '0', 'n', 's'] ∧
    parseDuration (formatDuration 1500) = some 1500 := by decide

/-! ## operator tables -/

/-- position of an operator in the statement grammar: AND/OR (one %left line), then the
comparison level (CONDITION_OPERATOR, IN, MATCH…), then the %left lines of COLUMN. -/
def yaccRank (op : Op) : Nat :=
  if yaccColumnOps.contains op then yaccLevel op + 1
  else if yaccLevel op ≠ 0 then yaccLevel op
  else 2

/-- **the two regenerated tables induce the same grouping** — the full statement. It is false:
that is the diagnosis of the grouping defects. -/
def prec_consistent_full : Prop :=
  ∀ a b : Op, (yaccRank a < yaccRank b ↔ pePrec a < pePrec b)

theorem prec_consistent_full_false : ¬ prec_consistent_full := by
  intro h
  have := h .or .and
  revert this
  decide

/-- the operators on which sql.y and `Precedence()` disagree: AND against OR (one level in
sql.y, two in `Precedence()`), and LIKE / MATCH… (comparison level in sql.y, above `*` in
`Precedence()`). Everything else is ordered the same way by both. -/
theorem prec_consistent (a b : Op) (ha : pePrec a ≠ 6) (hb : pePrec b ≠ 6)
    (hab : ¬ (isLogical a = true ∧ isLogical b = true)) :
    (yaccRank a < yaccRank b ↔ pePrec a < pePrec b) := by
  revert ha hb hab
  cases a <;> cases b <;> decide

/-- `ParseExpr` knows every operator `BinaryExpr.String` can print (after the repair of
operatorMap, which lacked `&`, `|`, `^`). -/
theorem all_operators_known : ∀ op : Op, isOperator op = true := by
  intro op; cases op <;> rfl

/-- `ParseVarRef` reads back every type name the statement grammar accepts (after the repair:
`::time`). -/
theorem yacc_types_read_back :
    (∀ p ∈ yaccTypeNames, lookupKw p.1 = none → typeRT p.2 = true) ∧
      typeRT .tag = true ∧ typeRT .anyField = true ∧ typeRT .unknown = true := by decide

/-! ## expressions -/

/-- **the property for conditions**, full statement: whatever the statement parser accepts is
re-parsed, from its printout, as the same tree. -/
def expr_roundtrip_full : Prop :=
  ∀ toks e, yaccParse toks = some e → parseExpr (print e) = some e

def tk (s : String) : Tok := .ident s.toList

/-- `a = 1 OR b = 2 AND c = 3` -/
def witnessAndOr : List Tok :=
  [.ident ['a'], .sym .eq, .int ['1'], .kw .OR, .ident ['b'], .sym .eq, .int ['2'], .kw .AND,
   .ident ['c'], .sym .eq, .int ['3']]

/-- `a = 2.0` -/
def witnessNumber : List Tok := [.ident ['a'], .sym .eq, .num ['2', '.', '0']]

/-- `b / - a > 1` -/
def witnessNeg : List Tok :=
  [.ident ['b'], .sym .div, .sym .sub, .ident ['a'], .sym .gt, .int ['1']]

theorem witnessAndOr_planned : yaccParse witnessAndOr = some
    (.binary .and
      (.binary .or (.binary .eq (.varRef ['a'] .unknown) (.int 1)) (.binary .eq (.varRef ['b'] .unknown) (.int 2)))
      (.binary .eq (.varRef ['c'] .unknown) (.int 3))) := by decide

theorem witnessAndOr_shipped :
    parseExpr (print (.binary .and
      (.binary .or (.binary .eq (.varRef ['a'] .unknown) (.int 1)) (.binary .eq (.varRef ['b'] .unknown) (.int 2)))
      (.binary .eq (.varRef ['c'] .unknown) (.int 3)))) = some
    (.binary .or (.binary .eq (.varRef ['a'] .unknown) (.int 1))
      (.binary .and (.binary .eq (.varRef ['b'] .unknown) (.int 2)) (.binary .eq (.varRef ['c'] .unknown) (.int 3)))) := by
  decide

theorem witnessNumber_planned : yaccParse witnessNumber = some
    (.binary .eq (.varRef ['a'] .unknown) (.num ⟨false, 2, 0⟩)) := by decide

theorem witnessNumber_shipped :
    parseExpr (print (.binary .eq (.varRef ['a'] .unknown) (.num ⟨false, 2, 0⟩))) = some
    (.binary .eq (.varRef ['a'] .unknown) (.int 2)) := by decide

theorem witnessNeg_planned : yaccParse witnessNeg = some
    (.binary .gt (.binary .div (.varRef ['b'] .unknown) (.binary .mul (.int (-1)) (.varRef ['a'] .unknown))) (.int 1)) := by
  decide

theorem witnessNeg_shipped :
    parseExpr (print (.binary .gt (.binary .div (.varRef ['b'] .unknown)
      (.binary .mul (.int (-1)) (.varRef ['a'] .unknown))) (.int 1))) = some
    (.binary .gt (.binary .mul (.binary .div (.varRef ['b'] .unknown) (.int (-1))) (.varRef ['a'] .unknown)) (.int 1)) := by
  decide

/-- the full statement is false on the unchanged code: the grouping witness and the literal
witness (each a different predicate on the store than the one that was planned). -/
theorem expr_roundtrip_full_false : ¬ expr_roundtrip_full := by
  intro h
  have := h witnessAndOr _ witnessAndOr_planned
  rw [witnessAndOr_shipped] at this
  revert this
  decide

theorem expr_roundtrip_full_false_literal : ¬ expr_roundtrip_full := by
  intro h
  have := h witnessNumber _ witnessNumber_planned
  rw [witnessNumber_shipped] at this
  revert this
  decide

theorem allNodes_goodAll (e : Expr) (hs : allNodes shapeOK e = true) (hn : allNodes nodeOK e = true)
    (h1 : NoMixedAndOr e = true) (h2 : NoUnaryMinusOperand e = true) (h3 : NoLikeArith e = true)
    (h4 : NoIntegralNumberLit e = true) (h5 : NoInfNanIdent e = true) (h6 : CallNamesPlain e = true)
    (h7 : allNodes pRegex e = true) (h8 : NoTagTypedBeforeDiv e = true) (h9 : TypesReadBack e = true)
    (h10 : DursInRange e = true) : allNodes goodAll e = true := by
  have : goodAll = fun x => shapeOK x && nodeOK x && pMixed x && pNeg x && pLike x && pIntegral x &&
      pInfNan x && pCallPlain x && pRegex x && pTagDiv x && pTypes x && pDur x := rfl
  rw [this]
  simp only [allNodes_and]
  unfold NoMixedAndOr NoUnaryMinusOperand NoLikeArith NoIntegralNumberLit NoInfNanIdent CallNamesPlain
    NoTagTypedBeforeDiv TypesReadBack DursInRange at *
  simp [hs, hn, h1, h2, h3, h4, h5, h6, h7, h8, h9, h10]

/-- **the property for conditions**, under hypotheses that exclude exactly the defect classes:
a tree the statement parser built that shows none of them is re-parsed from its printout as
itself — same operators, same grouping, same literals with their types, same identifiers and
regular expressions. `h1`–`h9` are the defect classes of known_findings.jsonl. `hp` says that no
DURATIONVAL token starts with `-`: it holds of everything the scanner delivers (`yaccLex_plain`, so
`expr_roundtrip_text` below has no such hypothesis), and with it every DurationLiteral of the tree
lies in [0, MaxInt64] (`yaccParse_durs`). That the tree has the shape `YaccOut` (operator chains,
literal ranges, canonical key sets) is proved (`yaccParse_out`), and so is the read-back of key sets
(`setRT_of_canon`). -/
theorem expr_roundtrip_partial (toks : List Tok) (e : Expr)
    (hy : yaccParse toks = some e) (hp : Plain toks)
    (h1 : NoMixedAndOr e = true) (h2 : NoUnaryMinusOperand e = true) (h3 : NoLikeArith e = true)
    (h4 : NoIntegralNumberLit e = true) (h5 : NoInfNanIdent e = true) (h6 : CallNamesPlain e = true)
    (h7 : RegexPlacementOK e = true) (h8 : NoTagTypedBeforeDiv e = true) (h9 : TypesReadBack e = true) :
    parseExpr (print e) = some e := by
  have h10 : DursInRange e = true := yaccParse_durs toks e hp hy
  have hout := yaccParse_out toks e hy
  simp only [YaccOut, Bool.and_eq_true] at hout
  simp only [RegexPlacementOK, Bool.and_eq_true] at h7
  obtain ⟨hc, ha⟩ := good_canon_atoms e
    (allNodes_goodAll e hout.1.1 hout.1.2 h1 h2 h3 h4 h5 h6 h7.2 h8 h9 h10)
  exact parseExpr_print e hc ha h7.1 hout.2

/-- **the property for the text of a condition**: the tokens are what `YyParser.Lex` makes of the
text after `WHERE` (transcribed scanner), the tree is what the statement grammar builds from them. -/
theorem expr_roundtrip_text (cs : List Char) (toks : List Tok) (e : Expr)
    (hl : yaccLex cs = some toks) (hy : yaccParse toks = some e)
    (h1 : NoMixedAndOr e = true) (h2 : NoUnaryMinusOperand e = true) (h3 : NoLikeArith e = true)
    (h4 : NoIntegralNumberLit e = true) (h5 : NoInfNanIdent e = true) (h6 : CallNamesPlain e = true)
    (h7 : RegexPlacementOK e = true) (h8 : NoTagTypedBeforeDiv e = true) (h9 : TypesReadBack e = true) :
    parseExpr (print e) = some e :=
  expr_roundtrip_partial toks e hy (yaccLex_plain cs toks hl) h1 h2 h3 h4 h5 h6 h7 h8 h9

/-- without the token hypothesis the token-level statement is false: a DURATIONVAL token no scanner
produces (`-1ns`) is a negative DurationLiteral, printed `-1ns`, which `ParseExpr` reads as … the same
literal; the value that breaks is MinInt64 (`-9223372036854775807ns1ns`), whose printout does not parse. -/
theorem durToks_needed : ∃ toks e, yaccParse toks = some e ∧ DursInRange e = false := by
  refine ⟨[.ident ['a'], .sym .eq, .dur "-1ns".toList], .binary .eq (.varRef ['a'] .unknown) (.dur (-1)), by decide, by decide⟩

/-- non-vacuity: a condition that mixes four precedence levels, a quoted identifier, a typed
reference, a call with a regex argument, a duration, a string with escapes and an IN set
satisfies every hypothesis (and the conclusion, by evaluation). -/
def sampleToks : List Tok :=
  [.ident ['m', 'y', ' ', 'c'], .sym .add, .int ['1'], .sym .mul, .ident ['x'], .sym .dcolon, .ident ['f', 'l', 'o', 'a', 't'],
   .sym .gt, .ident ['f'], .sym .lparen, .regex ['a', '\\', '/', 'b'], .sym .comma, .dur ['9', '0', 'm'], .sym .rparen,
   .kw .AND, .sym .lparen, .ident ['s'], .sym .eq, .str ['i', 't', '\'', 's'], .kw .OR, .ident ['t'], .kw .IN,
   .sym .lparen, .sym .sub, .num ['1', '.', '5'], .sym .comma, .str [], .sym .rparen, .sym .rparen]

example : (match yaccParse sampleToks with
    | some e => YaccOut e && NoMixedAndOr e && NoUnaryMinusOperand e && NoLikeArith e &&
        NoIntegralNumberLit e && NoInfNanIdent e && CallNamesPlain e && RegexPlacementOK e &&
        NoTagTypedBeforeDiv e && TypesReadBack e && DursInRange e && decide (parseExpr (print e) = some e) && decide (nops e = 4)
    | none => false) = true := by decide

/-! ## option / plan / chunk codecs: field coverage

The tables are regenerated from the encoder / decoder bodies on every run. "Serialising then
deserialising yields equal objects" needs, per codec: every wire field the encoder writes is read
by the decoder; every struct field the encoder ships is restored by the decoder; and every struct
field is shipped or is on the recorded list of fields the code keeps local (`…Local`). -/

def subsetOf (a b : List String) : Bool := a.all fun x => b.contains x

/-- ProcessorOptions fields that stay on the node that built them (channels, the authorizer, the
context, planner-side flags) — the recorded expectation; a new field must be shipped or added
here. -/
def optionsLocal : List String :=
  ["Exprs", "FieldAux", "TagAux", "Parallel", "InterruptCh", "Authorizer", "ChunkedSize", "Chunked",
   "AbortChan", "RowsChan", "isTimeFirstKey", "StmtId", "CompareOffset", "LowerOpt", "BinOp",
   "IsCountValues", "SimpleTagset", "RemoveMetric", "NoPushDownDim", "ctx", "InConditons",
   "IsSameDims", "IsArrowQuery"]

theorem options_codec_covered :
    subsetOf cov_options_wireWritten cov_options_wireRead = true ∧
    subsetOf cov_options_wireRead cov_options_wireWritten = true ∧
    subsetOf cov_options_encoded cov_options_decoded = true ∧
    subsetOf cov_options_decoded cov_options_encoded = true ∧
    subsetOf cov_options_fields (cov_options_encoded ++ optionsLocal) = true := by decide

def measurementLocal : List String := ["IsSystemStatement", "Alias", "MstType"]

theorem measurement_codec_covered :
    subsetOf cov_measurement_wireWritten cov_measurement_wireRead = true ∧
    subsetOf cov_measurement_encoded cov_measurement_decoded = true ∧
    subsetOf cov_measurement_fields (cov_measurement_encoded ++ measurementLocal) = true := by decide

theorem schema_codec_covered : subsetOf cov_schema_wireWritten cov_schema_wireRead = true := by decide

/-- the query message (`RemoteQuery.Marshal` / `Unmarshal` with their MstInfos helpers): every field of
the struct is shipped and restored, every message field written is read and the other way round. -/
theorem remoteQuery_codec_covered :
    subsetOf cov_remoteQuery_fields cov_remoteQuery_encoded = true ∧
    subsetOf cov_remoteQuery_encoded cov_remoteQuery_decoded = true ∧
    subsetOf cov_remoteQuery_decoded cov_remoteQuery_encoded = true ∧
    subsetOf cov_remoteQuery_wireWritten cov_remoteQuery_wireRead = true ∧
    subsetOf cov_remoteQuery_wireRead cov_remoteQuery_wireWritten = true := by decide

/-- result chunks: every field `Marshal` writes is set by `Unmarshal` (and counted by `Size`,
except the fixed-size ones); the row type, the embedded record and the graph are rebuilt by the
receiver from the plan. -/
theorem chunk_codec_covered :
    subsetOf cov_chunk_encoded cov_chunk_decoded = true ∧
    subsetOf cov_chunk_fields (cov_chunk_encoded ++ ["rowDataType", "Record", "graph"]) = true ∧
    subsetOf cov_chunk_encoded cov_chunk_sized = true ∧
    subsetOf cov_column_encoded cov_column_decoded = true ∧
    subsetOf cov_column_fields cov_column_encoded = true ∧
    subsetOf cov_bitmap_encoded cov_bitmap_decoded = true ∧
    subsetOf cov_bitmap_fields cov_bitmap_encoded = true ∧
    subsetOf cov_chunkTags_encoded cov_chunkTags_decoded = true ∧
    subsetOf cov_chunkTags_fields (cov_chunkTags_encoded ++ ["offsets"]) = true := by decide

/-- plan nodes: every node type `MarshalBinary` ships has a case in `UnmarshalBinaryNode` that
reads exactly the message fields written for it and builds a node — except LogicalMst, whose case is
marked "unused" in the source and builds nothing (recorded). -/
theorem plan_codec_covered :
    cov_plan.all (fun (name, written, read?, builds) =>
      match read? with
      | some read => subsetOf written read && subsetOf read written && (builds || name == "LogicalMst")
      | none => false) = true := by decide

end OG.C12
