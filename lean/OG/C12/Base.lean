/-
C12 — base types shared by the generated facts and the model (core Lean only).

All text is `List Char` (never `String`): the kernel evaluates list functions directly, which
keeps `decide` usable on concrete witnesses.
-/
namespace OG.C12

abbrev Str := List Char

/-- operators a `BinaryExpr` can carry (lib/util/lifted/influx/influxql: token constants). -/
inductive Op where
  | or | and
  | eq | neq | eqregex | neqregex | lt | lte | gt | gte | inOp | notin
  | add | sub | bitor | bitxor
  | mul | div | mod | bitand
  | matchOp | matchphrase | like | ipinrange
deriving DecidableEq, Repr, Inhabited

def Op.all : List Op :=
  [.or, .and, .eq, .neq, .eqregex, .neqregex, .lt, .lte, .gt, .gte, .inOp, .notin,
   .add, .sub, .bitor, .bitxor, .mul, .div, .mod, .bitand,
   .matchOp, .matchphrase, .like, .ipinrange]

theorem Op.mem_all (o : Op) : o ∈ Op.all := by cases o <;> decide

/-- `%left` / `%right` / `%nonassoc` of a yacc precedence line. -/
inductive Assoc where
  | left | right | nonassoc
deriving DecidableEq, Repr

/-- `influxql.DataType`. -/
inductive DataType where
  | unknown | float | integer | string | boolean | time | duration | tag | anyField
  | unsigned | floatTuple | graph
deriving DecidableEq, Repr, Inhabited

def DataType.all : List DataType :=
  [.unknown, .float, .integer, .string, .boolean, .time, .duration, .tag, .anyField,
   .unsigned, .floatTuple, .graph]

/-- type of a `Wildcard` (`*`, `*::field`, `*::tag`). -/
inductive WcType where
  | none | field | tag
deriving DecidableEq, Repr

/-! ### characters and digits -/

def isDigit (c : Char) : Bool := '0' ≤ c && c ≤ '9'
def isLetter (c : Char) : Bool := ('a' ≤ c && c ≤ 'z') || ('A' ≤ c && c ≤ 'Z')
def isIdentChar (c : Char) : Bool := isLetter c || isDigit c || c == '_'
def isIdentFirstChar (c : Char) : Bool := isLetter c || c == '_'
def isWhitespace (c : Char) : Bool := c == ' ' || c == '\t' || c == '\n'

/-- ASCII lower-casing (`strings.ToLower` restricted to ASCII; see the limits in props/C12.json). -/
def lowerChar (c : Char) : Char :=
  if 'A' ≤ c && c ≤ 'Z' then Char.ofNat (c.toNat + 32) else c
def lower (s : Str) : Str := s.map lowerChar

def digitChar (d : Nat) : Char := Char.ofNat (48 + d)
def digitVal (c : Char) : Nat := c.toNat - 48

/-- decimal digits of `n`, most significant first, built with fuel (structural recursion, so
the kernel can evaluate it). `fuel` must exceed the number of digits; `natDigits` supplies it. -/
def natDigitsAux : Nat → Nat → List Char → List Char
  | 0, _, acc => acc
  | fuel + 1, n, acc =>
    if n < 10 then digitChar n :: acc
    else natDigitsAux fuel (n / 10) (digitChar (n % 10) :: acc)

/-- `strconv.FormatUint(n, 10)` / `%d` of a non-negative number. -/
def natDigits (n : Nat) : List Char := natDigitsAux (n + 1) n []

/-- value of a digit string (no validation: callers check `all isDigit`). -/
def digitsVal (ds : List Char) : Nat := ds.foldl (fun acc c => acc * 10 + digitVal c) 0

def maxInt64 : Int := 9223372036854775807
def minInt64 : Int := -9223372036854775808
def maxUint64 : Nat := 18446744073709551615
def two63 : Nat := 9223372036854775808
def two64 : Nat := 18446744073709551616

/-- two's-complement wrap of an integer into the int64 range (Go arithmetic on `int64`). -/
def wrap64 (x : Int) : Int :=
  let m := x % (two64 : Int)
  if m ≥ (two63 : Int) then m - (two64 : Int) else m

end OG.C12
