/-
C12 — the decidable predicates of the property theorem (core only).

`YaccOut e`   what every tree of the statement grammar looks like (shape and literal ranges).
The eight "no defect" predicates exclude, one each, the ways such a tree fails to come back from
`String()` → `ParseExpr` (the finding classes of the harness carry the same names).
-/
import OG.C12.Spec

namespace OG.C12
open OG.Gen.C12

mutual
/-- `p` holds at every node. -/
def allNodes (p : Expr → Bool) : Expr → Bool
  | .binary op l r => p (.binary op l r) && allNodes p l && allNodes p r
  | .paren e => p (.paren e) && allNodes p e
  | .call name args => p (.call name args) && allNodesArgs p args
  | e => p e
def allNodesArgs (p : Expr → Bool) : Args → Bool
  | .nil => true
  | .cons e r => allNodes p e && allNodesArgs p r
end

def isLogical (op : Op) : Bool := op = .and || op = .or

/-- `-x` as the grammar builds it. -/
def isNegUnit : Expr → Bool
  | .binary .mul (.int v) _ => v = -1
  | _ => false

/-! ### the defect classes -/

def pMixed : Expr → Bool
  | .binary op (.binary o _ _) _ => !(isLogical op && isLogical o && decide (pePrec o < pePrec op))
  | _ => true

/-- class `mixed_and_or_no_paren`: an AND whose left operand is an unparenthesised OR. -/
def NoMixedAndOr : Expr → Bool := allNodes pMixed

def pNeg : Expr → Bool
  | .binary op _ r => !(isNegUnit r && decide (pePrec .mul ≤ pePrec op))
  | _ => true

/-- class `unary_minus_regrouped`: `-x` (= `-1 * x`) to the right of an operator that binds as
tightly as `*`. -/
def NoUnaryMinusOperand : Expr → Bool := allNodes pNeg

def pLike : Expr → Bool
  | .binary .like l r => !l.isBinary && !r.isBinary
  | _ => true

/-- class `like_arithmetic_operand`: LIKE (precedence 6 in `Precedence()`) over an operator. -/
def NoLikeArith : Expr → Bool := allNodes pLike

def pIntegral : Expr → Bool
  | .num n => n.scale != 0
  | _ => true

/-- class `integral_number_literal`. -/
def NoIntegralNumberLit : Expr → Bool := allNodes pIntegral

def pInfNan : Expr → Bool
  | .varRef name _ => !isInfNan name
  | .call name _ => !isInfNan name
  | _ => true

/-- class `ident_inf_nan`. -/
def NoInfNanIdent : Expr → Bool := allNodes pInfNan

def pCallPlain : Expr → Bool
  | .call name _ => callNameTok name = .ident name
  | _ => true

/-- class `call_name_needs_quotes`. -/
def CallNamesPlain : Expr → Bool := allNodes pCallPlain

def argsRegex : Args → Bool
  | .nil => true
  | .cons a r => regexFirstOK true a && argRegexOK a && argsRegex r

def pRegex : Expr → Bool
  | .binary op _ r =>
    if isRegexOp op then (firstAtom r).isRegex && regexFirstOK true r
    else if isInOp op then true
    else regexFirstOK false r
  | .paren x => regexFirstOK false x
  | .call _ args => argsRegex args
  | _ => true

/-- classes `eqregex_non_regex_operand`, `regex_operand_outside_regex_operator` (and a regex with
a line break or a trailing backslash, which `ScanRegex` cannot read back): every regex is re-read
as itself where it stands. -/
def RegexPlacementOK (e : Expr) : Bool := regexFirstOK false e && allNodes pRegex e

def pTagDiv : Expr → Bool
  | .binary op l _ =>
    op != .div || (divAfter (printCtx false l).getLast? && divAfter (printCtx true l).getLast?)
  | _ => true

/-- class `division_after_tag_typed_ref`: a `/` right after `::tag` / `::field`. -/
def NoTagTypedBeforeDiv : Expr → Bool := allNodes pTagDiv

def pTypes : Expr → Bool
  | .varRef _ ty => typeRT ty
  | _ => true

/-- class `duration_typed_ref`: the grammar accepts the type name `duration` when it is written
as a quoted identifier (`a::"duration"`); it is printed bare, where it is the keyword DURATION. -/
def TypesReadBack : Expr → Bool := allNodes pTypes

def pDur : Expr → Bool
  | .dur d => decide (0 ≤ d) && decide (d ≤ maxInt64)
  | _ => true

/-- not a defect class: a DurationLiteral of the statement parser is never negative (the scanner
cannot produce a DURATIONVAL that starts with `-`, see `yacc_durs_in_range`). -/
def DursInRange : Expr → Bool := allNodes pDur

/-! ### what the statement grammar produces -/

/-- a child that `Precedence()` would group differently is one of the three grouping defects. -/
def shapeOK : Expr → Bool
  | .binary op l r =>
    (leftOK (pePrec op) l ||
      (match l with
       | .binary o _ _ => (isLogical op && isLogical o) || op = .like
       | _ => false)) &&
    (rightOK (pePrec op) r || isNegUnit r || op = .like)
  | _ => true

def argsNoSet : Args → Bool
  | .nil => true
  | .cons a r => noSetFirst a && argsNoSet r

/-- literals in range / canonical, operators known to `ParseExpr`, sets only to the right of IN. -/
def nodeOK : Expr → Bool
  | .int v => decide (minInt64 ≤ v) && decide (v ≤ maxInt64)
  | .num n => n.scale = 0 || n.mant % 10 != 0
  | .uns _ | .numInf | .numNegInf | .numNaN => false
  | .set vals => setCanon vals
  | .call name args => lower name = name && argsNoSet args
  | .paren e => noSetFirst e
  | .binary op l r =>
    isOperator op && noSetFirst l && (if isInOp op then r.isSet else noSetFirst r)
  | _ => true

def YaccOut (e : Expr) : Bool :=
  allNodes shapeOK e && allNodes nodeOK e && noSetFirst e

end OG.C12
