/-
C12 — the shipped options message as data (core Lean only).

`encodeProcessorOptions` → `proto.Marshal` → `proto.Unmarshal` → `decodeProcessorOptions`, interpreted
over the **regenerated** per-field rows (`codec_options`, `codec_measurement`, `codec_interval`,
`codec_varRef` of OG/Generated/C12.lean): every row says which message field the encoder writes and
how, which one the decoder reads and how. The functions below give each of those "hows" its Go
meaning (integer conversions wrap, proto3 strings must be valid UTF-8, `String()` under a nil guard,
`ParseExpr` / `LoadLocation` / `ParseSortFields` under a non-empty guard, the loop over sources that
skips what is not a measurement, the type switch of FillValue). A `.other` row has no meaning
(`none`): the driver answers `unmodelled` and the round-trip theorem does not check.

The protobuf runtime itself (bytes on the wire) is not modelled: a message is the generated Go
struct; that the runtime restores that struct is backed by the descriptor facts of `WireProps.lean`
(field numbers distinct, struct tags agree with the raw descriptor).
-/
import OG.C12.Model

namespace OG.C12.Wire
open OG.C12 OG.Gen.C12

abbrev Bytes := List UInt8

/-! ### UTF-8 (`utf8.Valid`, which proto3 string fields must satisfy) -/

def isCont (b : UInt8) : Bool := 0x80 ≤ b && b ≤ 0xBF

def utf8ValidF : Nat → Bytes → Bool
  | 0, _ => false
  | _ + 1, [] => true
  | f + 1, b0 :: rest =>
    if b0 < 0x80 then utf8ValidF f rest
    else if 0xC2 ≤ b0 && b0 ≤ 0xDF then
      match rest with
      | b1 :: r => isCont b1 && utf8ValidF f r
      | _ => false
    else if 0xE0 ≤ b0 && b0 ≤ 0xEF then
      match rest with
      | b1 :: b2 :: r =>
        (if b0 = 0xE0 then 0xA0 ≤ b1 && b1 ≤ 0xBF
         else if b0 = 0xED then 0x80 ≤ b1 && b1 ≤ 0x9F
         else isCont b1) && isCont b2 && utf8ValidF f r
      | _ => false
    else if 0xF0 ≤ b0 && b0 ≤ 0xF4 then
      match rest with
      | b1 :: b2 :: b3 :: r =>
        (if b0 = 0xF0 then 0x90 ≤ b1 && b1 ≤ 0xBF
         else if b0 = 0xF4 then 0x80 ≤ b1 && b1 ≤ 0x8F
         else isCont b1) && isCont b2 && isCont b3 && utf8ValidF f r
      | _ => false
    else false

def utf8Valid (s : Bytes) : Bool := utf8ValidF (s.length + 1) s

/-! ### Go integer types -/

def _root_.OG.C12.IntT.lo : IntT → Int
  | .int | .int64 | .dur => -9223372036854775808
  | .int32 => -2147483648
  | .uint64 | .uint32 | .uint8 => 0

/-- exclusive upper bound -/
def _root_.OG.C12.IntT.hi : IntT → Int
  | .int | .int64 | .dur => 9223372036854775808
  | .int32 => 2147483648
  | .uint64 => 18446744073709551616
  | .uint32 => 4294967296
  | .uint8 => 256

def inT (t : IntT) (v : Int) : Bool := t.lo ≤ v && v < t.hi

/-- a Go conversion between integer types keeps the low bits (two's complement). -/
def _root_.OG.C12.IntT.size : IntT → Int
  | .int | .int64 | .dur | .uint64 => 18446744073709551616
  | .int32 | .uint32 => 4294967296
  | .uint8 => 256

def wrapT (t : IntT) (v : Int) : Int := (v - t.lo) % t.size + t.lo

def _root_.OG.C12.PT.intT? : PT → Option IntT
  | .int64 => some .int64
  | .int32 => some .int32
  | .uint64 => some .uint64
  | .uint32 => some .uint32
  | _ => none

/-- values of a field's Go type the model ranges over: the whole type, or the declared
constants of a named type with an iota block. -/
def _root_.OG.C12.GoT.range? : GoT → Option (Int × Int)
  | .int t => some (t.lo, t.hi)
  | .named _ t n => if n = 0 then some (t.lo, t.hi) else some (0, n)
  | _ => none

def _root_.OG.C12.GoT.intT? : GoT → Option IntT
  | .int t => some t
  | .named _ t _ => some t
  | _ => none

/-! ### scalar values (fields of the flat messages and the scalar fields of the options) -/

inductive SVal where
  | int (v : Int)
  | bool (b : Bool)
  | str (s : Bytes)
  | bytes (s : Bytes)              -- nil and empty are one value (consumers use `len`)
  | regex (r : Option Bytes)       -- *RegexLiteral: the pattern
  | blob (p : Option Nat)          -- pointer to a struct with a codec of its own: identity of the payload
  | unmodelled
deriving DecidableEq, Repr

/-- a scalar field of a generated message struct -/
inductive WS where
  | int (v : Int)
  | bool (b : Bool)
  | str (s : Bytes)
  | bytes (s : Bytes)
  | dbl (bits : UInt64)
  | blob (p : Option Nat)
deriving DecidableEq, Repr

def szero : GoT → SVal
  | .int _ | .named _ _ _ => .int 0
  | .bool => .bool false
  | .str => .str []
  | .bytes => .bytes []
  | .regexLit => .regex none
  | .ptr _ => .blob none
  | _ => .unmodelled

def wsZero : PT → WS
  | .int64 | .int32 | .uint64 | .uint32 => .int 0
  | .bool => .bool false
  | .double => .dbl 0
  | .string => .str []
  | .bytes => .bytes []
  | _ => .blob none

/-- `time.Duration` methods that return an integer count -/
def durMethod (m : String) (v : Int) : Option Int :=
  if m = "Nanoseconds" then some v
  else if m = "Microseconds" then some (Int.tdiv v 1000)
  else if m = "Milliseconds" then some (Int.tdiv v 1000000)
  else none

/-- the encoder's expression on a scalar field -/
def encS (k : EncK) (v : SVal) : Option WS :=
  match k, v with
  | .id, .int x => some (.int x)
  | .id, .bool b => some (.bool b)
  | .id, .str s => some (.str s)
  | .id, .bytes s => some (.bytes s)
  | .cast t, .int x => some (.int (wrapT t x))
  | .method m, .int x => (durMethod m x).map .int
  | .text .nonNil _, .regex none => some (.str [])
  | .text .nonNil _, .regex (some p) => some (.str p)
  | .helper _ .nonNil, .blob p => some (.blob p)
  | _, _ => none

/-- `proto.Marshal` then `proto.Unmarshal` on one field: a proto3 `string` must be valid UTF-8
(Marshal fails otherwise); everything else comes back as it went in. -/
def protoS (pt : PT) (w : WS) : Option WS :=
  match pt, w with
  | .string, .str s => if utf8Valid s then some (.str s) else none
  | .string, _ => none
  | _, w => some w

/-- the decoder's expression on a scalar message field -/
def decS (k : DecK) (w : WS) : Option SVal :=
  match k, w with
  | .id, .int x => some (.int x)
  | .id, .bool b => some (.bool b)
  | .id, .str s => some (.str s)
  | .id, .bytes s => some (.bytes s)
  | .cast t _, .int x => some (.int (wrapT t x))
  | .parse .nonEmpty _, .str [] => some (.regex none)
  | .parse .nonEmpty _, .str (c :: p) => some (.regex (some (c :: p)))   -- (regexp.Compile of a pattern that compiled before)
  | .helper _ .nonNil, .blob p => some (.blob p)
  | _, _ => none

/-! ### the generated message struct: which Go field has which descriptor type -/

def ptOfGo (tags : List TagField) (desc : List WireField) (goName : String) : Option PT :=
  match tags.find? (fun t => t.goName == goName) with
  | none => none
  | some t =>
    match desc.find? (fun d => d.num == t.num) with
    | none => none
    | some d => some d.ty

/-! ### flat objects: Interval, VarRef, Measurement -/

abbrev FObj := String → SVal

structure Codec where
  rows : List Row
  tags : List TagField
  desc : List WireField

/-- what the decoder finds in message field `name` (a Go field name of the message struct):
the value the one row that writes it put there, after the protobuf round trip; the zero value if
no row writes it. `none`: the encoder's expression is not modelled, or Marshal fails. -/
def wireOf (c : Codec) (o : FObj) (name : String) : Option WS :=
  match ptOfGo c.tags c.desc name with
  | none => none
  | some pt =>
    match c.rows.find? (fun r => r.encWire == name) with
    | none => some (wsZero pt)
    | some r =>
      match encS r.enc (o r.field) with
      | none => none
      | some w => protoS pt w

def shipFlatField (c : Codec) (o : FObj) (r : Row) : Option SVal :=
  if r.decWire == "" then
    (if r.dec = .none then some (szero r.goT) else none)
  else
    match wireOf c o r.decWire with
    | none => none
    | some w => decS r.dec w

def shipFlatList (c : Codec) (o : FObj) : List Row → Option (List (String × SVal))
  | [] => some []
  | r :: rs =>
    match shipFlatField c o r, shipFlatList c o rs with
    | some v, some l => some ((r.field, v) :: l)
    | _, _ => none

/-- every message field some row writes can be marshalled -/
def marshalFlatOK (c : Codec) (o : FObj) : Bool :=
  c.rows.all fun r => r.encWire == "" || (wireOf c o r.encWire).isSome

def shipFlat (c : Codec) (o : FObj) : Option (List (String × SVal)) :=
  if marshalFlatOK c o then shipFlatList c o c.rows else none

def lookupS (l : List (String × SVal)) (f : String) : SVal :=
  match l.find? (fun p => p.1 == f) with
  | some p => p.2
  | none => .unmodelled

def intervalCodec : Codec := ⟨codec_interval, tags_Interval, desc_Interval⟩
def varRefCodec : Codec := ⟨codec_varRef, tags_VarRef, desc_VarRef⟩
def measurementCodec : Codec := ⟨codec_measurement, tags_Measurement, desc_Measurement⟩
def optionsTags := tags_ProcessorOptions
def optionsDesc := desc_ProcessorOptions

/-! ### composite values of the options struct -/

/-- `*time.Location` as far as `String()` and `LoadLocation` see it -/
inductive Loc where
  | utc
  | localZone
  | named (n : Str)                 -- loaded from the time zone database under this name
  | fixed (n : Str) (off : Int)     -- time.FixedZone
deriving DecidableEq, Repr

def Loc.name : Loc → Str
  | .utc => "UTC".toList
  | .localZone => "Local".toList
  | .named n => n
  | .fixed n _ => n

/-- zone names the model's time zone database holds (the harness draws from this list; the
store is assumed to carry the same database as the coordinator). -/
def tzNames : List Str :=
  ["Asia/Shanghai".toList, "America/New_York".toList, "Europe/Berlin".toList, "Australia/Lord_Howe".toList,
   "Etc/GMT+5".toList, "Africa/Abidjan".toList]

/-- `time.LoadLocation` -/
def loadLocation (n : Str) : Option Loc :=
  if n = [] || n = "UTC".toList then some .utc
  else if n = "Local".toList then some .localZone
  else if tzNames.contains n then some (.named n)
  else none

/-- dynamic value of `FillValue interface{}` -/
inductive FillV where
  | nil
  | f64 (bits : UInt64)
  | i64 (v : Int)
  | otherDyn             -- any other dynamic type
deriving DecidableEq, Repr

/-- `float64(v)` of an int64, as bits (native float of the driver; no theorem looks inside). -/
def bitsOfInt (v : Int) : UInt64 := (Float.ofInt v).toBits

structure VRef where
  val : Bytes
  ty : Int
  alias : Bytes
deriving DecidableEq, Repr

/-- `*influxql.Measurement` -/
structure Mst where
  db : Bytes
  rp : Bytes
  name : Bytes
  regex : Option Bytes
  isTarget : Bool
  sysIter : Bytes
  isSystemStatement : Bool
  alias : Bytes
  isTimeSorted : Bool
  indexRelation : Option Nat
  obs : Option Nat
  engineType : Int
  mstType : Bytes
deriving DecidableEq, Repr

inductive Source where
  | mst (m : Mst)
  | otherSrc            -- a sub-query, a join, …: not a *Measurement
deriving DecidableEq, Repr

inductive Val where
  | sc (s : SVal)
  | strs (l : List Bytes)            -- nil and empty are one value
  | keys (l : List Bytes)            -- key set of a Go map (sorted, distinct); nil and empty are one value
  | expr (e : Option Expr)
  | loc (l : Option Loc)
  | fill (f : FillV)
  | sorts (l : List (Str × Bool))    -- (name, ascending)
  | refs (l : List VRef)
  | interval (d o : Int)
  | sources (l : Option (List Source))
  | opaque                           -- never looked into: channels, context, authorizer, planner objects
deriving DecidableEq, Repr

def vzero : GoT → Val
  | .strs => .strs []
  | .keyset => .keys []
  | .expr => .expr none
  | .loc => .loc none
  | .iface => .fill .nil
  | .sortFields => .sorts []
  | .varRefs => .refs []
  | .interval => .interval 0 0
  | .sources => .sources none
  | .other _ => .opaque
  | .ptr _ => .opaque
  | g => .sc (szero g)

/-! ### ORDER BY fields: `SortFields.String()` and `ParseSortFields` -/

def renderSort (f : Str × Bool) : Str :=
  (if f.1 = [] then [] else quoteIdent f.1 ++ [' ']) ++ (if f.2 then "ASC".toList else "DESC".toList)

def renderSorts : List (Str × Bool) → Str
  | [] => []
  | [f] => renderSort f
  | f :: rest => renderSort f ++ ',' :: ' ' :: renderSorts rest

variable {σ : Type}

/-- `parseSortField`: an identifier, then an optional ASC / DESC. -/
def peSortField (S : Src σ) (f : Nat) (s : σ) : Option ((Str × Bool) × σ) :=
  match scanNW S f s with
  | some (.ident name, _, s1) =>
    match scanNW S f s1 with
    | some (.kw .ASC, _, s2) => some ((name, true), s2)
    | some (.kw .DESC, _, s2) => some ((name, false), s2)
    | some (_, _, _) => some ((name, true), s1)
    | none => none
  | _ => none

/-- the "additional fields" loop of `parseSortFields`. -/
def peSortMore (S : Src σ) : Nat → List (Str × Bool) → σ → Option (List (Str × Bool))
  | 0, _, _ => none
  | f + 1, acc, s =>
    match scanNW S f s with
    | some (.sym .comma, _, s1) =>
      match peSortField S f s1 with
      | some (fd, s2) => peSortMore S f (acc ++ [fd]) s2
      | none => none
    | some (_, _, _) => some acc
    | none => none

/-- `parseSortFields` (whatever follows the list is ignored, as in `ParseSortFields`). -/
def peSortFields (S : Src σ) (f : Nat) (s : σ) : Option (List (Str × Bool)) :=
  match scanNW S f s with
  | some (.kw .ASC, _, s1) => peSortMore S f [([], true)] s1
  | some (.kw .DESC, _, s1) => peSortMore S f [([], false)] s1
  | some (.ident _, _, _) =>
    match peSortField S f s with
    | some (fd, s1) => peSortMore S f [fd] s1
    | none => none
  | _ => none

def parseSortFieldsChars (text : Str) : Option (List (Str × Bool)) :=
  let cs := normInput text
  peSortFields charSrc (4 * cs.length + 8) ⟨{}, cs⟩

def parseSortFieldsToks (toks : List Tok) : Option (List (Str × Bool)) :=
  peSortFields tokSrc (4 * toks.length + 8) toks

/-- the token stream of `SortFields.String()`: `QuoteIdent` of a name scans back as one identifier
(`ident_roundtrip` for the quoted form) -/
def printSort (f : Str × Bool) : List Tok :=
  (if f.1 = [] then [] else [.ident f.1]) ++ [.kw (if f.2 then .ASC else .DESC)]

def printSorts : List (Str × Bool) → List Tok
  | [] => []
  | [f] => printSort f
  | f :: rest => printSort f ++ .sym .comma :: printSorts rest

/-! ### one field of the options struct through encoder, protobuf and decoder -/

/-- a field of the generated options message as the decoder sees it -/
inductive WV where
  | sc (w : WS)
  | strs (l : List Bytes)
  | keys (l : List Bytes)
  | text (t : Str)                -- a string field that carries printed InfluxQL / a zone name
  | nested (v : Val)              -- a sub-message, shipped by the codec of its own type
deriving Repr

/-- a message field nobody wrote, as the decoder of a field of Go type `g` reads it (the zero value
of the generated struct field: "", nil, 0, false) -/
def wvZero (g : GoT) (pt : PT) : WV :=
  match g with
  | .expr | .loc | .sortFields => .text []
  | .strs => .strs []
  | .keyset => .keys []
  | .varRefs => .nested (.refs [])
  | .interval => .nested (.interval 0 0)
  | .sources => .nested (.sources none)
  | _ => .sc (wsZero pt)

def refObj (r : VRef) : FObj := fun f =>
  if f = "Val" then .str r.val else if f = "Type" then .int r.ty else if f = "Alias" then .str r.alias else .unmodelled

def refOfList (l : List (String × SVal)) : Option VRef :=
  match lookupS l "Val", lookupS l "Type", lookupS l "Alias" with
  | .str v, .int t, .str a => some ⟨v, t, a⟩
  | _, _, _ => none

def shipRef (r : VRef) : Option VRef :=
  match shipFlat varRefCodec (refObj r) with
  | some l => refOfList l
  | none => none

def shipRefs : List VRef → Option (List VRef)
  | [] => some []
  | r :: rs =>
    match shipRef r, shipRefs rs with
    | some r', some l => some (r' :: l)
    | _, _ => none

def intervalObj (d o : Int) : FObj := fun f =>
  if f = "Duration" then .int d else if f = "Offset" then .int o else .unmodelled

def shipInterval (d o : Int) : Option Val :=
  match shipFlat intervalCodec (intervalObj d o) with
  | some l =>
    match lookupS l "Duration", lookupS l "Offset" with
    | .int d', .int o' => some (.interval d' o')
    | _, _ => none
  | none => none

def mstObj (m : Mst) : FObj := fun f =>
  if f = "Database" then .str m.db
  else if f = "RetentionPolicy" then .str m.rp
  else if f = "Name" then .str m.name
  else if f = "Regex" then .regex m.regex
  else if f = "IsTarget" then .bool m.isTarget
  else if f = "SystemIterator" then .str m.sysIter
  else if f = "IsSystemStatement" then .bool m.isSystemStatement
  else if f = "Alias" then .str m.alias
  else if f = "IsTimeSorted" then .bool m.isTimeSorted
  else if f = "IndexRelation" then .blob m.indexRelation
  else if f = "ObsOptions" then .blob m.obs
  else if f = "EngineType" then .int m.engineType
  else if f = "MstType" then .str m.mstType
  else .unmodelled

def mstOfList (l : List (String × SVal)) : Option Mst :=
  match lookupS l "Database", lookupS l "RetentionPolicy", lookupS l "Name", lookupS l "Regex",
        lookupS l "IsTarget", lookupS l "SystemIterator", lookupS l "IsSystemStatement", lookupS l "Alias",
        lookupS l "IsTimeSorted", lookupS l "IndexRelation", lookupS l "ObsOptions", lookupS l "EngineType",
        lookupS l "MstType" with
  | .str db, .str rp, .str name, .regex re, .bool tgt, .str si, .bool iss, .str al, .bool ts, .blob ir, .blob ob,
    .int et, .str mt => some ⟨db, rp, name, re, tgt, si, iss, al, ts, ir, ob, et, mt⟩
  | _, _, _, _, _, _, _, _, _, _, _, _, _ => none

def shipMst (m : Mst) : Option Mst :=
  match shipFlat measurementCodec (mstObj m) with
  | some l => mstOfList l
  | none => none

/-- the encoder's loop over `opt.Sources`: what is not a measurement is skipped -/
def shipSrcList : List Source → Option (List Source)
  | [] => some []
  | .otherSrc :: rest => shipSrcList rest
  | .mst m :: rest =>
    match shipMst m, shipSrcList rest with
    | some m', some l => some (.mst m' :: l)
    | _, _ => none

/-- the float64 the type switch of `encodeProcessorOptions` puts on the wire -/
def fillBits (cases : List (String × Bool)) (f : FillV) : UInt64 :=
  match f with
  | .f64 b =>
    (match cases.find? (fun c => c.1 == "float64") with
     | some _ => b            -- (float64(v) of a float64 is v)
     | none => 0)
  | .i64 v =>
    (match cases.find? (fun c => c.1 == "int64") with
     | some (_, true) => bitsOfInt v
     | _ => 0)
  | _ => 0

def allValid (l : List Bytes) : Bool := l.all utf8Valid

/-- encoder expression + protobuf round trip, for the options message -/
def encV (enc : EncK) (pt : PT) (v : Val) : Option WV :=
  match v, enc with
  | .sc s, k =>
    (match encS k s with
     | some w => (protoS pt w).map .sc
     | none => none)
  | .strs l, .id => if allValid l then some (.strs l) else none
  | .keys l, .helper "StructToBool" .none => if allValid l then some (.keys l) else none
  | .expr none, .text .nonNil ".String" => some (.text [])
  | .expr (some e), .text .nonNil ".String" => some (.text (render e))
  | .loc none, .text .nonNil ".String" => some (.text [])
  | .loc (some l), .text .nonNil ".String" => some (.text l.name)
  | .fill f, .ifaceSwitch cases => some (.sc (.dbl (fillBits cases f)))
  | .sorts l, .text .lenPos ".String" => some (.text (renderSorts l))
  | .refs l, .helper "encodeVarRefs" .none => (shipRefs l).map fun l' => .nested (.refs l')
  | .interval d o, .helper "encodeInterval" .none => (shipInterval d o).map .nested
  | .sources none, .srcLoop "influxql.Measurement" "encodeMeasurement" => some (.nested (.sources none))
  | .sources (some l), .srcLoop "influxql.Measurement" "encodeMeasurement" =>
    (shipSrcList l).map fun l' => .nested (.sources (if l'.isEmpty then none else some l'))
  | _, _ => none

/-- decoder expression, for the options struct -/
def decV (g : GoT) (dec : DecK) (w : WV) : Option Val :=
  match dec, w with
  | k, .sc (.dbl b) => if g = .iface && k = .id then some (.fill (.f64 b)) else none
  | k, .sc ws => (decS k ws).map .sc
  | .id, .strs l => some (.strs l)
  | .helper "BoolToStruct" .none, .keys l => some (.keys l)
  | .parse .nonEmpty "influxql.ParseExpr", .text [] => some (.expr none)
  | .parse .nonEmpty "influxql.ParseExpr", .text (c :: t) => (parseExprChars (c :: t)).map fun e => .expr (some e)
  | .parse .nonEmpty "time.LoadLocation", .text [] => some (.loc none)
  | .parse .nonEmpty "time.LoadLocation", .text (c :: t) => (loadLocation (c :: t)).map fun l => .loc (some l)
  | .parse .nonEmpty "influxql.ParseSortFields", .text [] => some (.sorts [])
  | .parse .nonEmpty "influxql.ParseSortFields", .text (c :: t) => (parseSortFieldsChars (c :: t)).map .sorts
  | .helper "decodeVarRefs" .none, .nested (.refs l) => some (.refs l)
  | .helper "decodeInterval" .none, .nested (.interval d o) => some (.interval d o)
  | .srcLoop "decodeMeasurement", .nested (.sources l) => some (.sources l)
  | _, _ => none

abbrev Obj := String → Val

def isRepeated (tags : List TagField) (goName : String) : Bool :=
  match tags.find? (fun t => t.goName == goName) with
  | some t => t.repeated
  | none => false

/-- what `decodeProcessorOptions` finds in message field `name`. -/
def wireOfV (rows : List Row) (o : Obj) (g : GoT) (name : String) : Option WV :=
  match ptOfGo optionsTags optionsDesc name with
  | none => none
  | some pt =>
    match rows.find? (fun r => r.encWire == name) with
    | none => some (wvZero g pt)
    | some r => encV r.enc pt (o r.field)

def shipOptField (rows : List Row) (o : Obj) (r : Row) : Option Val :=
  if r.decWire == "" then
    (if r.dec = .none then some (vzero r.goT) else none)
  else
    match wireOfV rows o r.goT r.decWire with
    | none => none
    | some w => decV r.goT r.dec w

def shipOptList (all : List Row) (o : Obj) : List Row → Option (List (String × Val))
  | [] => some []
  | r :: rs =>
    match shipOptField all o r, shipOptList all o rs with
    | some v, some l => some ((r.field, v) :: l)
    | _, _ => none

inductive Shipped where
  | unmodelled           -- some row is `.other` / a value is of a shape the model does not cover
  | marshalError         -- proto.Marshal refuses the message (a string field is not valid UTF-8)
  | decodeError          -- decodeProcessorOptions returns an error
  | ok (o : List (String × Val))

/-- is every encoder / decoder expression of the table one the model gives a meaning? -/
def rowModelled (r : Row) : Bool :=
  (match r.enc with | .other _ => false | _ => true) && (match r.dec with | .other _ => false | _ => true)

def marshalOK (rows : List Row) (o : Obj) : Bool :=
  rows.all fun r => r.encWire == "" || (wireOfV rows o r.goT r.encWire).isSome

/-- `ProcessorOptions.MarshalBinary` then `UnmarshalBinary`. -/
def shipOpts (rows : List Row) (o : Obj) : Option (List (String × Val)) :=
  if marshalOK rows o then shipOptList rows o rows else none

def lookupV (l : List (String × Val)) (f : String) : Option Val :=
  match l.find? (fun p => p.1 == f) with
  | some p => some p.2
  | none => none

end OG.C12.Wire
