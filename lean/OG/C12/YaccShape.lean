/-
C12 — every tree of the statement grammar model has the shape `YaccOut` (`shapeOK` and
`nodeOK` at every node): precedence climbing over the regenerated %left table builds operator
chains whose only departures from `Precedence()`-canonical form are the three grouping defect
classes. Core Lean only.
-/
import OG.C12.GoodLemmas
import OG.C12.SetLemmas

namespace OG.C12
open OG.Gen.C12

def okNode (x : Expr) : Bool := shapeOK x && nodeOK x

/-- an operand of the COLUMN grammar that is not an operator chain: an atom, or `-x`. -/
def Prim (e : Expr) : Bool := !e.isBinary || isNegUnit e

/-- the top operator of a COLUMN chain is a COLUMN operator of level ≥ m. -/
def colTopGe (m : Nat) (e : Expr) : Bool :=
  match e with
  | .binary op _ _ => isNegUnit e || (yaccColumnOps.contains op && decide (yaccLevel op ≥ m))
  | _ => true

/-- the next token is not a COLUMN operator of level ≥ m. -/
def nextBelow (m : Nat) : List Tok → Bool
  | t :: _ =>
    match colOpOfTok t with
    | some op => decide (yaccLevel op < m)
    | none => true
  | [] => true

/-- the operator at the head of the input may be put on top of `lhs`. -/
def Fits (lhs : Expr) (toks : List Tok) : Prop :=
  ∀ t rest op, toks = t :: rest → colOpOfTok t = some op → leftOK (pePrec op) lhs = true

/-! ### table facts (re-proved against the regenerated tables) -/

theorem colOps_facts : ∀ op ∈ yaccColumnOps,
    pePrec op = yaccLevel op + 2 ∧ 2 ≤ yaccLevel op ∧ yaccLevel op < yaccUminusLevel ∧
    isOperator op = true ∧ isInOp op = false ∧ isRegexOp op = false ∧ op ≠ .like ∧
    nextMinLevel op = yaccLevel op + 1 ∧ pePrec op ≤ pePrec .mul ∧ isLogical op = false := by decide

theorem uminus_right : yaccUminusAssoc = .right := by decide

theorem colOpOfTok_mem (t : Tok) (op : Op) (h : colOpOfTok t = some op) : op ∈ yaccColumnOps := by
  unfold colOpOfTok at h
  split at h
  · rename_i o _
    split at h
    · rename_i hc
      cases h
      simpa using hc
    · cases h
  · cases h

theorem isNegUnit_binary (e : Expr) (h : isNegUnit e = true) : e.isBinary = true := by
  cases e <;> simp_all [isNegUnit, Expr.isBinary]

theorem isNegUnit_top (e : Expr) (h : isNegUnit e = true) : ∃ l r, e = .binary .mul l r := by
  cases e with
  | binary op l r =>
    cases op <;> simp_all [isNegUnit]
  | _ => simp [isNegUnit] at h

/-- a primary can carry any COLUMN operator on top. -/
theorem leftOK_prim (e : Expr) (op : Op) (hop : op ∈ yaccColumnOps) (h : Prim e = true) :
    leftOK (pePrec op) e = true := by
  simp only [Prim, Bool.or_eq_true, Bool.not_eq_true'] at h
  rcases h with h | h
  · exact leftOK_of_not_binary _ e h
  · obtain ⟨l, r, rfl⟩ := isNegUnit_top e h
    have := (colOps_facts op hop).2.2.2.2.2.2.2.2.1
    simpa [leftOK] using this

theorem fits_prim (e : Expr) (toks : List Tok) (h : Prim e = true) : Fits e toks := by
  intro t rest op _ hop
  exact leftOK_prim e op (colOpOfTok_mem t op hop) h

theorem noSetFirst_binary' (op : Op) (l r : Expr) (h : noSetFirst l = true) :
    noSetFirst (.binary op l r) = true := by
  rw [noSetFirst_binary]; exact h

theorem wrap64_range (x : Int) : minInt64 ≤ wrap64 x ∧ wrap64 x ≤ maxInt64 := by
  unfold wrap64 two63 two64 minInt64 maxInt64
  simp only
  split <;> omega

theorem lowerChar_idem_ascii : ∀ n : Fin 128,
    lowerChar (lowerChar (Char.ofNat n.val)) = lowerChar (Char.ofNat n.val) := by decide

theorem lowerChar_idem (c : Char) : lowerChar (lowerChar c) = lowerChar c := by
  by_cases h : c.toNat < 128
  · have := lowerChar_idem_ascii ⟨c.toNat, h⟩
    simpa [Char.ofNat_toNat] using this
  · have hc : ¬ (('A' ≤ c && c ≤ 'Z') = true) := by
      intro hh
      simp only [Bool.and_eq_true, decide_eq_true_eq] at hh
      have : c.toNat ≤ 90 := hh.2
      omega
    simp [lowerChar, hc]

theorem lower_idem (s : Str) : lower (lower s) = lower s := by
  simp [lower, lowerChar_idem]


/-! ### the COLUMN grammar -/

def YOK (e : Expr) : Prop := allNodes okNode e = true

/-- what the invariant says about the results of the four COLUMN functions with fuel `f`. -/
def ColInv (f : Nat) : Prop :=
  (∀ toks e r, yPrimary f toks = some (e, r) → YOK e ∧ Prim e = true ∧ noSetFirst e = true) ∧
  (∀ m toks e r, yCol f m toks = some (e, r) →
    YOK e ∧ (Prim e = true ∨ colTopGe m e = true) ∧ nextBelow m r = true ∧ noSetFirst e = true) ∧
  (∀ m lhs toks e r, yColLoop f m lhs toks = some (e, r) → YOK lhs → noSetFirst lhs = true →
    (Prim lhs = true ∨ colTopGe m lhs = true) → Fits lhs toks →
    YOK e ∧ (Prim e = true ∨ colTopGe m e = true) ∧ nextBelow m r = true ∧ noSetFirst e = true) ∧
  (∀ toks cl r, yClauses f toks = some (cl, r) → ∀ x ∈ cl, YOK x.1 ∧ noSetFirst x.1 = true)

theorem yok_atom (e : Expr) (hb : e.isBinary = false) (hn : nodeOK e = true)
    (h : allNodes okNode e = okNode e) : YOK e := by
  unfold YOK
  rw [h]
  simp only [okNode, Bool.and_eq_true]
  refine ⟨?_, hn⟩
  cases e <;> simp_all [shapeOK, Expr.isBinary]

theorem argsOf_ok : (cl : List (Expr × Option Str)) → (∀ x ∈ cl, YOK x.1 ∧ noSetFirst x.1 = true) →
    allNodesArgs okNode (Args.ofList (cl.map (·.1))) = true ∧ argsNoSet (Args.ofList (cl.map (·.1))) = true
  | [], _ => by simp [Args.ofList, allNodesArgs, argsNoSet]
  | x :: xs, h => by
    have hx := h x (by simp)
    have ih := argsOf_ok xs (fun y hy => h y (by simp [hy]))
    simp only [List.map_cons, Args.ofList, allNodesArgs, argsNoSet, Bool.and_eq_true]
    exact ⟨⟨hx.1, ih.1⟩, hx.2, ih.2⟩

/-- the new node `lhs op rhs` of the climbing loop. -/
theorem yok_binary_col (op : Op) (lhs rhs : Expr) (hop : op ∈ yaccColumnOps)
    (hl : YOK lhs) (hr : YOK rhs) (hnl : noSetFirst lhs = true) (hnr : noSetFirst rhs = true)
    (hfit : leftOK (pePrec op) lhs = true)
    (hrhs : Prim rhs = true ∨ colTopGe (yaccLevel op + 1) rhs = true) : YOK (.binary op lhs rhs) := by
  have hf := colOps_facts op hop
  unfold YOK at *
  simp only [allNodes, hl, hr, Bool.and_true, okNode, Bool.and_eq_true]
  constructor
  · -- shape
    simp only [shapeOK, hfit, Bool.true_or, Bool.true_and, Bool.or_eq_true]
    rcases hrhs with h | h
    · simp only [Prim, Bool.or_eq_true, Bool.not_eq_true'] at h
      rcases h with h | h
      · exact Or.inl (Or.inl (rightOK_of_not_binary _ rhs h))
      · exact Or.inl (Or.inr h)
    · cases rhs with
      | binary o rl rr =>
        simp only [colTopGe, Bool.or_eq_true, Bool.and_eq_true, decide_eq_true_eq] at h
        rcases h with h | ⟨ho, hlv⟩
        · exact Or.inl (Or.inr h)
        · have hfo := colOps_facts o (by simpa using ho)
          left; left
          simp only [rightOK, decide_eq_true_eq]
          omega
      | _ => exact Or.inl (Or.inl (rightOK_of_not_binary _ _ rfl))
  · simp [nodeOK, hf.2.2.2.1, hf.2.2.2.2.1, hnl, hnr]

theorem colTopGe_binary (m : Nat) (op : Op) (l r : Expr) (hop : op ∈ yaccColumnOps) (h : yaccLevel op ≥ m) :
    colTopGe m (.binary op l r) = true := by
  simp [colTopGe, hop, h]


theorem fits_binary (op : Op) (lhs rhs : Expr) (hop : op ∈ yaccColumnOps) (r1 : List Tok)
    (hnb : nextBelow (yaccLevel op + 1) r1 = true) : Fits (.binary op lhs rhs) r1 := by
  intro t rest op2 hr hop2
  subst hr
  have hf := colOps_facts op hop
  have hf2 := colOps_facts op2 (colOpOfTok_mem t op2 hop2)
  simp only [nextBelow, hop2, decide_eq_true_eq] at hnb
  simp only [leftOK, decide_eq_true_eq]
  omega

theorem loop_step (f : Nat) (ih : ColInv f) :
    ∀ m lhs toks e r, yColLoop (f + 1) m lhs toks = some (e, r) → YOK lhs → noSetFirst lhs = true →
      (Prim lhs = true ∨ colTopGe m lhs = true) → Fits lhs toks →
      YOK e ∧ (Prim e = true ∨ colTopGe m e = true) ∧ nextBelow m r = true ∧ noSetFirst e = true := by
  obtain ⟨_, ihb, ihc, _⟩ := ih
  intro m lhs toks e r h hl hns htop hfit
  unfold yColLoop at h
  cases toks with
  | nil =>
    simp only [Option.some.injEq, Prod.mk.injEq] at h
    obtain ⟨rfl, rfl⟩ := h
    exact ⟨hl, htop, by simp [nextBelow], hns⟩
  | cons t rest =>
    simp only at h
    cases hop : colOpOfTok t with
    | none =>
      simp only [hop, Option.some.injEq, Prod.mk.injEq] at h
      obtain ⟨rfl, rfl⟩ := h
      exact ⟨hl, htop, by simp [nextBelow, hop], hns⟩
    | some op =>
      have hmem := colOpOfTok_mem t op hop
      have hf := colOps_facts op hmem
      simp only [hop] at h
      have h0 : ¬ (yaccLevel op = 0) := by omega
      simp only [h0, if_false] at h
      by_cases hge : yaccLevel op ≥ m
      · simp only [hge, if_true] at h
        cases hrc : yCol f (nextMinLevel op) rest with
        | none => simp [hrc] at h
        | some p =>
          obtain ⟨rhs, r1⟩ := p
          simp only [hrc] at h
          rw [hf.2.2.2.2.2.2.2.1] at hrc
          obtain ⟨hr, hrtop, hnb, hnsr⟩ := ihb _ _ _ _ hrc
          have hnew : YOK (.binary op lhs rhs) :=
            yok_binary_col op lhs rhs hmem hl hr hns hnsr (hfit t rest op rfl hop) hrtop
          exact ihc m (.binary op lhs rhs) r1 e r h hnew (noSetFirst_binary' op lhs rhs hns)
            (Or.inr (colTopGe_binary m op lhs rhs hmem hge)) (fits_binary op lhs rhs hmem r1 hnb)
      · simp only [hge, if_false, Option.some.injEq, Prod.mk.injEq] at h
        obtain ⟨rfl, rfl⟩ := h
        refine ⟨hl, htop, ?_, hns⟩
        simp only [nextBelow, hop, decide_eq_true_eq]
        omega

theorem col_step (f : Nat) (ih : ColInv f) :
    ∀ m toks e r, yCol (f + 1) m toks = some (e, r) →
      YOK e ∧ (Prim e = true ∨ colTopGe m e = true) ∧ nextBelow m r = true ∧ noSetFirst e = true := by
  obtain ⟨iha, _, ihc, _⟩ := ih
  intro m toks e r h
  unfold yCol at h
  cases hp : yPrimary f toks with
  | none => simp [hp] at h
  | some p =>
    obtain ⟨e0, r0⟩ := p
    simp only [hp] at h
    obtain ⟨h1, h2, h3⟩ := iha _ _ _ hp
    exact ihc m e0 r0 e r h h1 h3 (Or.inl h2) (fits_prim e0 r0 h2)


theorem normAux_canon : ∀ (fuel m s : Nat), s ≤ fuel →
    (Num.normAux fuel m s).2 = 0 ∨ (Num.normAux fuel m s).1 % 10 ≠ 0 := by
  intro fuel
  induction fuel with
  | zero => intro m s h; left; simp [Num.normAux]; omega
  | succ k ih =>
    intro m s h
    unfold Num.normAux
    by_cases hs : s = 0
    · simp [hs]
    · simp only [hs, if_false]
      by_cases hm : m % 10 = 0
      · simp only [hm, if_true]
        exact ih (m / 10) (s - 1) (by omega)
      · simp only [hm, if_false]
        right; exact hm

theorem mk'_canon (neg : Bool) (m sc : Nat) : nodeOK (.num (Num.mk' neg m sc)) = true := by
  have := normAux_canon sc m sc (Nat.le_refl _)
  unfold Num.mk'
  cases h : Num.normAux sc m sc with
  | mk a b =>
    rw [h] at this
    simp only [nodeOK, Bool.or_eq_true, decide_eq_true_eq, bne_iff_ne, ne_eq]
    exact this

theorem nodeOK_parseNum (text : Str) : nodeOK (.num (parseNumText text)) = true := by
  simp only [parseNumText]
  exact mk'_canon _ _ _

theorem nodeOK_yaccInt (text : Str) : nodeOK (.int (yaccInt text)) = true := by
  unfold yaccInt
  simp only
  split <;> simp only [nodeOK, Bool.and_eq_true, decide_eq_true_eq] <;> unfold minInt64 maxInt64 at * <;> omega

theorem yok_call (name : Str) (args : Args) (h1 : lower name = name)
    (h2 : allNodesArgs okNode args = true) (h3 : argsNoSet args = true) : YOK (.call name args) := by
  unfold YOK
  simp [allNodes, okNode, shapeOK, nodeOK, h1, h2, h3]

theorem yok_neg (e : Expr) (he : YOK e) (hp : Prim e = true) (hns : noSetFirst e = true) :
    YOK (.binary .mul (.int (-1)) e) := by
  unfold YOK at *
  have hr : (rightOK (pePrec .mul) e || isNegUnit e) = true := by
    simp only [Prim, Bool.or_eq_true, Bool.not_eq_true'] at hp
    rcases hp with h | h
    · simp [rightOK_of_not_binary _ e h]
    · simp [h]
  have hop : isOperator .mul = true := by decide
  have hin : isInOp .mul = false := by decide
  have h1 : okNode (.int (-1)) = true := by decide
  have hs : shapeOK (.binary .mul (.int (-1)) e) = true := by
    simp only [shapeOK, leftOK, Bool.true_or, Bool.true_and]
    simp only [Bool.or_eq_true] at hr ⊢
    rcases hr with h | h
    · exact Or.inl (Or.inl h)
    · exact Or.inl (Or.inr h)
  have hn : nodeOK (.binary .mul (.int (-1)) e) = true := by
    simp only [nodeOK, hop, hin, Bool.true_and, Bool.false_eq_true, if_false, hns, Bool.and_true]
    rfl
  simp only [allNodes, he, Bool.and_true, okNode, Bool.and_eq_true]
  simp only [okNode, Bool.and_eq_true] at h1
  exact ⟨⟨hs, hn⟩, h1⟩

theorem prim_neg (e : Expr) : Prim (.binary .mul (.int (-1)) e) = true := by
  simp [Prim, isNegUnit]

theorem yaccNeg_ok (e : Expr) (he : YOK e) (hp : Prim e = true) (hns : noSetFirst e = true) :
    YOK (yaccNeg e) ∧ Prim (yaccNeg e) = true ∧ noSetFirst (yaccNeg e) = true := by
  cases e with
  | num n =>
    refine ⟨?_, by simp [yaccNeg, Prim, Expr.isBinary], by simp [yaccNeg, noSetFirst, firstAtom]⟩
    unfold YOK at *
    simp only [allNodes, okNode, shapeOK, Bool.true_and, nodeOK] at he
    simp only [yaccNeg, allNodes, okNode, shapeOK, Bool.true_and, nodeOK, Num.negate]
    exact he
  | int v =>
    refine ⟨?_, by simp [yaccNeg, Prim, Expr.isBinary], by simp [yaccNeg, noSetFirst, firstAtom]⟩
    unfold YOK
    have := wrap64_range (-1 * v)
    simp only [yaccNeg, allNodes, okNode, shapeOK, nodeOK, Bool.true_and, Bool.and_eq_true, decide_eq_true_eq]
    exact this
  | _ =>
    all_goals exact ⟨yok_neg _ he hp hns, prim_neg _, by simp [yaccNeg, noSetFirst, firstAtom]⟩


theorem yok_simple (e : Expr) (h : okNode e = true) (h2 : allNodes okNode e = okNode e) : YOK e := by
  unfold YOK; rw [h2]; exact h

theorem prim_step (f : Nat) (ih : ColInv f) :
    ∀ toks e r, yPrimary (f + 1) toks = some (e, r) → YOK e ∧ Prim e = true ∧ noSetFirst e = true := by
  obtain ⟨_, ihb, _, ihd⟩ := ih
  intro toks e r h
  unfold yPrimary at h
  split at h
  · -- ( COLUMN )
    rename_i rest
    split at h
    · rename_i e' r' hc
      simp only [Option.some.injEq, Prod.mk.injEq] at h
      obtain ⟨rfl, rfl⟩ := h
      obtain ⟨h1, _, _, h4⟩ := ihb _ _ _ _ hc
      refine ⟨?_, by simp [Prim, Expr.isBinary], by simp [noSetFirst, firstAtom]⟩
      unfold YOK at *
      simp [allNodes, okNode, shapeOK, nodeOK, h1, h4]
    · cases h
  · -- - COLUMN
    rename_i rest
    simp only [uminus_right] at h
    split at h
    · rename_i e' r' hc
      simp only [Option.some.injEq, Prod.mk.injEq] at h
      obtain ⟨rfl, rfl⟩ := h
      obtain ⟨h1, h2, _, h4⟩ := ihb _ _ _ _ hc
      have hp : Prim e' = true := by
        rcases h2 with h2 | h2
        · exact h2
        · cases e' with
          | binary o l rr =>
            simp only [colTopGe, Bool.or_eq_true, Bool.and_eq_true, decide_eq_true_eq] at h2
            rcases h2 with h2 | ⟨ho, hl⟩
            · simp [Prim, h2]
            · have := (colOps_facts o (by simpa using ho)).2.2.1
              omega
          | _ => simp [Prim, Expr.isBinary]
      exact yaccNeg_ok e' h1 hp h4
    · cases h
  · -- f()
    rename_i name rest
    simp only [Option.some.injEq, Prod.mk.injEq] at h
    obtain ⟨rfl, rfl⟩ := h
    exact ⟨yok_call _ _ (lower_idem name) (by simp [allNodesArgs]) (by simp [argsNoSet]),
      by simp [Prim, Expr.isBinary], by simp [noSetFirst, firstAtom]⟩
  · -- f(args)
    rename_i name rest _
    split at h
    · rename_i cl r' hc
      have hcl := ihd _ _ _ hc
      split at h
      · split at h
        · rename_i e' alias
          simp only [Option.some.injEq, Prod.mk.injEq] at h
          obtain ⟨rfl, rfl⟩ := h
          have hx := hcl (e', alias) (by simp)
          refine ⟨yok_call _ _ (lower_idem _) ?_ ?_, by simp [Prim, Expr.isBinary], by simp [noSetFirst, firstAtom]⟩
          · have := hx.1
            unfold YOK at this
            simpa [allNodesArgs] using this
          · simpa [argsNoSet] using hx.2
        · cases h
      · simp only [Option.some.injEq, Prod.mk.injEq] at h
        obtain ⟨rfl, rfl⟩ := h
        obtain ⟨ha, hb⟩ := argsOf_ok cl hcl
        exact ⟨yok_call _ _ (lower_idem name) ha hb, by simp [Prim, Expr.isBinary], by simp [noSetFirst, firstAtom]⟩
    · cases h
  · -- x::type
    rename_i name t rest
    split at h
    · split at h
      · simp only [Option.some.injEq, Prod.mk.injEq] at h
        obtain ⟨rfl, rfl⟩ := h
        exact ⟨yok_simple _ (by simp [okNode, shapeOK, nodeOK]) (by simp [allNodes]), by simp [Prim, Expr.isBinary],
          by simp [noSetFirst, firstAtom]⟩
      · cases h
    · simp only [Option.some.injEq, Prod.mk.injEq] at h
      obtain ⟨rfl, rfl⟩ := h
      exact ⟨yok_simple _ (by simp [okNode, shapeOK, nodeOK]) (by simp [allNodes]), by simp [Prim, Expr.isBinary],
        by simp [noSetFirst, firstAtom]⟩
    · simp only [Option.some.injEq, Prod.mk.injEq] at h
      obtain ⟨rfl, rfl⟩ := h
      exact ⟨yok_simple _ (by simp [okNode, shapeOK, nodeOK]) (by simp [allNodes]), by simp [Prim, Expr.isBinary],
        by simp [noSetFirst, firstAtom]⟩
    · cases h
  all_goals first
    | (simp only [Option.some.injEq, Prod.mk.injEq] at h
       obtain ⟨rfl, rfl⟩ := h
       exact ⟨yok_simple _ (by
           simp only [okNode, shapeOK, Bool.true_and]
           first
             | exact nodeOK_parseNum _
             | exact nodeOK_yaccInt _
             | rfl) (by simp [allNodes]), by simp [Prim, Expr.isBinary], by simp [noSetFirst, firstAtom]⟩)
    | (split at h
       · simp only [Option.some.injEq, Prod.mk.injEq] at h
         obtain ⟨rfl, rfl⟩ := h
         exact ⟨yok_simple _ (by simp [okNode, shapeOK, nodeOK]) (by simp [allNodes]), by simp [Prim, Expr.isBinary],
           by simp [noSetFirst, firstAtom]⟩
       · cases h)
    | cases h


theorem yok_wildcard (w : WcType) : YOK (.wildcard w) ∧ noSetFirst (.wildcard w) = true := by
  refine ⟨yok_simple _ (by simp [okNode, shapeOK, nodeOK]) (by simp [allNodes]), by simp [noSetFirst, firstAtom]⟩

theorem clauseOne_ok (col : Option (Expr × List Tok)) (toks : List Tok)
    (hcol : ∀ e r, col = some (e, r) → YOK e ∧ noSetFirst e = true)
    (c : Expr × Option Str) (r0 : List Tok) (h : yClauseOne col toks = some (c, r0)) :
    YOK c.1 ∧ noSetFirst c.1 = true := by
  unfold yClauseOne at h
  split at h
  · simp only [Option.some.injEq, Prod.mk.injEq] at h; obtain ⟨rfl, _⟩ := h; exact yok_wildcard _
  · simp only [Option.some.injEq, Prod.mk.injEq] at h; obtain ⟨rfl, _⟩ := h; exact yok_wildcard _
  · simp only [Option.some.injEq, Prod.mk.injEq] at h; obtain ⟨rfl, _⟩ := h; exact yok_wildcard _
  · split at h
    · rename_i e a r
      simp only [Option.some.injEq, Prod.mk.injEq] at h; obtain ⟨rfl, _⟩ := h
      exact hcol e _ rfl
    · rename_i e a r
      simp only [Option.some.injEq, Prod.mk.injEq] at h; obtain ⟨rfl, _⟩ := h
      exact hcol e _ rfl
    · rename_i e r _ _
      simp only [Option.some.injEq, Prod.mk.injEq] at h; obtain ⟨rfl, _⟩ := h
      exact hcol e _ rfl
    · cases h

theorem clauses_step (f : Nat) (ih : ColInv f) :
    ∀ toks cl r, yClauses (f + 1) toks = some (cl, r) → ∀ x ∈ cl, YOK x.1 ∧ noSetFirst x.1 = true := by
  obtain ⟨_, ihb, _, ihd⟩ := ih
  intro toks cl r h
  unfold yClauses at h
  have hcol : ∀ e r, yCol f 0 toks = some (e, r) → YOK e ∧ noSetFirst e = true := by
    intro e r he
    obtain ⟨h1, _, _, h4⟩ := ihb _ _ _ _ he
    exact ⟨h1, h4⟩
  split at h
  · rename_i c r1 hone
    have hc := clauseOne_ok _ toks hcol c _ hone
    split at h
    · rename_i cs r' hrec
      simp only [Option.some.injEq, Prod.mk.injEq] at h
      obtain ⟨rfl, rfl⟩ := h
      intro x hx
      rcases List.mem_cons.mp hx with rfl | hx
      · exact hc
      · exact ihd _ _ _ hrec x hx
    · cases h
  · rename_i c r1 _ hone
    have hc := clauseOne_ok _ toks hcol c _ hone
    simp only [Option.some.injEq, Prod.mk.injEq] at h
    obtain ⟨rfl, rfl⟩ := h
    intro x hx
    simp only [List.mem_singleton] at hx
    subst hx
    exact hc
  · cases h

/-- the invariant holds for every amount of fuel. -/
theorem colInv : ∀ f, ColInv f := by
  intro f
  induction f with
  | zero =>
    refine ⟨?_, ?_, ?_, ?_⟩
    · intro toks e r h; simp [yPrimary] at h
    · intro m toks e r h; simp [yCol] at h
    · intro m lhs toks e r h; simp [yColLoop] at h
    · intro toks cl r h; simp [yClauses] at h
  | succ k ih =>
    exact ⟨prim_step k ih, col_step k ih, loop_step k ih, clauses_step k ih⟩


/-! ### the CONDITION grammar -/

def ColTop (e : Expr) : Prop := Prim e = true ∨ colTopGe 0 e = true

/-- the top operator of a condition that is not an AND/OR: a comparison, IN, MATCH… -/
def condTop : Expr → Bool
  | .binary o _ _ => decide (pePrec o ≥ 3)
  | _ => true

def KindOK (k : CKind) (e : Expr) : Prop :=
  (k = .col → ColTop e) ∧ (k = .condParen → e.isBinary = false) ∧ (k = .cond → condTop e = true)

def CondInv (f : Nat) : Prop :=
  (∀ toks e k r, yOperand f toks = some (e, k, r) → YOK e ∧ noSetFirst e = true ∧ KindOK k e) ∧
  (∀ toks e k r, yCondUnit f toks = some (e, k, r) → YOK e ∧ noSetFirst e = true ∧ KindOK k e) ∧
  (∀ toks e k r, yGen f toks = some (e, k, r) → YOK e ∧ noSetFirst e = true ∧ (k = .col → ColTop e)) ∧
  (∀ m lhs toks e r, yCondLoop f m lhs toks = some (e, r) → YOK lhs → noSetFirst lhs = true →
    YOK e ∧ noSetFirst e = true)

theorem cmpOps_facts : ∀ op ∈ yaccCmpOps,
    3 ≤ pePrec op ∧ isOperator op = true ∧ isInOp op = false ∧ (op ≠ .like → pePrec op = 3) := by decide

theorem logical_facts : ∀ op, isLogical op = true →
    yaccLevel op = 1 ∧ nextMinLevel op = 2 ∧ isOperator op = true ∧ isInOp op = false ∧ pePrec op ≤ 2 ∧ op ≠ .like := by
  intro op; cases op <;> decide

theorem logical_left : ∀ op o, isLogical op = true → (pePrec o ≥ pePrec op ∨ isLogical o = true) := by
  intro op o; cases op <;> cases o <;> decide

theorem setops_facts : ∀ op, (op = .inOp ∨ op = .notin ∨ op = .matchOp ∨ op = .matchphrase ∨ op = .ipinrange) →
    3 ≤ pePrec op ∧ isOperator op = true := by
  intro op h; rcases h with rfl | rfl | rfl | rfl | rfl <;> decide

theorem cmpOpOfTok_mem (t : Tok) (op : Op) (h : cmpOpOfTok t = some op) : op ∈ yaccCmpOps := by
  unfold cmpOpOfTok at h
  split at h
  · split at h
    · rename_i hc; cases h; simpa using hc
    · cases h
  · cases h

/-- a COLUMN chain (or a primary) under a comparison operator: both sides fit. -/
theorem colTop_left (e : Expr) (h : ColTop e) : leftOK 3 e = true := by
  cases e with
  | binary o l r =>
    rcases h with h | h
    · simp only [Prim, Expr.isBinary, Bool.not_true, Bool.false_or] at h
      obtain ⟨l', r', he⟩ := isNegUnit_top _ h
      cases he
      simp [leftOK]; decide
    · simp only [colTopGe, Bool.or_eq_true, Bool.and_eq_true, decide_eq_true_eq] at h
      rcases h with h | ⟨ho, _⟩
      · obtain ⟨l', r', he⟩ := isNegUnit_top _ h
        cases he
        simp [leftOK]; decide
      · have := (colOps_facts o (by simpa using ho)).1
        have h1 := (colOps_facts o (by simpa using ho)).2.1
        simp only [leftOK, decide_eq_true_eq]; omega
  | _ => rfl

theorem colTop_right (e : Expr) (h : ColTop e) : rightOK 3 e = true := by
  cases e with
  | binary o l r =>
    rcases h with h | h
    · simp only [Prim, Expr.isBinary, Bool.not_true, Bool.false_or] at h
      obtain ⟨l', r', he⟩ := isNegUnit_top _ h
      cases he
      simp [rightOK]; decide
    · simp only [colTopGe, Bool.or_eq_true, Bool.and_eq_true, decide_eq_true_eq] at h
      rcases h with h | ⟨ho, _⟩
      · obtain ⟨l', r', he⟩ := isNegUnit_top _ h
        cases he
        simp [rightOK]; decide
      · have h0 : pePrec o = yaccLevel o + 2 := (colOps_facts o (by simpa using ho)).1
        have h1 : 2 ≤ yaccLevel o := (colOps_facts o (by simpa using ho)).2.1
        have : pePrec o > 3 := by omega
        simp [rightOK, this]
  | _ => rfl

/-- a comparison node. -/
theorem yok_cmp (op : Op) (e1 e2 : Expr) (hop : op ∈ yaccCmpOps) (h1 : YOK e1) (h2 : YOK e2)
    (n1 : noSetFirst e1 = true) (n2 : noSetFirst e2 = true)
    (t1 : ColTop e1 ∨ e1.isBinary = false) (t2 : ColTop e2 ∨ e2.isBinary = false) :
    YOK (.binary op e1 e2) := by
  have hf := cmpOps_facts op hop
  unfold YOK at *
  simp only [allNodes, h1, h2, Bool.and_true, okNode, Bool.and_eq_true]
  constructor
  · by_cases hl : op = .like
    · subst hl
      simp only [shapeOK, Bool.and_eq_true, Bool.or_eq_true, decide_eq_true_eq]
      refine ⟨?_, Or.inr trivial⟩
      cases e1 <;> simp [leftOK]
    · have hp := hf.2.2.2 hl
      simp only [shapeOK, Bool.and_eq_true, Bool.or_eq_true, hp]
      constructor
      · left
        rcases t1 with t | t
        · exact colTop_left e1 t
        · exact leftOK_of_not_binary _ e1 t
      · left; left
        rcases t2 with t | t
        · exact colTop_right e2 t
        · exact rightOK_of_not_binary _ e2 t
  · simp [nodeOK, hf.2.1, hf.2.2.1, n1, n2]

/-- an AND / OR node: any condition may stand on the left, a condition unit on the right. -/
theorem yok_logical (op : Op) (lhs rhs : Expr) (hop : isLogical op = true) (h1 : YOK lhs) (h2 : YOK rhs)
    (n1 : noSetFirst lhs = true) (n2 : noSetFirst rhs = true) (hr : condTop rhs = true) :
    YOK (.binary op lhs rhs) := by
  have hf := logical_facts op hop
  unfold YOK at *
  simp only [allNodes, h1, h2, Bool.and_true, okNode, Bool.and_eq_true]
  constructor
  · simp only [shapeOK, Bool.and_eq_true, Bool.or_eq_true]
    constructor
    · cases lhs with
      | binary o l r =>
        rcases logical_left op o hop with h | h
        · left; simpa [leftOK] using h
        · right; simp [hop, h]
      | _ => left; rfl
    · left; left
      cases rhs with
      | binary o l r =>
        simp only [condTop, decide_eq_true_eq] at hr
        simp only [rightOK, decide_eq_true_eq]
        omega
      | _ => rfl
  · simp [nodeOK, hf.2.2.1, hf.2.2.2.1, n1, n2]


theorem yok_paren (e : Expr) (h : YOK e) (hn : noSetFirst e = true) : YOK (.paren e) := by
  unfold YOK at *
  simp [allNodes, okNode, shapeOK, nodeOK, h, hn]

theorem valCanon_of_int (v : Int) : valCanon (.num ⟨decide (v < 0), v.natAbs, 0⟩) = true := by
  simp [valCanon]

/-- the key set of an IN list is canonical: its members come from YOK literals. -/
theorem setOfClauses_canon : (cl : List (Expr × Option Str)) → (acc : List SetVal) →
    (∀ x ∈ cl, YOK x.1) → setCanon acc = true → setCanon (setOfClauses cl acc) = true
  | [], acc, _, h => by simpa [setOfClauses] using h
  | (e, a) :: rest, acc, hcl, h => by
    have he : YOK e := hcl (e, a) (by simp)
    have hrest : ∀ x ∈ rest, YOK x.1 := fun x hx => hcl x (by simp [hx])
    unfold setOfClauses
    split
    · exact setOfClauses_canon rest _ hrest (setCanon_insert _ _ (by simp [valCanon]) h)
    · rename_i n
      have hn : valCanon (.num n) = true := by
        unfold YOK at he
        simp only [allNodes, okNode, shapeOK, Bool.true_and, nodeOK] at he
        simpa [valCanon] using he
      exact setOfClauses_canon rest _ hrest (setCanon_insert _ _ hn h)
    · exact setOfClauses_canon rest _ hrest (setCanon_insert _ _ (valCanon_of_int _) h)
    · exact setOfClauses_canon rest _ hrest h

theorem yok_mkSet (name : Str) (op : Op) (cl : List (Expr × Option Str)) (hop : op = .inOp ∨ op = .notin)
    (hcl : ∀ x ∈ cl, YOK x.1) :
    YOK (mkSet name op cl) ∧ noSetFirst (mkSet name op cl) = true ∧ condTop (mkSet name op cl) = true := by
  have hf := setops_facts op (by rcases hop with h | h <;> simp [h])
  have hin : isInOp op = true := by rcases hop with h | h <;> subst h <;> decide
  have hset := setOfClauses_canon cl [] hcl (by simp [setCanon, sortedB])
  refine ⟨?_, by simp [mkSet, noSetFirst, firstAtom], by simp [mkSet, condTop, hf.1]⟩
  unfold YOK
  simp [mkSet, allNodes, okNode, shapeOK, nodeOK, leftOK, rightOK, hf.2, hin, noSetFirst, firstAtom, Expr.isSet, hset]

theorem yok_match (op : Op) (x y : Str) (hop : op = .matchOp ∨ op = .matchphrase ∨ op = .ipinrange) :
    YOK (.binary op (.varRef x .unknown) (.str y)) ∧ condTop (.binary op (.varRef x .unknown) (.str y)) = true := by
  have hf := setops_facts op (by rcases hop with h | h | h <;> simp [h])
  have hin : isInOp op = false := by rcases hop with h | h | h <;> subst h <;> decide
  refine ⟨?_, by simp [condTop, hf.1]⟩
  unfold YOK
  simp [allNodes, okNode, shapeOK, nodeOK, leftOK, rightOK, hf.2, hin, noSetFirst, firstAtom]

theorem matchFamily_shape (k : Kw) (a b : Tok) (e : Expr) (h : matchFamily k a b = some e) :
    ∃ op x y, (op = .matchOp ∨ op = .matchphrase ∨ op = .ipinrange) ∧ e = .binary op (.varRef x .unknown) (.str y) := by
  unfold matchFamily at h
  simp only at h
  split at h
  · rename_i op x y hop _ _
    simp only [Option.some.injEq] at h
    refine ⟨op, x, y, ?_, h.symm⟩
    split at hop <;> simp_all
  · cases h

theorem kind_col (e : Expr) (h : ColTop e) : KindOK .col e :=
  ⟨fun _ => h, (fun hh => by cases hh), (fun hh => by cases hh)⟩
theorem kind_paren (e : Expr) (h : e.isBinary = false) : KindOK .condParen e :=
  ⟨(fun hh => by cases hh), fun _ => h, (fun hh => by cases hh)⟩
theorem kind_cond (e : Expr) (h : condTop e = true) : KindOK .cond e :=
  ⟨(fun hh => by cases hh), (fun hh => by cases hh), fun _ => h⟩

theorem operand_step (f : Nat) (ih : CondInv f) :
    ∀ toks e k r, yOperand (f + 1) toks = some (e, k, r) → YOK e ∧ noSetFirst e = true ∧ KindOK k e := by
  obtain ⟨_, _, ihg, _⟩ := ih
  obtain ⟨_, hcb, hcc, hcd⟩ := colInv f
  intro toks e k r h
  unfold yOperand at h
  split at h
  · -- ( … )
    rename_i rest
    split at h
    · rename_i e0 k0 r0 hg
      obtain ⟨h1, h2, h3⟩ := ihg _ _ _ _ hg
      by_cases hk : k0 = .col
      · simp only [hk, if_true] at h
        split at h
        · rename_i e' r' hl
          simp only [Option.some.injEq, Prod.mk.injEq] at h
          obtain ⟨rfl, rfl, rfl⟩ := h
          obtain ⟨a, b, _, d⟩ := hcc 0 (.paren e0) r0 _ _ hl (yok_paren e0 h1 h2) (by simp [noSetFirst, firstAtom])
            (Or.inl (by simp [Prim, Expr.isBinary])) (fits_prim _ _ (by simp [Prim, Expr.isBinary]))
          exact ⟨a, d, kind_col _ b⟩
        · cases h
      · simp only [hk, if_false, Option.some.injEq, Prod.mk.injEq] at h
        obtain ⟨rfl, rfl, rfl⟩ := h
        exact ⟨yok_paren e0 h1 h2, by simp [noSetFirst, firstAtom], kind_paren _ rfl⟩
    · cases h
  · -- x IN ( … )
    rename_i name rest
    split at h
    · rename_i cl r' hc
      simp only [Option.some.injEq, Prod.mk.injEq] at h
      obtain ⟨rfl, rfl, rfl⟩ := h
      obtain ⟨a, b, c⟩ := yok_mkSet name .inOp cl (Or.inl rfl) (fun x hx => (hcd _ _ _ hc x hx).1)
      exact ⟨a, b, kind_cond _ c⟩
    · cases h
  · -- x NOT IN ( … )
    rename_i name rest
    split at h
    · rename_i cl r' hc
      simp only [Option.some.injEq, Prod.mk.injEq] at h
      obtain ⟨rfl, rfl, rfl⟩ := h
      obtain ⟨a, b, c⟩ := yok_mkSet name .notin cl (Or.inr rfl) (fun x hx => (hcd _ _ _ hc x hx).1)
      exact ⟨a, b, kind_cond _ c⟩
    · cases h
  · -- MATCH ( a , b ) …
    rename_i kk a b rest
    split at h
    · rename_i e0 hm
      simp only [Option.some.injEq, Prod.mk.injEq] at h
      obtain ⟨rfl, rfl, rfl⟩ := h
      obtain ⟨op, x, y, hop, rfl⟩ := matchFamily_shape kk a b _ hm
      obtain ⟨a', c⟩ := yok_match op x y hop
      exact ⟨a', by simp [noSetFirst, firstAtom], kind_cond _ c⟩
    · cases h
  · -- a COLUMN
    split at h
    · rename_i e0 r0 hc
      simp only [Option.some.injEq, Prod.mk.injEq] at h
      obtain ⟨rfl, rfl, rfl⟩ := h
      obtain ⟨a, b, _, d⟩ := hcb _ _ _ _ hc
      exact ⟨a, d, kind_col _ b⟩
    · cases h


theorem condTop_of_kind (k : CKind) (e : Expr) (hk : KindOK k e) (hne : k ≠ .col) : condTop e = true := by
  cases k with
  | col => exact absurd rfl hne
  | cond => exact hk.2.2 rfl
  | condParen =>
    have := hk.2.1 rfl
    cases e <;> simp_all [condTop, Expr.isBinary]

theorem operandSide (k : CKind) (e : Expr) (hk : KindOK k e) (hne : k ≠ .cond) :
    ColTop e ∨ e.isBinary = false := by
  cases k with
  | col => exact Or.inl (hk.1 rfl)
  | cond => exact absurd rfl hne
  | condParen => exact Or.inr (hk.2.1 rfl)

theorem condUnit_step (f : Nat) (ih : CondInv f) :
    ∀ toks e k r, yCondUnit (f + 1) toks = some (e, k, r) → YOK e ∧ noSetFirst e = true ∧ KindOK k e := by
  obtain ⟨iho, _, _, _⟩ := ih
  intro toks e k r h
  unfold yCondUnit at h
  split at h
  · rename_i e1 k1 t rest ho
    obtain ⟨a1, b1, c1⟩ := iho _ _ _ _ ho
    split at h
    · rename_i op hop
      have hmem := cmpOpOfTok_mem t op hop
      by_cases hk1 : k1 = .cond
      · simp [hk1] at h
      · simp only [hk1, if_false] at h
        split at h
        · rename_i e2 k2 r2 ho2
          obtain ⟨a2, b2, c2⟩ := iho _ _ _ _ ho2
          by_cases hk2 : k2 = .cond
          · simp [hk2] at h
          · simp only [hk2, if_false] at h
            split at h
            · cases h
            · simp only [Option.some.injEq, Prod.mk.injEq] at h
              obtain ⟨rfl, rfl, rfl⟩ := h
              refine ⟨yok_cmp op e1 e2 hmem a1 a2 b1 b2 (operandSide k1 e1 c1 hk1) (operandSide k2 e2 c2 hk2),
                by rw [noSetFirst_binary]; exact b1, kind_cond _ ?_⟩
              have := (cmpOps_facts op hmem).1
              simp [condTop, this]
        · cases h
    · simp only [Option.some.injEq, Prod.mk.injEq] at h
      obtain ⟨rfl, rfl, rfl⟩ := h
      exact ⟨a1, b1, c1⟩
  · rename_i hne
    exact iho _ _ _ _ h

theorem condLoop_high : ∀ (f m : Nat) (lhs : Expr) (toks : List Tok) (e : Expr) (r : List Tok), 2 ≤ m →
    yCondLoop f m lhs toks = some (e, r) → e = lhs ∧ r = toks := by
  intro f m lhs toks e r hm h
  cases f with
  | zero => simp [yCondLoop] at h
  | succ k =>
    unfold yCondLoop at h
    split at h
    · rename_i t rest
      split at h
      · rename_i op hop
        have hlog : isLogical op = true := by
          unfold logicalOpOfTok at hop
          split at hop <;> simp_all [isLogical]
        have hf := logical_facts op hlog
        have h0 : ¬ (yaccLevel op = 0) := by omega
        have h1 : ¬ (yaccLevel op ≥ m) := by omega
        simp only [h0, h1, if_false, Option.some.injEq, Prod.mk.injEq] at h
        exact ⟨h.1.symm, h.2.symm⟩
      · simp only [Option.some.injEq, Prod.mk.injEq] at h
        exact ⟨h.1.symm, h.2.symm⟩
    · simp only [Option.some.injEq, Prod.mk.injEq] at h
      exact ⟨h.1.symm, h.2.symm⟩

theorem condLoop_step (f : Nat) (ih : CondInv f) :
    ∀ m lhs toks e r, yCondLoop (f + 1) m lhs toks = some (e, r) → YOK lhs → noSetFirst lhs = true →
      YOK e ∧ noSetFirst e = true := by
  obtain ⟨_, ihu, _, ihl⟩ := ih
  intro m lhs toks e r h hl hns
  unfold yCondLoop at h
  split at h
  · rename_i t rest
    split at h
    · rename_i op hop
      have hlog : isLogical op = true := by
        unfold logicalOpOfTok at hop
        split at hop <;> simp_all [isLogical]
      have hf := logical_facts op hlog
      have h0 : ¬ (yaccLevel op = 0) := by omega
      simp only [h0, if_false] at h
      by_cases hge : yaccLevel op ≥ m
      · simp only [hge, if_true] at h
        split at h
        · rename_i e1 k1 r1 hu
          obtain ⟨a1, b1, c1⟩ := ihu _ _ _ _ hu
          by_cases hk : k1 = .col
          · simp [hk] at h
          · simp only [hk, if_false] at h
            split at h
            · rename_i rhs r' hin
              rw [hf.2.1] at hin
              obtain ⟨rfl, rfl⟩ := condLoop_high f 2 e1 r1 rhs r' (Nat.le_refl 2) hin
              have hnew := yok_logical op lhs rhs hlog hl a1 hns b1 (condTop_of_kind k1 rhs c1 hk)
              exact ihl m _ _ e r h hnew (by rw [noSetFirst_binary]; exact hns)
            · cases h
        · cases h
      · simp only [hge, if_false, Option.some.injEq, Prod.mk.injEq] at h
        obtain ⟨rfl, rfl⟩ := h
        exact ⟨hl, hns⟩
    · simp only [Option.some.injEq, Prod.mk.injEq] at h
      obtain ⟨rfl, rfl⟩ := h
      exact ⟨hl, hns⟩
  · simp only [Option.some.injEq, Prod.mk.injEq] at h
    obtain ⟨rfl, rfl⟩ := h
    exact ⟨hl, hns⟩

theorem gen_step (f : Nat) (ih : CondInv f) :
    ∀ toks e k r, yGen (f + 1) toks = some (e, k, r) → YOK e ∧ noSetFirst e = true ∧ (k = .col → ColTop e) := by
  obtain ⟨_, ihu, _, ihl⟩ := ih
  intro toks e k r h
  unfold yGen at h
  split at h
  · rename_i e0 k0 r0 hu
    obtain ⟨a, b, c⟩ := ihu _ _ _ _ hu
    by_cases hk : k0 = .col
    · simp only [hk, if_true, Option.some.injEq, Prod.mk.injEq] at h
      obtain ⟨rfl, rfl, rfl⟩ := h
      exact ⟨a, b, fun _ => c.1 hk⟩
    · simp only [hk, if_false] at h
      split at h
      · rename_i e' r' hl
        obtain ⟨a', b'⟩ := ihl _ _ _ _ _ hl a b
        split at h
        · simp only [Option.some.injEq, Prod.mk.injEq] at h
          obtain ⟨rfl, rfl, rfl⟩ := h
          exact ⟨a', b', fun hh => absurd hh hk⟩
        · simp only [Option.some.injEq, Prod.mk.injEq] at h
          obtain ⟨rfl, rfl, rfl⟩ := h
          exact ⟨a', b', fun hh => by cases hh⟩
      · cases h
  · cases h

theorem condInv : ∀ f, CondInv f := by
  intro f
  induction f with
  | zero =>
    refine ⟨?_, ?_, ?_, ?_⟩
    · intro toks e k r h; simp [yOperand] at h
    · intro toks e k r h; simp [yCondUnit] at h
    · intro toks e k r h; simp [yGen] at h
    · intro m lhs toks e r h; simp [yCondLoop] at h
  | succ k ih =>
    exact ⟨operand_step k ih, condUnit_step k ih, gen_step k ih, condLoop_step k ih⟩

/-- **every tree of the statement grammar has the shape the property theorem assumes.** -/
theorem yaccParse_out (toks : List Tok) (e : Expr) (h : yaccParse toks = some e) : YaccOut e = true := by
  unfold yaccParse at h
  split at h
  · rename_i e0 k hg
    split at h
    · cases h
    · simp only [Option.some.injEq] at h
      subst h
      obtain ⟨a, b, _⟩ := (condInv _).2.2.1 _ _ _ _ hg
      unfold YOK at a
      have : okNode = fun x => shapeOK x && nodeOK x := rfl
      rw [this, allNodes_and] at a
      simp only [Bool.and_eq_true] at a
      simp [YaccOut, a.1, a.2, b]
  · cases h

end OG.C12
