/-
C12 — driver glue for the options codec model (core only).

  opts F=<v> F=<v> …      fields of a query.ProcessorOptions (fields not listed hold their zero value)
                          → `ok F=<v> …` (every modelled field of the decoded struct, in struct order)
                          | `marshal-error` | `decode-error` | `unmodelled`
  wiredesc <Msg>          → the fields of the runtime descriptor: `name:number:type:rep …`

value syntax (hex = lower-case hex of the bytes):
  i<int>  bt|bf  s<hex>  y<hex>  l:<hex>:<hex>…  k:<hex>:<hex>…  enil|e<hex of text>  (answer: e<hex of tree dump>)
  znil|zutc|zlocal|zn<hex>|zf<hex>,<off>   fnil|ff<16 hex digits>|fi<int>|fo   o:<hex>,<t|f>…
  r:<hex>,<int>,<hex>…   v<int>,<int>   Snil | S:M,<db>,<rp>,<name>,<-|x hex>,<t|f>,<sysiter>,<t|f>,<alias>,<t|f>,<-|n>,<-|n>,<int>,<msttype> | S…:Q
-/
import OG.C12.WireJudge

namespace OG.C12.Wire
open OG.C12 OG.Gen.C12

def hexDigitC (n : Nat) : Char := if n < 10 then Char.ofNat (48 + n) else Char.ofNat (87 + n)

def hexOfBytes (bs : Bytes) : String :=
  String.ofList (bs.flatMap fun b => [hexDigitC (b.toNat / 16), hexDigitC (b.toNat % 16)])

def hexValC (c : Char) : Option Nat :=
  if '0' ≤ c && c ≤ '9' then some (c.toNat - 48)
  else if 'a' ≤ c && c ≤ 'f' then some (c.toNat - 87)
  else none

def unhexB : List Char → Option Bytes
  | [] => some []
  | a :: b :: rest => do
    let x ← hexValC a
    let y ← hexValC b
    let r ← unhexB rest
    some (UInt8.ofNat (x * 16 + y) :: r)
  | _ => none

def bytesOfStr (s : Str) : Bytes := (String.ofList s).toUTF8.toList
def strOfBytes? (b : Bytes) : Option Str := (String.fromUTF8? (ByteArray.mk b.toArray)).map (·.toList)

def unhexStr (h : String) : Option Str := do
  let bs ← unhexB h.toList
  strOfBytes? bs

def hexOfStrW (s : Str) : String := hexOfBytes (bytesOfStr s)

def tf (b : Bool) : String := if b then "t" else "f"
def untf (s : String) : Option Bool := if s = "t" then some true else if s = "f" then some false else none

def hex16 (v : UInt64) : String :=
  String.ofList ((List.range 16).map fun i => hexDigitC ((v.toNat / 16 ^ (15 - i)) % 16))

def unhex16 (s : String) : Option UInt64 :=
  if s.length ≠ 16 then none
  else (s.toList.foldlM (fun acc c => (hexValC c).map fun d => acc * 16 + d) 0).map UInt64.ofNat

def optNat (s : String) : Option (Option Nat) :=
  if s = "-" then some none else s.toNat?.map some
def showOptNat : Option Nat → String
  | none => "-"
  | some n => toString n

/-- elements after the first ':' of "x:a:b:c" (an empty list when there is no ':') -/
def elems (s : String) : List String := (s.splitOn ":").drop 1

def parseMst (parts : List String) : Option Mst :=
  match parts with
  | [db, rp, name, re, tgt, si, iss, al, ts, ir, ob, et, mt] => do
    let db ← unhexB db.toList
    let rp ← unhexB rp.toList
    let name ← unhexB name.toList
    let re ← (if re = "-" then some none else if re.startsWith "x" then (unhexB (re.drop 1).toString.toList).map some else none)
    let tgt ← untf tgt
    let si ← unhexB si.toList
    let iss ← untf iss
    let al ← unhexB al.toList
    let ts ← untf ts
    let ir ← optNat ir
    let ob ← optNat ob
    let et ← et.toInt?
    let mt ← unhexB mt.toList
    some ⟨db, rp, name, re, tgt, si, iss, al, ts, ir, ob, et, mt⟩
  | _ => none

def parseSource (s : String) : Option Source :=
  match s.splitOn "," with
  | ["Q"] => some .otherSrc
  | "M" :: parts => (parseMst parts).map .mst
  | _ => none

def showMst (m : Mst) : String :=
  ",".intercalate ["M", hexOfBytes m.db, hexOfBytes m.rp, hexOfBytes m.name,
    (match m.regex with | none => "-" | some p => "x" ++ hexOfBytes p), tf m.isTarget, hexOfBytes m.sysIter,
    tf m.isSystemStatement, hexOfBytes m.alias, tf m.isTimeSorted, showOptNat m.indexRelation, showOptNat m.obs,
    toString m.engineType, hexOfBytes m.mstType]

def showSource : Source → String
  | .otherSrc => "Q"
  | .mst m => showMst m

def parseVal (parseCond : Str → Option Expr) (s : String) : Option Val :=
  match s.toList with
  | 'i' :: r => (String.ofList r).toInt?.map fun v => .sc (.int v)
  | ['b', 't'] => some (.sc (.bool true))
  | ['b', 'f'] => some (.sc (.bool false))
  | 's' :: r => (unhexB r).map fun b => .sc (.str b)
  | 'y' :: r => (unhexB r).map fun b => .sc (.bytes b)
  | 'l' :: _ => ((elems s).mapM fun e => unhexB e.toList).map .strs
  | 'k' :: _ => ((elems s).mapM fun e => unhexB e.toList).map .keys
  | ['e', 'n', 'i', 'l'] => some (.expr none)
  | 'e' :: r => do
    let text ← unhexStr (String.ofList r)
    let e ← parseCond text
    some (.expr (some e))
  | 'z' :: r =>
    (match String.ofList r with
     | "nil" => some (.loc none)
     | "utc" => some (.loc (some .utc))
     | "local" => some (.loc (some .localZone))
     | t =>
       if t.startsWith "n" then (unhexStr (t.drop 1).toString).map fun n => .loc (some (.named n))
       else if t.startsWith "f" then
         (match (t.drop 1).toString.splitOn "," with
          | [h, off] => do
            let n ← unhexStr h
            let o ← off.toInt?
            some (.loc (some (.fixed n o)))
          | _ => none)
       else none)
  | 'f' :: r =>
    (match String.ofList r with
     | "nil" => some (.fill .nil)
     | "o" => some (.fill .otherDyn)
     | t =>
       if t.startsWith "f" then (unhex16 (t.drop 1).toString).map fun b => .fill (.f64 b)
       else if t.startsWith "i" then (t.drop 1).toString.toInt?.map fun v => .fill (.i64 v)
       else none)
  | 'o' :: _ =>
    ((elems s).mapM fun (e : String) =>
      match e.splitOn "," with
      | [h, a] => do
        let n ← unhexStr h
        let b ← untf a
        some (n, b)
      | _ => none).map .sorts
  | 'r' :: _ =>
    ((elems s).mapM fun (e : String) =>
      match e.splitOn "," with
      | [h, t, a] => do
        let v ← unhexB h.toList
        let ty ← t.toInt?
        let al ← unhexB a.toList
        some (⟨v, ty, al⟩ : VRef)
      | _ => none).map .refs
  | 'v' :: r =>
    (match (String.ofList r).splitOn "," with
     | [d, o] => do
       let d ← d.toInt?
       let o ← o.toInt?
       some (.interval d o)
     | _ => none)
  | ['S', 'n', 'i', 'l'] => some (.sources none)
  | 'S' :: _ => ((elems s).mapM parseSource).map fun l => .sources (some l)
  | _ => none

def showVal (dumpE : Expr → String) : Val → String
  | .sc (.int v) => "i" ++ toString v
  | .sc (.bool b) => "b" ++ tf b
  | .sc (.str s) => "s" ++ hexOfBytes s
  | .sc (.bytes s) => "y" ++ hexOfBytes s
  | .sc _ => "?"
  | .strs l => "l" ++ String.join (l.map fun b => ":" ++ hexOfBytes b)
  | .keys l => "k" ++ String.join (l.map fun b => ":" ++ hexOfBytes b)
  | .expr none => "enil"
  | .expr (some e) => "e" ++ hexOfBytes (dumpE e).toUTF8.toList
  | .loc none => "znil"
  | .loc (some .utc) => "zutc"
  | .loc (some .localZone) => "zlocal"
  | .loc (some (.named n)) => "zn" ++ hexOfStrW n
  | .loc (some (.fixed n o)) => "zf" ++ hexOfStrW n ++ "," ++ toString o
  | .fill .nil => "fnil"
  | .fill (.f64 b) => "ff" ++ hex16 b
  | .fill (.i64 v) => "fi" ++ toString v
  | .fill .otherDyn => "fo"
  | .sorts l => "o" ++ String.join (l.map fun f => ":" ++ hexOfStrW f.1 ++ "," ++ tf f.2)
  | .refs l => "r" ++ String.join (l.map fun r => ":" ++ hexOfBytes r.val ++ "," ++ toString r.ty ++ "," ++ hexOfBytes r.alias)
  | .interval d o => "v" ++ toString d ++ "," ++ toString o
  | .sources none => "Snil"
  | .sources (some l) => "S" ++ String.join (l.map fun s => ":" ++ showSource s)
  | .opaque => "?"

def isModelledT : GoT → Bool
  | .other _ | .ptr _ => false
  | _ => true

/-- the object an `opts` line describes: listed fields, every other field its zero value -/
def objOf (given : List (String × Val)) : Obj := fun f =>
  match given.find? (fun p => p.1 == f) with
  | some p => p.2
  | none =>
    match codec_options.find? (fun r => r.field == f) with
    | some r => vzero r.goT
    | none => .opaque

def optsAnswer (dumpE : Expr → String) (parseCond : Str → Option Expr) (args : List String) : String :=
  let parsed := args.mapM fun a =>
    match a.splitOn "=" with
    | [f, v] => (parseVal parseCond v).map fun x => (f, x)
    | _ => none
  match parsed with
  | none => "bad-op"
  | some given =>
    if !(codec_options.all rowModelled) then "unmodelled"
    else
      let o := objOf given
      if !marshalOK codec_options o then "marshal-error"
      else
        match shipOptList codec_options o codec_options with
        | none => "decode-error"
        | some l =>
          let shown := (codec_options.filter fun r => isModelledT r.goT).map fun r =>
            match lookupV l r.field with
            | some v => r.field ++ "=" ++ showVal dumpE v
            | none => r.field ++ "=?"
          " ".intercalate ("ok" :: shown)

def showPT : PT → String
  | .int64 => "int64" | .int32 => "int32" | .uint64 => "uint64" | .uint32 => "uint32" | .bool => "bool"
  | .double => "double" | .string => "string" | .bytes => "bytes" | .msg n => "message:" ++ n
  | .mapStringBool => "map<string,bool>" | .other n => "other" ++ toString n

def descOf (msg : String) : Option (List WireField) :=
  if msg = "ProcessorOptions" then some desc_ProcessorOptions
  else if msg = "Measurement" then some desc_Measurement
  else if msg = "Interval" then some desc_Interval
  else if msg = "VarRef" then some desc_VarRef
  else if msg = "ObsOptions" then some desc_ObsOptions
  else if msg = "IndexOption" then some desc_IndexOption
  else if msg = "QuerySchema" then some desc_QuerySchema
  else if msg = "Unnest" then some desc_Unnest
  else if msg = "JoinCase" then some desc_JoinCase
  else none

def wiredescAnswer (msg : String) : String :=
  match descOf msg with
  | none => "bad-op"
  | some d =>
    " ".intercalate ("desc" :: d.map fun f => f.name ++ ":" ++ toString f.num ++ ":" ++ showPT f.ty ++ ":" ++ tf f.repeated)

end OG.C12.Wire
