/-
C12 — the field list of the query schema is read back as it was planned (token level).
-/
import OG.C12.RoundTrip3
import OG.C12.Stmt
import OG.C12.Durs
import OG.C12.Props
import OG.C12.Wire

namespace OG.C12
open OG.Gen.C12

/-- a field whose expression `ParseExpr` reads back from its printout (the conditions of
`parseExpr_print`, in the position of a call argument: `parseField` looks for a regex first), with
no AND / OR / =~ / !~ below it (`validateField`). -/
structure FieldOK (f : SField) : Prop where
  canon : PECanon f.1 = true
  atoms : AtomsOK f.1 = true
  ctx : regexFirstOK true f.1 = true
  argre : argRegexOK f.1 = true
  nosf : noSetFirst f.1 = true
  nocond : hasCondOp f.1 = false

/-- what follows a field: a comma, or FROM -/
def FieldFollow (Z : List Tok) : Prop := (∃ ts, Z = .sym .comma :: ts) ∨ (∃ ts, Z = .kw .FROM :: ts)

theorem as_not_op : tokToOp (.kw .AS) = none := by decide
theorem from_not_op : tokToOp (.kw .FROM) = none := by decide

theorem endFollow_of_field (Z : List Tok) (h : FieldFollow Z) : EndFollow Z := by
  rcases h with ⟨ts, rfl⟩ | ⟨ts, rfl⟩
  · exact Or.inr (Or.inr (Or.inl ⟨ts, rfl⟩))
  · exact Or.inr (Or.inr (Or.inr ⟨.FROM, ts, rfl, from_not_op⟩))

/-- the alias tokens of a printed field -/
def aliasToks (a : Str) : List Tok := if a = [] then [] else [.kw .AS, .ident a]

theorem printField_eq (f : SField) : printField f = printCtx true f.1 ++ aliasToks f.2 := rfl

theorem endFollow_alias (a : Str) (Z : List Tok) (h : FieldFollow Z) : EndFollow (aliasToks a ++ Z) := by
  unfold aliasToks
  split
  · simpa using endFollow_of_field Z h
  · exact Or.inr (Or.inr (Or.inr ⟨.AS, .ident a :: Z, by simp, as_not_op⟩))

/-- `parseAlias` on the alias tokens -/
theorem alias_scan (e : Expr) (a : Str) (Z : List Tok) (hZ : FieldFollow Z) (g : Nat) :
    peAlias tokSrc (g + 1) e (aliasToks a ++ Z) = some ((e, a), Z) := by
  unfold peAlias
  by_cases ha : a = []
  · subst ha
    rcases hZ with ⟨ts, rfl⟩ | ⟨ts, rfl⟩
    · simp [aliasToks, scanNW, tokSrc, tokScan]
    · simp [aliasToks, scanNW, tokSrc, tokScan]
  · simp [aliasToks, ha, scanNW, tokSrc, tokScan]

theorem peField_print (f : SField) (h : FieldOK f) (k : Nat) (hk : weight f.1 ≤ k)
    (Z : List Tok) (hZ : FieldFollow Z) :
    peField tokSrc (k + 1) (printField f ++ Z) = some (f, Z) := by
  obtain ⟨e, a⟩ := f
  have ih := parse_ok e h.canon h.atoms k hk
  have hE := endFollow_alias a Z hZ
  have harg := arg_parse e k (aliasToks a ++ Z) h.canon h.atoms hk ih h.ctx h.argre h.nosf hE
  rw [printField_eq, List.append_assoc]
  unfold peField
  rcases harg with ⟨s, hs, htoks⟩ | ⟨hnr, _, hpe⟩
  · -- the field is a regex literal, read by parseRegex
    have hs' : e = .regex s := hs
    subst hs'
    have hra : tokSrc.regexAhead (printCtx true (Expr.regex s) ++ (aliasToks a ++ Z)) = .ok s (aliasToks a ++ Z) := by
      rw [htoks]; rfl
    simp only [hra]
    exact alias_scan _ a Z hZ k
  · have hra : tokSrc.regexAhead (printCtx true e ++ (aliasToks a ++ Z)) = .notRegex (printCtx true e ++ (aliasToks a ++ Z)) := hnr
    have hc : hasCondOp e = false := h.nocond
    simp only [hra, hpe, hc, Bool.false_eq_true, if_false]
    exact alias_scan _ a Z hZ k

/-! ### the list -/

theorem comma_scan (g : Nat) (ts : List Tok) :
    scanNW tokSrc (g + 1) (.sym .comma :: ts) = some (.sym .comma, .sym .comma :: ts, ts) := by
  simp [scanNW, tokSrc, tokScan]

theorem from_scan (g : Nat) (ts : List Tok) :
    scanNW tokSrc (g + 1) (.kw .FROM :: ts) = some (.kw .FROM, .kw .FROM :: ts, ts) := by
  simp [scanNW, tokSrc, tokScan]

/-- `parseFields` reads the printed list back, up to the FROM that follows it. -/
theorem peFieldsLoop_print : (fs : List SField) → fs ≠ [] → ∀ (k n : Nat) (acc : List SField) (ts : List Tok),
    (∀ f ∈ fs, FieldOK f ∧ weight f.1 ≤ k) → fs.length ≤ n →
    peFieldsLoop tokSrc (k + 1) n acc (printFields fs ++ .kw .FROM :: ts) = some (acc ++ fs, .kw .FROM :: ts)
  | [], hne, _, _, _, _, _, _ => absurd rfl hne
  | [f], _, k, n, acc, ts, hf, hn => by
    obtain ⟨m, rfl⟩ : ∃ m, n = m + 1 := ⟨n - 1, by simp at hn; omega⟩
    have h1 := hf f (by simp)
    simp only [printFields, peFieldsLoop]
    rw [peField_print f h1.1 k h1.2 _ (Or.inr ⟨ts, rfl⟩)]
    simp only [from_scan]
  | f :: f2 :: rest, _, k, n, acc, ts, hf, hn => by
    obtain ⟨m, rfl⟩ : ∃ m, n = m + 1 := ⟨n - 1, by simp at hn; omega⟩
    have h1 := hf f (by simp)
    have ih := peFieldsLoop_print (f2 :: rest) (by simp) k m (acc ++ [f]) ts
      (fun x hx => hf x (by simp [hx])) (by simp at hn ⊢; omega)
    simp only [printFields, peFieldsLoop, List.append_assoc, List.cons_append]
    rw [peField_print f h1.1 k h1.2 _ (Or.inl ⟨_, rfl⟩)]
    simp only [comma_scan]
    rw [ih]
    simp


theorem printCtx_len_le_fields : (fs : List SField) → ∀ f ∈ fs,
    (printCtx true f.1).length ≤ (printFields fs).length
  | [], _, h => by simp at h
  | [g], f, h => by
    simp only [List.mem_singleton] at h
    subst h
    simp [printFields, printField, List.length_append]
  | g :: g2 :: rest, f, h => by
    rcases List.mem_cons.mp h with rfl | h
    · simp only [printFields, printField, List.length_append, List.length_cons]
      omega
    · have := printCtx_len_le_fields (g2 :: rest) f h
      simp only [printFields, List.length_append, List.length_cons]
      omega

theorem fields_len_le : (fs : List SField) → fs.length ≤ (printFields fs).length + 1
  | [] => by simp
  | [g] => by simp [printFields]
  | g :: g2 :: rest => by
    have := fields_len_le (g2 :: rest)
    simp only [printFields, List.length_append, List.length_cons] at this ⊢
    omega

def mockTail : List Tok := [.kw .FROM, .ident "mock".toList]

/-- **Fields.** A field list whose expressions are read back by `ParseExpr` from their printout
(`FieldOK`: canonical for `Precedence()`, literals that re-read as themselves, no condition
operator) is parsed by `hybridqp.ParseFields` — the hand-written `parseFields` / `parseField` /
`parseAlias` on `SELECT <Fields.String()> FROM mock` — as itself: the same expressions, the same
aliases, in the same order. -/
theorem fields_roundtrip (fs : List SField) (hne : fs ≠ []) (h : ∀ f ∈ fs, FieldOK f) :
    parseFieldsToks (printFields fs ++ mockTail) = some fs := by
  unfold parseFieldsToks peSelectFields
  have hw : ∀ f ∈ fs, FieldOK f ∧ weight f.1 ≤ 16 * (printFields fs ++ mockTail).length + 15 := by
    intro f hf
    refine ⟨h f hf, ?_⟩
    have h1 := weight_le_print true f.1
    have h2 := printCtx_len_le_fields fs f hf
    simp only [List.length_append]
    omega
  have hn : fs.length ≤ (printFields fs ++ mockTail).length + 2 := by
    have := fields_len_le fs
    simp only [List.length_append]
    omega
  have := peFieldsLoop_print fs hne (16 * (printFields fs ++ mockTail).length + 15)
    ((printFields fs ++ mockTail).length + 2) [] [.ident "mock".toList] hw hn
  simp only [mockTail] at this ⊢
  rw [this]
  simp [scanNW, tokSrc, tokScan]

/-- the statement is about something: a list with an aliased call, a typed reference with an alias
that needs quotes, and a regex field. -/
example : parseFieldsToks (printFields
    [(.call "mean".toList (.cons (.varRef ['v'] .unknown) .nil), "my avg".toList),
     (.binary .add (.varRef ['a'] .float) (.int 1), []),
     (.regex ['^', 'c'], [])] ++ mockTail) =
  some [(.call "mean".toList (.cons (.varRef ['v'] .unknown) .nil), "my avg".toList),
     (.binary .add (.varRef ['a'] .float) (.int 1), []),
     (.regex ['^', 'c'], [])] := by decide


/-! ### from the statement grammar to `FieldOK` -/

mutual
theorem hasCondOp_of_pCol : (e : Expr) → allNodes pCol e = true → hasCondOp e = false
  | .binary op l r, h => by
    simp only [allNodes, Bool.and_eq_true] at h
    obtain ⟨⟨hn, hl⟩, hr⟩ := h
    have h1 := hasCondOp_of_pCol l hl
    have h2 := hasCondOp_of_pCol r hr
    simp only [pCol, Bool.not_eq_true'] at hn
    simp only [hasCondOp, h1, h2, Bool.or_false]
    exact hn
  | .paren e, h => by
    simp only [allNodes, Bool.and_eq_true] at h
    simp [hasCondOp, hasCondOp_of_pCol e h.2]
  | .call _ args, h => by
    simp only [allNodes, Bool.and_eq_true] at h
    simp [hasCondOp, argsHaveCondOp_of_pCol args h.2]
  | .varRef _ _, _ | .str _, _ | .int _, _ | .uns _, _ | .num _, _ | .numInf, _ | .numNegInf, _ | .numNaN, _
  | .bool _, _ | .dur _, _ | .regex _, _ | .wildcard _, _ | .set _, _ => by simp [hasCondOp]
theorem argsHaveCondOp_of_pCol : (a : Args) → allNodesArgs pCol a = true → argsHaveCondOp a = false
  | .nil, _ => rfl
  | .cons e r, h => by
    simp only [allNodesArgs, Bool.and_eq_true] at h
    simp [argsHaveCondOp, hasCondOp_of_pCol e h.1, argsHaveCondOp_of_pCol r h.2]
end

theorem DC.pcol {e : Expr} (h : DC e) : allNodes pCol e = true := by
  unfold DC at h
  have : qDC = fun x => pDur x && pCol x := rfl
  rw [this, allNodes_and] at h
  simp only [Bool.and_eq_true] at h
  exact h.2

/-- the defect classes of a field expression (those of a condition that can occur in a COLUMN) and,
for a field that starts with a regex, the class `regex_call_argument_with_operator`. -/
def FieldGood (e : Expr) : Bool :=
  NoMixedAndOr e && NoUnaryMinusOperand e && NoLikeArith e && NoIntegralNumberLit e && NoInfNanIdent e &&
  CallNamesPlain e && allNodes pRegex e && NoTagTypedBeforeDiv e && TypesReadBack e &&
  regexFirstOK true e && argRegexOK e

/-- **the field list of a statement is what the store reads back**: for every token list without a
`-`-prefixed DURATIONVAL (what the scanner delivers), if COLUMN_CLAUSES of the statement grammar
builds the field list `fs` from it and no field shows a known defect class, `hybridqp.ParseFields`
gives `fs` back from `Fields.String()`. -/
theorem fields_roundtrip_partial (toks : List Tok) (fs : List SField)
    (hy : yaccFields toks = some fs) (hp : Plain toks) (hg : ∀ f ∈ fs, FieldGood f.1 = true) :
    parseFieldsToks (printFields fs ++ mockTail) = some fs := by
  unfold yaccFields at hy
  split at hy
  · rename_i cl hc
    simp only [Option.some.injEq] at hy
    subst hy
    have hshape := (colInv _).2.2.2 _ _ _ hc
    have hdur := ((durColInv _).2.2.2 _ _ _ hp hc).1
    -- the grammar never builds an empty list
    have hne : cl ≠ [] := by
      intro hnil
      subst hnil
      unfold yClauses at hc
      split at hc <;> try (cases hc)
      all_goals (split at hc <;> simp at hc)
    apply fields_roundtrip
    · simpa using hne
    · intro f hf
      simp only [List.mem_map] at hf
      obtain ⟨c, hcm, rfl⟩ := hf
      obtain ⟨hyok, hns⟩ := hshape c hcm
      have hdc := hdur c hcm
      have hgood := hg (c.1, c.2.getD []) (by simp only [List.mem_map]; exact ⟨c, hcm, rfl⟩)
      simp only [FieldGood, Bool.and_eq_true] at hgood
      obtain ⟨⟨⟨⟨⟨⟨⟨⟨⟨⟨g1, g2⟩, g3⟩, g4⟩, g5⟩, g6⟩, g7⟩, g8⟩, g9⟩, g10⟩, g11⟩ := hgood
      unfold YOK at hyok
      have hok : okNode = fun x => shapeOK x && nodeOK x := rfl
      rw [hok, allNodes_and] at hyok
      simp only [Bool.and_eq_true] at hyok
      have hall := allNodes_goodAll c.1 hyok.1 hyok.2 g1 g2 g3 g4 g5 g6 g7 g8 g9 hdc.dd
      obtain ⟨hcan, hat⟩ := good_canon_atoms c.1 hall
      exact ⟨hcan, hat, g10, g11, hns, hasCondOp_of_pCol c.1 hdc.pcol⟩
  · cases hy


/-! ### ORDER BY fields -/

namespace Wire

def commaSorts : List (Str × Bool) → List Tok
  | [] => []
  | f :: rest => .sym .comma :: (printSort f ++ commaSorts rest)

theorem printSorts_cons : (f : Str × Bool) → (rest : List (Str × Bool)) →
    printSorts (f :: rest) = printSort f ++ commaSorts rest
  | f, [] => by simp [printSorts, commaSorts]
  | f, g :: rest => by
    have := printSorts_cons g rest
    simp only [printSorts, commaSorts, this]

theorem dirTok_scan (g : Nat) (b : Bool) (ts : List Tok) :
    scanNW tokSrc (g + 1) (.kw (if b then .ASC else .DESC) :: ts) =
      some (.kw (if b then .ASC else .DESC), .kw (if b then .ASC else .DESC) :: ts, ts) := by
  cases b <;> simp [scanNW, tokSrc, tokScan]

/-- `parseSortField` on a printed field with a name -/
theorem peSortField_print (g : Nat) (name : Str) (b : Bool) (hn : name ≠ []) (ts : List Tok) :
    peSortField tokSrc (g + 1) (printSort (name, b) ++ ts) = some ((name, b), ts) := by
  cases b <;> simp [peSortField, printSort, hn, scanNW, tokSrc, tokScan]

theorem peSortMore_print : (rest : List (Str × Bool)) → (∀ f ∈ rest, f.1 ≠ []) →
    ∀ (g : Nat) (acc : List (Str × Bool)), rest.length + 1 < g →
    peSortMore tokSrc g acc (commaSorts rest) = some (acc ++ rest)
  | [], _, g, acc, hg => by
    obtain ⟨k, rfl⟩ : ∃ k, g = k + 2 := ⟨g - 2, by simp at hg; omega⟩
    simp [peSortMore, commaSorts, scanNW, tokSrc, tokScan]
  | (name, b) :: rest, h, g, acc, hg => by
    obtain ⟨k, rfl⟩ : ∃ k, g = k + 2 := ⟨g - 2, by simp at hg; omega⟩
    have hn : name ≠ [] := h (name, b) (by simp)
    have ih := peSortMore_print rest (fun f hf => h f (by simp [hf])) (k + 1) (acc ++ [(name, b)])
      (by simp at hg ⊢; omega)
    have hc : scanNW tokSrc (k + 1) (.sym .comma :: (printSort (name, b) ++ commaSorts rest)) =
        some (.sym .comma, .sym .comma :: (printSort (name, b) ++ commaSorts rest), printSort (name, b) ++ commaSorts rest) := by
      simp [scanNW, tokSrc, tokScan]
    show peSortMore tokSrc (k + 1 + 1) acc (.sym .comma :: (printSort (name, b) ++ commaSorts rest)) = _
    unfold peSortMore
    simp only [hc, peSortField_print k name b hn]
    rw [ih]
    simp

/-- **SortFields.** `ParseSortFields` reads `SortFields.String()` back as the same fields — names
(quoted by `QuoteIdent` since /repo 2424722, so each is one identifier token) and directions; only
the first field may go without a name (`ORDER BY DESC`). -/
theorem sorts_roundtrip (f : Str × Bool) (rest : List (Str × Bool)) (h : ∀ x ∈ rest, x.1 ≠ []) :
    parseSortFieldsToks (printSorts (f :: rest)) = some (f :: rest) := by
  unfold parseSortFieldsToks peSortFields
  rw [printSorts_cons]
  obtain ⟨name, b⟩ := f
  have hfuel : rest.length + 1 < 4 * (printSort (name, b) ++ commaSorts rest).length + 8 := by
    have : rest.length ≤ (commaSorts rest).length := by
      induction rest with
      | nil => simp
      | cons x xs ih =>
        have := ih (fun y hy => h y (by simp [hy]))
        simp only [commaSorts, List.length_cons, List.length_append]
        omega
    simp only [List.length_append]
    omega
  obtain ⟨k, hk⟩ : ∃ k, 4 * (printSort (name, b) ++ commaSorts rest).length + 8 = k + 1 := ⟨_, rfl⟩
  have hk' : rest.length + 1 < k + 1 := by omega
  rw [hk]
  have hmore := peSortMore_print rest h (k + 1) [(name, b)] hk'
  by_cases hn : name = []
  · subst hn
    have hs : scanNW tokSrc (k + 1) (printSort ([], b) ++ commaSorts rest) =
        some (.kw (if b then .ASC else .DESC), printSort ([], b) ++ commaSorts rest, commaSorts rest) := by
      cases b <;> simp [printSort, scanNW, tokSrc, tokScan]
    cases b
    · simp only [hs, Bool.false_eq_true, if_false]
      exact hmore
    · simp only [hs, if_true]
      exact hmore
  · have hs : scanNW tokSrc (k + 1) (printSort (name, b) ++ commaSorts rest) =
        some (.ident name, printSort (name, b) ++ commaSorts rest,
          .kw (if b then .ASC else .DESC) :: commaSorts rest) := by
      cases b <;> simp [printSort, hn, scanNW, tokSrc, tokScan]
    simp only [hs, peSortField_print k name b hn]
    simpa using hmore

end Wire

end OG.C12
