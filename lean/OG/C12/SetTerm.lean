/-
C12 — termination of the repaired `parseSet` loop.

The Go loop `for { tok := p.ScanIgnoreWhitespace(); …; if tok == RPAREN { break } }` used to scan EOF
for ever when the text ended inside an IN list; the repair (/repo 8d71ced) returns a parse error at
EOF. The model's `peSetLoop` runs on fuel like every function over the abstract token source; here the
loop is written again **without fuel**, by structural recursion on the token list (every iteration
consumes a token, the end of the list is the EOF error), and proved equal to the fuel version for
every amount of fuel that exceeds the length of the input: the fuel bound is never what stops it.
-/
import OG.C12.RoundTrip

namespace OG.C12

/-- `parseSet` after the LPAREN over a token list, fuel-free. -/
def setLoopToks : List Tok → Bool → List SetVal → Option (List SetVal × List Tok)
  | [], _, _ => none                          -- EOF inside the list: the parse error of the repaired loop
  | t :: ts, neg, vals =>
    if t = .ws || t = .comment then setLoopToks ts neg vals
    else if t = .sym .rparen then some (setStep t neg vals, ts)
    else if t = .eof then none
    else setLoopToks ts (t = .sym .sub) (setStep t neg vals)

/-- `ScanIgnoreWhitespace` over a token list, fuel-free: the first token that is not white space. -/
def scanTok : List Tok → Tok × List Tok × List Tok
  | [] => (.eof, [], [])
  | t :: ts => if t = .ws || t = .comment then scanTok ts else (t, t :: ts, ts)

theorem scanNW_tok : ∀ (ts : List Tok) (f : Nat), ts.length < f → scanNW tokSrc f ts = some (scanTok ts)
  | [], f, h => by
    obtain ⟨k, rfl⟩ : ∃ k, f = k + 1 := ⟨f - 1, by simp at h; omega⟩
    simp [scanNW, tokSrc, tokScan, scanTok]
  | t :: ts, f, h => by
    obtain ⟨k, rfl⟩ : ∃ k, f = k + 1 := ⟨f - 1, by simp at h; omega⟩
    have hk : ts.length < k := by simp at h; omega
    by_cases hw : (t = .ws || t = .comment) = true
    · simp only [scanNW, tokSrc, tokScan, hw, if_true, scanTok]
      exact scanNW_tok ts k hk
    · have hw' : (t = .ws || t = .comment) = false := by simpa using hw
      simp [scanNW, tokSrc, tokScan, hw', scanTok]

/-- what is left after the scanned token is shorter than the input (unless the input is empty) -/
theorem scanTok_shorter : ∀ (ts : List Tok), (scanTok ts).2.2.length ≤ ts.length - 1
  | [] => by simp [scanTok]
  | t :: ts => by
    unfold scanTok
    split
    · have := scanTok_shorter ts
      simp only [List.length_cons, Nat.add_sub_cancel]
      omega
    · simp

/-- the fuel-free loop, one step, in terms of `scanTok` -/
theorem setLoopToks_step : ∀ (ts : List Tok) (neg : Bool) (vals : List SetVal),
    setLoopToks ts neg vals =
      (match scanTok ts with
       | (t, _, s') =>
         if t = .sym .rparen then some (setStep t neg vals, s')
         else if t = .eof then none
         else setLoopToks s' (t = .sym .sub) (setStep t neg vals))
  | [], _, _ => by simp [setLoopToks, scanTok]
  | t :: ts, neg, vals => by
    by_cases hw : (t = .ws || t = .comment) = true
    · simp only [setLoopToks, scanTok, hw, if_true]
      exact setLoopToks_step ts neg vals
    · have hw' : (t = .ws || t = .comment) = false := by simpa using hw
      simp only [setLoopToks, scanTok, hw', Bool.false_eq_true, if_false]

/-- **the repaired loop terminates: with any fuel beyond the length of the input, the fuel version is
the fuel-free one** (in particular it never stops because the fuel ran out). -/
theorem peSetLoop_terminates : ∀ (n : Nat) (ts : List Tok) (f : Nat) (neg : Bool) (vals : List SetVal),
    ts.length ≤ n → ts.length + 1 < f → peSetLoop tokSrc f ts neg vals = setLoopToks ts neg vals
  | n, ts, f, neg, vals, hn, hf => by
    obtain ⟨k, rfl⟩ : ∃ k, f = k + 1 := ⟨f - 1, by omega⟩
    rw [setLoopToks_step]
    unfold peSetLoop
    rw [scanNW_tok ts k (by omega)]
    have hs := scanTok_shorter ts
    cases hsc : scanTok ts with
    | mk t rest =>
      obtain ⟨b, s'⟩ := rest
      rw [hsc] at hs
      simp only at hs ⊢
      by_cases h1 : t = .sym .rparen
      · simp [h1]
      · simp only [h1, if_false]
        by_cases h2 : t = .eof
        · simp [h2]
        · simp only [h2, if_false]
          cases n with
          | zero =>
            -- the input is empty: scanTok gave EOF
            have : ts = [] := by simpa using hn
            subst this
            simp [scanTok] at hsc
            exact absurd hsc.1.symm h2
          | succ m =>
            by_cases hts : ts = []
            · subst hts
              simp [scanTok] at hsc
              exact absurd hsc.1.symm h2
            · have hpos : 0 < ts.length := List.length_pos_iff.mpr hts
              exact peSetLoop_terminates m s' k _ _ (by omega) (by omega)

end OG.C12
