/-
C12 — tokens, literal codecs and the character-level scanner (transcribed from
lib/util/lifted/influx/influxql/scanner.go, parser.go: ParseDuration/FormatDuration/QuoteString/
QuoteIdent/IdentNeedsQuotes, ast.go: NumberLiteral.RenderBytes). Core Lean only.

Conventions: text is `List Char`; a scanner function takes the remaining input and returns the
rest (Go's `unread` is "do not consume"). The input is first passed through `normInput`
(`reader.read`: CR LF and lone CR become LF; the code point 0 is the reader's EOF marker).
-/
import OG.Generated.C12

namespace OG.C12
open OG.Gen.C12 (Kw kwTable kwCheckDot kwText pePrec isOperator opText typeText)

/-! ### tokens -/

inductive Sym where
  | add | sub | mul | div | mod | bitand | bitor | bitxor
  | eq | neq | lt | lte | gt | gte | eqregex | neqregex
  | lparen | rparen | comma | semicolon | colon | dcolon | dot
  | lbracket | rbracket | lsquare | rsquare | multihop
deriving DecidableEq, Repr

inductive BadKind where
  | illegal | badstring | badescape | badregex
deriving DecidableEq, Repr

/-- a scanner token: the kind plus the literal text the Go scanner hands on. -/
inductive Tok where
  | ws | comment | hint | eof
  | ident (s : Str)
  | str (s : Str)
  | int (text : Str)
  | num (text : Str)
  | dur (text : Str)
  | regex (s : Str)
  | boundparam (s : Str)
  | kw (k : Kw)
  | sym (s : Sym)
  | bad (k : BadKind) (lit : Str)
deriving DecidableEq, Repr

/-- the literal text (`lit`) of a token as `Scanner.Scan` returns it. -/
def Tok.lit : Tok → Str
  | .ident s | .str s | .int s | .num s | .dur s | .regex s | .boundparam s => s
  | .bad _ l => l
  | _ => []

/-! ### reader -/

/-- `reader.read`: "\r\n" and a lone "\r" are delivered as "\n"; input ends at the code point 0
(the reader's `eof` marker). -/
def normInputAux : Bool → List Char → List Char
  | _, [] => []
  | afterCR, c :: cs =>
    if c.toNat = 0 then []
    else if afterCR && c = '\n' then normInputAux false cs
    else if c = '\r' then '\n' :: normInputAux true cs
    else c :: normInputAux false cs

def normInput (cs : List Char) : List Char := normInputAux false cs

/-! ### keywords (token.go: Lookup) -/

def lookupKwIn : List (Str × Kw) → Str → Option Kw
  | [], _ => none
  | (k, v) :: rest, s => if k = s then some v else lookupKwIn rest s

/-- `Lookup(ident)`: `none` means IDENT. -/
def lookupKw (ident : Str) : Option Kw := lookupKwIn kwTable (lower ident)

/-- `IdentNeedsQuotes`. -/
def identNeedsQuotes (ident : Str) : Bool :=
  (lookupKw ident).isSome ||
  (match ident with
   | [] => false
   | c :: cs => !isIdentFirstChar c || cs.any (fun r => !isIdentChar r))

/-! ### quoting (parser.go: qsReplacer / qiReplacer) -/

/-- `strings.NewReplacer("\n", `\n`, `\`, `\\`, q, `\`+q).Replace`. -/
def escapeWith (q : Char) : Str → Str
  | [] => []
  | c :: cs =>
    if c = '\n' then '\\' :: 'n' :: escapeWith q cs
    else if c = '\\' then '\\' :: '\\' :: escapeWith q cs
    else if c = q then '\\' :: q :: escapeWith q cs
    else c :: escapeWith q cs

def quoteString (s : Str) : Str := '\'' :: (escapeWith '\'' s ++ ['\''])

/-- `QuoteIdent(segment)` with a single segment (the only way the printers call it). -/
def quoteIdent (s : Str) : Str :=
  if identNeedsQuotes s || s.isEmpty then '"' :: (escapeWith '"' s ++ ['"']) else escapeWith '"' s

/-! ### numbers -/

/-- a decimal value `± mant / 10^scale`, canonical: `scale = 0` or `mant % 10 ≠ 0`.
`NumberLiteral.Val` is a float64; the model is exact on decimals with at most 15 significant
digits and an integer part below 10^18 (see `Num.inDomain`), where float64 parsing and shortest
formatting are the identity on the canonical decimal. -/
structure Num where
  neg : Bool
  mant : Nat
  scale : Nat
deriving DecidableEq, Repr

def Num.normAux : Nat → Nat → Nat → Nat × Nat
  | 0, m, s => (m, s)
  | fuel + 1, m, s =>
    if s = 0 then (m, s)
    else if m % 10 = 0 then Num.normAux fuel (m / 10) (s - 1) else (m, s)

def Num.mk' (neg : Bool) (mant scale : Nat) : Num :=
  let (m, s) := Num.normAux scale mant scale
  ⟨neg, m, s⟩

def splitDigits : List Char → List Char × List Char
  | [] => ([], [])
  | c :: cs => if isDigit c then let (a, b) := splitDigits cs; (c :: a, b) else ([], c :: cs)

/-- `strconv.ParseFloat` of a NUMBER / INTEGER literal text (`digits`, `digits.digits`, `.digits`). -/
def parseNumText (text : Str) : Num :=
  let (ip, rest) := splitDigits text
  let fp := match rest with
    | '.' :: r => (splitDigits r).1
    | _ => []
  Num.mk' false (digitsVal (ip ++ fp)) fp.length

/-- number of significant decimal digits of the mantissa. -/
def Num.sigDigits (n : Num) : Nat :=
  let ds := natDigits n.mant
  ((ds.reverse.dropWhile (· = '0')).length)

def pow10 : Nat → Nat
  | 0 => 1
  | n + 1 => 10 * pow10 n

/-- the domain on which the decimal model of float64 is exact. -/
def Num.inDomain (n : Num) : Bool :=
  n.sigDigits ≤ 15 && n.mant < pow10 (18 + n.scale) && n.scale ≤ 30

def padLeft (n : Nat) (ds : List Char) : List Char :=
  List.replicate (n - ds.length) '0' ++ ds

/-- `strconv.FormatFloat(v, 'f', -1, 64)` on the domain (and `v ≤ math.MaxInt`). -/
def formatNum (n : Num) : Str :=
  let ds := natDigits n.mant
  let body :=
    if n.scale = 0 then ds
    else
      let p := padLeft (n.scale + 1) ds
      p.take (p.length - n.scale) ++ '.' :: p.drop (p.length - n.scale)
  if n.neg then '-' :: body else body

def Num.isIntegral (n : Num) : Bool := n.scale = 0

/-- `-v`, as float64 negation. -/
def Num.negate (n : Num) : Num := { n with neg := !n.neg }

/-! ### durations (parser.go) -/

def utf8Len (c : Char) : Nat :=
  if c.toNat < 0x80 then 1 else if c.toNat < 0x800 then 2 else if c.toNat < 0x10000 then 3 else 4

def nsMicro : Int := 1000
def nsMilli : Int := 1000000
def nsSecond : Int := 1000000000
def nsMinute : Int := 60000000000
def nsHour : Int := 3600000000000
def nsDay : Int := 86400000000000
def nsWeek : Int := 604800000000000

/-- the parsing loop of `ParseDuration`; `d` is the int64 accumulator. `none` = ErrInvalidDuration. -/
def parseDurLoop : Nat → List Char → Int → Option Int
  | 0, _, _ => none
  | fuel + 1, a, d =>
    match a with
    | [] => some d
    | _ =>
      let (ds, rest) := splitDigits a
      match rest with
      | [] => none
      | u :: rest' =>
        if ds.isEmpty then none
        else
          let n := digitsVal ds
          if (n : Int) > maxInt64 then none
          else
            let add (unit : Int) : Int := wrap64 (d + wrap64 ((n : Int) * unit))
            if u = 'n' then
              match rest' with
              | 's' :: r => parseDurLoop fuel r (add 1)
              | _ => none
            else if u = 'u' || u = 'µ' then parseDurLoop fuel rest' (add nsMicro)
            else if u = 'm' then
              match rest' with
              | 's' :: r => parseDurLoop fuel r (add nsMilli)
              | _ => parseDurLoop fuel rest' (add nsMinute)
            else if u = 's' then parseDurLoop fuel rest' (add nsSecond)
            else if u = 'h' then parseDurLoop fuel rest' (add nsHour)
            else if u = 'd' then parseDurLoop fuel rest' (add nsDay)
            else if u = 'w' then parseDurLoop fuel rest' (add nsWeek)
            else none

/-- `ParseDuration` after the optional sign. -/
def parseDurationAbs (a : Str) (isNeg : Bool) : Option Int :=
  match parseDurLoop (a.length + 1) a 0 with
  | none => none
  | some d =>
    if d < 0 && !isNeg then none
    else some (if isNeg then wrap64 (-d) else d)

/-- `ParseDuration(s)`; `none` for every error return. -/
def parseDuration (s : Str) : Option Int :=
  if (s.map utf8Len).sum < 2 then none
  else
    match s with
    | '-' :: r => parseDurationAbs r true
    | _ => parseDurationAbs s false

/-- `FormatDuration(d)` for `d ≥ 0` (after the ns fallback fix). -/
def formatDurAbs (d : Nat) : Str :=
  if d = 0 then ['0', 's']
  else if d % 604800000000000 = 0 then natDigits (d / 604800000000000) ++ ['w']
  else if d % 86400000000000 = 0 then natDigits (d / 86400000000000) ++ ['d']
  else if d % 3600000000000 = 0 then natDigits (d / 3600000000000) ++ ['h']
  else if d % 60000000000 = 0 then natDigits (d / 60000000000) ++ ['m']
  else if d % 1000000000 = 0 then natDigits (d / 1000000000) ++ ['s']
  else if d % 1000000 = 0 then natDigits (d / 1000000) ++ ['m', 's']
  else if d % 1000 = 0 then natDigits (d / 1000) ++ ['u']
  else natDigits d ++ ['n', 's']

/-- `FormatDuration(d)`: Go's `%` and `/` truncate toward zero, so a negative duration prints as
`-` followed by the text of its absolute value. -/
def formatDuration (d : Int) : Str :=
  if d < 0 then '-' :: formatDurAbs d.natAbs else formatDurAbs d.natAbs

/-! ### scanner -/

/-- scanner state that outlives one `Scan`: the previous non-WS token and `checkDOT`. -/
structure ScanSt where
  pre : Option Tok := none
  checkDot : Bool := false
deriving Repr

def takeWhileC (p : Char → Bool) : List Char → List Char × List Char
  | [] => ([], [])
  | c :: cs => if p c then let (a, b) := takeWhileC p cs; (c :: a, b) else ([], c :: cs)

/-- `Scanner.ScanString` after the opening quote `q` has been read; `esc` = the previous
character was a backslash. -/
def scanStringBody (q : Char) : List Char → Bool → Str → Except (BadKind × Str) (Str × List Char)
  | [], esc, acc =>
    if esc then .error (.badescape, ['\\', Char.ofNat 0]) else .error (.badstring, acc.reverse)
  | c :: cs, esc, acc =>
    if esc then
      if c = 'n' then scanStringBody q cs false ('\n' :: acc)
      else if c = '\\' then scanStringBody q cs false ('\\' :: acc)
      else if c = '"' then scanStringBody q cs false ('"' :: acc)
      else if c = '\'' then scanStringBody q cs false ('\'' :: acc)
      else .error (.badescape, ['\\', c])
    else if c = q then .ok (acc.reverse, cs)
    else if c = '\n' then .error (.badstring, acc.reverse)
    else if c = '\\' then scanStringBody q cs true acc
    else scanStringBody q cs false (c :: acc)

/-- `Scanner.scanString` with the opening quote at the head of the input. -/
def scanString (cs : List Char) : Tok × List Char :=
  match cs with
  | q :: rest =>
    match scanStringBody q rest false [] with
    | .ok (s, r) => (.str s, r)
    | .error (k, l) => (.bad k l, [])   -- the parsers stop at a bad token; the rest is irrelevant
  | [] => (.bad .badstring [], [])

/-- `Scanner.ScanBareIdent`: identifier characters, and dots unless `checkDOT`. -/
def scanBareIdent (checkDot : Bool) : List Char → Str × List Char
  | [] => ([], [])
  | c :: cs =>
    if (!checkDot && c = '.') || isIdentChar c then
      let (a, b) := scanBareIdent checkDot cs
      (c :: a, b)
    else ([], c :: cs)

/-- `Scanner.scanIdent(lookup)`. The Go loop reads a bare run, and a `"` after it starts a quoted
identifier that *replaces* what was read so far. -/
def scanIdent (lookup : Bool) (checkDot : Bool) (cs : List Char) : Tok × List Char :=
  let (buf, rest) :=
    match cs with
    | c :: _ => if isIdentChar c then scanBareIdent checkDot cs else ([], cs)
    | [] => ([], cs)
  match rest with
  | '"' :: _ =>
    match scanString rest with
    | (.str s, r) => (.ident s, r)
    | other => other
  | _ =>
    if lookup then
      match lookupKw buf with
      | some k => (.kw k, rest)
      | none => (.ident buf, rest)
    else (.ident buf, rest)

/-- `Scanner.scanNumber`; the input starts at the first digit or at the `.`. -/
def scanNumber (cs : List Char) : Tok × List Char :=
  let (ip, r1) := splitDigits cs
  match r1 with
  | '.' :: r2 =>
    -- isDecimal: the dot is consumed even when no digit follows
    match r2 with
    | c :: _ =>
      if isDigit c then
        let (fp, r3) := splitDigits r2
        (.num (ip ++ '.' :: fp), r3)
      else (.num ip, r2)
    | [] => (.num ip, r2)
  | c :: _ =>
    if isLetter c || c = 'µ' then
      let (u1, r2) := takeWhileC (fun ch => isLetter ch || ch = 'µ') r1
      let (u2, r3) := takeWhileC (fun ch => isLetter ch || ch = 'µ' || isDigit ch) r2
      (.dur (ip ++ u1 ++ u2), r3)
    else (.int ip, r1)
  | [] => (.int ip, r1)

/-- `skipUntilEndComment`: `none` when the input ends first. -/
def skipComment : List Char → Str → Option (Str × List Char)
  | [], _ => none
  | '*' :: cs, acc => skipStar cs acc
  | c :: cs, acc => skipComment cs (c :: acc)
where
  /-- after a `*` (label `star:` of the Go loop). A `*` followed by anything else is dropped
  together with that character, as in the Go code. -/
  skipStar : List Char → Str → Option (Str × List Char)
    | [], _ => none
    | '/' :: cs, acc => some (acc.reverse, cs)
    | '*' :: cs, acc => skipStar cs acc
    | _ :: cs, acc => skipComment cs acc

/-- `skipUntilEndRegex`: raw text up to the first `/` not preceded by a backslash. -/
def skipRegex : List Char → Bool → Str → Option (Str × List Char)
  | [], _, _ => none
  | c :: cs, skip, acc =>
    if c = '/' && skip then some (acc.reverse, cs)
    else skipRegex cs (c != '\\') (c :: acc)

def skipLine : List Char → List Char
  | [] => []
  | c :: cs => if c = '\n' then cs else skipLine cs

/-- does `/` mean division after this previous token? (`Scanner.Scan`, case '/') -/
def divAfter : Option Tok → Bool
  | none => true
  | some (.bad .illegal _) => true      -- ILLEGAL is token 0 as well
  | some (.sym .rparen) => true
  | some (.ident _) => true
  | some (.kw .DURATION) => true
  | some (.int _) => true
  | some (.num _) => true
  | _ => false

/-- one `Scanner.Scan()` without the deferred state update. -/
def scanRaw (st : ScanSt) (cs : List Char) : Tok × List Char :=
  match cs with
  | [] => (.eof, [])
  | c :: rest =>
    if isWhitespace c then (.ws, (takeWhileC isWhitespace rest).2)
    else if isLetter c || c = '_' then scanIdent true st.checkDot cs
    else if isDigit c then scanNumber cs
    else if c = '"' then scanIdent true st.checkDot cs
    else if c = '\'' then scanString cs
    else if c = '.' then
      match rest with
      | d :: _ => if isDigit d then scanNumber cs else (.sym .dot, rest)
      | [] => (.sym .dot, rest)
    else if c = '$' then
      match scanIdent false st.checkDot rest with
      | (.ident l, r) => (.boundparam ('$' :: l), r)
      | (t, r) => (t, r)
    else if c = '+' then (.sym .add, rest)
    else if c = '-' then
      match rest with
      | '-' :: r => (.comment, skipLine r)
      | _ => (.sym .sub, rest)
    else if c = '*' then
      match rest with
      | '.' :: '.' :: r => (.sym .multihop, r)
      | _ => (.sym .mul, rest)
    else if c = '/' then
      match rest with
      | '*' :: r =>
        match skipComment r [] with
        | none => (.bad .illegal [], [])
        | some (comm, r') =>
          match comm with
          | '+' :: _ :: _ => (.hint, r')
          | _ => (.comment, r')
      | _ =>
        if divAfter st.pre then (.sym .div, rest)
        else
          match skipRegex rest true [] with
          | none => (.bad .illegal [], [])
          | some (re, r') => (.regex re, r')
    else if c = '%' then (.sym .mod, rest)
    else if c = '&' then (.sym .bitand, rest)
    else if c = '|' then (.sym .bitor, rest)
    else if c = '^' then (.sym .bitxor, rest)
    else if c = '=' then
      match rest with
      | '~' :: r => (.sym .eqregex, r)
      | _ => (.sym .eq, rest)
    else if c = '!' then
      match rest with
      | '=' :: r => (.sym .neq, r)
      | '~' :: r => (.sym .neqregex, r)
      | _ => (.bad .illegal ['!'], rest)
    else if c = '>' then
      match rest with
      | '=' :: r => (.sym .gte, r)
      | _ => (.sym .gt, rest)
    else if c = '<' then
      match rest with
      | '=' :: r => (.sym .lte, r)
      | '>' :: r => (.sym .neq, r)
      | _ => (.sym .lt, rest)
    else if c = '(' then (.sym .lparen, rest)
    else if c = ')' then (.sym .rparen, rest)
    else if c = ',' then (.sym .comma, rest)
    else if c = ';' then (.sym .semicolon, rest)
    else if c = ':' then
      match rest with
      | ':' :: r => (.sym .dcolon, r)
      | _ => (.sym .colon, rest)
    else if c = '{' then (.sym .lbracket, rest)
    else if c = '}' then (.sym .rbracket, rest)
    else if c = '[' then (.sym .lsquare, rest)
    else if c = ']' then (.sym .rsquare, rest)
    else (.bad .illegal [c], rest)

/-- the deferred function of `Scan`: remember the token, maintain `checkDOT`. -/
def ScanSt.after (st : ScanSt) (t : Tok) : ScanSt :=
  let pre := if t = .ws then st.pre else some t
  let cd := match t with
    | .kw k => if kwCheckDot.contains k then true else if k = .AND || k = .OR then st.checkDot else false
    | _ => st.checkDot
  ⟨pre, cd⟩

/-- `ScanDelimited(r, '/', '/', {'/': '/'}, true)` after the opening slash: `\/` is a slash, any
other backslash stays, a newline or the end of input is an error. `esc` = the previous
character was a backslash that has not been written yet. -/
def scanDelimited : List Char → Bool → Str → Option (Str × List Char)
  | [], _, _ => none
  | c :: cs, esc, acc =>
    if esc && c = '/' then scanDelimited cs false ('/' :: acc)
    else
      let acc := if esc then '\\' :: acc else acc
      if c = '/' then some (acc.reverse, cs)
      else if c = '\n' then none
      else if c = '\\' then scanDelimited cs true acc
      else scanDelimited cs false (c :: acc)

/-- `RegexLiteral.RenderBytes`: every `/` becomes `\/`. -/
def escapeSlashes : Str → Str
  | [] => []
  | c :: cs => if c = '/' then '\\' :: '/' :: escapeSlashes cs else c :: escapeSlashes cs

end OG.C12
