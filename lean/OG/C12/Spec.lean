/-
C12 — decidable predicates on expression trees used by the theorems (core only).

`PECanon e`     the tree is what `ParseExpr`'s insertion loop builds from its own printout:
                a left child binds at least as tightly as its parent, a right child strictly
                tighter (per the regenerated `Precedence()` table).
`AtomsOK e`     every literal of the tree is re-read as itself from its printed tokens.
The defect classes of the property are exactly the ways a tree of the statement grammar fails
one of the two (see Props.lean).
-/
import OG.C12.Model

namespace OG.C12
open OG.Gen.C12

def isRegexOp (op : Op) : Bool := op = .eqregex || op = .neqregex
def isInOp (op : Op) : Bool := op = .inOp || op = .notin

def leftOK (p : Nat) : Expr → Bool
  | .binary o _ _ => decide (pePrec o ≥ p)
  | _ => true

def rightOK (p : Nat) : Expr → Bool
  | .binary o _ _ => decide (pePrec o > p)
  | _ => true

mutual
def PECanon : Expr → Bool
  | .binary op l r => leftOK (pePrec op) l && rightOK (pePrec op) r && PECanon l && PECanon r
  | .paren e => PECanon e
  | .call _ args => PECanonArgs args
  | _ => true
def PECanonArgs : Args → Bool
  | .nil => true
  | .cons e r => PECanon e && PECanonArgs r
end

/-- the leftmost operand of an operator chain. -/
def firstAtom : Expr → Expr
  | .binary _ l _ => firstAtom l
  | e => e

def Expr.isRegex : Expr → Bool
  | .regex _ => true
  | _ => false

def Expr.isSet : Expr → Bool
  | .set _ => true
  | _ => false

def Expr.isBinary : Expr → Bool
  | .binary _ _ _ => true
  | _ => false

/-- number of binary operators outside parentheses and calls. -/
def nops : Expr → Nat
  | .binary _ l r => nops l + 1 + nops r
  | _ => 0

/-- every operator of the chain binds at least as tightly as `q`. -/
def spineGe (q : Nat) : Expr → Bool
  | .binary o l r => decide (pePrec o ≥ q) && spineGe q l && spineGe q r
  | _ => true

def isInfNan (name : Str) : Bool :=
  lower name = ['i', 'n', 'f'] || lower name = ['n', 'a', 'n']

/-- `::type` is read back as the same type by `ParseVarRef`. -/
def typeRT (ty : DataType) : Bool :=
  match typeToks ty with
  | [] => ty = .unknown
  | [.sym .dcolon, tt] => peTypeOfTok tt = some ty
  | _ => false

/-- a non-integral, canonical decimal: its text is a NUMBER that reads back as itself. -/
def numRT (n : Num) : Bool :=
  n.scale != 0 && parseNumText (formatNum { n with neg := false }) = { n with neg := false }

/-- the key set `parseSet` builds from a token list (without the closing parenthesis). -/
def setFold : List Tok → Bool → List SetVal → List SetVal
  | [], _, vals => vals
  | t :: ts, neg, vals => setFold ts (t = .sym .sub) (setStep t neg vals)

/-- the members are re-inserted, in printing order, into the same set. -/
def setRT (vals : List SetVal) : Bool :=
  setFold (printSetVals vals) false [] = vals

def sortedB : List SetVal → Bool
  | [] => true
  | x :: xs => xs.all (fun y => x.lt y) && sortedB xs

def valCanon : SetVal → Bool
  | .num n => n.scale = 0 || n.mant % 10 != 0
  | .str _ => true

/-- a key set as the model builds it: sorted by value, canonical decimals. -/
def setCanon (vals : List SetVal) : Bool := sortedB vals && vals.all valCanon

/-- the regex in front of an expression (if it starts with one) is re-read as itself in the
position the expression stands in. `ctx`: `ScanRegex` position (`=~`, `!~`, call argument). -/
def regexFirstOK (ctx : Bool) (e : Expr) : Bool :=
  match firstAtom e with
  | .regex s => if ctx then regexTokDelimited s = .regex s else regexTokRaw s = .regex s
  | _ => true

/-- a SetLiteral stands only to the right of IN / NOT IN. -/
def noSetFirst (e : Expr) : Bool :=
  match firstAtom e with
  | .set _ => false
  | _ => true

/-- a call argument that starts with a regex is just that regex (`parseCall` continues with the
next argument right after it). -/
def argRegexOK (e : Expr) : Bool :=
  match firstAtom e with
  | .regex _ => (match e with | .regex _ => true | _ => false)
  | _ => true

mutual
def AtomsOK : Expr → Bool
  | .varRef name ty => !isInfNan name && typeRT ty
  | .str _ => true
  | .int v => decide (minInt64 ≤ v) && decide (v ≤ maxInt64)
  | .uns _ => false
  | .num n => numRT n
  | .numInf => false
  | .numNegInf => false
  | .numNaN => false
  | .bool _ => true
  | .dur d => decide (0 ≤ d) && decide (d ≤ maxInt64)
  | .regex _ => true
  | .wildcard _ => true
  | .set vals => setRT vals
  | .call name args =>
    (callNameTok name = .ident name) && !isInfNan name && (lower name = name) && AtomsOKArgs args
  | .paren e => AtomsOK e && regexFirstOK false e && noSetFirst e
  | .binary op l r =>
    AtomsOK l && AtomsOK r && isOperator op
      && (op != .div || (divAfter (printCtx false l).getLast? && divAfter (printCtx true l).getLast?))
      && (if isRegexOp op then (firstAtom r).isRegex && regexFirstOK true r
          else if isInOp op then r.isSet
          else regexFirstOK false r && noSetFirst r)
      && noSetFirst l
def AtomsOKArgs : Args → Bool
  | .nil => true
  | .cons e r => AtomsOK e && regexFirstOK true e && argRegexOK e && noSetFirst e && AtomsOKArgs r
end

mutual
/-- fuel that is enough for everything the parser does on the printout of `e`. -/
def weight : Expr → Nat
  | .call _ args => weightArgs args + 6
  | .paren e => weight e + 6
  | .binary _ l r => weight l + weight r + 4
  | .set vals => 4 * (printSetVals vals).length + 14
  | _ => 6
def weightArgs : Args → Nat
  | .nil => 4
  | .cons e r => weight e + 6 + weightArgs r
end

end OG.C12
