/-
C12 — line-protocol driver of the model (core only). One op per line, payloads are hex of UTF-8.

  expr <hex>    statement text after `… WHERE `:  `reject`
                | `t1 <tree> | pr <hex>|- | t2 <tree>|err`      (yacc tree, String(), ParseExpr tree)
                | `unmodelled` (a float outside the decimal domain; the harness never sends one)
  xexpr <hex>   → `skip` (spec-only case of the harness)
  lex <hex>     tokens of Scanner.Scan from the initial state
  qs/qi <hex>   QuoteString / QuoteIdent     inq <hex>  IdentNeedsQuotes
  fd <int>      FormatDuration               pd <hex>   ParseDuration
  codec …       → `ok` (Marshal→Unmarshal equality is decided by the harness; the spec is "equal")
  opts … / wiredesc <Msg>   the options codec model (WireDriver.lean)
-/
import OG.C12.Good
import OG.C12.WireDriver
import OG.C12.Stmt
import OG.C12.Rewrite

namespace OG.C12
open OG.Gen.C12

def hexDigit (n : Nat) : Char := if n < 10 then Char.ofNat (48 + n) else Char.ofNat (87 + n)

def hexOfStr (s : Str) : String :=
  let bytes := (String.ofList s).toUTF8
  String.ofList (bytes.toList.flatMap fun b => [hexDigit (b.toNat / 16), hexDigit (b.toNat % 16)])

def hexVal (c : Char) : Option Nat :=
  if '0' ≤ c && c ≤ '9' then some (c.toNat - 48)
  else if 'a' ≤ c && c ≤ 'f' then some (c.toNat - 87)
  else none

def unhexBytes : List Char → Option (List UInt8)
  | [] => some []
  | a :: b :: rest => do
    let x ← hexVal a
    let y ← hexVal b
    let r ← unhexBytes rest
    some (UInt8.ofNat (x * 16 + y) :: r)
  | _ => none

def unhex (h : String) : Option Str := do
  let bs ← unhexBytes h.toList
  let s ← String.fromUTF8? (ByteArray.mk bs.toArray)
  some s.toList

def str (s : Str) : String := String.ofList s

def dumpSetVal : SetVal → String
  | .num n => if n.mant = 0 then "n0" else "n" ++ str (formatNum n)
  | .str s => "s" ++ hexOfStr s

mutual
def dump : Expr → String
  | .varRef name ty => "V" ++ hexOfStr name ++ ":" ++ str (typeText ty)
  | .str s => "S" ++ hexOfStr s
  | .int v => "I" ++ toString v
  | .uns v => "U" ++ toString v
  | .num n => "N" ++ str (formatNum n)
  | .numInf => "N+Inf"
  | .numNegInf => "N-Inf"
  | .numNaN => "NNaN"
  | .bool b => if b then "Bt" else "Bf"
  | .dur d => "D" ++ toString d
  | .regex s => "R" ++ hexOfStr s
  | .wildcard .none => "W"
  | .wildcard .field => "Wf"
  | .wildcard .tag => "Wt"
  | .set vals => "T[" ++ ",".intercalate (vals.map dumpSetVal) ++ "]"
  | .call name args => "C" ++ hexOfStr name ++ "(" ++ dumpArgs args ++ ")"
  | .paren e => "P(" ++ dump e ++ ")"
  | .binary op l r => "(" ++ str (opText op) ++ " " ++ dump l ++ " " ++ dump r ++ ")"
def dumpArgs : Args → String
  | .nil => ""
  | .cons e .nil => dump e
  | .cons e rest => dump e ++ "," ++ dumpArgs rest
end

mutual
/-- every float in the tree is inside the decimal domain; set members are exact in float64. -/
def inDomain : Expr → Bool
  | .num n => n.inDomain
  | .set vals => vals.all fun
    | .num n => n.inDomain
    | .str _ => true
  | .call _ args => argsInDomain args
  | .paren e => inDomain e
  | .binary _ l r => inDomain l && inDomain r
  | _ => true
def argsInDomain : Args → Bool
  | .nil => true
  | .cons e r => inDomain e && argsInDomain r
end

mutual
def hasBigSet : Expr → Bool
  | .set vals => vals.length ≥ 2
  | .call _ args => argsHaveBigSet args
  | .paren e => hasBigSet e
  | .binary _ l r => hasBigSet l || hasBigSet r
  | _ => false
def argsHaveBigSet : Args → Bool
  | .nil => false
  | .cons e r => hasBigSet e || argsHaveBigSet r
end

def numToksInDomain (toks : List Tok) : Bool :=
  toks.all fun
    | .num text => (parseNumText text).inDomain
    | _ => true

def showTok : Tok → String
  | .ws => "WS" | .comment => "COMMENT" | .hint => "HINT" | .eof => "EOF"
  | .ident s => "IDENT:" ++ hexOfStr s
  | .str s => "STRING:" ++ hexOfStr s
  | .int s => "INTEGER:" ++ hexOfStr s
  | .num s => "NUMBER:" ++ hexOfStr s
  | .dur s => "DURATIONVAL:" ++ hexOfStr s
  | .regex s => "REGEX:" ++ hexOfStr s
  | .boundparam s => "BOUNDPARAM:" ++ hexOfStr s
  | .kw k => "KW:" ++ str (kwText k)
  | .sym s => "SYM:" ++ (match s with
    | .add => "+" | .sub => "-" | .mul => "*" | .div => "/" | .mod => "%" | .bitand => "&"
    | .bitor => "|" | .bitxor => "^" | .eq => "=" | .neq => "!=" | .lt => "<" | .lte => "<="
    | .gt => ">" | .gte => ">=" | .eqregex => "=~" | .neqregex => "!~" | .lparen => "("
    | .rparen => ")" | .comma => "," | .semicolon => ";" | .colon => ":" | .dcolon => "::"
    | .dot => "." | .lbracket => "{" | .rbracket => "}" | .lsquare => "[" | .rsquare => "]"
    | .multihop => "*..")
  | .bad .illegal l => "ILLEGAL:" ++ hexOfStr l
  | .bad .badstring _ => "BADSTRING"
  | .bad .badescape _ => "BADESCAPE"
  | .bad .badregex _ => "BADREGEX"

/-- all tokens up to EOF (or the first bad token, where the Go side stops as well). -/
def lexAll : Nat → ScanSt → List Char → List String → List String
  | 0, _, _, acc => acc.reverse
  | f + 1, st, cs, acc =>
    let (t, rest) := scanRaw st cs
    match t with
    | .eof => acc.reverse
    | .bad _ _ => (showTok t :: acc).reverse
    | _ => lexAll f (st.after t) rest (showTok t :: acc)

def hasBadTok (toks : List Tok) : Bool :=
  toks.any fun
    | .bad _ _ => true
    | _ => false

def exprAnswer (text : Str) : String :=
  match yaccLex (normInput text) with
  | none => "reject"
  | some toks =>
    match yaccParse toks with
    | none => "reject"
    | some e =>
      if !numToksInDomain toks || !inDomain e then "unmodelled"
      else
        let printed := render e
        let t2c := parseExprChars printed
        let ptoks := print e
        let t2t := parseExpr ptoks
        let t2 := match t2c with
          | some e2 => dump e2
          | none => "err"
        let pr := if hasBigSet e then "-" else hexOfStr printed
        -- the token-level parser (the one the theorems are about) must agree with the
        -- character-level one, except where `print` marks text that does not scan back (`bad`)
        let consistent := t2c = t2t || (t2t.isNone && hasBadTok ptoks)
        let incons := if consistent then "" else " | MODEL-INCONSISTENT token-level parse differs"
        -- every tree of the grammar model has the shape the property theorem assumes (`YaccOut`)
        let incons := if YaccOut e then incons else incons ++ " | MODEL-INCONSISTENT YaccOut fails"
        -- the fact the property theorem takes as a hypothesis without proof
        let incons := if DursInRange e then incons
          else incons ++ " | MODEL-INCONSISTENT DursInRange fails"
        "t1 " ++ dump e ++ " | pr " ++ pr ++ " | t2 " ++ t2 ++ incons

/-- the condition a statement text `… WHERE <text>` is planned as -/
def condOf (text : Str) : Option Expr :=
  match yaccLex (normInput text) with
  | none => none
  | some toks => yaccParse toks

def dumpFields (fs : List SField) : String :=
  "F[" ++ ";".intercalate (fs.map fun f => dump f.1 ++ "@" ++ hexOfStr f.2) ++ "]"

/-- `fields <hex>`: the field list of `SELECT <text> FROM m` as planned, `Fields.String()`, and what
`hybridqp.ParseFields` makes of that text. -/
def fieldsAnswer (text : Str) : String :=
  match yaccLexFields (normInput text) with
  | none => "reject"
  | some toks =>
    match yaccFields toks with
    | none => "reject"
    | some fs =>
      if !numToksInDomain toks || !(fs.all fun f => inDomain f.1) then "unmodelled"
      else
        let printed := renderFields fs
        let f2c := parseFieldsChars printed
        let ptoks := printFields fs ++ [.kw .FROM, .ident "mock".toList]
        let f2t := parseFieldsToks ptoks
        let f2 := match f2c with
          | some l => dumpFields l
          | none => "err"
        let pr := if fs.any (fun f => hasBigSet f.1) then "-" else hexOfStr printed
        let consistent := f2c = f2t || (f2t.isNone && hasBadTok ptoks)
        let incons := if consistent then "" else " | MODEL-INCONSISTENT token-level parse differs"
        "f1 " ++ dumpFields fs ++ " | pr " ++ pr ++ " | f2 " ++ f2 ++ incons

def parseSortArg (s : String) : Option (Str × Bool) :=
  match s.splitOn "," with
  | [h, a] => do
    let n ← unhex h
    let b ← (if a = "t" then some true else if a = "f" then some false else none)
    some (n, b)
  | _ => none

def showSorts (l : List (Str × Bool)) : String :=
  ":".intercalate (l.map fun f => hexOfStr f.1 ++ "," ++ (if f.2 then "t" else "f"))

/-- `sorts <hex>,<t|f>:…` — `SortFields.String()` and `ParseSortFields` of it. -/
def sortsAnswer (arg : String) : String :=
  match (arg.splitOn ":").mapM parseSortArg with
  | none => "bad-op"
  | some l =>
    let printed := Wire.renderSorts l
    let s2 := match Wire.parseSortFieldsChars printed with
      | some r => showSorts r
      | none => "err"
    "pr " ++ hexOfStr printed ++ " | s2 " ++ s2

/-- `cexpr <hex>`: the condition as planned, what `ConditionExpr` makes of it (time comparisons taken
out), its `String()` and what the store re-parses. -/
def cexprAnswer (text : Str) : String :=
  match yaccLex (normInput text) with
  | none => "reject"
  | some toks =>
    match yaccParse toks with
    | none => "reject"
    | some e =>
      if !numToksInDomain toks || !inDomain e then "unmodelled"
      else
        match conditionExprM e with
        | .unmodelled => "unmodelled"
        | .err => "t1 " ++ dump e ++ " | r err"
        | .gone => "t1 " ++ dump e ++ " | r nil"
        | .keep e' =>
          let printed := render e'
          let t2 := match parseExprChars printed with
            | some e2 => dump e2
            | none => "err"
          let pr := if hasBigSet e' then "-" else hexOfStr printed
          "t1 " ++ dump e ++ " | r " ++ dump e' ++ " | pr " ++ pr ++ " | t2 " ++ t2

def step (line : String) : String :=
  match (line.trimAscii.toString.splitOn " ").filter (· ≠ "") with
  | ["expr", h] =>
    match unhex h with
    | some text => exprAnswer text
    | none => "bad-op"
  | ["expr"] => exprAnswer []
  | "xexpr" :: _ => "skip"
  | "xfields" :: _ => "skip"
  | "xsource" :: _ => "skip"
  | "xstmt" :: _ => "skip"
  | "xpool" :: _ => "skip"
  | ["fields", h] =>
    match unhex h with
    | some text => fieldsAnswer text
    | none => "bad-op"
  | ["sorts", a] => sortsAnswer a
  | ["cexpr", h] =>
    match unhex h with
    | some text => cexprAnswer text
    | none => "bad-op"
  | "xcexpr" :: _ => "skip"
  | "xprep" :: _ => "skip"
  | ["pe", h] =>
    match unhex h with
    | some text =>
      (match parseExprChars text with
       | some e => "t " ++ dump e
       | none => "err")
    | none => "bad-op"
  | "codec" :: _ => "ok"
  | "opts" :: args => Wire.optsAnswer dump condOf args
  | ["wiredesc", m] => Wire.wiredescAnswer m
  | ["judged", f] => Wire.judgedAnswer f
  | ["lex", h] =>
    match unhex h with
    | some text =>
      let cs := normInput text
      " ".intercalate ("toks" :: lexAll (cs.length + 2) {} cs [])
    | none => "bad-op"
  | ["lex"] => "toks"
  | ["qs", h] => match unhex h with | some s => "q " ++ hexOfStr (quoteString s) | none => "bad-op"
  | ["qs"] => "q " ++ hexOfStr (quoteString [])
  | ["qi", h] => match unhex h with | some s => "q " ++ hexOfStr (quoteIdent s) | none => "bad-op"
  | ["qi"] => "q " ++ hexOfStr (quoteIdent [])
  | ["inq", h] => match unhex h with | some s => (if identNeedsQuotes s then "t" else "f") | none => "bad-op"
  | ["inq"] => if identNeedsQuotes [] then "t" else "f"
  | ["fd", d] =>
    match d.toInt? with
    | some v => if minInt64 < v && v ≤ maxInt64 then "d " ++ str (formatDuration v) else "bad-op"
    | none => "bad-op"
  | ["pd", h] =>
    match unhex h with
    | some s => (match parseDuration s with | some d => "D" ++ toString d | none => "err")
    | none => "bad-op"
  | _ => "bad-op"

partial def loop (h : IO.FS.Stream) (out : IO.FS.Stream) : IO Unit := do
  let line ← h.getLine
  if line.isEmpty then return ()
  out.putStrLn (step line)
  loop h out

def main : IO Unit := do
  loop (← IO.getStdin) (← IO.getStdout)

end OG.C12

def main : IO Unit := OG.C12.main
