/-
C12 — what the store re-parses besides conditions (core only): the field list of the query schema.

`DecodeQuerySchema` hands `QueryFields` (= `Fields.String()` of the planned statement) to
`hybridqp.ParseFields`, which parses `SELECT <text> FROM mock` with the hand-written statement parser:
`parseSelectStatement` → `parseFields` → `parseField` (a regex literal, or `ParseExpr` followed by
`validateField`) → `parseAlias`. Written over the abstract token source of Model.lean, like `ParseExpr`.
The planned side is the COLUMN_CLAUSES nonterminal of the statement grammar (`yClauses`).
-/
import OG.C12.Model

namespace OG.C12
open OG.Gen.C12

/-- a field of a SELECT list: expression and alias ("" = none) -/
abbrev SField := Expr × Str

mutual
/-- `validateField`: a BinaryExpr with =~, !~, AND or OR anywhere below the field. -/
def hasCondOp : Expr → Bool
  | .binary op l r => op = .eqregex || op = .neqregex || op = .and || op = .or || hasCondOp l || hasCondOp r
  | .paren e => hasCondOp e
  | .call _ args => argsHaveCondOp args
  | _ => false
def argsHaveCondOp : Args → Bool
  | .nil => false
  | .cons e r => hasCondOp e || argsHaveCondOp r
end

/-! ### printing -/

def renderField (f : SField) : Str :=
  render f.1 ++ (if f.2 = [] then [] else " AS ".toList ++ quoteIdent f.2)

def renderFields : List SField → Str
  | [] => []
  | [f] => renderField f
  | f :: rest => renderField f ++ ',' :: ' ' :: renderFields rest

/-! ### `parseFields` -/

variable {σ : Type}

/-- `parseAlias` (and the white space after it): `AS identifier`, or nothing. -/
def peAlias (S : Src σ) (g : Nat) (e : Expr) (s2 : σ) : Option (SField × σ) :=
  match scanNW S g s2 with
  | some (.kw .AS, _, s3) =>
    match scanNW S g s3 with
    | some (.ident a, _, s4) => some ((e, a), s4)
    | _ => none
  | some (_, before, _) => some ((e, []), before)
  | none => none

/-- `parseField` + `parseAlias`; `g` is the fuel of the expression parser. -/
def peField (S : Src σ) (g : Nat) (s : σ) : Option (SField × σ) :=
  let body : Option (Expr × σ) :=
    match S.regexAhead s with
    | .err => none
    | .ok re s1 => some (.regex re, s1)
    | .notRegex s1 =>
      match peExpr S g s1 with
      | some (e, s2) => if hasCondOp e then none else some (e, s2)
      | none => none
  match body with
  | none => none
  | some (e, s2) => peAlias S g e s2

/-- the loop of `parseFields`: fields separated by commas. -/
def peFieldsLoop (S : Src σ) (g : Nat) : Nat → List SField → σ → Option (List SField × σ)
  | 0, _, _ => none
  | n + 1, acc, s =>
    match peField S g s with
    | none => none
    | some (fd, s1) =>
      match scanNW S g s1 with
      | some (.sym .comma, _, s2) => peFieldsLoop S g n (acc ++ [fd]) s2
      | some (_, before, _) => some (acc ++ [fd], before)
      | none => none

/-- `parseSelectStatement` on `<fields> FROM <one identifier>` (the text `hybridqp.ParseFields` builds):
the fields, no INTO, FROM, one measurement, the end of the text. -/
def peSelectFields (S : Src σ) (g n : Nat) (s : σ) : Option (List SField) :=
  match peFieldsLoop S g n [] s with
  | none => none
  | some (fs, s1) =>
    match scanNW S g s1 with
    | some (.kw .FROM, _, s2) =>
      match scanNW S g s2 with
      | some (.ident _, _, s3) =>
        match scanNW S g s3 with
        | some (.eof, _, _) => some fs
        | _ => none
      | _ => none
    | _ => none

def fromMock : Str := " FROM mock".toList

/-- `hybridqp.ParseFields(text)` (the scanner has just read SELECT). -/
def parseFieldsChars (text : Str) : Option (List SField) :=
  if text = [] then some []
  else
    let cs := normInput (' ' :: text ++ fromMock)
    peSelectFields charSrc (16 * cs.length + 16) (cs.length + 2) ⟨⟨some (.kw .SELECT), false⟩, cs⟩

def parseFieldsToks (toks : List Tok) : Option (List SField) :=
  peSelectFields tokSrc (16 * toks.length + 16) (toks.length + 2) toks

/-! ### the planned side: COLUMN_CLAUSES -/

/-- the tokens of a field list as `YyParser.Lex` delivers them (the scanner has just read SELECT). -/
def yaccLexFields (cs : List Char) : Option (List Tok) :=
  yaccLexLoop (cs.length + 2) ⟨some (.kw .SELECT), false⟩ cs []

/-- the field list the statement grammar builds: every token is used. -/
def yaccFields (toks : List Tok) : Option (List SField) :=
  match yClauses (8 * toks.length + 16) toks with
  | some (cl, []) => some (cl.map fun c => (c.1, c.2.getD []))
  | _ => none

/-- the token stream of a printed field list -/
def printField (f : SField) : List Tok :=
  printCtx true f.1 ++ (if f.2 = [] then [] else [.kw .AS, .ident f.2])

def printFields : List SField → List Tok
  | [] => []
  | [f] => printField f
  | f :: rest => printField f ++ .sym .comma :: printFields rest

end OG.C12
