/-
C12 — `ParseExpr` on the token stream of a printed tree: helper facts about the token source,
then, by structural recursion over the tree, "a canonical tree with well-behaved literals is
read back as itself". Core Lean only.
-/
import OG.C12.Insert
import OG.C12.LitLemmas

namespace OG.C12
open OG.Gen.C12

/-! ### the token source -/

@[simp] theorem tokSrc_scan (ts : List Tok) : tokSrc.scan ts = tokScan ts := rfl
@[simp] theorem tokSrc_regexAhead (ts : List Tok) : tokSrc.regexAhead ts = tokRegexAhead ts := rfl
@[simp] theorem tokSrc_peek (ts : List Tok) : tokSrc.peekAfterDot ts = tokPeekAfterDot ts := rfl

theorem scanNW_cons (f : Nat) (t : Tok) (ts : List Tok) (h1 : t ≠ .ws) (h2 : t ≠ .comment) :
    scanNW tokSrc (f + 1) (t :: ts) = some (t, t :: ts, ts) := by
  simp [scanNW, tokScan, h1, h2]

theorem scanNW_nil (f : Nat) : scanNW tokSrc (f + 1) ([] : List Tok) = some (.eof, [], []) := by
  simp [scanNW, tokScan]

/-- what may follow an expression: the end, `)`, `,`, or a keyword that is no operator (AS, FROM, …). -/
def EndFollow (X : List Tok) : Prop :=
  X = [] ∨ (∃ ts, X = .sym .rparen :: ts) ∨ (∃ ts, X = .sym .comma :: ts) ∨
  (∃ k ts, X = .kw k :: ts ∧ tokToOp (.kw k) = none)

/-- what may follow an operand without being taken for a part of it: not `(`, `::`, `.`. -/
def SafeFollow : List Tok → Prop
  | [] => True
  | t :: _ => t ≠ .sym .lparen ∧ t ≠ .sym .dcolon ∧ t ≠ .sym .dot

theorem SafeFollow_of_End (X : List Tok) (h : EndFollow X) : SafeFollow X := by
  rcases h with rfl | ⟨ts, rfl⟩ | ⟨ts, rfl⟩ | ⟨k, ts, rfl, _⟩ <;> simp [SafeFollow]

theorem opToTok_ne (op : Op) :
    opToTok op ≠ .ws ∧ opToTok op ≠ .comment ∧ opToTok op ≠ .sym .lparen ∧ opToTok op ≠ .sym .dcolon ∧
    opToTok op ≠ .sym .dot := by
  cases op <;> simp [opToTok]

theorem tokToOp_opToTok (op : Op) : tokToOp (opToTok op) = some op := by
  cases op <;> rfl

theorem SafeFollow_op (op : Op) (ts : List Tok) : SafeFollow (opToTok op :: ts) := by
  have := opToTok_ne op
  simp [SafeFollow, this]

/-- the loop stops in front of anything that ends an expression. -/
theorem peLoop_end (f : Nat) (root : Expr) (X : List Tok) (h : EndFollow X) :
    peLoop tokSrc (f + 2) root X = some (root, X) := by
  rcases h with rfl | ⟨ts, rfl⟩ | ⟨ts, rfl⟩ | ⟨k, ts, rfl, hk⟩
  · simp [peLoop, scanNW, tokScan, tokToOp]
  · simp [peLoop, scanNW, tokScan, tokToOp]
  · simp [peLoop, scanNW, tokScan, tokToOp]
  · simp [peLoop, scanNW, tokScan, hk]

/-! ### tokens of a chain after its first operand -/

def tailToks : Expr → List Tok
  | .binary op l r => tailToks l ++ opToTok op :: (printCtx (isRegexOp op) (firstAtom r) ++ tailToks r)
  | _ => []

theorem tailToks_of_not_binary (e : Expr) (h : e.isBinary = false) : tailToks e = [] := by
  cases e <;> simp_all [tailToks, Expr.isBinary]

theorem print_split : (c : Bool) → (e : Expr) → AtomsOK e = true →
    printCtx c e = printCtx c (firstAtom e) ++ tailToks e
  | c, .binary op l r, h => by
    simp only [AtomsOK, Bool.and_eq_true] at h
    obtain ⟨⟨⟨⟨⟨hl, hr⟩, _⟩, hdiv⟩, _⟩, _⟩ := h
    have il := print_split c l hl
    have ir := print_split (isRegexOp op) r hr
    have hop : (if (op = .div && !divAfter (printCtx c l).getLast?) = true then Tok.bad .illegal ['/']
        else opToTok op) = opToTok op := by
      by_cases hd : op = .div
      · subst hd
        simp only [bne_self_eq_false, Bool.false_or, Bool.and_eq_true] at hdiv
        cases c <;> simp [hdiv.1, hdiv.2]
      · simp [hd]
    simp only [printCtx, firstAtom, tailToks]
    rw [hop]
    conv => lhs; rw [il]
    have : (decide (op = .eqregex) || decide (op = .neqregex)) = isRegexOp op := rfl
    rw [this, ir]
    simp [List.append_assoc]
  | c, .varRef _ _, _ | c, .str _, _ | c, .int _, _ | c, .uns _, _ | c, .num _, _ | c, .numInf, _
  | c, .numNegInf, _ | c, .numNaN, _ | c, .bool _, _ | c, .dur _, _ | c, .regex _, _
  | c, .wildcard _, _ | c, .set _, _ | c, .call _ _, _ | c, .paren _, _ => by
    simp [firstAtom, tailToks]

/-- the position only matters for an expression that starts with a regex. -/
theorem printCtx_atom_ctx (c : Bool) (a : Expr) (h : ∀ s, a ≠ .regex s) (hb : a.isBinary = false) :
    printCtx c a = printCtx false a := by
  cases a <;> simp_all [printCtx, Expr.isBinary]
  all_goals (rename_i w; cases w <;> simp [printCtx])

/-! ### operands -/

theorem tokScan_safe (Y : List Tok) (h : SafeFollow Y) :
    (tokScan Y).1 ≠ .sym .lparen ∧ (tokScan Y).1 ≠ .sym .dcolon ∧ (tokScan Y).1 ≠ .sym .dot := by
  cases Y with
  | nil => simp [tokScan]
  | cons t ts => simpa [tokScan, SafeFollow] using h

theorem peVarRef_plain (f : Nat) (name : Str) (Y : List Tok) (h : SafeFollow Y) :
    peVarRef tokSrc (f + 1) [name] Y = some (.varRef name .unknown, Y) := by
  obtain ⟨_, h2, h3⟩ := tokScan_safe Y h
  simp [peVarRef, h2, h3, intersperse]

theorem peUnary_varRef (f : Nat) (name : Str) (ty : DataType) (Y : List Tok) (hY : SafeFollow Y)
    (hn : isInfNan name = false) (ht : typeRT ty = true) :
    peUnary tokSrc (f + 3) (printCtx false (.varRef name ty) ++ Y) = some (.varRef name ty, Y) := by
  simp only [isInfNan, Bool.or_eq_false_iff, decide_eq_false_iff_not] at hn
  simp only [printCtx, List.cons_append]
  unfold peUnary
  rw [scanNW_cons _ _ _ (by simp) (by simp)]
  simp only [hn.1, hn.2, if_false, tokSrc_scan]
  unfold typeRT at ht
  split at ht
  · rename_i hty
    simp only [decide_eq_true_eq] at ht
    subst ht
    obtain ⟨h1, _, _⟩ := tokScan_safe Y hY
    rw [hty]
    simp only [List.nil_append, h1, if_false]
    exact peVarRef_plain _ _ _ hY
  · rename_i tt hty
    simp only [decide_eq_true_eq] at ht
    rw [hty]
    simp [tokScan, peVarRef, intersperse, ht]
  · simp at ht

theorem peUnary_str (f : Nat) (x : Str) (Y : List Tok) :
    peUnary tokSrc (f + 3) (printCtx false (.str x) ++ Y) = some (.str x, Y) := by
  simp only [printCtx, List.cons_append, List.nil_append]
  unfold peUnary
  rw [scanNW_cons _ _ _ (by simp) (by simp)]

theorem peUnary_bool (f : Nat) (b : Bool) (Y : List Tok) :
    peUnary tokSrc (f + 3) (printCtx false (.bool b) ++ Y) = some (.bool b, Y) := by
  simp only [printCtx, List.cons_append, List.nil_append]
  unfold peUnary
  rw [scanNW_cons _ _ _ (by simp) (by simp)]
  cases b <;> simp

theorem peInt_natDigits (n : Nat) (h : (n : Int) ≤ maxInt64) : peInt (natDigits n) = some (.int n) := by
  simp [peInt, digitsVal_natDigits, h]

theorem peInt_two63 : peInt (natDigits two63) = some (.uns two63) := by
  simp only [peInt, digitsVal_natDigits]
  decide

theorem peUnary_int (f : Nat) (v : Int) (Y : List Tok) (h1 : minInt64 ≤ v) (h2 : v ≤ maxInt64) :
    peUnary tokSrc (f + 3) (printCtx false (.int v) ++ Y) = some (.int v, Y) := by
  simp only [printCtx, printInt]
  by_cases hv : v < 0
  · simp only [hv, if_true, List.cons_append, List.nil_append]
    unfold peUnary
    rw [scanNW_cons _ _ _ (by simp) (by simp)]
    simp only
    rw [scanNW_cons _ _ _ (by simp) (by simp)]
    simp only
    unfold peUnary
    rw [scanNW_cons _ _ _ (by simp) (by simp)]
    simp only
    by_cases hm : (v.natAbs : Int) ≤ maxInt64
    · rw [peInt_natDigits _ hm]
      simp only [applySign, if_true, decide_true]
      have : wrap64 (-(v.natAbs : Int)) = v := by
        rw [wrap64_neg _ (Int.natCast_nonneg _) hm]; omega
      simp [this]
    · have hv2 : v.natAbs = two63 := by unfold minInt64 maxInt64 two63 at *; omega
      rw [hv2, peInt_two63]
      simp only [applySign, if_true, decide_true]
      have : v = minInt64 := by unfold minInt64 two63 at *; omega
      simp [this]
  · simp only [hv, if_false, List.cons_append, List.nil_append]
    unfold peUnary
    rw [scanNW_cons _ _ _ (by simp) (by simp)]
    simp only
    have hm : (v.natAbs : Int) ≤ maxInt64 := by omega
    rw [peInt_natDigits _ hm]
    have : (v.natAbs : Int) = v := by omega
    simp [this]

theorem peUnary_num (f : Nat) (n : Num) (Y : List Tok) (h : numRT n = true) :
    peUnary tokSrc (f + 3) (printCtx false (.num n) ++ Y) = some (.num n, Y) := by
  simp only [numRT, Bool.and_eq_true, bne_iff_ne, ne_eq, decide_eq_true_eq] at h
  obtain ⟨hs, hp⟩ := h
  simp only [printCtx, printNum, hs, if_false]
  cases hneg : n.neg with
  | false =>
    simp only [Bool.false_eq_true, if_false, List.cons_append, List.nil_append]
    unfold peUnary
    rw [scanNW_cons _ _ _ (by simp) (by simp)]
    simp only [hp]
    cases n; simp_all
  | true =>
    simp only [if_true, List.cons_append, List.nil_append]
    unfold peUnary
    rw [scanNW_cons _ _ _ (by simp) (by simp)]
    simp only
    rw [scanNW_cons _ _ _ (by simp) (by simp)]
    simp only
    unfold peUnary
    rw [scanNW_cons _ _ _ (by simp) (by simp)]
    simp only [hp, applySign, Num.negate, if_true, decide_true]
    cases n; simp_all

theorem peUnary_dur (f : Nat) (d : Int) (Y : List Tok) (h1 : 0 ≤ d) (h2 : d ≤ maxInt64) :
    peUnary tokSrc (f + 3) (printCtx false (.dur d) ++ Y) = some (.dur d, Y) := by
  have hd : ¬ d < 0 := by omega
  simp only [printCtx, printDur, hd, if_false, List.cons_append, List.nil_append]
  unfold peUnary
  rw [scanNW_cons _ _ _ (by simp) (by simp)]
  simp only
  have : (d.natAbs : Int) = d := by omega
  rw [parseDuration_formatDurAbs d.natAbs (by omega), this]

theorem peUnary_regex (f : Nat) (s : Str) (Y : List Tok) (h : regexTokRaw s = .regex s) :
    peUnary tokSrc (f + 3) (printCtx false (.regex s) ++ Y) = some (.regex s, Y) := by
  simp only [printCtx, Bool.false_eq_true, if_false, h, List.cons_append, List.nil_append]
  unfold peUnary
  rw [scanNW_cons _ _ _ (by simp) (by simp)]

theorem peUnary_wildcard (f : Nat) (w : WcType) (Y : List Tok) (hY : SafeFollow Y) :
    peUnary tokSrc (f + 3) (printCtx false (.wildcard w) ++ Y) = some (.wildcard w, Y) := by
  obtain ⟨_, h2, _⟩ := tokScan_safe Y hY
  cases w
  · simp only [printCtx, List.cons_append, List.nil_append]
    unfold peUnary
    rw [scanNW_cons _ _ _ (by simp) (by simp)]
    simp [h2]
  · simp only [printCtx, List.cons_append, List.nil_append]
    unfold peUnary
    rw [scanNW_cons _ _ _ (by simp) (by simp)]
    simp [tokScan]
  · simp only [printCtx, List.cons_append, List.nil_append]
    unfold peUnary
    rw [scanNW_cons _ _ _ (by simp) (by simp)]
    simp [tokScan]

/-! ### the two halves of the statement, and what they give together -/

/-- the first operand of `e` is read back as itself. -/
def FirstOK (e : Expr) (f : Nat) : Prop :=
  ∀ Y, SafeFollow Y → regexFirstOK false e = true → noSetFirst e = true →
    peUnary tokSrc f (printCtx false (firstAtom e) ++ Y) = some (firstAtom e, Y)

/-- the loop, fed the rest of the chain, rebuilds `e` (inside a context it commutes with). -/
def LoopOK (e : Expr) (f : Nat) : Prop :=
  ∀ (F : Expr → Expr) (q : Nat) (X : List Tok), Commutes F q → spineGe q e = true → SafeFollow X →
    peLoop tokSrc f (F (firstAtom e)) (tailToks e ++ X) = peLoop tokSrc (f - nops e) (F e) X

theorem tailToks_head : (e : Expr) → tailToks e = [] ∨ ∃ op ts, tailToks e = opToTok op :: ts
  | .binary op l r => by
    rcases tailToks_head l with h | ⟨o, ts, h⟩
    · exact Or.inr ⟨op, printCtx (isRegexOp op) (firstAtom r) ++ tailToks r, by simp [tailToks, h]⟩
    · exact Or.inr ⟨o, ts ++ opToTok op :: (printCtx (isRegexOp op) (firstAtom r) ++ tailToks r), by simp [tailToks, h]⟩
  | .varRef _ _ | .str _ | .int _ | .uns _ | .num _ | .numInf | .numNegInf | .numNaN | .bool _
  | .dur _ | .regex _ | .wildcard _ | .set _ | .call _ _ | .paren _ => Or.inl (by simp [tailToks])

theorem SafeFollow_tail (e : Expr) (X : List Tok) (hX : SafeFollow X) : SafeFollow (tailToks e ++ X) := by
  rcases tailToks_head e with h | ⟨o, ts, h⟩
  · simpa [h] using hX
  · rw [h]; exact SafeFollow_op o _

theorem nops_le_weight : (e : Expr) → nops e + 6 ≤ weight e
  | .binary _ l r => by
    have := nops_le_weight l; have := nops_le_weight r
    simp only [nops, weight]; omega
  | .varRef _ _ | .str _ | .int _ | .uns _ | .num _ | .numInf | .numNegInf | .numNaN | .bool _
  | .dur _ | .regex _ | .wildcard _ | .set _ | .call _ _ | .paren _ => by simp [nops, weight]

theorem spineGe_zero (e : Expr) (hc : PECanon e = true) : spineGe 0 e = true := by
  apply canon_spine e 0 hc
  cases e <;> simp [leftOK]

/-- `ParseExpr` on the tokens of `e`, given the two halves. -/
theorem peExpr_of_parts (e : Expr) (f : Nat) (hc : PECanon e = true) (ha : AtomsOK e = true)
    (hf : weight e ≤ f) (h1 : FirstOK e f) (h2 : LoopOK e f)
    (X : List Tok) (hX : EndFollow X) (hr : regexFirstOK false e = true) (hs : noSetFirst e = true) :
    peExpr tokSrc (f + 1) (printCtx false e ++ X) = some (e, X) := by
  unfold peExpr
  rw [print_split false e ha, List.append_assoc,
    h1 _ (SafeFollow_tail e X (SafeFollow_of_End X hX)) hr hs]
  have := h2 (fun x => x) 0 X commutes_id (spineGe_zero e hc) (SafeFollow_of_End X hX)
  show (match some (firstAtom e, tailToks e ++ X) with
    | some (u, s') => peLoop tokSrc f u s'
    | none => none) = some (e, X)
  simp only
  rw [this]
  have hw := nops_le_weight e
  obtain ⟨k, hk⟩ : ∃ k, f - nops e = k + 2 := ⟨f - nops e - 2, by omega⟩
  rw [hk]
  exact peLoop_end k e X hX

/-- tokens of the second and later call arguments, each with its comma. -/
def moreToks : Args → List Tok
  | .nil => []
  | .cons e r => .sym .comma :: (printCtx true e ++ moreToks r)

theorem printArgs_cons (e : Expr) (r : Args) : printArgs (.cons e r) = printCtx true e ++ moreToks r := by
  cases r with
  | nil => simp [printArgs, moreToks]
  | cons e' r' =>
    simp only [printArgs, moreToks]
    have := printArgs_cons e' r'
    simp [this]

/-- the first token of an operand that is no regex: neither a regex token nor `)`. -/
def HeadOK (ts : List Tok) : Prop :=
  ∃ t rest, ts = t :: rest ∧ (∀ s, t ≠ .regex s) ∧ t ≠ .sym .rparen ∧ t ≠ .ws ∧ t ≠ .comment

theorem headOK_atom (a : Expr) (hb : a.isBinary = false) (ha : AtomsOK a = true)
    (hr : ∀ s, a ≠ .regex s) : HeadOK (printCtx false a) := by
  cases a with
  | binary _ _ _ => simp [Expr.isBinary] at hb
  | regex s => exact absurd rfl (hr s)
  | varRef name ty => exact ⟨_, _, rfl, by simp, by simp, by simp, by simp⟩
  | str x => exact ⟨_, _, rfl, by simp, by simp, by simp, by simp⟩
  | int v =>
    simp only [printCtx, printInt]
    split <;> exact ⟨_, _, rfl, by simp, by simp, by simp, by simp⟩
  | uns v => simp [AtomsOK] at ha
  | num n =>
    simp only [printCtx, printNum]
    split
    · exact ⟨_, _, rfl, by simp, by simp, by simp, by simp⟩
    · split <;> exact ⟨_, _, rfl, by simp, by simp, by simp, by simp⟩
  | numInf => simp [AtomsOK] at ha
  | numNegInf => simp [AtomsOK] at ha
  | numNaN => simp [AtomsOK] at ha
  | bool b => exact ⟨_, _, rfl, by simp, by simp, by simp, by simp⟩
  | dur d =>
    simp only [printCtx, printDur]
    split <;> exact ⟨_, _, rfl, by simp, by simp, by simp, by simp⟩
  | wildcard w => cases w <;> exact ⟨_, _, rfl, by simp, by simp, by simp, by simp⟩
  | set vals => exact ⟨_, _, rfl, by simp, by simp, by simp, by simp⟩
  | call name args =>
    simp only [AtomsOK, Bool.and_eq_true, decide_eq_true_eq] at ha
    simp only [printCtx, ha.1.1.1]
    exact ⟨_, _, rfl, by simp, by simp, by simp, by simp⟩
  | paren e => exact ⟨_, _, rfl, by simp, by simp, by simp, by simp⟩

/-! ### sets -/

def SetTok (t : Tok) : Prop := t ≠ .ws ∧ t ≠ .comment ∧ t ≠ .eof ∧ t ≠ .sym .rparen

theorem printSetVal_clean (v : SetVal) : ∀ t ∈ printSetVal v, SetTok t := by
  cases v with
  | str s => intro t ht; simp [printSetVal] at ht; subst ht; simp [SetTok]
  | num n =>
    intro t ht
    simp only [printSetVal, printNum] at ht
    split at ht <;> split at ht <;> simp at ht <;> (try rcases ht with rfl | rfl) <;> (try subst ht) <;> simp [SetTok]

theorem printSetVals_clean : (vals : List SetVal) → ∀ t ∈ printSetVals vals, SetTok t
  | [] => by simp [printSetVals]
  | [v] => by simpa [printSetVals] using printSetVal_clean v
  | v :: w :: vs => by
    intro t ht
    simp only [printSetVals, List.mem_append, List.mem_cons] at ht
    rcases ht with h | rfl | h
    · exact printSetVal_clean v t h
    · simp [SetTok]
    · exact printSetVals_clean (w :: vs) t h

theorem peSetLoop_fold (ts : List Tok) (hc : ∀ t ∈ ts, SetTok t) :
    ∀ (f : Nat) (neg : Bool) (acc : List SetVal) (X : List Tok), ts.length + 2 ≤ f →
      peSetLoop tokSrc f (ts ++ .sym .rparen :: X) neg acc = some (setFold ts neg acc, X) := by
  induction ts with
  | nil =>
    intro f neg acc X hf
    obtain ⟨k, rfl⟩ : ∃ k, f = k + 2 := ⟨f - 2, by omega⟩
    simp only [List.nil_append]
    unfold peSetLoop
    rw [scanNW_cons _ _ _ (by simp) (by simp)]
    simp [setStep, Tok.lit, setFold]
  | cons t ts ih =>
    intro f neg acc X hf
    obtain ⟨k, rfl⟩ : ∃ k, f = k + 2 := ⟨f - 2, by omega⟩
    obtain ⟨h1, h2, h3, h4⟩ := hc t (by simp)
    simp only [List.cons_append]
    unfold peSetLoop
    rw [scanNW_cons _ _ _ h1 h2]
    simp only [h4, h3, if_false, setFold]
    simp only [List.length_cons] at hf
    exact ih (fun x hx => hc x (by simp [hx])) (k + 1) _ _ X (by omega)

/-! ### the main recursion -/

theorem loopOK_atom (e : Expr) (f : Nat) (hb : e.isBinary = false) : LoopOK e f := by
  intro F q X _ _ _
  rw [tailToks_of_not_binary e hb, nops_of_not_binary e hb, firstAtom_of_not_binary e hb]
  simp

theorem regexFirstOK_binary (c : Bool) (op : Op) (l r : Expr) :
    regexFirstOK c (.binary op l r) = regexFirstOK c l := by
  simp [regexFirstOK, firstAtom]

theorem noSetFirst_binary (op : Op) (l r : Expr) : noSetFirst (.binary op l r) = noSetFirst l := by
  simp [noSetFirst, firstAtom]

/-- the print of an expression that does not start with a regex is the same in both positions. -/
theorem printCtx_true_eq (e : Expr) (ha : AtomsOK e = true) (h : ∀ s, firstAtom e ≠ .regex s) :
    printCtx true e = printCtx false e := by
  rw [print_split true e ha, print_split false e ha,
    printCtx_atom_ctx true (firstAtom e) h (firstAtom_not_binary e)]

theorem headOK_print (e : Expr) (ha : AtomsOK e = true) (hfa : AtomsOK (firstAtom e) = true)
    (h : ∀ s, firstAtom e ≠ .regex s) : HeadOK (printCtx false e) := by
  rw [print_split false e ha]
  obtain ⟨t, rest, ht, h1, h2, h3, h4⟩ := headOK_atom (firstAtom e) (firstAtom_not_binary e) hfa h
  exact ⟨t, rest ++ tailToks e, by simp [ht], h1, h2, h3, h4⟩

theorem atomsOK_firstAtom : (e : Expr) → AtomsOK e = true → AtomsOK (firstAtom e) = true
  | .binary _ l _, h => by
    simp only [AtomsOK, Bool.and_eq_true] at h
    simpa [firstAtom] using atomsOK_firstAtom l h.1.1.1.1.1
  | .varRef _ _, h | .str _, h | .int _, h | .uns _, h | .num _, h | .numInf, h | .numNegInf, h
  | .numNaN, h | .bool _, h | .dur _, h | .regex _, h | .wildcard _, h | .set _, h | .call _ _, h
  | .paren _, h => by simpa [firstAtom] using h

end OG.C12
