/-
C12 — vocabulary of the regenerated codec tables (core only; imported by OG/Generated/C12.lean).

ogfacts reads `encodeX` / `decodeX` of processor_codec.go with go/ast and writes, per struct field,
*how* it is put on the wire and how it is read back, in the constructors below. An expression
the extractor does not recognise is emitted as `.other "<source text>"`: it has no semantics in
the model (`Wire.lean`), so the row is not sound and the round-trip theorem no longer checks.
-/

namespace OG.C12

/-- Go integer types that occur in the option / measurement structs and in the wire messages. -/
inductive IntT where
  | int | int64 | int32 | uint64 | uint32 | uint8
  | dur        -- time.Duration (an int64 count of nanoseconds)
deriving DecidableEq, Repr

/-- the Go type of a struct field, as far as the codec model looks into it. -/
inductive GoT where
  | int (t : IntT)
  /-- a named integer type with `n` declared iota constants 0 … n-1 (`n = 0`: no constant block). -/
  | named (name : String) (t : IntT) (n : Nat)
  | bool
  | str
  | bytes            -- []byte
  | strs             -- []string
  | keyset           -- map[string]struct{}
  | expr             -- influxql.Expr
  | loc              -- *time.Location
  | iface            -- interface{}   (FillValue)
  | sortFields       -- influxql.SortFields
  | varRefs          -- []influxql.VarRef
  | interval         -- hybridqp.Interval
  | sources          -- []influxql.Source
  | regexLit         -- *influxql.RegexLiteral
  | ptr (name : String)   -- pointer to a struct with a codec of its own
  | other (src : String)
deriving DecidableEq, Repr

/-- protobuf scalar / field types of the runtime descriptor. -/
inductive PT where
  | int64 | int32 | uint64 | uint32 | bool | double | string | bytes
  | msg (name : String)
  | mapStringBool
  | other (n : Nat)
deriving DecidableEq, Repr

/-- one field of a message of internal.proto, read from the raw descriptor in internal.pb.go. -/
structure WireField where
  name : String
  num : Nat
  ty : PT
  repeated : Bool
deriving DecidableEq, Repr

/-- one field of a generated message struct: Go field name, the `protobuf:"…"` tag. -/
structure TagField where
  goName : String
  wireKind : String     -- varint / bytes / fixed64 …
  num : Nat
  repeated : Bool
  name : String         -- name= of the tag
deriving DecidableEq, Repr

inductive Guard where
  | none            -- unconditional
  | nonNil          -- `x.F != nil`
  | lenPos          -- `len(x.F) > 0`
  | nonEmpty        -- `pb.X != ""`
  | other (src : String)
deriving DecidableEq, Repr

/-- how the encoder computes the wire field from the struct field. -/
inductive EncK where
  | none                                   -- the field is not encoded
  | id                                     -- `opt.F`
  | cast (t : IntT)                        -- `int64(opt.F)`
  | method (m : String)                    -- `opt.F.M()`
  | text (g : Guard) (path : String)       -- `if g { pb.X = opt.F<path>() }`, e.g. path = ".String" or ".Val.String"
  | helper (f : String) (g : Guard)        -- `f(opt.F)` (encodeVarRefs, encodeInterval, StructToBool, …)
  | srcLoop (ty f : String)                -- range, type assertion to `ty` (others skipped), `f(x)`
  | ifaceSwitch (cases : List (String × Bool))  -- `switch v := opt.F.(type)`: (dynamic type, through float64(v)?)
  | other (src : String)
deriving DecidableEq, Repr

/-- how the decoder computes the struct field from the wire field. -/
inductive DecK where
  | none
  | id                                     -- `pb.X`, `pb.GetX()`
  | cast (t : IntT) (name : String)        -- `int(pb.GetX())`, `influxql.FillOption(pb.GetFill())`
  | helper (f : String) (g : Guard)        -- `decodeVarRefs(pb.Aux)`
  | parse (g : Guard) (f : String)         -- `if g { v, err := f(pb.GetX()); … }` (an error ends the decoding)
  | srcLoop (f : String)                   -- `for i, s := range pb.GetSources() { decodeMeasurement(s) }`
  | other (src : String)
deriving DecidableEq, Repr

/-- one struct field of a codec pair. -/
structure Row where
  field : String
  goT : GoT
  encWire : String      -- message field the encoder writes ("" = none)
  enc : EncK
  decWire : String      -- message field the decoder reads ("" = none)
  dec : DecK
  encSrc : String       -- source text, for the record
  decSrc : String
deriving DecidableEq, Repr

end OG.C12
