/-
C12 — theorems over the regenerated codec tables of the shipped options message.
-/
import OG.C12.WireJudge

namespace OG.C12.Wire
open OG.C12 OG.Gen.C12

/-! ## the wire messages: raw descriptor against struct tags -/

def kindOfPT : PT → String
  | .int64 | .int32 | .uint64 | .uint32 | .bool => "varint"
  | .double => "fixed64"
  | .string | .bytes | .msg _ | .mapStringBool => "bytes"
  | .other _ => "?"

/-- the struct tags of a generated message bind each Go field to a field of the raw descriptor with
the same number, wire kind and cardinality; numbers and Go names are pairwise distinct. -/
def descOK (desc : List WireField) (tags : List TagField) : Bool :=
  desc.length == tags.length &&
  (desc.zip tags).all (fun (d, t) => d.num == t.num && kindOfPT d.ty == t.wireKind && d.repeated == t.repeated && d.name == t.name) &&
  (desc.map (·.num)).Nodup && (tags.map (·.goName)).Nodup && desc.all (fun d => d.num != 0)

theorem descriptors_consistent :
    descOK desc_ProcessorOptions tags_ProcessorOptions = true ∧
    descOK desc_Measurement tags_Measurement = true ∧
    descOK desc_Interval tags_Interval = true ∧
    descOK desc_VarRef tags_VarRef = true ∧
    descOK desc_ObsOptions tags_ObsOptions = true ∧
    descOK desc_IndexOption tags_IndexOption = true ∧
    descOK desc_QuerySchema tags_QuerySchema = true ∧
    descOK desc_Unnest tags_Unnest = true ∧
    descOK desc_JoinCase tags_JoinCase = true := by decide

/-- no message field is set from anything but a struct field, and no decoder writes a name that is
not a field of its struct. -/
theorem no_stray_assignments :
    stray_options = [] ∧ stray_measurement = [] ∧ stray_interval = [] ∧ stray_varRef = [] ∧
    stray_obsOptions = [] := by decide

/-! ## every field is judged; what is judged relevant is shipped -/

def optionFields : List String := codec_options.map (·.field)

theorem every_field_judged : optionFields.all (fun f => (judgementOf f).isSome) = true := by decide

theorem judged_fields_exist : judgement.all (fun p => optionFields.contains p.1) = true := by decide

/-- a field the encoder ships is judged relevant (or lossy), and the other way round: nothing is
shipped without a reader, nothing judged relevant stays behind. -/
theorem shipped_iff_relevant :
    codec_options.all (fun r =>
      (r.encWire != "") == (match judgementOf r.field with
        | some .relevant => true
        | some (.lossy _) => true
        | _ => false)) = true := by decide


/-! ## scalar rows: what went in comes out -/

theorem wrapT_id (t : IntT) (v : Int) (h1 : t.lo ≤ v) (h2 : v < t.hi) : wrapT t v = v := by
  cases t <;> simp only [IntT.lo, IntT.hi] at h1 h2 <;> simp only [wrapT, IntT.lo, IntT.size] <;> omega

theorem inT_spec (t : IntT) (v : Int) (h : inT t v = true) : t.lo ≤ v ∧ v < t.hi := by
  simpa [inT] using h

/-- an integer row keeps every value of `[lo, hi)`: each type on the way holds that range. -/
def intPairOK (lo hi : Int) (wt : IntT) (e : EncK) (d : DecK) : Bool :=
  (decide (wt.lo ≤ lo) && decide (hi ≤ wt.hi)) &&
  (match e with
   | .id => true
   | .cast t => decide (t.lo ≤ lo) && decide (hi ≤ t.hi)
   | .method m => m == "Nanoseconds"
   | _ => false) &&
  (match d with
   | .id => true
   | .cast t _ => decide (t.lo ≤ lo) && decide (hi ≤ t.hi)
   | _ => false)

def scalarOK (g : GoT) (pt : PT) (e : EncK) (d : DecK) : Bool :=
  match g.range?, pt.intT? with
  | some (lo, hi), some wt => intPairOK lo hi wt e d
  | _, _ =>
    match g, pt, e, d with
    | .bool, .bool, .id, .id => true
    | .str, .string, .id, .id => true
    | .bytes, .bytes, .id, .id => true
    | .regexLit, .string, .text .nonNil _, .parse .nonEmpty _ => true
    | .ptr _, .msg _, .helper _ .nonNil, .helper _ .nonNil => true
    | _, _, _, _ => false

/-- the values of a scalar field the theorems range over: the Go type's values (the declared
constants of an enumeration), strings that are valid UTF-8, a regex with a non-empty pattern. -/
def typedS (g : GoT) (v : SVal) : Bool :=
  match g.range?, v with
  | some (lo, hi), .int x => decide (lo ≤ x) && decide (x < hi)
  | some _, _ => false
  | none, v =>
    match g, v with
    | .bool, .bool _ => true
    | .str, .str s => utf8Valid s
    | .bytes, .bytes _ => true
    | .regexLit, .regex none => true
    | .regexLit, .regex (some p) => p != [] && utf8Valid p
    | .ptr _, .blob _ => true
    | _, _ => false

def shipS (pt : PT) (e : EncK) (d : DecK) (v : SVal) : Option SVal :=
  match encS e v with
  | none => none
  | some w =>
    match protoS pt w with
    | none => none
    | some w' => decS d w'

theorem protoS_int (pt : PT) (wt : IntT) (h : pt.intT? = some wt) (x : Int) : protoS pt (.int x) = some (.int x) := by
  cases pt <;> simp [PT.intT?] at h <;> simp [protoS]

theorem scalar_rt (g : GoT) (pt : PT) (e : EncK) (d : DecK) (v : SVal)
    (hk : scalarOK g pt e d = true) (ht : typedS g v = true) : shipS pt e d v = some v := by
  unfold scalarOK at hk
  split at hk
  · -- integers
    rename_i lo hi wt hr hw
    unfold typedS at ht
    rw [hr] at ht
    cases v <;> simp at ht
    rename_i x
    obtain ⟨hx1, hx2⟩ := ht
    simp only [intPairOK, Bool.and_eq_true, decide_eq_true_eq] at hk
    obtain ⟨⟨⟨hw1, hw2⟩, he⟩, hd⟩ := hk
    have hp := protoS_int pt wt hw
    cases e <;> simp at he
    · -- id
      cases d <;> simp at hd
      · simp [shipS, encS, hp, decS]
      · rename_i t _
        have := wrapT_id t x (by omega) (by omega)
        simp [shipS, encS, hp, decS, this]
    · -- cast
      rename_i t1
      have h1 := wrapT_id t1 x (by omega) (by omega)
      cases d <;> simp at hd
      · simp [shipS, encS, hp, decS, h1]
      · rename_i t _
        have := wrapT_id t x (by omega) (by omega)
        simp [shipS, encS, hp, decS, h1, this]
    · -- method Nanoseconds
      rename_i m
      subst he
      cases d <;> simp at hd
      · simp [shipS, encS, durMethod, hp, decS]
      · rename_i t _
        have := wrapT_id t x (by omega) (by omega)
        simp [shipS, encS, durMethod, hp, decS, this]
  · -- the other scalar kinds
    rename_i hnot
    split at hk
    · -- bool
      cases v <;> simp [typedS, GoT.range?] at ht
      simp [shipS, encS, protoS, decS]
    · -- string
      cases v <;> simp [typedS, GoT.range?] at ht
      simp [shipS, encS, protoS, decS, ht]
    · -- bytes
      cases v <;> simp [typedS, GoT.range?] at ht
      simp [shipS, encS, protoS, decS]
    · -- regex
      cases v <;> simp [typedS, GoT.range?] at ht
      rename_i r
      cases r with
      | none => simp [shipS, encS, protoS, decS, utf8Valid, utf8ValidF]
      | some p =>
        simp [typedS, GoT.range?] at ht
        cases p with
        | nil => simp at ht
        | cons c p => simp [shipS, encS, protoS, decS, ht.2]
    · -- pointer to a struct with a codec of its own
      cases v <;> simp [typedS, GoT.range?] at ht
      simp [shipS, encS, protoS, decS]
    · simp at hk


/-! ## flat objects (Interval, VarRef, Measurement): every row sound ⇒ the object comes back -/

/-- a row of a flat codec: not shipped at all, or written and read under one message field by a
sound pair, the row being the one writer of that field. -/
def flatRowOK (c : Codec) (r : Row) : Bool :=
  if r.encWire == "" then r.decWire == "" && decide (r.dec = .none)
  else
    r.decWire == r.encWire &&
    (match c.rows.find? (fun x => x.encWire == r.decWire) with
     | some w => w.field == r.field && decide (w.enc = r.enc)
     | none => false) &&
    (match ptOfGo c.tags c.desc r.decWire with
     | some pt => scalarOK r.goT pt r.enc r.dec
     | none => false)

/-- the value a flat row delivers -/
def flatExpect (o : FObj) (r : Row) : SVal := if r.encWire == "" then szero r.goT else o r.field

theorem shipFlatField_ok (c : Codec) (o : FObj) (r : Row) (hk : flatRowOK c r = true)
    (ht : r.encWire ≠ "" → typedS r.goT (o r.field) = true) :
    shipFlatField c o r = some (flatExpect o r) ∧ (r.encWire ≠ "" → (wireOf c o r.encWire).isSome = true) := by
  unfold flatRowOK at hk
  by_cases he : r.encWire = ""
  · simp [he] at hk
    simp [shipFlatField, flatExpect, he, hk.1, hk.2]
  · have he' : (r.encWire == "") = false := by simpa using he
    simp only [he', Bool.false_eq_true, if_false, Bool.and_eq_true, beq_iff_eq] at hk
    obtain ⟨⟨hdw, hf⟩, hp⟩ := hk
    have hdw' : (r.decWire == "") = false := by rw [hdw]; exact he'
    split at hf
    · rename_i w hw
      split at hp
      · rename_i pt hpt
        simp only [Bool.and_eq_true, beq_iff_eq, decide_eq_true_eq] at hf
        have hrt := scalar_rt r.goT pt r.enc r.dec (o r.field) hp (ht he)
        unfold shipS at hrt
        have hwire : wireOf c o r.decWire = (match encS r.enc (o r.field) with
            | none => none
            | some ws => protoS pt ws) := by
          simp only [wireOf, hpt, hw, hf.1, hf.2]
          cases encS r.enc (o r.field) <;> rfl
        constructor
        · simp only [shipFlatField, hdw', Bool.false_eq_true, if_false, hwire, flatExpect, he']
          cases h1 : encS r.enc (o r.field) with
          | none => simp [h1] at hrt
          | some ws =>
            simp only [h1] at hrt ⊢
            cases h2 : protoS pt ws with
            | none => simp [h2] at hrt
            | some w' => simp only [h2] at hrt ⊢; exact hrt
        · intro _
          rw [← hdw, hwire]
          cases h1 : encS r.enc (o r.field) with
          | none => simp [h1] at hrt
          | some ws =>
            simp only [h1] at hrt ⊢
            cases h2 : protoS pt ws with
            | none => simp [h2] at hrt
            | some w' => simp
      · simp at hp
    · simp at hf

theorem shipFlatList_ok (c : Codec) (o : FObj) : (rows : List Row) →
    (∀ r ∈ rows, shipFlatField c o r = some (flatExpect o r)) →
    shipFlatList c o rows = some (rows.map fun r => (r.field, flatExpect o r))
  | [], _ => rfl
  | r :: rs, h => by
    have h1 := h r (by simp)
    have h2 := shipFlatList_ok c o rs (fun x hx => h x (by simp [hx]))
    simp [shipFlatList, h1, h2]

/-- **a flat codec whose rows are all sound gives back every shipped field and the zero value of
every field it does not ship.** -/
theorem shipFlat_ok (c : Codec) (o : FObj) (hall : c.rows.all (flatRowOK c) = true)
    (ht : ∀ r ∈ c.rows, r.encWire ≠ "" → typedS r.goT (o r.field) = true) :
    shipFlat c o = some (c.rows.map fun r => (r.field, flatExpect o r)) := by
  have hrow : ∀ r ∈ c.rows, flatRowOK c r = true := by
    intro r hr
    exact (List.all_eq_true.mp hall) r hr
  have hm : marshalFlatOK c o = true := by
    unfold marshalFlatOK
    apply List.all_eq_true.mpr
    intro r hr
    by_cases he : r.encWire = ""
    · simp [he]
    · have := (shipFlatField_ok c o r (hrow r hr) (ht r hr)).2 he
      simp [this]
  unfold shipFlat
  rw [hm]
  simp only [if_true]
  exact shipFlatList_ok c o c.rows (fun r hr => (shipFlatField_ok c o r (hrow r hr) (ht r hr)).1)


/-! ### reading the decoded flat object back by field name -/

theorem lookupS_map (o : FObj) (f : String) : (rows : List Row) →
    lookupS (rows.map fun r => (r.field, flatExpect o r)) f =
      (match rows.find? (fun r => r.field == f) with
       | some r => flatExpect o r
       | none => .unmodelled)
  | [] => rfl
  | r :: rs => by
    have ih := lookupS_map o f rs
    by_cases h : (r.field == f) = true
    · simp [lookupS, List.find?, h]
    · have h' : (r.field == f) = false := by simpa using h
      simp only [lookupS, List.map, List.find?, h'] at ih ⊢
      exact ih

/-- the field named `f` is shipped by the codec -/
def shippedField (c : Codec) (f : String) : Bool :=
  match c.rows.find? (fun r => r.field == f) with
  | some r => r.encWire != ""
  | none => false

/-- the field named `f` is not shipped and its Go type has the zero value `z` -/
def unshippedField (c : Codec) (f : String) (z : SVal) : Bool :=
  match c.rows.find? (fun r => r.field == f) with
  | some r => r.encWire == "" && decide (szero r.goT = z)
  | none => false

theorem lookup_shipped (c : Codec) (o : FObj) (f : String) (h : shippedField c f = true) :
    lookupS (c.rows.map fun r => (r.field, flatExpect o r)) f = o f := by
  rw [lookupS_map]
  unfold shippedField at h
  split at h
  · rename_i r hr
    have hf : r.field = f := by simpa using List.find?_some hr
    have he : (r.encWire == "") = false := by simpa using h
    simp [hr, flatExpect, he, hf]
  · simp at h

theorem lookup_unshipped (c : Codec) (o : FObj) (f : String) (z : SVal) (h : unshippedField c f z = true) :
    lookupS (c.rows.map fun r => (r.field, flatExpect o r)) f = z := by
  rw [lookupS_map]
  unfold unshippedField at h
  split at h
  · rename_i r hr
    simp only [Bool.and_eq_true, beq_iff_eq, decide_eq_true_eq] at h
    simp [hr, flatExpect, h.1, h.2]
  · simp at h

def typedObj (c : Codec) (o : FObj) : Bool :=
  c.rows.all fun r => r.encWire == "" || typedS r.goT (o r.field)

theorem typedObj_spec (c : Codec) (o : FObj) (h : typedObj c o = true) :
    ∀ r ∈ c.rows, r.encWire ≠ "" → typedS r.goT (o r.field) = true := by
  intro r hr he
  have := (List.all_eq_true.mp h) r hr
  have he' : (r.encWire == "") = false := by simpa using he
  simpa [he'] using this

/-! ### Interval -/

theorem interval_rows_sound : codec_interval.all (flatRowOK intervalCodec) = true := by decide

theorem interval_fields :
    shippedField intervalCodec "Duration" = true ∧ shippedField intervalCodec "Offset" = true := by decide

/-- **hybridqp.Interval comes back as it was sent** (every int64 count of nanoseconds, negative
offsets included). -/
theorem interval_roundtrip (d o : Int) (hd : inT .dur d = true) (ho : inT .dur o = true) :
    shipInterval d o = some (.interval d o) := by
  have ht : typedObj intervalCodec (intervalObj d o) = true := by
    have hd' := inT_spec _ _ hd
    have ho' := inT_spec _ _ ho
    simp [typedObj, intervalCodec, codec_interval, typedS, GoT.range?, intervalObj, hd'.1, hd'.2, ho'.1, ho'.2]
  have h := shipFlat_ok intervalCodec (intervalObj d o) interval_rows_sound (typedObj_spec _ _ ht)
  unfold shipInterval
  rw [h]
  dsimp only
  rw [lookup_shipped _ _ _ interval_fields.1, lookup_shipped _ _ _ interval_fields.2]
  simp [intervalObj]

/-! ### VarRef -/

theorem varRef_rows_sound : codec_varRef.all (flatRowOK varRefCodec) = true := by decide

theorem varRef_fields :
    shippedField varRefCodec "Val" = true ∧ shippedField varRefCodec "Type" = true ∧
    unshippedField varRefCodec "Alias" (.str []) = true := by decide

/-- the number of declared DataType constants (`Unknown` … `Graph`) -/
def dataTypeCount : Int :=
  match codec_varRef.find? (fun r => r.field == "Type") with
  | some r => (match r.goT.range? with | some (_, hi) => hi | none => 0)
  | none => 0

def typedRef (r : VRef) : Bool := utf8Valid r.val && decide (0 ≤ r.ty) && decide (r.ty < dataTypeCount)

/-- **a VarRef of `Aux` comes back with its name and type** (the alias is not shipped). -/
theorem varRef_roundtrip (r : VRef) (ht : typedRef r = true) : shipRef r = some { r with alias := [] } := by
  simp only [typedRef, Bool.and_eq_true, decide_eq_true_eq] at ht
  have hty : typedObj varRefCodec (refObj r) = true := by
    have h12 : dataTypeCount = 12 := by decide
    rw [h12] at ht
    simp [typedObj, varRefCodec, codec_varRef, typedS, GoT.range?, refObj, ht.1.1, ht.1.2, ht.2]
  have h := shipFlat_ok varRefCodec (refObj r) varRef_rows_sound (typedObj_spec _ _ hty)
  unfold shipRef
  rw [h]
  dsimp only
  unfold refOfList
  rw [lookup_shipped _ _ _ varRef_fields.1, lookup_shipped _ _ _ varRef_fields.2.1,
    lookup_unshipped _ _ _ _ varRef_fields.2.2]
  simp [refObj]

theorem shipRefs_ok : (l : List VRef) → (∀ r ∈ l, typedRef r = true) →
    shipRefs l = some (l.map fun r => { r with alias := [] })
  | [], _ => rfl
  | r :: rs, h => by
    have h1 := varRef_roundtrip r (h r (by simp))
    have h2 := shipRefs_ok rs (fun x hx => h x (by simp [hx]))
    simp [shipRefs, h1, h2]

end OG.C12.Wire
