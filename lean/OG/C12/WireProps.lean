/-
C12 — theorems over the regenerated codec tables of the shipped options message.
-/
import OG.C12.WireJudge

namespace OG.C12.Wire
open OG.C12 OG.Gen.C12

/-! ## the wire messages: raw descriptor against struct tags -/

def kindOfPT : PT → String
  | .int64 | .int32 | .uint64 | .uint32 | .bool => "varint"
  | .double => "fixed64"
  | .string | .bytes | .msg _ | .mapStringBool => "bytes"
  | .other _ => "?"

/-- the struct tags of a generated message bind each Go field to a field of the raw descriptor with
the same number, wire kind and cardinality; numbers and Go names are pairwise distinct. -/
def descOK (desc : List WireField) (tags : List TagField) : Bool :=
  desc.length == tags.length &&
  (desc.zip tags).all (fun (d, t) => d.num == t.num && kindOfPT d.ty == t.wireKind && d.repeated == t.repeated && d.name == t.name) &&
  (desc.map (·.num)).Nodup && (tags.map (·.goName)).Nodup && desc.all (fun d => d.num != 0)

theorem descriptors_consistent :
    descOK desc_ProcessorOptions tags_ProcessorOptions = true ∧
    descOK desc_Measurement tags_Measurement = true ∧
    descOK desc_Interval tags_Interval = true ∧
    descOK desc_VarRef tags_VarRef = true ∧
    descOK desc_ObsOptions tags_ObsOptions = true ∧
    descOK desc_IndexOption tags_IndexOption = true ∧
    descOK desc_QuerySchema tags_QuerySchema = true ∧
    descOK desc_Unnest tags_Unnest = true ∧
    descOK desc_JoinCase tags_JoinCase = true := by decide

/-- no message field is set from anything but a struct field, and no decoder writes a name that is
not a field of its struct. -/
theorem no_stray_assignments :
    stray_options = [] ∧ stray_measurement = [] ∧ stray_interval = [] ∧ stray_varRef = [] ∧
    stray_obsOptions = [] := by decide

/-! ## every field is judged; what is judged relevant is shipped -/

def optionFields : List String := codec_options.map (·.field)

theorem every_field_judged : optionFields.all (fun f => (judgementOf f).isSome) = true := by decide

theorem judged_fields_exist : judgement.all (fun p => optionFields.contains p.1) = true := by decide

/-- a field the encoder ships is judged relevant (or lossy), and the other way round: nothing is
shipped without a reader, nothing judged relevant stays behind. -/
theorem shipped_iff_relevant :
    codec_options.all (fun r =>
      (r.encWire != "") == (match judgementOf r.field with
        | some .relevant => true
        | some (.lossy _) => true
        | _ => false)) = true := by decide


/-! ## scalar rows: what went in comes out -/

theorem wrapT_id (t : IntT) (v : Int) (h1 : t.lo ≤ v) (h2 : v < t.hi) : wrapT t v = v := by
  cases t <;> simp only [IntT.lo, IntT.hi] at h1 h2 <;> simp only [wrapT, IntT.lo, IntT.size] <;> omega

theorem inT_spec (t : IntT) (v : Int) (h : inT t v = true) : t.lo ≤ v ∧ v < t.hi := by
  simpa [inT] using h

/-- an integer row keeps every value of `[lo, hi)`: each type on the way holds that range. -/
def intPairOK (lo hi : Int) (wt : IntT) (e : EncK) (d : DecK) : Bool :=
  (decide (wt.lo ≤ lo) && decide (hi ≤ wt.hi)) &&
  (match e with
   | .id => true
   | .cast t => decide (t.lo ≤ lo) && decide (hi ≤ t.hi)
   | .method m => m == "Nanoseconds"
   | _ => false) &&
  (match d with
   | .id => true
   | .cast t _ => decide (t.lo ≤ lo) && decide (hi ≤ t.hi)
   | _ => false)

def scalarOK (g : GoT) (pt : PT) (e : EncK) (d : DecK) : Bool :=
  match g.range?, pt.intT? with
  | some (lo, hi), some wt => intPairOK lo hi wt e d
  | _, _ =>
    match g, pt, e, d with
    | .bool, .bool, .id, .id => true
    | .str, .string, .id, .id => true
    | .bytes, .bytes, .id, .id => true
    | .regexLit, .string, .text .nonNil _, .parse .nonEmpty _ => true
    | .ptr _, .msg _, .helper _ .nonNil, .helper _ .nonNil => true
    | _, _, _, _ => false

/-- the values of a scalar field the theorems range over: the Go type's values (the declared
constants of an enumeration), strings that are valid UTF-8, a regex with a non-empty pattern. -/
def typedS (g : GoT) (v : SVal) : Bool :=
  match g.range?, v with
  | some (lo, hi), .int x => decide (lo ≤ x) && decide (x < hi)
  | some _, _ => false
  | none, v =>
    match g, v with
    | .bool, .bool _ => true
    | .str, .str s => utf8Valid s
    | .bytes, .bytes _ => true
    | .regexLit, .regex none => true
    | .regexLit, .regex (some p) => p != [] && utf8Valid p
    | .ptr _, .blob _ => true
    | _, _ => false

def shipS (pt : PT) (e : EncK) (d : DecK) (v : SVal) : Option SVal :=
  match encS e v with
  | none => none
  | some w =>
    match protoS pt w with
    | none => none
    | some w' => decS d w'

theorem protoS_int (pt : PT) (wt : IntT) (h : pt.intT? = some wt) (x : Int) : protoS pt (.int x) = some (.int x) := by
  cases pt <;> simp [PT.intT?] at h <;> simp [protoS]

theorem scalar_rt (g : GoT) (pt : PT) (e : EncK) (d : DecK) (v : SVal)
    (hk : scalarOK g pt e d = true) (ht : typedS g v = true) : shipS pt e d v = some v := by
  unfold scalarOK at hk
  split at hk
  · -- integers
    rename_i lo hi wt hr hw
    unfold typedS at ht
    rw [hr] at ht
    cases v <;> simp at ht
    rename_i x
    obtain ⟨hx1, hx2⟩ := ht
    simp only [intPairOK, Bool.and_eq_true, decide_eq_true_eq] at hk
    obtain ⟨⟨⟨hw1, hw2⟩, he⟩, hd⟩ := hk
    have hp := protoS_int pt wt hw
    cases e <;> simp at he
    · -- id
      cases d <;> simp at hd
      · simp [shipS, encS, hp, decS]
      · rename_i t _
        have := wrapT_id t x (by omega) (by omega)
        simp [shipS, encS, hp, decS, this]
    · -- cast
      rename_i t1
      have h1 := wrapT_id t1 x (by omega) (by omega)
      cases d <;> simp at hd
      · simp [shipS, encS, hp, decS, h1]
      · rename_i t _
        have := wrapT_id t x (by omega) (by omega)
        simp [shipS, encS, hp, decS, h1, this]
    · -- method Nanoseconds
      rename_i m
      subst he
      cases d <;> simp at hd
      · simp [shipS, encS, durMethod, hp, decS]
      · rename_i t _
        have := wrapT_id t x (by omega) (by omega)
        simp [shipS, encS, durMethod, hp, decS, this]
  · -- the other scalar kinds
    rename_i hnot
    split at hk
    · -- bool
      cases v <;> simp [typedS, GoT.range?] at ht
      simp [shipS, encS, protoS, decS]
    · -- string
      cases v <;> simp [typedS, GoT.range?] at ht
      simp [shipS, encS, protoS, decS, ht]
    · -- bytes
      cases v <;> simp [typedS, GoT.range?] at ht
      simp [shipS, encS, protoS, decS]
    · -- regex
      cases v <;> simp [typedS, GoT.range?] at ht
      rename_i r
      cases r with
      | none => simp [shipS, encS, protoS, decS, utf8Valid, utf8ValidF]
      | some p =>
        simp [typedS, GoT.range?] at ht
        cases p with
        | nil => simp at ht
        | cons c p => simp [shipS, encS, protoS, decS, ht.2]
    · -- pointer to a struct with a codec of its own
      cases v <;> simp [typedS, GoT.range?] at ht
      simp [shipS, encS, protoS, decS]
    · simp at hk


/-! ## flat objects (Interval, VarRef, Measurement): every row sound ⇒ the object comes back -/

/-- a row of a flat codec: not shipped at all, or written and read under one message field by a
sound pair, the row being the one writer of that field. -/
def flatRowOK (c : Codec) (r : Row) : Bool :=
  if r.encWire == "" then r.decWire == "" && decide (r.dec = .none)
  else
    r.decWire == r.encWire &&
    (match c.rows.find? (fun x => x.encWire == r.decWire) with
     | some w => w.field == r.field && decide (w.enc = r.enc)
     | none => false) &&
    (match ptOfGo c.tags c.desc r.decWire with
     | some pt => scalarOK r.goT pt r.enc r.dec
     | none => false)

/-- the value a flat row delivers -/
def flatExpect (o : FObj) (r : Row) : SVal := if r.encWire == "" then szero r.goT else o r.field

theorem shipFlatField_ok (c : Codec) (o : FObj) (r : Row) (hk : flatRowOK c r = true)
    (ht : r.encWire ≠ "" → typedS r.goT (o r.field) = true) :
    shipFlatField c o r = some (flatExpect o r) ∧ (r.encWire ≠ "" → (wireOf c o r.encWire).isSome = true) := by
  unfold flatRowOK at hk
  by_cases he : r.encWire = ""
  · simp [he] at hk
    simp [shipFlatField, flatExpect, he, hk.1, hk.2]
  · have he' : (r.encWire == "") = false := by simpa using he
    simp only [he', Bool.false_eq_true, if_false, Bool.and_eq_true, beq_iff_eq] at hk
    obtain ⟨⟨hdw, hf⟩, hp⟩ := hk
    have hdw' : (r.decWire == "") = false := by rw [hdw]; exact he'
    split at hf
    · rename_i w hw
      split at hp
      · rename_i pt hpt
        simp only [Bool.and_eq_true, beq_iff_eq, decide_eq_true_eq] at hf
        have hrt := scalar_rt r.goT pt r.enc r.dec (o r.field) hp (ht he)
        unfold shipS at hrt
        have hwire : wireOf c o r.decWire = (match encS r.enc (o r.field) with
            | none => none
            | some ws => protoS pt ws) := by
          simp only [wireOf, hpt, hw, hf.1, hf.2]
          cases encS r.enc (o r.field) <;> rfl
        constructor
        · simp only [shipFlatField, hdw', Bool.false_eq_true, if_false, hwire, flatExpect, he']
          cases h1 : encS r.enc (o r.field) with
          | none => simp [h1] at hrt
          | some ws =>
            simp only [h1] at hrt ⊢
            cases h2 : protoS pt ws with
            | none => simp [h2] at hrt
            | some w' => simp only [h2] at hrt ⊢; exact hrt
        · intro _
          rw [← hdw, hwire]
          cases h1 : encS r.enc (o r.field) with
          | none => simp [h1] at hrt
          | some ws =>
            simp only [h1] at hrt ⊢
            cases h2 : protoS pt ws with
            | none => simp [h2] at hrt
            | some w' => simp
      · simp at hp
    · simp at hf

theorem shipFlatList_ok (c : Codec) (o : FObj) : (rows : List Row) →
    (∀ r ∈ rows, shipFlatField c o r = some (flatExpect o r)) →
    shipFlatList c o rows = some (rows.map fun r => (r.field, flatExpect o r))
  | [], _ => rfl
  | r :: rs, h => by
    have h1 := h r (by simp)
    have h2 := shipFlatList_ok c o rs (fun x hx => h x (by simp [hx]))
    simp [shipFlatList, h1, h2]

/-- **a flat codec whose rows are all sound gives back every shipped field and the zero value of
every field it does not ship.** -/
theorem shipFlat_ok (c : Codec) (o : FObj) (hall : c.rows.all (flatRowOK c) = true)
    (ht : ∀ r ∈ c.rows, r.encWire ≠ "" → typedS r.goT (o r.field) = true) :
    shipFlat c o = some (c.rows.map fun r => (r.field, flatExpect o r)) := by
  have hrow : ∀ r ∈ c.rows, flatRowOK c r = true := by
    intro r hr
    exact (List.all_eq_true.mp hall) r hr
  have hm : marshalFlatOK c o = true := by
    unfold marshalFlatOK
    apply List.all_eq_true.mpr
    intro r hr
    by_cases he : r.encWire = ""
    · simp [he]
    · have := (shipFlatField_ok c o r (hrow r hr) (ht r hr)).2 he
      simp [this]
  unfold shipFlat
  rw [hm]
  simp only [if_true]
  exact shipFlatList_ok c o c.rows (fun r hr => (shipFlatField_ok c o r (hrow r hr) (ht r hr)).1)


/-! ### reading the decoded flat object back by field name -/

theorem lookupS_map (o : FObj) (f : String) : (rows : List Row) →
    lookupS (rows.map fun r => (r.field, flatExpect o r)) f =
      (match rows.find? (fun r => r.field == f) with
       | some r => flatExpect o r
       | none => .unmodelled)
  | [] => rfl
  | r :: rs => by
    have ih := lookupS_map o f rs
    by_cases h : (r.field == f) = true
    · simp [lookupS, List.find?, h]
    · have h' : (r.field == f) = false := by simpa using h
      simp only [lookupS, List.map, List.find?, h'] at ih ⊢
      exact ih

/-- the field named `f` is shipped by the codec -/
def shippedField (c : Codec) (f : String) : Bool :=
  match c.rows.find? (fun r => r.field == f) with
  | some r => r.encWire != ""
  | none => false

/-- the field named `f` is not shipped and its Go type has the zero value `z` -/
def unshippedField (c : Codec) (f : String) (z : SVal) : Bool :=
  match c.rows.find? (fun r => r.field == f) with
  | some r => r.encWire == "" && decide (szero r.goT = z)
  | none => false

theorem lookup_shipped (c : Codec) (o : FObj) (f : String) (h : shippedField c f = true) :
    lookupS (c.rows.map fun r => (r.field, flatExpect o r)) f = o f := by
  rw [lookupS_map]
  unfold shippedField at h
  split at h
  · rename_i r hr
    have hf : r.field = f := by simpa using List.find?_some hr
    have he : (r.encWire == "") = false := by simpa using h
    simp [hr, flatExpect, he, hf]
  · simp at h

theorem lookup_unshipped (c : Codec) (o : FObj) (f : String) (z : SVal) (h : unshippedField c f z = true) :
    lookupS (c.rows.map fun r => (r.field, flatExpect o r)) f = z := by
  rw [lookupS_map]
  unfold unshippedField at h
  split at h
  · rename_i r hr
    simp only [Bool.and_eq_true, beq_iff_eq, decide_eq_true_eq] at h
    simp [hr, flatExpect, h.1, h.2]
  · simp at h

def typedObj (c : Codec) (o : FObj) : Bool :=
  c.rows.all fun r => r.encWire == "" || typedS r.goT (o r.field)

theorem typedObj_spec (c : Codec) (o : FObj) (h : typedObj c o = true) :
    ∀ r ∈ c.rows, r.encWire ≠ "" → typedS r.goT (o r.field) = true := by
  intro r hr he
  have := (List.all_eq_true.mp h) r hr
  have he' : (r.encWire == "") = false := by simpa using he
  simpa [he'] using this

/-! ### Interval -/

theorem interval_rows_sound : codec_interval.all (flatRowOK intervalCodec) = true := by decide

theorem interval_fields :
    shippedField intervalCodec "Duration" = true ∧ shippedField intervalCodec "Offset" = true := by decide

/-- **hybridqp.Interval comes back as it was sent** (every int64 count of nanoseconds, negative
offsets included). -/
theorem interval_roundtrip (d o : Int) (hd : inT .dur d = true) (ho : inT .dur o = true) :
    shipInterval d o = some (.interval d o) := by
  have ht : typedObj intervalCodec (intervalObj d o) = true := by
    have hd' := inT_spec _ _ hd
    have ho' := inT_spec _ _ ho
    simp [typedObj, intervalCodec, codec_interval, typedS, GoT.range?, intervalObj, hd'.1, hd'.2, ho'.1, ho'.2]
  have h := shipFlat_ok intervalCodec (intervalObj d o) interval_rows_sound (typedObj_spec _ _ ht)
  unfold shipInterval
  rw [h]
  dsimp only
  rw [lookup_shipped _ _ _ interval_fields.1, lookup_shipped _ _ _ interval_fields.2]
  simp [intervalObj]

/-! ### VarRef -/

theorem varRef_rows_sound : codec_varRef.all (flatRowOK varRefCodec) = true := by decide

theorem varRef_fields :
    shippedField varRefCodec "Val" = true ∧ shippedField varRefCodec "Type" = true ∧
    unshippedField varRefCodec "Alias" (.str []) = true := by decide

/-- the number of declared DataType constants (`Unknown` … `Graph`) -/
def dataTypeCount : Int :=
  match codec_varRef.find? (fun r => r.field == "Type") with
  | some r => (match r.goT.range? with | some (_, hi) => hi | none => 0)
  | none => 0

def typedRef (r : VRef) : Bool := utf8Valid r.val && decide (0 ≤ r.ty) && decide (r.ty < dataTypeCount)

/-- **a VarRef of `Aux` comes back with its name and type** (the alias is not shipped). -/
theorem varRef_roundtrip (r : VRef) (ht : typedRef r = true) : shipRef r = some { r with alias := [] } := by
  simp only [typedRef, Bool.and_eq_true, decide_eq_true_eq] at ht
  have hty : typedObj varRefCodec (refObj r) = true := by
    have h12 : dataTypeCount = 12 := by decide
    rw [h12] at ht
    simp [typedObj, varRefCodec, codec_varRef, typedS, GoT.range?, refObj, ht.1.1, ht.1.2, ht.2]
  have h := shipFlat_ok varRefCodec (refObj r) varRef_rows_sound (typedObj_spec _ _ hty)
  unfold shipRef
  rw [h]
  dsimp only
  unfold refOfList
  rw [lookup_shipped _ _ _ varRef_fields.1, lookup_shipped _ _ _ varRef_fields.2.1,
    lookup_unshipped _ _ _ _ varRef_fields.2.2]
  simp [refObj]

theorem shipRefs_ok : (l : List VRef) → (∀ r ∈ l, typedRef r = true) →
    shipRefs l = some (l.map fun r => { r with alias := [] })
  | [], _ => rfl
  | r :: rs, h => by
    have h1 := varRef_roundtrip r (h r (by simp))
    have h2 := shipRefs_ok rs (fun x hx => h x (by simp [hx]))
    simp [shipRefs, h1, h2]


/-! ### Measurement -/

theorem measurement_rows_sound : codec_measurement.all (flatRowOK measurementCodec) = true := by decide

theorem measurement_fields :
    shippedField measurementCodec "Database" = true ∧ shippedField measurementCodec "RetentionPolicy" = true ∧
    shippedField measurementCodec "Name" = true ∧ shippedField measurementCodec "Regex" = true ∧
    shippedField measurementCodec "IsTarget" = true ∧ shippedField measurementCodec "SystemIterator" = true ∧
    unshippedField measurementCodec "IsSystemStatement" (.bool false) = true ∧
    unshippedField measurementCodec "Alias" (.str []) = true ∧
    shippedField measurementCodec "IsTimeSorted" = true ∧ shippedField measurementCodec "IndexRelation" = true ∧
    shippedField measurementCodec "ObsOptions" = true ∧ shippedField measurementCodec "EngineType" = true ∧
    unshippedField measurementCodec "MstType" (.str []) = true := by decide

/-- number of declared EngineType constants -/
def engineTypeCount : Int :=
  match codec_measurement.find? (fun r => r.field == "EngineType") with
  | some r => (match r.goT.range? with | some (_, hi) => hi | none => 0)
  | none => 0

def typedMst (m : Mst) : Bool :=
  utf8Valid m.db && utf8Valid m.rp && utf8Valid m.name && utf8Valid m.sysIter &&
  (match m.regex with
   | none => true
   | some p => p != [] && utf8Valid p) &&
  decide (0 ≤ m.engineType) && decide (m.engineType < engineTypeCount)

/-- **a measurement of `opt.Sources` comes back with every field the store reads** (database,
retention policy, name or regex, system iterator, engine type, index relation, OBS options, the
two flags); `Alias`, `IsSystemStatement`, `MstType` are not shipped. The payloads behind
`IndexRelation` / `ObsOptions` travel by codecs of their own (`encodeIndexRelation`: coverage table
and harness; `encodeObsOptions`: `obsOptions_rows_sound`). -/
theorem measurement_roundtrip (m : Mst) (ht : typedMst m = true) : shipMst m = some (normMst m) := by
  simp only [typedMst, Bool.and_eq_true, decide_eq_true_eq] at ht
  obtain ⟨⟨⟨⟨⟨⟨h1, h2⟩, h3⟩, h4⟩, h5⟩, h6⟩, h7⟩ := ht
  have hty : typedObj measurementCodec (mstObj m) = true := by
    have h3c : engineTypeCount = 3 := by decide
    rw [h3c] at h7
    cases hr : m.regex with
    | none =>
      simp [typedObj, measurementCodec, codec_measurement, typedS, GoT.range?, mstObj, h1, h2, h3, h4, h6, h7, hr]
    | some p =>
      rw [hr] at h5
      simp only [Bool.and_eq_true, bne_iff_ne, ne_eq] at h5
      simp [typedObj, measurementCodec, codec_measurement, typedS, GoT.range?, mstObj, h1, h2, h3, h4, h5.1, h5.2, h6, h7, hr]
  have h := shipFlat_ok measurementCodec (mstObj m) measurement_rows_sound (typedObj_spec _ _ hty)
  obtain ⟨f1, f2, f3, f4, f5, f6, f7, f8, f9, f10, f11, f12, f13⟩ := measurement_fields
  unfold shipMst
  rw [h]
  dsimp only
  unfold mstOfList
  rw [lookup_shipped _ _ _ f1, lookup_shipped _ _ _ f2, lookup_shipped _ _ _ f3, lookup_shipped _ _ _ f4,
    lookup_shipped _ _ _ f5, lookup_shipped _ _ _ f6, lookup_unshipped _ _ _ _ f7, lookup_unshipped _ _ _ _ f8,
    lookup_shipped _ _ _ f9, lookup_shipped _ _ _ f10, lookup_shipped _ _ _ f11, lookup_shipped _ _ _ f12,
    lookup_unshipped _ _ _ _ f13]
  simp [mstObj, normMst]

theorem obsOptions_rows_sound :
    codec_obsOptions.all (flatRowOK ⟨codec_obsOptions, tags_ObsOptions, desc_ObsOptions⟩) = true := by decide

def typedSrc : Source → Bool
  | .mst m => typedMst m
  | .otherSrc => false        -- the planner hands measurements only; anything else is skipped by the encoder

theorem shipSrcList_ok : (l : List Source) → (∀ s ∈ l, typedSrc s = true) →
    shipSrcList l = some (l.map normSrc)
  | [], _ => rfl
  | .otherSrc :: rs, h => by
    have := h .otherSrc (by simp)
    simp [typedSrc] at this
  | .mst m :: rs, h => by
    have h1 := measurement_roundtrip m (by simpa [typedSrc] using h (.mst m) (by simp))
    have h2 := shipSrcList_ok rs (fun x hx => h x (by simp [hx]))
    simp [shipSrcList, h1, h2, normSrc]


/-! ## the options struct -/

/-- the one encoding of FillValue the model knows to be what it is: float64 as it is, int64 through float64(v) -/
def fillCases : List (String × Bool) := [("float64", false), ("int64", true)]

/-- what reaches the store of a FillValue -/
def fillShipped : FillV → UInt64
  | .f64 b => b
  | .i64 v => bitsOfInt v
  | _ => 0

/-- how a field of the options struct must be written and read for its value to come back -/
def optKindOK (g : GoT) (pt : PT) (rep : Bool) (e : EncK) (d : DecK) : Bool :=
  match g with
  | .strs => pt == .string && rep && decide (e = .id) && decide (d = .id)
  | .keyset => pt == .mapStringBool && decide (e = .helper "StructToBool" .none) && decide (d = .helper "BoolToStruct" .none)
  | .expr => pt == .string && !rep && decide (e = .text .nonNil ".String") && decide (d = .parse .nonEmpty "influxql.ParseExpr")
  | .loc => pt == .string && !rep && decide (e = .text .nonNil ".String") && decide (d = .parse .nonEmpty "time.LoadLocation")
  | .sortFields => pt == .string && !rep && decide (e = .text .lenPos ".String") && decide (d = .parse .nonEmpty "influxql.ParseSortFields")
  | .varRefs => pt == .msg "VarRef" && rep && decide (e = .helper "encodeVarRefs" .none) && decide (d = .helper "decodeVarRefs" .none)
  | .interval => pt == .msg "Interval" && !rep && decide (e = .helper "encodeInterval" .none) && decide (d = .helper "decodeInterval" .none)
  | .sources => pt == .msg "Measurement" && rep &&
      decide (e = .srcLoop "influxql.Measurement" "encodeMeasurement") && decide (d = .srcLoop "decodeMeasurement")
  | .iface => pt == .double && !rep && decide (e = .ifaceSwitch fillCases) && decide (d = .id)
  | g => !rep && scalarOK g pt e d

/-- the values of a field the theorem ranges over. For the three expression fields, the sort
fields and the location this is the statement that the text is read back as the value — the
expression theorem (`expr_roundtrip_partial`) and `sorts_roundtrip` give it at token level. -/
def typedV (g : GoT) (v : Val) : Bool :=
  match g, v with
  | .strs, .strs l => allValid l
  | .keyset, .keys l => allValid l
  | .expr, .expr none => true
  | .expr, .expr (some e) => render e != [] && decide (parseExprChars (render e) = some e)
  | .loc, .loc none => true
  | .loc, .loc (some l) => l.name != [] && decide (loadLocation l.name = some l)
  | .sortFields, .sorts l => l.isEmpty || (renderSorts l != [] && decide (parseSortFieldsChars (renderSorts l) = some l))
  | .varRefs, .refs l => l.all typedRef
  | .interval, .interval d o => inT .dur d && inT .dur o
  | .sources, .sources none => true
  | .sources, .sources (some l) => !l.isEmpty && l.all typedSrc
  | .iface, .fill _ => true
  | g, .sc s => typedS g s
  | _, _ => false

/-- the value the store holds after decoding -/
def expectV : Val → Val
  | .fill f => .fill (.f64 (fillShipped f))
  | v => normV v

def shipV (g : GoT) (pt : PT) (e : EncK) (d : DecK) (v : Val) : Option Val :=
  match encV e pt v with
  | none => none
  | some w => decV g d w

theorem encS_not_dbl (k : EncK) (s : SVal) (w : WS) (h : encS k s = some w) : ∀ b, w ≠ .dbl b := by
  intro b hb
  subst hb
  unfold encS at h
  split at h <;> simp at h

theorem protoS_not_dbl (pt : PT) (w w' : WS) (hw : ∀ b, w ≠ .dbl b) (h : protoS pt w = some w') : ∀ b, w' ≠ .dbl b := by
  unfold protoS at h
  split at h
  · split at h <;> simp at h
    subst h; intro b; simp
  · simp at h
  · simp at h; subst h; exact hw

theorem decV_sc (g : GoT) (d : DecK) (w : WS) (hw : ∀ b, w ≠ .dbl b) : decV g d (.sc w) = (decS d w).map .sc := by
  cases w <;> first | rfl | (rename_i b; exact absurd rfl (hw b))

theorem shipV_scalar (g : GoT) (pt : PT) (e : EncK) (d : DecK) (s : SVal)
    (hk : scalarOK g pt e d = true) (ht : typedS g s = true) : shipV g pt e d (.sc s) = some (.sc s) := by
  have h := scalar_rt g pt e d s hk ht
  unfold shipS at h
  unfold shipV encV
  cases h1 : encS e s with
  | none => simp [h1] at h
  | some w =>
    simp only [h1] at h ⊢
    cases h2 : protoS pt w with
    | none => simp [h2] at h
    | some w' =>
      simp only [h2] at h
      have hnd := protoS_not_dbl pt w w' (encS_not_dbl e s w h1) h2
      simp [decV_sc g d w' hnd, h]


theorem all_typedRef (l : List VRef) (h : l.all typedRef = true) : ∀ r ∈ l, typedRef r = true :=
  fun r hr => (List.all_eq_true.mp h) r hr

theorem all_typedSrc (l : List Source) (h : l.all typedSrc = true) : ∀ s ∈ l, typedSrc s = true :=
  fun r hr => (List.all_eq_true.mp h) r hr

theorem typedS_strs (s : SVal) : typedS .strs s = false := by cases s <;> rfl
theorem typedS_keyset (s : SVal) : typedS .keyset s = false := by cases s <;> rfl
theorem typedS_expr (s : SVal) : typedS .expr s = false := by cases s <;> rfl
theorem typedS_loc (s : SVal) : typedS .loc s = false := by cases s <;> rfl
theorem typedS_sortFields (s : SVal) : typedS .sortFields s = false := by cases s <;> rfl
theorem typedS_varRefs (s : SVal) : typedS .varRefs s = false := by cases s <;> rfl
theorem typedS_interval (s : SVal) : typedS .interval s = false := by cases s <;> rfl
theorem typedS_sources (s : SVal) : typedS .sources s = false := by cases s <;> rfl
theorem typedS_iface (s : SVal) : typedS .iface s = false := by cases s <;> rfl

/-- **one field through encoder, protobuf and decoder**: written and read as `optKindOK` allows,
a value of the field's domain arrives as `expectV` of itself. -/
theorem kind_rt (g : GoT) (pt : PT) (rep : Bool) (e : EncK) (d : DecK) (v : Val)
    (hk : optKindOK g pt rep e d = true) (ht : typedV g v = true) : shipV g pt e d v = some (expectV v) := by
  unfold optKindOK at hk
  split at hk
  · -- []string
    simp only [Bool.and_eq_true, decide_eq_true_eq] at hk
    obtain ⟨⟨_, he⟩, hd⟩ := hk
    subst he hd
    cases v with
    | strs l =>
      simp [typedV] at ht
      simp [shipV, encV, decV, ht, expectV, normV]
    | sc s => simp [typedV, typedS_strs] at ht
    | _ => simp [typedV] at ht
  · -- map[string]struct{}
    simp only [Bool.and_eq_true, decide_eq_true_eq] at hk
    obtain ⟨⟨_, he⟩, hd⟩ := hk
    subst he hd
    cases v with
    | keys l =>
      simp [typedV] at ht
      simp [shipV, encV, decV, ht, expectV, normV]
    | sc s => simp [typedV, typedS_keyset] at ht
    | _ => simp [typedV] at ht
  · -- influxql.Expr
    simp only [Bool.and_eq_true, decide_eq_true_eq] at hk
    obtain ⟨⟨_, he⟩, hd⟩ := hk
    subst he hd
    cases v with
    | expr x =>
      cases x with
      | none => simp [shipV, encV, decV, expectV, normV]
      | some ex =>
        simp [typedV] at ht
        obtain ⟨hne, hrt⟩ := ht
        cases hr : render ex with
        | nil => exact absurd hr hne
        | cons c t =>
          rw [hr] at hrt
          simp [shipV, encV, decV, hr, hrt, expectV, normV]
    | sc s => simp [typedV, typedS_expr] at ht
    | _ => simp [typedV] at ht
  · -- *time.Location
    simp only [Bool.and_eq_true, decide_eq_true_eq] at hk
    obtain ⟨⟨_, he⟩, hd⟩ := hk
    subst he hd
    cases v with
    | loc x =>
      cases x with
      | none => simp [shipV, encV, decV, expectV, normV]
      | some l =>
        simp [typedV] at ht
        obtain ⟨hne, hrt⟩ := ht
        cases hr : l.name with
        | nil => exact absurd hr hne
        | cons c t =>
          rw [hr] at hrt
          simp [shipV, encV, decV, hr, hrt, expectV, normV]
    | sc s => simp [typedV, typedS_loc] at ht
    | _ => simp [typedV] at ht
  · -- influxql.SortFields
    simp only [Bool.and_eq_true, decide_eq_true_eq] at hk
    obtain ⟨⟨_, he⟩, hd⟩ := hk
    subst he hd
    cases v with
    | sorts l =>
      simp [typedV] at ht
      rcases ht with hl | ⟨hne, hrt⟩
      · subst hl
        simp [shipV, encV, decV, renderSorts, expectV, normV]
      · cases hr : renderSorts l with
        | nil => exact absurd hr hne
        | cons c t =>
          rw [hr] at hrt
          simp [shipV, encV, decV, hr, hrt, expectV, normV]
    | sc s => simp [typedV, typedS_sortFields] at ht
    | _ => simp [typedV] at ht
  · -- []influxql.VarRef
    simp only [Bool.and_eq_true, decide_eq_true_eq] at hk
    obtain ⟨⟨_, he⟩, hd⟩ := hk
    subst he hd
    cases v with
    | refs l =>
      simp [typedV] at ht
      have := shipRefs_ok l (fun r hr => ht r hr)
      simp [shipV, encV, decV, this, expectV, normV]
    | sc s => simp [typedV, typedS_varRefs] at ht
    | _ => simp [typedV] at ht
  · -- hybridqp.Interval
    simp only [Bool.and_eq_true, decide_eq_true_eq] at hk
    obtain ⟨⟨_, he⟩, hd⟩ := hk
    subst he hd
    cases v with
    | interval dd oo =>
      simp [typedV] at ht
      have := interval_roundtrip dd oo ht.1 ht.2
      simp [shipV, encV, decV, this, expectV, normV]
    | sc s => simp [typedV, typedS_interval] at ht
    | _ => simp [typedV] at ht
  · -- []influxql.Source
    simp only [Bool.and_eq_true, decide_eq_true_eq] at hk
    obtain ⟨⟨_, he⟩, hd⟩ := hk
    subst he hd
    cases v with
    | sources x =>
      cases x with
      | none => simp [shipV, encV, decV, expectV, normV]
      | some l =>
        simp [typedV] at ht
        obtain ⟨hne, hall⟩ := ht
        have := shipSrcList_ok l (fun s hs => hall s hs)
        cases l with
        | nil => simp at hne
        | cons s rest => simp [shipV, encV, decV, this, expectV, normV]
    | sc s => simp [typedV, typedS_sources] at ht
    | _ => simp [typedV] at ht
  · -- interface{} (FillValue)
    simp only [Bool.and_eq_true, decide_eq_true_eq] at hk
    obtain ⟨⟨_, he⟩, hd⟩ := hk
    subst he hd
    cases v with
    | fill f =>
      cases f <;> simp [shipV, encV, decV, fillBits, fillCases, expectV, fillShipped, List.find?]
    | sc s => simp [typedV, typedS_iface] at ht
    | _ => simp [typedV] at ht
  · -- scalar fields
    simp only [Bool.and_eq_true] at hk
    cases v with
    | sc s =>
      have hts : typedS g s = true := by
        unfold typedV at ht
        split at ht <;> first | exact ht | (simp_all)
      rw [shipV_scalar g pt e d s hk.2 hts]
      simp [expectV, normV]
    | _ =>
      exfalso
      unfold typedV at ht
      split at ht <;> simp_all


/-! ### rows of the options table -/

/-- a row of `codec_options`: not shipped at all, or written and read under one message field, the
row being the one writer of that field, in a way `optKindOK` accepts. -/
def optRowOK (rows : List Row) (r : Row) : Bool :=
  if r.encWire == "" then r.decWire == "" && decide (r.dec = .none)
  else
    r.decWire == r.encWire &&
    (match rows.find? (fun x => x.encWire == r.decWire) with
     | some w => w.field == r.field && decide (w.enc = r.enc)
     | none => false) &&
    (match ptOfGo optionsTags optionsDesc r.decWire with
     | some pt => optKindOK r.goT pt (isRepeated optionsTags r.decWire) r.enc r.dec
     | none => false)

def optExpect (o : Obj) (r : Row) : Val := if r.encWire == "" then vzero r.goT else expectV (o r.field)

theorem shipOptField_ok (rows : List Row) (o : Obj) (r : Row) (hk : optRowOK rows r = true)
    (ht : r.encWire ≠ "" → typedV r.goT (o r.field) = true) :
    shipOptField rows o r = some (optExpect o r) ∧ (r.encWire ≠ "" → (wireOfV rows o r.goT r.encWire).isSome = true) := by
  unfold optRowOK at hk
  by_cases he : r.encWire = ""
  · simp [he] at hk
    simp [shipOptField, optExpect, he, hk.1, hk.2]
  · have he' : (r.encWire == "") = false := by simpa using he
    simp only [he', Bool.false_eq_true, if_false, Bool.and_eq_true, beq_iff_eq] at hk
    obtain ⟨⟨hdw, hf⟩, hp⟩ := hk
    have hdw' : (r.decWire == "") = false := by rw [hdw]; exact he'
    split at hf
    · rename_i w hw
      split at hp
      · rename_i pt hpt
        simp only [Bool.and_eq_true, beq_iff_eq, decide_eq_true_eq] at hf
        have hrt := kind_rt r.goT pt _ r.enc r.dec (o r.field) hp (ht he)
        unfold shipV at hrt
        have hwire : wireOfV rows o r.goT r.decWire = encV r.enc pt (o r.field) := by
          simp only [wireOfV, hpt, hw, hf.1, hf.2]
        constructor
        · simp only [shipOptField, hdw', Bool.false_eq_true, if_false, hwire, optExpect, he']
          cases h1 : encV r.enc pt (o r.field) with
          | none => simp [h1] at hrt
          | some w' => simp only [h1] at hrt ⊢; exact hrt
        · intro _
          rw [← hdw, hwire]
          cases h1 : encV r.enc pt (o r.field) with
          | none => simp [h1] at hrt
          | some w' => simp
      · simp at hp
    · simp at hf

theorem shipOptList_ok (all : List Row) (o : Obj) : (rows : List Row) →
    (∀ r ∈ rows, shipOptField all o r = some (optExpect o r)) →
    shipOptList all o rows = some (rows.map fun r => (r.field, optExpect o r))
  | [], _ => rfl
  | r :: rs, h => by
    have h1 := h r (by simp)
    have h2 := shipOptList_ok all o rs (fun x hx => h x (by simp [hx]))
    simp [shipOptList, h1, h2]

def typedOpts (rows : List Row) (o : Obj) : Bool :=
  rows.all fun r => r.encWire == "" || typedV r.goT (o r.field)

theorem shipOpts_ok (rows : List Row) (o : Obj) (hall : rows.all (optRowOK rows) = true)
    (ht : typedOpts rows o = true) :
    shipOpts rows o = some (rows.map fun r => (r.field, optExpect o r)) := by
  have hrow : ∀ r ∈ rows, optRowOK rows r = true := fun r hr => (List.all_eq_true.mp hall) r hr
  have htr : ∀ r ∈ rows, r.encWire ≠ "" → typedV r.goT (o r.field) = true := by
    intro r hr he
    have := (List.all_eq_true.mp ht) r hr
    have he' : (r.encWire == "") = false := by simpa using he
    simpa [he'] using this
  have hm : marshalOK rows o = true := by
    unfold marshalOK
    apply List.all_eq_true.mpr
    intro r hr
    by_cases he : r.encWire = ""
    · simp [he]
    · have := (shipOptField_ok rows o r (hrow r hr) (htr r hr)).2 he
      simp [this]
  unfold shipOpts
  rw [hm]
  simp only [if_true]
  exact shipOptList_ok rows o rows (fun r hr => (shipOptField_ok rows o r (hrow r hr) (htr r hr)).1)

theorem lookupV_map (o : Obj) (f : String) : (rows : List Row) →
    lookupV (rows.map fun r => (r.field, optExpect o r)) f =
      (match rows.find? (fun r => r.field == f) with
       | some r => some (optExpect o r)
       | none => none)
  | [] => rfl
  | r :: rs => by
    have ih := lookupV_map o f rs
    by_cases h : (r.field == f) = true
    · simp [lookupV, List.find?, h]
    · have h' : (r.field == f) = false := by simpa using h
      simp only [lookupV, List.map, List.find?, h'] at ih ⊢
      exact ih

/-! ## the theorem -/

/-- **every row of the regenerated options table is sound** (kernel evaluation over the table) -/
theorem options_rows_sound : codec_options.all (optRowOK codec_options) = true := by decide

/-- every field judged relevant is shipped, and by a row that is not the lossy FillValue row -/
def relevantShipped : Bool :=
  judgement.all fun p =>
    match p.2 with
    | .relevant =>
      (match codec_options.find? (fun r => r.field == p.1) with
       | some r => r.encWire != "" && decide (r.goT ≠ .iface)
       | none => false)
    | _ => true

theorem relevant_fields_shipped : relevantShipped = true := by decide


theorem expectV_of_not_fill (v : Val) (h : ∀ f, v ≠ .fill f) : expectV v = normV v := by
  cases v <;> first | rfl | (rename_i f; exact absurd rfl (h f))

theorem typedV_fill_iface (g : GoT) (f : FillV) (h : typedV g (.fill f) = true) : g = .iface := by
  cases g <;> simp [typedV] at h ⊢

/-- **`opts_roundtrip_partial`.** For every options object whose shipped fields hold values of
their domain (`typedOpts`: integers of the Go type, declared constants of an enumeration, strings
that are valid UTF-8, a location `LoadLocation` finds again under its name, expressions / sort
fields whose printed text is read back as themselves, measurements as sources):
`MarshalBinary` then `UnmarshalBinary` succeeds, **every field judged relevant comes back equal**
(up to the sub-fields `normV` names: VarRef.Alias, Measurement.Alias / IsSystemStatement / MstType),
`FillValue` comes back as the float64 `fillShipped` says, and every other field holds the zero value
of its type. The rows are the regenerated ones: a field encoded in a way the model does not know,
read from another message field than it was written to, or converted through a type that does not
hold its values makes `options_rows_sound` fail. -/
theorem opts_roundtrip_partial (o : Obj) (ht : typedOpts codec_options o = true) :
    ∃ l, shipOpts codec_options o = some l ∧
      (∀ f, isRelevant f = true → lookupV l f = some (normV (o f))) := by
  refine ⟨_, shipOpts_ok codec_options o options_rows_sound ht, ?_⟩
  · intro f hf
    rw [lookupV_map]
    -- the judgement entry of f
    unfold isRelevant judgementOf at hf
    split at hf
    · rename_i j hj
      split at hj
      · rename_i p hp
        simp only [Option.some.injEq] at hj
        have hpf : p.1 = f := by simpa using List.find?_some hp
        have hmem : p ∈ judgement := List.mem_of_find?_eq_some hp
        have hrs := (List.all_eq_true.mp relevant_fields_shipped) p hmem
        rw [hj] at hrs
        simp only at hrs
        rw [hpf] at hrs
        split at hrs
        · rename_i r hr
          simp only [Bool.and_eq_true, bne_iff_ne, ne_eq, decide_eq_true_eq] at hrs
          have hrf : r.field = f := by simpa using List.find?_some hr
          have hmr : r ∈ codec_options := List.mem_of_find?_eq_some hr
          have he' : (r.encWire == "") = false := by simpa using hrs.1
          have htv := (List.all_eq_true.mp ht) r hmr
          simp only [he', Bool.false_or] at htv
          have hnf : ∀ fv, o r.field ≠ .fill fv := by
            intro fv hfv
            rw [hfv] at htv
            exact hrs.2 (typedV_fill_iface _ _ htv)
          rw [hrf] at hnf
          simp only [hr, optExpect, he', Bool.false_eq_true, if_false, hrf, expectV_of_not_fill _ hnf]
        · simp at hrs
      · simp at hj
    · simp at hf

/-- what the store holds for FillValue -/
theorem fillValue_shipped (o : Obj) (ht : typedOpts codec_options o = true) (f : FillV)
    (hf : o "FillValue" = .fill f) :
    ∃ l, shipOpts codec_options o = some l ∧ lookupV l "FillValue" = some (.fill (.f64 (fillShipped f))) := by
  refine ⟨_, shipOpts_ok codec_options o options_rows_sound ht, ?_⟩
  rw [lookupV_map]
  have : (match codec_options.find? (fun r => r.field == "FillValue") with
      | some r => r.encWire != "" && r.field == "FillValue"
      | none => false) = true := by decide
  split at this
  · rename_i r hr
    simp only [Bool.and_eq_true, bne_iff_ne, ne_eq, beq_iff_eq] at this
    have he' : (r.encWire == "") = false := by simpa using this.1
    simp [hr, optExpect, he', this.2, hf, expectV]
  · simp at this

/-- a field that is not shipped holds the zero value of its type on the store -/
theorem unshipped_is_zero (o : Obj) (ht : typedOpts codec_options o = true) (f : String) (r : Row)
    (hr : codec_options.find? (fun r => r.field == f) = some r) (hu : r.encWire = "") :
    ∃ l, shipOpts codec_options o = some l ∧ lookupV l f = some (vzero r.goT) := by
  refine ⟨_, shipOpts_ok codec_options o options_rows_sound ht, ?_⟩
  rw [lookupV_map]
  simp [hr, optExpect, hu]

/-! ### the full statement is false: three fields the store reads are not shipped, FillValue loses its type -/

/-- "serialising then deserialising yields an equal object", field by field over everything a store reads -/
def storeReads (f : String) : Bool :=
  match judgementOf f with
  | some (.irrelevant _) => false
  | some _ => true
  | none => false

def opts_roundtrip_full : Prop :=
  ∀ o : Obj, typedOpts codec_options o = true →
    ∃ l, shipOpts codec_options o = some l ∧ ∀ f, storeReads f = true → lookupV l f = some (normV (o f))

def witnessObj : Obj := fun f =>
  if f = "CompareOffset" then .sc (.int 3600000000000)
  else
    match codec_options.find? (fun r => r.field == f) with
    | some r => vzero r.goT
    | none => .opaque

theorem witnessObj_typed : typedOpts codec_options witnessObj = true := by decide

theorem witnessObj_shipped :
    (shipOpts codec_options witnessObj).bind (fun l => lookupV l "CompareOffset") = some (.sc (.int 0)) := by
  decide

theorem opts_roundtrip_full_false : ¬ opts_roundtrip_full := by
  intro h
  obtain ⟨l, hl, hall⟩ := h witnessObj witnessObj_typed
  have h1 := hall "CompareOffset" (by decide)
  have h2 := witnessObj_shipped
  rw [hl] at h2
  simp only [Option.bind] at h2
  rw [h1] at h2
  simp [witnessObj, normV] at h2

/-- the hypotheses of `opts_roundtrip_partial` hold of an object with non-default values in fields of
every kind (integers at the int64 limits, a negative interval offset, a condition, a time zone, DESC sort
fields that need quotes, a regex source, an int64 fill value) -/
def sampleObj : Obj := fun f =>
  if f = "Name" then .sc (.str [0x63, 0x70, 0x75])
  else if f = "Limit" then .sc (.int 9223372036854775807)
  else if f = "Offset" then .sc (.int (-9223372036854775808))
  else if f = "Ascending" then .sc (.bool true)
  else if f = "Fill" then .sc (.int 2)
  else if f = "FillValue" then .fill (.i64 5)
  else if f = "Interval" then .interval 60000000000 (-1500000)
  else if f = "Step" then .sc (.int 999999)
  else if f = "QueryId" then .sc (.int 18446744073709551615)
  else if f = "IterID" then .sc (.int (-2147483648))
  else if f = "Dimensions" then .strs [[0x68], []]
  else if f = "GroupBy" then .keys [[0x68]]
  else if f = "Location" then .loc (some (.named "Asia/Shanghai".toList))
  else if f = "Condition" then .expr (some (.binary .and (.binary .gt (.varRef ['a'] .unknown) (.int 1))
      (.binary .eq (.varRef "my col".toList .unknown) (.str "it's".toList))))
  else if f = "SortFields" then .sorts [("my col".toList, false), ("host".toList, true)]
  else if f = "Aux" then .refs [⟨[0x76], 1, [0x61]⟩]
  else if f = "Sources" then .sources (some [.mst ⟨[0x64], [0x72], [], some [0x5e, 0x61], false, [], true, [0x74], true, some 1, none, 1, [0x67]⟩])
  else if f = "CompareOffset" then .sc (.int 5)
  else
    match codec_options.find? (fun r => r.field == f) with
    | some r => vzero r.goT
    | none => .opaque

example : typedOpts codec_options sampleObj = true := by decide


/-! ## recorded expectations for the hand-transcribed helpers -/

theorem wire_fingerprints_expected : wireHelperFingerprints = [
  ("encodeVarRefs", "06882c4db77de5ca"),
  ("decodeVarRefs", "c69f69218e9c03a2"),
  ("MapConvert.StructToBool", "b6907e7d69c85e53"),
  ("MapConvert.BoolToStruct", "4c661cd76b21c23b"),
  ("ProcessorOptions.MarshalBinary", "cd7ca2b212ed1f78"),
  ("ProcessorOptions.UnmarshalBinary", "ce21297bdc30e05c")
] := by rfl

theorem reparse_fingerprints_expected : reparseFingerprints = [
  ("Scanner.reset", "990ac19e8693b016"),
  ("bufScanner.reset", "3a731124182c5a20"),
  ("Parser.reset", "ca18075239a5f1ae"),
  ("NewParser", "5810f01943632612"),
  ("ParseExpr", "d3bfc2fbe1534e11"),
  ("ParseSource", "b4758ede2bba8161"),
  ("ParseSortFields", "22527135735545ec"),
  ("Parser.parseSortFields", "a48d8a3591980416"),
  ("Parser.parseSortField", "227889fb0b23ec5a"),
  ("SortField.RenderBytes", "9f716c8869faf392"),
  ("SortFields.RenderBytes", "2975137f0f245f70"),
  ("Parser.parseFields", "a4c514d3edb8db54"),
  ("Parser.parseField", "a06a1f7f98e406c5"),
  ("Parser.parseAlias", "6d4622595ec64c18"),
  ("Field.RenderBytes", "303c734441abf17c"),
  ("Fields.RenderBytes", "eb8ebdc647fd6e1d"),
  ("ParseFields", "1e7be01a14ddba83")
] := by rfl

end OG.C12.Wire
