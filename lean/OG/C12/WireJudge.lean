/-
C12 — the per-field judgement of `query.ProcessorOptions` (core only; recorded expectation).

Every field of the struct is judged: `relevant` (the store reads it from the decoded object: it must
round-trip), `lossy` (shipped through a conversion that is not injective; what survives is stated
in `opts_roundtrip_partial`), `pushdown` (not shipped although store-side transforms of a plan
rebuilt under `/*+ query_push_down */` read it: a recorded finding), `irrelevant` with the reason
(where the field is written and read; none of the readers runs on a store over a decoded object).
A field that is in the struct and not in this table breaks `every_field_judged`.
-/
import OG.C12.Wire

namespace OG.C12.Wire

inductive Judgement where
  | relevant
  | lossy (what : String)
  | pushdown (why : String)
  | irrelevant (why : String)
deriving Repr

def Judgement.tag : Judgement → String
  | .relevant => "relevant"
  | .lossy _ => "relevant-lossy"
  | .pushdown _ => "pushdown"
  | .irrelevant _ => "irrelevant"

def judgement : List (String × Judgement) := [
  ("Name", .relevant), ("Expr", .relevant), ("Aux", .relevant), ("Sources", .relevant), ("Interval", .relevant),
  ("Dimensions", .relevant), ("GroupBy", .relevant), ("Location", .relevant), ("Fill", .relevant),
  ("FillValue", .lossy "the wire carries one float64: an int64 arrives as float64(v) (exact up to 2^53), nil as 0; the consumers read it through TransToFloat / TransToInteger"),
  ("Condition", .relevant), ("StartTime", .relevant), ("EndTime", .relevant), ("Limit", .relevant), ("Offset", .relevant),
  ("SLimit", .relevant), ("SOffset", .relevant), ("Ascending", .relevant), ("StripName", .relevant), ("Dedupe", .relevant),
  ("Ordered", .relevant), ("MaxSeriesN", .relevant), ("ChunkSize", .relevant), ("MaxParallel", .relevant), ("Query", .relevant),
  ("EnableBinaryTreeMerge", .relevant), ("QueryId", .relevant), ("HintType", .relevant), ("SeriesKey", .relevant),
  ("GroupByAllDims", .relevant), ("SortFields", .relevant), ("HasFieldWildcard", .relevant), ("LogQueryCurrId", .relevant),
  ("IncQuery", .relevant), ("IterID", .relevant), ("PromQuery", .relevant), ("PromRemoteRead", .relevant), ("Step", .relevant),
  ("Range", .relevant), ("LookBackDelta", .relevant), ("QueryOffset", .relevant), ("Without", .relevant),
  ("ValueCondition", .relevant),
  ("CompareOffset", .pushdown "set from stmt.CompareOffset (compare() rewrite); read by MaterializeTransform.materialize -> ResetTimeForCompare; an inner LogicalProject is rebuilt on the store only under query_push_down"),
  ("RemoveMetric", .pushdown "set from stmt.RemoveMetric (PromQL binary operations); read by MaterializeTransform (removeTableName); same condition as CompareOffset"),
  ("IsSameDims", .pushdown "set by BuildSources for a sub-query; read by NewOrderByTransform; LogicalOrderBy is rebuilt on the store only under query_push_down"),
  ("Exprs", .irrelevant "never set outside tests, never read"),
  ("FieldAux", .irrelevant "set and read by the consume service, which compiles its query on the store itself (never marshalled)"),
  ("TagAux", .irrelevant "as FieldAux"),
  ("Parallel", .irrelevant "never set outside tests, never read"),
  ("InterruptCh", .irrelevant "a channel; never set outside tests, never read"),
  ("Authorizer", .irrelevant "copied between option objects on the coordinator, no reader"),
  ("ChunkedSize", .irrelevant "read by the HTTP chunk sender, which is built above every node exchange (coordinator)"),
  ("Chunked", .irrelevant "read at compile time on the coordinator (VerifyHintStmt)"),
  ("AbortChan", .irrelevant "a channel of the HTTP sender (coordinator)"),
  ("RowsChan", .irrelevant "a channel of the HTTP sender (coordinator)"),
  ("isTimeFirstKey", .irrelevant "never set, never read"),
  ("StmtId", .irrelevant "read by ClusterShardMapping.GetETraits on the coordinator; its results Query / QueryId are shipped"),
  ("LowerOpt", .irrelevant "a pointer to the sub-query's options, read by the planner on the coordinator (isBuildHashAgg)"),
  ("BinOp", .irrelevant "read by the planner on the coordinator (isBuildHashAgg)"),
  ("IsCountValues", .irrelevant "read by the planner on the coordinator (isBuildHashAgg, on LowerOpt)"),
  ("SimpleTagset", .irrelevant "recomputed on the store by shard.Scan (schema.SetSimpleTagset) right before the index scan reads it"),
  ("NoPushDownDim", .irrelevant "read by newSubOptions on the coordinator"),
  ("ctx", .irrelevant "set on the store by shard.CreateCursor / ScanWithInvertedIndex before it is read"),
  ("InConditons", .irrelevant "copied into the schema by NewQuerySchema; InTransform clears it before the outer plan is built, on both paths"),
  ("IsArrowQuery", .irrelevant "read by NewChunkSender on the coordinator")
]

def judgementOf (f : String) : Option Judgement :=
  match judgement.find? (fun p => p.1 == f) with
  | some p => some p.2
  | none => none

def isRelevant (f : String) : Bool :=
  match judgementOf f with
  | some .relevant => true
  | _ => false

/-- sub-fields of shipped composite values that are not shipped, judged irrelevant on the store:
VarRef.Alias (the only store-side reader of Aux uses Val and Type), Measurement.Alias /
IsSystemStatement / MstType (read by the shard mapper and the meta client on the coordinator). -/
def normMst (m : Mst) : Mst := { m with alias := [], isSystemStatement := false, mstType := [] }

def normSrc : Source → Source
  | .mst m => .mst (normMst m)
  | .otherSrc => .otherSrc

def normV : Val → Val
  | .refs l => .refs (l.map fun r => { r with alias := [] })
  | .sources (some l) => .sources (some (l.map normSrc))
  | v => v

def judgedAnswer (f : String) : String :=
  match judgementOf f with
  | some j => j.tag
  | none => "unjudged"

end OG.C12.Wire
