/-
C12 — expectations about the regenerated facts: what ogfacts extracted from /repo *now* against
what the hand-written model was written for. A failure means the modelled source changed shape
(a grammar rule, an operator list, a scanner or printer body): the correspondence run then decides
whether the property still holds, and supplies the replay.
-/
import OG.C12.Model

namespace OG.C12.Facts
open OG.Gen.C12 OG.C12

theorem yaccCmpOps_expected : yaccCmpOps = ([.eq, .neq, .lt, .lte, .gt, .gte, .eqregex, .neqregex, .like] : List Op) := by rfl

theorem yaccColumnOps_expected : yaccColumnOps = ([.mul, .div, .add, .sub, .bitxor, .mod, .bitand, .bitor] : List Op) := by rfl

theorem yaccTypeNames_expected : yaccTypeNames = ([(['f', 'l', 'o', 'a', 't'], .float), (['i', 'n', 't', 'e', 'g', 'e', 'r'], .integer), (['s', 't', 'r', 'i', 'n', 'g'], .string), (['b', 'o', 'o', 'l', 'e', 'a', 'n'], .boolean), (['t', 'i', 'm', 'e'], .time), (['d', 'u', 'r', 'a', 't', 'i', 'o', 'n'], .duration), (['u', 'n', 's', 'i', 'g', 'n', 'e', 'd'], .unsigned)] : List (List Char × DataType)) := by rfl

theorem peTypeNames_expected : peTypeNames = ([(['f', 'l', 'o', 'a', 't'], .float), (['f', 'l', 'o', 'a', 't', 't', 'u', 'p', 'l', 'e'], .floatTuple), (['i', 'n', 't', 'e', 'g', 'e', 'r'], .integer), (['u', 'n', 's', 'i', 'g', 'n', 'e', 'd'], .unsigned), (['s', 't', 'r', 'i', 'n', 'g'], .string), (['b', 'o', 'o', 'l', 'e', 'a', 'n'], .boolean), (['t', 'i', 'm', 'e'], .time), (['t', 'a', 'g'], .tag)] : List (List Char × DataType)) := by rfl

theorem kwCheckDot_expected : kwCheckDot = ([.FROM, .MEASUREMENT, .INTO, .ON] : List Kw) := by rfl

theorem yaccUminusLevel_expected : yaccUminusLevel = (5 : Nat) := by rfl

theorem yaccUminusAssoc_expected : yaccUminusAssoc = (.right : Assoc) := by rfl

theorem src_qsReplacer_expected : src_qsReplacer = ("strings.NewReplacer(\"\\n\", `\\n`, `\\`, `\\\\`, `'`, `\\'`)" : String) := by rfl

theorem src_qiReplacer_expected : src_qiReplacer = ("strings.NewReplacer(\"\\n\", `\\n`, `\\`, `\\\\`, `\"`, `\\\"`)" : String) := by rfl

theorem rule_WHERE_CLAUSE_expected : rule_WHERE_CLAUSE = (["WHERE CONDITION", ""] : List String) := by rfl

theorem ruleHash_WHERE_CLAUSE_expected : ruleHash_WHERE_CLAUSE = ("da615181abf0c441" : String) := by rfl

theorem rule_CONDITION_expected : rule_CONDITION = (["OR_CONDITION", "LPAREN CONDITION RPAREN", "IDENT IN LPAREN COLUMN_CLAUSES RPAREN", "IDENT NOT IN LPAREN COLUMN_CLAUSES RPAREN", "IDENT IN LPAREN SELECT_STATEMENT RPAREN", "IDENT NOT IN LPAREN SELECT_STATEMENT RPAREN", "MATCH LPAREN STRING_TYPE COMMA STRING_TYPE RPAREN", "MATCHPHRASE LPAREN STRING_TYPE COMMA STRING_TYPE RPAREN", "IPINRANGE LPAREN STRING_TYPE COMMA STRING_TYPE RPAREN"] : List String) := by rfl

theorem ruleHash_CONDITION_expected : ruleHash_CONDITION = ("fc859283f0319fd6" : String) := by rfl

theorem rule_OR_CONDITION_expected : rule_OR_CONDITION = (["AND_CONDITION", "CONDITION OR CONDITION"] : List String) := by rfl

theorem ruleHash_OR_CONDITION_expected : ruleHash_OR_CONDITION = ("706159074b5f68f1" : String) := by rfl

theorem rule_AND_CONDITION_expected : rule_AND_CONDITION = (["OPERATION_EQUAL", "CONDITION AND CONDITION"] : List String) := by rfl

theorem ruleHash_AND_CONDITION_expected : ruleHash_AND_CONDITION = ("76d37c9a9611120f" : String) := by rfl

theorem rule_OPERATION_EQUAL_expected : rule_OPERATION_EQUAL = (["CONDITION_COLUMN CONDITION_OPERATOR CONDITION_COLUMN"] : List String) := by rfl

theorem ruleHash_OPERATION_EQUAL_expected : ruleHash_OPERATION_EQUAL = ("a4038365695dc73a" : String) := by rfl

theorem rule_CONDITION_COLUMN_expected : rule_CONDITION_COLUMN = (["COLUMN", "LPAREN CONDITION RPAREN"] : List String) := by rfl

theorem ruleHash_CONDITION_COLUMN_expected : ruleHash_CONDITION_COLUMN = ("552ef788d79327d5" : String) := by rfl

theorem rule_CONDITION_OPERATOR_expected : rule_CONDITION_OPERATOR = (["EQ", "NEQ", "LT", "LTE", "GT", "GTE", "EQREGEX", "NEQREGEX", "LIKE"] : List String) := by rfl

theorem ruleHash_CONDITION_OPERATOR_expected : ruleHash_CONDITION_OPERATOR = ("c556f8da26e73012" : String) := by rfl

theorem rule_COLUMN_expected : rule_COLUMN = (["COLUMN MUL COLUMN", "COLUMN DIV COLUMN", "COLUMN ADD COLUMN", "COLUMN SUB COLUMN", "COLUMN BITWISE_XOR COLUMN", "COLUMN MOD COLUMN", "COLUMN BITWISE_AND COLUMN", "COLUMN BITWISE_OR COLUMN", "LPAREN COLUMN RPAREN", "COLUMN_CALL", "SUB COLUMN %prec UMINUS", "COLUMN_VAREF", "DURATIONVAL", "CASE CASE_WHEN_CASES ELSE COLUMN END"] : List String) := by rfl

theorem ruleHash_COLUMN_expected : ruleHash_COLUMN = ("40c11eac8683285e" : String) := by rfl

theorem rule_COLUMN_CALL_expected : rule_COLUMN_CALL = (["IDENT LPAREN COLUMN_CLAUSES RPAREN", "IDENT LPAREN RPAREN"] : List String) := by rfl

theorem ruleHash_COLUMN_CALL_expected : ruleHash_COLUMN_CALL = ("6d5279f9d4dff2a1" : String) := by rfl

theorem rule_COLUMN_VAREF_expected : rule_COLUMN_VAREF = (["IDENT", "IDENT DOUBLECOLON COLUMN_VAREF_TYPE", "NUMBER", "INTEGER", "STRING", "TRUE", "FALSE", "REGULAR_EXPRESSION", "IDENT DOT IDENT", "BOUNDPARAM"] : List String) := by rfl

theorem ruleHash_COLUMN_VAREF_expected : ruleHash_COLUMN_VAREF = ("3b428d8d2b5d544f" : String) := by rfl

theorem rule_COLUMN_VAREF_TYPE_expected : rule_COLUMN_VAREF_TYPE = (["IDENT", "TAG", "FIELD"] : List String) := by rfl

theorem ruleHash_COLUMN_VAREF_TYPE_expected : ruleHash_COLUMN_VAREF_TYPE = ("828ed2b51177c1dc" : String) := by rfl

theorem rule_COLUMN_CLAUSES_expected : rule_COLUMN_CLAUSES = (["COLUMN_CLAUSE", "COLUMN_CLAUSES COMMA COLUMN_CLAUSE"] : List String) := by rfl

theorem ruleHash_COLUMN_CLAUSES_expected : ruleHash_COLUMN_CLAUSES = ("9650edcba52fa3a0" : String) := by rfl

theorem rule_COLUMN_CLAUSE_expected : rule_COLUMN_CLAUSE = (["MUL", "MUL DOUBLECOLON TAG", "MUL DOUBLECOLON FIELD", "COLUMN", "COLUMN AS IDENT", "COLUMN AS STRING"] : List String) := by rfl

theorem ruleHash_COLUMN_CLAUSE_expected : ruleHash_COLUMN_CLAUSE = ("8521413371432a11" : String) := by rfl

theorem rule_REGULAR_EXPRESSION_expected : rule_REGULAR_EXPRESSION = (["REGEX"] : List String) := by rfl

theorem ruleHash_REGULAR_EXPRESSION_expected : ruleHash_REGULAR_EXPRESSION = ("111160af6231d7cf" : String) := by rfl

theorem rule_STRING_TYPE_expected : rule_STRING_TYPE = (["IDENT", "STRING"] : List String) := by rfl

theorem ruleHash_STRING_TYPE_expected : ruleHash_STRING_TYPE = ("cb36f764454d2dff" : String) := by rfl

theorem yaccPrecLines_expected : yaccPrecLines = ([
  (.left, ["AND", "OR"]),
  (.left, ["ADD", "SUB", "BITWISE_OR", "BITWISE_XOR"]),
  (.left, ["MUL", "DIV", "MOD", "BITWISE_AND"]),
  (.left, ["UNION"]),
  (.right, ["UMINUS"])
] : List (Assoc × List String)) := by rfl

theorem peTypeTokens_expected : peTypeTokens = ([
  ("FIELD", "dtype = AnyField"),
  ("TAG", "dtype = Tag")
] : List (String × String)) := by rfl

theorem fingerprints_expected : fingerprints = ([
  ("scanner.go:Scanner.Scan", "f9a29cbf720bfb62"),
  ("scanner.go:Scanner.scanWhitespace", "4ee0bcfb91aede92"),
  ("scanner.go:Scanner.skipUntilNewline", "d507c1363fac8c5b"),
  ("scanner.go:Scanner.skipUntilEndComment", "c093347e0bc0f2c4"),
  ("scanner.go:Scanner.skipUntilEndRegex", "22a3c5beb396a203"),
  ("scanner.go:Scanner.scanIdent", "27588054cd4edf0a"),
  ("scanner.go:Scanner.scanString", "466812c750c5a4f5"),
  ("scanner.go:Scanner.ScanRegex", "8739a0b263393d43"),
  ("scanner.go:Scanner.scanNumber", "085a068989d775ba"),
  ("scanner.go:Scanner.scanDigits", "5ddf09ffe9b02abf"),
  ("scanner.go:ScanDelimited", "3028097525055dba"),
  ("scanner.go:Scanner.ScanString", "0ad09f07d9917a5e"),
  ("scanner.go:Scanner.ScanBareIdent", "f681bfdaa27454c2"),
  ("scanner.go:reader.read", "38d83b9725a3bcc5"),
  ("scanner.go:isWhitespace", "c3a6b688151fc56b"),
  ("scanner.go:isLetter", "62c42b6c4661aba0"),
  ("scanner.go:isDigit", "db8e9e2fd13a606a"),
  ("scanner.go:isIdentChar", "13f6ecafcc5b9060"),
  ("scanner.go:isIdentFirstChar", "9b8f535aa09263a3"),
  ("scanner.go:IsRegexOp", "cf946c6428b62fa8"),
  ("scanner.go:IsInOp", "e11ae329b1bc0cf5"),
  ("yyParser.go:YyParser.Lex", "67232ab61ddbd0da"),
  ("token.go:Lookup", "7057879600d3d908"),
  ("token.go:init", "0a64bcd01f23018f"),
  ("parser.go:Parser.ParseExpr", "b10ac96f2e0040b9"),
  ("parser.go:Parser.parseUnaryExpr", "a434cd8801f7b14b"),
  ("parser.go:Parser.parseRegex", "b400628da4ff5aae"),
  ("parser.go:Parser.parseSet", "dfcead77ee007d7a"),
  ("parser.go:Parser.parseCall", "a5a3f25bfacc3db2"),
  ("parser.go:Parser.ParseVarRef", "62aeb86d59728677"),
  ("parser.go:Parser.parseSegmentedIdents", "34dcaf7afc1b52d1"),
  ("parser.go:Parser.ParseIdent", "a2ddf1a2a367d46e"),
  ("parser.go:Parser.ScanIgnoreWhitespace", "642a84d5da53a982"),
  ("parser.go:Parser.consumeWhitespace", "449b674027e37641"),
  ("parser.go:Parser.peekRune", "0498d853ebe1ec5b"),
  ("parser.go:ParseDuration", "bd97123a9711cf6e"),
  ("parser.go:FormatDuration", "f26c45e4eacddd89"),
  ("parser.go:QuoteString", "5a900eb5456731f6"),
  ("parser.go:QuoteIdent", "3a723e0ac43e5eee"),
  ("parser.go:IdentNeedsQuotes", "e84f36bbc7dbe476"),
  ("ast.go:VarRef.RenderBytes", "0d9f399756b86d0b"),
  ("ast.go:Call.RenderBytes", "0c1f2209822340c6"),
  ("ast.go:NumberLiteral.RenderBytes", "476273ad9b3c64aa"),
  ("ast.go:IntegerLiteral.RenderBytes", "d3de4cd75fb0a3c3"),
  ("ast.go:UnsignedLiteral.RenderBytes", "6ccee16ae34a341f"),
  ("ast.go:BooleanLiteral.RenderBytes", "cc05359b573c0a95"),
  ("ast.go:SetLiteral.RenderBytes", "1d5702c29f99a68d"),
  ("ast.go:StringLiteral.RenderBytes", "2a68e2ec0244fa4e"),
  ("ast.go:DurationLiteral.RenderBytes", "c1b325b303c7db28"),
  ("ast.go:BinaryExpr.RenderBytes", "b2767a9862f2d2bb"),
  ("ast.go:ParenExpr.RenderBytes", "6db7a807435335e4"),
  ("ast.go:RegexLiteral.RenderBytes", "60740528a44e7406"),
  ("ast.go:Wildcard.RenderBytes", "a4865088f381258f")
] : List (String × String)) := by rfl

/-- the keywords the scanner model names explicitly are the ones of sql.y. -/
theorem keywords_expected : kwTable.length = 138 := by rfl

theorem pePrec_expected : Op.all.map pePrec = [1, 2, 3, 3, 3, 3, 3, 3, 3, 3, 3, 3, 4, 4, 4, 4, 5, 5, 5, 5, 6, 6, 6, 6] := by rfl
theorem yaccLevel_expected : Op.all.map yaccLevel = [1, 1, 0, 0, 0, 0, 0, 0, 0, 0, 0, 0, 2, 2, 2, 2, 3, 3, 3, 3, 0, 0, 0, 0] := by rfl
theorem isOperator_expected : Op.all.map isOperator = List.replicate 24 true := by rfl
theorem generation_ok : generationFailed = false := by rfl

end OG.C12.Facts
