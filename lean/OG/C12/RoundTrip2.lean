/-
C12 — the main recursion: `ParseExpr` reads the token stream of a canonical tree with
well-behaved literals back as that tree. Core Lean only.
-/
import OG.C12.RoundTrip

namespace OG.C12
open OG.Gen.C12

theorem isOperator_all (op : Op) : isOperator op = true → True := fun _ => trivial

/-- one turn of the loop on `op` followed by an ordinary operand. -/
theorem peLoop_step_plain (g : Nat) (root : Expr) (op : Op) (a : Expr) (rest : List Tok)
    (hop : isOperator op = true) (hre : isRegexOp op = false) (hin : isInOp op = false)
    (hu : peUnary tokSrc (g + 1) (printCtx false a ++ rest) = some (a, rest)) :
    peLoop tokSrc (g + 2) root (opToTok op :: (printCtx false a ++ rest)) =
      peLoop tokSrc (g + 1) (insertOp root op a) rest := by
  have hne := opToTok_ne op
  conv => lhs; unfold peLoop
  rw [scanNW_cons _ _ _ hne.1 hne.2.1]
  simp only [tokToOp_opToTok, hop, Bool.not_true, Bool.false_eq_true, if_false]
  simp only [isRegexOp, isInOp] at hre hin
  simp only [hre, hin, Bool.false_eq_true, if_false, hu]

/-- … followed by a regex, after `=~` / `!~`. -/
theorem peLoop_step_regex (g : Nat) (root : Expr) (op : Op) (s : Str) (rest : List Tok)
    (hop : isOperator op = true) (hre : isRegexOp op = true) :
    peLoop tokSrc (g + 2) root (opToTok op :: (.regex s :: rest)) =
      peLoop tokSrc (g + 1) (insertOp root op (.regex s)) rest := by
  have hne := opToTok_ne op
  conv => lhs; unfold peLoop
  rw [scanNW_cons _ _ _ hne.1 hne.2.1]
  simp only [tokToOp_opToTok, hop, Bool.not_true, Bool.false_eq_true, if_false]
  simp only [isRegexOp] at hre
  simp only [hre, if_true, tokSrc_regexAhead, tokRegexAhead]

/-- … followed by a set, after IN / NOT IN. -/
theorem peLoop_step_set (g : Nat) (root : Expr) (op : Op) (vals : List SetVal) (rest : List Tok)
    (hop : isOperator op = true) (hre : isRegexOp op = false) (hin : isInOp op = true)
    (hrt : setRT vals = true) (hg : (printSetVals vals).length + 2 ≤ g + 1) :
    peLoop tokSrc (g + 2) root (opToTok op :: (printCtx false (.set vals) ++ rest)) =
      peLoop tokSrc (g + 1) (insertOp root op (.set vals)) rest := by
  have hne := opToTok_ne op
  conv => lhs; unfold peLoop
  rw [scanNW_cons _ _ _ hne.1 hne.2.1]
  simp only [tokToOp_opToTok, hop, Bool.not_true, Bool.false_eq_true, if_false]
  simp only [isRegexOp, isInOp] at hre hin
  simp only [hre, hin, Bool.false_eq_true, if_false, if_true, printCtx, List.cons_append,
    List.append_assoc]
  rw [scanNW_cons _ _ _ (by simp) (by simp)]
  simp only
  rw [peSetLoop_fold _ (printSetVals_clean vals) _ _ _ _ hg]
  simp only [setRT, decide_eq_true_eq] at hrt
  simp only [hrt, List.nil_append]

theorem Args.ofList_toList : (a : Args) → Args.ofList a.toList = a
  | .nil => rfl
  | .cons e r => by simp [Args.toList, Args.ofList, Args.ofList_toList r]

theorem Args.ofList_append_toList (acc : List Expr) (a : Args) (e : Expr) :
    Args.ofList ((acc ++ [e]) ++ a.toList) = Args.ofList (acc ++ e :: a.toList) := by
  simp

theorem commutes_under (F : Expr → Expr) (q : Nat) (op : Op) (l : Expr) (hF : Commutes F q)
    (hq : pePrec op ≥ q) : Commutes (fun X => F (.binary op l X)) (pePrec op + 1) := by
  intro X o u ho
  show insertOp (F (.binary op l X)) o u = F (.binary op l (insertOp X o u))
  rw [hF _ _ _ (by omega), insertOp_descend op l X o u (by omega)]

theorem rightOK_leftOK (p : Nat) (r : Expr) (h : rightOK p r = true) : leftOK (p + 1) r = true := by
  cases r <;> simp_all [leftOK, rightOK]
  omega

/-- a call argument, where `parseCall` looks for a regex first: either it is a regex (read by
parseRegex), or parseRegex declines, the next token is not `)`, and `ParseExpr` reads it. -/
theorem arg_parse (a : Expr) (k : Nat) (Z : List Tok) (hc : PECanon a = true) (ha : AtomsOK a = true)
    (hw : weight a ≤ k) (ih : FirstOK a k ∧ LoopOK a k) (hactx : regexFirstOK true a = true)
    (hargre : argRegexOK a = true) (hasf : noSetFirst a = true) (hZ : EndFollow Z) :
    (∃ s, a = .regex s ∧ printCtx true a ++ Z = .regex s :: Z) ∨
    (tokRegexAhead (printCtx true a ++ Z) = .notRegex (printCtx true a ++ Z) ∧
      (tokSrc.scan (printCtx true a ++ Z)).1 ≠ .sym .rparen ∧
      peExpr tokSrc (k + 1) (printCtx true a ++ Z) = some (a, Z)) := by
  by_cases hre : ∃ s, firstAtom a = .regex s
  · obtain ⟨s, hfa⟩ := hre
    left
    have hae : a = .regex s := by
      cases a <;> simp_all [argRegexOK, firstAtom]
    subst hae
    simp only [regexFirstOK, firstAtom, if_true, decide_eq_true_eq] at hactx
    exact ⟨s, rfl, by simp [printCtx, hactx]⟩
  · right
    have hnr : ∀ s, firstAtom a ≠ .regex s := fun s h => hre ⟨s, h⟩
    have hfaok := atomsOK_firstAtom a ha
    obtain ⟨t, tl, ht, h1, h2, _, _⟩ := headOK_print a ha hfaok hnr
    rw [printCtx_true_eq a ha hnr]
    have hrf : regexFirstOK false a = true := by
      unfold regexFirstOK
      split
      · rename_i s h; exact absurd h (hnr s)
      · rfl
    refine ⟨?_, ?_, peExpr_of_parts a k hc ha hw ih.1 ih.2 Z hZ hrf hasf⟩
    · rw [ht]
      cases t <;> simp_all [tokRegexAhead]
    · rw [ht]; simpa [tokSrc, tokScan] using h2

theorem endFollow_more (rest : Args) (Y : List Tok) : EndFollow (moreToks rest ++ .sym .rparen :: Y) := by
  cases rest with
  | nil => exact Or.inr (Or.inl ⟨Y, by simp [moreToks]⟩)
  | cons e r => exact Or.inr (Or.inr (Or.inl ⟨printCtx true e ++ (moreToks r ++ .sym .rparen :: Y), by simp [moreToks]⟩))

mutual
theorem parse_ok : (e : Expr) → PECanon e = true → AtomsOK e = true → ∀ f, weight e ≤ f →
    FirstOK e f ∧ LoopOK e f
  | .binary op l r, hc, ha, f, hf => by
    simp only [PECanon, Bool.and_eq_true] at hc
    obtain ⟨⟨⟨hcl, hcr⟩, hcl'⟩, hcr'⟩ := hc
    have ha0 := ha
    simp only [AtomsOK, Bool.and_eq_true] at ha
    obtain ⟨⟨⟨⟨⟨hal, har⟩, hop⟩, _hdiv⟩, hctx⟩, hnsl⟩ := ha
    simp only [weight] at hf
    have hwl := nops_le_weight l
    have hwr := nops_le_weight r
    have ihl := parse_ok l hcl' hal f (by omega)
    constructor
    · -- the first operand is the first operand of `l`
      intro Y hY hr hs
      rw [regexFirstOK_binary] at hr
      rw [noSetFirst_binary] at hs
      simpa [firstAtom] using ihl.1 Y hY hr hs
    · intro F q X hF hsp hX
      simp only [spineGe, Bool.and_eq_true, decide_eq_true_eq] at hsp
      obtain ⟨⟨hq, hsl⟩, hsr⟩ := hsp
      simp only [tailToks, firstAtom, nops, List.append_assoc, List.cons_append]
      rw [ihl.2 F q _ hF hsl (SafeFollow_op op _)]
      -- one turn of the loop
      obtain ⟨g, hg⟩ : ∃ g, f - nops l = g + 2 := ⟨f - nops l - 2, by omega⟩
      have ihr := parse_ok r hcr' har (g + 1) (by omega)
      have hFl : insertOp (F l) op (firstAtom r) = F (.binary op l (firstAtom r)) := by
        rw [hF _ _ _ hq, insertOp_top l op _ hcl]
      have hcont : peLoop tokSrc (g + 1) (F (.binary op l (firstAtom r))) (tailToks r ++ X) =
          peLoop tokSrc (g + 1 - nops r) (F (.binary op l r)) X :=
        ihr.2 (fun x => F (.binary op l x)) (pePrec op + 1) X (commutes_under F q op l hF hq)
          (canon_spine r _ hcr' (rightOK_leftOK _ r hcr)) hX
      have hfuel : g + 1 - nops r = f - (nops l + 1 + nops r) := by omega
      rw [hg]
      by_cases hre : isRegexOp op = true
      · -- `=~` / `!~`: the operand is a regex, read by parseRegex
        simp only [hre, if_true, Bool.and_eq_true] at hctx
        obtain ⟨hfr, hrok⟩ := hctx
        cases hfa : firstAtom r with
        | regex s =>
          simp only [regexFirstOK, hfa, if_true, decide_eq_true_eq] at hrok
          simp only [hre, printCtx, if_true, hrok, List.cons_append, List.nil_append]
          rw [peLoop_step_regex g _ op s _ hop hre, ← hfa, hFl, hcont, hfuel]
        | _ => simp [hfa, Expr.isRegex] at hfr
      · have hre' : isRegexOp op = false := by simpa using hre
        simp only [hre', Bool.false_eq_true, if_false] at hctx
        by_cases hin : isInOp op = true
        · simp only [hin, if_true] at hctx
          cases r with
          | set vals =>
            simp only [AtomsOK] at har
            simp only [hre', firstAtom, tailToks, List.nil_append]
            have hlen : (printSetVals vals).length + 2 ≤ g + 1 := by
              simp only [weight] at hf; omega
            rw [peLoop_step_set g _ op vals _ hop hre' hin har hlen]
            simp only [firstAtom] at hFl
            rw [hFl]
            have : g + 1 = f - (nops l + 1 + nops (.set vals)) := by simp only [nops]; omega
            rw [this]
          | _ => simp [Expr.isSet] at hctx
        · have hin' : isInOp op = false := by simpa using hin
          simp only [hin', Bool.false_eq_true, if_false, Bool.and_eq_true] at hctx
          obtain ⟨hrr, hsr'⟩ := hctx
          have hu := ihr.1 (tailToks r ++ X) (SafeFollow_tail r X hX) hrr hsr'
          simp only [hre']
          rw [peLoop_step_plain g _ op (firstAtom r) _ hop hre' hin' hu, hFl, hcont, hfuel]
  | .paren e, hc, ha, f, hf => by
    refine ⟨?_, loopOK_atom _ f rfl⟩
    simp only [PECanon] at hc
    simp only [AtomsOK, Bool.and_eq_true] at ha
    obtain ⟨⟨hae, hre⟩, hse⟩ := ha
    simp only [weight] at hf
    intro Y _ _ _
    obtain ⟨k, rfl⟩ : ∃ k, f = k + 2 := ⟨f - 2, by omega⟩
    have ih := parse_ok e hc hae k (by omega)
    simp only [firstAtom, printCtx, List.cons_append, List.append_assoc]
    unfold peUnary
    rw [scanNW_cons _ _ _ (by simp) (by simp)]
    simp only
    rw [peExpr_of_parts e k hc hae (by omega) ih.1 ih.2 _ (Or.inr (Or.inl ⟨_, rfl⟩)) hre hse]
    simp only
    rw [scanNW_cons _ _ _ (by simp) (by simp)]
    simp
  | .call name args, hc, ha, f, hf => by
    refine ⟨?_, loopOK_atom _ f rfl⟩
    simp only [PECanon] at hc
    simp only [AtomsOK, Bool.and_eq_true, decide_eq_true_eq, Bool.not_eq_true'] at ha
    obtain ⟨⟨⟨hname, hinf⟩, hlow⟩, haa⟩ := ha
    simp only [weight] at hf
    intro Y _ _ _
    obtain ⟨k, rfl⟩ : ∃ k, f = k + 3 := ⟨f - 3, by omega⟩
    simp only [isInfNan, Bool.or_eq_false_iff, decide_eq_false_iff_not] at hinf
    rw [hlow] at hinf
    simp only [firstAtom, printCtx, hname, List.cons_append, List.append_assoc, List.nil_append]
    unfold peUnary
    rw [scanNW_cons _ _ _ (by simp) (by simp)]
    simp only [hinf.1, hinf.2, if_false, tokSrc_scan, tokScan, if_true, hlow]
    -- parseCall
    cases args with
    | nil =>
      simp only [printArgs, List.nil_append]
      unfold peCall
      simp [tokRegexAhead, tokScan]
    | cons a rest =>
      simp only [PECanonArgs, Bool.and_eq_true] at hc
      simp only [AtomsOKArgs, Bool.and_eq_true] at haa
      obtain ⟨⟨⟨⟨haa1, hactx⟩, hargre⟩, hasf⟩, harest⟩ := haa
      simp only [weightArgs] at hf
      have ihrest := args_ok rest hc.2 harest (k + 1) name
      have ih := parse_ok a hc.1 haa1 k (by omega)
      rw [printArgs_cons]
      simp only [List.append_assoc]
      unfold peCall
      simp only [tokSrc_regexAhead]
      rcases arg_parse a k (moreToks rest ++ .sym .rparen :: Y) hc.1 haa1 (by omega) ih hactx hargre hasf
        (endFollow_more rest Y) with ⟨s, rfl, htk⟩ | ⟨h1, h2, h3⟩
      · rw [htk]
        simp only [tokRegexAhead]
        have := ihrest [.regex s] Y (by omega)
        simpa [Args.ofList, Args.toList, Args.ofList_toList] using this
      · rw [h1]
        simp only
        rw [if_neg h2, h3]
        have := ihrest [a] Y (by omega)
        simpa [Args.ofList, Args.toList, Args.ofList_toList] using this
  | .varRef name ty, _, ha, f, hf => by
    refine ⟨?_, loopOK_atom _ f rfl⟩
    simp only [AtomsOK, Bool.and_eq_true, Bool.not_eq_true'] at ha
    simp only [weight] at hf
    intro Y hY _ _
    obtain ⟨k, rfl⟩ : ∃ k, f = k + 3 := ⟨f - 3, by omega⟩
    exact peUnary_varRef k name ty Y hY ha.1 ha.2
  | .str x, _, _, f, hf => by
    refine ⟨?_, loopOK_atom _ f rfl⟩
    simp only [weight] at hf
    intro Y _ _ _
    obtain ⟨k, rfl⟩ : ∃ k, f = k + 3 := ⟨f - 3, by omega⟩
    exact peUnary_str k x Y
  | .int v, _, ha, f, hf => by
    refine ⟨?_, loopOK_atom _ f rfl⟩
    simp only [AtomsOK, Bool.and_eq_true, decide_eq_true_eq] at ha
    simp only [weight] at hf
    intro Y _ _ _
    obtain ⟨k, rfl⟩ : ∃ k, f = k + 3 := ⟨f - 3, by omega⟩
    exact peUnary_int k v Y ha.1 ha.2
  | .uns _, _, ha, _, _ => by simp [AtomsOK] at ha
  | .num n, _, ha, f, hf => by
    refine ⟨?_, loopOK_atom _ f rfl⟩
    simp only [AtomsOK] at ha
    simp only [weight] at hf
    intro Y _ _ _
    obtain ⟨k, rfl⟩ : ∃ k, f = k + 3 := ⟨f - 3, by omega⟩
    exact peUnary_num k n Y ha
  | .numInf, _, ha, _, _ => by simp [AtomsOK] at ha
  | .numNegInf, _, ha, _, _ => by simp [AtomsOK] at ha
  | .numNaN, _, ha, _, _ => by simp [AtomsOK] at ha
  | .bool b, _, _, f, hf => by
    refine ⟨?_, loopOK_atom _ f rfl⟩
    simp only [weight] at hf
    intro Y _ _ _
    obtain ⟨k, rfl⟩ : ∃ k, f = k + 3 := ⟨f - 3, by omega⟩
    exact peUnary_bool k b Y
  | .dur d, _, ha, f, hf => by
    refine ⟨?_, loopOK_atom _ f rfl⟩
    simp only [AtomsOK, Bool.and_eq_true, decide_eq_true_eq] at ha
    simp only [weight] at hf
    intro Y _ _ _
    obtain ⟨k, rfl⟩ : ∃ k, f = k + 3 := ⟨f - 3, by omega⟩
    exact peUnary_dur k d Y ha.1 ha.2
  | .regex s, _, _, f, hf => by
    refine ⟨?_, loopOK_atom _ f rfl⟩
    simp only [weight] at hf
    intro Y _ hr _
    obtain ⟨k, rfl⟩ : ∃ k, f = k + 3 := ⟨f - 3, by omega⟩
    simp only [regexFirstOK, firstAtom, Bool.false_eq_true, if_false, decide_eq_true_eq] at hr
    exact peUnary_regex k s Y hr
  | .wildcard w, _, _, f, hf => by
    refine ⟨?_, loopOK_atom _ f rfl⟩
    simp only [weight] at hf
    intro Y hY _ _
    obtain ⟨k, rfl⟩ : ∃ k, f = k + 3 := ⟨f - 3, by omega⟩
    exact peUnary_wildcard k w Y hY
  | .set vals, _, _, f, _ => by
    refine ⟨?_, loopOK_atom _ f rfl⟩
    intro Y _ _ hs
    simp [noSetFirst, firstAtom] at hs

/-- the arguments after the first one, and the closing parenthesis of the call. -/
theorem args_ok : (a : Args) → PECanonArgs a = true → AtomsOKArgs a = true → ∀ (f : Nat) (name : Str)
    (acc : List Expr) (Y : List Tok), weightArgs a ≤ f →
    peCallMore tokSrc f name acc (moreToks a ++ .sym .rparen :: Y) =
      some (.call name (Args.ofList (acc ++ a.toList)), Y)
  | .nil, _, _, f, name, acc, Y, hf => by
    simp only [weightArgs] at hf
    obtain ⟨k, rfl⟩ : ∃ k, f = k + 2 := ⟨f - 2, by omega⟩
    simp only [moreToks, List.nil_append, Args.toList, List.append_nil]
    unfold peCallMore
    rw [scanNW_cons _ _ _ (by simp) (by simp)]
    simp [tokScan]
  | .cons a rest, hc, haa, f, name, acc, Y, hf => by
    simp only [PECanonArgs, Bool.and_eq_true] at hc
    simp only [AtomsOKArgs, Bool.and_eq_true] at haa
    obtain ⟨⟨⟨⟨haa1, hactx⟩, hargre⟩, hasf⟩, harest⟩ := haa
    simp only [weightArgs] at hf
    obtain ⟨k, rfl⟩ : ∃ k, f = k + 2 := ⟨f - 2, by have := nops_le_weight a; omega⟩
    have ihrest := args_ok rest hc.2 harest (k + 1) name
    have ih := parse_ok a hc.1 haa1 k (by omega)
    simp only [moreToks, List.cons_append, List.append_assoc, Args.toList]
    unfold peCallMore
    rw [scanNW_cons _ _ _ (by simp) (by simp)]
    simp only [if_true, tokSrc_regexAhead]
    rcases arg_parse a k (moreToks rest ++ .sym .rparen :: Y) hc.1 haa1 (by omega) ih hactx hargre hasf
      (endFollow_more rest Y) with ⟨s, rfl, htk⟩ | ⟨h1, _, h3⟩
    · rw [htk]
      simp only [tokRegexAhead]
      have := ihrest (acc ++ [.regex s]) Y (by omega)
      simpa using this
    · rw [h1]
      simp only [h3]
      have := ihrest (acc ++ [a]) Y (by omega)
      simpa using this
end

end OG.C12
