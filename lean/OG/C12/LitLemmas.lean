/-
C12 — lemmas about the literal printers and scanners (digits, strings, identifiers, regexes,
durations). Core Lean only.
-/
import OG.C12.Model

namespace OG.C12
open OG.Gen.C12

/-! ### digits -/

theorem digitVal_digitChar : ∀ d, d < 10 → digitVal (digitChar d) = d := by decide
theorem isDigit_digitChar : ∀ d, d < 10 → isDigit (digitChar d) = true := by decide

theorem digitsVal_foldl (ds : List Char) (a : Nat) :
    ds.foldl (fun acc c => acc * 10 + digitVal c) a = a * 10 ^ ds.length + digitsVal ds := by
  induction ds generalizing a with
  | nil => simp [digitsVal]
  | cons c cs ih =>
    simp only [List.foldl_cons, List.length_cons, digitsVal]
    rw [ih, ih (0 * 10 + digitVal c)]
    simp only [Nat.pow_succ, Nat.zero_mul, Nat.zero_add]
    grind

theorem digitsVal_cons (c : Char) (cs : List Char) :
    digitsVal (c :: cs) = digitVal c * 10 ^ cs.length + digitsVal cs := by
  simp only [digitsVal, List.foldl_cons]
  rw [digitsVal_foldl]
  simp [digitsVal]

theorem natDigitsAux_val : ∀ (fuel n : Nat) (acc : List Char), n < fuel →
    digitsVal (natDigitsAux fuel n acc) = n * 10 ^ acc.length + digitsVal acc := by
  intro fuel
  induction fuel with
  | zero => intro n acc h; omega
  | succ k ih =>
    intro n acc h
    unfold natDigitsAux
    by_cases hn : n < 10
    · simp only [hn, if_true]
      rw [digitsVal_cons, digitVal_digitChar n hn]
    · simp only [hn, if_false]
      have h1 : n / 10 < k := by omega
      rw [ih (n / 10) _ h1, digitsVal_cons, digitVal_digitChar _ (Nat.mod_lt n (by omega))]
      simp only [List.length_cons, Nat.pow_succ]
      have := Nat.div_add_mod n 10
      grind

/-- `strconv.ParseUint(strconv.FormatUint(n))`. -/
theorem digitsVal_natDigits (n : Nat) : digitsVal (natDigits n) = n := by
  unfold natDigits
  rw [natDigitsAux_val (n + 1) n [] (by omega)]
  simp [digitsVal]

theorem natDigitsAux_allDigits : ∀ (fuel n : Nat) (acc : List Char),
    (∀ c ∈ acc, isDigit c = true) → ∀ c ∈ natDigitsAux fuel n acc, isDigit c = true := by
  intro fuel
  induction fuel with
  | zero => intro n acc h; simpa [natDigitsAux] using h
  | succ k ih =>
    intro n acc h
    unfold natDigitsAux
    by_cases hn : n < 10
    · simp only [hn, if_true]
      intro c hc
      rcases List.mem_cons.mp hc with rfl | hc
      · exact isDigit_digitChar n hn
      · exact h c hc
    · simp only [hn, if_false]
      apply ih
      intro c hc
      rcases List.mem_cons.mp hc with rfl | hc
      · exact isDigit_digitChar _ (Nat.mod_lt n (by omega))
      · exact h c hc

theorem natDigits_allDigits (n : Nat) : ∀ c ∈ natDigits n, isDigit c = true :=
  natDigitsAux_allDigits _ _ [] (by simp)

theorem natDigitsAux_ne_nil : ∀ (fuel n : Nat) (acc : List Char), 0 < fuel →
    natDigitsAux fuel n acc ≠ [] := by
  intro fuel
  induction fuel with
  | zero => intro n acc h; omega
  | succ k ih =>
    intro n acc _
    unfold natDigitsAux
    by_cases hn : n < 10
    · simp [hn]
    · simp only [hn, if_false]
      cases k with
      | zero => simp [natDigitsAux]
      | succ k' => exact ih _ _ (by omega)

theorem natDigits_ne_nil (n : Nat) : natDigits n ≠ [] := natDigitsAux_ne_nil _ _ _ (by omega)

/-- reading the digits of a printed number back: everything up to the first non-digit. -/
theorem splitDigits_append (ds rest : List Char) (hd : ∀ c ∈ ds, isDigit c = true)
    (hr : ∀ c r, rest = c :: r → isDigit c = false) :
    splitDigits (ds ++ rest) = (ds, rest) := by
  induction ds with
  | nil =>
    cases rest with
    | nil => simp [splitDigits]
    | cons c r => simp [splitDigits, hr c r rfl]
  | cons c cs ih =>
    have hc : isDigit c = true := hd c (by simp)
    have := ih (fun x hx => hd x (by simp [hx]))
    simp [splitDigits, hc, this]

/-! ### strings and identifiers -/

/-- `ScanString(QuoteString(s))`, on any continuation: every string, every character. -/
theorem scanStringBody_escape (q : Char) (hq : q = '\'' ∨ q = '"') (s rest : Str) (acc : Str) :
    scanStringBody q (escapeWith q s ++ q :: rest) false acc = .ok (acc.reverse ++ s, rest) := by
  induction s generalizing acc with
  | nil => simp [escapeWith, scanStringBody]
  | cons c cs ih =>
    have hqn : q ≠ '\n' := by rcases hq with rfl | rfl <;> decide
    have hqb : q ≠ '\\' := by rcases hq with rfl | rfl <;> decide
    unfold escapeWith
    by_cases h1 : c = '\n'
    · subst h1
      simp only [if_true, List.cons_append]
      have e1 : ('\\' : Char) ≠ q := fun h => hqb h.symm
      have e2 : ('\\' : Char) ≠ '\n' := by decide
      unfold scanStringBody
      simp only [Bool.false_eq_true, if_false, e1, e2, if_true]
      unfold scanStringBody
      simp only [if_true]
      rw [ih]
      simp
    · simp only [h1, if_false]
      by_cases h2 : c = '\\'
      · subst h2
        simp only [if_true, List.cons_append]
        have e1 : ('\\' : Char) ≠ q := fun h => hqb h.symm
        have e2 : ('\\' : Char) ≠ '\n' := by decide
        have e3 : ('\\' : Char) ≠ 'n' := by decide
        unfold scanStringBody
        simp only [Bool.false_eq_true, if_false, e1, e2, if_true]
        unfold scanStringBody
        simp only [if_true, e3, if_false]
        rw [ih]
        simp
      · simp only [h2, if_false]
        by_cases h3 : c = q
        · subst h3
          simp only [if_true, List.cons_append]
          have e1 : ('\\' : Char) ≠ c := fun h => hqb h.symm
          have e2 : ('\\' : Char) ≠ '\n' := by decide
          unfold scanStringBody
          simp only [Bool.false_eq_true, if_false, e1, e2, if_true]
          unfold scanStringBody
          rcases hq with rfl | rfl
          · simp only [if_true]
            have : ('\'' : Char) ≠ 'n' := by decide
            have h4 : ('\'' : Char) ≠ '\\' := by decide
            have h5 : ('\'' : Char) ≠ '"' := by decide
            simp only [this, h4, h5, if_false, if_true]
            rw [ih]; simp
          · simp only [if_true]
            have : ('"' : Char) ≠ 'n' := by decide
            have h4 : ('"' : Char) ≠ '\\' := by decide
            simp only [this, h4, if_false, if_true]
            rw [ih]; simp
        · simp only [h3, if_false, List.cons_append]
          unfold scanStringBody
          simp only [Bool.false_eq_true, if_false, h3, h1, h2]
          rw [ih]
          simp

/-- the scanner reads a printed string literal back, whatever follows it. -/
theorem scanString_quoteString (s rest : Str) :
    scanString (quoteString s ++ rest) = (.str s, rest) := by
  simp only [quoteString, scanString, List.cons_append, List.append_assoc]
  rw [scanStringBody_escape '\'' (Or.inl rfl)]
  simp

/-! ### regexes -/

def noNewline (s : Str) : Prop := ∀ c ∈ s, c ≠ '\n'

/-- the state in which `scanDelimited` may meet the closing slash: no backslash pending. -/
def endsOK (esc : Bool) (s : Str) : Prop :=
  match s.getLast? with
  | none => esc = false
  | some c => c ≠ '\\'

theorem endsOK_cons (e1 e2 : Bool) (c d : Char) (cs : Str) :
    endsOK e1 (c :: d :: cs) ↔ endsOK e2 (d :: cs) := by
  simp only [endsOK, List.getLast?_cons_cons]
  cases h : (d :: cs).getLast? with
  | none => simp at h
  | some x => simp

def pend (acc : Str) (esc : Bool) : Str := if esc then '\\' :: acc else acc

theorem scanDelimited_escapeSlashes (s rest : Str) :
    ∀ (esc : Bool) (acc : Str), noNewline s → endsOK esc s →
      scanDelimited (escapeSlashes s ++ '/' :: rest) esc acc = some ((pend acc esc).reverse ++ s, rest) := by
  induction s with
  | nil =>
    intro esc acc _ he
    simp only [endsOK, List.getLast?_nil] at he
    subst he
    simp [escapeSlashes, scanDelimited, pend]
  | cons c cs ih =>
    intro esc acc hn he
    have hc : c ≠ '\n' := hn c (by simp)
    have hn' : noNewline cs := fun x hx => hn x (by simp [hx])
    unfold escapeSlashes
    by_cases h1 : c = '/'
    · subst h1
      simp only [if_true, List.cons_append]
      -- the backslash written by the printer: any pending one is flushed, this one is pending
      unfold scanDelimited
      have e1 : ('\\' : Char) ≠ '/' := by decide
      have e2 : ('\\' : Char) ≠ '\n' := by decide
      simp only [e1, Bool.and_false, Bool.false_eq_true, if_false, decide_false, e2, if_true]
      unfold scanDelimited
      simp only [Bool.true_and, decide_true, if_true]
      have he' : endsOK false cs := by
        cases cs with
        | nil => simp [endsOK]
        | cons d ds => exact (endsOK_cons esc false '/' d ds).mp he
      rw [ih false _ hn' he']
      cases esc <;> simp [pend]
    · simp only [h1, if_false, List.cons_append]
      by_cases h2 : c = '\\'
      · subst h2
        unfold scanDelimited
        have e1 : ('\\' : Char) ≠ '/' := by decide
        have e2 : ('\\' : Char) ≠ '\n' := by decide
        simp only [e1, Bool.and_false, Bool.false_eq_true, if_false, decide_false, e2, if_true]
        have he' : endsOK true cs := by
          cases cs with
          | nil => simp [endsOK] at he
          | cons d ds => exact (endsOK_cons esc true '\\' d ds).mp he
        rw [ih true _ hn' he']
        cases esc <;> simp [pend]
      · unfold scanDelimited
        simp only [h1, decide_false, Bool.and_false, Bool.false_eq_true, if_false, hc, h2]
        have he' : endsOK false cs := by
          cases cs with
          | nil => simp [endsOK]
          | cons d ds => exact (endsOK_cons esc false c d ds).mp he
        rw [ih false _ hn' he']
        cases esc <;> simp [pend]

end OG.C12

namespace OG.C12
open OG.Gen.C12

/-! ### durations -/

theorem wrap64_id (x : Int) (h0 : 0 ≤ x) (h1 : x ≤ maxInt64) : wrap64 x = x := by
  unfold wrap64 two63 two64 maxInt64 at *
  simp only
  omega

theorem wrap64_neg (x : Int) (h0 : 0 ≤ x) (h1 : x ≤ maxInt64) : wrap64 (-x) = -x := by
  unfold wrap64 two63 two64 maxInt64 at *
  simp only
  omega

theorem parseDurLoop_nil (fuel : Nat) (d : Int) : parseDurLoop (fuel + 1) [] d = some d := by
  simp [parseDurLoop]

theorem utf8Len_pos (c : Char) : 1 ≤ utf8Len c := by
  unfold utf8Len
  split
  · omega
  · split
    · omega
    · split <;> omega

theorem utf8_sum_ge (l : List Char) : l.length ≤ (l.map utf8Len).sum := by
  induction l with
  | nil => simp
  | cons c cs ih => have := utf8Len_pos c; simp only [List.map_cons, List.sum_cons, List.length_cons]; omega

/-- the dispatch of `ParseDuration` on the unit that follows the number `n`. -/
def durDispatch (fuel : Nat) (n : Nat) (u : Char) (rest' : List Char) (d : Int) : Option Int :=
  let add (unit : Int) : Int := wrap64 (d + wrap64 ((n : Int) * unit))
  if u = 'n' then
    match rest' with
    | 's' :: r => parseDurLoop fuel r (add 1)
    | _ => none
  else if u = 'u' || u = 'µ' then parseDurLoop fuel rest' (add nsMicro)
  else if u = 'm' then
    match rest' with
    | 's' :: r => parseDurLoop fuel r (add nsMilli)
    | _ => parseDurLoop fuel rest' (add nsMinute)
  else if u = 's' then parseDurLoop fuel rest' (add nsSecond)
  else if u = 'h' then parseDurLoop fuel rest' (add nsHour)
  else if u = 'd' then parseDurLoop fuel rest' (add nsDay)
  else if u = 'w' then parseDurLoop fuel rest' (add nsWeek)
  else none

/-- one `ParseDuration` step on `a` whose digits/unit split is known. -/
theorem parseDurLoop_of_split (fuel : Nat) (a ds : List Char) (u : Char) (rest' : List Char) (d : Int)
    (ha : a ≠ []) (hs : splitDigits a = (ds, u :: rest')) (hds : ds ≠ [])
    (hq : (digitsVal ds : Int) ≤ maxInt64) :
    parseDurLoop (fuel + 1) a d = durDispatch fuel (digitsVal ds) u rest' d := by
  cases a with
  | nil => exact absurd rfl ha
  | cons a0 as =>
    unfold parseDurLoop
    simp only [hs]
    have h1 : ds.isEmpty = false := by cases ds <;> simp_all
    have h2 : ¬ ((digitsVal ds : Int) > maxInt64) := by omega
    simp only [h1, Bool.false_eq_true, if_false, h2]
    rfl

theorem natDigits_append_ne_dash (q : Nat) (t : List Char) :
    ∀ r, natDigits q ++ t ≠ '-' :: r := by
  intro r h
  have hne := natDigits_ne_nil q
  cases hnd : natDigits q with
  | nil => exact hne hnd
  | cons c cs =>
    rw [hnd] at h
    have : isDigit c = true := natDigits_allDigits q c (by simp [hnd])
    simp only [List.cons_append, List.cons.injEq] at h
    rw [h.1] at this
    exact absurd this (by decide)

theorem parseDuration_of_not_dash (s : Str) (h2 : ¬ ((s.map utf8Len).sum < 2))
    (hd : ∀ r, s ≠ '-' :: r) : parseDuration s = parseDurationAbs s false := by
  unfold parseDuration
  simp only [h2, if_false]

/-- `ParseDuration` of `<digits of q><unit…>` when the dispatch on the unit adds `q * U` ns. -/
theorem parseDuration_single (q : Nat) (u : Char) (t : List Char) (U : Int)
    (hu : isDigit u = false) (hU : 0 < U) (hqU : (q : Int) * U ≤ maxInt64)
    (hdisp : ∀ fuel d, durDispatch (fuel + 1) q u t d = some (wrap64 (d + wrap64 ((q : Int) * U)))) :
    parseDuration (natDigits q ++ u :: t) = some ((q : Int) * U) := by
  have hne := natDigits_ne_nil q
  have hlen : 2 ≤ (natDigits q ++ u :: t).length := by
    cases h : natDigits q with
    | nil => exact absurd h hne
    | cons c cs => simp only [List.cons_append, List.length_cons, List.length_append]; omega
  have hsum := utf8_sum_ge (natDigits q ++ u :: t)
  have h2 : ¬ ((List.map utf8Len (natDigits q ++ u :: t)).sum < 2) := by omega
  have hd := natDigits_append_ne_dash q (u :: t)
  have hq0 : (0 : Int) ≤ (q : Int) * U := Int.mul_nonneg (Int.natCast_nonneg q) (Int.le_of_lt hU)
  have hqle : (q : Int) ≤ maxInt64 := by
    have : (q : Int) * 1 ≤ (q : Int) * U := Int.mul_le_mul_of_nonneg_left (by omega) (Int.natCast_nonneg q)
    omega
  have hs : splitDigits (natDigits q ++ u :: t) = (natDigits q, u :: t) :=
    splitDigits_append _ _ (natDigits_allDigits q) (by intro c r h; cases h; exact hu)
  have habs : parseDurationAbs (natDigits q ++ u :: t) false = some ((q : Int) * U) := by
    unfold parseDurationAbs
    obtain ⟨k, hk⟩ : ∃ k, (natDigits q ++ u :: t).length + 1 = k + 2 := ⟨(natDigits q ++ u :: t).length - 1, by omega⟩
    rw [hk, parseDurLoop_of_split (k + 1) _ _ u t 0 (by intro h; simp at h) hs hne
      (by rw [digitsVal_natDigits]; exact hqle), digitsVal_natDigits, hdisp]
    rw [wrap64_id _ hq0 hqU, Int.zero_add, wrap64_id _ hq0 hqU]
    have : ¬ ((q : Int) * U < 0) := by omega
    simp [this]
  rw [parseDuration_of_not_dash _ h2 hd]
  exact habs

end OG.C12

namespace OG.C12
open OG.Gen.C12

theorem durDispatch_simple (u : Char) (U : Int)
    (h : ∀ fuel n d, durDispatch (fuel + 1) n u [] d = parseDurLoop (fuel + 1) [] (wrap64 (d + wrap64 ((n : Int) * U))))
    (fuel n : Nat) (d : Int) :
    durDispatch (fuel + 1) n u [] d = some (wrap64 (d + wrap64 ((n : Int) * U))) := by
  rw [h, parseDurLoop_nil]

/-- `ParseDuration(FormatDuration(d)) = d` for every non-negative duration (the `ns` fallback of
FormatDuration is what makes this hold below a microsecond). -/
theorem parseDuration_formatDurAbs (d : Nat) (hd : (d : Int) ≤ maxInt64) :
    parseDuration (formatDurAbs d) = some (d : Int) := by
  unfold maxInt64 at hd
  unfold formatDurAbs
  split
  · subst_vars; decide
  split
  · rename_i h0 h
    have := parseDuration_single (d / 604800000000000) 'w' [] nsWeek (by decide) (by decide)
      (by unfold maxInt64 nsWeek; omega)
      (fun f dd => durDispatch_simple 'w' nsWeek (by intro f n dd; simp [durDispatch]) f _ dd)
    rw [this]; unfold nsWeek; congr 1; omega
  split
  · rename_i h0 h1 h
    have := parseDuration_single (d / 86400000000000) 'd' [] nsDay (by decide) (by decide)
      (by unfold maxInt64 nsDay; omega)
      (fun f dd => durDispatch_simple 'd' nsDay (by intro f n dd; simp [durDispatch]) f _ dd)
    rw [this]; unfold nsDay; congr 1; omega
  split
  · rename_i h
    have := parseDuration_single (d / 3600000000000) 'h' [] nsHour (by decide) (by decide)
      (by unfold maxInt64 nsHour; omega)
      (fun f dd => durDispatch_simple 'h' nsHour (by intro f n dd; simp [durDispatch]) f _ dd)
    rw [this]; unfold nsHour; congr 1; omega
  split
  · rename_i h
    have := parseDuration_single (d / 60000000000) 'm' [] nsMinute (by decide) (by decide)
      (by unfold maxInt64 nsMinute; omega)
      (fun f dd => durDispatch_simple 'm' nsMinute (by intro f n dd; simp [durDispatch]) f _ dd)
    rw [this]; unfold nsMinute; congr 1; omega
  split
  · rename_i h
    have := parseDuration_single (d / 1000000000) 's' [] nsSecond (by decide) (by decide)
      (by unfold maxInt64 nsSecond; omega)
      (fun f dd => durDispatch_simple 's' nsSecond (by intro f n dd; simp [durDispatch]) f _ dd)
    rw [this]; unfold nsSecond; congr 1; omega
  split
  · rename_i h
    have := parseDuration_single (d / 1000000) 'm' ['s'] nsMilli (by decide) (by decide)
      (by unfold maxInt64 nsMilli; omega)
      (by intro f dd; simp [durDispatch, parseDurLoop_nil])
    rw [this]; unfold nsMilli; congr 1; omega
  split
  · rename_i h
    have := parseDuration_single (d / 1000) 'u' [] nsMicro (by decide) (by decide)
      (by unfold maxInt64 nsMicro; omega)
      (fun f dd => durDispatch_simple 'u' nsMicro (by intro f n dd; simp [durDispatch]) f _ dd)
    rw [this]; unfold nsMicro; congr 1; omega
  · have := parseDuration_single d 'n' ['s'] 1 (by decide) (by decide)
      (by unfold maxInt64; omega)
      (by intro f dd; simp [durDispatch, parseDurLoop_nil])
    rw [this]; simp

end OG.C12

namespace OG.C12
open OG.Gen.C12

/-! ### numbers -/

theorem digitsVal_append (a b : List Char) :
    digitsVal (a ++ b) = digitsVal a * 10 ^ b.length + digitsVal b := by
  simp only [digitsVal, List.foldl_append]
  rw [digitsVal_foldl]
  rfl

theorem digitsVal_zeros (k : Nat) : digitsVal (List.replicate k '0') = 0 := by
  induction k with
  | zero => rfl
  | succ n ih =>
    rw [List.replicate_succ, digitsVal_cons, ih]
    simp [digitVal]

theorem replicate_allDigits (k : Nat) : ∀ c ∈ List.replicate k '0', isDigit c = true := by
  intro c hc
  rw [List.mem_replicate] at hc
  rw [hc.2]; decide

/-- a non-integral canonical decimal is printed as a NUMBER that reads back as itself
(`strconv.ParseFloat(strconv.FormatFloat(v,'f',-1,64)) = v` in the decimal model). -/
theorem parseNumText_formatNum (m s : Nat) (hs : s ≠ 0) (hm : m % 10 ≠ 0) :
    parseNumText (formatNum ⟨false, m, s⟩) = ⟨false, m, s⟩ := by
  have hall : ∀ c ∈ padLeft (s + 1) (natDigits m), isDigit c = true := by
    intro c hc
    simp only [padLeft, List.mem_append] at hc
    rcases hc with h | h
    · exact replicate_allDigits _ c h
    · exact natDigits_allDigits m c h
  have hlen : s + 1 ≤ (padLeft (s + 1) (natDigits m)).length := by
    simp only [padLeft, List.length_append, List.length_replicate]; omega
  have hval : digitsVal (padLeft (s + 1) (natDigits m)) = m := by
    simp only [padLeft]
    rw [digitsVal_append, digitsVal_zeros, digitsVal_natDigits]; simp
  generalize hp : padLeft (s + 1) (natDigits m) = p at hall hlen hval
  simp only [formatNum, hs, if_false, Bool.false_eq_true, hp]
  have htd : p.take (p.length - s) ++ p.drop (p.length - s) = p := List.take_append_drop _ _
  have hdl : (p.drop (p.length - s)).length = s := by simp only [List.length_drop]; omega
  have htk : ∀ c ∈ p.take (p.length - s), isDigit c = true := fun c hc => hall c (List.mem_of_mem_take hc)
  have hdr : ∀ c ∈ p.drop (p.length - s), isDigit c = true := fun c hc => hall c (List.mem_of_mem_drop hc)
  unfold parseNumText
  rw [splitDigits_append _ _ htk (by intro c r h; cases h; decide)]
  simp only
  have h2 := splitDigits_append (p.drop (p.length - s)) [] hdr (by intro c r h; cases h)
  rw [List.append_nil] at h2
  rw [h2]
  simp only [htd, hval, hdl]
  unfold Num.mk'
  obtain ⟨k, rfl⟩ : ∃ k, s = k + 1 := ⟨s - 1, by omega⟩
  simp [Num.normAux, hm]

end OG.C12
