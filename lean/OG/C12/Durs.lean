/-
C12 — the scanner fact `expr_roundtrip_partial` used to take as a hypothesis, proved from the
grammar model: a DURATIONVAL token never starts with `-` (`scanNumber` builds it from a run of
digits and a run of letters), `ParseDuration` of such a text is not negative, and the statement
grammar hands the values of its duration tokens on unchanged — so a DurationLiteral of a parsed
statement lies in [0, MaxInt64].
-/
import OG.C12.YaccShape

namespace OG.C12
open OG.Gen.C12

/-! ### `ParseDuration` of a text that does not start with `-` -/

theorem parseDurLoop_le : ∀ (f : Nat) (a : List Char) (d0 d : Int), d0 ≤ maxInt64 →
    parseDurLoop f a d0 = some d → d ≤ maxInt64
  | 0, _, _, _, _, h => by simp [parseDurLoop] at h
  | f + 1, a, d0, d, h0, h => by
    unfold parseDurLoop at h
    split at h
    · simp only [Option.some.injEq] at h; omega
    · simp only at h
      split at h
      · cases h
      · rename_i u rest' _
        split at h
        · cases h
        · split at h
          · cases h
          · have hw : ∀ x, wrap64 x ≤ maxInt64 := fun x => (wrap64_range x).2
            repeat' split at h
            all_goals first
              | cases h
              | exact parseDurLoop_le f _ _ d (hw _) h

theorem parseDuration_plain (text : Str) (d : Int) (hp : ∀ r, text ≠ '-' :: r)
    (h : parseDuration text = some d) : 0 ≤ d ∧ d ≤ maxInt64 := by
  unfold parseDuration at h
  split at h
  · cases h
  · split at h
    · exact absurd rfl (hp _)
    · unfold parseDurationAbs at h
      split at h
      · cases h
      · rename_i d' hd
        have hle := parseDurLoop_le _ _ 0 d' (by decide) hd
        by_cases hneg : d' < 0
        · simp [hneg] at h
        · simp [hneg] at h
          subst h
          omega


/-! ### the statement grammar hands duration values on unchanged -/

def plainTok : Tok → Bool
  | .dur ('-' :: _) => false
  | _ => true

/-- no DURATIONVAL token of the list starts with `-` -/
def Plain (toks : List Tok) : Prop := toks.all plainTok = true

theorem Plain.tail {t : Tok} {ts : List Tok} (h : Plain (t :: ts)) : Plain ts := by
  simp only [Plain, List.all_cons, Bool.and_eq_true] at h ⊢
  exact h.2

theorem Plain.head {t : Tok} {ts : List Tok} (h : Plain (t :: ts)) : plainTok t = true := by
  simp only [Plain, List.all_cons, Bool.and_eq_true] at h
  exact h.1

theorem plainTok_dur (text : Str) (h : plainTok (.dur text) = true) : ∀ r, text ≠ '-' :: r := by
  intro r hr
  subst hr
  simp [plainTok] at h

/-- a node of a COLUMN: no condition operator (AND, OR, =~, !~) -/
def pCol : Expr → Bool
  | .binary op _ _ => !(op = .eqregex || op = .neqregex || op = .and || op = .or)
  | _ => true

def qDC (x : Expr) : Bool := pDur x && pCol x

/-- every duration in range and only column operators -/
def DC (e : Expr) : Prop := allNodes qDC e = true
/-- every duration in range -/
def DD (e : Expr) : Prop := allNodes pDur e = true

theorem DC.dd {e : Expr} (h : DC e) : DD e := by
  unfold DC at h
  have : qDC = fun x => pDur x && pCol x := rfl
  rw [this, allNodes_and] at h
  simp only [Bool.and_eq_true] at h
  exact h.1

theorem colOps_noCond : ∀ op ∈ yaccColumnOps,
    (op = .eqregex || op = .neqregex || op = .and || op = .or) = false := by decide

theorem dc_binary_col (op : Op) (l r : Expr) (hop : op ∈ yaccColumnOps) (hl : DC l) (hr : DC r) :
    DC (.binary op l r) := by
  unfold DC at *
  have := colOps_noCond op hop
  simp [allNodes, qDC, pDur, pCol, hl, hr, this]

theorem dc_args : (cl : List (Expr × Option Str)) → (∀ x ∈ cl, DC x.1) →
    allNodesArgs qDC (Args.ofList (cl.map (·.1))) = true
  | [], _ => rfl
  | x :: rest, h => by
    have h1 := h x (by simp)
    have h2 := dc_args rest (fun y hy => h y (by simp [hy]))
    unfold DC at h1
    simp [Args.ofList, allNodesArgs, h1, h2]

theorem dc_call (name : Str) (cl : List (Expr × Option Str)) (h : ∀ x ∈ cl, DC x.1) :
    DC (.call name (Args.ofList (cl.map (·.1)))) := by
  unfold DC
  simp [allNodes, qDC, pDur, pCol, dc_args cl h]

theorem dc_neg (e : Expr) (h : DC e) : DC (yaccNeg e) := by
  unfold yaccNeg
  split
  · simp [DC, allNodes, qDC, pDur, pCol]
  · simp [DC, allNodes, qDC, pDur, pCol]
  · unfold DC at *
    simp [allNodes, qDC, pDur, pCol, h]

def DurColInv (f : Nat) : Prop :=
  (∀ toks e r, Plain toks → yPrimary f toks = some (e, r) → DC e ∧ Plain r) ∧
  (∀ m toks e r, Plain toks → yCol f m toks = some (e, r) → DC e ∧ Plain r) ∧
  (∀ m lhs toks e r, Plain toks → DC lhs → yColLoop f m lhs toks = some (e, r) → DC e ∧ Plain r) ∧
  (∀ toks cl r, Plain toks → yClauses f toks = some (cl, r) → (∀ x ∈ cl, DC x.1) ∧ Plain r)

theorem dur_prim_step (f : Nat) (ih : DurColInv f) :
    ∀ toks e r, Plain toks → yPrimary (f + 1) toks = some (e, r) → DC e ∧ Plain r := by
  obtain ⟨_, ihb, _, ihd⟩ := ih
  intro toks e r hp h
  unfold yPrimary at h
  split at h
  · -- ( COLUMN )
    split at h
    · rename_i e' r' hc
      simp only [Option.some.injEq, Prod.mk.injEq] at h
      obtain ⟨rfl, rfl⟩ := h
      obtain ⟨h1, h2⟩ := ihb _ _ _ _ hp.tail hc
      refine ⟨?_, h2.tail⟩
      unfold DC at *
      simp [allNodes, qDC, pDur, pCol, h1]
    · cases h
  · -- - COLUMN
    simp only [uminus_right] at h
    split at h
    · rename_i e' r' hc
      simp only [Option.some.injEq, Prod.mk.injEq] at h
      obtain ⟨rfl, rfl⟩ := h
      obtain ⟨h1, h2⟩ := ihb _ _ _ _ hp.tail hc
      exact ⟨dc_neg _ h1, h2⟩
    · cases h
  · -- f()
    simp only [Option.some.injEq, Prod.mk.injEq] at h
    obtain ⟨rfl, rfl⟩ := h
    exact ⟨by simp [DC, allNodes, qDC, pDur, pCol, allNodesArgs], hp.tail.tail.tail⟩
  · -- f(args)
    split at h
    · rename_i cl r' hc
      obtain ⟨h1, h2⟩ := ihd _ _ _ hp.tail.tail hc
      split at h
      · split at h
        · rename_i e' alias
          simp only [Option.some.injEq, Prod.mk.injEq] at h
          obtain ⟨rfl, rfl⟩ := h
          have hx := h1 (e', alias) (by simp)
          refine ⟨?_, h2.tail⟩
          unfold DC at *
          simp [allNodes, qDC, pDur, pCol, allNodesArgs, hx]
        · cases h
      · simp only [Option.some.injEq, Prod.mk.injEq] at h
        obtain ⟨rfl, rfl⟩ := h
        exact ⟨dc_call _ cl h1, h2.tail⟩
    · cases h
  · -- x::type
    split at h
    · split at h
      · simp only [Option.some.injEq, Prod.mk.injEq] at h
        obtain ⟨rfl, rfl⟩ := h
        exact ⟨by simp [DC, allNodes, qDC, pDur, pCol], hp.tail.tail.tail⟩
      · cases h
    · simp only [Option.some.injEq, Prod.mk.injEq] at h
      obtain ⟨rfl, rfl⟩ := h
      exact ⟨by simp [DC, allNodes, qDC, pDur, pCol], hp.tail.tail.tail⟩
    · simp only [Option.some.injEq, Prod.mk.injEq] at h
      obtain ⟨rfl, rfl⟩ := h
      exact ⟨by simp [DC, allNodes, qDC, pDur, pCol], hp.tail.tail.tail⟩
    · cases h
  · -- a.b
    simp only [Option.some.injEq, Prod.mk.injEq] at h
    obtain ⟨rfl, rfl⟩ := h
    exact ⟨by simp [DC, allNodes, qDC, pDur, pCol], hp.tail.tail.tail⟩
  all_goals first
    | (simp only [Option.some.injEq, Prod.mk.injEq] at h
       obtain ⟨rfl, rfl⟩ := h
       exact ⟨by simp [DC, allNodes, qDC, pDur, pCol], hp.tail⟩)
    | cases h
    | (-- the duration literal: the one place a `.dur` node comes from
       split at h
       · rename_i d hd
         simp only [Option.some.injEq, Prod.mk.injEq] at h
         obtain ⟨rfl, rfl⟩ := h
         have := parseDuration_plain _ d (plainTok_dur _ hp.head) hd
         exact ⟨by simp [DC, allNodes, qDC, pDur, pCol, this.1, this.2], hp.tail⟩
       · cases h)


theorem dur_loop_step (f : Nat) (ih : DurColInv f) :
    ∀ m lhs toks e r, Plain toks → DC lhs → yColLoop (f + 1) m lhs toks = some (e, r) → DC e ∧ Plain r := by
  obtain ⟨_, ihb, ihc, _⟩ := ih
  intro m lhs toks e r hp hl h
  unfold yColLoop at h
  cases toks with
  | nil =>
    simp only [Option.some.injEq, Prod.mk.injEq] at h
    obtain ⟨rfl, rfl⟩ := h
    exact ⟨hl, hp⟩
  | cons t rest =>
    simp only at h
    cases hop : colOpOfTok t with
    | none =>
      simp only [hop, Option.some.injEq, Prod.mk.injEq] at h
      obtain ⟨rfl, rfl⟩ := h
      exact ⟨hl, hp⟩
    | some op =>
      have hmem := colOpOfTok_mem t op hop
      simp only [hop] at h
      split at h
      · cases h
      · split at h
        · cases hrc : yCol f (nextMinLevel op) rest with
          | none => simp [hrc] at h
          | some p =>
            obtain ⟨rhs, r1⟩ := p
            simp only [hrc] at h
            obtain ⟨hr, hp1⟩ := ihb _ _ _ _ hp.tail hrc
            exact ihc m (.binary op lhs rhs) r1 e r hp1 (dc_binary_col op lhs rhs hmem hl hr) h
        · simp only [Option.some.injEq, Prod.mk.injEq] at h
          obtain ⟨rfl, rfl⟩ := h
          exact ⟨hl, hp⟩

theorem dur_col_step (f : Nat) (ih : DurColInv f) :
    ∀ m toks e r, Plain toks → yCol (f + 1) m toks = some (e, r) → DC e ∧ Plain r := by
  obtain ⟨iha, _, ihc, _⟩ := ih
  intro m toks e r hp h
  unfold yCol at h
  cases hpr : yPrimary f toks with
  | none => simp [hpr] at h
  | some p =>
    obtain ⟨e0, r0⟩ := p
    simp only [hpr] at h
    obtain ⟨h1, h2⟩ := iha _ _ _ hp hpr
    exact ihc m e0 r0 e r h2 h1 h

theorem dur_clauseOne (col : Option (Expr × List Tok)) (toks : List Tok) (hp : Plain toks)
    (hcol : ∀ e r, col = some (e, r) → DC e ∧ Plain r)
    (c : Expr × Option Str) (r0 : List Tok) (h : yClauseOne col toks = some (c, r0)) :
    DC c.1 ∧ Plain r0 := by
  unfold yClauseOne at h
  split at h
  · simp only [Option.some.injEq, Prod.mk.injEq] at h; obtain ⟨rfl, rfl⟩ := h
    exact ⟨by simp [DC, allNodes, qDC, pDur, pCol], hp.tail.tail.tail⟩
  · simp only [Option.some.injEq, Prod.mk.injEq] at h; obtain ⟨rfl, rfl⟩ := h
    exact ⟨by simp [DC, allNodes, qDC, pDur, pCol], hp.tail.tail.tail⟩
  · simp only [Option.some.injEq, Prod.mk.injEq] at h; obtain ⟨rfl, rfl⟩ := h
    exact ⟨by simp [DC, allNodes, qDC, pDur, pCol], hp.tail⟩
  · split at h
    · rename_i e a r
      simp only [Option.some.injEq, Prod.mk.injEq] at h; obtain ⟨rfl, rfl⟩ := h
      obtain ⟨h1, h2⟩ := hcol e _ rfl
      exact ⟨h1, h2.tail.tail⟩
    · rename_i e a r
      simp only [Option.some.injEq, Prod.mk.injEq] at h; obtain ⟨rfl, rfl⟩ := h
      obtain ⟨h1, h2⟩ := hcol e _ rfl
      exact ⟨h1, h2.tail.tail⟩
    · rename_i e r _ _
      simp only [Option.some.injEq, Prod.mk.injEq] at h; obtain ⟨rfl, rfl⟩ := h
      exact hcol e _ rfl
    · cases h

theorem dur_clauses_step (f : Nat) (ih : DurColInv f) :
    ∀ toks cl r, Plain toks → yClauses (f + 1) toks = some (cl, r) → (∀ x ∈ cl, DC x.1) ∧ Plain r := by
  obtain ⟨_, ihb, _, ihd⟩ := ih
  intro toks cl r hp h
  unfold yClauses at h
  have hcol : ∀ e r, yCol f 0 toks = some (e, r) → DC e ∧ Plain r := fun e r he => ihb _ _ _ _ hp he
  split at h
  · rename_i c r1 hone
    have hc := dur_clauseOne _ toks hp hcol c _ hone
    split at h
    · rename_i cs r' hrec
      simp only [Option.some.injEq, Prod.mk.injEq] at h
      obtain ⟨rfl, rfl⟩ := h
      obtain ⟨h1, h2⟩ := ihd _ _ _ hc.2.tail hrec
      refine ⟨?_, h2⟩
      intro x hx
      rcases List.mem_cons.mp hx with rfl | hx
      · exact hc.1
      · exact h1 x hx
    · cases h
  · rename_i c r1 _ hone
    have hc := dur_clauseOne _ toks hp hcol c _ hone
    simp only [Option.some.injEq, Prod.mk.injEq] at h
    obtain ⟨rfl, rfl⟩ := h
    refine ⟨?_, hc.2⟩
    intro x hx
    simp only [List.mem_singleton] at hx
    subst hx
    exact hc.1
  · cases h

theorem durColInv : ∀ f, DurColInv f := by
  intro f
  induction f with
  | zero =>
    refine ⟨?_, ?_, ?_, ?_⟩
    · intro toks e r _ h; simp [yPrimary] at h
    · intro m toks e r _ h; simp [yCol] at h
    · intro m lhs toks e r _ _ h; simp [yColLoop] at h
    · intro toks cl r _ h; simp [yClauses] at h
  | succ k ih =>
    exact ⟨dur_prim_step k ih, dur_col_step k ih, dur_loop_step k ih, dur_clauses_step k ih⟩


/-! ### the CONDITION grammar: durations only -/

theorem dd_paren (e : Expr) (h : DD e) : DD (.paren e) := by
  unfold DD at *
  simp [allNodes, pDur, h]

theorem dd_binary (op : Op) (l r : Expr) (hl : DD l) (hr : DD r) : DD (.binary op l r) := by
  unfold DD at *
  simp [allNodes, pDur, hl, hr]

theorem dc_of_paren_dc (e : Expr) (h : DC e) : DC (.paren e) := by
  unfold DC at *
  simp [allNodes, qDC, pDur, pCol, h]

theorem dd_mkSet (name : Str) (op : Op) (cl : List (Expr × Option Str)) : DD (mkSet name op cl) := by
  simp [mkSet, DD, allNodes, pDur]

theorem dd_match (k : Kw) (a b : Tok) (e : Expr) (h : matchFamily k a b = some e) : DD e := by
  obtain ⟨op, x, y, _, rfl⟩ := matchFamily_shape k a b e h
  simp [DD, allNodes, pDur]

/-- the COLUMN loop keeps durations in range whatever stands on its left (a parenthesised COLUMN) -/
theorem dur_loop_dd : ∀ (f m : Nat) (lhs : Expr) (toks : List Tok) (e : Expr) (r : List Tok),
    Plain toks → DD lhs → yColLoop f m lhs toks = some (e, r) → DD e ∧ Plain r
  | 0, _, _, _, _, _, _, _, h => by simp [yColLoop] at h
  | f + 1, m, lhs, toks, e, r, hp, hl, h => by
    unfold yColLoop at h
    cases toks with
    | nil =>
      simp only [Option.some.injEq, Prod.mk.injEq] at h
      obtain ⟨rfl, rfl⟩ := h
      exact ⟨hl, hp⟩
    | cons t rest =>
      simp only at h
      cases hop : colOpOfTok t with
      | none =>
        simp only [hop, Option.some.injEq, Prod.mk.injEq] at h
        obtain ⟨rfl, rfl⟩ := h
        exact ⟨hl, hp⟩
      | some op =>
        simp only [hop] at h
        split at h
        · cases h
        · split at h
          · cases hrc : yCol f (nextMinLevel op) rest with
            | none => simp [hrc] at h
            | some p =>
              obtain ⟨rhs, r1⟩ := p
              simp only [hrc] at h
              obtain ⟨hr, hp1⟩ := (durColInv f).2.1 _ _ _ _ hp.tail hrc
              exact dur_loop_dd f m (.binary op lhs rhs) r1 e r hp1 (dd_binary op lhs rhs hl hr.dd) h
          · simp only [Option.some.injEq, Prod.mk.injEq] at h
            obtain ⟨rfl, rfl⟩ := h
            exact ⟨hl, hp⟩

def DurCondInv (f : Nat) : Prop :=
  (∀ toks e k r, Plain toks → yOperand f toks = some (e, k, r) → DD e ∧ Plain r) ∧
  (∀ toks e k r, Plain toks → yCondUnit f toks = some (e, k, r) → DD e ∧ Plain r) ∧
  (∀ toks e k r, Plain toks → yGen f toks = some (e, k, r) → DD e ∧ Plain r) ∧
  (∀ m lhs toks e r, Plain toks → DD lhs → yCondLoop f m lhs toks = some (e, r) → DD e ∧ Plain r)

theorem dur_operand_step (f : Nat) (ih : DurCondInv f) :
    ∀ toks e k r, Plain toks → yOperand (f + 1) toks = some (e, k, r) → DD e ∧ Plain r := by
  obtain ⟨_, _, ihg, _⟩ := ih
  obtain ⟨_, hcolI, _, hclI⟩ := durColInv f
  intro toks e k r hp h
  unfold yOperand at h
  split at h
  · -- ( … )
    split at h
    · rename_i e' k' r' hg
      obtain ⟨h1, h2⟩ := ihg _ _ _ _ hp.tail hg
      split at h
      · -- a parenthesised COLUMN goes on as a COLUMN
        split at h
        · rename_i e'' r'' hl
          simp only [Option.some.injEq, Prod.mk.injEq] at h
          obtain ⟨rfl, _, rfl⟩ := h
          exact dur_loop_dd f 0 (.paren e') r' _ _ h2.tail (dd_paren _ h1) hl
        · cases h
      · simp only [Option.some.injEq, Prod.mk.injEq] at h
        obtain ⟨rfl, _, rfl⟩ := h
        exact ⟨dd_paren _ h1, h2.tail⟩
    · cases h
  · -- x IN ( … )
    split at h
    · rename_i cl r' hc
      simp only [Option.some.injEq, Prod.mk.injEq] at h
      obtain ⟨rfl, _, rfl⟩ := h
      obtain ⟨_, h2⟩ := hclI _ _ _ hp.tail.tail.tail hc
      exact ⟨dd_mkSet _ _ _, h2.tail⟩
    · cases h
  · -- x NOT IN ( … )
    split at h
    · rename_i cl r' hc
      simp only [Option.some.injEq, Prod.mk.injEq] at h
      obtain ⟨rfl, _, rfl⟩ := h
      obtain ⟨_, h2⟩ := hclI _ _ _ hp.tail.tail.tail.tail hc
      exact ⟨dd_mkSet _ _ _, h2.tail⟩
    · cases h
  · -- MATCH family
    split at h
    · rename_i e' hm
      simp only [Option.some.injEq, Prod.mk.injEq] at h
      obtain ⟨rfl, _, rfl⟩ := h
      exact ⟨dd_match _ _ _ _ hm, hp.tail.tail.tail.tail.tail.tail⟩
    · cases h
  · -- a COLUMN
    split at h
    · rename_i e' r' hc
      simp only [Option.some.injEq, Prod.mk.injEq] at h
      obtain ⟨rfl, _, rfl⟩ := h
      obtain ⟨h1, h2⟩ := hcolI _ _ _ _ hp hc
      exact ⟨h1.dd, h2⟩
    · cases h

theorem dur_condUnit_step (f : Nat) (ih : DurCondInv f) :
    ∀ toks e k r, Plain toks → yCondUnit (f + 1) toks = some (e, k, r) → DD e ∧ Plain r := by
  obtain ⟨iho, _, _, _⟩ := ih
  intro toks e k r hp h
  unfold yCondUnit at h
  split at h
  · rename_i e1 k1 t rest ho
    obtain ⟨h1, h2⟩ := iho _ _ _ _ hp ho
    split at h
    · rename_i op hop
      split at h
      · cases h
      · split at h
        · rename_i e2 k2 r2 ho2
          obtain ⟨h3, h4⟩ := iho _ _ _ _ h2.tail ho2
          split at h
          · cases h
          · split at h
            · cases h
            · simp only [Option.some.injEq, Prod.mk.injEq] at h
              obtain ⟨rfl, _, rfl⟩ := h
              exact ⟨dd_binary _ _ _ h1 h3, h4⟩
        · cases h
    · simp only [Option.some.injEq, Prod.mk.injEq] at h
      obtain ⟨rfl, _, rfl⟩ := h
      exact ⟨h1, h2⟩
  · rename_i other hne
    cases ho : yOperand f toks with
    | none => rw [ho] at h; cases h
    | some p =>
      obtain ⟨e1, k1, r1⟩ := p
      rw [ho] at h
      simp only [Option.some.injEq, Prod.mk.injEq] at h
      obtain ⟨rfl, _, rfl⟩ := h
      exact iho _ _ _ _ hp ho


theorem dur_gen_step (f : Nat) (ih : DurCondInv f) :
    ∀ toks e k r, Plain toks → yGen (f + 1) toks = some (e, k, r) → DD e ∧ Plain r := by
  obtain ⟨_, ihu, _, ihl⟩ := ih
  intro toks e k r hp h
  unfold yGen at h
  split at h
  · rename_i e1 k1 r1 hu
    obtain ⟨h1, h2⟩ := ihu _ _ _ _ hp hu
    split at h
    · simp only [Option.some.injEq, Prod.mk.injEq] at h
      obtain ⟨rfl, _, rfl⟩ := h
      exact ⟨h1, h2⟩
    · split at h
      · rename_i e' r' hl
        obtain ⟨h3, h4⟩ := ihl _ _ _ _ _ h2 h1 hl
        split at h
        · simp only [Option.some.injEq, Prod.mk.injEq] at h
          obtain ⟨rfl, _, rfl⟩ := h
          exact ⟨h3, h4⟩
        · simp only [Option.some.injEq, Prod.mk.injEq] at h
          obtain ⟨rfl, _, rfl⟩ := h
          exact ⟨h3, h4⟩
      · cases h
  · cases h

theorem dur_condLoop_step (f : Nat) (ih : DurCondInv f) :
    ∀ m lhs toks e r, Plain toks → DD lhs → yCondLoop (f + 1) m lhs toks = some (e, r) → DD e ∧ Plain r := by
  obtain ⟨_, ihu, _, ihl⟩ := ih
  intro m lhs toks e r hp hl h
  unfold yCondLoop at h
  cases toks with
  | nil =>
    simp only [Option.some.injEq, Prod.mk.injEq] at h
    obtain ⟨rfl, rfl⟩ := h
    exact ⟨hl, hp⟩
  | cons t rest =>
    simp only at h
    cases hop : logicalOpOfTok t with
    | none =>
      simp only [hop, Option.some.injEq, Prod.mk.injEq] at h
      obtain ⟨rfl, rfl⟩ := h
      exact ⟨hl, hp⟩
    | some op =>
      simp only [hop] at h
      split at h
      · cases h
      · split at h
        · split at h
          · rename_i e1 k1 r1 hu
            obtain ⟨h1, h2⟩ := ihu _ _ _ _ hp.tail hu
            split at h
            · cases h
            · split at h
              · rename_i rhs r' hl2
                obtain ⟨h3, h4⟩ := ihl _ _ _ _ _ h2 h1 hl2
                exact ihl _ _ _ _ _ h4 (dd_binary op lhs rhs hl h3) h
              · cases h
          · cases h
        · simp only [Option.some.injEq, Prod.mk.injEq] at h
          obtain ⟨rfl, rfl⟩ := h
          exact ⟨hl, hp⟩

theorem durCondInv : ∀ f, DurCondInv f := by
  intro f
  induction f with
  | zero =>
    refine ⟨?_, ?_, ?_, ?_⟩
    · intro toks e k r _ h; simp [yOperand] at h
    · intro toks e k r _ h; simp [yCondUnit] at h
    · intro toks e k r _ h; simp [yGen] at h
    · intro m lhs toks e r _ _ h; simp [yCondLoop] at h
  | succ k ih =>
    exact ⟨dur_operand_step k ih, dur_condUnit_step k ih, dur_gen_step k ih, dur_condLoop_step k ih⟩

/-- **every DurationLiteral of a condition the statement grammar builds from tokens without a
`-`-prefixed DURATIONVAL lies in [0, MaxInt64].** -/
theorem yaccParse_durs (toks : List Tok) (e : Expr) (hp : Plain toks) (h : yaccParse toks = some e) :
    DursInRange e = true := by
  unfold yaccParse at h
  split at h
  · rename_i e0 k hg
    split at h
    · cases h
    · simp only [Option.some.injEq] at h
      subst h
      exact ((durCondInv _).2.2.1 _ _ _ _ hp hg).1
  · cases h


/-! ### the scanner never produces a DURATIONVAL that starts with `-` -/

theorem plainTok_dur_cons (c : Char) (r : Str) (h : c ≠ '-') : plainTok (.dur (c :: r)) = true := by
  unfold plainTok
  split
  · rename_i heq
    simp only [Tok.dur.injEq, List.cons.injEq] at heq
    exact absurd heq.1 h
  · rfl

theorem isDigit_ne_minus (c : Char) (h : isDigit c = true) : c ≠ '-' := by
  intro hc
  subst hc
  simp [isDigit] at h

theorem scanNumber_plain_digit (c : Char) (rest : List Char) (hd : isDigit c = true) :
    plainTok (scanNumber (c :: rest)).1 = true := by
  unfold scanNumber
  simp only [splitDigits, hd, if_true]
  split
  · split
    · split <;> simp [plainTok]
    · simp [plainTok]
  · split
    · simp only [List.cons_append]
      exact plainTok_dur_cons c _ (isDigit_ne_minus c hd)
    · simp [plainTok]
  · simp [plainTok]

theorem scanNumber_plain_dot (rest : List Char) : plainTok (scanNumber ('.' :: rest)).1 = true := by
  unfold scanNumber
  have : isDigit '.' = false := by decide
  simp only [splitDigits, this]
  split
  · split
    · split <;> simp [plainTok]
    · simp [plainTok]
  · rename_i hne heq
    simp only [Bool.false_eq_true, if_false, List.cons.injEq] at heq
    exact absurd heq.1.symm hne
  · rename_i heq
    simp at heq

theorem scanString_plain (cs : List Char) : plainTok (scanString cs).1 = true := by
  unfold scanString
  split
  · split <;> simp [plainTok]
  · simp [plainTok]

theorem scanIdent_plain (l cd : Bool) (cs : List Char) : plainTok (scanIdent l cd cs).1 = true := by
  unfold scanIdent
  simp only
  split
  · split
    · simp [plainTok]
    · rename_i other _
      exact scanString_plain _
  · split
    · split <;> simp [plainTok]
    · simp [plainTok]

theorem scanRaw_plain (st : ScanSt) (cs : List Char) (t : Tok) (r : List Char)
    (h : scanRaw st cs = (t, r)) : plainTok t = true := by
  unfold scanRaw at h
  cases cs with
  | nil => simp only [Prod.mk.injEq] at h; obtain ⟨rfl, _⟩ := h; simp [plainTok]
  | cons c rest =>
    simp only at h
    by_cases h1 : isWhitespace c = true
    · rw [if_pos h1] at h
      (simp only [Prod.mk.injEq] at h; obtain ⟨rfl, _⟩ := h; simp [plainTok])
    rw [if_neg h1] at h
    by_cases h2 : (isLetter c || decide (c = '_')) = true
    · rw [if_pos h2] at h
      have := scanIdent_plain true st.checkDot (c :: rest); rw [h] at this; exact this
    rw [if_neg h2] at h
    by_cases h3 : isDigit c = true
    · rw [if_pos h3] at h
      have := scanNumber_plain_digit c rest h3; rw [h] at this; exact this
    rw [if_neg h3] at h
    by_cases h4 : c = '"'
    · rw [if_pos h4] at h
      have := scanIdent_plain true st.checkDot (c :: rest); rw [h] at this; exact this
    rw [if_neg h4] at h
    by_cases h5 : c = '\''
    · rw [if_pos h5] at h
      have := scanString_plain (c :: rest); rw [h] at this; exact this
    rw [if_neg h5] at h
    by_cases h6 : c = '.'
    · rw [if_pos h6] at h
      subst h6
      split at h
      · split at h
        · rename_i q rest' _
          have := scanNumber_plain_dot (q :: rest'); rw [h] at this; exact this
        · (simp only [Prod.mk.injEq] at h; obtain ⟨rfl, _⟩ := h; simp [plainTok])
      · (simp only [Prod.mk.injEq] at h; obtain ⟨rfl, _⟩ := h; simp [plainTok])
    rw [if_neg h6] at h
    by_cases h7 : c = '$'
    · rw [if_pos h7] at h
      split at h
      · (simp only [Prod.mk.injEq] at h; obtain ⟨rfl, _⟩ := h; simp [plainTok])
      · rename_i t' r' _ heq
        simp only [Prod.mk.injEq] at h
        obtain ⟨rfl, _⟩ := h
        have := scanIdent_plain false st.checkDot rest; rw [heq] at this; exact this
    rw [if_neg h7] at h
    by_cases hc0 : c = '+'
    · rw [if_pos hc0] at h
      first
        | (simp only [Prod.mk.injEq] at h; obtain ⟨rfl, _⟩ := h; simp [plainTok])
        | (repeat' split at h
           all_goals (simp only [Prod.mk.injEq] at h; obtain ⟨rfl, _⟩ := h; simp [plainTok]))
    rw [if_neg hc0] at h
    by_cases hc1 : c = '-'
    · rw [if_pos hc1] at h
      first
        | (simp only [Prod.mk.injEq] at h; obtain ⟨rfl, _⟩ := h; simp [plainTok])
        | (repeat' split at h
           all_goals (simp only [Prod.mk.injEq] at h; obtain ⟨rfl, _⟩ := h; simp [plainTok]))
    rw [if_neg hc1] at h
    by_cases hc2 : c = '*'
    · rw [if_pos hc2] at h
      first
        | (simp only [Prod.mk.injEq] at h; obtain ⟨rfl, _⟩ := h; simp [plainTok])
        | (repeat' split at h
           all_goals (simp only [Prod.mk.injEq] at h; obtain ⟨rfl, _⟩ := h; simp [plainTok]))
    rw [if_neg hc2] at h
    by_cases hc3 : c = '/'
    · rw [if_pos hc3] at h
      first
        | (simp only [Prod.mk.injEq] at h; obtain ⟨rfl, _⟩ := h; simp [plainTok])
        | (repeat' split at h
           all_goals (simp only [Prod.mk.injEq] at h; obtain ⟨rfl, _⟩ := h; simp [plainTok]))
    rw [if_neg hc3] at h
    by_cases hc4 : c = '%'
    · rw [if_pos hc4] at h
      first
        | (simp only [Prod.mk.injEq] at h; obtain ⟨rfl, _⟩ := h; simp [plainTok])
        | (repeat' split at h
           all_goals (simp only [Prod.mk.injEq] at h; obtain ⟨rfl, _⟩ := h; simp [plainTok]))
    rw [if_neg hc4] at h
    by_cases hc5 : c = '&'
    · rw [if_pos hc5] at h
      first
        | (simp only [Prod.mk.injEq] at h; obtain ⟨rfl, _⟩ := h; simp [plainTok])
        | (repeat' split at h
           all_goals (simp only [Prod.mk.injEq] at h; obtain ⟨rfl, _⟩ := h; simp [plainTok]))
    rw [if_neg hc5] at h
    by_cases hc6 : c = '|'
    · rw [if_pos hc6] at h
      first
        | (simp only [Prod.mk.injEq] at h; obtain ⟨rfl, _⟩ := h; simp [plainTok])
        | (repeat' split at h
           all_goals (simp only [Prod.mk.injEq] at h; obtain ⟨rfl, _⟩ := h; simp [plainTok]))
    rw [if_neg hc6] at h
    by_cases hc7 : c = '^'
    · rw [if_pos hc7] at h
      first
        | (simp only [Prod.mk.injEq] at h; obtain ⟨rfl, _⟩ := h; simp [plainTok])
        | (repeat' split at h
           all_goals (simp only [Prod.mk.injEq] at h; obtain ⟨rfl, _⟩ := h; simp [plainTok]))
    rw [if_neg hc7] at h
    by_cases hc8 : c = '='
    · rw [if_pos hc8] at h
      first
        | (simp only [Prod.mk.injEq] at h; obtain ⟨rfl, _⟩ := h; simp [plainTok])
        | (repeat' split at h
           all_goals (simp only [Prod.mk.injEq] at h; obtain ⟨rfl, _⟩ := h; simp [plainTok]))
    rw [if_neg hc8] at h
    by_cases hc9 : c = '!'
    · rw [if_pos hc9] at h
      first
        | (simp only [Prod.mk.injEq] at h; obtain ⟨rfl, _⟩ := h; simp [plainTok])
        | (repeat' split at h
           all_goals (simp only [Prod.mk.injEq] at h; obtain ⟨rfl, _⟩ := h; simp [plainTok]))
    rw [if_neg hc9] at h
    by_cases hc10 : c = '>'
    · rw [if_pos hc10] at h
      first
        | (simp only [Prod.mk.injEq] at h; obtain ⟨rfl, _⟩ := h; simp [plainTok])
        | (repeat' split at h
           all_goals (simp only [Prod.mk.injEq] at h; obtain ⟨rfl, _⟩ := h; simp [plainTok]))
    rw [if_neg hc10] at h
    by_cases hc11 : c = '<'
    · rw [if_pos hc11] at h
      first
        | (simp only [Prod.mk.injEq] at h; obtain ⟨rfl, _⟩ := h; simp [plainTok])
        | (repeat' split at h
           all_goals (simp only [Prod.mk.injEq] at h; obtain ⟨rfl, _⟩ := h; simp [plainTok]))
    rw [if_neg hc11] at h
    by_cases hc12 : c = '('
    · rw [if_pos hc12] at h
      first
        | (simp only [Prod.mk.injEq] at h; obtain ⟨rfl, _⟩ := h; simp [plainTok])
        | (repeat' split at h
           all_goals (simp only [Prod.mk.injEq] at h; obtain ⟨rfl, _⟩ := h; simp [plainTok]))
    rw [if_neg hc12] at h
    by_cases hc13 : c = ')'
    · rw [if_pos hc13] at h
      first
        | (simp only [Prod.mk.injEq] at h; obtain ⟨rfl, _⟩ := h; simp [plainTok])
        | (repeat' split at h
           all_goals (simp only [Prod.mk.injEq] at h; obtain ⟨rfl, _⟩ := h; simp [plainTok]))
    rw [if_neg hc13] at h
    by_cases hc14 : c = ','
    · rw [if_pos hc14] at h
      first
        | (simp only [Prod.mk.injEq] at h; obtain ⟨rfl, _⟩ := h; simp [plainTok])
        | (repeat' split at h
           all_goals (simp only [Prod.mk.injEq] at h; obtain ⟨rfl, _⟩ := h; simp [plainTok]))
    rw [if_neg hc14] at h
    by_cases hc15 : c = ';'
    · rw [if_pos hc15] at h
      first
        | (simp only [Prod.mk.injEq] at h; obtain ⟨rfl, _⟩ := h; simp [plainTok])
        | (repeat' split at h
           all_goals (simp only [Prod.mk.injEq] at h; obtain ⟨rfl, _⟩ := h; simp [plainTok]))
    rw [if_neg hc15] at h
    by_cases hc16 : c = ':'
    · rw [if_pos hc16] at h
      first
        | (simp only [Prod.mk.injEq] at h; obtain ⟨rfl, _⟩ := h; simp [plainTok])
        | (repeat' split at h
           all_goals (simp only [Prod.mk.injEq] at h; obtain ⟨rfl, _⟩ := h; simp [plainTok]))
    rw [if_neg hc16] at h
    by_cases hc17 : c = '{'
    · rw [if_pos hc17] at h
      first
        | (simp only [Prod.mk.injEq] at h; obtain ⟨rfl, _⟩ := h; simp [plainTok])
        | (repeat' split at h
           all_goals (simp only [Prod.mk.injEq] at h; obtain ⟨rfl, _⟩ := h; simp [plainTok]))
    rw [if_neg hc17] at h
    by_cases hc18 : c = '}'
    · rw [if_pos hc18] at h
      first
        | (simp only [Prod.mk.injEq] at h; obtain ⟨rfl, _⟩ := h; simp [plainTok])
        | (repeat' split at h
           all_goals (simp only [Prod.mk.injEq] at h; obtain ⟨rfl, _⟩ := h; simp [plainTok]))
    rw [if_neg hc18] at h
    by_cases hc19 : c = '['
    · rw [if_pos hc19] at h
      first
        | (simp only [Prod.mk.injEq] at h; obtain ⟨rfl, _⟩ := h; simp [plainTok])
        | (repeat' split at h
           all_goals (simp only [Prod.mk.injEq] at h; obtain ⟨rfl, _⟩ := h; simp [plainTok]))
    rw [if_neg hc19] at h
    by_cases hc20 : c = ']'
    · rw [if_pos hc20] at h
      first
        | (simp only [Prod.mk.injEq] at h; obtain ⟨rfl, _⟩ := h; simp [plainTok])
        | (repeat' split at h
           all_goals (simp only [Prod.mk.injEq] at h; obtain ⟨rfl, _⟩ := h; simp [plainTok]))
    rw [if_neg hc20] at h
    (simp only [Prod.mk.injEq] at h; obtain ⟨rfl, _⟩ := h; simp [plainTok])

theorem yaccLexLoop_plain : ∀ (f : Nat) (st : ScanSt) (cs : List Char) (acc toks : List Tok),
    (∀ t ∈ acc, plainTok t = true) → yaccLexLoop f st cs acc = some toks → ∀ t ∈ toks, plainTok t = true
  | 0, _, _, _, _, _, h => by simp [yaccLexLoop] at h
  | f + 1, st, cs, acc, toks, hacc, h => by
    unfold yaccLexLoop at h
    cases hs : scanRaw st cs with
    | mk t rest =>
      have hpt := scanRaw_plain st cs t rest hs
      simp only [hs] at h
      have hacc' : ∀ x ∈ t :: acc, plainTok x = true := by
        intro x hx
        rcases List.mem_cons.mp hx with rfl | hx
        · exact hpt
        · exact hacc x hx
      split at h
      · simp only [Option.some.injEq] at h
        subst h
        intro x hx
        exact hacc x (by simpa using hx)
      · exact yaccLexLoop_plain f _ rest acc toks hacc h
      all_goals first
        | cases h
        | (split at h
           · cases h
           · exact yaccLexLoop_plain f _ rest _ toks hacc' h)
        | exact yaccLexLoop_plain f _ rest _ toks hacc' h

/-- **what `YyParser.Lex` delivers holds no DURATIONVAL that starts with `-`.** -/
theorem yaccLex_plain (cs : List Char) (toks : List Tok) (h : yaccLex cs = some toks) : Plain toks := by
  unfold yaccLex at h
  have := yaccLexLoop_plain _ _ cs [] toks (by simp) h
  unfold Plain
  exact List.all_eq_true.mpr this

end OG.C12
