/-
C12 — key sets (`SetLiteral`): the order the model keeps them in, insertion, and reading the
printed members back. Core Lean only.
-/
import OG.C12.LitLemmas
import OG.C12.Spec

namespace OG.C12
open OG.Gen.C12

/-! ### the order on members -/

def sgn (a : Num) : Int := if a.neg then -((a.mant : Nat) : Int) else ((a.mant : Nat) : Int)
def p10 (s : Nat) : Int := ((pow10 s : Nat) : Int)

theorem pow10_pos (s : Nat) : 0 < pow10 s := by
  induction s with
  | zero => decide
  | succ n ih => simp only [pow10]; omega

theorem p10_pos (s : Nat) : 0 < p10 s := by
  unfold p10; exact Int.natCast_pos.mpr (pow10_pos s)

theorem signedScaled_eq (a : Num) (s : Nat) : a.signedScaled s = sgn a * p10 s := by
  unfold Num.signedScaled sgn p10
  simp only
  split <;> simp [Int.natCast_mul, Int.neg_mul]

theorem num_lt_iff (a b : Num) : a.lt b = true ↔ sgn a * p10 b.scale < sgn b * p10 a.scale := by
  simp [Num.lt, signedScaled_eq]

theorem cross_trans (A B C pa pb pc : Int) (ha : 0 < pa) (hb : 0 < pb) (hc : 0 < pc)
    (h1 : A * pb < B * pa) (h2 : B * pc < C * pb) : A * pc < C * pa := by
  have e1 : A * pb * pc < B * pa * pc := Int.mul_lt_mul_of_pos_right h1 hc
  have e2 : B * pc * pa < C * pb * pa := Int.mul_lt_mul_of_pos_right h2 ha
  have e3 : B * pa * pc = B * pc * pa := by rw [Int.mul_right_comm]
  have e4 : A * pb * pc = A * pc * pb := by rw [Int.mul_right_comm]
  have e5 : C * pb * pa = C * pa * pb := by rw [Int.mul_right_comm]
  rw [e3] at e1
  have e6 : A * pc * pb < C * pa * pb := by rw [← e4, ← e5]; exact Int.lt_trans e1 e2
  exact Int.lt_of_mul_lt_mul_right e6 (Int.le_of_lt hb)

/-- equal values compare alike against a third one (on the left). -/
theorem cross_congr (A B C pa pb pc : Int) (ha : 0 < pa) (hb : 0 < pb)
    (he : A * pb = B * pa) (h : A * pc < C * pa) : B * pc < C * pb := by
  have e1 : A * pc * pb < C * pa * pb := Int.mul_lt_mul_of_pos_right h hb
  have e2 : A * pc * pb = B * pc * pa := by
    rw [Int.mul_right_comm, he, Int.mul_right_comm]
  have e3 : C * pa * pb = C * pb * pa := by rw [Int.mul_right_comm]
  rw [e2, e3] at e1
  exact Int.lt_of_mul_lt_mul_right e1 (Int.le_of_lt ha)

theorem cross_congr' (A B C pa pb pc : Int) (ha : 0 < pa) (hb : 0 < pb)
    (he : A * pb = B * pa) (h : C * pa < A * pc) : C * pb < B * pc := by
  have e1 : C * pa * pb < A * pc * pb := Int.mul_lt_mul_of_pos_right h hb
  have e2 : A * pc * pb = B * pc * pa := by
    rw [Int.mul_right_comm, he, Int.mul_right_comm]
  have e3 : C * pa * pb = C * pb * pa := by rw [Int.mul_right_comm]
  rw [e2, e3] at e1
  exact Int.lt_of_mul_lt_mul_right e1 (Int.le_of_lt ha)

theorem strLt_irrefl : ∀ a : Str, strLt a a = false
  | [] => rfl
  | c :: cs => by simp [strLt, strLt_irrefl cs]

theorem strLt_trans : ∀ a b c : Str, strLt a b = true → strLt b c = true → strLt a c = true
  | [], [], _, h, _ => by simp [strLt] at h
  | [], _ :: _, [], _, h => by simp [strLt] at h
  | [], _ :: _, _ :: _, _, _ => by simp [strLt]
  | _ :: _, [], _, h, _ => by simp [strLt] at h
  | _ :: _, _ :: _, [], _, h => by simp [strLt] at h
  | x :: xs, y :: ys, z :: zs, h1, h2 => by
    simp only [strLt] at h1 h2 ⊢
    by_cases hxy : x.toNat < y.toNat
    · by_cases hyz : y.toNat < z.toNat
      · have : x.toNat < z.toNat := by omega
        simp [this]
      · simp only [hyz, if_false] at h2
        by_cases hzy : z.toNat < y.toNat
        · simp [hzy] at h2
        · have : x.toNat < z.toNat := by omega
          simp [this]
    · simp only [hxy, if_false] at h1
      by_cases hyx : y.toNat < x.toNat
      · simp [hyx] at h1
      · simp only [hyx, if_false] at h1
        have hxy' : x.toNat = y.toNat := by omega
        by_cases hyz : y.toNat < z.toNat
        · have : x.toNat < z.toNat := by omega
          simp [this]
        · simp only [hyz, if_false] at h2
          by_cases hzy : z.toNat < y.toNat
          · simp [hzy] at h2
          · simp only [hzy, if_false] at h2
            have h3 : ¬ x.toNat < z.toNat := by omega
            have h4 : ¬ z.toNat < x.toNat := by omega
            simp only [h3, h4, if_false]
            exact strLt_trans xs ys zs h1 h2

theorem strLt_asymm : ∀ a b : Str, strLt a b = true → strLt b a = false
  | [], [], h => by simp [strLt] at h
  | [], _ :: _, _ => by simp [strLt]
  | _ :: _, [], h => by simp [strLt] at h
  | x :: xs, y :: ys, h => by
    simp only [strLt] at h ⊢
    by_cases hxy : x.toNat < y.toNat
    · have h1 : ¬ y.toNat < x.toNat := by omega
      simp [h1, hxy]
    · simp only [hxy, if_false] at h
      by_cases hyx : y.toNat < x.toNat
      · simp [hyx] at h
      · simp only [hyx, if_false] at h
        simp only [hyx, hxy, if_false]
        exact strLt_asymm xs ys h

theorem strLt_total : ∀ a b : Str, strLt a b = false → strLt b a = false → a = b
  | [], [], _, _ => rfl
  | [], _ :: _, h, _ => by simp [strLt] at h
  | _ :: _, [], _, h => by simp [strLt] at h
  | x :: xs, y :: ys, h1, h2 => by
    simp only [strLt] at h1 h2
    by_cases hxy : x.toNat < y.toNat
    · simp [hxy] at h1
    · by_cases hyx : y.toNat < x.toNat
      · simp [hyx] at h2
      · simp only [hxy, hyx, if_false] at h1 h2
        have : x = y := Char.toNat_inj.mp (by omega)
        rw [this, strLt_total xs ys h1 h2]

/-- members that compare equal in both directions. -/
def SEquiv (x v : SetVal) : Prop := x.lt v = false ∧ v.lt x = false

theorem setval_lt_trans (a b c : SetVal) (h1 : a.lt b = true) (h2 : b.lt c = true) : a.lt c = true := by
  cases a <;> cases b <;> cases c <;> simp_all [SetVal.lt]
  · rename_i x y z
    rw [num_lt_iff] at *
    exact cross_trans _ _ _ _ _ _ (p10_pos _) (p10_pos _) (p10_pos _) h1 h2
  · rename_i x y z
    exact strLt_trans x y z h1 h2

theorem setval_lt_asymm (a b : SetVal) (h : a.lt b = true) : b.lt a = false := by
  cases a <;> cases b <;> simp_all [SetVal.lt]
  · rename_i x y
    rw [num_lt_iff] at h
    have : ¬ (sgn y * p10 x.scale < sgn x * p10 y.scale) := by omega
    cases hh : y.lt x
    · rfl
    · rw [num_lt_iff] at hh; exact absurd hh this
  · rename_i x y
    exact strLt_asymm x y h

theorem num_equiv_eq (x v : Num) (h1 : x.lt v = false) (h2 : v.lt x = false) :
    sgn x * p10 v.scale = sgn v * p10 x.scale := by
  have a : ¬ (sgn x * p10 v.scale < sgn v * p10 x.scale) := by
    intro h; rw [← num_lt_iff] at h; rw [h] at h1; cases h1
  have b : ¬ (sgn v * p10 x.scale < sgn x * p10 v.scale) := by
    intro h; rw [← num_lt_iff] at h; rw [h] at h2; cases h2
  omega

theorem setval_congr_left (x v y : SetVal) (he : SEquiv x v) (h : x.lt y = true) : v.lt y = true := by
  obtain ⟨h1, h2⟩ := he
  cases x <;> cases v <;> cases y <;> simp_all [SetVal.lt]
  · rename_i a b c
    rw [num_lt_iff] at h ⊢
    exact cross_congr _ _ _ _ _ _ (p10_pos _) (p10_pos _) (num_equiv_eq a b h1 h2) h
  · rename_i a b c
    have := strLt_total a b h1 h2
    subst this; exact h

theorem setval_congr_right (x v w : SetVal) (he : SEquiv x v) (h : w.lt x = true) : w.lt v = true := by
  obtain ⟨h1, h2⟩ := he
  cases x <;> cases v <;> cases w <;> simp_all [SetVal.lt]
  · rename_i a b c
    rw [num_lt_iff] at h ⊢
    exact cross_congr' _ _ _ _ _ _ (p10_pos _) (p10_pos _) (num_equiv_eq a b h1 h2) h
  · rename_i a b c
    have := strLt_total a b h1 h2
    subst this; exact h

/-! ### sorted key lists -/

theorem mem_setInsert (v : SetVal) : ∀ (l : List SetVal) (z : SetVal), z ∈ setInsert v l → z = v ∨ z ∈ l
  | [], z, h => by simp [setInsert] at h; exact Or.inl h
  | x :: xs, z, h => by
    unfold setInsert at h
    split at h
    · simp only [List.mem_cons] at h ⊢; rcases h with h | h | h <;> simp [h]
    · split at h
      · simp only [List.mem_cons] at h ⊢
        rcases h with h | h
        · simp [h]
        · rcases mem_setInsert v xs z h with h | h <;> simp [h]
      · simp only [List.mem_cons] at h ⊢; rcases h with h | h <;> simp [h]

theorem sorted_setInsert (v : SetVal) : ∀ l : List SetVal, sortedB l = true → sortedB (setInsert v l) = true
  | [], _ => by simp [setInsert, sortedB]
  | x :: xs, h => by
    simp only [sortedB, Bool.and_eq_true, List.all_eq_true] at h
    obtain ⟨hx, hs⟩ := h
    unfold setInsert
    cases h1 : v.lt x with
    | true =>
      simp only [if_true, sortedB, Bool.and_eq_true, List.all_eq_true, List.mem_cons]
      refine ⟨?_, hx, hs⟩
      intro y hy
      rcases hy with rfl | hy
      · exact h1
      · exact setval_lt_trans v x y h1 (hx y hy)
    | false =>
      simp only [Bool.false_eq_true, if_false]
      cases h2 : x.lt v with
      | true =>
        simp only [if_true, sortedB, Bool.and_eq_true, List.all_eq_true]
        refine ⟨?_, sorted_setInsert v xs hs⟩
        intro z hz
        rcases mem_setInsert v xs z hz with rfl | hz
        · exact h2
        · exact hx z hz
      | false =>
        simp only [Bool.false_eq_true, if_false, sortedB, Bool.and_eq_true, List.all_eq_true]
        have he : SEquiv x v := ⟨h2, h1⟩
        exact ⟨fun y hy => setval_congr_left x v y he (hx y hy), hs⟩

/-- inserting something above every member appends it. -/
theorem setInsert_append (v : SetVal) : ∀ pre : List SetVal, (∀ x ∈ pre, x.lt v = true) →
    setInsert v pre = pre ++ [v]
  | [], _ => by simp [setInsert]
  | x :: xs, h => by
    have hx := h x (by simp)
    have := setval_lt_asymm x v hx
    unfold setInsert
    simp only [this, Bool.false_eq_true, if_false, hx, if_true, List.cons_append]
    rw [setInsert_append v xs (fun y hy => h y (by simp [hy]))]

theorem sorted_append_mem : ∀ (pre post : List SetVal), sortedB (pre ++ post) = true →
    (∀ x ∈ pre, ∀ y ∈ post, x.lt y = true) ∧ sortedB post = true
  | [], post, h => ⟨by simp, by simpa using h⟩
  | x :: xs, post, h => by
    simp only [List.cons_append, sortedB, Bool.and_eq_true, List.all_eq_true, List.mem_append] at h
    obtain ⟨h1, h2⟩ := h
    obtain ⟨ih1, ih2⟩ := sorted_append_mem xs post h2
    refine ⟨?_, ih2⟩
    intro a ha y hy
    rcases List.mem_cons.mp ha with rfl | ha
    · exact h1 y (Or.inr hy)
    · exact ih1 a ha y hy

/-- re-inserting the members of a sorted list, in order, rebuilds it. -/
theorem foldl_setInsert_sorted : ∀ (post pre : List SetVal), sortedB (pre ++ post) = true →
    post.foldl (fun acc v => setInsert v acc) pre = pre ++ post
  | [], pre, _ => by simp
  | v :: post, pre, h => by
    obtain ⟨h1, _⟩ := sorted_append_mem pre (v :: post) h
    simp only [List.foldl_cons]
    rw [setInsert_append v pre (fun x hx => h1 x hx v (by simp))]
    have := foldl_setInsert_sorted post (pre ++ [v]) (by simpa using h)
    simpa using this

end OG.C12

namespace OG.C12
open OG.Gen.C12

/-! ### reading the printed members back -/

theorem parseNumText_digits (m : Nat) : parseNumText (natDigits m) = ⟨false, m, 0⟩ := by
  have h := splitDigits_append (natDigits m) [] (natDigits_allDigits m) (by intro c r h; cases h)
  rw [List.append_nil] at h
  unfold parseNumText
  rw [h]
  simp [Num.mk', Num.normAux, digitsVal_natDigits]

theorem formatNum_ne_nil (m s : Nat) (hs : s ≠ 0) : (formatNum ⟨false, m, s⟩).isEmpty = false := by
  simp [formatNum, hs]

theorem setFold_val (v : SetVal) (hc : valCanon v = true) (rest : List Tok) (acc : List SetVal) :
    setFold (printSetVal v ++ rest) false acc = setFold rest false (setInsert v acc) := by
  cases v with
  | str s => simp [printSetVal, setFold, setStep]
  | num n =>
    obtain ⟨neg, m, s⟩ := n
    simp only [valCanon, Bool.or_eq_true, decide_eq_true_eq, bne_iff_ne, ne_eq] at hc
    have hne := natDigits_ne_nil m
    have hd : (natDigits m).isEmpty = false := by
      cases h : natDigits m with
      | nil => exact absurd h hne
      | cons _ _ => rfl
    by_cases hs : s = 0
    · subst hs
      cases neg with
      | false =>
        simp [printSetVal, printNum, setFold, setStep, hd, parseNumText_digits]
      | true =>
        simp [printSetVal, printNum, setFold, setStep, hd, parseNumText_digits, Tok.lit, Num.negate]
    · have hm : m % 10 ≠ 0 := by
        rcases hc with h | h
        · exact absurd h hs
        · exact h
      have hp := parseNumText_formatNum m s hs hm
      have hf := formatNum_ne_nil m s hs
      cases neg with
      | false =>
        simp [printSetVal, printNum, setFold, setStep, hs, hf, hp]
      | true =>
        simp [printSetVal, printNum, setFold, setStep, hs, hf, hp, Tok.lit, Num.negate]

theorem setFold_printSetVals : ∀ (vals : List SetVal) (acc : List SetVal), vals.all valCanon = true →
    setFold (printSetVals vals) false acc = vals.foldl (fun a v => setInsert v a) acc
  | [], acc, _ => by simp [printSetVals, setFold]
  | [v], acc, h => by
    simp only [List.all_cons, List.all_nil, Bool.and_true] at h
    have := setFold_val v h [] acc
    simpa [printSetVals, setFold] using this
  | v :: w :: vs, acc, h => by
    simp only [List.all_cons, Bool.and_eq_true] at h
    simp only [printSetVals, List.foldl_cons]
    rw [setFold_val v h.1]
    simp only [setFold, setStep, Tok.lit, List.isEmpty_nil, if_true]
    have := setFold_printSetVals (w :: vs) (setInsert v acc) (by simp [h.2.1, h.2.2])
    simpa using this

/-- **a key set of the model is read back as itself from its printed members.** -/
theorem setRT_of_canon (vals : List SetVal) (h : setCanon vals = true) : setRT vals = true := by
  simp only [setCanon, Bool.and_eq_true] at h
  simp only [setRT, decide_eq_true_eq]
  rw [setFold_printSetVals vals [] h.2]
  simpa using foldl_setInsert_sorted vals [] (by simpa using h.1)

/-- inserting a canonical member keeps the set canonical. -/
theorem setCanon_insert (v : SetVal) (vals : List SetVal) (hv : valCanon v = true) (h : setCanon vals = true) :
    setCanon (setInsert v vals) = true := by
  simp only [setCanon, Bool.and_eq_true, List.all_eq_true] at h ⊢
  refine ⟨sorted_setInsert v vals h.1, ?_⟩
  intro z hz
  rcases mem_setInsert v vals z hz with rfl | hz
  · exact hv
  · exact h.2 z hz

end OG.C12
