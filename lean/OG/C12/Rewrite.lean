/-
C12 — what the coordinator does to a condition between planning and shipping (core only).

`influxql.ConditionExpr` (query/compile.go `compiledStatement.compile`, executor/subquery.go, the shard
mapper): `Reduce` (now() and constants folded, parentheses around a non-binary expression dropped, AND / OR
with a boolean literal simplified, the outermost parentheses removed), then `conditionExpr` (every
comparison with `time` taken out into the time range, AND / OR nodes rebuilt from what is left, a
parenthesised group re-wrapped, "only time remains" = nil), `Reduce` again if something changed, and
`true` = no condition. Transcribed as tree transformers on the model's `Expr`.

Domain (`Except … unmodelled` outside it): constant folding of two literal operands is not modelled
(TimeLiteral is not a node of the model; float arithmetic), so a non-logical operator whose reduced
operands are both literals, `now()` outside a time comparison, and the VarRef named `now()` are outside;
the right-hand side of a time comparison is one of the recorded shapes (`TimeOperand`).
-/
import OG.C12.Spec

namespace OG.C12
open OG.Gen.C12

/-- result of a rewriting step -/
inductive CR where
  | err                    -- the Go function returns an error
  | unmodelled             -- outside the model's domain
  | gone                   -- nil: only time predicates were there
  | keep (e : Expr)
deriving DecidableEq, Repr

def isLogicalOp (op : Op) : Bool := op = .and || op = .or

def isLit : Expr → Bool
  | .str _ | .int _ | .uns _ | .num _ | .numInf | .numNegInf | .numNaN | .bool _ | .dur _ | .regex _ => true
  | _ => false

def isTrueLit (e : Expr) : Bool := e = .bool true
def isFalseLit (e : Expr) : Bool := e = .bool false

def nowName : Str := "now".toList

def isTimeRef : Expr → Bool
  | .varRef name _ => lower name = "time".toList
  | _ => false

/-- time strings the model knows to parse (`ToTimeLiteral`); the harness draws from this list -/
def timeStrings : List Str :=
  ["2020-01-01T00:00:00Z".toList, "2020-01-02".toList, "2020-01-02 10:00:00".toList,
   "2020-01-01T00:00:00.123456789Z".toList, "2019-12-31T23:59:59+08:00".toList]

def isDigitAt (s : Str) (i : Nat) : Bool := match s[i]? with | some c => isDigit c | none => false
def isCharAt (s : Str) (i : Nat) (c : Char) : Bool := s[i]? = some c

/-- `^\d{4}-\d{2}-\d{2}` followed by nothing (date) or by a character other than a line break (date + time) -/
def looksLikeTime (s : Str) : Bool :=
  isDigitAt s 0 && isDigitAt s 1 && isDigitAt s 2 && isDigitAt s 3 && isCharAt s 4 '-' && isDigitAt s 5 && isDigitAt s 6 &&
  isCharAt s 7 '-' && isDigitAt s 8 && isDigitAt s 9 &&
  (match s[10]? with | none => true | some c => c != '\n')

inductive TimeOperand where
  | ok | bad | unknown
deriving DecidableEq, Repr

def isAddSub (op : Op) : Bool := op = .add || op = .sub

/-- what `getTimeRange` makes of the other side of a comparison with `time` (after `Reduce`). -/
def timeOperand : Expr → TimeOperand
  | .str s => if timeStrings.contains s then .ok else if looksLikeTime s then .unknown else .bad
  | .int _ => .ok
  | .dur _ => .ok
  | .num _ => .ok
  | .call name .nil => if name = nowName then .ok else .bad
  | .call _ _ => .bad                                   -- stays a Call: not compatible with time
  | .paren e => timeOperand e
  | .binary op l r =>
    if isAddSub op then
      match l, r with
      | .call name .nil, .dur _ => if name = nowName then .ok else .unknown
      | .str s, .dur _ => if timeStrings.contains s then .ok else .unknown
      | _, _ => .unknown
    else .unknown
  | .varRef name _ => if name = "now()".toList then .unknown else .bad
  | .bool _ => .bad
  | .regex _ => .bad
  | .wildcard _ => .bad
  | _ => .unknown

def swapCmp : Op → Op
  | .gt => .lt | .lt => .gt | .gte => .lte | .lte => .gte
  | op => op

def timeCmpOK (op : Op) : Bool := op = .gt || op = .gte || op = .lt || op = .lte || op = .eq

/-- a comparison with `time`: taken out of the condition, an error, or outside the model -/
def timeCmp (op : Op) (other : Expr) : CR :=
  match timeOperand other with
  | .ok => if timeCmpOK op then .gone else .err
  | .bad => .err
  | .unknown => .unmodelled

/-- `conditionExpr` -/
def condExpr : Expr → CR
  | .binary op l r =>
    if isLogicalOp op then
      match condExpr l with
      | .err => .err
      | .unmodelled => .unmodelled
      | lr =>
        match condExpr r with
        | .err => .err
        | .unmodelled => .unmodelled
        | rr =>
          match lr, rr with
          | _, .gone => lr
          | .gone, _ => rr
          | .keep l', .keep r' => .keep (.binary op l' r')
          | _, _ => .err
    else if isTimeRef l then timeCmp op r
    else if isTimeRef r then timeCmp (swapCmp op) l
    else .keep (.binary op l r)
  | .paren e =>
    match condExpr e with
    | .keep e' => .keep (.paren e')
    | other => other
  | .bool b => .keep (.bool b)
  | _ => .err

mutual
/-- `reduce` on the part of the domain where nothing is folded but booleans under AND / OR and
parentheses (`none` = outside the domain). It does not look into the operands of time comparisons:
they are classified by `timeOperand` on their written form and never printed. -/
def reduceC : Expr → Option Expr
  | .binary op l r =>
    if !isLogicalOp op && (isTimeRef l || isTimeRef r) then some (.binary op l r)
    else
      match reduceC l, reduceC r with
      | some l', some r' =>
        if op = .and then
          if isFalseLit l' || isFalseLit r' then some (.bool false)
          else if isTrueLit l' then some r'
          else if isTrueLit r' then some l'
          else if isLit l' && isLit r' then none
          else some (.binary op l' r')
        else if op = .or then
          if isTrueLit l' || isTrueLit r' then some (.bool true)
          else if isFalseLit l' then some r'
          else if isFalseLit r' then some l'
          else if isLit l' && isLit r' then none
          else some (.binary op l' r')
        else if isLit l' && isLit r' then none
        else some (.binary op l' r')
      | _, _ => none
  | .call name args =>
    if name = nowName then none
    else
      match reduceCArgs args with
      | some a => some (.call name a)
      | none => none
  | .paren e =>
    match reduceC e with
    | some e' => if e'.isBinary then some (.paren e') else some e'
    | none => none
  | .varRef name ty => if name = "now()".toList then none else some (.varRef name ty)
  | e => some e
def reduceCArgs : Args → Option Args
  | .nil => some .nil
  | .cons e r =>
    match reduceC e, reduceCArgs r with
    | some e', some r' => some (.cons e' r')
    | _, _ => none
end

def reduceCTop (e : Expr) : Option Expr :=
  match reduceC e with
  | some (.paren x) => some x
  | other => other

/-- `ConditionExpr` -/
def conditionExprM (e : Expr) : CR :=
  match reduceCTop e with
  | none => .unmodelled
  | some e1 =>
    match condExpr e1 with
    | .keep e2 =>
      (match (if e2 = e1 then some e2 else reduceCTop e2) with
       | none => .unmodelled
       | some e3 => if e3 = .bool true then .gone else .keep e3)
    | other => other

end OG.C12
