/-
C12 — a tree of the statement grammar that shows none of the defect classes is canonical for
`Precedence()` and has literals that are re-read as themselves. Core Lean only.
-/
import OG.C12.Good
import OG.C12.RoundTrip3
import OG.C12.SetLemmas

namespace OG.C12
open OG.Gen.C12

/-- all node predicates at once. -/
def goodAll (e : Expr) : Bool :=
  shapeOK e && nodeOK e && pMixed e && pNeg e && pLike e && pIntegral e && pInfNan e &&
    pCallPlain e && pRegex e && pTagDiv e && pTypes e && pDur e

mutual
theorem allNodes_and (p q : Expr → Bool) : (e : Expr) →
    allNodes (fun x => p x && q x) e = (allNodes p e && allNodes q e)
  | .binary op l r => by
    simp only [allNodes, allNodes_and p q l, allNodes_and p q r]
    cases p (.binary op l r) <;> cases q (.binary op l r) <;> cases allNodes p l <;> cases allNodes q l <;>
      cases allNodes p r <;> cases allNodes q r <;> rfl
  | .paren e => by
    simp only [allNodes, allNodes_and p q e]
    cases p (.paren e) <;> cases q (.paren e) <;> cases allNodes p e <;> cases allNodes q e <;> rfl
  | .call name args => by
    simp only [allNodes, allNodesArgs_and p q args]
    cases p (.call name args) <;> cases q (.call name args) <;> cases allNodesArgs p args <;>
      cases allNodesArgs q args <;> rfl
  | .varRef _ _ | .str _ | .int _ | .uns _ | .num _ | .numInf | .numNegInf | .numNaN | .bool _
  | .dur _ | .regex _ | .wildcard _ | .set _ => by simp [allNodes]
theorem allNodesArgs_and (p q : Expr → Bool) : (a : Args) →
    allNodesArgs (fun x => p x && q x) a = (allNodesArgs p a && allNodesArgs q a)
  | .nil => by simp [allNodesArgs]
  | .cons e r => by
    simp only [allNodesArgs, allNodes_and p q e, allNodesArgs_and p q r]
    cases allNodes p e <;> cases allNodes q e <;> cases allNodesArgs p r <;> cases allNodesArgs q r <;> rfl
end

theorem numRT_of (n : Num) (hc : (n.scale = 0 || n.mant % 10 != 0) = true) (hi : (n.scale != 0) = true) :
    numRT n = true := by
  cases n with
  | mk neg m s =>
    simp only [bne_iff_ne, ne_eq] at hi
    simp only [hi, decide_false, Bool.false_or, bne_iff_ne, ne_eq] at hc
    have := parseNumText_formatNum m s hi hc
    simp [numRT, hi, this]

theorem goodAll_parts (e : Expr) (h : goodAll e = true) :
    shapeOK e = true ∧ nodeOK e = true ∧ pMixed e = true ∧ pNeg e = true ∧ pLike e = true ∧
    pIntegral e = true ∧ pInfNan e = true ∧ pCallPlain e = true ∧ pRegex e = true ∧ pTagDiv e = true ∧
    pTypes e = true ∧ pDur e = true := by
  simp only [goodAll, Bool.and_eq_true] at h
  obtain ⟨⟨⟨⟨⟨⟨⟨⟨⟨⟨⟨a, b⟩, c⟩, d⟩, e1⟩, f⟩, g⟩, i⟩, j⟩, k⟩, l⟩, m⟩ := h
  exact ⟨a, b, c, d, e1, f, g, i, j, k, l, m⟩

mutual
theorem good_canon_atoms : (e : Expr) → allNodes goodAll e = true → PECanon e = true ∧ AtomsOK e = true
  | .binary op l r, h => by
    simp only [allNodes, Bool.and_eq_true] at h
    obtain ⟨⟨hn, hl⟩, hr⟩ := h
    obtain ⟨hcl, hal⟩ := good_canon_atoms l hl
    obtain ⟨hcr, har⟩ := good_canon_atoms r hr
    obtain ⟨hshape, hnode, hmix, hneg, hlike, hint, hinf, hplain, hregex, htag, hty, hd⟩ := goodAll_parts _ hn
    simp only [nodeOK, Bool.and_eq_true] at hnode
    obtain ⟨⟨hisop, hnsl⟩, hsetpos⟩ := hnode
    -- grouping
    have hleft : leftOK (pePrec op) l = true := by
      simp only [shapeOK, Bool.and_eq_true, Bool.or_eq_true] at hshape
      rcases hshape.1 with h | h
      · exact h
      · cases l with
        | binary o ll lr =>
          simp only [Bool.or_eq_true, Bool.and_eq_true, decide_eq_true_eq] at h
          rcases h with ⟨h1, h2⟩ | h
          · simp only [pMixed, h1, h2, Bool.and_self, Bool.true_and, Bool.not_eq_true',
              decide_eq_false_iff_not, Nat.not_lt] at hmix
            simpa [leftOK] using hmix
          · subst h
            simp [pLike, Expr.isBinary] at hlike
        | _ => simp at h
    have hright : rightOK (pePrec op) r = true := by
      simp only [shapeOK, Bool.and_eq_true, Bool.or_eq_true, decide_eq_true_eq] at hshape
      rcases hshape.2 with (h | h) | h
      · exact h
      · simp only [pNeg, h, Bool.true_and, Bool.not_eq_true', decide_eq_false_iff_not, Nat.not_le] at hneg
        cases r with
        | binary o rl rr =>
          cases o <;> simp_all [isNegUnit, rightOK]
        | _ => simp [isNegUnit] at h
      · subst h
        simp only [pLike, Bool.and_eq_true, Bool.not_eq_true'] at hlike
        exact rightOK_of_not_binary _ r hlike.2
    refine ⟨by simp [PECanon, hleft, hright, hcl, hcr], ?_⟩
    simp only [AtomsOK, hal, har, hisop, hnsl, Bool.and_true, Bool.true_and, Bool.and_eq_true]
    refine ⟨by simpa [pTagDiv] using htag, ?_⟩
    simp only [pRegex] at hregex
    by_cases hre : isRegexOp op = true
    · simpa [hre] using hregex
    · have hre' : isRegexOp op = false := by simpa using hre
      simp only [hre', Bool.false_eq_true, if_false] at hregex ⊢
      by_cases hin : isInOp op = true
      · simpa [hin] using hsetpos
      · have hin' : isInOp op = false := by simpa using hin
        simp only [hin', Bool.false_eq_true, if_false] at hregex hsetpos ⊢
        simp [hregex, hsetpos]
  | .paren e, h => by
    simp only [allNodes, Bool.and_eq_true] at h
    obtain ⟨hn, he⟩ := h
    obtain ⟨hc, ha⟩ := good_canon_atoms e he
    obtain ⟨hshape, hnode, hmix, hneg, hlike, hint, hinf, hplain, hregex, htag, hty, hd⟩ := goodAll_parts _ hn
    exact ⟨by simpa [PECanon] using hc, by
      simp only [AtomsOK, ha, Bool.true_and, Bool.and_eq_true]
      exact ⟨by simpa [pRegex] using hregex, by simpa [nodeOK] using hnode⟩⟩
  | .call name args, h => by
    simp only [allNodes, Bool.and_eq_true] at h
    obtain ⟨hn, hargs⟩ := h
    obtain ⟨hshape, hnode, hmix, hneg, hlike, hint, hinf, hplain, hregex, htag, hty, hd⟩ := goodAll_parts _ hn
    simp only [nodeOK, Bool.and_eq_true, decide_eq_true_eq] at hnode
    obtain ⟨hc, ha⟩ := good_args args hargs (by simpa [pRegex] using hregex) hnode.2
    exact ⟨by simpa [PECanon] using hc, by
      simp only [AtomsOK, ha, Bool.and_true, Bool.and_eq_true, decide_eq_true_eq]
      exact ⟨⟨by simpa [pCallPlain] using hplain, by simpa [pInfNan] using hinf⟩, hnode.1⟩⟩
  | .varRef name ty, h => by
    simp only [allNodes] at h
    obtain ⟨hshape, hnode, hmix, hneg, hlike, hint, hinf, hplain, hregex, htag, hty, hd⟩ := goodAll_parts _ h
    exact ⟨by simp [PECanon], by
      simp only [AtomsOK, Bool.and_eq_true]
      exact ⟨by simpa [pInfNan] using hinf, by simpa [pTypes] using hty⟩⟩
  | .num n, h => by
    simp only [allNodes] at h
    obtain ⟨hshape, hnode, hmix, hneg, hlike, hint, hinf, hplain, hregex, htag, hty, hd⟩ := goodAll_parts _ h
    exact ⟨by simp [PECanon], by
      simp only [AtomsOK]
      exact numRT_of n (by simpa [nodeOK] using hnode) (by simpa [pIntegral] using hint)⟩
  | .int v, h => by
    simp only [allNodes] at h
    obtain ⟨hshape, hnode, hmix, hneg, hlike, hint, hinf, hplain, hregex, htag, hty, hd⟩ := goodAll_parts _ h
    exact ⟨by simp [PECanon], by simpa [AtomsOK, nodeOK] using hnode⟩
  | .dur d, h => by
    simp only [allNodes] at h
    obtain ⟨hshape, hnode, hmix, hneg, hlike, hint, hinf, hplain, hregex, htag, hty, hd⟩ := goodAll_parts _ h
    exact ⟨by simp [PECanon], by simpa [AtomsOK, pDur] using hd⟩
  | .set vals, h => by
    simp only [allNodes] at h
    obtain ⟨hshape, hnode, hmix, hneg, hlike, hint, hinf, hplain, hregex, htag, hty, hd⟩ := goodAll_parts _ h
    exact ⟨by simp [PECanon], by
      simp only [AtomsOK]
      exact setRT_of_canon vals (by simpa [nodeOK] using hnode)⟩
  | .uns _, h => by simp [allNodes, goodAll, nodeOK] at h
  | .numInf, h => by simp [allNodes, goodAll, nodeOK] at h
  | .numNegInf, h => by simp [allNodes, goodAll, nodeOK] at h
  | .numNaN, h => by simp [allNodes, goodAll, nodeOK] at h
  | .str _, _ => by simp [PECanon, AtomsOK]
  | .bool _, _ => by simp [PECanon, AtomsOK]
  | .regex _, _ => by simp [PECanon, AtomsOK]
  | .wildcard _, _ => by simp [PECanon, AtomsOK]
theorem good_args : (a : Args) → allNodesArgs goodAll a = true → argsRegex a = true → argsNoSet a = true →
    PECanonArgs a = true ∧ AtomsOKArgs a = true
  | .nil, _, _, _ => by simp [PECanonArgs, AtomsOKArgs]
  | .cons e r, h, hre, hns => by
    simp only [allNodesArgs, Bool.and_eq_true] at h
    simp only [argsRegex, Bool.and_eq_true] at hre
    simp only [argsNoSet, Bool.and_eq_true] at hns
    obtain ⟨hc, ha⟩ := good_canon_atoms e h.1
    obtain ⟨hcr, har⟩ := good_args r h.2 hre.2 hns.2
    exact ⟨by simp [PECanonArgs, hc, hcr], by
      simp [AtomsOKArgs, ha, har, hre.1.1, hre.1.2, hns.1]⟩
end

end OG.C12
