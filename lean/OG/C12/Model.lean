/-
C12 — the model: expression trees, the statement parser (sql.y as a precedence-climbing parser
driven by the regenerated %left/%right table), the printers (`String()`), and `Parser.ParseExpr`
(tree-insertion loop driven by the regenerated `Precedence()` table), written once over an
abstract token source and instantiated for characters (driver) and for tokens (theorems).
Core Lean only.
-/
import OG.C12.Scan

namespace OG.C12
open OG.Gen.C12

/-! ### expression trees -/

/-- a member of a `SetLiteral` (`map[interface{}]bool` with float64 and string keys). -/
inductive SetVal where
  | num (n : Num)
  | str (s : Str)
deriving DecidableEq, Repr

mutual
inductive Expr where
  | varRef (name : Str) (ty : DataType)
  | str (s : Str)
  | int (v : Int)
  | uns (v : Nat)
  | num (n : Num)
  | numInf
  | numNegInf
  | numNaN
  | bool (b : Bool)
  | dur (ns : Int)
  | regex (s : Str)
  | wildcard (ty : WcType)
  | set (vals : List SetVal)
  | call (name : Str) (args : Args)
  | paren (e : Expr)
  | binary (op : Op) (l r : Expr)
inductive Args where
  | nil
  | cons (e : Expr) (rest : Args)
end

deriving instance DecidableEq for Expr, Args
deriving instance Repr for Expr, Args

def Args.ofList : List Expr → Args
  | [] => .nil
  | e :: es => .cons e (Args.ofList es)

def Args.toList : Args → List Expr
  | .nil => []
  | .cons e r => e :: r.toList

/-! ### sets -/

def strLt : Str → Str → Bool
  | [], [] => false
  | [], _ :: _ => true
  | _ :: _, [] => false
  | a :: as, b :: bs => if a.toNat < b.toNat then true else if b.toNat < a.toNat then false else strLt as bs

def Num.signedScaled (a : Num) (otherScale : Nat) : Int :=
  let m : Int := (a.mant * pow10 otherScale : Nat)
  if a.neg then -m else m

/-- value order of two decimals. -/
def Num.lt (a b : Num) : Bool := a.signedScaled b.scale < b.signedScaled a.scale

def SetVal.lt : SetVal → SetVal → Bool
  | .num a, .num b => a.lt b
  | .num _, .str _ => true
  | .str _, .num _ => false
  | .str a, .str b => strLt a b

/-- canonical form of the key set: sorted by value, no duplicates. -0 and 0 are one key; a Go
map assignment over an equal float key rewrites the key (`needkeyupdate`), so the sign of zero
is that of the last write. -/
def setInsert (v : SetVal) : List SetVal → List SetVal
  | [] => [v]
  | x :: xs =>
    if v.lt x then v :: x :: xs
    else if x.lt v then x :: setInsert v xs
    else v :: xs

/-! ### token helpers -/

def tokToOp : Tok → Option Op
  | .sym .add => some .add | .sym .sub => some .sub | .sym .mul => some .mul | .sym .div => some .div
  | .sym .mod => some .mod | .sym .bitand => some .bitand | .sym .bitor => some .bitor
  | .sym .bitxor => some .bitxor
  | .sym .eq => some .eq | .sym .neq => some .neq | .sym .lt => some .lt | .sym .lte => some .lte
  | .sym .gt => some .gt | .sym .gte => some .gte | .sym .eqregex => some .eqregex
  | .sym .neqregex => some .neqregex
  | .kw .AND => some .and | .kw .OR => some .or | .kw .IN => some .inOp | .kw .NOTIN => some .notin
  | .kw .MATCH => some .matchOp | .kw .MATCHPHRASE => some .matchphrase | .kw .LIKE => some .like
  | .kw .IPINRANGE => some .ipinrange
  | _ => none

/-- the token that carries an operator (inverse of `tokToOp`). -/
def opToTok : Op → Tok
  | .add => .sym .add | .sub => .sym .sub | .mul => .sym .mul | .div => .sym .div
  | .mod => .sym .mod | .bitand => .sym .bitand | .bitor => .sym .bitor | .bitxor => .sym .bitxor
  | .eq => .sym .eq | .neq => .sym .neq | .lt => .sym .lt | .lte => .sym .lte
  | .gt => .sym .gt | .gte => .sym .gte | .eqregex => .sym .eqregex | .neqregex => .sym .neqregex
  | .and => .kw .AND | .or => .kw .OR | .inOp => .kw .IN | .notin => .kw .NOTIN
  | .matchOp => .kw .MATCH | .matchphrase => .kw .MATCHPHRASE | .like => .kw .LIKE
  | .ipinrange => .kw .IPINRANGE

def cmpOpOfTok (t : Tok) : Option Op :=
  match tokToOp t with
  | some op => if yaccCmpOps.contains op then some op else none
  | none => none

def colOpOfTok (t : Tok) : Option Op :=
  match tokToOp t with
  | some op => if yaccColumnOps.contains op then some op else none
  | none => none

def lookupType (tbl : List (Str × DataType)) (name : Str) : Option DataType :=
  match tbl with
  | [] => none
  | (k, v) :: rest => if k = name then some v else lookupType rest name

/-- `strconv.ParseInt(text, 10, 64)` as `YyParser.Lex` uses it: the error is dropped, an
out-of-range literal is the clamped value. -/
def yaccInt (text : Str) : Int :=
  let n : Int := digitsVal text
  if n > maxInt64 then maxInt64 else n

/-! ### the statement grammar (sql.y)

CONDITION / OR_CONDITION / AND_CONDITION / OPERATION_EQUAL / CONDITION_COLUMN / COLUMN /
COLUMN_CALL / COLUMN_VAREF / COLUMN_CLAUSES, as a recursive-descent parser; binary operators of
COLUMN and AND/OR are grouped by precedence climbing over `yaccLevel` / `yaccAssoc`. goyacc
reports no conflict that is not resolved by those declarations, so the tree is determined by
them. Not modelled (rejected): CASE, sub-selects after IN, bound parameters. -/

inductive CKind where
  | col        -- a COLUMN
  | cond       -- a CONDITION that is not a parenthesised one
  | condParen  -- LPAREN CONDITION RPAREN: a CONDITION and a CONDITION_COLUMN
deriving DecidableEq, Repr

def nextMinLevel (op : Op) : Nat :=
  match yaccAssoc op with
  | .right => yaccLevel op
  | _ => yaccLevel op + 1

def isStringType : Tok → Option Str
  | .ident s => some s
  | .str s => some s
  | _ => none

/-- the `cast(x AS t)` special case of COLUMN_CALL. -/
def castName (alias : Str) : Str :=
  let a := lower alias
  -- later `if`s win in the Go code
  if a = ['s', 't', 'r', 'i', 'n', 'g'] then ['c', 'a', 's', 't', '_', 's', 't', 'r', 'i', 'n', 'g']
  else if a = ['i', 'n', 't'] then ['c', 'a', 's', 't', '_', 'i', 'n', 't', '6', '4']
  else if a = ['f', 'l', 'o', 'a', 't'] then ['c', 'a', 's', 't', '_', 'f', 'l', 'o', 'a', 't', '6', '4']
  else if a = ['b', 'o', 'o', 'l'] then ['c', 'a', 's', 't', '_', 'b', 'o', 'o', 'l']
  else ['u', 'n', 'k', 'n', 'o', 'w', 'n']

/-- the action of `SUB COLUMN %prec UMINUS`. -/
def yaccNeg (e : Expr) : Expr :=
  match e with
  | .num n => .num n.negate
  | .int v => .int (wrap64 (-1 * v))
  | _ => .binary .mul (.int (-1)) e

/-- the members a COLUMN_CLAUSES list contributes to a SetLiteral. -/
def setOfClauses : List (Expr × Option Str) → List SetVal → List SetVal
  | [], acc => acc
  | (e, _) :: rest, acc =>
    match e with
    | .str s => setOfClauses rest (setInsert (.str s) acc)
    | .num n => setOfClauses rest (setInsert (.num n) acc)
    | .int v => setOfClauses rest (setInsert (.num ⟨decide (v < 0), v.natAbs, 0⟩) acc)
    | _ => setOfClauses rest acc

/-- one COLUMN_CLAUSE; `col` is the result of parsing a COLUMN at this position. -/
def yClauseOne (col : Option (Expr × List Tok)) (toks : List Tok) :
    Option ((Expr × Option Str) × List Tok) :=
  match toks with
  | .sym .mul :: .sym .dcolon :: .kw .TAG :: r => some ((.wildcard .tag, none), r)
  | .sym .mul :: .sym .dcolon :: .kw .FIELD :: r => some ((.wildcard .field, none), r)
  | .sym .mul :: r => some ((.wildcard .none, none), r)
  | _ =>
    match col with
    | some (e, .kw .AS :: .ident a :: r) => some ((e, some a), r)
    | some (e, .kw .AS :: .str a :: r) => some ((e, some a), r)
    | some (e, r) => some ((e, none), r)
    | none => none

mutual
/-- COLUMN without a trailing binary operator. -/
def yPrimary : Nat → List Tok → Option (Expr × List Tok)
  | 0, _ => none
  | f + 1, toks =>
    match toks with
    | .sym .lparen :: rest =>
      match yCol f 0 rest with
      | some (e, .sym .rparen :: r) => some (.paren e, r)
      | _ => none
    | .sym .sub :: rest =>
      let lvl := match yaccUminusAssoc with
        | .right => yaccUminusLevel
        | _ => yaccUminusLevel + 1
      match yCol f lvl rest with
      | some (e, r) => some (yaccNeg e, r)
      | none => none
    | .ident name :: .sym .lparen :: .sym .rparen :: rest =>
      some (.call (lower name) .nil, rest)
    | .ident name :: .sym .lparen :: rest =>
      match yClauses f rest with
      | some (cl, .sym .rparen :: r) =>
        if lower name = ['c', 'a', 's', 't'] then
          match cl with
          | [(e, alias)] => some (.call (lower (castName (alias.getD []))) (.cons e .nil), r)
          | _ => none
        else some (.call (lower name) (Args.ofList (cl.map (·.1))), r)
      | _ => none
    | .ident name :: .sym .dcolon :: t :: rest =>
      match t with
      | .ident tn =>
        match lookupType yaccTypeNames (lower tn) with
        | some ty => some (.varRef name ty, rest)
        | none => none
      | .kw .TAG => some (.varRef name .tag, rest)
      | .kw .FIELD => some (.varRef name .anyField, rest)
      | _ => none
    | .ident a :: .sym .dot :: .ident b :: rest => some (.varRef (a ++ '.' :: b) .tag, rest)
    | .ident name :: rest => some (.varRef name .unknown, rest)
    | .num text :: rest => some (.num (parseNumText text), rest)
    | .int text :: rest => some (.int (yaccInt text), rest)
    | .str s :: rest => some (.str s, rest)
    | .kw .TRUE :: rest => some (.bool true, rest)
    | .kw .FALSE :: rest => some (.bool false, rest)
    | .regex s :: rest => some (.regex s, rest)
    | .dur text :: rest =>
      match parseDuration text with
      | some d => some (.dur d, rest)
      | none => none
    | _ => none

/-- COLUMN: a primary, then binary operators of level ≥ `minL`. -/
def yCol : Nat → Nat → List Tok → Option (Expr × List Tok)
  | 0, _, _ => none
  | f + 1, minL, toks =>
    match yPrimary f toks with
    | some (e, r) => yColLoop f minL e r
    | none => none

def yColLoop : Nat → Nat → Expr → List Tok → Option (Expr × List Tok)
  | 0, _, _, _ => none
  | f + 1, minL, lhs, toks =>
    match toks with
    | t :: rest =>
      match colOpOfTok t with
      | some op =>
        if yaccLevel op = 0 then none
        else if yaccLevel op ≥ minL then
          match yCol f (nextMinLevel op) rest with
          | some (rhs, r) => yColLoop f minL (.binary op lhs rhs) r
          | none => none
        else some (lhs, toks)
      | none => some (lhs, toks)
    | [] => some (lhs, [])

/-- COLUMN_CLAUSES: `*`, `*::tag`, `*::field`, COLUMN, COLUMN AS IDENT|STRING, comma separated. -/
def yClauses : Nat → List Tok → Option (List (Expr × Option Str) × List Tok)
  | 0, _ => none
  | f + 1, toks =>
    match yClauseOne (yCol f 0 toks) toks with
    | some (c, .sym .comma :: r) =>
      match yClauses f r with
      | some (cs, r') => some (c :: cs, r')
      | none => none
    | some (c, r) => some ([c], r)
    | none => none
end

def mkSet (name : Str) (op : Op) (cl : List (Expr × Option Str)) : Expr :=
  .binary op (.varRef name .unknown) (.set (setOfClauses cl []))

/-- AND / OR. -/
def logicalOpOfTok : Tok → Option Op
  | .kw .AND => some .and
  | .kw .OR => some .or
  | _ => none

def Expr.isRegexLit : Expr → Bool
  | .regex _ => true
  | _ => false

/-- `MATCH(a, b)`, `MATCHPHRASE(a, b)`, `IPINRANGE(a, b)` with STRING_TYPE operands. -/
def matchFamily (k : Kw) (a b : Tok) : Option Expr :=
  let op? : Option Op := match k with
    | .MATCH => some .matchOp
    | .MATCHPHRASE => some .matchphrase
    | .IPINRANGE => some .ipinrange
    | _ => none
  match op?, isStringType a, isStringType b with
  | some op, some x, some y => some (.binary op (.varRef x .unknown) (.str y))
  | _, _, _ => none

mutual
/-- what may stand on either side of a comparison, or be a CONDITION on its own. -/
def yOperand : Nat → List Tok → Option (Expr × CKind × List Tok)
  | 0, _ => none
  | f + 1, toks =>
    match toks with
    | .sym .lparen :: rest =>
      match yGen f rest with
      | some (e, k, .sym .rparen :: r) =>
        if k = .col then
          match yColLoop f 0 (.paren e) r with
          | some (e', r') => some (e', .col, r')
          | none => none
        else some (.paren e, .condParen, r)
      | _ => none
    | .ident name :: .kw .IN :: .sym .lparen :: rest =>
      match yClauses f rest with
      | some (cl, .sym .rparen :: r) => some (mkSet name .inOp cl, .cond, r)
      | _ => none
    | .ident name :: .kw .NOT :: .kw .IN :: .sym .lparen :: rest =>
      match yClauses f rest with
      | some (cl, .sym .rparen :: r) => some (mkSet name .notin cl, .cond, r)
      | _ => none
    | .kw k :: .sym .lparen :: a :: .sym .comma :: b :: .sym .rparen :: rest =>
      match matchFamily k a b with
      | some e => some (e, .cond, rest)
      | none => none
    | _ =>
      match yCol f 0 toks with
      | some (e, r) => some (e, .col, r)
      | none => none

/-- an operand, optionally compared with a second one (OPERATION_EQUAL). -/
def yCondUnit : Nat → List Tok → Option (Expr × CKind × List Tok)
  | 0, _ => none
  | f + 1, toks =>
    match yOperand f toks with
    | some (e1, k1, t :: rest) =>
      match cmpOpOfTok t with
      | some op =>
        if k1 = .cond then none
        else
          match yOperand f rest with
          | some (e2, k2, r) =>
            if k2 = .cond then none
            else if op = .neqregex && !e2.isRegexLit then none
            else some (.binary op e1 e2, .cond, r)
          | none => none
      | none => some (e1, k1, t :: rest)
    | other => other

/-- CONDITION, or a bare COLUMN (the caller decides whether that is acceptable). -/
def yGen : Nat → List Tok → Option (Expr × CKind × List Tok)
  | 0, _ => none
  | f + 1, toks =>
    match yCondUnit f toks with
    | some (e, k, r) =>
      if k = .col then some (e, .col, r)
      else
        match yCondLoop f 0 e r with
        | some (e', r') =>
          -- a parenthesised condition that is not followed by AND/OR stays one
          if r' = r then some (e', k, r') else some (e', .cond, r')
        | none => none
    | none => none

/-- CONDITION AND/OR CONDITION, grouped by the (single) precedence level of the two. -/
def yCondLoop : Nat → Nat → Expr → List Tok → Option (Expr × List Tok)
  | 0, _, _, _ => none
  | f + 1, minL, lhs, toks =>
    match toks with
    | t :: rest =>
      match logicalOpOfTok t with
      | some op =>
        if yaccLevel op = 0 then none
        else if yaccLevel op ≥ minL then
          match yCondUnit f rest with
          | some (e, k, r) =>
            if k = .col then none
            else
              match yCondLoop f (nextMinLevel op) e r with
              | some (rhs, r') => yCondLoop f minL (.binary op lhs rhs) r'
              | none => none
          | none => none
        else some (lhs, toks)
      | none => some (lhs, toks)
    | [] => some (lhs, [])
end

/-- `WHERE CONDITION` up to the end of the statement. -/
def yaccParse (toks : List Tok) : Option Expr :=
  match yGen (8 * toks.length + 16) toks with
  | some (e, k, []) => if k = .col then none else some e
  | _ => none

/-- `YyParser.Lex` until EOF: white space dropped; anything the grammar has no use for in a
condition (comments, hints, bad tokens, bound parameters without a value, an unparsable duration)
makes the statement an error. Starts after `… WHERE`. -/
def yaccLexLoop : Nat → ScanSt → List Char → List Tok → Option (List Tok)
  | 0, _, _, _ => none
  | f + 1, st, cs, acc =>
    let (t, rest) := scanRaw st cs
    let st' := st.after t
    match t with
    | .eof => some acc.reverse
    | .ws => yaccLexLoop f st' rest acc
    | .comment | .hint | .bad _ _ | .boundparam _ => none
    | .dur text => if (parseDuration text).isNone then none else yaccLexLoop f st' rest (t :: acc)
    | _ => yaccLexLoop f st' rest (t :: acc)

def yaccLex (cs : List Char) : Option (List Tok) :=
  yaccLexLoop (cs.length + 2) ⟨some (.kw .WHERE), false⟩ cs []

/-! ### printers (`String()` / `RenderBytes`) -/

def intersperse (sep : Str) : List Str → Str
  | [] => []
  | [x] => x
  | x :: xs => x ++ sep ++ intersperse sep xs

def renderInt (v : Int) : Str :=
  if v < 0 then '-' :: natDigits v.natAbs else natDigits v.natAbs

def renderSetVal : SetVal → Str
  | .num n => formatNum n
  | .str s => quoteString s

mutual
/-- `Expr.String()`. -/
def render : Expr → Str
  | .varRef name ty =>
    quoteIdent name ++ (if ty = .unknown then [] else ':' :: ':' :: typeText ty)
  | .str s => quoteString s
  | .int v => renderInt v
  | .uns v => natDigits v
  | .num n => formatNum n
  | .numInf => ['+', 'I', 'n', 'f']
  | .numNegInf => ['-', 'I', 'n', 'f']
  | .numNaN => ['N', 'a', 'N']
  | .bool b => if b then ['t', 'r', 'u', 'e'] else ['f', 'a', 'l', 's', 'e']
  | .dur d => formatDuration d
  | .regex s => '/' :: (escapeSlashes s ++ ['/'])
  | .wildcard .none => ['*']
  | .wildcard .field => ['*', ':', ':', 'f', 'i', 'e', 'l', 'd']
  | .wildcard .tag => ['*', ':', ':', 't', 'a', 'g']
  | .set vals => '(' :: (intersperse [','] (vals.map renderSetVal) ++ [')'])
  | .call name args => name ++ '(' :: (renderArgs args ++ [')'])
  | .paren e => '(' :: (render e ++ [')'])
  | .binary op l r => render l ++ ' ' :: (opText op ++ ' ' :: render r)
def renderArgs : Args → Str
  | .nil => []
  | .cons e .nil => render e
  | .cons e rest => render e ++ ',' :: ' ' :: renderArgs rest
end

/-! ### `Parser.ParseExpr` over an abstract token source -/

inductive RegexRes (σ : Type) where
  | notRegex (s : σ)      -- the next rune (after optional white space, which is consumed) is not '/'
  | ok (re : Str) (s : σ)
  | err

inductive DotNext where
  | slash | colon | dot | other
deriving DecidableEq

/-- what `Parser` needs from its scanner. A state `σ` is a position in the input; `Unscan` is
"continue from the earlier position". -/
structure Src (σ : Type) where
  /-- `Parser.Scan()` -/
  scan : σ → Tok × σ
  /-- `Parser.parseRegex()` -/
  regexAhead : σ → RegexRes σ
  /-- `peekRune()` after a DOT in parseSegmentedIdents -/
  peekAfterDot : σ → DotNext

variable {σ : Type}

/-- `ScanIgnoreWhitespace`: returns the token, the position in front of it and after it. -/
def scanNW (S : Src σ) : Nat → σ → Option (Tok × σ × σ)
  | 0, _ => none
  | f + 1, s =>
    let (t, s') := S.scan s
    if t = .ws || t = .comment then scanNW S f s' else some (t, s, s')

/-- the tree-insertion loop body of `ParseExpr`: descend the right spine while the operator there
binds less tightly than `op`. -/
def insertOp (t : Expr) (op : Op) (rhs : Expr) : Expr :=
  match t with
  | .binary o l r =>
    if pePrec o ≥ pePrec op then .binary op t rhs else .binary o l (insertOp r op rhs)
  | _ => .binary op t rhs

/-- the sign handling of `parseUnaryExpr` (`case ADD, SUB`); `none` = error or panic. -/
def applySign (isSub : Bool) (e : Expr) : Option Expr :=
  match e with
  | .num n => some (.num (if isSub then n.negate else n))
  | .numInf => some (if isSub then .numNegInf else .numInf)
  | .numNegInf => some (if isSub then .numInf else .numNegInf)
  | .numNaN => some .numNaN
  | .int v => some (.int (if isSub then wrap64 (-v) else v))
  | .uns v =>
    if isSub then (if v = two63 then some (.int minInt64) else none) else some (.uns v)
  | .dur d => some (.dur (if isSub then wrap64 (-d) else d))
  | .varRef _ _ | .call _ _ | .paren _ => some (.binary .mul (.int (if isSub then -1 else 1)) e)
  | _ => none

/-- the token after `::` in `ParseVarRef`: a type name, or the keywords FIELD / TAG. -/
def peTypeOfTok : Tok → Option DataType
  | .ident tn => lookupType peTypeNames (lower tn)
  | .kw .FIELD => some .anyField
  | .kw .TAG => some .tag
  | _ => none

/-- INTEGER in `parseUnaryExpr`: int64, else uint64, else an error. -/
def peInt (text : Str) : Option Expr :=
  let n := digitsVal text
  if (n : Int) ≤ maxInt64 then some (.int n)
  else if n ≤ maxUint64 then some (.uns n)
  else none

/-- what one token of a `parseSet` list does to the key set (`neg` = the previous token was SUB). -/
def setStep (t : Tok) (neg : Bool) (vals : List SetVal) : List SetVal :=
  match t with
  | .str x => setInsert (.str x) vals
  | .int text | .num text =>
    if text.isEmpty then vals
    else
      let n := parseNumText text
      setInsert (.num (if neg then n.negate else n)) vals
  | _ => if t.lit.isEmpty then vals else setInsert (.str t.lit) vals

/-- `parseSet` after the LPAREN. `neg` = the previous token was SUB. -/
def peSetLoop (S : Src σ) : Nat → σ → Bool → List SetVal → Option (List SetVal × σ)
  | 0, _, _, _ => none
  | f + 1, s, neg, vals =>
    match scanNW S f s with
    | none => none
    | some (t, _, s') =>
      if t = .sym .rparen then some (setStep t neg vals, s')
      else if t = .eof then none       -- the Go loop never ends here
      else peSetLoop S f s' (t = .sym .sub) (setStep t neg vals)

mutual
/-- `ParseExpr`. -/
def peExpr (S : Src σ) : Nat → σ → Option (Expr × σ)
  | 0, _ => none
  | f + 1, s =>
    match peUnary S f s with
    | some (u, s') => peLoop S f u s'
    | none => none

def peLoop (S : Src σ) : Nat → Expr → σ → Option (Expr × σ)
  | 0, _, _ => none
  | f + 1, root, s =>
    match scanNW S f s with
    | none => none
    | some (t, before, after) =>
      match tokToOp t with
      | none => some (root, before)
      | some op =>
        if !isOperator op then some (root, before)
        else if op = .eqregex || op = .neqregex then
          match S.regexAhead after with
          | .ok re s' => peLoop S f (insertOp root op (.regex re)) s'
          | _ => none
        else if op = .inOp || op = .notin then
          match scanNW S f after with
          | some (.sym .lparen, _, s1) =>
            match peSetLoop S f s1 false [] with
            | some (vals, s') => peLoop S f (insertOp root op (.set vals)) s'
            | none => none
          | _ => none
        else
          match peUnary S f after with
          | some (u, s') => peLoop S f (insertOp root op u) s'
          | none => none

/-- `parseUnaryExpr`. -/
def peUnary (S : Src σ) : Nat → σ → Option (Expr × σ)
  | 0, _ => none
  | f + 1, s =>
    match scanNW S f s with
    | none => none
    | some (t, _, s1) =>
      match t with
      | .sym .lparen =>
        match peExpr S f s1 with
        | some (e, s2) =>
          match scanNW S f s2 with
          | some (.sym .rparen, _, s3) => some (.paren e, s3)
          | _ => none
        | none => none
      | .ident lit =>
        if lower lit = ['i', 'n', 'f'] then some (.numInf, s1)
        else if lower lit = ['n', 'a', 'n'] then some (.numNaN, s1)
        else
          let (t0, s2) := S.scan s1
          if t0 = .sym .lparen then peCall S f (lower lit) s2
          else peVarRef S f [lit] s1
      | .str x => some (.str x, s1)
      | .num text => some (.num (parseNumText text), s1)
      | .int text =>
        match peInt text with
        | some e => some (e, s1)
        | none => none
      | .kw .TRUE => some (.bool true, s1)
      | .kw .FALSE => some (.bool false, s1)
      | .dur text =>
        match parseDuration text with
        | some d => some (.dur d, s1)
        | none => none
      | .sym .mul =>
        let (t0, s2) := S.scan s1
        if t0 = .sym .dcolon then
          let (t1, s3) := S.scan s2
          if t1 = .kw .FIELD then some (.wildcard .field, s3)
          else if t1 = .kw .TAG then some (.wildcard .tag, s3)
          else none
        else some (.wildcard .none, s1)
      | .regex lit => some (.regex lit, s1)
      | .sym .add | .sym .sub =>
        match scanNW S f s1 with
        | some (t0, _, _) =>
          let ok := match t0 with
            | .num _ | .int _ | .dur _ | .sym .lparen | .ident _ => true
            | _ => false
          if ok then
            match peUnary S f s1 with
            | some (e, s2) =>
              match applySign (t = .sym .sub) e with
              | some e' => some (e', s2)
              | none => none
            | none => none
          else none
        | none => none
      | _ => none

/-- `ParseVarRef` after its first identifier: more segments, then an optional `::type`. -/
def peVarRef (S : Src σ) : Nat → List Str → σ → Option (Expr × σ)
  | 0, _, _ => none
  | f + 1, segs, s =>
    let (t, s1) := S.scan s
    let finish (s' : σ) : Option (Expr × σ) :=
      if segs.length > 3 then none
      else
        let name := intersperse ['.'] segs
        let (t1, s2) := S.scan s'
        if t1 = .sym .dcolon then
          let (t2, s3) := S.scan s2
          match peTypeOfTok t2 with
          | some ty => some (.varRef name ty, s3)
          | none => none
        else some (.varRef name .unknown, s')
    if t = .sym .dot then
      match S.peekAfterDot s1 with
      | .slash | .colon => finish s1
      | .dot => peVarRef S f (segs ++ [[]]) s1
      | .other =>
        match scanNW S f s1 with
        | some (.ident x, _, s2) => peVarRef S f (segs ++ [x]) s2
        | _ => none
    else finish s

/-- `parseCall` after the LPAREN. -/
def peCall (S : Src σ) : Nat → Str → σ → Option (Expr × σ)
  | 0, _, _ => none
  | f + 1, name, s =>
    match S.regexAhead s with
    | .err => none
    | .ok re s1 => peCallMore S f name [.regex re] s1
    | .notRegex s1 =>
      let (t, s2) := S.scan s1
      if t = .sym .rparen then some (.call name .nil, s2)
      else
        match peExpr S f s1 with
        | some (a, s3) => peCallMore S f name [a] s3
        | none => none

/-- the "additional function arguments" loop of `parseCall` and its closing RPAREN. -/
def peCallMore (S : Src σ) : Nat → Str → List Expr → σ → Option (Expr × σ)
  | 0, _, _, _ => none
  | f + 1, name, args, s =>
    match scanNW S f s with
    | none => none
    | some (t, before, after) =>
      if t = .sym .comma then
        match S.regexAhead after with
        | .err => none
        | .ok re s1 => peCallMore S f name (args ++ [.regex re]) s1
        | .notRegex s1 =>
          match peExpr S f s1 with
          | some (a, s2) => peCallMore S f name (args ++ [a]) s2
          | none => none
      else
        let (t', s') := S.scan before
        if t' = .sym .rparen then some (.call name (Args.ofList args), s') else none
end

/-! ### the two token sources -/

/-- characters: the scanner of Scan.lean with its state. -/
structure CState where
  st : ScanSt
  cs : List Char

def charScan (c : CState) : Tok × CState :=
  let (t, rest) := scanRaw c.st c.cs
  (t, ⟨c.st.after t, rest⟩)

/-- `parseRegex`: skip white space, look for '/', then `ScanRegex` (which does not go through
`Scanner.Scan`, so the previous-token state is untouched). -/
def charRegexAhead (c : CState) : RegexRes CState :=
  let c1 : CState :=
    match c.cs with
    | ch :: _ => if isWhitespace ch then (charScan c).2 else c
    | [] => c
  match c1.cs with
  | '/' :: rest =>
    match scanDelimited rest false [] with
    | some (re, rest') => .ok re ⟨c1.st, rest'⟩
    | none => .err
  | _ => .notRegex c1

def charPeekAfterDot (c : CState) : DotNext :=
  match c.cs with
  | '/' :: _ => .slash
  | ':' :: _ => .colon
  | '.' :: _ => .dot
  | _ => .other

def charSrc : Src CState := ⟨charScan, charRegexAhead, charPeekAfterDot⟩

/-- `influxql.ParseExpr(text)`: whatever follows the expression is ignored, as in the Go code. -/
def parseExprChars (text : List Char) : Option Expr :=
  let cs := normInput text
  match peExpr charSrc (16 * cs.length + 16) ⟨{}, cs⟩ with
  | some (e, _) => some e
  | none => none

/-- tokens: the stream a printed expression lexes to (no white space). -/
def tokScan : List Tok → Tok × List Tok
  | [] => (.eof, [])
  | t :: ts => (t, ts)

def tokRegexAhead : List Tok → RegexRes (List Tok)
  | .regex s :: ts => .ok s ts
  | ts => .notRegex ts

def tokPeekAfterDot : List Tok → DotNext
  | .regex _ :: _ => .slash
  | .sym .dcolon :: _ => .colon
  | .sym .colon :: _ => .colon
  | .sym .dot :: _ => .dot
  | _ => .other

def tokSrc : Src (List Tok) := ⟨tokScan, tokRegexAhead, tokPeekAfterDot⟩

/-- `ParseExpr` on a token stream. -/
def parseExpr (toks : List Tok) : Option Expr :=
  match peExpr tokSrc (16 * toks.length + 16) toks with
  | some (e, _) => some e
  | none => none

/-! ### the token stream of a printed expression

`print e` is what the scanner makes of `render e`, written compositionally; the driver checks
`print e` against the scanner on every case it runs. Where the text of a literal does not scan
back to one token of its own kind the faithful token is produced: an integral number prints as
an INTEGER, a call name that needs quotes does not scan as one identifier (`bad`). A regex is a
`ScanRegex` token after `=~`, `!~`, `(` of a call and `,`; elsewhere `Scanner.Scan` reads it. -/

def printInt (v : Int) : List Tok :=
  if v < 0 then [.sym .sub, .int (natDigits v.natAbs)] else [.int (natDigits v.natAbs)]

def printNum (n : Num) : List Tok :=
  let body : Tok :=
    if n.scale = 0 then .int (natDigits n.mant) else .num (formatNum { n with neg := false })
  if n.neg then [.sym .sub, body] else [body]

def printDur (d : Int) : List Tok :=
  if d < 0 then [.sym .sub, .dur (formatDurAbs d.natAbs)] else [.dur (formatDurAbs d.natAbs)]

def printSetVal : SetVal → List Tok
  | .num n => printNum n
  | .str s => [.str s]

def printSetVals : List SetVal → List Tok
  | [] => []
  | [v] => printSetVal v
  | v :: vs => printSetVal v ++ .sym .comma :: printSetVals vs

/-- the regex token `ScanRegex` (after `=~`, `!~`, in call arguments) makes of a printed regex. -/
def regexTokDelimited (s : Str) : Tok :=
  match scanDelimited (escapeSlashes s ++ ['/']) false [] with
  | some (re, []) => .regex re
  | _ => .bad .badregex []

/-- the regex token `Scanner.Scan` makes of a printed regex elsewhere. -/
def regexTokRaw (s : Str) : Tok :=
  match skipRegex (escapeSlashes s ++ ['/']) true [] with
  | some (re, []) => .regex re
  | _ => .bad .illegal []

/-- the token a call name (printed without quotes) scans to. -/
def callNameTok (name : Str) : Tok :=
  if identNeedsQuotes name || name.isEmpty then .bad .illegal name else .ident name

def typeToks (ty : DataType) : List Tok :=
  match ty with
  | .unknown => []
  | t => [.sym .dcolon, (match lookupKw (typeText t) with | some k => .kw k | none => .ident (typeText t))]

mutual
/-- tokens of `render e`; `reCtx` = the expression stands where `parseRegex` looks first. -/
def printCtx : Bool → Expr → List Tok
  | _, .varRef name ty => .ident name :: typeToks ty
  | _, .str s => [.str s]
  | _, .int v => printInt v
  | _, .uns v => [.int (natDigits v)]
  | _, .num n => printNum n
  | _, .numInf => [.sym .add, .ident ['I', 'n', 'f']]
  | _, .numNegInf => [.sym .sub, .ident ['I', 'n', 'f']]
  | _, .numNaN => [.ident ['N', 'a', 'N']]
  | _, .bool b => [.kw (if b then .TRUE else .FALSE)]
  | _, .dur d => printDur d
  | reCtx, .regex s => [if reCtx then regexTokDelimited s else regexTokRaw s]
  | _, .wildcard .none => [.sym .mul]
  | _, .wildcard .field => [.sym .mul, .sym .dcolon, .kw .FIELD]
  | _, .wildcard .tag => [.sym .mul, .sym .dcolon, .kw .TAG]
  | _, .set vals => .sym .lparen :: (printSetVals vals ++ [.sym .rparen])
  | _, .call name args => callNameTok name :: .sym .lparen :: (printArgs args ++ [.sym .rparen])
  | _, .paren e => .sym .lparen :: (printCtx false e ++ [.sym .rparen])
  | reCtx, .binary op l r =>
    let lt := printCtx reCtx l
    -- a '/' is DIV only after some tokens (`Scanner.Scan`); after `::tag` / `::field` it starts a
    -- regex scan instead, which never yields an operator
    let opTok := if op = .div && !divAfter lt.getLast? then .bad .illegal ['/'] else opToTok op
    lt ++ opTok :: printCtx (op = .eqregex || op = .neqregex) r
def printArgs : Args → List Tok
  | .nil => []
  | .cons e .nil => printCtx true e
  | .cons e rest => printCtx true e ++ .sym .comma :: printArgs rest
end

def print (e : Expr) : List Tok := printCtx false e

end OG.C12
