/-
C12 — the rewriting between planning and shipping keeps a condition printable.

`Printable e`: the printed text of `e` is read back by `ParseExpr` as `e` — `PECanon` (no subtree needs
parentheses it does not have: a left child binds at least as tightly as its parent, a right child strictly
tighter, per the regenerated `Precedence()`), `AtomsOK`, and the two conditions on the first operand.
`conditionExpr` replaces a node by one of its children (the other held only time comparisons), rebuilds
AND / OR nodes from rewritten children and re-wraps a parenthesised group: each of these keeps `Printable`,
*because* the group is re-wrapped — returned bare, an OR would come to stand under an AND
(`bare_group_breaks_printable`).
-/
import OG.C12.Rewrite
import OG.C12.Props

namespace OG.C12
open OG.Gen.C12

def Printable (e : Expr) : Bool := PECanon e && AtomsOK e && regexFirstOK false e && noSetFirst e

theorem printable_ships (e : Expr) (h : Printable e = true) : parseExpr (print e) = some e := by
  simp only [Printable, Bool.and_eq_true] at h
  exact parseExpr_print e h.1.1.1 h.1.1.2 h.1.2 h.2

theorem leftOK_mono (p q : Nat) (x : Expr) (h : leftOK q x = true) (hpq : p ≤ q) : leftOK p x = true := by
  cases x <;> simp_all [leftOK] <;> omega

theorem rightOK_mono (p q : Nat) (x : Expr) (h : rightOK q x = true) (hpq : p ≤ q) : rightOK p x = true := by
  cases x <;> simp_all [rightOK] <;> omega

theorem rightOK_of_left (p q : Nat) (x : Expr) (h : leftOK q x = true) (hpq : p < q) : rightOK p x = true := by
  cases x <;> simp_all [leftOK, rightOK] <;> omega

theorem leftOK_of_right (p q : Nat) (x : Expr) (h : rightOK q x = true) (hpq : p ≤ q) : leftOK p x = true := by
  cases x <;> simp_all [leftOK, rightOK] <;> omega

theorem logical_not_special (op : Op) (h : isLogicalOp op = true) :
    isRegexOp op = false ∧ isInOp op = false ∧ (op != .div) = true := by
  cases op <;> simp_all [isLogicalOp, isRegexOp, isInOp]

/-- the invariant of one rewriting step: the result is printable and may stand wherever the input stood -/
def Keeps (e e' : Expr) : Prop :=
  PECanon e' = true ∧ AtomsOK e' = true ∧ regexFirstOK false e' = true ∧ noSetFirst e' = true ∧
  (∀ p, leftOK p e = true → leftOK p e' = true) ∧ (∀ p, rightOK p e = true → rightOK p e' = true)

theorem keeps_refl (e : Expr) (h1 : PECanon e = true) (h2 : AtomsOK e = true) (h3 : regexFirstOK false e = true)
    (h4 : noSetFirst e = true) : Keeps e e := ⟨h1, h2, h3, h4, fun _ h => h, fun _ h => h⟩

/-- **`conditionExpr` keeps a condition printable.** -/
theorem condExpr_keeps : (e : Expr) → PECanon e = true → AtomsOK e = true → regexFirstOK false e = true →
    noSetFirst e = true → ∀ e', condExpr e = .keep e' → Keeps e e'
  | .binary op l r, h1, h2, h3, h4, e', hc => by
    simp only [PECanon, Bool.and_eq_true] at h1
    obtain ⟨⟨⟨hl, hr⟩, hcl⟩, hcr⟩ := h1
    have h2' := h2
    simp only [AtomsOK, Bool.and_eq_true] at h2
    obtain ⟨⟨⟨⟨⟨hal, har⟩, hop⟩, hdiv⟩, hctx⟩, hnsl⟩ := h2
    rw [regexFirstOK_binary] at h3
    unfold condExpr at hc
    by_cases hlog : isLogicalOp op = true
    · obtain ⟨hnr, hni, hnd⟩ := logical_not_special op hlog
      simp only [hnr, hni, Bool.false_eq_true, if_false, Bool.and_eq_true] at hctx
      have ihl := condExpr_keeps l hcl hal h3 hnsl
      have ihr := condExpr_keeps r hcr har hctx.1 hctx.2
      simp only [hlog, if_true] at hc
      cases hcl' : condExpr l with
      | err => simp [hcl'] at hc
      | unmodelled => simp [hcl'] at hc
      | gone =>
        simp only [hcl'] at hc
        cases hcr' : condExpr r with
        | err => simp [hcr'] at hc
        | unmodelled => simp [hcr'] at hc
        | gone => simp [hcr'] at hc
        | keep r' =>
          simp only [hcr'] at hc
          have hc' : e' = r' := by injection hc with h; exact h.symm
          subst hc'
          obtain ⟨k1, k2, k3, k4, _, k6⟩ := ihr _ hcr'
          have hr' := k6 _ hr
          refine ⟨k1, k2, k3, k4, ?_, ?_⟩
          · intro p hp
            simp only [leftOK, decide_eq_true_eq] at hp
            exact leftOK_of_right p (pePrec op) _ hr' hp
          · intro p hp
            simp only [rightOK, decide_eq_true_eq] at hp
            exact rightOK_mono p (pePrec op) _ hr' (by omega)
      | keep l' =>
        simp only [hcl'] at hc
        obtain ⟨k1, k2, k3, k4, k5, _⟩ := ihl l' hcl'
        have hl' := k5 _ hl
        cases hcr' : condExpr r with
        | err => simp [hcr'] at hc
        | unmodelled => simp [hcr'] at hc
        | gone =>
          simp only [hcr'] at hc
          have hc' : e' = l' := by injection hc with h; exact h.symm
          subst hc'
          refine ⟨k1, k2, k3, k4, ?_, ?_⟩
          · intro p hp
            simp only [leftOK, decide_eq_true_eq] at hp
            exact leftOK_mono p (pePrec op) _ hl' hp
          · intro p hp
            simp only [rightOK, decide_eq_true_eq] at hp
            exact rightOK_of_left p (pePrec op) _ hl' hp
        | keep r' =>
          simp only [hcr'] at hc
          have hc' : e' = .binary op l' r' := by injection hc with h; exact h.symm
          subst hc'
          obtain ⟨m1, m2, m3, m4, _, m6⟩ := ihr r' hcr'
          have hr' := m6 _ hr
          refine ⟨?_, ?_, ?_, ?_, ?_, ?_⟩
          · simp [PECanon, hl', hr', k1, m1]
          · simp only [AtomsOK, Bool.and_eq_true]
            refine ⟨⟨⟨⟨⟨k2, m2⟩, hop⟩, by simp [hnd]⟩, ?_⟩, k4⟩
            simp [hnr, hni, m3, m4]
          · rw [regexFirstOK_binary]; exact k3
          · rw [noSetFirst_binary]; exact k4
          · intro p hp; simpa [leftOK] using hp
          · intro p hp; simpa [rightOK] using hp
    · have hlog' : isLogicalOp op = false := by simpa using hlog
      simp only [hlog', Bool.false_eq_true, if_false] at hc
      have hk : e' = .binary op l r := by
        split at hc
        · unfold timeCmp at hc
          split at hc <;> (try split at hc) <;> simp at hc
        · split at hc
          · unfold timeCmp at hc
            split at hc <;> (try split at hc) <;> simp at hc
          · cases hc; rfl
      subst hk
      exact keeps_refl _ (by simp [PECanon, hl, hr, hcl, hcr]) h2' (by rw [regexFirstOK_binary]; exact h3) h4
  | .paren x, h1, h2, _, _, e', hc => by
    simp only [PECanon] at h1
    simp only [AtomsOK, Bool.and_eq_true] at h2
    unfold condExpr at hc
    cases hx : condExpr x with
    | keep x' =>
      simp only [hx] at hc
      cases hc
      obtain ⟨k1, k2, k3, k4, _, _⟩ := condExpr_keeps x h1 h2.1.1 h2.1.2 h2.2 x' hx
      refine ⟨by simp [PECanon, k1], by simp [AtomsOK, k2, k3, k4], by simp [regexFirstOK, firstAtom],
        by simp [noSetFirst, firstAtom], fun _ _ => by simp [leftOK], fun _ _ => by simp [rightOK]⟩
    | err => simp [hx] at hc
    | unmodelled => simp [hx] at hc
    | gone => simp [hx] at hc
  | .bool b, h1, h2, h3, h4, e', hc => by
    simp only [condExpr] at hc
    cases hc
    exact keeps_refl _ h1 h2 h3 h4
  | .varRef _ _, _, _, _, _, _, hc | .str _, _, _, _, _, _, hc | .int _, _, _, _, _, _, hc | .uns _, _, _, _, _, _, hc
  | .num _, _, _, _, _, _, hc | .numInf, _, _, _, _, _, hc | .numNegInf, _, _, _, _, _, hc | .numNaN, _, _, _, _, _, hc
  | .dur _, _, _, _, _, _, hc | .regex _, _, _, _, _, _, hc | .wildcard _, _, _, _, _, _, hc | .set _, _, _, _, _, _, hc
  | .call _ _, _, _, _, _, _, hc => by simp [condExpr] at hc


/-! ### `Reduce` on the logical skeleton -/

/-- the atoms of the condition — everything below the AND / OR / parentheses skeleton — are left alone
by `reduce` (no constant to fold, no `now()`, no parentheses around a single operand inside them) -/
def StableAtoms : Expr → Bool
  | .binary op l r =>
    if isLogicalOp op then StableAtoms l && StableAtoms r
    else decide (reduceC (.binary op l r) = some (.binary op l r))
  | .paren x => StableAtoms x
  | e => decide (reduceC e = some e)

theorem keeps_atom (e a : Expr) (hb : a.isBinary = false) (h1 : PECanon a = true) (h2 : AtomsOK a = true)
    (h3 : regexFirstOK false a = true) (h4 : noSetFirst a = true) : Keeps e a := by
  refine ⟨h1, h2, h3, h4, ?_, ?_⟩ <;> intro p _ <;> cases a <;> simp_all [leftOK, rightOK, Expr.isBinary]

theorem keeps_bool (e : Expr) (b : Bool) : Keeps e (.bool b) :=
  keeps_atom e (.bool b) rfl (by simp [PECanon]) (by simp [AtomsOK]) (by simp [regexFirstOK, firstAtom])
    (by simp [noSetFirst, firstAtom])

/-- a logical node rebuilt from rewritten children, or replaced by one of them -/
theorem keeps_logical (op : Op) (l r l' r' : Expr) (hlog : isLogicalOp op = true)
    (hl : leftOK (pePrec op) l = true) (hr : rightOK (pePrec op) r = true)
    (hop : isOperator op = true) (kl : Keeps l l') (kr : Keeps r r') :
    Keeps (.binary op l r) (.binary op l' r') ∧ Keeps (.binary op l r) l' ∧ Keeps (.binary op l r) r' := by
  obtain ⟨hnr, hni, hnd⟩ := logical_not_special op hlog
  obtain ⟨k1, k2, k3, k4, k5, _⟩ := kl
  obtain ⟨m1, m2, m3, m4, _, m6⟩ := kr
  have hl' := k5 _ hl
  have hr' := m6 _ hr
  refine ⟨⟨?_, ?_, ?_, ?_, ?_, ?_⟩, ⟨k1, k2, k3, k4, ?_, ?_⟩, ⟨m1, m2, m3, m4, ?_, ?_⟩⟩
  · simp [PECanon, hl', hr', k1, m1]
  · simp only [AtomsOK, Bool.and_eq_true]
    refine ⟨⟨⟨⟨⟨k2, m2⟩, hop⟩, by simp [hnd]⟩, ?_⟩, k4⟩
    simp [hnr, hni, m3, m4]
  · rw [regexFirstOK_binary]; exact k3
  · rw [noSetFirst_binary]; exact k4
  · intro p hp; simpa [leftOK] using hp
  · intro p hp; simpa [rightOK] using hp
  · intro p hp
    simp only [leftOK, decide_eq_true_eq] at hp
    exact leftOK_mono p (pePrec op) _ hl' hp
  · intro p hp
    simp only [rightOK, decide_eq_true_eq] at hp
    exact rightOK_of_left p (pePrec op) _ hl' hp
  · intro p hp
    simp only [leftOK, decide_eq_true_eq] at hp
    exact leftOK_of_right p (pePrec op) _ hr' hp
  · intro p hp
    simp only [rightOK, decide_eq_true_eq] at hp
    exact rightOK_mono p (pePrec op) _ hr' (by omega)

theorem stable_bool (b : Bool) : StableAtoms (.bool b) = true := by simp [StableAtoms, reduceC]

/-- **`reduce` keeps a condition with stable atoms printable** (and its atoms stable). -/
theorem reduceC_keeps : (e : Expr) → PECanon e = true → AtomsOK e = true → regexFirstOK false e = true →
    noSetFirst e = true → StableAtoms e = true → ∀ e', reduceC e = some e' → Keeps e e' ∧ StableAtoms e' = true
  | .binary op l r, h1, h2, h3, h4, hs, e', hc => by
    by_cases hlog : isLogicalOp op = true
    · simp only [PECanon, Bool.and_eq_true] at h1
      obtain ⟨⟨⟨hl, hr⟩, hcl⟩, hcr⟩ := h1
      simp only [AtomsOK, Bool.and_eq_true] at h2
      obtain ⟨⟨⟨⟨⟨hal, har⟩, hop⟩, _⟩, hctx⟩, hnsl⟩ := h2
      rw [regexFirstOK_binary] at h3
      obtain ⟨hnr, hni, _⟩ := logical_not_special op hlog
      simp only [hnr, hni, Bool.false_eq_true, if_false, Bool.and_eq_true] at hctx
      simp only [StableAtoms, hlog, if_true, Bool.and_eq_true] at hs
      have ntime : (!isLogicalOp op && (isTimeRef l || isTimeRef r)) = false := by simp [hlog]
      unfold reduceC at hc
      simp only [ntime, Bool.false_eq_true, if_false] at hc
      cases hl' : reduceC l with
      | none => simp [hl'] at hc
      | some l' =>
        cases hr' : reduceC r with
        | none => simp [hl', hr'] at hc
        | some r' =>
          simp only [hl', hr'] at hc
          obtain ⟨kl, sl⟩ := reduceC_keeps l hcl hal h3 hnsl hs.1 l' hl'
          obtain ⟨kr, sr⟩ := reduceC_keeps r hcr har hctx.1 hctx.2 hs.2 r' hr'
          obtain ⟨kb, kL, kR⟩ := keeps_logical op l r l' r' hlog hl hr hop kl kr
          have sb : StableAtoms (.binary op l' r') = true := by simp [StableAtoms, hlog, sl, sr]
          repeat' split at hc
          all_goals (try (injection hc with hc; subst hc))
          all_goals (try exact ⟨keeps_bool _ _, stable_bool _⟩)
          all_goals (try exact ⟨kb, sb⟩)
          all_goals (try exact ⟨kL, sl⟩)
          all_goals (try exact ⟨kR, sr⟩)
          all_goals (try (cases hc))
    · have hlog' : isLogicalOp op = false := by simpa using hlog
      simp only [StableAtoms, hlog', Bool.false_eq_true, if_false, decide_eq_true_eq] at hs
      rw [hs] at hc
      injection hc with hc
      subst hc
      exact ⟨keeps_refl _ h1 h2 h3 h4, by simp [StableAtoms, hlog', hs]⟩
  | .paren x, h1, h2, _, _, hs, e', hc => by
    simp only [PECanon] at h1
    simp only [AtomsOK, Bool.and_eq_true] at h2
    simp only [StableAtoms] at hs
    unfold reduceC at hc
    cases hx : reduceC x with
    | none => simp [hx] at hc
    | some x' =>
      simp only [hx] at hc
      obtain ⟨⟨k1, k2, k3, k4, _, _⟩, sx⟩ := reduceC_keeps x h1 h2.1.1 h2.1.2 h2.2 hs x' hx
      split at hc
      · injection hc with hc
        subst hc
        exact ⟨⟨by simp [PECanon, k1], by simp [AtomsOK, k2, k3, k4], by simp [regexFirstOK, firstAtom],
          by simp [noSetFirst, firstAtom], fun _ _ => by simp [leftOK], fun _ _ => by simp [rightOK]⟩,
          by simp [StableAtoms, sx]⟩
      · rename_i hnb
        injection hc with hc
        subst hc
        exact ⟨keeps_atom _ _ (by simpa using hnb) k1 k2 k3 k4, sx⟩
  | .varRef n t, h1, h2, h3, h4, hs, e', hc | .str n, h1, h2, h3, h4, hs, e', hc | .int n, h1, h2, h3, h4, hs, e', hc
  | .uns n, h1, h2, h3, h4, hs, e', hc | .num n, h1, h2, h3, h4, hs, e', hc | .numInf, h1, h2, h3, h4, hs, e', hc
  | .numNegInf, h1, h2, h3, h4, hs, e', hc | .numNaN, h1, h2, h3, h4, hs, e', hc | .bool n, h1, h2, h3, h4, hs, e', hc
  | .dur n, h1, h2, h3, h4, hs, e', hc | .regex n, h1, h2, h3, h4, hs, e', hc | .wildcard n, h1, h2, h3, h4, hs, e', hc
  | .set n, h1, h2, h3, h4, hs, e', hc | .call n a, h1, h2, h3, h4, hs, e', hc => by
    have hs' := hs
    simp only [StableAtoms, decide_eq_true_eq] at hs
    rw [hs] at hc
    injection hc with hc
    subst hc
    exact ⟨keeps_refl _ h1 h2 h3 h4, hs'⟩


/-- `conditionExpr` only drops atoms: what is left still has stable atoms -/
theorem condExpr_stable : (e : Expr) → StableAtoms e = true → ∀ e', condExpr e = .keep e' → StableAtoms e' = true
  | .binary op l r, hs, e', hc => by
    unfold condExpr at hc
    by_cases hlog : isLogicalOp op = true
    · simp only [StableAtoms, hlog, if_true, Bool.and_eq_true] at hs
      simp only [hlog, if_true] at hc
      cases hcl' : condExpr l with
      | err => simp [hcl'] at hc
      | unmodelled => simp [hcl'] at hc
      | gone =>
        simp only [hcl'] at hc
        cases hcr' : condExpr r with
        | err => simp [hcr'] at hc
        | unmodelled => simp [hcr'] at hc
        | gone => simp [hcr'] at hc
        | keep r' =>
          simp only [hcr'] at hc
          have hc' : e' = r' := by injection hc with h; exact h.symm
          subst hc'
          exact condExpr_stable r hs.2 _ hcr'
      | keep l' =>
        simp only [hcl'] at hc
        have sl := condExpr_stable l hs.1 l' hcl'
        cases hcr' : condExpr r with
        | err => simp [hcr'] at hc
        | unmodelled => simp [hcr'] at hc
        | gone =>
          simp only [hcr'] at hc
          have hc' : e' = l' := by injection hc with h; exact h.symm
          subst hc'
          exact sl
        | keep r' =>
          simp only [hcr'] at hc
          have hc' : e' = .binary op l' r' := by injection hc with h; exact h.symm
          subst hc'
          have sr := condExpr_stable r hs.2 r' hcr'
          simp [StableAtoms, hlog, sl, sr]
    · have hlog' : isLogicalOp op = false := by simpa using hlog
      simp only [hlog', Bool.false_eq_true, if_false] at hc
      have hk : e' = .binary op l r := by
        split at hc
        · unfold timeCmp at hc
          split at hc <;> (try split at hc) <;> simp at hc
        · split at hc
          · unfold timeCmp at hc
            split at hc <;> (try split at hc) <;> simp at hc
          · cases hc; rfl
      subst hk
      exact hs
  | .paren x, hs, e', hc => by
    simp only [StableAtoms] at hs
    unfold condExpr at hc
    cases hx : condExpr x with
    | keep x' =>
      simp only [hx] at hc
      have hc' : e' = .paren x' := by injection hc with h; exact h.symm
      subst hc'
      simp [StableAtoms, condExpr_stable x hs x' hx]
    | err => simp [hx] at hc
    | unmodelled => simp [hx] at hc
    | gone => simp [hx] at hc
  | .bool b, _, e', hc => by
    simp only [condExpr] at hc
    have hc' : e' = .bool b := by injection hc with h; exact h.symm
    subst hc'
    exact stable_bool b
  | .varRef _ _, _, _, hc | .str _, _, _, hc | .int _, _, _, hc | .uns _, _, _, hc
  | .num _, _, _, hc | .numInf, _, _, hc | .numNegInf, _, _, hc | .numNaN, _, _, hc
  | .dur _, _, _, hc | .regex _, _, _, hc | .wildcard _, _, _, hc | .set _, _, _, hc
  | .call _ _, _, _, hc => by simp [condExpr] at hc

/-- `Reduce`: the outermost parentheses are removed — what they held is printable on its own -/
theorem reduceCTop_printable (e : Expr) (hp : Printable e = true) (hs : StableAtoms e = true) (e' : Expr)
    (h : reduceCTop e = some e') : Printable e' = true ∧ StableAtoms e' = true := by
  simp only [Printable, Bool.and_eq_true] at hp
  unfold reduceCTop at h
  cases hr : reduceC e with
  | none => simp [hr] at h
  | some x =>
    obtain ⟨⟨k1, k2, k3, k4, _, _⟩, sx⟩ := reduceC_keeps e hp.1.1.1 hp.1.1.2 hp.1.2 hp.2 hs x hr
    rw [hr] at h
    split at h
    · rename_i y heq
      injection heq with heq
      subst heq
      injection h with h
      subst h
      simp only [PECanon] at k1
      simp only [AtomsOK, Bool.and_eq_true] at k2
      simp only [StableAtoms] at sx
      exact ⟨by simp [Printable, k1, k2.1.1, k2.1.2, k2.2], sx⟩
    · injection h with h
      subst h
      exact ⟨by simp [Printable, k1, k2, k3, k4], sx⟩

/-- **`rewrite_preserves_printable`.** `ConditionExpr` — `Reduce`, the time comparisons taken out, `Reduce`
again — turns a printable condition (with atoms `reduce` leaves alone) into a printable one. -/
theorem rewrite_preserves_printable (e e' : Expr) (hp : Printable e = true) (hs : StableAtoms e = true)
    (h : conditionExprM e = .keep e') : Printable e' = true := by
  unfold conditionExprM at h
  cases h1 : reduceCTop e with
  | none => simp [h1] at h
  | some e1 =>
    obtain ⟨p1, s1⟩ := reduceCTop_printable e hp hs e1 h1
    simp only [h1] at h
    cases h2 : condExpr e1 with
    | err => simp [h2] at h
    | unmodelled => simp [h2] at h
    | gone => simp [h2] at h
    | keep e2 =>
      simp only [h2] at h
      have p1' := p1
      simp only [Printable, Bool.and_eq_true] at p1'
      obtain ⟨k1, k2, k3, k4, _, _⟩ := condExpr_keeps e1 p1'.1.1.1 p1'.1.1.2 p1'.1.2 p1'.2 e2 h2
      have p2 : Printable e2 = true := by simp [Printable, k1, k2, k3, k4]
      have s2 := condExpr_stable e1 s1 e2 h2
      by_cases heq : e2 = e1
      · simp only [heq, if_true] at h
        split at h
        · cases h
        · injection h with h
          subst h
          exact p1
      · simp only [heq, if_false] at h
        cases h3 : reduceCTop e2 with
        | none => simp [h3] at h
        | some e3 =>
          simp only [h3] at h
          split at h
          · cases h
          · injection h with h
            subst h
            exact (reduceCTop_printable e2 p2 s2 e3 h3).1

/-- **`shipped_eq_planned_after_rewrite`.** The tree the coordinator holds after `ConditionExpr` is the
tree the store re-parses from its `String()`. -/
theorem shipped_eq_planned_after_rewrite (e e' : Expr) (hp : Printable e = true) (hs : StableAtoms e = true)
    (h : conditionExprM e = .keep e') : parseExpr (print e') = some e' :=
  printable_ships e' (rewrite_preserves_printable e e' hp hs h)

/-- from the statement grammar: the hypotheses of `expr_roundtrip_partial` make the planned tree printable -/
theorem printable_of_yacc (toks : List Tok) (e : Expr)
    (hy : yaccParse toks = some e) (hpl : Plain toks)
    (h1 : NoMixedAndOr e = true) (h2 : NoUnaryMinusOperand e = true) (h3 : NoLikeArith e = true)
    (h4 : NoIntegralNumberLit e = true) (h5 : NoInfNanIdent e = true) (h6 : CallNamesPlain e = true)
    (h7 : RegexPlacementOK e = true) (h8 : NoTagTypedBeforeDiv e = true) (h9 : TypesReadBack e = true) :
    Printable e = true := by
  have h10 : DursInRange e = true := yaccParse_durs toks e hpl hy
  have hout := yaccParse_out toks e hy
  simp only [YaccOut, Bool.and_eq_true] at hout
  simp only [RegexPlacementOK, Bool.and_eq_true] at h7
  obtain ⟨hc, ha⟩ := good_canon_atoms e
    (allNodes_goodAll e hout.1.1 hout.1.2 h1 h2 h3 h4 h5 h6 h7.2 h8 h9 h10)
  simp [Printable, hc, ha, h7.1, hout.2]

/-- the property for a statement whose condition goes through `ConditionExpr` before it is shipped -/
theorem cond_rewrite_roundtrip_partial (toks : List Tok) (e e' : Expr)
    (hy : yaccParse toks = some e) (hpl : Plain toks)
    (h1 : NoMixedAndOr e = true) (h2 : NoUnaryMinusOperand e = true) (h3 : NoLikeArith e = true)
    (h4 : NoIntegralNumberLit e = true) (h5 : NoInfNanIdent e = true) (h6 : CallNamesPlain e = true)
    (h7 : RegexPlacementOK e = true) (h8 : NoTagTypedBeforeDiv e = true) (h9 : TypesReadBack e = true)
    (hs : StableAtoms e = true) (hr : conditionExprM e = .keep e') :
    parseExpr (print e') = some e' :=
  shipped_eq_planned_after_rewrite e e' (printable_of_yacc toks e hy hpl h1 h2 h3 h4 h5 h6 h7 h8 h9) hs hr

/-! ### the re-wrapping of a group is what the theorem needs -/

/-- `conditionExpr` with the group returned bare (what is left of `( … )` without new parentheses) -/
def condExprBare : Expr → CR
  | .binary op l r =>
    if isLogicalOp op then
      match condExprBare l with
      | .err => .err
      | .unmodelled => .unmodelled
      | lr =>
        match condExprBare r with
        | .err => .err
        | .unmodelled => .unmodelled
        | rr =>
          match lr, rr with
          | _, .gone => lr
          | .gone, _ => rr
          | .keep l', .keep r' => .keep (.binary op l' r')
          | _, _ => .err
    else if isTimeRef l then timeCmp op r
    else if isTimeRef r then timeCmp (swapCmp op) l
    else .keep (.binary op l r)
  | .paren e =>
    match condExprBare e with
    | .keep e' => if e' = e then .keep (.paren e) else .keep e'
    | other => other
  | .bool b => .keep (.bool b)
  | _ => .err

/-- `a = 1 AND (time >= '2020-01-01T00:00:00Z' AND b = 2 OR c = 3)` as the statement grammar builds it -/
def groupWitness : Expr :=
  .binary .and (.binary .eq (.varRef ['a'] .unknown) (.int 1))
    (.paren (.binary .or
      (.binary .and (.binary .gte (.varRef "time".toList .unknown) (.str "2020-01-01T00:00:00Z".toList))
        (.binary .eq (.varRef ['b'] .unknown) (.int 2)))
      (.binary .eq (.varRef ['c'] .unknown) (.int 3))))

def keepOf : CR → Option Expr
  | .keep e => some e
  | _ => none

/-- returned bare, the group leaves an OR under an AND: the result is not printable, and its text is read
back as another tree; re-wrapped (the code as it is), both hold -/
theorem bare_group_breaks_printable :
    Printable groupWitness = true ∧
    (keepOf (condExprBare groupWitness)).map Printable = some false ∧
    (keepOf (condExprBare groupWitness)).map (fun e' => decide (parseExpr (print e') = some e')) = some false ∧
    (keepOf (condExpr groupWitness)).map (fun e' => Printable e' && decide (parseExpr (print e') = some e')) =
      some true := by decide


/-- the hypotheses are satisfiable and the theorem says something: the witness is printable, its atoms are
stable, `ConditionExpr` takes the time comparison out of the group and keeps the group -/
example : (Printable groupWitness && StableAtoms groupWitness &&
    decide (conditionExprM groupWitness = .keep (.binary .and (.binary .eq (.varRef ['a'] .unknown) (.int 1))
      (.paren (.binary .or (.binary .eq (.varRef ['b'] .unknown) (.int 2)) (.binary .eq (.varRef ['c'] .unknown) (.int 3))))))) = true := by
  decide

/-! ### recorded expectations: the call chain from the statement preparation to the codec -/

/-- every rewriter between the statement parser and `Condition.String()` / `QueryFields.String()`: a new
call on this path (a new rewriting step) changes the fact and must be modelled or judged. Modelled:
`ConditionExpr` (`Reduce`, `conditionExpr`). Run by the harness on the real code, not modelled:
`RewriteRegexConditions` (`=~ /^(a|b)$/` becomes a parenthesised OR of equalities), `RewriteFields` (the
references of the condition get their types: `::tag`, `::integer`, printed and read back by `ParseVarRef`),
`compileFields` (`Reduce` of a field), the sub-query and PromQL `FilterPushDown` paths. -/
theorem rewrite_chain_expected : rewriteChain = [
  ("Prepare", ["Compile", "c.Prepare"]),
  ("Compile", ["c.preprocess", "c.compile", "c.stmt.RewriteTopBottom", "c.stmt.RewriteDistinct", "c.stmt.RewriteTimeFields", "c.stmt.RewriteJoinDims", "c.stmt.RewriteRegexConditions", "c.stmt.RewriteRegexConditionsDFS", "c.stmt.RewritePercentileOGSketch", "c.stmt.RewriteCompare", "Compile"]),
  ("compiledStatement.preprocess", ["influxql.ConditionExpr", "c.validateCondition", "c.compileDimensions"]),
  ("compiledStatement.compile", ["c.compileFields", "c.subquery", "c.subquery", "c.subquery", "c.subquery", "c.subquery", "c.subquery", "c.subquery", "c.RewriteTimeRange"]),
  ("compiledStatement.compileFields", ["influxql.Reduce"]),
  ("compiledStatement.subquery", ["subquery.preprocess", "influxql.Reduce", "stmt.RewriteRegexConditions", "Compile", "subquery.compile"]),
  ("compiledStatement.Prepare", ["shardMapper.MapShards", "c.RewriteJoinSource", "c.RewriteUnionSource", "c.RewriteBinOpSource", "c.stmt.RewriteFields", "NewProcessorOptionsStmt", "NewPreparedStatement"]),
  ("ConditionExpr", ["Reduce", "conditionExpr", "Reduce"]),
  ("conditionExpr", ["conditionExpr", "conditionExpr", "getTimeRange", "getTimeRange", "conditionExpr"]),
  ("Reduce", ["reduce"]),
  ("SelectStatement.RewriteFields", ["s.Clone", "cte.Query.RewriteFields", "cte.GraphQuery.RewriteFields", "src.Statement.RewriteFields", "RewriteJoinMeasurement", "RewriteJoinMeasurement", "s.RewriteJoinCase", "s.RewriteJoinCase", "rewriteAuxiliaryStmt", "s.RewriteUnionCase", "s.RewriteUnionCase", "s.RewriteJoinCase", "s.RewriteJoinCase", "RewriteMstNameSpace", "in.Stmt.RewriteFields", "EvalType", "EvalTypeBatch", "RewriteCondVarRef", "other.RewriteFieldsForSelectAllTags", "s.RewriteSeqIdForLogStore", "CloneExpr", "CloneExpr"]),
  ("NewProcessorOptionsStmt", ["NewProcessorOptionsStmtBase"]),
  ("NewProcessorOptionsStmtBase", []),
  ("ClusterShardMapper.mapShards", ["influxql.ConditionExpr", "csm.mapShards", "csm.mapShards", "csm.mapShards", "csm.mapShards", "csm.mapShards", "csm.mapShards", "csm.mapShards", "csm.mapShards"]),
  ("ClusterShardMapping.makeRemoteQuery", []),
  ("SubQueryBuilder.newSubOptions", ["query.NewProcessorOptionsStmt", "influxql.ConditionExpr"]),
  ("FilterPushDown", ["influxql.ConditionExpr", "schema.Options().SetValueCondition", "opt.SetCondition"]),
  ("RemoteQuery.Marshal", ["c.Opt.MarshalBinary"]),
  ("encodeProcessorOptions", ["opt.Expr.String", "opt.Location.String", "opt.Condition.String", "opt.ValueCondition.String", "opt.SortFields.String"]),
  ("EncodeQuerySchema", ["schema.GetQueryFields().String"])
] := by rfl

theorem rewrite_fingerprints_expected : rewriteFingerprints = [
  ("ConditionExpr", "2d1addd3eae4c75b"),
  ("conditionExpr", "c87a072fd262d86b"),
  ("getTimeRange", "4c681a955f45877d"),
  ("Reduce", "9e1f5d88699d8702"),
  ("reduce", "774724677b58e4a2"),
  ("reduceBinaryExpr", "2adc903953297be7"),
  ("reduceParenExpr", "6d3fddb0d0cdebe6"),
  ("reduceCall", "b1e81a73536e43ad"),
  ("reduceVarRef", "59716b9fb1a712bb"),
  ("NowValuer.Call", "49b661a61a5cd702"),
  ("NowValuer.Value", "415be7f7556a68b3"),
  ("StringLiteral.IsTimeLiteral", "ec07137db0ad6665"),
  ("isDateString", "9a1a6be7713de6b0"),
  ("isDateTimeString", "8d6179132da171c4"),
  ("SelectStatement.RewriteRegexConditions", "1a4f8e5949598578"),
  ("RewriteCondVarRef", "688ff59faa84d725"),
  ("RewriteExpr", "e6271642f3666363"),
  ("CloneExpr", "67da0dcc8f7931fd"),
  ("InTransform.RewriteOuterStmtCondition", "22f14cd2058dd621")
] := by rfl

end OG.C12
