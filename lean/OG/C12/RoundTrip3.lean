/-
C12 — fuel bound and the top-level statement: `parseExpr (print e) = some e` for a canonical
tree with well-behaved literals. Core Lean only.
-/
import OG.C12.RoundTrip2

namespace OG.C12
open OG.Gen.C12

theorem typeToks_length (ty : DataType) : (typeToks ty).length ≤ 2 := by
  cases ty <;> simp [typeToks]

mutual
theorem weight_le_print : (c : Bool) → (e : Expr) → weight e + 2 ≤ 16 * (printCtx c e).length
  | c, .binary op l r => by
    have hl := weight_le_print c l
    have hr := weight_le_print (decide (op = .eqregex) || decide (op = .neqregex)) r
    simp only [weight, printCtx, List.length_append, List.length_cons]
    omega
  | c, .paren e => by
    have := weight_le_print false e
    simp only [weight, printCtx, List.length_append, List.length_cons, List.length_nil]
    omega
  | c, .call name args => by
    have := weightArgs_le_print args
    simp only [weight, printCtx, List.length_append, List.length_cons, List.length_nil]
    omega
  | c, .set vals => by
    simp only [weight, printCtx, List.length_append, List.length_cons, List.length_nil]
    omega
  | c, .varRef name ty => by simp only [weight, printCtx, List.length_cons]; omega
  | c, .str _ => by simp [weight, printCtx]
  | c, .int v => by
    simp only [weight, printCtx, printInt]; split <;> simp
  | c, .uns _ => by simp [weight, printCtx]
  | c, .num n => by
    simp only [weight, printCtx, printNum]; split <;> simp
  | c, .numInf => by simp [weight, printCtx]
  | c, .numNegInf => by simp [weight, printCtx]
  | c, .numNaN => by simp [weight, printCtx]
  | c, .bool _ => by simp [weight, printCtx]
  | c, .dur d => by
    simp only [weight, printCtx, printDur]; split <;> simp
  | c, .regex _ => by simp [weight, printCtx]
  | c, .wildcard w => by cases w <;> simp [weight, printCtx]
theorem weightArgs_le_print : (a : Args) → weightArgs a ≤ 16 * (printArgs a).length + 10
  | .nil => by simp [weightArgs, printArgs]
  | .cons e .nil => by
    have := weight_le_print true e
    simp only [weightArgs, printArgs]
    omega
  | .cons e (.cons e' r) => by
    have := weight_le_print true e
    have := weightArgs_le_print (.cons e' r)
    simp only [weightArgs, printArgs, List.length_append, List.length_cons] at *
    omega
end

/-- **Theorem A.** A tree that is canonical for `Precedence()` and whose literals are re-read as
themselves is re-parsed, from its own printout, as itself. -/
theorem parseExpr_print (e : Expr) (hc : PECanon e = true) (ha : AtomsOK e = true)
    (hr : regexFirstOK false e = true) (hs : noSetFirst e = true) :
    parseExpr (print e) = some e := by
  unfold parseExpr print
  have hw := weight_le_print false e
  obtain ⟨k, hk⟩ : ∃ k, 16 * (printCtx false e).length + 16 = k + 1 := ⟨_, rfl⟩
  have hwk : weight e ≤ k := by omega
  have ih := parse_ok e hc ha k hwk
  have := peExpr_of_parts e k hc ha hwk ih.1 ih.2 [] (Or.inl rfl) hr hs
  rw [List.append_nil] at this
  rw [hk, this]

end OG.C12
