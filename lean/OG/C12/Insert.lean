/-
C12 — the tree-insertion loop of `ParseExpr` rebuilds a canonical tree from its in-order sequence
(pure tree reasoning; no tokens yet). Core Lean only.
-/
import OG.C12.Spec

namespace OG.C12
open OG.Gen.C12

theorem spineGe_of_not_binary (q : Nat) (e : Expr) (h : e.isBinary = false) : spineGe q e = true := by
  cases e <;> simp_all [spineGe, Expr.isBinary]

theorem leftOK_of_not_binary (p : Nat) (e : Expr) (h : e.isBinary = false) : leftOK p e = true := by
  cases e <;> simp_all [leftOK, Expr.isBinary]

theorem rightOK_of_not_binary (p : Nat) (e : Expr) (h : e.isBinary = false) : rightOK p e = true := by
  cases e <;> simp_all [rightOK, Expr.isBinary]

theorem firstAtom_not_binary : (e : Expr) → (firstAtom e).isBinary = false
  | .binary _ l _ => by simpa [firstAtom] using firstAtom_not_binary l
  | .varRef _ _ | .str _ | .int _ | .uns _ | .num _ | .numInf | .numNegInf | .numNaN | .bool _
  | .dur _ | .regex _ | .wildcard _ | .set _ | .call _ _ | .paren _ => by simp [firstAtom, Expr.isBinary]

theorem firstAtom_of_not_binary (e : Expr) (h : e.isBinary = false) : firstAtom e = e := by
  cases e <;> simp_all [firstAtom, Expr.isBinary]

theorem nops_of_not_binary (e : Expr) (h : e.isBinary = false) : nops e = 0 := by
  cases e <;> simp_all [nops, Expr.isBinary]

/-- inserting above a node that binds at least as tightly. -/
theorem insertOp_top (t : Expr) (op : Op) (rhs : Expr) (h : leftOK (pePrec op) t = true) :
    insertOp t op rhs = .binary op t rhs := by
  cases t <;> simp_all [insertOp, leftOK]

/-- inserting below a node that binds less tightly. -/
theorem insertOp_descend (o : Op) (l r : Expr) (op : Op) (rhs : Expr) (h : pePrec o < pePrec op) :
    insertOp (.binary o l r) op rhs = .binary o l (insertOp r op rhs) := by
  have : ¬ (pePrec o ≥ pePrec op) := by omega
  simp [insertOp, this]

theorem spineGe_mono (q q' : Nat) (hq : q' ≤ q) : (e : Expr) → spineGe q e = true → spineGe q' e = true
  | .binary o l r, h => by
    simp only [spineGe, Bool.and_eq_true, decide_eq_true_eq] at h ⊢
    exact ⟨⟨by omega, spineGe_mono q q' hq l h.1.2⟩, spineGe_mono q q' hq r h.2⟩
  | .varRef _ _, _ | .str _, _ | .int _, _ | .uns _, _ | .num _, _ | .numInf, _ | .numNegInf, _
  | .numNaN, _ | .bool _, _ | .dur _, _ | .regex _, _ | .wildcard _, _ | .set _, _ | .call _ _, _
  | .paren _, _ => by simp [spineGe]

/-- in a canonical tree every operator of the chain binds at least as tightly as the top one. -/
theorem canon_spine : (e : Expr) → (p : Nat) → PECanon e = true → leftOK p e = true → spineGe p e = true
  | .binary o l r, p, hc, hl => by
    simp only [PECanon, Bool.and_eq_true] at hc
    simp only [leftOK, decide_eq_true_eq] at hl
    obtain ⟨⟨⟨h1, h2⟩, h3⟩, h4⟩ := hc
    have sl : spineGe (pePrec o) l = true := canon_spine l (pePrec o) h3 h1
    have hr' : leftOK (pePrec o + 1) r = true := by
      cases r <;> simp_all [leftOK, rightOK]
      omega
    have sr : spineGe (pePrec o + 1) r = true := canon_spine r (pePrec o + 1) h4 hr'
    simp only [spineGe, Bool.and_eq_true, decide_eq_true_eq]
    exact ⟨⟨hl, spineGe_mono _ _ hl l sl⟩, spineGe_mono _ _ (by omega) r sr⟩
  | .varRef _ _, _, _, _ | .str _, _, _, _ | .int _, _, _, _ | .uns _, _, _, _ | .num _, _, _, _
  | .numInf, _, _, _ | .numNegInf, _, _, _ | .numNaN, _, _, _ | .bool _, _, _, _ | .dur _, _, _, _
  | .regex _, _, _, _ | .wildcard _, _, _, _ | .set _, _, _, _ | .call _ _, _, _, _
  | .paren _, _, _, _ => by simp [spineGe]

/-- the in-order sequence of a chain: the operators with the operand that follows each. -/
def tailSeq : Expr → List (Op × Expr)
  | .binary op l r => tailSeq l ++ (op, firstAtom r) :: tailSeq r
  | _ => []

def insertAll (t : Expr) (xs : List (Op × Expr)) : Expr :=
  xs.foldl (fun acc x => insertOp acc x.1 x.2) t

/-- a context the insertion commutes with for operators of precedence ≥ q (the part of the tree
above and to the left of where the chain is being rebuilt). -/
def Commutes (F : Expr → Expr) (q : Nat) : Prop :=
  ∀ X o u, pePrec o ≥ q → insertOp (F X) o u = F (insertOp X o u)

/-- **the insertion loop rebuilds a canonical tree**: feeding the operators and operands of `e`,
in order, to `insertOp` starting from its first operand yields `e` again (inside any context the
insertion commutes with). -/
theorem insertAll_rebuilds : (e : Expr) → (F : Expr → Expr) → (q : Nat) → Commutes F q →
    spineGe q e = true → PECanon e = true → insertAll (F (firstAtom e)) (tailSeq e) = F e
  | .binary op l r, F, q, hF, hs, hc => by
    simp only [PECanon, Bool.and_eq_true] at hc
    obtain ⟨⟨⟨h1, h2⟩, h3⟩, h4⟩ := hc
    simp only [spineGe, Bool.and_eq_true, decide_eq_true_eq] at hs
    obtain ⟨⟨hq, hsl⟩, hsr⟩ := hs
    simp only [tailSeq, firstAtom, insertAll, List.foldl_append, List.foldl_cons]
    have ihl := insertAll_rebuilds l F q hF hsl h3
    simp only [insertAll] at ihl
    rw [ihl, hF _ _ _ hq, insertOp_top l op _ h1]
    -- continue below `op`, to the right
    have hF' : Commutes (fun X => F (.binary op l X)) (pePrec op + 1) := by
      intro X o u ho
      show insertOp (F (.binary op l X)) o u = F (.binary op l (insertOp X o u))
      rw [hF _ _ _ (by omega), insertOp_descend op l X o u (by omega)]
    have hr' : leftOK (pePrec op + 1) r = true := by
      cases r <;> simp_all [leftOK, rightOK]
      omega
    have ihr := insertAll_rebuilds r (fun X => F (.binary op l X)) (pePrec op + 1) hF'
      (canon_spine r _ h4 hr') h4
    simpa [insertAll] using ihr
  | .varRef _ _, _, _, _, _, _ | .str _, _, _, _, _, _ | .int _, _, _, _, _, _ | .uns _, _, _, _, _, _
  | .num _, _, _, _, _, _ | .numInf, _, _, _, _, _ | .numNegInf, _, _, _, _, _ | .numNaN, _, _, _, _, _
  | .bool _, _, _, _, _, _ | .dur _, _, _, _, _, _ | .regex _, _, _, _, _, _ | .wildcard _, _, _, _, _, _
  | .set _, _, _, _, _, _ | .call _ _, _, _, _, _, _ | .paren _, _, _, _, _, _ => by
    simp [tailSeq, firstAtom, insertAll]

theorem commutes_id : Commutes (fun X => X) 0 := by
  intro X o u _; rfl

/-- the same at top level. -/
theorem insertAll_rebuilds_top (e : Expr) (hc : PECanon e = true) :
    insertAll (firstAtom e) (tailSeq e) = e := by
  have hs : spineGe 0 e = true := by
    apply canon_spine e 0 hc
    cases e <;> simp [leftOK]
  exact insertAll_rebuilds e (fun X => X) 0 commutes_id hs hc

end OG.C12
