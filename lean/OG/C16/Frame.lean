/-
C16 — frame lemmas: which retention policies a state holds after an update, in terms of the
policies it held before.
-/
import OG.Meta.Lemmas
import OG.C16.WF

namespace OG.C16
open OG.Meta

theorem mem_allRPs {d : Data} {rp : RP} : rp ∈ allRPs d ↔ ∃ kdb ∈ d.databases, ∃ kr ∈ kdb.2.rps, kr.2 = rp := by
  simp only [allRPs, List.mem_flatMap, List.mem_map]

theorem mem_allRPs_of {d : Data} {n k : String} {dbi : DB} {r : RP} (hd : (n, dbi) ∈ d.databases) (hr : (k, r) ∈ dbi.rps) :
    r ∈ allRPs d := mem_allRPs.2 ⟨_, hd, _, hr, rfl⟩

/-- after `setDB`, a policy is one of the new database's or was there before -/
theorem allRPs_setDB {d : Data} {db : DB} {rp : RP} (h : rp ∈ allRPs (setDB d db)) :
    (∃ kr ∈ db.rps, kr.2 = rp) ∨ rp ∈ allRPs d := by
  obtain ⟨kdb, hkdb, kr, hkr, rfl⟩ := mem_allRPs.1 h
  rcases mem_setDB hkdb with rfl | hkdb
  · exact Or.inl ⟨kr, hkr, rfl⟩
  · exact Or.inr (mem_allRPs.2 ⟨kdb, hkdb, kr, hkr, rfl⟩)

/-- after `setRP`, a policy is the new one or was there before -/
theorem allRPs_setRP {d : Data} {n k : String} {dbi : DB} {r rp : RP} (hd : (n, dbi) ∈ d.databases)
    (h : rp ∈ allRPs (setRP d dbi k r)) : rp = r ∨ rp ∈ allRPs d := by
  unfold setRP at h
  rcases allRPs_setDB h with ⟨kr, hkr, rfl⟩ | h
  · simp only at hkr
    rcases mem_alInsert hkr with rfl | hkr
    · exact Or.inl rfl
    · exact Or.inr (mem_allRPs.2 ⟨_, hd, kr, hkr, rfl⟩)
  · exact Or.inr h

theorem allRPs_mapRPs {d : Data} {f : DB → RP → RP} {rp : RP} (h : rp ∈ allRPs (mapRPs f d)) :
    ∃ db r, r ∈ allRPs d ∧ rp = f db r := by
  obtain ⟨kdb, hkdb, kr, hkr, rfl⟩ := mem_allRPs.1 h
  simp only [mapRPs, List.mem_map] at hkdb
  obtain ⟨⟨k, db⟩, hmem, rfl⟩ := hkdb
  simp only [List.mem_map] at hkr
  obtain ⟨⟨rk, r⟩, hr, rfl⟩ := hkr
  exact ⟨db, r, mem_allRPs.2 ⟨_, hmem, _, hr, rfl⟩, rfl⟩

theorem allRPs_of_dbs_eq {d d' : Data} (h : d'.databases = d.databases) : allRPs d' = allRPs d := by
  simp [allRPs, h]

theorem allRPs_erase {d : Data} {n : String} {rp : RP} {d' : Data} (hd : d'.databases = alErase n d.databases)
    (h : rp ∈ allRPs d') : rp ∈ allRPs d := by
  obtain ⟨kdb, hkdb, kr, hkr, rfl⟩ := mem_allRPs.1 h
  rw [hd] at hkdb
  exact mem_allRPs.2 ⟨kdb, mem_alErase hkdb, kr, hkr, rfl⟩

/-- a per-policy Boolean clause holds for the whole catalogue iff it holds for every policy -/
theorem all_iff {d : Data} (P : RP → Bool) : (allRPs d).all P = true ↔ ∀ rp ∈ allRPs d, P rp = true := by
  simp [List.all_eq_true]

end OG.C16
