/-
C16 — property theorems, part 3: the conditional clauses and the assembled invariant.

`StrongInv` is the inductive strengthening of well-formedness the proofs carry:
  Inv      ids in use ≤ counters, groups sorted                       (unconditional)
  DefInv   default policy exists                                       (unconditional)
  KeysAreNames   maps keyed by the names of their values               (unconditional)
  GInv     shard-group duration ≥ 1h, live groups aligned + disjoint   (needs `safe`)
  RefsInv  shards refer to existing indexes / partitions, ≤ ptNum shards per group (needs `safeRefs`)
-/
import OG.C16.RefsCmds
import OG.C16.Props

namespace OG.C16
open OG.Meta

structure StrongInv (d : Data) : Prop where
  inv : Inv d
  defs : DefInv d
  keys : KeysAreNames d
  groups : GInv d
  refs : RefsInv d

theorem strongInv_init : StrongInv Data.init := ⟨inv_init, defInv_init, kn_init, ginv_init, refsInv_init⟩

/-- the side condition of the partial invariant, on one step -/
def safeStep (d : Data) (c : Cmd) : Bool := safe d c && safeRefs c

/-- **T6 `wf_invariant_partial`** one step: every command that is not (a) a shard-group-duration
change of a policy with live groups, (b) a CancelDelete, (c) a CreateShardGroup beyond
MaxNanoTime, (d) the pruning of an index group, preserves the strengthened invariant. -/
theorem wf_invariant_partial (d : Data) (c : Cmd) (h : StrongInv d) (hs : safeStep d c = true) : StrongInv (apply d c).1 := by
  unfold safeStep at hs
  simp only [Bool.and_eq_true] at hs
  exact ⟨inv_apply h.inv c, def_applyP 0 h.defs h.keys c, kn_apply h.keys c, g_applyP 0 h.groups c hs.1, r_applyP 0 h.refs c hs.2⟩

/-- all clauses of WF except the global uniqueness of ids -/
def WFcore (d : Data) : Prop :=
  groupsSorted d = true ∧ groupsDisjoint d = true ∧ groupsAligned d = true ∧ countersBound d = true ∧
  refsValid d = true ∧ defaultsExist d = true

theorem wfcore_of_strongInv {d : Data} (h : StrongInv d) : WFcore d :=
  ⟨(clauses_of_inv h.inv).2, (clauses_of_ginv h.groups).2, (clauses_of_ginv h.groups).1, (clauses_of_inv h.inv).1,
   clause_of_refsInv h.refs, (defInv_iff d).1 h.defs⟩

/-- every step of the log is safe in the state it is applied to -/
def safeLog (d : Data) : List Cmd → Bool
  | [] => true
  | c :: cs => safeStep d c && safeLog (apply d c).1 cs

theorem strongInv_applyAll {d : Data} (h : StrongInv d) : ∀ cs : List Cmd, safeLog d cs = true → StrongInv (applyAll d cs)
  | [], _ => h
  | c :: cs, hs => by
    simp only [safeLog, Bool.and_eq_true] at hs
    exact strongInv_applyAll (wf_invariant_partial d c h hs.1) cs hs.2

/-- **T7** after any log all of whose steps are safe, the catalogue satisfies every clause of
WF but the global id uniqueness (for which see `ids_never_reused` + `bounded_sorted_invariant`,
and the per-step evaluation of the clause on the real catalogue by the correspondence run). -/
theorem wf_reachable_partial (log : List Cmd) (hs : safeLog Data.init log = true) : WFcore (applyAll Data.init log) :=
  wfcore_of_strongInv (strongInv_applyAll strongInv_init log hs)

/-- non-vacuity: the two-hour log (create node, database, view, measurement, group) is safe,
and so is continuing with a mark-delete, a re-creation, a shard prune and a second data node. -/
example : safeLog Data.init (twoHourLog ++ [.deleteShardGroup "db0" "autogen" 1 0, .createShardGroup "db0" "autogen" (4 * hour) 1 0 0,
    .pruneGroups true 1, .createDataNode "m:8400" "m:8401" "", .createShardGroup "db0" "autogen" (9 * hour) 1 0 0]) = true := by decide +kernel

/-- each excluded shape is necessary: the three witnesses of `wf_invariant_full_false` are
exactly steps that `safeStep` rejects. -/
example : safeStep (applyAll Data.init twoHourLog) (setDuration 3) = false := by decide +kernel
example : safeStep Data.init (.deleteShardGroup "db0" "autogen" 1 1) = false := by decide +kernel
example : safeStep Data.init (.pruneGroups false 1) = false := by decide +kernel

end OG.C16
