/-
C16 — `idsUnique` as an invariant, second part: the commands of the second model layer
(OG/Meta/Model2.lean).  `ExpandGroups` threads the counters through every database, policy, index
group and shard group; `Grow c c' a b` says: going from id list `a` to `b` while the counter goes
from `c` to `c'`, no id occurs more often than before, except that each id in `(c, c']` may occur
once more.  It composes along the threading, and with "all ids are ≤ the counter" it gives `Nodup`.
-/
import OG.C16.Unique
import OG.C16.Props5

namespace OG.C16
open OG.Meta

/-! ### counting -/

def ind (c c' x : Nat) : Nat := if c < x ∧ x ≤ c' then 1 else 0

theorem ind_add {c c' c'' : Nat} (h1 : c ≤ c') (h2 : c' ≤ c'') (x : Nat) : ind c c' x + ind c' c'' x = ind c c'' x := by
  unfold ind
  repeat' split
  all_goals omega

theorem ind_le_one (c c' x : Nat) : ind c c' x ≤ 1 := by unfold ind; split <;> omega

def Grow (c c' : Nat) (a b : List Nat) : Prop := c ≤ c' ∧ ∀ x, b.count x ≤ a.count x + ind c c' x

theorem Grow.same {c c' : Nat} (h : c ≤ c') (a : List Nat) : Grow c c' a a := ⟨h, fun _ => Nat.le_add_right _ _⟩

theorem Grow.of_eq {c c' : Nat} (h : c ≤ c') {a b : List Nat} (e : b = a) : Grow c c' a b := e ▸ Grow.same h a

theorem Grow.trans {c c' c'' : Nat} {a b e : List Nat} (h1 : Grow c c' a b) (h2 : Grow c' c'' b e) : Grow c c'' a e := by
  refine ⟨Nat.le_trans h1.1 h2.1, fun x => ?_⟩
  have := h1.2 x; have := h2.2 x; have := ind_add h1.1 h2.1 x
  omega

theorem Grow.append {c c' c'' : Nat} {a b a2 b2 : List Nat} (h1 : Grow c c' a b) (h2 : Grow c' c'' a2 b2) :
    Grow c c'' (a ++ a2) (b ++ b2) := by
  refine ⟨Nat.le_trans h1.1 h2.1, fun x => ?_⟩
  have := h1.2 x; have := h2.2 x; have := ind_add h1.1 h2.1 x
  simp only [List.count_append]
  omega

theorem Grow.perm_right {c c' : Nat} {a b b' : List Nat} (h : Grow c c' a b) (hp : b'.Perm b) : Grow c c' a b' :=
  ⟨h.1, fun x => by rw [hp.count_eq x]; exact h.2 x⟩

theorem Grow.nodup {c c' : Nat} {a b : List Nat} (h : Grow c c' a b) (ha : a.Nodup) (hb : ∀ x ∈ a, x ≤ c) : b.Nodup := by
  rw [List.nodup_iff_count]
  intro x
  have h1 := h.2 x
  have h2 := List.nodup_iff_count.1 ha x
  by_cases hx : x ≤ c
  · have : ind c c' x = 0 := by unfold ind; rw [if_neg]; omega
    omega
  · have : a.count x = 0 := List.count_eq_zero.2 fun hm => hx (hb x hm)
    have := ind_le_one c c' x
    omega

/-- fresh consecutive ids appended -/
theorem count_fresh_range (c n x : Nat) : ((List.range n).map (c + 1 + ·)).count x ≤ ind c (c + n) x := by
  have hn : ((List.range n).map (c + 1 + ·)).Nodup := nodup_map_range _ (by intro i j h; omega) n
  have h1 := List.nodup_iff_count.1 hn x
  by_cases hm : x ∈ (List.range n).map (c + 1 + ·)
  · simp only [List.mem_map, List.mem_range] at hm
    obtain ⟨i, hi, rfl⟩ := hm
    have : ind c (c + n) (c + 1 + i) = 1 := by unfold ind; rw [if_pos]; omega
    omega
  · rw [List.count_eq_zero.2 hm]; exact Nat.zero_le _

theorem Grow.fresh_range (c n : Nat) (a : List Nat) : Grow c (c + n) a (a ++ (List.range n).map (c + 1 + ·)) := by
  refine ⟨Nat.le_add_right _ _, fun x => ?_⟩
  simp only [List.count_append]
  have := count_fresh_range c n x
  omega

theorem Grow.fresh_one (c : Nat) (a : List Nat) : Grow c (c + 1) a (a ++ [c + 1]) := by
  have := Grow.fresh_range c 1 a
  simpa using this

/-- the three counters that move during the expansion, each with its id list -/
structure G3 (d d' : Data) (ig ig' idx idx' sh sh' : List Nat) : Prop where
  ig : Grow d.maxIndexGroupID d'.maxIndexGroupID ig ig'
  idx : Grow d.maxIndexID d'.maxIndexID idx idx'
  sh : Grow d.maxShardID d'.maxShardID sh sh'

theorem G3.same (d : Data) (a b c : List Nat) : G3 d d a a b b c c :=
  ⟨Grow.same (Nat.le_refl _) _, Grow.same (Nat.le_refl _) _, Grow.same (Nat.le_refl _) _⟩

theorem G3.trans {d d' d'' : Data} {a a' a'' b b' b'' c c' c'' : List Nat} (h1 : G3 d d' a a' b b' c c') (h2 : G3 d' d'' a' a'' b' b'' c' c'') :
    G3 d d'' a a'' b b'' c c'' := ⟨h1.ig.trans h2.ig, h1.idx.trans h2.idx, h1.sh.trans h2.sh⟩

theorem G3.append {d d' d'' : Data} {a a' a2 a2' b b' b2 b2' c c' c2 c2' : List Nat} (h1 : G3 d d' a a' b b' c c')
    (h2 : G3 d' d'' a2 a2' b2 b2' c2 c2') : G3 d d'' (a ++ a2) (a' ++ a2') (b ++ b2) (b' ++ b2') (c ++ c2) (c' ++ c2') :=
  ⟨h1.ig.append h2.ig, h1.idx.append h2.idx, h1.sh.append h2.sh⟩

variable {d : Data}

/-! ### UpdateIndexInfoTier, UpdatePtVersion -/

theorem idsU_updateIndexInfoTier (hu : IdsU d) (hk : KeysAreNames d) (hs : KS d) (i t db rp) : IdsU (updateIndexInfoTier d i t db rp).1 := by
  unfold updateIndexInfoTier
  split
  · exact hu
  · next dbi k r hg =>
    have hf := getRP_find hg
    split
    · refine idsU_setRP (d' := d) hu hk hs hf.1 hf.2 rfl rfl (rpSteps_same rfl rfl ?_ ?_ rfl)
      · exact map_updFirst _ _ _ _ (fun _ => rfl)
      · exact flatMap_updFirst _ _ _ _ (fun g => by simp only; exact map_updFirst _ _ _ _ (fun _ => rfl))
    · exact hu

theorem idsU_updatePtVersion (hu : IdsU d) (db pt) : IdsU (updatePtVersion d db pt).1 := by
  unfold updatePtVersion
  repeat' split
  all_goals first | exact hu | exact idsU_of_dbs_eq hu rfl hu.node

/-! ### ReSharding -/

theorem boundShards_ids (fid tier : Nat) (ig : IG) : ∀ (n i : Nat) (l : List Shard), boundShards fid tier ig n i = some l →
    l.map (·.id) = (List.range n).map (fid + i + ·)
  | 0, i, l, h => by
    simp only [boundShards, Option.some.injEq] at h
    subst h; rfl
  | n + 1, i, l, h => by
    unfold boundShards at h
    split at h
    · cases h
    · split at h
      · cases h
      · next rest hrest =>
        cases h
        have ih := boundShards_ids fid tier ig n (i + 1) rest hrest
        rw [List.range_succ_eq_map]
        simp only [List.map_cons, List.map_map, ih, Nat.add_zero]
        refine congrArg _ (List.map_congr_left fun j _ => ?_)
        simp only [Function.comp]
        omega

theorem reshard_steps (hinv : Inv d) (r : RP) (a b : Int) :
    RPStep fIG (idsOf fIG d) r (reshardIndexGroup d r a b).2 ∧ RPStep fIdx (idsOf fIdx d) r (reshardIndexGroup d r a b).2 := by
  have hb := bounds_of_inv hinv
  unfold reshardIndexGroup
  simp only
  constructor
  · refine rpStep_new (N := [d.maxIndexGroupID + 1]) ?_ (by simp) ?_
    · simp only [fIG]
      refine ((insertIG_perm _ r.indexGroups).map (·.id)).trans ?_
      simp only [List.map_cons]
      exact (List.perm_append_comm (l₁ := [d.maxIndexGroupID + 1]) (l₂ := r.indexGroups.map (·.id)))
    · intro x hx hmem
      simp only [List.mem_singleton] at hx; subst hx
      have := hb.2.2.1 _ hmem; omega
  · refine rpStep_new (N := (List.range d.clusterPtNum).map (d.maxIndexID + 1 + ·)) ?_ (nodup_map_range _ (by intro i j h; omega) _) ?_
    · simp only [fIdx]
      refine ((insertIG_perm _ r.indexGroups).flatMap_right (fun g => g.indexes.map (·.id))).trans ?_
      simp only [List.flatMap_cons, mkIndexes_ids]
      exact List.perm_append_comm
    · intro x hx hmem
      simp only [List.mem_map, List.mem_range] at hx
      obtain ⟨i, _, rfl⟩ := hx
      have := hb.2.2.2.1 _ hmem; omega

theorem idsU_reSharding (hu : IdsU d) (hinv : Inv d) (hk : KeysAreNames d) (hs : KS d) (db rp id t n) : IdsU (reSharding d db rp id t n).1 := by
  have hb := bounds_of_inv hinv
  unfold reSharding
  split
  · exact hu
  · next dbi k r hg =>
    split
    · exact hu
    · next last hlast =>
      split
      · exact hu
      · split
        · exact hu
        · simp only
          have hsh := reshardIndexGroup_shape d r (Wire.wrap64 (t + 1)) last.stop
          have hst := reshard_steps hinv r (Wire.wrap64 (t + 1)) last.stop
          generalize reshardIndexGroup d r (Wire.wrap64 (t + 1)) last.stop = x at hsh hst
          obtain ⟨d1, r1⟩ := x
          simp only at hsh hst ⊢
          obtain ⟨e1, e2, e3, e4, e5, e6, e7, e8, e9, e10⟩ := hsh
          split
          · exact hu
          · exact hu
          · next ig s0 _ _ =>
            split
            · exact hu
            · next shards hshards =>
              have hids := boundShards_ids _ _ _ _ _ _ hshards
              simp only [done]
              have hf := getRP_find hg
              apply idsU_setRP (d' := _) hu hk hs hf.1 hf.2 (by simpa using e1) (by simpa using e2)
              refine ⟨?_, ?_, hst.1, hst.2, rpStep_same (by simp [fMst, e6])⟩
              · refine rpStep_new (N := [d1.maxShardGroupID + 1]) ?_ (by simp) ?_
                · simp only [fSG]
                  refine ((insertSG_perm _ r1.shardGroups).map (·.id)).trans ?_
                  simp only [List.map_cons, e8]
                  exact (List.perm_append_comm (l₁ := [d1.maxShardGroupID + 1]) (l₂ := r.shardGroups.map (·.id)))
                · intro x hx hmem
                  simp only [List.mem_singleton] at hx; subst hx
                  have := hb.1 _ hmem; omega
              · refine rpStep_new (N := (List.range (n + 1)).map (d1.maxShardID + 1 + 0 + ·)) ?_ (nodup_map_range _ (by intro i j h; omega) _) ?_
                · simp only [fShard]
                  refine ((insertSG_perm _ r1.shardGroups).flatMap_right (fun g => g.shards.map (·.id))).trans ?_
                  simp only [List.flatMap_cons, hids, e8]
                  exact List.perm_append_comm
                · intro x hx hmem
                  simp only [List.mem_map, List.mem_range] at hx
                  obtain ⟨i, _, rfl⟩ := hx
                  have := hb.2.1 _ hmem; omega

/-! ### ExpandGroups -/

def sids (g : SG) : List Nat := g.shards.map (·.id)
def xids (g : IG) : List Nat := g.indexes.map (·.id)

theorem igf_grow (d : Data) (r : RP) (t : Int) (e : Nat) (sh : List Nat) :
    G3 d (indexGroupFor d r t e).1 (fIG r) (fIG (indexGroupFor d r t e).2.1) (fIdx r) (fIdx (indexGroupFor d r t e).2.1) sh sh ∧
    (indexGroupFor d r t e).2.1.shardGroups = r.shardGroups ∧ (indexGroupFor d r t e).2.1.msts = r.msts := by
  have hcreate : G3 d (createIndexGroup d r t e).1 (fIG r) (fIG (createIndexGroup d r t e).2.1) (fIdx r) (fIdx (createIndexGroup d r t e).2.1) sh sh ∧
      (createIndexGroup d r t e).2.1.shardGroups = r.shardGroups ∧ (createIndexGroup d r t e).2.1.msts = r.msts := by
    unfold createIndexGroup
    simp only
    refine ⟨⟨?_, ?_, Grow.same (Nat.le_refl _) _⟩, by first | trivial | rfl, by first | trivial | rfl⟩
    · refine (Grow.fresh_one d.maxIndexGroupID (fIG r)).perm_right ?_
      simp only [fIG]
      refine ((insertIG_perm _ r.indexGroups).map (·.id)).trans ?_
      simp only [List.map_cons]
      exact (List.perm_append_comm (l₁ := [d.maxIndexGroupID + 1]) (l₂ := r.indexGroups.map (·.id)))
    · refine (Grow.fresh_range d.maxIndexID d.clusterPtNum (fIdx r)).perm_right ?_
      simp only [fIdx]
      refine ((insertIG_perm _ r.indexGroups).flatMap_right (fun g => g.indexes.map (·.id))).trans ?_
      simp only [List.flatMap_cons, mkIndexes_ids]
      exact List.perm_append_comm
  unfold indexGroupFor
  split
  · split
    · exact ⟨G3.same _ _ _ _, rfl, rfl⟩
    · exact hcreate
  · exact hcreate

theorem expandSG_grow : ∀ (n : Nat) (d : Data) (r : RP) (g : SG) (d' : Data) (r' : RP) (g' : SG), expandSG n d r g = some (d', r', g') →
    G3 d d' (fIG r) (fIG r') (fIdx r) (fIdx r') (sids g) (sids g') ∧ g'.id = g.id ∧ r'.shardGroups = r.shardGroups ∧ r'.msts = r.msts
  | 0, d, r, g, d', r', g', h => by
    simp only [expandSG, Option.some.injEq, Prod.mk.injEq] at h
    obtain ⟨rfl, rfl, rfl⟩ := h
    exact ⟨G3.same _ _ _ _, rfl, rfl, rfl⟩
  | n + 1, d, r, g, d', r', g', h => by
    unfold expandSG at h
    split at h
    · cases h
    · next prev hprev =>
      simp only at h
      have hi := igf_grow d r g.start g.engine (sids g)
      generalize indexGroupFor d r g.start g.engine = x at hi h
      obtain ⟨d1, r1, ig⟩ := x
      simp only at hi h
      obtain ⟨ih, hid, hsg, hm⟩ := expandSG_grow n _ _ _ _ _ _ h
      refine ⟨?_, hid, hsg.trans hi.2.1, hm.trans hi.2.2⟩
      refine G3.trans (d' := { d1 with maxShardID := d1.maxShardID + 1 }) ⟨hi.1.ig, hi.1.idx, ?_⟩ ih
      refine hi.1.sh.trans ?_
      have := Grow.fresh_one d1.maxShardID (sids g)
      simpa [sids] using this

theorem expandSGs_grow : ∀ (d : Data) (r : RP) (gs : List SG) (d' : Data) (r' : RP) (gs' : List SG), expandSGs d r gs = some (d', r', gs') →
    G3 d d' (fIG r) (fIG r') (fIdx r) (fIdx r') (gs.flatMap sids) (gs'.flatMap sids) ∧ gs'.map (·.id) = gs.map (·.id) ∧
    r'.shardGroups = r.shardGroups ∧ r'.msts = r.msts
  | d, r, [], d', r', gs', h => by
    simp only [expandSGs, Option.some.injEq, Prod.mk.injEq] at h
    obtain ⟨rfl, rfl, rfl⟩ := h
    exact ⟨G3.same _ _ _ _, rfl, rfl, rfl⟩
  | d, r, g :: rest, d', r', gs', h => by
    unfold expandSGs at h
    split at h
    · cases h
    · next d1 r1 g1 h1 =>
      split at h
      · cases h
      · next d2 r2 gs2 h2 =>
        cases h
        obtain ⟨a1, a2, a3, a4⟩ := expandSG_grow _ _ _ _ _ _ _ h1
        obtain ⟨b1, b2, b3, b4⟩ := expandSGs_grow _ _ _ _ _ _ h2
        refine ⟨?_, by simp [a2, b2], b3.trans a3, b4.trans a4⟩
        simp only [List.flatMap_cons]
        exact ⟨a1.ig.trans b1.ig, a1.idx.trans b1.idx, a1.sh.append b1.sh⟩

theorem expandIGs_grow (ptNum : Nat) : ∀ (maxIdx : Nat) (igs : List IG),
    (expandIGs ptNum maxIdx igs).2.map (·.id) = igs.map (·.id) ∧
    Grow maxIdx (expandIGs ptNum maxIdx igs).1 (igs.flatMap xids) ((expandIGs ptNum maxIdx igs).2.flatMap xids)
  | maxIdx, [] => ⟨rfl, Grow.same (Nat.le_refl _) _⟩
  | maxIdx, g :: rest => by
    obtain ⟨h1, h2⟩ := expandIGs_grow ptNum (maxIdx + (ptNum - g.indexes.length)) rest
    unfold expandIGs
    simp only [List.map_cons, List.flatMap_cons, h1]
    refine ⟨trivial, Grow.append ?_ h2⟩
    have := Grow.fresh_range maxIdx (ptNum - g.indexes.length) (xids g)
    simpa [xids, List.map_map, Function.comp_def] using this

theorem expandRP_grow (d : Data) (r : RP) (d' : Data) (r' : RP) (h : expandRP d r = some (d', r')) :
    G3 d d' (fIG r) (fIG r') (fIdx r) (fIdx r') (fShard r) (fShard r') ∧ fSG r' = fSG r ∧ fMst r' = fMst r := by
  unfold expandRP at h
  split at h
  · simp only [Option.some.injEq, Prod.mk.injEq] at h
    obtain ⟨rfl, rfl⟩ := h
    exact ⟨G3.same _ _ _ _, rfl, rfl⟩
  · simp only at h
    have hx := expandIGs_grow d.clusterPtNum d.maxIndexID r.indexGroups
    generalize expandIGs d.clusterPtNum d.maxIndexID r.indexGroups = x at hx h
    obtain ⟨mi, igs⟩ := x
    simp only at hx h
    split at h
    · cases h
    · next d2 r2 sgs h2 =>
      simp only [Option.some.injEq, Prod.mk.injEq] at h
      obtain ⟨rfl, rfl⟩ := h
      obtain ⟨b1, b2, b3, b4⟩ := expandSGs_grow _ _ _ _ _ _ h2
      refine ⟨?_, ?_, ?_⟩
      · have first : G3 d { d with maxIndexID := mi } (fIG r) (fIG { r with indexGroups := igs }) (fIdx r) (fIdx { r with indexGroups := igs })
            (fShard r) (fShard r) :=
          ⟨Grow.of_eq (Nat.le_refl _) (by simp only [fIG]; exact hx.1), hx.2, Grow.same (Nat.le_refl _) _⟩
        exact first.trans b1
      · simp only [fSG]; exact b2
      · simp only [fMst]; rw [b4]

theorem vf_cons' (f : RP → List Nat) (k : String) (r : RP) (l) : vf f ((k, r) :: l) = f r ++ vf f l := by simp [vf]

theorem expandRPs_grow : ∀ (d : Data) (rps : List (String × RP)) (d' : Data) (rps' : List (String × RP)), expandRPs d rps = some (d', rps') →
    G3 d d' (vf fIG rps) (vf fIG rps') (vf fIdx rps) (vf fIdx rps') (vf fShard rps) (vf fShard rps') ∧
    vf fSG rps' = vf fSG rps ∧ vf fMst rps' = vf fMst rps
  | d, [], d', rps', h => by
    simp only [expandRPs, Option.some.injEq, Prod.mk.injEq] at h
    obtain ⟨rfl, rfl⟩ := h
    exact ⟨G3.same _ _ _ _, rfl, rfl⟩
  | d, (k, r) :: rest, d', rps', h => by
    unfold expandRPs at h
    split at h
    · cases h
    · next d1 r1 h1 =>
      split at h
      · cases h
      · next d2 rs h2 =>
        cases h
        obtain ⟨a1, a2, a3⟩ := expandRP_grow _ _ _ _ h1
        obtain ⟨b1, b2, b3⟩ := expandRPs_grow _ _ _ _ h2
        simp only [vf_cons', a2, a3, b2, b3]
        exact ⟨a1.append b1, trivial, trivial⟩

/-- the ids of kind `f` in a list of stored databases -/
def af (f : RP → List Nat) (dbs : List (String × DB)) : List Nat := (dbs.flatMap fun p => p.2.rps.map (·.2)).flatMap f

theorem af_cons (f : RP → List Nat) (k : String) (db : DB) (l) : af f ((k, db) :: l) = vf f db.rps ++ af f l := by
  simp [af, vf, List.flatMap_append]

theorem idsOf_af (f : RP → List Nat) (d : Data) : idsOf f d = af f d.databases := by
  unfold idsOf af; rw [allRPs_eq]

theorem expandDBs_grow : ∀ (d : Data) (dbs : List (String × DB)) (d' : Data) (dbs' : List (String × DB)), expandDBs d dbs = some (d', dbs') →
    G3 d d' (af fIG dbs) (af fIG dbs') (af fIdx dbs) (af fIdx dbs') (af fShard dbs) (af fShard dbs') ∧
    af fSG dbs' = af fSG dbs ∧ af fMst dbs' = af fMst dbs
  | d, [], d', dbs', h => by
    simp only [expandDBs, Option.some.injEq, Prod.mk.injEq] at h
    obtain ⟨rfl, rfl⟩ := h
    exact ⟨G3.same _ _ _ _, rfl, rfl⟩
  | d, (k, db) :: rest, d', dbs', h => by
    unfold expandDBs at h
    split at h
    · cases h
    · next d1 rps h1 =>
      split at h
      · cases h
      · next d2 dbs2 h2 =>
        cases h
        obtain ⟨a1, a2, a3⟩ := expandRPs_grow _ _ _ _ h1
        obtain ⟨b1, b2, b3⟩ := expandDBs_grow _ _ _ _ h2
        simp only [af_cons, a2, a3, b2, b3]
        exact ⟨a1.append b1, trivial, trivial⟩

theorem idsU_expandGroups (hu : IdsU d) (hinv : Inv d) : IdsU (expandGroups d).1 := by
  have hb := bounds_of_inv hinv
  unfold expandGroups
  split
  · exact hu
  · next d1 dbs hx =>
    obtain ⟨g, e1, e2⟩ := expandDBs_grow _ _ _ _ hx
    have fr := (expandDBs_spec _ _ _ _ hx).1
    simp only [done]
    have hnodes : d1.dataNodes = d.dataNodes := by have := fr.pt; simp only [ptPart, PtPart.mk.injEq] at this; exact this.2.2.1
    have e : ∀ f, idsOf f { d1 with databases := dbs } = af f dbs := fun f => by rw [idsOf_af]
    refine ⟨?_, ?_, ?_, ?_, ?_, ?_⟩
    · rw [e, e1, ← idsOf_af]; exact hu.sg
    · rw [e]; exact g.sh.nodup (by rw [← idsOf_af]; exact hu.shard) (by rw [← idsOf_af]; exact hb.2.1)
    · rw [e]; exact g.ig.nodup (by rw [← idsOf_af]; exact hu.ig) (by rw [← idsOf_af]; exact hb.2.2.1)
    · rw [e]; exact g.idx.nodup (by rw [← idsOf_af]; exact hu.idx) (by rw [← idsOf_af]; exact hb.2.2.2.1)
    · rw [e, e2, ← idsOf_af]; exact hu.mst
    · unfold nodeIds; simp only [hnodes]; exact hu.node

/-! ### every reachable catalogue -/

/-- **one step of the whole model keeps every id unique** -/
theorem idsU_apply2P (pick : Nat) (d : Data2) (hr : Reach d.base) (hu : IdsU d.base) (c : Cmd2) : IdsU (apply2P pick d c).1.base := by
  have he := ext_cmds_base d
  cases c with
  | base c =>
    simp only [apply2P]
    split
    · exact hu
    · exact idsU_applyP pick hu hr.inv hr.kn hr.ks c
  | updateIndexInfoTier i t db rp => exact idsU_updateIndexInfoTier hu hr.kn hr.ks i t db rp
  | updatePtVersion db pt => exact idsU_updatePtVersion hu db pt
  | reSharding db rp id t n => exact idsU_reSharding hu hr.inv hr.kn hr.ks db rp id t n
  | expandGroups => exact idsU_expandGroups hu hr.inv
  | markTakeover b => exact hu
  | markBalancer b => exact hu
  | createSubscription n db rp => simp only [apply2P]; rw [he.1]; exact hu
  | dropSubscription n db rp => simp only [apply2P]; rw [he.2.1]; exact hu
  | createContinuousQuery db n q => simp only [apply2P]; rw [he.2.2.1]; exact hu
  | dropContinuousQuery n db => simp only [apply2P]; rw [he.2.2.2.1]; exact hu
  | continuousQueryReport n t => exact hu
  | createStream s => simp only [apply2P]; rw [he.2.2.2.2.2.1]; exact hu
  | dropStream n => simp only [apply2P]; rw [he.2.2.2.2.2.2]; exact hu

theorem idsU_applyAll2 {d : Data2} (hr : Reach d.base) (hu : IdsU d.base) : ∀ cs : List Cmd2, IdsU (applyAll2 d cs).base
  | [] => hu
  | c :: cs => idsU_applyAll2 (hr.step (stepFacts_apply2P 0 d c)) (idsU_apply2P 0 d hr hu c) cs

/-- **T15** in every catalogue reachable with the 38 modelled command types — ReSharding and
ExpandGroups included — every shard-group id, shard id, index-group id, index id, measurement id
and node id occurs exactly once: the `idsUnique` clause of `wf`, for all logs, not only for the
dumps the harness looks at. -/
theorem ids_unique_invariant (log : List Cmd2) : idsUnique (applyAll2 Data2.init log).base = true :=
  idsUnique_of (idsU_applyAll2 (d := Data2.init) reach_init idsU_init log)

/-- **T7‴** after any log of the larger model all of whose steps are safe the catalogue satisfies
*every* clause of WF (the side condition is needed for disjoint / aligned / refs only). -/
theorem wf_reachable2 (log : List Cmd2) (hs : safeLog2 Data2.init log = true) : WF (applyAll2 Data2.init log).base := by
  obtain ⟨h1, h2, h3, h4, h5, h6⟩ := wf_reachable2_partial log hs
  exact ⟨h1, h2, h3, ids_unique_invariant log, h4, h5, h6⟩

end OG.C16
