/-
C16 — clause `refs`: every shard refers to an index of its own policy and to partitions that
exist. Invariant for every command except the pruning of an index group (finding
`index_pruned_under_live_shard`).
-/
import OG.C16.GroupsCmds

namespace OG.C16
open OG.Meta

theorem mem_rpIndexIds {rp : RP} {x : Nat} : x ∈ rpIndexIds rp ↔ ∃ g ∈ rp.indexGroups, ∃ i ∈ g.indexes, i.id = x := by
  simp [rpIndexIds, List.mem_flatMap, List.mem_map]

structure RefsOK (ptNum : Nat) (rp : RP) : Prop where
  index : ∀ g ∈ rp.shardGroups, ∀ s ∈ g.shards, s.indexID ∈ rpIndexIds rp
  owners : ∀ g ∈ rp.shardGroups, ∀ s ∈ g.shards, ∀ o ∈ s.owners, o < ptNum
  len : ∀ g ∈ rp.shardGroups, g.shards.length ≤ ptNum

def RefsInv (d : Data) : Prop := ∀ rp ∈ allRPs d, RefsOK d.clusterPtNum rp

theorem RefsOK.mono {a b : Nat} {rp : RP} (h : a ≤ b) (hr : RefsOK a rp) : RefsOK b rp :=
  ⟨hr.index, fun g hg s hs o ho => Nat.lt_of_lt_of_le (hr.owners g hg s hs o ho) h, fun g hg => Nat.le_trans (hr.len g hg) h⟩

theorem clause_of_refsInv {d : Data} (h : RefsInv d) : refsValid d = true := by
  unfold refsValid
  rw [List.all_eq_true]
  intro rp hrp
  unfold refsRP
  simp only [List.all_eq_true, Bool.and_eq_true, List.contains_iff_mem, decide_eq_true_eq]
  intro g hg s hs
  exact ⟨(h rp hrp).index g hg s hs, (h rp hrp).owners g hg s hs⟩

theorem refsInv_init : RefsInv Data.init := by intro rp h; simp [allRPs, Data.init] at h

theorem refs_setRP {d d' : Data} {n k : String} {dbi : DB} {r' : RP} (hinv : RefsInv d) (hdbs : d'.databases = d.databases)
    (hpt : d.clusterPtNum ≤ d'.clusterPtNum) (hd : (n, dbi) ∈ d.databases) (hr' : RefsOK d'.clusterPtNum r') : RefsInv (setRP d' dbi k r') := by
  intro rp hrp
  have hd' : (n, dbi) ∈ d'.databases := by rw [hdbs]; exact hd
  rcases allRPs_setRP hd' hrp with rfl | hrp
  · exact hr'
  · rw [allRPs_of_dbs_eq hdbs] at hrp
    exact (hinv rp hrp).mono hpt

theorem refs_setDB {d : Data} {db : DB} (hinv : RefsInv d) (hdb : ∀ kr ∈ db.rps, RefsOK d.clusterPtNum kr.2) : RefsInv (setDB d db) := by
  intro rp hrp
  rcases allRPs_setDB hrp with ⟨kr, hkr, rfl⟩ | hrp
  · exact hdb kr hkr
  · exact hinv rp hrp

theorem refs_of_eq {d d' : Data} (hinv : RefsInv d) (hdbs : d'.databases = d.databases) (hpt : d.clusterPtNum ≤ d'.clusterPtNum) : RefsInv d' := by
  intro rp hrp
  rw [allRPs_of_dbs_eq hdbs] at hrp
  exact (hinv rp hrp).mono hpt

theorem refs_mapRPs {d : Data} (f : DB → RP → RP) (hf : ∀ db rp, RefsOK d.clusterPtNum rp → RefsOK d.clusterPtNum (f db rp)) (hinv : RefsInv d) :
    RefsInv (mapRPs f d) := by
  intro rp hrp
  obtain ⟨db, r, hr, rfl⟩ := allRPs_mapRPs hrp
  exact hf db r (hinv r hr)

theorem refsOK_of_getRP {d : Data} (hinv : RefsInv d) {db rp k : String} {dbi : DB} {r : RP} (hg : getRP d db rp = .ok (dbi, k, r)) :
    RefsOK d.clusterPtNum r := hinv r (mem_allRPs_of (getRP_ok hg).1 (getRP_ok hg).2.1)

theorem refsOk_of_mem {d : Data} (hinv : RefsInv d) {n : String} {db : DB} (hm : (n, db) ∈ d.databases) :
    ∀ kr ∈ db.rps, RefsOK d.clusterPtNum kr.2 := fun kr hkr => hinv kr.2 (mem_allRPs.2 ⟨_, hm, kr, hkr, rfl⟩)

/-- same groups, same index groups -/
theorem refsOK_same {n : Nat} {r r' : RP} (h : RefsOK n r) (h1 : r'.shardGroups = r.shardGroups) (h2 : r'.indexGroups = r.indexGroups) : RefsOK n r' := by
  refine ⟨?_, by rw [h1]; exact h.owners, by rw [h1]; exact h.len⟩
  intro g hg s hs
  rw [h1] at hg
  have := h.index g hg s hs
  unfold rpIndexIds at this ⊢
  rw [h2]; exact this

theorem refsOK_empty (n : Nat) (s : RPSpec) (y : Durs) : RefsOK n (s.toRP y) :=
  ⟨by simp [RPSpec.toRP], by simp [RPSpec.toRP], by simp [RPSpec.toRP]⟩

theorem schemaCleanAll_igs (rp : RP) (b : Bool) (e : Int) : (rp.schemaCleanAll b e).indexGroups = rp.indexGroups := by
  unfold RP.schemaCleanAll
  simp only
  split
  · rfl
  · generalize ((List.map (fun m => m.schemaClean e) rp.msts).filter _).map _ = l
    generalize hr : ({ rp with msts := _ } : RP) = r0
    have h0 : r0.indexGroups = rp.indexGroups := by subst hr; rfl
    clear hr
    induction l generalizing r0 with
    | nil => simpa using h0
    | cons o l ih =>
      simp only [List.foldl_cons]
      apply ih
      split
      · split
        · exact h0
        · exact h0
      · exact h0

theorem length_updFirst {α : Type} (p : α → Bool) (f : α → α) : ∀ l : List α, (updFirst p f l).length = l.length
  | [] => rfl
  | x :: rest => by
    unfold updFirst
    split
    · rfl
    · simp [length_updFirst p f rest]

theorem markShardIn_len (id : Nat) (g : SG) : (markShardIn id g).shards.length = g.shards.length := by
  unfold markShardIn
  split
  · split
    · simp [length_updFirst]
    · rfl
  · rfl

theorem mem_pruneSGs_len {id : Nat} {y' : SG} : ∀ {l : List SG}, y' ∈ (pruneSGs id l).1 → ∃ y ∈ l, SameSG y' y ∧ y'.shards.length = y.shards.length
  | [], h => by simp [pruneSGs] at h
  | g :: rest, h => by
    unfold pruneSGs at h
    simp only at h
    split at h
    · obtain ⟨y, hy, hs⟩ := mem_pruneSGs_len (l := rest) h
      exact ⟨y, List.mem_cons_of_mem _ hy, hs⟩
    · rcases List.mem_cons.1 h with rfl | h
      · exact ⟨g, List.mem_cons_self, markShardIn_same id g, markShardIn_len id g⟩
      · obtain ⟨y, hy, hs⟩ := mem_pruneSGs_len (l := rest) h
        exact ⟨y, List.mem_cons_of_mem _ hy, hs⟩

theorem refsOK_pruneShardGroupsRP {n : Nat} (id : Nat) (b : Bool) (rp : RP) (h : RefsOK n rp) : RefsOK n (pruneShardGroupsRP id b rp) := by
  unfold pruneShardGroupsRP
  simp only
  have h1 : RefsOK n { rp with shardGroups := (pruneSGs id rp.shardGroups).1 } := by
    refine ⟨?_, ?_, ?_⟩
    · intro g hg s hs
      obtain ⟨y, hy, hsame, _⟩ := mem_pruneSGs_len hg
      obtain ⟨s0, hs0, _, hidx, _⟩ := hsame.2.2.2.2.2 s hs
      rw [hidx]; exact h.index y hy s0 hs0
    · intro g hg s hs o ho
      obtain ⟨y, hy, hsame, _⟩ := mem_pruneSGs_len hg
      obtain ⟨s0, hs0, _, _, hown⟩ := hsame.2.2.2.2.2 s hs
      rw [hown] at ho; exact h.owners y hy s0 hs0 o ho
    · intro g hg
      obtain ⟨y, hy, _, hlen⟩ := mem_pruneSGs_len hg
      rw [hlen]; exact h.len y hy
  split
  · exact h1
  · exact refsOK_same h1 (schemaCleanAll_same _ _ _).1 (schemaCleanAll_igs _ _ _)

theorem refsOK_updSG {n : Nat} {r : RP} (p : SG → Bool) (f : SG → SG) (h : RefsOK n r)
    (hsh : ∀ g, (∀ s ∈ (f g).shards, ∃ s0 ∈ g.shards, s.indexID = s0.indexID ∧ s.owners = s0.owners) ∧ (f g).shards.length = g.shards.length) :
    RefsOK n { r with shardGroups := updFirst p f r.shardGroups } := by
  refine ⟨?_, ?_, ?_⟩
  · intro g hg s hs
    rcases mem_updFirst hg with hg | ⟨z, hz, rfl⟩
    · exact h.index g hg s hs
    · obtain ⟨s0, hs0, hi, _⟩ := (hsh z).1 s hs
      rw [hi]; exact h.index z hz s0 hs0
  · intro g hg s hs o ho
    rcases mem_updFirst hg with hg | ⟨z, hz, rfl⟩
    · exact h.owners g hg s hs o ho
    · obtain ⟨s0, hs0, _, ho'⟩ := (hsh z).1 s hs
      rw [ho'] at ho; exact h.owners z hz s0 hs0 o ho
  · intro g hg
    rcases mem_updFirst hg with hg | ⟨z, hz, rfl⟩
    · exact h.len g hg
    · rw [(hsh z).2]; exact h.len z hz

/-- marking an index group deleted keeps its index ids -/
theorem rpIndexIds_updIG {r : RP} (p : IG → Bool) (f : IG → IG) (hf : ∀ g, (f g).indexes = g.indexes) (x : Nat)
    (h : x ∈ rpIndexIds r) : x ∈ rpIndexIds { r with indexGroups := updFirst p f r.indexGroups } := by
  obtain ⟨g, hg, i, hi, rfl⟩ := mem_rpIndexIds.1 h
  apply mem_rpIndexIds.2
  have key : ∀ l : List IG, g ∈ l → ∃ g' ∈ updFirst p f l, g'.indexes = g.indexes := by
    intro l
    induction l with
    | nil => intro h; cases h
    | cons a l ih =>
      intro hmem
      unfold updFirst
      split
      · rcases List.mem_cons.1 hmem with rfl | hmem
        · exact ⟨f g, List.mem_cons_self, hf g⟩
        · exact ⟨g, List.mem_cons_of_mem _ hmem, rfl⟩
      · rcases List.mem_cons.1 hmem with rfl | hmem
        · exact ⟨g, List.mem_cons_self, rfl⟩
        · obtain ⟨g', hg', he⟩ := ih hmem
          exact ⟨g', List.mem_cons_of_mem _ hg', he⟩
  obtain ⟨g', hg', he⟩ := key _ hg
  exact ⟨g', hg', i, by rw [he]; exact hi, rfl⟩

/-- what the shard-creating path needs from `indexGroupFor` -/
theorem indexGroupFor_ig (d : Data) (r : RP) (ts : Int) (e : Nat) :
    (indexGroupFor d r ts e).2.2 ∈ (indexGroupFor d r ts e).2.1.indexGroups ∧
    d.clusterPtNum ≤ (indexGroupFor d r ts e).2.2.indexes.length ∧
    (∀ g ∈ r.indexGroups, g ∈ (indexGroupFor d r ts e).2.1.indexGroups) ∧
    (indexGroupFor d r ts e).1.clusterPtNum = d.clusterPtNum := by
  have hcreate : (createIndexGroup d r ts e).2.2 ∈ (createIndexGroup d r ts e).2.1.indexGroups ∧
      d.clusterPtNum ≤ (createIndexGroup d r ts e).2.2.indexes.length ∧
      (∀ g ∈ r.indexGroups, g ∈ (createIndexGroup d r ts e).2.1.indexGroups) ∧
      (createIndexGroup d r ts e).1.clusterPtNum = d.clusterPtNum := by
    simp only [createIndexGroup]
    have hins : ∀ (g x : IG) (l : List IG), x = g ∨ x ∈ l → x ∈ insertIG g l := by
      intro g x l
      induction l with
      | nil =>
        intro h
        rcases h with rfl | h
        · simp [insertIG]
        · cases h
      | cons a l ih =>
        intro h
        unfold insertIG
        split
        · rcases h with rfl | h
          · exact List.mem_cons_self
          · exact List.mem_cons_of_mem _ h
        · rcases h with rfl | h
          · exact List.mem_cons_of_mem _ (ih (Or.inl rfl))
          · rcases List.mem_cons.1 h with rfl | h
            · exact List.mem_cons_self
            · exact List.mem_cons_of_mem _ (ih (Or.inr h))
    refine ⟨hins _ _ _ (Or.inl rfl), by simp [mkIndexes], fun g hg => hins _ _ _ (Or.inr hg), trivial⟩
  unfold indexGroupFor
  split
  · next g hf =>
    split
    · next hlen =>
      have hm := List.mem_of_find?_eq_some hf
      exact ⟨List.mem_reverse.1 hm, hlen, fun g hg => hg, rfl⟩
    · exact hcreate
  · exact hcreate

theorem nthIndexID_mem {ig : IG} {i : Nat} (h : i < ig.indexes.length) : ∃ x ∈ ig.indexes, x.id = nthIndexID ig i := by
  unfold nthIndexID
  refine ⟨ig.indexes[i], List.getElem_mem h, ?_⟩
  simp [List.getD, List.getElem?_eq_getElem h]

end OG.C16
