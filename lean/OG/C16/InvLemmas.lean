/-
C16 — membership lemmas for the sorted-insert helpers, and the effect of the measurement /
index-group operations on ids.
-/
import OG.C16.Sorted

namespace OG.C16
open OG.Meta

theorem mem_insertMst {m y : Mst} : ∀ {l : List Mst}, y ∈ insertMst m l → y = m ∨ y ∈ l
  | [], h => by simp [insertMst] at h; exact Or.inl h
  | x :: rest, h => by
    unfold insertMst at h
    split at h
    · rcases List.mem_cons.1 h with h | h
      · exact Or.inl h
      · exact Or.inr (List.mem_cons_of_mem _ h)
    · split at h
      · rcases List.mem_cons.1 h with h | h
        · exact Or.inl h
        · exact Or.inr h
      · rcases List.mem_cons.1 h with h | h
        · exact Or.inr (h ▸ List.mem_cons_self)
        · rcases mem_insertMst h with h | h
          · exact Or.inl h
          · exact Or.inr (List.mem_cons_of_mem _ h)

theorem mem_insertIG {g y : IG} : ∀ {l : List IG}, y ∈ insertIG g l → y = g ∨ y ∈ l
  | [], h => by simp [insertIG] at h; exact Or.inl h
  | x :: rest, h => by
    unfold insertIG at h
    split at h
    · rcases List.mem_cons.1 h with h | h
      · exact Or.inl h
      · exact Or.inr h
    · rcases List.mem_cons.1 h with h | h
      · exact Or.inr (h ▸ List.mem_cons_self)
      · rcases mem_insertIG h with h | h
        · exact Or.inl h
        · exact Or.inr (List.mem_cons_of_mem _ h)

theorem mem_insertNode {n y : Node} : ∀ {l : List Node}, y ∈ insertNode n l → y = n ∨ y ∈ l
  | [], h => by simp [insertNode] at h; exact Or.inl h
  | x :: rest, h => by
    unfold insertNode at h
    split at h
    · rcases List.mem_cons.1 h with h | h
      · exact Or.inl h
      · exact Or.inr h
    · rcases List.mem_cons.1 h with h | h
      · exact Or.inr (h ▸ List.mem_cons_self)
      · rcases mem_insertNode h with h | h
        · exact Or.inl h
        · exact Or.inr (List.mem_cons_of_mem _ h)

theorem measurement_mem {r : RP} {mst : String} {m : Mst} (h : r.measurement mst = some m) : m ∈ r.msts := by
  unfold RP.measurement at h
  split at h
  · cases h
  · unfold RP.findMst at h
    exact List.mem_of_find?_eq_some h

theorem getMeasurement_mem {d : Data} {db rp mst k : String} {dbi : DB} {r : RP} {m : Mst}
    (h : getMeasurement d db rp mst = .ok (dbi, k, r, m)) : getRP d db rp = .ok (dbi, k, r) ∧ m ∈ r.msts := by
  unfold getMeasurement at h
  split at h
  · cases h
  · next dbi' k' r' hg =>
    split at h
    · cases h
    · next m' hm =>
      split at h
      · cases h
      · cases h
        exact ⟨hg, measurement_mem hm⟩

/-- replacing a measurement by one with the same id keeps the id bound -/
theorem mstBound_setMst {c : Ctr} {r : RP} {m : Mst} (h : ∀ x ∈ r.msts, x.id < c.mst) (hm : m.id < c.mst) :
    ∀ x ∈ (r.setMst m).msts, x.id < c.mst := by
  intro x hx
  rcases mem_insertMst hx with rfl | hx
  · exact hm
  · exact h x hx

theorem rpok_setMst {c : Ctr} {r : RP} {m : Mst} (h : RPOk c r) (hm : m.id < c.mst) : RPOk c (r.setMst m) :=
  ⟨h.sgBound, h.shardBound, h.igBound, h.idxBound, mstBound_setMst h.mstBound hm, h.sorted⟩

theorem schemaClean_id (m : Mst) (e : Int) : (m.schemaClean e).1.id = m.id := by
  unfold Mst.schemaClean; split <;> rfl

theorem rpok_schemaCleanAll {c : Ctr} (rp : RP) (b : Bool) (e : Int) (h : RPOk c rp) : RPOk c (rp.schemaCleanAll b e) := by
  unfold RP.schemaCleanAll
  simp only
  have h1 : RPOk c { rp with msts := (rp.msts.map fun m => m.schemaClean e).map (·.1) } := by
    refine ⟨h.sgBound, h.shardBound, h.igBound, h.idxBound, ?_, h.sorted⟩
    intro x hx
    simp only [List.map_map, List.mem_map, Function.comp] at hx
    obtain ⟨m, hm, rfl⟩ := hx
    rw [schemaClean_id]
    exact h.mstBound m hm
  split
  · exact h1
  · generalize ((List.map (fun m => m.schemaClean e) rp.msts).filter _).map _ = l
    generalize ({ rp with msts := _ } : RP) = r0 at h1
    induction l generalizing r0 with
    | nil => simpa using h1
    | cons o l ih =>
      simp only [List.foldl_cons]
      apply ih
      split
      · next cur hc =>
        split
        · exact h1
        · exact rpok_setMst h1 (h1.mstBound cur (measurement_mem hc))
      · exact h1

/-- what `pruneIGs` keeps of an index group -/
def SameIG (y' y : IG) : Prop :=
  y'.id = y.id ∧ y'.start = y.start ∧ y'.stop = y.stop ∧ ∀ x' ∈ y'.indexes, ∃ x ∈ y.indexes, x'.id = x.id

theorem markIndexIn_same (id : Nat) (g : IG) : SameIG (markIndexIn id g) g := by
  unfold markIndexIn
  split
  · split
    · refine ⟨rfl, rfl, rfl, fun x' hx' => ?_⟩
      rcases mem_updFirst hx' with hx' | ⟨z, hz, rfl⟩
      · exact ⟨x', hx', rfl⟩
      · exact ⟨z, hz, rfl⟩
    · exact ⟨rfl, rfl, rfl, fun x hx => ⟨x, hx, rfl⟩⟩
  · exact ⟨rfl, rfl, rfl, fun x hx => ⟨x, hx, rfl⟩⟩

theorem mem_pruneIGs {id : Nat} {y' : IG} : ∀ {l : List IG}, y' ∈ pruneIGs id l → ∃ y ∈ l, SameIG y' y
  | [], h => by simp [pruneIGs] at h
  | g :: rest, h => by
    unfold pruneIGs at h
    simp only at h
    split at h
    · obtain ⟨y, hy, hs⟩ := mem_pruneIGs (l := rest) h
      exact ⟨y, List.mem_cons_of_mem _ hy, hs⟩
    · rcases List.mem_cons.1 h with rfl | h
      · exact ⟨g, List.mem_cons_self, markIndexIn_same id g⟩
      · obtain ⟨y, hy, hs⟩ := mem_pruneIGs (l := rest) h
        exact ⟨y, List.mem_cons_of_mem _ hy, hs⟩

theorem rpok_pruneShardGroupsRP {c : Ctr} (id : Nat) (b : Bool) (rp : RP) (h : RPOk c rp) : RPOk c (pruneShardGroupsRP id b rp) := by
  unfold pruneShardGroupsRP
  simp only
  have h1 : RPOk c { rp with shardGroups := (pruneSGs id rp.shardGroups).1 } := by
    refine ⟨?_, ?_, h.igBound, h.idxBound, h.mstBound, ?_⟩
    · intro g hg
      obtain ⟨y, hy, hs⟩ := mem_pruneSGs hg
      rw [hs.1]; exact h.sgBound y hy
    · intro g hg s hs'
      obtain ⟨y, hy, hs⟩ := mem_pruneSGs hg
      obtain ⟨s0, hs0, hid, _, _⟩ := hs.2.2.2.2.2 s hs'
      rw [hid]; exact h.shardBound y hy s0 hs0
    · rw [sortedRP_iff]
      exact sorted_pruneSGs id rp.shardGroups ((sortedRP_iff rp).1 h.sorted)
  split
  · exact h1
  · exact rpok_schemaCleanAll _ _ _ h1

theorem rpok_pruneIGs {c : Ctr} (id : Nat) (rp : RP) (h : RPOk c rp) : RPOk c { rp with indexGroups := pruneIGs id rp.indexGroups } := by
  refine ⟨h.sgBound, h.shardBound, ?_, ?_, h.mstBound, h.sorted⟩
  · intro g hg
    obtain ⟨y, hy, hs⟩ := mem_pruneIGs hg
    rw [hs.1]; exact h.igBound y hy
  · intro g hg x hx
    obtain ⟨y, hy, hs⟩ := mem_pruneIGs hg
    obtain ⟨x0, hx0, hid⟩ := hs.2.2.2 x hx
    rw [hid]; exact h.idxBound y hy x0 hx0

theorem inv_mapRPs {d : Data} (f : DB → RP → RP) (hf : ∀ db rp, RPOk (ctr d) rp → RPOk (ctr d) (f db rp)) (hinv : Inv d) :
    Inv (mapRPs f d) := by
  constructor
  · intro rp hrp
    obtain ⟨db, r, hr, rfl⟩ := allRPs_mapRPs hrp
    exact hf db r (hinv.1 r hr)
  · exact hinv.2

theorem inv_sub {d d' : Data} (hinv : Inv d) (hsub : ∀ rp ∈ allRPs d', rp ∈ allRPs d) (hnodes : d'.dataNodes = d.dataNodes)
    (hc : (ctr d).le (ctr d')) : Inv d' := by
  constructor
  · intro rp hrp
    exact (hinv.1 rp (hsub rp hrp)).mono hc
  · intro nd hnd
    rw [hnodes] at hnd
    have := hinv.2 nd hnd
    have h6 : d.maxNodeID ≤ d'.maxNodeID := hc.2.2.2.2.2
    omega

end OG.C16
