/-
C16 — the step relation `StepOK` (version counters only grow, new names carry the new counter)
holds for every modelled command, from every state with keys = names, sorted keys and counters
below the 16-bit wrap-around.
-/
import OG.C16.Issued

namespace OG.C16
open OG.Meta

variable {d : Data}

theorem noWrap_of_find {n k : String} {dbi : DB} {r : RP} (hw : NoWrap d) (hf : alFind n d.databases = some dbi)
    (hr : alFind k dbi.rps = some r) : NoWrapRP r :=
  hw r (mem_allRPs_of (alFind_mem hf) (alFind_mem hr))

theorem step_createDatabase (hk : KeysAreNames d) (n rp rep) : StepOK d (createDatabase d n rp rep).1 := by
  unfold createDatabase
  simp only
  split
  · exact StepOK.refl d
  · split
    · exact StepOK.refl d
    · split
      · split <;> exact StepOK.refl d
      · next hnone =>
        split
        · exact StepOK.refl d
        · exact StepOK.refl d
        · intro db k rp0 rp' _ h1 h2
          simp only [done] at h2
          rw [lookupRP_setDB] at h2
          simp only [DB.setRetentionPolicy] at h2
          split at h2
          · next hdb =>
            have hdb' : db = n := hdb
            rw [hdb'] at h1
            unfold lookupRP at h1
            rw [hnone] at h1; cases h1
          · rw [h1] at h2; cases h2; exact Rel.refl _

theorem step_dropDatabase (hs : KS d) (n) : StepOK d (dropDatabase d n).1 := by
  unfold dropDatabase
  split
  · exact StepOK.refl d
  · intro db k rp rp' _ h1 h2
    unfold lookupRP at h1 h2
    simp only [done] at h2
    by_cases hdb : db = n
    · subst hdb
      rw [alFind_alErase_self db hs.dbs] at h2; cases h2
    · rw [alFind_alErase_ne hdb, h1] at h2
      cases h2; exact Rel.refl _

theorem step_markDatabaseDelete (hk : KeysAreNames d) (n) : StepOK d (markDatabaseDelete d n).1 := by
  unfold markDatabaseDelete
  split
  · exact StepOK.refl d
  · next db hf =>
    split
    · exact StepOK.refl d
    · exact stepOK_setDB_same hk hf rfl rfl

theorem create_facts {db : DB} {s : RPSpec} {md : Bool} {r : RP} (h : checkCanCreateRP db s md = .create r) :
    r.name = s.name ∧ alFind s.name db.rps = none := by
  unfold checkCanCreateRP at h
  split at h
  · cases h
  · split at h
    · cases h
    · split at h
      · next hnone =>
        split at h
        · cases h
        · cases h; exact ⟨rfl, hnone⟩
      · split at h
        · cases h
        · split at h <;> cases h

theorem step_createRetentionPolicy (hk : KeysAreNames d) (db s md) : StepOK d (createRetentionPolicy d db s md).1 := by
  unfold createRetentionPolicy
  split
  · exact StepOK.refl d
  · next dbi hd =>
    split
    · exact StepOK.refl d
    · exact StepOK.refl d
    · next r hr =>
      have hc := create_facts hr
      exact stepOK_setDB_new (k0 := r.name) (r0 := r) hk (getDatabase_find hd) rfl rfl (by rw [hc.1]; exact hc.2)

theorem step_dropRetentionPolicy (hk : KeysAreNames d) (hs : KS d) (db rp) : StepOK d (dropRetentionPolicy d db rp).1 := by
  unfold dropRetentionPolicy
  split
  · exact StepOK.refl d
  · next dbi hd => exact stepOK_setDB_erase (k0 := rp) hk hs (getDatabase_find hd) rfl rfl

theorem step_setDefaultRetentionPolicy (hk : KeysAreNames d) (db rp) : StepOK d (setDefaultRetentionPolicy d db rp).1 := by
  unfold setDefaultRetentionPolicy
  split
  · exact StepOK.refl d
  · next dbi hd =>
    split
    · exact StepOK.refl d
    · exact stepOK_setDB_same hk (getDatabase_find hd) rfl rfl

/-- a rename moves the policy to a key that was free (the empty key aside), everything else is
an update in place that keeps names and counters -/
theorem step_updateRetentionPolicy (hk : KeysAreNames d) (hs : KS d) (db rp u) : StepOK d (updateRetentionPolicy d db rp u).1 := by
  unfold updateRetentionPolicy
  split
  · exact StepOK.refl d
  · next dbi hd =>
    have hf := getDatabase_find hd
    have hmem := alFind_mem hf
    have hname : dbi.name = db := (hk _ hmem).1
    split
    · exact StepOK.refl d
    · next k r hr =>
      have hfr := DB.getRP_find hr
      have hrn : r.name = k := (hk _ hmem).2 _ (alFind_mem hfr)
      split
      · exact StepOK.refl d
      · next hren0 =>
        have hclash : ¬ nameClash dbi rp u = true := by
          intro hc; simp [renameError, hc] at hren0
        have hnonempty : u.newName ≠ some "" := by
          intro hc; unfold renameError at hren0; rw [if_neg hclash, if_pos hc] at hren0; cases hren0
        simp only
        split
        · exact StepOK.refl d
        · next y hy =>
          intro db' k' rp0 rp' hne h1 h2
          simp only [done] at h2
          rw [lookupRP_setDB] at h2
          have hwn : (writeBack dbi k (u.newName.getD r.name) r
              { r with name := u.newName.getD r.name, sgDuration := y.sg, hot := y.hot, warm := y.warm, indexCold := y.cold,
                       igDuration := y.ig, duration := y.duration } u.makeDefault).name = dbi.name := by
            unfold writeBack; simp only; split <;> rfl
          rw [hwn] at h2
          split at h2
          · next hdb =>
            rw [hdb, hname, lookupRP_of_find hf] at h1
            unfold writeBack at h2
            simp only at h2
            split at h2
            · next hren =>
              -- renamed: new key `newName`, old key `k` (= r.name) erased
              simp only at h2
              by_cases hk' : k' = u.newName.getD r.name
              · -- the new key was free before
                exfalso
                cases hnn : u.newName with
                | none => simp [hnn] at hren
                | some nn =>
                  simp only [hnn, Option.getD_some] at hk' hren
                  have hc : ¬ (nn ≠ rp ∧ (dbi.rp? nn).isSome) := by
                    intro hc; apply hclash; simp [nameClash, hnn, hc.1, hc.2]
                  have hnn' : nn ≠ "" := hk' ▸ hne
                  by_cases hrp : nn = rp
                  · -- the command named the policy by the new name itself: then k = rp = nn = r.name
                    have hkey : k = nn := by
                      have := hr
                      unfold DB.getRP DB.rp? DB.rpKey at this
                      rw [← hrp] at this
                      simp only [hnn', if_false] at this
                      cases hfa : alFind nn dbi.rps with
                      | none => simp [hfa] at this
                      | some r2 =>
                        simp only [hfa, Option.map_some] at this
                        split at this
                        · cases this
                        · cases this; rfl
                    exact hren (hkey ▸ hrn).symm
                  · have hnone : (dbi.rp? nn).isSome = false := by
                      cases hx : (dbi.rp? nn).isSome with
                      | false => rfl
                      | true => exact absurd ⟨hrp, hx⟩ hc
                    have : alFind nn dbi.rps = none := by
                      unfold DB.rp? DB.rpKey at hnone
                      simp only [hnn', if_false] at hnone
                      cases hfa : alFind nn dbi.rps with
                      | none => rfl
                      | some r2 => simp [hfa] at hnone
                    rw [hk', this] at h1; cases h1
              · rw [alFind_alInsert_ne _ hk'] at h2
                by_cases hk2 : k' = k
                · exfalso
                  rw [hk2, hrn] at h2
                  have hs1 : SortedKeys (alErase k dbi.rps) := sortedKeys_alErase (hs.rps _ hmem)
                  rw [alFind_alErase_self k hs1] at h2; cases h2
                · rw [hrn, alFind_alErase_ne hk2, alFind_alErase_ne hk2, h1] at h2
                  cases h2; exact Rel.refl _
            · simp only at h2
              by_cases hk2 : k' = k
              · subst hk2
                rw [alFind_alInsert_self] at h2
                rw [hfr] at h1
                cases h1; cases h2
                exact Rel.of_same rfl (fun n h => h)
              · rw [alFind_alInsert_ne _ hk2, h1] at h2
                cases h2; exact Rel.refl _
          · rw [h1] at h2; cases h2; exact Rel.refl _

theorem step_setRP_cmds (hk : KeysAreNames d) (hw : NoWrap d) (pick : Nat) :
    (∀ db rp, StepOK d (markRetentionPolicyDelete d db rp).1) ∧
    (∀ db rp m ski e fs, StepOK d (createMeasurement pick d db rp m ski e fs).1) ∧
    (∀ db rp m ski, StepOK d (alterShardKey pick d db rp m ski).1) ∧
    (∀ db rp m fs, StepOK d (updateSchema d db rp m fs).1) ∧
    (∀ db rp m, StepOK d (markMeasurementDelete d db rp m).1) ∧
    (∀ db rp m, StepOK d (dropMeasurement d db rp m).1) ∧
    (∀ db rp id t, StepOK d (deleteShardGroup d db rp id t).1) ∧
    (∀ db rp id, StepOK d (deleteIndexGroup d db rp id).1) ∧
    (∀ s t db rp, StepOK d (updateShardInfoTier d s t db rp).1) := by
  refine ⟨?_, ?_, ?_, ?_, ?_, ?_, ?_, ?_, ?_⟩
  · intro db rp
    unfold markRetentionPolicyDelete
    split
    · exact StepOK.refl d
    · next dbi k r hg =>
      exact stepOK_setRP hk (getRP_find hg).1 (getRP_find hg).2 rfl (Rel.of_same rfl (fun n h => h))
  · intro db rp m ski e fs
    unfold createMeasurement
    split
    · exact StepOK.refl d
    · next dbi k r hg =>
      have hf := getRP_find hg
      have hwr := noWrap_of_find hw hf.1 hf.2
      simp only
      repeat' split
      all_goals first
        | exact StepOK.refl d
        | exact stepOK_setRP (d' := { d with maxMstID := d.maxMstID + 1 }) hk hf.1 hf.2 rfl
            (rel_create m _ _ rfl (ver_some hwr (by assumption)).1 (ver_some hwr (by assumption)).2)
        | exact stepOK_setRP (d' := { d with maxMstID := d.maxMstID + 1 }) hk hf.1 hf.2 rfl
            (rel_create m _ 0 rfl (by decide) (ver_none (by assumption)))
  · intro db rp m ski
    unfold alterShardKey
    split
    · exact StepOK.refl d
    · next dbi k r hg =>
      have hf := getRP_find hg
      split
      · exact StepOK.refl d
      · next ms hms =>
        simp only
        repeat' split
        all_goals first
          | exact StepOK.refl d
          | exact stepOK_setRP hk hf.1 hf.2 rfl (rel_setMst_same (measurement_mem hms) rfl)
  · intro db rp m fs
    unfold updateSchema
    split
    · exact StepOK.refl d
    · next dbi k r ms hg =>
      have hf := getMeasurement_find hg
      split
      · exact StepOK.refl d
      · exact stepOK_setRP hk hf.1 hf.2.1 rfl (rel_setMst_same hf.2.2 rfl)
  · intro db rp m
    unfold markMeasurementDelete
    split
    · exact StepOK.refl d
    · next dbi k r ms hg =>
      have hf := getMeasurement_find hg
      exact stepOK_setRP hk hf.1 hf.2.1 rfl (rel_setMst_same hf.2.2 rfl)
  · intro db rp m
    unfold dropMeasurement
    split
    · exact StepOK.refl d
    · next dbi k r hg =>
      refine stepOK_setRP hk (getRP_find hg).1 (getRP_find hg).2 rfl (Rel.of_same rfl ?_)
      intro n h
      simp only [RP.names, List.mem_map, List.mem_filter] at h ⊢
      obtain ⟨x, hx, rfl⟩ := h
      exact ⟨x, hx.1, rfl⟩
  · intro db rp id t
    unfold deleteShardGroup
    split
    · exact StepOK.refl d
    · next dbi k r hg =>
      exact stepOK_setRP hk (getRP_find hg).1 (getRP_find hg).2 rfl (Rel.of_same rfl (fun n h => h))
  · intro db rp id
    unfold deleteIndexGroup
    split
    · exact StepOK.refl d
    · next dbi k r hg =>
      exact stepOK_setRP hk (getRP_find hg).1 (getRP_find hg).2 rfl (Rel.of_same rfl (fun n h => h))
  · intro s t db rp
    unfold updateShardInfoTier
    split
    · exact StepOK.refl d
    · next dbi k r hg =>
      split
      · exact stepOK_setRP hk (getRP_find hg).1 (getRP_find hg).2 rfl (Rel.of_same rfl (fun n h => h))
      · exact StepOK.refl d

theorem createIndexGroup_content (d : Data) (rp : RP) (t : Int) (e : Nat) :
    (createIndexGroup d rp t e).2.1.msts = rp.msts ∧ (createIndexGroup d rp t e).2.1.mstVersions = rp.mstVersions := by
  simp [createIndexGroup]

theorem indexGroupFor_content (d : Data) (rp : RP) (t : Int) (e : Nat) :
    (indexGroupFor d rp t e).2.1.msts = rp.msts ∧ (indexGroupFor d rp t e).2.1.mstVersions = rp.mstVersions := by
  unfold indexGroupFor
  split
  · split
    · simp
    · exact createIndexGroup_content d rp t e
  · exact createIndexGroup_content d rp t e

theorem step_createShardGroup (hk : KeysAreNames d) (pick db rp ts tier e v) : StepOK d (createShardGroup pick d db rp ts tier e v).1 := by
  unfold createShardGroup
  split
  · exact StepOK.refl d
  · split
    · exact StepOK.refl d
    · next dbi k r hg =>
      have hf := getRP_find hg
      split
      · exact StepOK.refl d
      · split
        · exact StepOK.refl d
        · next msti hp =>
          split
          · exact StepOK.refl d
          · have hdb := indexGroupFor_dbs d r ts e
            have hc := indexGroupFor_content d r ts e
            generalize indexGroupFor d r ts e = x at hdb hc
            obtain ⟨d1, r1, ig⟩ := x
            simp only at hdb hc ⊢
            refine stepOK_setRP (d' := _) hk hf.1 hf.2 (by simpa using hdb) (Rel.of_same ?_ ?_)
            · simpa using hc.2
            · intro n h
              simpa [RP.names, hc.1] using h

theorem lookupRP_mapRPs (f : DB → RP → RP) (d : Data) (db k : String) :
    lookupRP (mapRPs f d) db k = (alFind db d.databases).bind fun x => (alFind k x.rps).map (f x) := by
  unfold lookupRP mapRPs
  simp only
  have h1 := alFind_map_val (fun (_ : String) (x : DB) => ({ x with rps := x.rps.map fun (rk, rp) => (rk, f x rp) } : DB)) db d.databases
  simp only at h1
  rw [h1]
  cases hf : alFind db d.databases with
  | none => rfl
  | some x =>
    simp only [Option.map_some, Option.bind_some]
    exact alFind_map_val (fun (_ : String) (rp : RP) => f x rp) k x.rps

theorem step_mapRPs (f : DB → RP → RP) (hf : ∀ db rp, Rel rp (f db rp)) : StepOK d (mapRPs f d) := by
  intro db k rp rp' _ h1 h2
  rw [lookupRP_mapRPs] at h2
  unfold lookupRP at h1
  cases hx : alFind db d.databases with
  | none => simp [hx] at h1
  | some x =>
    simp only [hx, Option.bind_some] at h1 h2
    rw [h1] at h2
    simp only [Option.map_some] at h2
    cases h2
    exact hf x rp

/-- **every command** relates the policies it leaves in place -/
theorem stepOK_applyP (pick : Nat) (hk : KeysAreNames d) (hs : KS d) (hw : NoWrap d) (c : Cmd) : StepOK d (applyP pick d c).1 := by
  have hc := step_setRP_cmds hk hw pick
  cases c with
  | createDatabase n rp rep => exact step_createDatabase hk n rp rep
  | dropDatabase n => exact step_dropDatabase hs n
  | markDatabaseDelete n => exact step_markDatabaseDelete hk n
  | createRetentionPolicy db s md => exact step_createRetentionPolicy hk db s md
  | dropRetentionPolicy db rp => exact step_dropRetentionPolicy hk hs db rp
  | markRetentionPolicyDelete db rp => exact hc.1 db rp
  | setDefaultRetentionPolicy db rp => exact step_setDefaultRetentionPolicy hk db rp
  | updateRetentionPolicy db rp u => exact step_updateRetentionPolicy hk hs db rp u
  | createMeasurement db rp m ski e fs => exact hc.2.1 db rp m ski e fs
  | alterShardKey db rp m ski => exact hc.2.2.1 db rp m ski
  | updateSchema db rp m fs => exact hc.2.2.2.1 db rp m fs
  | markMeasurementDelete db rp m => exact hc.2.2.2.2.1 db rp m
  | dropMeasurement db rp m => exact hc.2.2.2.2.2.1 db rp m
  | createShardGroup db rp ts tier e v => exact step_createShardGroup hk pick db rp ts tier e v
  | deleteShardGroup db rp id t => exact hc.2.2.2.2.2.2.1 db rp id t
  | deleteIndexGroup db rp id => exact hc.2.2.2.2.2.2.2.1 db rp id
  | pruneGroups sg id =>
    simp only [applyP]; unfold pruneGroups
    split
    · exact step_mapRPs _ (fun db rp => rel_pruneShardGroupsRP id db.markDeleted rp)
    · exact step_mapRPs (fun _ rp => { rp with indexGroups := pruneIGs id rp.indexGroups }) (fun _ _ => Rel.of_same rfl (fun n h => h))
  | createDataNode hh t r =>
    simp only [applyP]; unfold createDataNode
    split
    · exact stepOK_of_dbs_eq rfl
    · simp only
      repeat' split
      all_goals exact stepOK_of_dbs_eq rfl
  | createDbPtView db =>
    simp only [applyP]; unfold createDbPtView
    split
    · exact StepOK.refl d
    · simp only
      split
      · exact StepOK.refl d
      · exact stepOK_of_dbs_eq rfl
  | updateShardInfoTier s t db rp => exact hc.2.2.2.2.2.2.2.2 s t db rp
  | createUser n hh a rw =>
    simp only [applyP]; unfold createUser
    repeat' split
    all_goals first | exact StepOK.refl d | exact stepOK_of_dbs_eq rfl
  | dropUser n =>
    simp only [applyP]; unfold dropUser
    repeat' split
    all_goals first | exact StepOK.refl d | exact stepOK_of_dbs_eq rfl
  | updateUser n hh =>
    simp only [applyP]; unfold updateUser
    repeat' split
    all_goals first | exact StepOK.refl d | exact stepOK_of_dbs_eq rfl
  | setPrivilege u db p =>
    simp only [applyP]; unfold setPrivilege
    repeat' split
    all_goals first | exact StepOK.refl d | exact stepOK_of_dbs_eq rfl
  | setAdminPrivilege u a =>
    simp only [applyP]; unfold setAdminPrivilege
    split <;> exact StepOK.refl d

end OG.C16
