/-
C16 — invariants of the state the second model layer adds (OG/Meta/Model2.lean): streams are
stored under unique names, carry pairwise different ids, all below `MaxStreamID`; the change
counters never go back.
-/
import OG.Meta.Model2

namespace OG.C16
open OG.Meta

structure StreamsOK (e : Ext) : Prop where
  sorted : e.streams.Pairwise (fun a b => a.name < b.name)
  below : ∀ s ∈ e.streams, s.id < e.maxStreamID
  ids : e.streams.Pairwise (fun a b => a.id ≠ b.id)

theorem streamsOK_init : StreamsOK Ext.init := ⟨by simp [Ext.init], by simp [Ext.init], by simp [Ext.init]⟩

theorem mem_streamInsert {s y : Stream} : ∀ {l : List Stream}, y ∈ streamInsert s l → y = s ∨ y ∈ l
  | [], h => by simp [streamInsert] at h; exact Or.inl h
  | x :: rest, h => by
    unfold streamInsert at h
    split at h
    · rcases List.mem_cons.1 h with h | h
      · exact Or.inl h
      · exact Or.inr (List.mem_cons_of_mem _ h)
    · split at h
      · rcases List.mem_cons.1 h with h | h
        · exact Or.inl h
        · exact Or.inr h
      · rcases List.mem_cons.1 h with h | h
        · exact Or.inr (h ▸ List.mem_cons_self)
        · rcases mem_streamInsert h with h | h
          · exact Or.inl h
          · exact Or.inr (List.mem_cons_of_mem _ h)

theorem str_lt_of_not' {a b : String} (h1 : ¬ a = b) (h2 : ¬ a < b) : b < a :=
  Std.lt_of_le_of_ne h2 fun e => h1 e.symm

theorem sorted_streamInsert (s : Stream) : ∀ {l : List Stream}, l.Pairwise (fun a b => a.name < b.name) →
    (streamInsert s l).Pairwise (fun a b => a.name < b.name)
  | [], _ => by simp [streamInsert]
  | x :: rest, h => by
    rw [List.pairwise_cons] at h
    unfold streamInsert
    split
    · next he =>
      rw [List.pairwise_cons]
      exact ⟨fun y hy => by rw [← he]; exact h.1 y hy, h.2⟩
    · split
      · next hne hlt =>
        rw [List.pairwise_cons]
        refine ⟨?_, List.pairwise_cons.2 h⟩
        intro y hy
        rcases List.mem_cons.1 hy with rfl | hy
        · exact hlt
        · exact String.lt_trans hlt (h.1 y hy)
      · next hne hlt =>
        rw [List.pairwise_cons]
        refine ⟨?_, sorted_streamInsert s h.2⟩
        intro y hy
        rcases mem_streamInsert hy with rfl | hy
        · exact str_lt_of_not' (fun e => hne e.symm) hlt
        · exact h.1 y hy

/-- inserting a stream whose id differs from every id present keeps the ids pairwise different
(an entry of the same name is replaced) -/
theorem ids_streamInsert (s : Stream) : ∀ {l : List Stream}, l.Pairwise (fun a b => a.id ≠ b.id) → (∀ y ∈ l, y.id ≠ s.id) →
    (streamInsert s l).Pairwise (fun a b => a.id ≠ b.id)
  | [], _, _ => by simp [streamInsert]
  | x :: rest, h, hne => by
    rw [List.pairwise_cons] at h
    unfold streamInsert
    split
    · rw [List.pairwise_cons]
      exact ⟨fun y hy => (hne y (List.mem_cons_of_mem _ hy)).symm, h.2⟩
    · split
      · rw [List.pairwise_cons]
        exact ⟨fun y hy => (hne y hy).symm, List.pairwise_cons.2 h⟩
      · rw [List.pairwise_cons]
        refine ⟨?_, ids_streamInsert s h.2 (fun y hy => hne y (List.mem_cons_of_mem _ hy))⟩
        intro y hy
        rcases mem_streamInsert hy with rfl | hy
        · exact hne x List.mem_cons_self
        · exact h.1 y hy

theorem streamsOK_createStream {d : Data2} (h : StreamsOK d.ext) (s : Stream) : StreamsOK (createStream d s).1.ext := by
  have key : StreamsOK { d.ext with streams := streamInsert { s with id := d.ext.maxStreamID } d.ext.streams, maxStreamID := d.ext.maxStreamID + 1 } := by
    refine ⟨sorted_streamInsert _ h.sorted, ?_, ids_streamInsert _ h.ids (fun y hy => Nat.ne_of_lt (h.below y hy))⟩
    intro y hy
    rcases mem_streamInsert hy with rfl | hy
    · exact Nat.lt_succ_self _
    · exact Nat.lt_succ_of_lt (h.below y hy)
  unfold createStream
  split
  · split
    · exact h
    · exact key
  · exact key

theorem streamsOK_dropStream {d : Data2} (h : StreamsOK d.ext) (n : String) : StreamsOK (dropStream d n).1.ext := by
  unfold dropStream
  split
  · exact ⟨h.sorted.filter _, fun s hs => h.below s (List.mem_filter.1 hs).1, h.ids.filter _⟩
  · exact h

/-- a command that leaves the streams and their counter alone -/
theorem streamsOK_frame {e e' : Ext} (h : StreamsOK e) (h1 : e'.streams = e.streams) (h2 : e'.maxStreamID = e.maxStreamID) : StreamsOK e' :=
  ⟨by rw [h1]; exact h.sorted, by rw [h1, h2]; exact h.below, by rw [h1]; exact h.ids⟩

theorem syncExt_streams (old : Data) (c : Cmd) (r : Result) (e : Ext) :
    (syncExt old c r e).streams = e.streams ∧ (syncExt old c r e).maxStreamID = e.maxStreamID := by
  unfold syncExt
  repeat' split
  all_goals exact ⟨rfl, rfl⟩

theorem streamsOK_apply2P (pick : Nat) {d : Data2} (h : StreamsOK d.ext) (c : Cmd2) : StreamsOK (apply2P pick d c).1.ext := by
  cases c with
  | base c =>
    simp only [apply2P]
    split
    · exact h
    · exact streamsOK_frame h (syncExt_streams _ _ _ _).1 (syncExt_streams _ _ _ _).2
  | createStream s => exact streamsOK_createStream h s
  | dropStream n => exact streamsOK_dropStream h n
  | updateIndexInfoTier i t db rp => exact h
  | updatePtVersion db pt => exact h
  | reSharding db rp id t n => exact h
  | expandGroups => exact h
  | markTakeover b => exact streamsOK_frame h rfl rfl
  | markBalancer b => exact streamsOK_frame h rfl rfl
  | createSubscription n db rp =>
    simp only [apply2P]; unfold createSubscription; simp only
    repeat' split
    all_goals first | exact h | exact streamsOK_frame h rfl rfl
  | dropSubscription n db rp =>
    simp only [apply2P]; unfold dropSubscription; simp only
    repeat' split
    all_goals first | exact h | exact streamsOK_frame h rfl rfl
  | createContinuousQuery db n q =>
    simp only [apply2P]; unfold createContinuousQuery; simp only
    repeat' split
    all_goals first | exact h | exact streamsOK_frame h rfl rfl
  | dropContinuousQuery n db =>
    simp only [apply2P]; unfold dropContinuousQuery; simp only
    repeat' split
    all_goals first | exact h | exact streamsOK_frame h rfl rfl
  | continuousQueryReport n t => exact streamsOK_frame h rfl rfl

theorem streamsOK_applyAll2 {d : Data2} (h : StreamsOK d.ext) : ∀ cs : List Cmd2, StreamsOK (applyAll2 d cs).ext
  | [] => h
  | c :: cs => streamsOK_applyAll2 (streamsOK_apply2P 0 h c) cs

/-- **T14** in every state reachable with the 38 command types the streams carry unique names,
pairwise different ids, all below `MaxStreamID` (an equal stream created again *replaces* the old
one under a new id — the old id is never handed out again). -/
theorem streams_invariant (log : List Cmd2) : StreamsOK (applyAll2 Data2.init log).ext :=
  streamsOK_applyAll2 (d := Data2.init) streamsOK_init log

/-- the change counters of the second layer never go back -/
theorem ext_counters_monotone (pick : Nat) (d : Data2) (c : Cmd2) :
    d.ext.maxStreamID ≤ (apply2P pick d c).1.ext.maxStreamID ∧ d.ext.maxSubscriptionID ≤ (apply2P pick d c).1.ext.maxSubscriptionID ∧
    d.ext.maxCQChangeID ≤ (apply2P pick d c).1.ext.maxCQChangeID := by
  cases c with
  | base c =>
    simp only [apply2P]
    split
    · exact ⟨Nat.le_refl _, Nat.le_refl _, Nat.le_refl _⟩
    · simp only [syncExt]
      repeat' split
      all_goals (refine ⟨?_, ?_, ?_⟩ <;> simp <;> try omega)
  | createStream s =>
    simp only [apply2P]; unfold createStream
    repeat' split
    all_goals (refine ⟨?_, ?_, ?_⟩ <;> simp)
  | dropStream n =>
    simp only [apply2P]; unfold dropStream
    split <;> exact ⟨Nat.le_refl _, Nat.le_refl _, Nat.le_refl _⟩
  | updateIndexInfoTier i t db rp => exact ⟨Nat.le_refl _, Nat.le_refl _, Nat.le_refl _⟩
  | updatePtVersion db pt => exact ⟨Nat.le_refl _, Nat.le_refl _, Nat.le_refl _⟩
  | reSharding db rp id t n => exact ⟨Nat.le_refl _, Nat.le_refl _, Nat.le_refl _⟩
  | expandGroups => exact ⟨Nat.le_refl _, Nat.le_refl _, Nat.le_refl _⟩
  | markTakeover b => exact ⟨Nat.le_refl _, Nat.le_refl _, Nat.le_refl _⟩
  | markBalancer b => exact ⟨Nat.le_refl _, Nat.le_refl _, Nat.le_refl _⟩
  | createSubscription n db rp =>
    simp only [apply2P]; unfold createSubscription; simp only
    repeat' split
    all_goals (refine ⟨?_, ?_, ?_⟩ <;> simp)
  | dropSubscription n db rp =>
    simp only [apply2P]; unfold dropSubscription; simp only
    repeat' split
    all_goals (refine ⟨?_, ?_, ?_⟩ <;> simp)
  | createContinuousQuery db n q =>
    simp only [apply2P]; unfold createContinuousQuery; simp only
    repeat' split
    all_goals (refine ⟨?_, ?_, ?_⟩ <;> simp)
  | dropContinuousQuery n db =>
    simp only [apply2P]; unfold dropContinuousQuery; simp only
    repeat' split
    all_goals (refine ⟨?_, ?_, ?_⟩ <;> simp)
  | continuousQueryReport n t => exact ⟨Nat.le_refl _, Nat.le_refl _, Nat.le_refl _⟩

end OG.C16
