/-
C16 — `ExpandGroups` keeps the conditional clauses of WF: the spans, the deletion stamps and the
engine kinds of the shard groups are untouched (`aligned`, `disjoint`), every new shard gets the
index of its own partition from an index group that has one for every partition, and a group
never has more shards than there are partitions (`refs`).
-/
import OG.C16.Step2
import OG.C16.Props3

namespace OG.C16
open OG.Meta

/-! ### aligned / disjoint only look at the span, the stamp and the engine kind -/

def core (g : SG) : Int × Int × Bool × Nat := (g.start, g.stop, g.deleted, g.engine)

def CompatC (a b : Int × Int × Bool × Nat) : Prop :=
  a.2.2.1 = false → b.2.2.1 = false → a.2.2.2 ≠ b.2.2.2 ∨ a.2.1 ≤ b.1 ∨ b.2.1 ≤ a.1

theorem gok_of_core {r r' : RP} (h : GOK r) (h1 : r'.shardGroups.map core = r.shardGroups.map core) (h2 : r'.sgDuration = r.sgDuration) :
    GOK r' := by
  refine ⟨by rw [h2]; exact h.durPos, ?_, ?_⟩
  · intro g' hg' hl
    have : core g' ∈ r.shardGroups.map core := h1 ▸ List.mem_map_of_mem hg'
    obtain ⟨g, hg, e⟩ := List.mem_map.1 this
    simp only [core, Prod.mk.injEq] at e
    have ha := h.aligned g hg (by rw [e.2.2.1]; exact hl)
    unfold AlignedG at ha ⊢
    rw [h2, ← e.1, ← e.2.1]; exact ha
  · have hc : (r.shardGroups.map core).Pairwise CompatC := List.pairwise_map.2 (h.compat.imp fun hab => hab)
    rw [← h1] at hc
    exact (List.pairwise_map.1 hc).imp fun hab => hab

/-! ### the threading -/

def IdxSub (r r' : RP) : Prop := ∀ x ∈ rpIndexIds r, x ∈ rpIndexIds r'

theorem IdxSub.refl (r : RP) : IdxSub r r := fun _ h => h
theorem IdxSub.trans {a b c : RP} (h1 : IdxSub a b) (h2 : IdxSub b c) : IdxSub a c := fun x h => h2 x (h1 x h)

theorem igf_keep (d : Data) (r : RP) (t : Int) (e : Nat) :
    (indexGroupFor d r t e).2.1.sgDuration = r.sgDuration ∧ (indexGroupFor d r t e).2.1.shardGroups = r.shardGroups ∧
    IdxSub r (indexGroupFor d r t e).2.1 := by
  refine ⟨?_, ?_, ?_⟩
  · unfold indexGroupFor
    repeat' split
    all_goals simp [createIndexGroup]
  · unfold indexGroupFor
    repeat' split
    all_goals simp [createIndexGroup]
  · intro x hx
    obtain ⟨g, hg, i, hi, e'⟩ := mem_rpIndexIds.1 hx
    exact mem_rpIndexIds.2 ⟨g, (indexGroupFor_ig d r t e).2.2.1 g hg, i, hi, e'⟩

/-- a shard is an old one or refers to an index of the policy and to partitions that exist -/
def ShardFine (ptNum : Nat) (r' : RP) (old : List Shard) (s : Shard) : Prop :=
  s ∈ old ∨ (s.indexID ∈ rpIndexIds r' ∧ ∀ o ∈ s.owners, o < ptNum)

theorem expandSG_keep : ∀ (n : Nat) (d : Data) (r : RP) (g : SG) (d' : Data) (r' : RP) (g' : SG), expandSG n d r g = some (d', r', g') →
    (n = 0 ∨ n + g.shards.length ≤ d.clusterPtNum) →
    core g' = core g ∧ r'.sgDuration = r.sgDuration ∧ IdxSub r r' ∧ d'.clusterPtNum = d.clusterPtNum ∧
    (∀ s ∈ g'.shards, ShardFine d.clusterPtNum r' g.shards s) ∧ g'.shards.length = g.shards.length + n
  | 0, d, r, g, d', r', g', h, _ => by
    simp only [expandSG, Option.some.injEq, Prod.mk.injEq] at h
    obtain ⟨rfl, rfl, rfl⟩ := h
    exact ⟨rfl, rfl, IdxSub.refl _, rfl, fun s hs => Or.inl hs, rfl⟩
  | n + 1, d, r, g, d', r', g', h, hn => by
    have hlen : n + 1 + g.shards.length ≤ d.clusterPtNum := by rcases hn with hn | hn <;> omega
    unfold expandSG at h
    split at h
    · cases h
    · next prev hprev =>
      simp only at h
      have hk := igf_keep d r g.start g.engine
      have hig := indexGroupFor_ig d r g.start g.engine
      generalize indexGroupFor d r g.start g.engine = x at hk hig h
      obtain ⟨d1, r1, ig⟩ := x
      simp only at hk hig h
      obtain ⟨a1, a2, a3, a4, a5, a6⟩ := expandSG_keep n _ _ _ _ _ _ h (Or.inr (by
        simp only [List.length_append, List.length_singleton]
        rw [hig.2.2.2]; omega))
      simp only at a4
      refine ⟨a1, a2.trans hk.1, hk.2.2.trans a3, a4.trans hig.2.2.2, ?_, by
        rw [a6]; simp only [List.length_append, List.length_singleton]; omega⟩
      intro s hs
      rcases a5 s hs with hold | hnew
      · rcases List.mem_append.1 hold with hold | hold
        · exact Or.inl hold
        · right
          rw [List.mem_singleton] at hold
          subst hold
          simp only
          refine ⟨?_, ?_⟩
          · obtain ⟨x, hx, e⟩ := nthIndexID_mem (ig := ig) (i := g.shards.length) (by omega)
            exact a3 _ (mem_rpIndexIds.2 ⟨ig, hig.1, x, hx, e⟩)
          · intro o ho
            rw [List.mem_singleton] at ho
            omega
      · right
        refine ⟨hnew.1, ?_⟩
        intro o ho
        have := hnew.2 o ho
        simp only at this
        rw [hig.2.2.2] at this
        exact this

theorem expandSGs_keep : ∀ (d : Data) (r : RP) (gs : List SG) (d' : Data) (r' : RP) (gs' : List SG), expandSGs d r gs = some (d', r', gs') →
    gs'.map core = gs.map core ∧ r'.sgDuration = r.sgDuration ∧ IdxSub r r' ∧ d'.clusterPtNum = d.clusterPtNum ∧
    ∀ g' ∈ gs', ∃ g ∈ gs, (∀ s ∈ g'.shards, ShardFine d.clusterPtNum r' g.shards s) ∧
      g'.shards.length = g.shards.length + (d.clusterPtNum - g.shards.length)
  | d, r, [], d', r', gs', h => by
    simp only [expandSGs, Option.some.injEq, Prod.mk.injEq] at h
    obtain ⟨rfl, rfl, rfl⟩ := h
    exact ⟨rfl, rfl, IdxSub.refl _, rfl, by simp⟩
  | d, r, g :: rest, d', r', gs', h => by
    unfold expandSGs at h
    split at h
    · cases h
    · next d1 r1 g1 h1 =>
      split at h
      · cases h
      · next d2 r2 gs2 h2 =>
        cases h
        obtain ⟨a1, a2, a3, a4, a5, a6⟩ := expandSG_keep _ _ _ _ _ _ _ h1 (by omega)
        obtain ⟨b1, b2, b3, b4, b5⟩ := expandSGs_keep _ _ _ _ _ _ h2
        refine ⟨by simp [a1, b1], b2.trans a2, a3.trans b3, b4.trans a4, ?_⟩
        intro g' hg'
        rcases List.mem_cons.1 hg' with rfl | hg'
        · refine ⟨g, List.mem_cons_self, ?_, a6⟩
          intro s hs
          rcases a5 s hs with h | h
          · exact Or.inl h
          · exact Or.inr ⟨b3 _ h.1, h.2⟩
        · obtain ⟨g0, hg0, c1, c2⟩ := b5 g' hg'
          rw [a4] at c1 c2
          exact ⟨g0, List.mem_cons_of_mem _ hg0, c1, c2⟩

theorem expandIGs_sub (ptNum : Nat) : ∀ (maxIdx : Nat) (igs : List IG) (x : Nat),
    x ∈ (igs.flatMap fun g => g.indexes.map (·.id)) → x ∈ ((expandIGs ptNum maxIdx igs).2.flatMap fun g => g.indexes.map (·.id))
  | _, [], x, h => h
  | maxIdx, g :: rest, x, h => by
    unfold expandIGs
    simp only [List.flatMap_cons, List.mem_append, List.map_append] at h ⊢
    rcases h with h | h
    · exact Or.inl (Or.inl h)
    · exact Or.inr (expandIGs_sub ptNum _ rest x h)

/-- what one policy keeps through the expansion -/
def Keeps (n : Nat) (r r' : RP) : Prop := (GOK r → GOK r') ∧ (RefsOK n r → RefsOK n r')

theorem expandRP_keep (d : Data) (r : RP) (d' : Data) (r' : RP) (h : expandRP d r = some (d', r')) :
    Keeps d.clusterPtNum r r' ∧ d'.clusterPtNum = d.clusterPtNum := by
  unfold expandRP at h
  split at h
  · simp only [Option.some.injEq, Prod.mk.injEq] at h
    obtain ⟨rfl, rfl⟩ := h
    exact ⟨⟨id, id⟩, rfl⟩
  · simp only at h
    have hsub := expandIGs_sub d.clusterPtNum d.maxIndexID r.indexGroups
    generalize expandIGs d.clusterPtNum d.maxIndexID r.indexGroups = x at hsub h
    obtain ⟨mi, igs⟩ := x
    simp only at hsub h
    split at h
    · cases h
    · next d2 r2 sgs h2 =>
      simp only [Option.some.injEq, Prod.mk.injEq] at h
      obtain ⟨rfl, rfl⟩ := h
      obtain ⟨b1, b2, b3, b4, b5⟩ := expandSGs_keep _ _ _ _ _ _ h2
      simp only at b1 b2 b4 b5
      refine ⟨⟨?_, ?_⟩, b4⟩
      · intro hg
        exact gok_of_core hg b1 b2
      · intro hr
        have hsub2 : ∀ x ∈ rpIndexIds r, x ∈ rpIndexIds r2 := fun x hx => b3 x (hsub x hx)
        refine ⟨?_, ?_, ?_⟩
        · intro g' hg' s hs
          obtain ⟨g, hg, c1, _⟩ := b5 g' hg'
          rcases c1 s hs with h | h
          · exact hsub2 _ (hr.index g hg s h)
          · exact h.1
        · intro g' hg' s hs
          obtain ⟨g, hg, c1, _⟩ := b5 g' hg'
          rcases c1 s hs with h | h
          · exact hr.owners g hg s h
          · exact h.2
        · intro g' hg'
          obtain ⟨g, hg, _, c2⟩ := b5 g' hg'
          have := hr.len g hg
          omega

theorem expandRPs_keep : ∀ (d : Data) (rps : List (String × RP)) (d' : Data) (rps' : List (String × RP)), expandRPs d rps = some (d', rps') →
    d'.clusterPtNum = d.clusterPtNum ∧ ∀ kr' ∈ rps', ∃ kr ∈ rps, Keeps d.clusterPtNum kr.2 kr'.2
  | d, [], d', rps', h => by
    simp only [expandRPs, Option.some.injEq, Prod.mk.injEq] at h
    obtain ⟨rfl, rfl⟩ := h
    exact ⟨rfl, by simp⟩
  | d, (k, r) :: rest, d', rps', h => by
    unfold expandRPs at h
    split at h
    · cases h
    · next d1 r1 h1 =>
      split at h
      · cases h
      · next d2 rs h2 =>
        cases h
        obtain ⟨a1, a2⟩ := expandRP_keep _ _ _ _ h1
        obtain ⟨b1, b2⟩ := expandRPs_keep _ _ _ _ h2
        refine ⟨b1.trans a2, ?_⟩
        intro kr' hkr'
        rcases List.mem_cons.1 hkr' with rfl | hkr'
        · exact ⟨(k, r), List.mem_cons_self, a1⟩
        · obtain ⟨kr, hkr, c⟩ := b2 kr' hkr'
          rw [a2] at c
          exact ⟨kr, List.mem_cons_of_mem _ hkr, c⟩

theorem expandDBs_keep : ∀ (d : Data) (dbs : List (String × DB)) (d' : Data) (dbs' : List (String × DB)), expandDBs d dbs = some (d', dbs') →
    d'.clusterPtNum = d.clusterPtNum ∧
    ∀ r' ∈ (dbs'.flatMap fun p => p.2.rps.map (·.2)), ∃ r ∈ (dbs.flatMap fun p => p.2.rps.map (·.2)), Keeps d.clusterPtNum r r'
  | d, [], d', dbs', h => by
    simp only [expandDBs, Option.some.injEq, Prod.mk.injEq] at h
    obtain ⟨rfl, rfl⟩ := h
    exact ⟨rfl, by simp⟩
  | d, (k, db) :: rest, d', dbs', h => by
    unfold expandDBs at h
    split at h
    · cases h
    · next d1 rps h1 =>
      split at h
      · cases h
      · next d2 dbs2 h2 =>
        cases h
        obtain ⟨a1, a2⟩ := expandRPs_keep _ _ _ _ h1
        obtain ⟨b1, b2⟩ := expandDBs_keep _ _ _ _ h2
        refine ⟨b1.trans a1, ?_⟩
        intro r' hr'
        simp only [List.flatMap_cons, List.mem_append, List.mem_map] at hr' ⊢
        rcases hr' with ⟨kr', hkr', rfl⟩ | hr'
        · obtain ⟨kr, hkr, c⟩ := a2 kr' hkr'
          exact ⟨kr.2, Or.inl ⟨kr, hkr, rfl⟩, c⟩
        · obtain ⟨r0, hr0, c⟩ := b2 r' hr'
          rw [a1] at c
          exact ⟨r0, Or.inr hr0, c⟩

/-- **ExpandGroups keeps the strong invariant** -/
theorem strong_expandGroups {d : Data} (h : StrongInv d) : StrongInv (expandGroups d).1 := by
  have hf := stepFacts_expandGroups d
  refine ⟨hf.inv h.inv, hf.defs h.defs h.keys, hf.kn h.keys, ?_, ?_⟩
  · unfold expandGroups
    split
    · exact h.groups
    · next d1 dbs hx =>
      obtain ⟨_, hk⟩ := expandDBs_keep _ _ _ _ hx
      intro rp hrp
      simp only [done] at hrp
      obtain ⟨r0, hr0, c⟩ := hk rp hrp
      exact c.1 (h.groups r0 hr0)
  · unfold expandGroups
    split
    · exact h.refs
    · next d1 dbs hx =>
      obtain ⟨hpt, hk⟩ := expandDBs_keep _ _ _ _ hx
      intro rp hrp
      simp only [done] at hrp ⊢
      obtain ⟨r0, hr0, c⟩ := hk rp hrp
      rw [hpt]
      exact c.2 (h.refs r0 hr0)

end OG.C16
