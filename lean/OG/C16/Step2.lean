/-
C16 — the larger model (OG/Meta/Model2.lean): every per-step fact the log-level theorems rest on,
collected in `StepFacts`, proved for the 25 first-layer commands (from the existing theorems) and
for the new commands; then lifted to `apply2` / `applyAll2`.
-/
import OG.Meta.Model2
import OG.C16.Props3
import OG.C16.UsersPt
import OG.C16.IssuedCmds
import OG.C16.Expand

namespace OG.C16
open OG.Meta

/-- what one step does to the first-layer state, as far as the unconditional invariants and the
history theorems are concerned -/
structure StepFacts (d d' : Data) : Prop where
  kn : KeysAreNames d → KeysAreNames d'
  ks : KS d → KS d'
  defs : DefInv d → KeysAreNames d → DefInv d'
  uinv : UInv d → UInv d'
  pinv : PInv d → PInv d'
  stepOK : KeysAreNames d → KS d → NoWrap d → StepOK d d'
  inv : Inv d → Inv d'
  ctr : (ctr d).le (ctr d')
  fresh : ∀ P : IdPred, NewIdsAll P d → InvP P d → InvP P d'

theorem stepFacts_refl (d : Data) : StepFacts d d :=
  ⟨id, id, fun h _ => h, id, id, fun _ _ _ => StepOK.refl d, id, Ctr.le_refl _, fun _ _ h => h⟩

/-- the 25 commands of the first layer -/
theorem stepFacts_applyP (pick : Nat) (d : Data) (c : Cmd) : StepFacts d (applyP pick d c).1 :=
  ⟨fun h => kn_applyP pick h c, fun h => ks_applyP pick h c, fun h hk => def_applyP pick h hk c, fun h => uinv_applyP pick h c,
   fun h => pinv_applyP pick h c, fun hk hs hw => stepOK_applyP pick hk hs hw c, fun h => inv_applyP pick h c,
   counters_monotone_pick d pick c, fun _ hnew h => invP_applyP pick hnew.toNewIds h c⟩

/-! ### a command that replaces the policy it looked up by one with the same names, measurements,
counters — only the inside of its groups differs -/

theorem stepFacts_setRP_inner {d : Data} {db rp k : String} {dbi : DB} {r r' : RP} (hg : getRP d db rp = .ok (dbi, k, r))
    (hname : r'.name = r.name) (hmsts : r'.msts = r.msts) (hvers : r'.mstVersions = r.mstVersions)
    (hok : ∀ c, RPOk c r → RPOk c r') (hokP : ∀ P : IdPred, RPOkP P r → RPOkP P r') :
    StepFacts d (setRP d dbi k r') := by
  have h := getRP_ok hg
  have hf := getRP_find hg
  refine ⟨?_, ?_, ?_, ?_, ?_, ?_, ?_, Ctr.le_refl _, ?_⟩
  · intro hk; exact kn_setRP hk h.1 (by rw [hname]; exact (hk _ h.1).2 _ h.2.1)
  · intro hs; exact ks_setRP hs rfl h.1 (by rw [hmsts]; exact hs.msts _ h.1 _ h.2.1)
  · intro hd _; exact defInv_setRP hd rfl h.1
  · intro hu; exact uinv_frame hu rfl (keysKept_setRP _ _ _ rfl)
  · intro hp; exact pinv_frame hp rfl
  · intro hk _ _; exact stepOK_setRP hk hf.1 hf.2 rfl (Rel.of_same hvers (fun n hn => by simpa [RP.names, hmsts] using hn))
  · intro hinv; exact inv_setRP hinv rfl rfl (Ctr.le_refl _) h.1 (hok _ (rpok_of_getRP hinv hg))
  · intro P _ hinv; exact invP_setRP hinv rfl rfl h.1 (hokP P (rpokP_of_getRP hinv hg))

/-! ### UpdateIndexInfoTier -/

theorem tierIGs_mem {igs : List IG} {id t : Nat} {g : IG}
    (hg : g ∈ updFirst (fun g => g.indexes.any (·.id = id))
      (fun g => { g with indexes := updFirst (·.id = id) (fun x => { x with tier := t }) g.indexes }) igs) :
    ∃ g0 ∈ igs, g.id = g0.id ∧ g.start = g0.start ∧ g.stop = g0.stop ∧ g.deleted = g0.deleted ∧ g.engine = g0.engine ∧
      g.indexes.length = g0.indexes.length ∧ ∀ x ∈ g.indexes, ∃ x0 ∈ g0.indexes, x.id = x0.id := by
  rcases mem_updFirst hg with hg | ⟨z, hz, rfl⟩
  · exact ⟨g, hg, rfl, rfl, rfl, rfl, rfl, rfl, fun x hx => ⟨x, hx, rfl⟩⟩
  · refine ⟨z, hz, rfl, rfl, rfl, rfl, rfl, by simp [length_updFirst], ?_⟩
    intro x hx
    simp only at hx
    rcases mem_updFirst hx with hx | ⟨y, hy, rfl⟩
    · exact ⟨x, hx, rfl⟩
    · exact ⟨y, hy, rfl⟩

theorem stepFacts_updateIndexInfoTier (d : Data) (id t : Nat) (db rp : String) : StepFacts d (updateIndexInfoTier d id t db rp).1 := by
  unfold updateIndexInfoTier
  split
  · exact stepFacts_refl d
  · next dbi k r hg =>
    split
    · simp only [done]
      refine stepFacts_setRP_inner (r' := { r with indexGroups := _ }) hg rfl rfl rfl ?_ ?_
      · intro c h
        refine ⟨h.sgBound, h.shardBound, ?_, ?_, h.mstBound, h.sorted⟩
        · intro g hgm
          obtain ⟨g0, hg0, e, _⟩ := tierIGs_mem hgm
          rw [e]; exact h.igBound g0 hg0
        · intro g hgm x hx
          obtain ⟨g0, hg0, _, _, _, _, _, _, hidx⟩ := tierIGs_mem hgm
          obtain ⟨x0, hx0, e⟩ := hidx x hx
          rw [e]; exact h.idxBound g0 hg0 x0 hx0
      · intro P h
        refine ⟨h.sgB, h.shardB, ?_, ?_, h.mstB⟩
        · intro g hgm
          obtain ⟨g0, hg0, e, _⟩ := tierIGs_mem hgm
          rw [e]; exact h.igB g0 hg0
        · intro g hgm x hx
          obtain ⟨g0, hg0, _, _, _, _, _, _, hidx⟩ := tierIGs_mem hgm
          obtain ⟨x0, hx0, e⟩ := hidx x hx
          rw [e]; exact h.idxB g0 hg0 x0 hx0
    · exact stepFacts_refl d

/-! ### UpdatePtVersion -/

theorem ptNumbered_set : ∀ (k : Nat) (v : List Pt) (i : Nat) (p : Pt), (∀ q, v[i]? = some q → p.ptId = q.ptId) →
    ptNumbered k (v.set i p) = ptNumbered k v
  | _, [], _, _, _ => rfl
  | k, q :: rest, 0, p, h => by
    have := h q rfl
    simp [ptNumbered, this]
  | k, q :: rest, i + 1, p, h => by
    simp only [List.set_cons_succ, ptNumbered]
    rw [ptNumbered_set (k + 1) rest i p (fun q' hq' => h q' (by simpa using hq'))]

theorem stepFacts_updatePtVersion (d : Data) (db : String) (pt : Nat) : StepFacts d (updatePtVersion d db pt).1 := by
  unfold updatePtVersion
  split
  · exact stepFacts_refl d
  · next v hv =>
    split
    · exact stepFacts_refl d
    · next p hp =>
      split
      · exact stepFacts_refl d
      · simp only [done]
        refine ⟨fun hk => kn_of_dbs_eq rfl hk, fun hs => ks_of_eq hs rfl, fun hd _ => defInv_of_eq hd rfl,
          fun hu => uinv_frame hu rfl (keysKept_of_eq rfl), ?_, fun _ _ _ => stepOK_of_dbs_eq rfl,
          fun hinv => inv_of_eq hinv rfl rfl (Ctr.le_refl _), Ctr.le_refl _, fun _ _ hinv => invP_of_eq hinv rfl rfl⟩
        intro hpi
        refine ⟨hpi.enough, ?_⟩
        intro w hw
        rcases mem_alInsert hw with rfl | hw
        · have hold := hpi.views (db, v) (alFind_mem hv)
          simp only at hold ⊢
          refine ⟨by simpa using hold.1, ?_, ?_⟩
          · rw [ptNumbered_set 0 v pt _ (fun q hq => by rw [hp] at hq; cases hq; rfl)]
            exact hold.2.1
          · intro q hq
            rcases List.mem_or_eq_of_mem_set hq with hq | rfl
            · exact hold.2.2 q hq
            · exact hold.2.2 p (List.mem_of_getElem? hp)
        · exact hpi.views w hw

/-! ### ReSharding -/

theorem boundShards_spec (fid tier : Nat) (ig : IG) : ∀ (n i : Nat) (l : List Shard), boundShards fid tier ig n i = some l →
    l.length = n ∧ ∀ s ∈ l, ∃ j, i ≤ j ∧ j < i + n ∧ s.id = fid + j ∧ s.owners = [j] ∧ ∃ x, ig.indexes[j]? = some x ∧ s.indexID = x.id
  | 0, i, l, h => by
    simp only [boundShards, Option.some.injEq] at h
    subst h; exact ⟨rfl, by simp⟩
  | n + 1, i, l, h => by
    unfold boundShards at h
    split at h
    · cases h
    · next x hx =>
      split at h
      · cases h
      · next rest hrest =>
        cases h
        obtain ⟨hl, hs⟩ := boundShards_spec fid tier ig n (i + 1) rest hrest
        refine ⟨by simp [hl], ?_⟩
        intro s hs'
        rcases List.mem_cons.1 hs' with rfl | hs'
        · exact ⟨i, Nat.le_refl _, by omega, rfl, rfl, x, hx, rfl⟩
        · obtain ⟨j, h1, h2, h3⟩ := hs s hs'
          exact ⟨j, by omega, by omega, h3⟩

theorem reshardIndexGroup_shape (d : Data) (r : RP) (a b : Int) :
    (reshardIndexGroup d r a b).1.databases = d.databases ∧ (reshardIndexGroup d r a b).1.dataNodes = d.dataNodes ∧
    ptPart (reshardIndexGroup d r a b).1 = ptPart d ∧ (reshardIndexGroup d r a b).1.users = d.users ∧
    (reshardIndexGroup d r a b).2.name = r.name ∧ (reshardIndexGroup d r a b).2.msts = r.msts ∧
    (reshardIndexGroup d r a b).2.mstVersions = r.mstVersions ∧ (reshardIndexGroup d r a b).2.shardGroups = r.shardGroups ∧
    (reshardIndexGroup d r a b).1.maxShardGroupID = d.maxShardGroupID ∧ (reshardIndexGroup d r a b).1.maxShardID = d.maxShardID := by
  simp [reshardIndexGroup, ptPart]

theorem reshardIndexGroup_ctr (d : Data) (r : RP) (a b : Int) : (ctr d).le (ctr (reshardIndexGroup d r a b).1) := by
  simp [reshardIndexGroup, Ctr.le, ctr]

theorem reshardIndexGroup_ok (d : Data) (r : RP) (a b : Int) (h : RPOk (ctr d) r) :
    (ctr d).le (ctr (reshardIndexGroup d r a b).1) ∧ RPOk (ctr (reshardIndexGroup d r a b).1) (reshardIndexGroup d r a b).2 := by
  unfold reshardIndexGroup
  simp only
  have hc : (ctr d).le (ctr { d with maxIndexGroupID := d.maxIndexGroupID + 1, maxIndexID := d.maxIndexID + d.clusterPtNum }) := by
    simp [Ctr.le, ctr]
  have h' := h.mono hc
  refine ⟨hc, h'.sgBound, h'.shardBound, ?_, ?_, h'.mstBound, h'.sorted⟩
  · intro g hg
    rcases mem_insertIG hg with rfl | hg
    · simp [ctr]
    · exact h'.igBound g hg
  · intro g hg x hx
    rcases mem_insertIG hg with rfl | hg
    · simp only [mkIndexes, List.mem_map, List.mem_range] at hx
      obtain ⟨i, hi, rfl⟩ := hx
      simp only [ctr]
      omega
    · exact h'.idxBound g hg x hx

theorem reshardIndexGroup_okP {P : IdPred} {d : Data} (hnew : NewIds P d) (r : RP) (a b : Int) (h : RPOkP P r) :
    RPOkP P (reshardIndexGroup d r a b).2 := by
  unfold reshardIndexGroup
  simp only
  refine ⟨h.sgB, h.shardB, ?_, ?_, h.mstB⟩
  · intro g hg
    rcases mem_insertIG hg with rfl | hg
    · exact hnew.ig
    · exact h.igB g hg
  · intro g hg x hx
    rcases mem_insertIG hg with rfl | hg
    · simp only [mkIndexes, List.mem_map, List.mem_range] at hx
      obtain ⟨i, _, rfl⟩ := hx
      exact hnew.idx i
    · exact h.idxB g hg x hx

theorem stepFacts_reSharding (d : Data) (db rp : String) (id : Nat) (t : Int) (n : Nat) : StepFacts d (reSharding d db rp id t n).1 := by
  unfold reSharding
  split
  · exact stepFacts_refl d
  · next dbi k r hg =>
    split
    · exact stepFacts_refl d
    · next last hlast =>
      split
      · exact stepFacts_refl d
      · split
        · exact stepFacts_refl d
        · simp only
          have hsh := reshardIndexGroup_shape d r (Wire.wrap64 (t + 1)) last.stop
          have hokk := reshardIndexGroup_ok d r (Wire.wrap64 (t + 1)) last.stop
          have hokP := fun (P : IdPred) (hnew : NewIdsAll P d) => reshardIndexGroup_okP hnew.toNewIds r (Wire.wrap64 (t + 1)) last.stop
          have hcs := reshardIndexGroup_ctr d r (Wire.wrap64 (t + 1)) last.stop
          generalize reshardIndexGroup d r (Wire.wrap64 (t + 1)) last.stop = x at hsh hokk hokP hcs
          obtain ⟨d1, r1⟩ := x
          simp only at hsh hokk hokP hcs ⊢
          obtain ⟨e1, e2, e3, e4, e5, e6, e7, e8, e9, e10⟩ := hsh
          split
          · exact stepFacts_refl d
          · exact stepFacts_refl d
          · next ig s0 _ _ =>
            split
            · exact stepFacts_refl d
            · next shards hshards =>
              obtain ⟨hlen, hspec⟩ := boundShards_spec _ _ _ _ _ _ hshards
              simp only [done]
              have h := getRP_ok hg
              have hf := getRP_find hg
              refine ⟨?_, ?_, ?_, ?_, ?_, ?_, ?_, ?_, ?_⟩
              · intro hk
                exact kn_setRP (kn_of_dbs_eq (by simpa using e1) hk) (by simpa [e1] using h.1) (by simp [e5]; exact (hk _ h.1).2 _ h.2.1)
              · intro hs
                exact ks_setRP (d' := _) hs (by simpa using e1) h.1 (by simp [e6]; exact hs.msts _ h.1 _ h.2.1)
              · intro hd _; exact defInv_setRP (d' := _) hd (by simpa using e1) h.1
              · intro hu; exact uinv_frame hu (by simpa [setRP, setDB] using e4) (keysKept_setRP (d' := _) _ _ _ (by simpa using e1))
              · intro hp; exact pinv_frame hp (by simpa [ptPart, setRP, setDB] using e3)
              · intro hk _ _
                exact stepOK_setRP (d' := _) hk hf.1 hf.2 (by simpa using e1)
                  (Rel.of_same (by simp [e7]) (fun nm hn => by simpa [RP.names, e6] using hn))
              · intro hinv
                have hrp := rpok_of_getRP hinv hg
                obtain ⟨hc1, hok1⟩ := hokk hrp
                have hc2 : (ctr d1).le (ctr { d1 with maxShardGroupID := d1.maxShardGroupID + 1, maxShardID := d1.maxShardID + (n + 1) }) := by
                  simp [Ctr.le, ctr]
                apply inv_setRP (d' := { d1 with maxShardGroupID := d1.maxShardGroupID + 1, maxShardID := d1.maxShardID + (n + 1) }) hinv
                  (by simpa using e1) (by simpa using e2) (Ctr.le_trans hc1 hc2) h.1
                have hok' := hok1.mono hc2
                refine ⟨?_, ?_, hok'.igBound, hok'.idxBound, hok'.mstBound, ?_⟩
                · intro g hgm
                  rcases mem_insertSG.1 hgm with rfl | hgm
                  · simp [ctr]
                  · exact hok'.sgBound g hgm
                · intro g hgm s hs
                  rcases mem_insertSG.1 hgm with rfl | hgm
                  · obtain ⟨j, _, hj, hid, _⟩ := hspec s hs
                    simp only [ctr]
                    omega
                  · exact hok'.shardBound g hgm s hs
                · rw [sortedRP_iff]
                  exact sorted_insertSG _ _ ((sortedRP_iff r1).1 hok1.sorted)
              · simp only [Ctr.le, ctr, setRP, setDB]
                simp only [Ctr.le, ctr] at hcs
                omega
              · intro P hnew hinv
                have hrp := rpokP_of_getRP hinv hg
                have hok1 := hokP P hnew hrp
                apply invP_setRP (d' := { d1 with maxShardGroupID := d1.maxShardGroupID + 1, maxShardID := d1.maxShardID + (n + 1) }) hinv
                  (by simpa using e1) (by simpa using e2) h.1
                refine ⟨?_, ?_, hok1.igB, hok1.idxB, hok1.mstB⟩
                · intro g hgm
                  rcases mem_insertSG.1 hgm with rfl | hgm
                  · simp only [e9]; exact hnew.sg 0
                  · exact hok1.sgB g hgm
                · intro g hgm s hs
                  rcases mem_insertSG.1 hgm with rfl | hgm
                  · obtain ⟨j, _, _, hid, _⟩ := hspec s hs
                    rw [hid, e10]; exact hnew.shard j
                  · exact hok1.shardB g hgm s hs

/-! ### ExpandGroups -/

theorem alFind_isSome_iff {α : Type} (k : String) : ∀ l : List (String × α), (alFind k l).isSome = true ↔ k ∈ l.map (·.1)
  | [] => by simp [alFind]
  | (k', v) :: rest => by
    unfold alFind
    split
    · next he => subst he; simp
    · next hne =>
      rw [alFind_isSome_iff k rest]
      simp only [List.map_cons, List.mem_cons]
      constructor
      · exact Or.inr
      · rintro (h | h)
        · exact absurd h.symm hne
        · exact h

theorem sortedKeys_of_keys_eq {α β : Type} {l : List (String × α)} {l' : List (String × β)} (h : l'.map (·.1) = l.map (·.1))
    (hs : SortedKeys l) : SortedKeys l' := by
  unfold SortedKeys at *
  have h1 : (l.map (·.1)).Pairwise (· < ·) := by rw [List.pairwise_map]; exact hs
  rw [← h, List.pairwise_map] at h1
  exact h1

theorem stepFacts_expandGroups (d : Data) : StepFacts d (expandGroups d).1 := by
  unfold expandGroups
  split
  · exact stepFacts_refl d
  · next d1 dbs hx =>
    obtain ⟨f, hkeys, hmem⟩ := expandDBs_spec _ _ _ _ hx
    simp only [done]
    -- the source of a database / policy of the result, through the sorted keys
    have src : KS d → ∀ {n : String} {db' dbi : DB}, alFind n dbs = some db' → alFind n d.databases = some dbi →
        db'.name = dbi.name ∧ db'.defaultRP = dbi.defaultRP ∧ db'.rps.map (·.1) = dbi.rps.map (·.1) ∧
        ∀ kr' ∈ db'.rps, ∃ kr ∈ dbi.rps, kr.1 = kr'.1 ∧ Out d d1 kr.2 kr'.2 := by
      intro hs n db' dbi h1 h2
      obtain ⟨kdb, hkdb, e, a1, a2, _, _, a5, hrs⟩ := hmem _ (alFind_mem h1)
      have : kdb.2 = dbi := by
        have := alFind_of_mem hs.dbs (show (kdb.1, kdb.2) ∈ d.databases from hkdb)
        simp only at e
        rw [e, h2] at this
        exact (Option.some.inj this).symm
      subst this
      exact ⟨a1, a2, a5, hrs⟩
    refine ⟨?_, ?_, ?_, ?_, ?_, ?_, ?_, ?_, ?_⟩
    · intro hk x hx'
      obtain ⟨kdb, hkdb, e, a1, _, _, _, _, hrs⟩ := hmem x hx'
      refine ⟨by rw [a1, ← e]; exact (hk _ hkdb).1, ?_⟩
      intro kr' hkr'
      obtain ⟨kr, hkr, e', o⟩ := hrs kr' hkr'
      rw [o.shape.name, ← e']; exact (hk _ hkdb).2 _ hkr
    · intro hs
      refine ⟨sortedKeys_of_keys_eq hkeys hs.dbs, ?_, ?_⟩
      · intro x hx'
        obtain ⟨kdb, hkdb, _, _, _, _, _, a5, _⟩ := hmem x hx'
        exact sortedKeys_of_keys_eq a5 (hs.rps _ hkdb)
      · intro x hx' y hy
        obtain ⟨kdb, hkdb, _, _, _, _, _, _, hrs⟩ := hmem x hx'
        obtain ⟨kr, hkr, _, o⟩ := hrs y hy
        rw [o.shape.msts]; exact hs.msts _ hkdb _ hkr
    · intro hd _ x hx'
      obtain ⟨kdb, hkdb, _, _, a2, _, _, a5, _⟩ := hmem x hx'
      have h0 := hd _ hkdb
      unfold DefOK defaultDB at h0 ⊢
      rw [a2]
      simp only [Bool.or_eq_true, beq_iff_eq] at h0 ⊢
      rcases h0 with h0 | h0
      · exact Or.inl h0
      · exact Or.inr (by rw [alFind_isSome_iff, a5, ← alFind_isSome_iff]; exact h0)
    · intro hu
      refine uinv_frame hu f.users ?_
      intro k hk'
      simp only
      rw [alFind_isSome_iff, hkeys, ← alFind_isSome_iff]; exact hk'
    · intro hp; exact pinv_frame hp (by simpa [ptPart] using f.pt)
    · intro _ hs _ db k rp rp' _ h1 h2
      unfold lookupRP at h1 h2
      simp only at h2
      cases hdb' : alFind db dbs with
      | none => simp [hdb'] at h2
      | some db' =>
        cases hdbi : alFind db d.databases with
        | none => simp [hdbi] at h1
        | some dbi =>
          simp only [hdb', hdbi, Option.bind_some] at h1 h2
          obtain ⟨_, _, _, hrs⟩ := src hs hdb' hdbi
          obtain ⟨kr, hkr, e, o⟩ := hrs _ (alFind_mem h2)
          have : kr.2 = rp := by
            have := alFind_of_mem (hs.rps _ (alFind_mem hdbi)) (show (kr.1, kr.2) ∈ dbi.rps from hkr)
            simp only at e
            rw [e, h1] at this
            exact (Option.some.inj this).symm
          subst this
          exact Rel.of_same o.shape.vers (fun n hn => by
            have hm := o.shape.msts
            simp only [RP.names] at hn ⊢
            rw [hm] at hn; exact hn)
    · intro hinv
      constructor
      · intro rp hrp
        obtain ⟨kdb', hkdb', kr', hkr', rfl⟩ := mem_allRPs.1 hrp
        simp only at hkdb'
        obtain ⟨kdb, hkdb, _, _, _, _, _, _, hrs⟩ := hmem kdb' hkdb'
        obtain ⟨kr, hkr, _, o⟩ := hrs kr' hkr'
        exact o.ok (ctr d) (Ctr.le_refl _) _ (Ctr.le_refl _) (hinv.1 kr.2 (mem_allRPs.2 ⟨kdb, hkdb, kr, hkr, rfl⟩))
      · intro n hn
        have hnodes : d1.dataNodes = d.dataNodes := by have := f.pt; simp only [ptPart, PtPart.mk.injEq] at this; exact this.2.2.1
        simp only at hn ⊢
        rw [hnodes] at hn
        have := f.cle
        simp only [Ctr.le, ctr] at this
        exact Nat.le_trans (hinv.2 n hn) this.2.2.2.2.2
    · simpa [Ctr.le, ctr] using f.cle
    · intro P hnew hinv
      constructor
      · intro rp hrp
        obtain ⟨kdb', hkdb', kr', hkr', rfl⟩ := mem_allRPs.1 hrp
        simp only at hkdb'
        obtain ⟨kdb, hkdb, _, _, _, _, _, _, hrs⟩ := hmem kdb' hkdb'
        obtain ⟨kr, hkr, _, o⟩ := hrs kr' hkr'
        exact o.okP P d (Ctr.le_refl _) hnew (hinv.1 kr.2 (mem_allRPs.2 ⟨kdb, hkdb, kr, hkr, rfl⟩))
      · intro n hn
        have hnodes : d1.dataNodes = d.dataNodes := by have := f.pt; simp only [ptPart, PtPart.mk.injEq] at this; exact this.2.2.1
        simp only at hn
        rw [hnodes] at hn
        exact hinv.2 n hn

/-! ### every command of the larger model -/

theorem ext_cmds_base (d : Data2) :
    (∀ n db rp, (createSubscription d n db rp).1.base = d.base) ∧ (∀ n db rp, (dropSubscription d n db rp).1.base = d.base) ∧
    (∀ db n q, (createContinuousQuery d db n q).1.base = d.base) ∧ (∀ n db, (dropContinuousQuery d n db).1.base = d.base) ∧
    (∀ n t, (continuousQueryReport d n t).1.base = d.base) ∧ (∀ s, (createStream d s).1.base = d.base) ∧
    (∀ n, (dropStream d n).1.base = d.base) := by
  refine ⟨?_, ?_, ?_, ?_, ?_, ?_, ?_⟩
  · intro n db rp; unfold createSubscription; simp only; repeat' split
    all_goals rfl
  · intro n db rp; unfold dropSubscription; simp only; repeat' split
    all_goals rfl
  · intro db n q; unfold createContinuousQuery; simp only; repeat' split
    all_goals rfl
  · intro n db; unfold dropContinuousQuery; simp only; repeat' split
    all_goals rfl
  · intro n t; rfl
  · intro s; unfold createStream; repeat' split
    all_goals rfl
  · intro n; unfold dropStream; split <;> rfl

/-- **the first-layer state under any command of the larger model** -/
theorem stepFacts_apply2P (pick : Nat) (d : Data2) (c : Cmd2) : StepFacts d.base (apply2P pick d c).1.base := by
  have he := ext_cmds_base d
  cases c with
  | base c =>
    simp only [apply2P]
    split
    · exact stepFacts_refl _
    · exact stepFacts_applyP pick d.base c
  | updateIndexInfoTier i t db rp => exact stepFacts_updateIndexInfoTier d.base i t db rp
  | updatePtVersion db pt => exact stepFacts_updatePtVersion d.base db pt
  | reSharding db rp id t n => exact stepFacts_reSharding d.base db rp id t n
  | expandGroups => exact stepFacts_expandGroups d.base
  | markTakeover b => exact stepFacts_refl _
  | markBalancer b => exact stepFacts_refl _
  | createSubscription n db rp => simp only [apply2P]; rw [he.1]; exact stepFacts_refl _
  | dropSubscription n db rp => simp only [apply2P]; rw [he.2.1]; exact stepFacts_refl _
  | createContinuousQuery db n q => simp only [apply2P]; rw [he.2.2.1]; exact stepFacts_refl _
  | dropContinuousQuery n db => simp only [apply2P]; rw [he.2.2.2.1]; exact stepFacts_refl _
  | continuousQueryReport n t => exact stepFacts_refl _
  | createStream s => simp only [apply2P]; rw [he.2.2.2.2.2.1]; exact stepFacts_refl _
  | dropStream n => simp only [apply2P]; rw [he.2.2.2.2.2.2]; exact stepFacts_refl _

/-- the unconditional invariants of the first-layer state -/
structure Reach (d : Data) : Prop where
  kn : KeysAreNames d
  ks : KS d
  defs : DefInv d
  uinv : UInv d
  pinv : PInv d
  inv : Inv d

theorem reach_init : Reach Data.init := ⟨kn_init, ks_init, defInv_init, uinv_init, pinv_init, inv_init⟩

theorem Reach.step {d d' : Data} (h : Reach d) (f : StepFacts d d') : Reach d' :=
  ⟨f.kn h.kn, f.ks h.ks, f.defs h.defs h.kn, f.uinv h.uinv, f.pinv h.pinv, f.inv h.inv⟩

theorem reach_applyAll2 {d : Data2} (h : Reach d.base) : ∀ cs : List Cmd2, Reach (applyAll2 d cs).base
  | [] => h
  | c :: cs => reach_applyAll2 (h.step (stepFacts_apply2P 0 d c)) cs

/-- **T12** every catalogue reachable with the 38 modelled command types: ids in use stay below
the counters, groups stay sorted, the default policy exists, user names are unique with at most one
admin and privileges only on existing databases, every partition view is complete and numbered in
order. -/
theorem invariants2 (log : List Cmd2) :
    let d := (applyAll2 Data2.init log).base
    countersBound d = true ∧ groupsSorted d = true ∧ defaultsExist d = true ∧ usersOK d = true ∧ ptViewOK d = true := by
  have h := reach_applyAll2 (d := Data2.init) reach_init log
  exact ⟨(clauses_of_inv h.inv).1, (clauses_of_inv h.inv).2, (defInv_iff _).1 h.defs, usersOK_of_inv h.uinv, ptViewOK_of_inv h.pinv⟩

theorem reachable2_keysAreNames (log : List Cmd2) : KeysAreNames (applyAll2 Data2.init log).base :=
  (reach_applyAll2 (d := Data2.init) reach_init log).kn

/-- "old, or above the counter of the state the command started from" satisfies `NewIdsAll` -/
theorem freshPred_newAll (d : Data) : NewIdsAll (freshPred d) d :=
  ⟨fun i => Or.inr (by omega), fun i => Or.inr (by omega), fun i => Or.inr (by omega), fun i => Or.inr (by omega),
   fun i => Or.inr (by omega), fun i => Or.inr (by omega)⟩

/-- **T13** identifiers are never handed out twice, all 38 command types -/
theorem ids_never_reused2 (d : Data2) (c : Cmd2) :
    let d' := (apply2 d c).1.base
    (∀ id ∈ sgIds d', id ∈ sgIds d.base ∨ d.base.maxShardGroupID < id) ∧
    (∀ id ∈ shardIds d', id ∈ shardIds d.base ∨ d.base.maxShardID < id) ∧
    (∀ id ∈ igIds d', id ∈ igIds d.base ∨ d.base.maxIndexGroupID < id) ∧
    (∀ id ∈ indexIds d', id ∈ indexIds d.base ∨ d.base.maxIndexID < id) ∧
    (∀ id ∈ mstIds d', id ∈ mstIds d.base ∨ d.base.maxMstID ≤ id) ∧
    (∀ id ∈ nodeIds d', id ∈ nodeIds d.base ∨ d.base.maxNodeID < id) := by
  have h := (stepFacts_apply2P 0 d c).fresh (freshPred d.base) (freshPred_newAll d.base) (freshPred_base d.base)
  refine ⟨?_, ?_, ?_, ?_, ?_, ?_⟩
  · intro id hid
    obtain ⟨rp, hrp, g, hg, rfl⟩ := mem_sgIds.1 hid
    exact (h.1 rp hrp).sgB g hg
  · intro id hid
    obtain ⟨rp, hrp, g, hg, s, hs, rfl⟩ := mem_shardIds.1 hid
    exact (h.1 rp hrp).shardB g hg s hs
  · intro id hid
    obtain ⟨rp, hrp, g, hg, rfl⟩ := mem_igIds.1 hid
    exact (h.1 rp hrp).igB g hg
  · intro id hid
    obtain ⟨rp, hrp, g, hg, x, hx, rfl⟩ := mem_indexIds.1 hid
    exact (h.1 rp hrp).idxB g hg x hx
  · intro id hid
    obtain ⟨rp, hrp, m, hm, rfl⟩ := mem_mstIds.1 hid
    exact (h.1 rp hrp).mstB m hm
  · intro id hid
    obtain ⟨n, hn, rfl⟩ := mem_nodeIds.1 hid
    exact h.2 n hn

end OG.C16
