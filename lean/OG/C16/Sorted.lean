/-
C16 — lemmas about the list operations on shard groups: insertion keeps the order, the
update-first and prune operations keep ids and spans.
-/
import OG.C16.Inv

namespace OG.C16
open OG.Meta

theorem pairwiseB_iff {α : Type} (r : α → α → Bool) : ∀ l : List α, pairwiseB r l = true ↔ l.Pairwise (fun a b => r a b = true)
  | [] => by simp [pairwiseB]
  | x :: xs => by
    simp only [pairwiseB, Bool.and_eq_true, List.all_eq_true, List.pairwise_cons]
    rw [pairwiseB_iff r xs]

/-- `a` does not come after `b` in the order (end time, start time) -/
def leSG (a b : SG) : Prop := (!spanLess b.start b.stop a.start a.stop) = true

theorem sortedRP_iff (rp : RP) : sortedRP rp = true ↔ rp.shardGroups.Pairwise leSG := by
  unfold sortedRP; rw [pairwiseB_iff]; rfl

theorem spanLess_irrefl_of (s1 e1 s2 e2 : Int) (h : spanLess s1 e1 s2 e2 = true) : spanLess s2 e2 s1 e1 = false := by
  unfold spanLess at *
  split at h <;> split <;> simp_all <;> omega

/-- `¬ g < r` and `g < x` give `r < x` (the order is linear) -/
theorem spanLess_of_not_of (sg eg sr er sx ex : Int) (h1 : spanLess sg eg sr er = false) (h2 : spanLess sg eg sx ex = true) :
    spanLess sr er sx ex = true := by
  unfold spanLess at *
  split at h1 <;> split at h2 <;> split <;> simp_all <;> omega

theorem mem_insertSG {g y : SG} : ∀ {l : List SG}, y ∈ insertSG g l ↔ y = g ∨ y ∈ l
  | [] => by simp [insertSG]
  | x :: rest => by
    unfold insertSG
    split
    · simp
    · simp only [List.mem_cons, mem_insertSG (l := rest)]
      constructor
      · rintro (h | h | h)
        · exact Or.inr (Or.inl h)
        · exact Or.inl h
        · exact Or.inr (Or.inr h)
      · rintro (h | h | h)
        · exact Or.inr (Or.inl h)
        · exact Or.inl h
        · exact Or.inr (Or.inr h)

theorem sorted_insertSG (g : SG) : ∀ l : List SG, l.Pairwise leSG → (insertSG g l).Pairwise leSG
  | [], _ => by simp [insertSG]
  | x :: rest, h => by
    rw [List.pairwise_cons] at h
    unfold insertSG
    split
    · next hc =>
      simp only [Bool.and_eq_true, decide_eq_true_eq, List.all_eq_true] at hc
      rw [List.pairwise_cons]
      refine ⟨?_, List.pairwise_cons.2 h⟩
      intro y hy
      rcases List.mem_cons.1 hy with rfl | hy
      · unfold leSG; simp [spanLess_irrefl_of _ _ _ _ hc.1]
      · unfold leSG; simp [spanLess_irrefl_of _ _ _ _ (hc.2 y hy)]
    · next hc =>
      rw [List.pairwise_cons]
      refine ⟨?_, sorted_insertSG g rest h.2⟩
      intro y hy
      rcases mem_insertSG.1 hy with rfl | hy
      · -- ¬ (g < x): otherwise some later r has ¬ g < r, hence r < x, contradicting sortedness
        unfold leSG
        cases hgx : spanLess y.start y.stop x.start x.stop with
        | false => rfl
        | true =>
          exfalso
          apply hc
          simp only [Bool.and_eq_true, decide_eq_true_eq, List.all_eq_true]
          refine ⟨hgx, fun r hr => ?_⟩
          cases hgr : spanLess y.start y.stop r.start r.stop with
          | true => rfl
          | false =>
            have := spanLess_of_not_of _ _ _ _ _ _ hgr hgx
            have hs := h.1 r hr
            unfold leSG at hs
            simp [this] at hs
      · exact h.1 y hy

/-! ### update-first -/

theorem mem_updFirst {α : Type} {p : α → Bool} {f : α → α} {y : α} : ∀ {l : List α}, y ∈ updFirst p f l → y ∈ l ∨ ∃ x ∈ l, y = f x
  | [], h => by simp [updFirst] at h
  | x :: rest, h => by
    unfold updFirst at h
    split at h
    · rcases List.mem_cons.1 h with rfl | h
      · exact Or.inr ⟨x, List.mem_cons_self, rfl⟩
      · exact Or.inl (List.mem_cons_of_mem _ h)
    · rcases List.mem_cons.1 h with rfl | h
      · exact Or.inl List.mem_cons_self
      · rcases mem_updFirst h with h | ⟨z, hz, rfl⟩
        · exact Or.inl (List.mem_cons_of_mem _ h)
        · exact Or.inr ⟨z, List.mem_cons_of_mem _ hz, rfl⟩

/-- update-first with a function that keeps a relation's view of the elements keeps Pairwise -/
theorem pairwise_updFirst {α : Type} {R : α → α → Prop} {p : α → Bool} {f : α → α}
    (hl : ∀ a b, R a b → R (f a) b) (hr : ∀ a b, R a b → R a (f b)) :
    ∀ l : List α, l.Pairwise R → (updFirst p f l).Pairwise R
  | [], _ => by simp [updFirst]
  | x :: rest, h => by
    rw [List.pairwise_cons] at h
    unfold updFirst
    split
    · rw [List.pairwise_cons]
      exact ⟨fun y hy => hl _ _ (h.1 y hy), h.2⟩
    · rw [List.pairwise_cons]
      refine ⟨fun y hy => ?_, pairwise_updFirst hl hr rest h.2⟩
      rcases mem_updFirst hy with hy | ⟨z, hz, rfl⟩
      · exact h.1 y hy
      · exact hr _ _ (h.1 z hz)

/-! ### prune -/

/-- what `pruneSGs` keeps of a group: everything but the delete marks of its shards -/
def SameSG (y' y : SG) : Prop :=
  y'.id = y.id ∧ y'.start = y.start ∧ y'.stop = y.stop ∧ y'.deleted = y.deleted ∧ y'.engine = y.engine ∧
  ∀ s' ∈ y'.shards, ∃ s ∈ y.shards, s'.id = s.id ∧ s'.indexID = s.indexID ∧ s'.owners = s.owners

theorem SameSG.refl (y : SG) : SameSG y y := ⟨rfl, rfl, rfl, rfl, rfl, fun s hs => ⟨s, hs, rfl, rfl, rfl⟩⟩

theorem markShardIn_same (id : Nat) (g : SG) : SameSG (markShardIn id g) g := by
  unfold markShardIn
  split
  · split
    · refine ⟨rfl, rfl, rfl, rfl, rfl, fun s' hs' => ?_⟩
      rcases mem_updFirst hs' with hs' | ⟨z, hz, rfl⟩
      · exact ⟨s', hs', rfl, rfl, rfl⟩
      · exact ⟨z, hz, rfl, rfl, rfl⟩
    · exact SameSG.refl g
  · exact SameSG.refl g

theorem mem_pruneSGs {id : Nat} {y' : SG} : ∀ {l : List SG}, y' ∈ (pruneSGs id l).1 → ∃ y ∈ l, SameSG y' y
  | [], h => by simp [pruneSGs] at h
  | g :: rest, h => by
    unfold pruneSGs at h
    simp only at h
    split at h
    · obtain ⟨y, hy, hs⟩ := mem_pruneSGs (l := rest) h
      exact ⟨y, List.mem_cons_of_mem _ hy, hs⟩
    · rcases List.mem_cons.1 h with rfl | h
      · exact ⟨g, List.mem_cons_self, markShardIn_same id g⟩
      · obtain ⟨y, hy, hs⟩ := mem_pruneSGs (l := rest) h
        exact ⟨y, List.mem_cons_of_mem _ hy, hs⟩

theorem sorted_pruneSGs (id : Nat) : ∀ l : List SG, l.Pairwise leSG → (pruneSGs id l).1.Pairwise leSG
  | [], _ => by simp [pruneSGs]
  | g :: rest, h => by
    rw [List.pairwise_cons] at h
    have ih := sorted_pruneSGs id rest h.2
    unfold pruneSGs
    simp only
    split
    · exact ih
    · rw [List.pairwise_cons]
      refine ⟨fun y' hy' => ?_, ih⟩
      obtain ⟨y, hy, hs⟩ := mem_pruneSGs hy'
      have := h.1 y hy
      have hg := markShardIn_same id g
      unfold leSG at this ⊢
      rw [hs.2.1, hs.2.2.1, hg.2.1, hg.2.2.1]
      exact this

end OG.C16
