/-
C16 — property theorems over the larger model (OG/Meta/Model2.lean, 38 command types): the
history theorems (identifiers handed out in increasing order, versioned names at most once), a
failed command changes nothing, and the conditional clauses under `safeStep2`.
-/
import OG.C16.Step2
import OG.C16.Props4
import OG.C16.ExpandInv

namespace OG.C16
open OG.Meta

/-! ### traces of the larger model -/

def stateAt2 (log : List Cmd2) (m : Nat) : Data2 := applyAll2 Data2.init (log.take m)

/-- the first-layer part of the catalogue after the first `m` commands -/
def baseAt (log : List Cmd2) (m : Nat) : Data := (stateAt2 log m).base

theorem applyAll2_append (d : Data2) (l1 l2 : List Cmd2) : applyAll2 d (l1 ++ l2) = applyAll2 (applyAll2 d l1) l2 := by
  induction l1 generalizing d with
  | nil => rfl
  | cons c l1 ih => simp [applyAll2, ih]

theorem stateAt2_succ (log : List Cmd2) (m : Nat) (h : m < log.length) :
    stateAt2 log (m + 1) = (apply2 (stateAt2 log m) log[m]).1 := by
  unfold stateAt2
  rw [List.take_succ_eq_append_getElem h, applyAll2_append]
  rfl

theorem reach_baseAt (log : List Cmd2) (m : Nat) : Reach (baseAt log m) :=
  reach_applyAll2 (d := Data2.init) reach_init _

theorem facts_baseAt (log : List Cmd2) (m : Nat) (h : m < log.length) : StepFacts (baseAt log m) (baseAt log (m + 1)) := by
  unfold baseAt
  rw [stateAt2_succ log m h]
  exact stepFacts_apply2P 0 _ _

def NoWrapLog2 (log : List Cmd2) : Prop := ∀ m, m ≤ log.length → NoWrap (baseAt log m)

theorem stepOK_baseAt (log : List Cmd2) (hnw : NoWrapLog2 log) (m : Nat) (h : m < log.length) : StepOK (baseAt log m) (baseAt log (m + 1)) :=
  (facts_baseAt log m h).stepOK (reach_baseAt log m).kn (reach_baseAt log m).ks (hnw m (Nat.le_of_lt h))

/-! ### versioned names -/

theorem version_counter_monotone2 (log : List Cmd2) (hnw : NoWrapLog2 log) (db k : String) (hk : k ≠ "") (a : Nat) :
    ∀ b, a ≤ b → b ≤ log.length → (∀ m, a ≤ m → m ≤ b → (lookupRP (baseAt log m) db k).isSome = true) →
    ∀ rpa rpb, lookupRP (baseAt log a) db k = some rpa → lookupRP (baseAt log b) db k = some rpb →
    ∀ o v, rpa.ver o = some v → ∃ v', rpb.ver o = some v' ∧ v ≤ v' := by
  intro b
  induction b with
  | zero =>
    intro hab _ _ rpa rpb ha hb o v hv
    have : a = 0 := Nat.le_zero.1 hab
    subst this
    rw [ha] at hb; cases hb
    exact ⟨v, hv, Nat.le_refl _⟩
  | succ b ih =>
    intro hab hbl hpres rpa rpb ha hb o v hv
    by_cases hab' : a = b + 1
    · subst hab'
      rw [ha] at hb; cases hb
      exact ⟨v, hv, Nat.le_refl _⟩
    · have hle : a ≤ b := by omega
      have hsome := hpres b hle (Nat.le_succ b)
      cases hm : lookupRP (baseAt log b) db k with
      | none => simp [hm] at hsome
      | some rpm =>
        obtain ⟨v1, hv1, hle1⟩ := ih hle (by omega) (fun m h1 h2 => hpres m h1 (by omega)) rpa rpm ha hm o v hv
        have hstep := stepOK_baseAt log hnw b (by omega) db k rpm rpb hk hm hb
        obtain ⟨v2, hv2, hle2⟩ := hstep.mono o v1 hv1
        exact ⟨v2, hv2, Nat.le_trans hle1 hle2⟩

theorem issued_shape2 (log : List Cmd2) (hnw : NoWrapLog2 log) (i : Nat) (hi : i < log.length) (db k n : String) (hk : k ≠ "")
    (h : IssuedAt (baseAt log i) (baseAt log (i + 1)) db k n) :
    ∃ rp rp' o v, lookupRP (baseAt log i) db k = some rp ∧ lookupRP (baseAt log (i + 1)) db k = some rp' ∧
      n = nameWithVersion o v ∧ v < 65536 ∧ rp'.ver o = some v ∧ ∀ w, rp.ver o = some w → w < v := by
  obtain ⟨rp, rp', h1, h2, hn, hnot⟩ := h
  obtain ⟨o, v, e, hlt, hv, hup⟩ := (stepOK_baseAt log hnw i hi db k rp rp' hk h1 h2).fresh n hn hnot
  exact ⟨rp, rp', o, v, h1, h2, e, hlt, hv, hup⟩

/-- **T7′** `versioned_name_unique` over the 38 command types (ExpandGroups, ReSharding, … included) -/
theorem versioned_name_unique2 (log : List Cmd2) (hnw : NoWrapLog2 log) (i j : Nat) (hij : i < j) (hj : j < log.length)
    (db k n : String) (hk : k ≠ "")
    (hi : IssuedAt (baseAt log i) (baseAt log (i + 1)) db k n)
    (hjj : IssuedAt (baseAt log j) (baseAt log (j + 1)) db k n) :
    ∃ m, i < m ∧ m ≤ j ∧ lookupRP (baseAt log m) db k = none := by
  apply Classical.byContradiction
  intro hno
  have hlive : ∀ m, i < m → m ≤ j → (lookupRP (baseAt log m) db k).isSome = true := by
    intro m h1 h2
    cases hm : lookupRP (baseAt log m) db k with
    | none => exact absurd ⟨m, h1, h2, hm⟩ hno
    | some _ => rfl
  obtain ⟨_, rp1, o1, v1, _, hr1, e1, hlt1, hver1, _⟩ := issued_shape2 log hnw i (by omega) db k n hk hi
  obtain ⟨rpj, _, o2, v2, hrj, _, e2, hlt2, _, hup2⟩ := issued_shape2 log hnw j hj db k n hk hjj
  obtain ⟨rfl, rfl⟩ := nameWithVersion_inj hlt1 hlt2 (e1.symm.trans e2)
  obtain ⟨w, hw, hle⟩ := version_counter_monotone2 log hnw db k hk (i + 1) j (by omega) (Nat.le_of_lt hj)
    (fun m h1 h2 => hlive m (by omega) h2) rp1 rpj hr1 hrj o1 v1 hver1
  have := hup2 w hw
  omega

/-! ### numeric ids -/

theorem ctr_le_baseAt (log : List Cmd2) (a b : Nat) (hab : a ≤ b) (hb : b ≤ log.length) : (ctr (baseAt log a)).le (ctr (baseAt log b)) := by
  induction b with
  | zero => have : a = 0 := Nat.le_zero.1 hab; subst this; exact Ctr.le_refl _
  | succ b ih =>
    by_cases h : a = b + 1
    · subst h; exact Ctr.le_refl _
    · exact Ctr.le_trans (ih (by omega) (by omega)) (facts_baseAt log b (by omega)).ctr

theorem kind_bounded2 (k : IdKind) (hk : k ∈ idKinds) (log : List Cmd2) (m : Nat) :
    ∀ id ∈ k.ids (baseAt log m), k.below id (k.counter (baseAt log m)) := by
  have hc := clauses_of_inv (reach_baseAt log m).inv
  unfold countersBound at hc
  simp only [Bool.and_eq_true, List.all_eq_true, decide_eq_true_eq] at hc
  obtain ⟨⟨⟨⟨⟨h1, h2⟩, h3⟩, h4⟩, h5⟩, h6⟩ := hc.1
  simp only [idKinds, List.mem_cons, List.mem_nil_iff, or_false] at hk
  rcases hk with rfl | rfl | rfl | rfl | rfl | rfl <;> intro id hid <;> simp only [IdKind.below, kSG, kShard, kIG, kIndex, kMst, kNode] at *
  · simpa using h1 id hid
  · simpa using h2 id hid
  · simpa using h3 id hid
  · simpa using h4 id hid
  · simpa using h5 id hid
  · simpa using h6 id hid

theorem kind_fresh2 (k : IdKind) (hk : k ∈ idKinds) (d : Data2) (c : Cmd2) :
    ∀ id ∈ k.ids (apply2 d c).1.base, id ∈ k.ids d.base ∨ k.fresh id (k.counter d.base) := by
  have h := ids_never_reused2 d c
  simp only [idKinds, List.mem_cons, List.mem_nil_iff, or_false] at hk
  rcases hk with rfl | rfl | rfl | rfl | rfl | rfl <;> intro id hid <;> simp only [IdKind.fresh, kSG, kShard, kIG, kIndex, kMst, kNode] at *
  · simpa using h.1 id hid
  · simpa using h.2.1 id hid
  · simpa using h.2.2.1 id hid
  · simpa using h.2.2.2.1 id hid
  · simpa using h.2.2.2.2.1 id hid
  · simpa using h.2.2.2.2.2 id hid

theorem kind_counter_mono2 (k : IdKind) (hk : k ∈ idKinds) (log : List Cmd2) (a b : Nat) (hab : a ≤ b) (hb : b ≤ log.length) :
    k.counter (baseAt log a) ≤ k.counter (baseAt log b) := by
  have h := ctr_le_baseAt log a b hab hb
  unfold Ctr.le ctr at h
  simp only [idKinds, List.mem_cons, List.mem_nil_iff, or_false] at hk
  rcases hk with rfl | rfl | rfl | rfl | rfl | rfl <;> simp only [kSG, kShard, kIG, kIndex, kMst, kNode]
  · exact h.1
  · exact h.2.1
  · exact h.2.2.1
  · exact h.2.2.2.1
  · exact h.2.2.2.2.1
  · exact h.2.2.2.2.2

/-- **T9′** ids of all six kinds are handed out in strictly increasing order over every log of
the 38 command types — ExpandGroups and ReSharding hand out shard and index ids too. -/
theorem ids_strictly_increasing2 (k : IdKind) (hk : k ∈ idKinds) (log : List Cmd2) (i j : Nat) (hij : i < j) (hj : j < log.length)
    (id₁ id₂ : Nat)
    (h1 : id₁ ∈ k.ids (baseAt log (i + 1)) ∧ id₁ ∉ k.ids (baseAt log i))
    (h2 : id₂ ∈ k.ids (baseAt log (j + 1)) ∧ id₂ ∉ k.ids (baseAt log j)) : id₁ < id₂ := by
  have hb := kind_bounded2 k hk log (i + 1) id₁ h1.1
  have hm := kind_counter_mono2 k hk log (i + 1) j (by omega) (by omega)
  have hf := kind_fresh2 k hk (stateAt2 log j) log[j] id₂
  rw [← stateAt2_succ log j hj] at hf
  rcases hf h2.1 with h | h
  · exact absurd h h2.2
  · unfold IdKind.below at hb
    unfold IdKind.fresh at h
    unfold baseAt at hb hm
    split at hb <;> simp_all <;> omega

/-! ### a failed command changes nothing -/

theorem failed2_unchanged (d : Data2) (c : Cmd2) (h : (apply2 d c).2 ≠ .ok) : (apply2 d c).1 = d := by
  unfold apply2 at h ⊢
  cases c with
  | base c =>
    simp only [apply2P] at h ⊢
    split
    · rfl
    · next hb =>
      simp only [hb] at h
      have hf : Result.failed (applyP 0 d.base c).2 = true := by
        cases hr : (applyP 0 d.base c).2 <;> simp_all [Result.failed]
      have hbase := failed_unchanged_pick d.base 0 c hf
      have hno : (applyP 0 d.base c).2.isOk = false := by
        cases hr : (applyP 0 d.base c).2 <;> simp_all [Result.isOk]
      simp only [syncExt, hno, hbase]
      cases d; rfl
  | updateIndexInfoTier i t db rp =>
    simp only [apply2P] at h ⊢
    have : (updateIndexInfoTier d.base i t db rp).1 = d.base := by
      revert h; unfold updateIndexInfoTier; repeat' split
      all_goals first | (intro _; rfl) | (intro h; simp [done] at h)
    rw [this]
  | updatePtVersion db pt =>
    simp only [apply2P] at h
    exfalso; apply h
    unfold updatePtVersion; repeat' split
    all_goals rfl
  | reSharding db rp id t n =>
    simp only [apply2P] at h ⊢
    have : (reSharding d.base db rp id t n).1 = d.base := by
      revert h; unfold reSharding; simp only; repeat' split
      all_goals first | (intro _; rfl) | (intro h; simp [done] at h)
    rw [this]
  | expandGroups =>
    simp only [apply2P] at h ⊢
    have : (expandGroups d.base).1 = d.base := by
      revert h; unfold expandGroups; split
      · intro _; rfl
      · intro h; simp [done] at h
    rw [this]
  | markTakeover b => simp [apply2P] at h
  | markBalancer b => simp [apply2P] at h
  | createSubscription n db rp =>
    simp only [apply2P] at h ⊢
    revert h; unfold createSubscription; simp only; repeat' split
    all_goals first | (intro _; rfl) | (intro h; simp at h)
  | dropSubscription n db rp =>
    simp only [apply2P] at h ⊢
    revert h; unfold dropSubscription; simp only; repeat' split
    all_goals first | (intro _; rfl) | (intro h; simp at h)
  | createContinuousQuery db n q =>
    simp only [apply2P] at h ⊢
    revert h; unfold createContinuousQuery; simp only; repeat' split
    all_goals first | (intro _; rfl) | (intro h; simp at h)
  | dropContinuousQuery n db =>
    simp only [apply2P] at h ⊢
    revert h; unfold dropContinuousQuery; simp only; repeat' split
    all_goals first | (intro _; rfl) | (intro h; simp at h)
  | continuousQueryReport n t => simp [apply2P, continuousQueryReport] at h
  | createStream s =>
    simp only [apply2P] at h ⊢
    revert h; unfold createStream; repeat' split
    all_goals first | (intro _; rfl) | (intro h; simp at h)
  | dropStream n =>
    simp only [apply2P] at h ⊢
    revert h; unfold dropStream; split
    · intro h; simp at h
    · intro _; rfl

/-! ### the conditional clauses -/

/-- index ids survive a tier update -/
theorem tierIGs_ids_fwd (id t : Nat) : ∀ (igs : List IG) (g : IG), g ∈ igs →
    ∃ g' ∈ updFirst (fun g => g.indexes.any (·.id = id))
      (fun g => { g with indexes := updFirst (·.id = id) (fun x => { x with tier := t }) g.indexes }) igs,
      ∀ x ∈ g.indexes, ∃ x' ∈ g'.indexes, x'.id = x.id
  | [], _, h => by cases h
  | a :: rest, g, h => by
    have inner : ∀ (l : List Index) (x : Index), x ∈ l → ∃ x' ∈ updFirst (·.id = id) (fun x => { x with tier := t }) l, x'.id = x.id := by
      intro l
      induction l with
      | nil => intro x hx; cases hx
      | cons b l ih =>
        intro x hx
        unfold updFirst
        split
        · rcases List.mem_cons.1 hx with rfl | hx
          · exact ⟨_, List.mem_cons_self, rfl⟩
          · exact ⟨x, List.mem_cons_of_mem _ hx, rfl⟩
        · rcases List.mem_cons.1 hx with rfl | hx
          · exact ⟨x, List.mem_cons_self, rfl⟩
          · obtain ⟨x', hx', e⟩ := ih x hx
            exact ⟨x', List.mem_cons_of_mem _ hx', e⟩
    unfold updFirst
    split
    · rcases List.mem_cons.1 h with rfl | h
      · exact ⟨_, List.mem_cons_self, fun x hx => inner _ x hx⟩
      · exact ⟨g, List.mem_cons_of_mem _ h, fun x hx => ⟨x, hx, rfl⟩⟩
    · rcases List.mem_cons.1 h with rfl | h
      · exact ⟨g, List.mem_cons_self, fun x hx => ⟨x, hx, rfl⟩⟩
      · obtain ⟨g', hg', hx⟩ := tierIGs_ids_fwd id t rest g h
        exact ⟨g', List.mem_cons_of_mem _ hg', hx⟩

theorem strong_updateIndexInfoTier {d : Data} (h : StrongInv d) (id t : Nat) (db rp : String) : StrongInv (updateIndexInfoTier d id t db rp).1 := by
  have hf := stepFacts_updateIndexInfoTier d id t db rp
  refine ⟨hf.inv h.inv, hf.defs h.defs h.keys, hf.kn h.keys, ?_, ?_⟩
  · unfold updateIndexInfoTier
    split
    · exact h.groups
    · next dbi k r hg =>
      split
      · exact ginv_setRP h.groups rfl (getRP_ok hg).1 (gok_same (gok_of_getRP h.groups hg) rfl rfl)
      · exact h.groups
  · unfold updateIndexInfoTier
    split
    · exact h.refs
    · next dbi k r hg =>
      split
      · have hr := refsOK_of_getRP h.refs hg
        apply refs_setRP h.refs rfl (Nat.le_refl _) (getRP_ok hg).1
        refine ⟨?_, hr.owners, hr.len⟩
        intro g hgm s hs
        obtain ⟨ig, hig, x, hx, e⟩ := mem_rpIndexIds.1 (hr.index g hgm s hs)
        obtain ⟨ig', hig', hfw⟩ := tierIGs_ids_fwd id t r.indexGroups ig hig
        obtain ⟨x', hx', e'⟩ := hfw x hx
        exact mem_rpIndexIds.2 ⟨ig', hig', x', hx', e'.trans e⟩
      · exact h.refs

theorem strong_updatePtVersion {d : Data} (h : StrongInv d) (db : String) (pt : Nat) : StrongInv (updatePtVersion d db pt).1 := by
  have hf := stepFacts_updatePtVersion d db pt
  refine ⟨hf.inv h.inv, hf.defs h.defs h.keys, hf.kn h.keys, ?_, ?_⟩
  · unfold updatePtVersion
    repeat' split
    all_goals first | exact h.groups | exact ginv_of_eq h.groups rfl
  · unfold updatePtVersion
    repeat' split
    all_goals first | exact h.refs | exact refs_of_eq h.refs rfl (Nat.le_refl _)

/-- the side condition on one step of the larger model: a first-layer command must be safe in
the first-layer sense; ReSharding (it splits the last group inside its span, by construction) is
excluded.  ExpandGroups is safe (`strong_expandGroups`, ExpandInv.lean). -/
def safeStep2 (d : Data2) : Cmd2 → Bool
  | .base c => safeStep d.base c
  | .reSharding .. => false
  | _ => true

theorem wf_invariant2_partial (d : Data2) (c : Cmd2) (h : StrongInv d.base) (hs : safeStep2 d c = true) : StrongInv (apply2 d c).1.base := by
  have he := ext_cmds_base d
  unfold apply2
  cases c with
  | base c =>
    simp only [apply2P]
    split
    · exact h
    · exact wf_invariant_partial d.base c h hs
  | updateIndexInfoTier i t db rp => exact strong_updateIndexInfoTier h i t db rp
  | updatePtVersion db pt => exact strong_updatePtVersion h db pt
  | reSharding db rp id t n => simp [safeStep2] at hs
  | expandGroups => exact strong_expandGroups h
  | markTakeover b => exact h
  | markBalancer b => exact h
  | createSubscription n db rp => simp only [apply2P]; rw [he.1]; exact h
  | dropSubscription n db rp => simp only [apply2P]; rw [he.2.1]; exact h
  | createContinuousQuery db n q => simp only [apply2P]; rw [he.2.2.1]; exact h
  | dropContinuousQuery n db => simp only [apply2P]; rw [he.2.2.2.1]; exact h
  | continuousQueryReport n t => exact h
  | createStream s => simp only [apply2P]; rw [he.2.2.2.2.2.1]; exact h
  | dropStream n => simp only [apply2P]; rw [he.2.2.2.2.2.2]; exact h

def safeLog2 (d : Data2) : List Cmd2 → Bool
  | [] => true
  | c :: cs => safeStep2 d c && safeLog2 (apply2 d c).1 cs

theorem strongInv_applyAll2 {d : Data2} (h : StrongInv d.base) : ∀ cs : List Cmd2, safeLog2 d cs = true → StrongInv (applyAll2 d cs).base
  | [], _ => h
  | c :: cs, hs => by
    simp only [safeLog2, Bool.and_eq_true] at hs
    exact strongInv_applyAll2 (wf_invariant2_partial d c h hs.1) cs hs.2

/-- **T7″** after any log of the larger model all of whose steps are safe, the catalogue satisfies
every clause of WF but the within-state uniqueness of ids. -/
theorem wf_reachable2_partial (log : List Cmd2) (hs : safeLog2 Data2.init log = true) : WFcore (applyAll2 Data2.init log).base :=
  wfcore_of_strongInv (strongInv_applyAll2 (d := Data2.init) strongInv_init log hs)

/-! ### non-vacuity -/

def demoLog2 : List Cmd2 := [
  .base (.createDataNode "n1:8400" "n1:8401" ""),
  .base (.createDatabase "db0" none 1),
  .base (.createDbPtView "db0"),
  .base (.createMeasurement "db0" "autogen" "m0" (some ⟨["t0"], "hash", 0⟩) 0 []),
  .base (.createShardGroup "db0" "autogen" (3 * hour) 1 0 0),
  .base (.createDataNode "n2:8400" "n2:8401" ""),
  .expandGroups,
  .updateIndexInfoTier 2 3 "db0" "autogen",
  .updatePtVersion "db0" 1,
  .createSubscription "sub0" "db0" "autogen",
  .createContinuousQuery "db0" "cq0" "SELECT 1",
  .createStream ⟨"s0", 0, "db0", "autogen", "m0", "db0", "autogen", "m1", hour, 0⟩,
  .base (.markMeasurementDelete "db0" "autogen" "m0")]

/-- ExpandGroups gave the group a second shard (id 2) on a second index (id 2); the stream on m0
blocks its deletion -/
example : (shardIds (applyAll2 Data2.init demoLog2).base, indexIds (applyAll2 Data2.init demoLog2).base,
    (applyAll2 Data2.init demoLog2).ext.streams.map (·.id), (apply2 (applyAll2 Data2.init (demoLog2.take 12)) (demoLog2.getD 12 .expandGroups)).2) =
    ([1, 2], [1, 2], [0], .err eDropStreamFirst) := by decide +kernel

/-- the whole log, ExpandGroups included, is safe; a ReSharding is not -/
example : safeLog2 Data2.init demoLog2 = true := by decide +kernel
example : safeStep2 Data2.init (.reSharding "db0" "autogen" 1 0 1) = false := by decide +kernel


end OG.C16
